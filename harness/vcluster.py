"""Deterministic simulation of the REAL JADE entry points (DESIGN 5.3).

The real `run_submit_jobs` / `try-submit-jobs` / `jade-internal run-jobs` / `cancel-jobs` / `resubmit-jobs` /
`show-status` callbacks run as *virtual processes*: Python threads passing a baton, so exactly one runs at a
time and control changes hands only at yield points:

  ACQ <lock>     about to acquire a SoftFileLock marker (cluster lock, result-file locks)
  EXT <cmd>      about to run an external command (sbatch, squeue, scancel, jade …, lifecycle hooks)
  START <job>    about to Popen a job command
  SLEEP          time.sleep
  MUT <file>     about to mutate a file under the output directory outside any lock (marker, batch files …)
  WAIT <pid>     waiting for a child virtual process

Nothing under /repo is edited: the process boundary (`subprocess`, `SoftFileLock`, `time.sleep`,
`socket.gethostname`, `os.environ`, file-mutation primitives) is replaced from here, and a few internal
functions are wrapped *for observation only* (they call the original).

A kill parks the thread forever (no `finally` runs — SIGKILL / node loss); an injected failure raises or
returns non-zero at the boundary.

Faults at the boundary (every process kind, node runners included):
  * external command returns non-zero (`fail_ext`); `scancel` of an id that is no longer queued/running returns 1
    ("Invalid job id specified"), as real SLURM does for purged ids;
  * external command HANGS (`hang`): the process stays parked at its EXT point for T virtual seconds.  Virtual
    seconds (`now`) pass through `time.sleep` of the other processes; while a hang is pending, sleepers wake in the
    order of their wake-up times (so 60 one-second retries of one process fit into a 100 s hang of another even if a
    third one sleeps 60 s at a time), everything else stays freely interleaved;
  * file mutation fails BEFORE it happens (`fail_write`, EDQUOT raised by open/rename/remove/touch) or AFTER the
    open succeeded (`late`: the file is created / truncated by the real open, the first write raises EDQUOT - what
    quota and ENOSPC errors usually look like); the same two flavours for a kill (`kill_in`; a process killed
    between open and close leaves the truncated file, its buffered writes are lost);
  * lock acquisition times out.
"""
import builtins
import errno
import functools
import json
import logging
import os
import re
import shlex
import socket
import sys
import threading
import time as _time
from pathlib import Path

import common
import jadeenv
from jadeenv import jname, jid

_tls = threading.local()
REAL_OPEN = builtins.open


class Parked(BaseException):
    """never raised into JADE code; used only to end a thread that was still 'new'"""


class VProc:
    def __init__(self, pid, kind, host, env, fn, parent=None):
        self.pid = pid
        self.kind = kind
        self.host = host
        self.env = dict(env)
        self.fn = fn
        self.parent = parent
        self.state = "ready"        # ready | exited | dead
        self.at = ("BEGIN", "")     # yield point it is waiting at
        self.exit_code = None
        self.error = None
        self.wake = threading.Event()
        self.thread = None
        self.killed = False
        self.child = None           # pid it waits for
        # fault plan
        self.fail_ext = 0           # number of upcoming external command executions that fail
        self.fail_ext_cmd = None    # restrict to this command (e.g. "squeue"); None = any
        self.kill_in = None         # die before the k-th file mutation of the next step (0-based)
        self.fail_write = None      # the k-th file mutation of the next step raises EDQUOT
        self.lock_timeout = False   # next lock acquisition times out
        self.late = False           # kill_in / fail_write strike after the open succeeded (file created/truncated, nothing written)
        self.hang_until = None      # parked at an external command until virtual time `now` reaches this
        self.wake_at = None         # virtual wake-up time of the time.sleep it is in
        self.mut_count = 0
        self.holding = []           # lock markers held
        self.batch = None           # for node processes
        self.hpc_id = None


class CoopLock:
    """SoftFileLock replacement: same marker-file semantics (O_EXCL create / unlink), cooperative waiting."""

    def __init__(self, lock_file, timeout=-1, **kw):
        self.lock_file = str(lock_file)
        self._held = False

    def acquire(self, timeout=None, **kw):
        vc = VCluster.current
        p = vc.cur()
        while True:
            vc.yield_point("ACQ", self.lock_file)
            if p.lock_timeout:
                p.lock_timeout = False
                from filelock import Timeout
                vc.log("locktimeout", p.pid, os.path.basename(self.lock_file))
                raise Timeout(self.lock_file)
            try:
                fd = os.open(self.lock_file, os.O_WRONLY | os.O_CREAT | os.O_EXCL)
            except FileExistsError:
                continue  # still held: stutter; the scheduler avoids this unless nothing else is enabled
            os.write(fd, f"{p.pid}@{p.host}\n".encode())
            os.close(fd)
            self._held = True
            p.holding.append(self.lock_file)
            vc.log("acq", p.pid, os.path.basename(self.lock_file))
            return self

    def release(self, force=False):
        vc = VCluster.current
        p = vc.cur()
        if self._held:
            self._held = False
            if self.lock_file in p.holding:
                p.holding.remove(self.lock_file)
            try:
                os.unlink(self.lock_file)
            except FileNotFoundError:
                pass
            vc.log("rel", p.pid, os.path.basename(self.lock_file))

    @property
    def is_locked(self):
        return self._held

    def __enter__(self):
        return self.acquire()

    def __exit__(self, *a):
        self.release()


class FakeJobProc:
    """the process of one job command (AsyncCliCommand.run)"""

    def __init__(self, vc, node, name, argv, env, stdout, stderr):
        self.vc = vc
        self.node = node
        self.name = name
        self.argv = argv
        self.env = env
        self.files = (getattr(stdout, "name", None), getattr(stderr, "name", None))
        self.returncode = None
        self.pid = 50000 + len(vc.jobprocs)
        self.exited = None  # set by the environment (jobexit)

    def poll(self):
        if self.returncode is None and self.exited is not None:
            self.returncode = self.exited
        return self.returncode


class VCluster:
    current = None

    def __init__(self, sc, outdir, break_stale=False, hook_rc=None):
        self.sc = sc
        self.out = str(outdir)
        self.break_stale = break_stale
        self.hook_rc = hook_rc or {}
        self.procs = {}
        self.next_pid = 1
        self.trace = []            # boundary/observation events
        self.back = threading.Event()
        self.running = None
        self.slurm = {}            # hpc_id -> dict(batch, argv, state, node, words)
        self.next_hpc = 100
        self.jobprocs = []         # FakeJobProc
        self.clock = 0
        self.now = 0.0             # virtual seconds: advanced by the sleeps of the processes (and `tick`)
        self.base_env = {"USER": "verif", "PATH": os.environ.get("PATH", ""), "HOME": os.environ.get("HOME", "/root"),
                         "JADE_REGISTRY": os.environ.get("JADE_REGISTRY", "")}
        self.config = None
        self.step_no = 0
        self.squeue_noise = []
        self.epoch = 0             # number of resubmissions prepared so far (prepare_for_resubmission calls)
        self._patched = []
        self.harness_errors = []   # failures of observation wrappers (never raised into the code under test)

    # ------------------------------------------------------------------ logging of events
    def log(self, kind, *data):
        self.trace.append((self.step_no, kind) + tuple(data))

    def cur(self):
        return self.procs[_tls.pid]

    # ------------------------------------------------------------------ baton
    def yield_point(self, kind, detail=""):
        p = self.cur()
        p.at = (kind, detail)
        p.kill_in = None      # killIn / failWrite apply to one step only
        p.fail_write = None
        p.late = False
        self._save_env(p)
        self.back.set()
        p.wake.wait()
        p.wake.clear()
        if p.killed:
            self._park()
        self._load_env(p)
        p.mut_count = 0
        p.hang_until = None
        if kind == "SLEEP" and p.wake_at is not None:
            self.now = max(self.now, p.wake_at)
            p.wake_at = None

    def _park(self):
        # SIGKILL: the thread never runs another line of JADE code
        threading.Event().wait()

    def _save_env(self, p):
        p.env = dict(os.environ)

    def _load_env(self, p):
        os.environ.clear()
        os.environ.update(p.env)

    def spawn(self, kind, host, fn, env=None, parent=None):
        pid = self.next_pid
        self.next_pid += 1
        e = dict(self.base_env)
        if env:
            e.update(env)
        p = VProc(pid, kind, host, e, fn, parent)
        self.procs[pid] = p

        def body():
            _tls.pid = pid
            p.wake.wait()
            p.wake.clear()
            if p.killed:
                self.back.set()
                return
            self._load_env(p)
            try:
                code = fn()
                p.exit_code = 0 if code is None else code
            except SystemExit as e:
                p.exit_code = e.code if isinstance(e.code, int) else (0 if e.code is None else 1)
            except BaseException as e:  # noqa
                p.exit_code = 1
                p.error = f"{type(e).__name__}: {e}"
            p.state = "exited"
            p.at = ("END", "")
            self.log("procexit", pid, p.kind, p.exit_code, p.error)
            self._on_exit(p)
            self.back.set()

        p.thread = threading.Thread(target=body, daemon=True, name=f"vproc-{pid}")
        p.thread.start()
        self.log("spawn", pid, kind, host)
        return p

    def members(self, b):
        return [x for x in [b.get("node")] + list(b.get("workers", ())) if x is not None]

    def _batch_maybe_ended(self, b):
        """srun returns (and the scheduler drops the job) when the last node's task has ended"""
        if b["state"] == "running" and not any(self.procs[m].state == "ready" for m in self.members(b)):
            b["state"] = "ended"
            if b.get("workers"):
                self.log("batchended", b["batch"], b.get("node"))

    def _on_exit(self, p):
        if p.kind in ("node", "worker") and p.hpc_id in self.slurm:
            self._batch_maybe_ended(self.slurm[p.hpc_id])

    def step(self, pid):
        """run process pid to its next yield point"""
        p = self.procs[pid]
        assert p.state == "ready", (pid, p.state)
        self.step_no += 1
        self.back.clear()
        self.running = pid
        p.wake.set()
        if not self.back.wait(timeout=60):
            raise RuntimeError(f"virtual process {pid} ({p.kind}) did not yield within 60 s at {p.at}")
        self.running = None

    def kill(self, pid):
        p = self.procs[pid]
        if p.state != "ready":
            return
        self.step_no += 1
        p.killed = True
        p.state = "dead"
        self.log("kill", pid, p.kind, p.at[0], os.path.basename(str(p.at[1])))
        # kill fake job processes of a node
        if p.kind in ("node", "worker"):
            for jp in self.jobprocs:
                if jp.node == pid and jp.returncode is None:
                    jp.exited = None
            b = self.slurm.get(p.hpc_id)
            if b:
                self._batch_maybe_ended(b)
        # a dead process's children keep running (orphans), as on a real system

    # ------------------------------------------------------------------ enabledness
    def lock_free(self, path):
        return not os.path.exists(path)

    def enabled(self, pid):
        p = self.procs[pid]
        if p.state != "ready":
            return False
        k, d = p.at
        if p.hang_until is not None and self.now < p.hang_until:
            return False
        if k == "SLEEP" and p.wake_at is not None and self.hang_active():
            # while a hang is pending virtual time matters: sleepers wake in the order of their wake-up times
            others = [q.wake_at for q in self.procs.values() if q is not p and q.state == "ready" and q.at[0] == "SLEEP"
                      and q.wake_at is not None]
            if others and p.wake_at > min(others):
                return False
        if k == "ACQ":
            return self.lock_free(d) or p.lock_timeout
        if k == "WAIT":
            c = self.procs[d]
            return c.state in ("exited", "dead")
        return True

    def live(self):
        return [p for p in self.procs.values() if p.state == "ready"]

    # ------------------------------------------------------------------ hanging external commands, virtual time
    def hung(self):
        return [p for p in self.procs.values() if p.state == "ready" and p.hang_until is not None and self.now < p.hang_until]

    def hang_active(self):
        return bool(self.hung())

    def hang(self, pid, seconds):
        """the external command process `pid` is about to run (squeue/sbatch/scancel) takes `seconds` to answer"""
        p = self.procs[pid]
        self.step_no += 1
        if p.state == "ready" and p.at[0] == "EXT":
            p.hang_until = self.now + seconds
            self.log("hangext", pid, seconds, str(p.at[1]).split(" ")[0])

    def tick(self):
        """nobody sleeps: time passes anyway, up to the end of the earliest pending hang"""
        self.step_no += 1
        h = self.hung()
        if h:
            self.now = min(q.hang_until for q in h)
            self.log("tick", self.now)

    # ------------------------------------------------------------------ patches
    def install(self):
        VCluster.current = self
        import jade.jobs.cluster as cl
        import jade.jobs.results_aggregator as ra
        import jade.utils.run_command as rc
        import jade.jobs.async_cli_command as acc
        import jade.hpc.hpc_submitter as hs
        import jade.jobs.job_queue as jq
        import jade.jobs.job_runner as jr
        import jade.cli.cancel_jobs as cj
        import jade.cli.run_jobs as rj
        import jade.jobs.job_submitter as js
        import jade.utils.utils as ju
        vc = self

        def patch(obj, name, val):
            self._patched.append((obj, name, getattr(obj, name, None), hasattr(obj, name)))
            setattr(obj, name, val)

        patch(cl, "SoftFileLock", CoopLock)
        patch(ra, "SoftFileLock", CoopLock)

        class FakeTime:
            @staticmethod
            def sleep(s):
                vc.cur().wake_at = vc.now + float(s)
                vc.yield_point("SLEEP", s)

            @staticmethod
            def time():
                vc.clock += 1
                return float(vc.clock)

        for m in (rc, hs, jq, jr, cj, rj, cl, ra, acc, js):
            patch(m, "time", common.dual_time(FakeTime))
        patch(socket, "gethostname", lambda: vc.cur().host if getattr(_tls, "pid", None) in vc.procs else "harness")

        class Sub:
            PIPE = -1

            class Popen:
                def __init__(s, command, stdout=None, stderr=None, cwd=None, env=None, **kw):
                    s.command = list(command)
                    s.returncode = None
                    s.env = env

                def communicate(s):
                    ret, out, err = vc.external(s.command, s.env)
                    s.returncode = ret
                    return out.encode(), err.encode()

            @staticmethod
            def call(command, cwd=None, env=None, **kw):
                ret, _, _ = vc.external(list(command), env)
                return ret

        patch(rc, "subprocess", Sub)

        class JobSub:
            @staticmethod
            def Popen(cmd, env=None, stdout=None, stderr=None, **kw):
                p = vc.cur()
                name = (env or {}).get("JADE_JOB_NAME", "?")
                vc.yield_point("START", name)
                jp = FakeJobProc(vc, p.pid, name, list(cmd), dict(env or {}), stdout, stderr)
                vc.jobprocs.append(jp)
                # a worker node of a multi-node allocation runs its own copy of every job: logged under its own kind
                vc.log("wstart" if p.kind == "worker" else "start", p.pid, p.batch, name, tuple(cmd))
                return jp

        patch(acc, "subprocess", JobSub)
        jadeenv.no_repo_info()

        # ---- file-mutation primitives under the output directory (killIn / failWrite; lockset audit)
        def under_out(path):
            try:
                return str(path).startswith(vc.out)
            except Exception:
                return False

        def die_here(p):
            p.killed = True
            p.state = "dead"
            if p.kind in ("node", "worker"):
                for jp in vc.jobprocs:
                    if jp.node == p.pid and jp.returncode is None:
                        jp.exited = None
                b = vc.slurm.get(p.hpc_id)
                if b:
                    vc._batch_maybe_ended(b)
            vc.back.set()
            vc._park()

        def mutation(path, how):
            """-> None, or "faillate" / "killlate": the caller (tracked_open) lets the real open happen first"""
            if getattr(_tls, "pid", None) not in vc.procs:
                return None
            p = vc.cur()
            if not under_out(path):
                return None
            base = os.path.basename(str(path))
            if base.endswith(".log") or base.endswith(".lock") and how == "lock":
                return None
            k = p.mut_count
            p.mut_count += 1
            late = p.late and how.startswith("open-")
            if p.kill_in is not None and k == p.kill_in:
                p.kill_in = None
                if late:
                    # SIGKILL between open and close: the file exists / is truncated, buffered writes are lost
                    vc.log("killin", p.pid, p.kind, k, base, "late")
                    return "killlate"
                vc.log("killin", p.pid, p.kind, k, base)
                die_here(p)
            if p.fail_write is not None and k == p.fail_write:
                p.fail_write = None
                if late:
                    vc.log("failwrite", p.pid, k, base, "late")
                    return "faillate"
                vc.log("failwrite", p.pid, k, base)
                raise OSError(errno.EDQUOT, "Disk quota exceeded", str(path))
            vc.log("mut", p.pid, base, how, tuple(os.path.basename(h) for h in p.holding))
            return None

        class LateFailFile:
            """a file that was opened successfully (created / truncated) on a filesystem that is over quota / full:
            the error surfaces at the first write (nothing reaches the disk)"""

            def __init__(s, f, path):
                s.__dict__["_f"] = f
                s.__dict__["_path"] = str(path)

            def write(s, data):
                raise OSError(errno.EDQUOT, "Disk quota exceeded", s._path)

            def writelines(s, lines):
                raise OSError(errno.EDQUOT, "Disk quota exceeded", s._path)

            def __enter__(s):
                return s

            def __exit__(s, *a):
                s._f.close()
                return False

            def __iter__(s):
                return iter(s._f)

            def __getattr__(s, n):
                return getattr(s._f, n)

        def tracked_open(file, mode="r", *a, **kw):
            how = None
            if isinstance(file, (str, os.PathLike)) and any(c in mode for c in "wa+x"):
                how = mutation(file, "open-" + mode)
            f = REAL_OPEN(file, mode, *a, **kw)
            if how == "killlate":
                f.close()
                die_here(vc.cur())
            if how == "faillate":
                return LateFailFile(f, file)
            return f

        class OsProxy:
            def __init__(s, real):
                s.__dict__["_real"] = real

            def __getattr__(s, n):
                return getattr(s._real, n)

            def rename(s, a, b, *x, **kw):
                mutation(a, "rename")
                return s._real.rename(a, b, *x, **kw)

            def remove(s, a, *x, **kw):
                mutation(a, "remove")
                return s._real.remove(a, *x, **kw)

            # the same two operations under their other names
            def unlink(s, a, *x, **kw):
                mutation(a, "remove")
                return s._real.unlink(a, *x, **kw)

            def replace(s, a, b, *x, **kw):
                mutation(a, "rename")
                return s._real.replace(a, b, *x, **kw)

        for m in (cl, ra, hs, js, ju):
            patch(m, "open", tracked_open)
            if hasattr(m, "os"):
                patch(m, "os", OsProxy(os))
        real_touch = Path.touch

        def touch(s, *a, **kw):
            mutation(s, "touch")
            return real_touch(s, *a, **kw)
        patch(Path, "touch", touch)

        # The same mutations spelled with pathlib (`lock_file.unlink()` for `os.remove(lock_file)`, `Path(f).write_text(t)`
        # for `with open(f, "w")`): a harmless rewrite must not make a file mutation invisible.  Counted only when the call
        # comes from one of the modules whose `open` / `os` are tracked above, so nothing else changes.
        tracked_modules = {m.__name__ for m in (cl, ra, hs, js, ju)}

        def from_tracked_module():
            f = sys._getframe(2)
            while f is not None and f.f_globals.get("__name__") in ("pathlib", __name__):
                f = f.f_back
            return f is not None and f.f_globals.get("__name__") in tracked_modules

        def path_method(name, how):
            real = getattr(Path, name)

            def w(s, *a, **kw):
                h = how(*a, **kw)
                r = None
                if h is not None and from_tracked_module():
                    r = mutation(s, h)
                f = real(s, *a, **kw)
                if r == "killlate":         # the same two "late" outcomes as in tracked_open
                    try:
                        f.close()
                    except Exception:  # noqa
                        pass
                    die_here(vc.cur())
                if r == "faillate":
                    return LateFailFile(f, s)
                return f
            patch(Path, name, w)

        def open_how(mode="r", *a, **kw):
            return "open-" + mode if any(c in mode for c in "wa+x") else None
        path_method("unlink", lambda *a, **kw: "remove")
        path_method("rename", lambda *a, **kw: "rename")
        path_method("replace", lambda *a, **kw: "rename")
        path_method("open", open_how)          # also reached by write_text / write_bytes

        # ---- observation wrappers (call the original)
        C = cl.Cluster

        def wrap(cls, name, before=None, after=None):
            """The observers get the arguments as the wrapped function declares them, positionally and with defaults filled
            in, however the caller spelled the call (positional / keyword) and whatever the parameters are called.  An
            observer must never change what the code under test does: a failing observer is recorded (the case becomes
            a harness failure at uninstall) and the original still runs."""
            import inspect
            orig = getattr(cls, name)
            sig = inspect.signature(orig)

            def observe(fn, self_, head, a, kw):
                try:
                    b = sig.bind(self_, *a, **kw)
                except TypeError:
                    return          # the real call raises the same TypeError
                try:
                    b.apply_defaults()
                    if any(p.kind in (p.VAR_POSITIONAL, p.VAR_KEYWORD) for p in sig.parameters.values()):
                        fn(self_, *head, *a, **kw)
                    else:
                        fn(self_, *head, *list(b.arguments.values())[1:])
                except (Parked, KeyboardInterrupt):
                    raise
                except Exception as e:  # noqa
                    vc.harness_errors.append(f"observer of {cls.__name__}.{name}: {type(e).__name__}: {e}")

            def w(self_, *a, **kw):
                if before:
                    observe(before, self_, (), a, kw)
                r = orig(self_, *a, **kw)
                if after:
                    observe(after, self_, (r,), a, kw)
                return r
            patch(cls, name, w)

        wrap(C, "_promote_to_submitter", after=lambda s, r, *a, **k: vc.log("promote", vc.cur().pid, bool(r)))
        wrap(C, "_demote_from_submitter", before=lambda s, *a, **k: vc.log("demote", vc.cur().pid, s._config.submitter))
        wrap(C, "_mark_complete", before=lambda s: vc.log("markcomplete", vc.cur().pid))
        wrap(C, "_mark_canceled", before=lambda s: vc.log("markcanceled", vc.cur().pid))
        wrap(C, "_update_job_status", before=lambda s, sub, blk, can, done, ids, bi: vc.log(
            "persist", vc.cur().pid, tuple(sorted(jid(j.name) for j in sub)), tuple(sorted(jid(j.name) for j in can)),
            tuple(sorted(jid(n) for n in done)), tuple(ids), bi))
        wrap(ra.ResultsAggregator, "_process_results",
             after=lambda s, r, *a, **k: vc.log("collect", vc.cur().pid, tuple((jid(x.name), x.return_code, x.status) for x in r)))
        wrap(ra.ResultsAggregator, "_move_results",
             after=lambda s, r, *a, **k: vc.log("move", vc.cur().pid, os.path.basename(str(s._filename)),
                                                tuple((jid(x.name), x.return_code, x.status) for x in r)))
        wrap(ra.ResultsAggregator, "_append_result",
             after=lambda s, r, text, *more: vc.log("row", vc.cur().pid, os.path.basename(str(s._filename)), tuple(text.split(",")[:3])))
        wrap(js.JobSubmitter, "write_results_summary",
             before=lambda s, fn, missing: vc.log("summary", vc.cur().pid, tuple(sorted(jid(m) for m in missing)),
                                                  tuple(sorted((jid(r.name), r.return_code, r.status) for r in s._results))))

        # ---- sections in which JADE mutates shared files without their lock by design (lockset audit, DESIGN 5.4)
        def section(cls, name, tag):
            orig = getattr(cls, name)
            fn = getattr(orig, "__func__", orig)
            is_cm = getattr(orig, "__self__", None) is cls

            @functools.wraps(fn)       # keeps the declared signature visible to `wrap` (inspect follows __wrapped__)
            def w(first, *a, **kw):
                inside = getattr(_tls, "pid", None) in vc.procs
                if inside:
                    vc.log("sect", vc.cur().pid, tag, "begin")
                try:
                    return fn(first, *a, **kw)
                finally:
                    if inside:
                        vc.log("sect", vc.cur().pid, tag, "end")
            patch(cls, name, classmethod(w) if is_cm else w)

        section(C, "create", "create")
        section(C, "prepare_for_resubmission", "prepare")
        section(ra.ResultsAggregator, "clear_results_for_resubmission", "reset")

        def on_prepare(s, rerun, updated):
            vc.epoch += 1
            vc.log("prepare", vc.cur().pid, tuple(sorted(jid(x) for x in rerun)),
                   tuple(sorted((jid(k), tuple(sorted(jid(b) for b in v))) for k, v in updated.items())))
        wrap(C, "prepare_for_resubmission", before=on_prepare)
        logging.disable(logging.CRITICAL)
        self._saved_environ = dict(os.environ)
        self._saved_stdout = sys.stdout
        sys.stdout = open(os.devnull, "w")

    def uninstall(self):
        try:
            self._uninstall()
        finally:
            errs, self.harness_errors = self.harness_errors, []
        if errs and sys.exc_info()[0] is None:
            raise RuntimeError("harness observation failed: " + "; ".join(errs[:3]))

    def _uninstall(self):
        for obj, name, old, had in reversed(self._patched):
            if had:
                setattr(obj, name, old)
            else:
                try:
                    delattr(obj, name)
                except AttributeError:
                    pass
        self._patched = []
        os.environ.clear()
        os.environ.update(self._saved_environ)
        try:
            sys.stdout.close()
        except Exception:
            pass
        sys.stdout = self._saved_stdout
        logging.disable(logging.NOTSET)
        # release parked/blocked threads is impossible; they are daemon threads holding nothing
        VCluster.current = None

    # ------------------------------------------------------------------ external commands
    def external(self, command, env):
        p = self.cur()
        c0 = command[0]
        self.yield_point("EXT", " ".join(command[:3]))
        failing = p.fail_ext > 0 and (p.fail_ext_cmd is None or p.fail_ext_cmd == c0)
        if failing:
            p.fail_ext -= 1
        if c0 == "sbatch":
            return self._sbatch(p, command, failing)
        if c0 == "squeue":
            if failing:
                self.log("squeue", p.pid, "FAILED")
                return 1, "", "slurm_load_jobs error: Socket timed out"
            lines = []
            if "-j" in command:
                i = command[command.index("-j") + 1]
                b = self.slurm.get(int(i)) if i.isdigit() else None
                if b and b["state"] in ("pending", "running"):
                    lines.append(f"{i} {b['name']} {b.get('odd') or ('PENDING' if b['state'] == 'pending' else 'RUNNING')}")
                out = "\n".join(lines)
            else:
                for i, b in sorted(self.slurm.items()):
                    # `odd`: a state word of real SLURM outside JADE's table (SUSPENDED, REQUEUED, ...) under
                    # which a batch that is still alive is listed for a while (set_odd)
                    if b["state"] == "pending":
                        lines.append(f"{i}  {b.get('odd') or b.get('word') or 'PENDING'}")
                    elif b["state"] == "running":
                        lines.append(f"{i}  {b.get('odd') or b.get('word') or 'RUNNING'}")
                    elif b.get("word"):
                        lines.append(f"{i}  {b['word']}")
                lines += self.squeue_noise
                out = "\n".join(lines) + ("\n" if lines else "")
            self.log("squeue", p.pid, tuple(l.split()[0] for l in lines), tuple(l.split()[-1] for l in lines))
            return 0, out, ""
        if c0 == "scancel":
            i = int(command[1])
            self.log("scancel", p.pid, i)
            b = self.slurm.get(i)
            alive = bool(b) and b["state"] in ("pending", "running")
            if failing:
                # transient controller error: nothing happens to the batch
                self.log("scancelfail", p.pid, i, "transient", alive)
                return 1, "", "scancel: error: Kill job error on job id %d: Socket timed out on send/recv operation" % i
            if not alive:
                # real scancel of an id that has ended and was purged from the controller's memory
                self.log("scancelfail", p.pid, i, "invalid", False)
                return 1, "", "scancel: error: Kill job error on job id %d: Invalid job id specified" % i
            if b["state"] == "pending":
                b["state"] = "cancelled"
            elif b["state"] == "running":
                b["state"] = "cancelled"
                if b["node"] is not None:
                    for m in self.members(b):
                        self.kill(m)
                    self.slurm[i]["state"] = "cancelled"
            return 0, "", ""
        if c0 == "jade" and len(command) > 1 and command[1] == "try-submit-jobs":
            if failing:
                return 1, "", "failed to start"
            return self._child(p, "trysubmit", lambda: self._entry_trysubmit(command[2], "--verbose" in command)), "", ""
        if c0 == "jade" and command[1:3] == ["pipeline", "submit-next-stage"]:
            self.log("nextstage", p.pid, tuple(command[3:]))
            return 0, "", ""
        if c0 == "hook":
            name = command[1]
            e = env or {}
            # batches queued or running at this moment that still have a job without a recorded outcome
            busy = ()
            if name == "teardown":
                try:
                    have = {r[1] for r in self.read_rows()}
                    busy = tuple(sorted(h for h, b in self.slurm.items() if b["state"] in ("pending", "running")
                                        and any(k not in have for k, _bl in b["jobs"])))
                except Exception:  # noqa
                    busy = ()
            self.log("hook", p.pid, name, e.get("JADE_RUNTIME_OUTPUT"), e.get("JADE_SUBMISSION_GROUP"), p.kind, p.batch, busy)
            ret = 1 if failing else int(self.hook_rc.get(name, 0))
            return ret, "", ""
        if c0 == "jade":
            self.log("report", p.pid, tuple(command[1:3]))
            return 0, "", ""
        self.log("unknown_ext", p.pid, tuple(command))
        return 127, "", "command not found"

    def _child(self, parent, kind, fn):
        c = self.spawn(kind, parent.host, fn, env=dict(os.environ), parent=parent.pid)
        parent.child = c.pid
        self.yield_point("WAIT", c.pid)
        return c.exit_code if c.state == "exited" else 137

    def _sbatch(self, p, command, failing):
        script = command[1]
        m = re.search(r"_batch_(\d+)\.sh$", script)
        bidx = int(m.group(1)) if m else -1
        info = {"script": os.path.basename(script)}
        try:
            text = REAL_OPEN(script).read()
            run = [l for l in text.split("\n") if l.startswith("srun ")][0].split(None, 1)[1]
            rtext = REAL_OPEN(run).read()
            line = [l for l in rtext.split("\n") if l.startswith("jade-internal run-jobs")][0]
            argv = shlex.split(line)[1:]
            cfgfile = argv[1]
            data = json.load(REAL_OPEN(cfgfile))
            jobs = tuple((jid(j["name"]), tuple(sorted(jid(b) for b in j["blocked_by"]))) for j in data["jobs"])
            groups = tuple(sorted({j["submission_group"] for j in data["jobs"]}))
            acct = re.search(r"--account=(\S+)", text).group(1)
            info.update(argv=argv, jobs=jobs, groups=groups, account=acct, name=re.search(r"--job-name=(\S+)", text).group(1))
            tm = re.search(r"^#SBATCH --time=(\S+)", text, flags=re.M)
            pt = re.search(r"^#SBATCH --partition=(\S+)", text, flags=re.M)
            nn = re.search(r"^#SBATCH --nodes=(\d+)", text, flags=re.M)
            info["nnodes"] = int(nn.group(1)) if nn else 1
            npr = [a.split("=", 1)[1] for a in argv if a.startswith("--num-parallel-processes-per-node=")]
            info.update(time=tm.group(1) if tm else None, partition=pt.group(1) if pt else None,
                        nprocs=int(npr[0]) if npr else None)
        except Exception as e:  # noqa
            info["parse_error"] = f"{type(e).__name__}: {e}"
            argv, jobs = None, ()
        self.log("sbatchinfo", p.pid, bidx, {k: info.get(k) for k in ("account", "time", "partition", "nprocs", "name", "parse_error")})
        if failing:
            self.log("sbatch", p.pid, bidx, None, info.get("jobs", ()), info.get("groups", ()), info.get("account"))
            p.sbatch_failed = getattr(p, "sbatch_failed", set()) | {script}
            return 1, "", "sbatch: error: Batch job submission failed: Socket timed out"
        if script in getattr(p, "sbatch_failed", set()):
            return 1, "", "sbatch: error: Batch job submission failed: Socket timed out"
        hid = self.next_hpc
        self.next_hpc += 1
        self.slurm[hid] = {"batch": bidx, "argv": argv, "state": "pending", "node": None, "name": info.get("name", "?"),
                           "jobs": jobs, "word": None, "odd": None, "nnodes": info.get("nnodes", 1), "workers": []}
        self.log("sbatch", p.pid, bidx, hid, info.get("jobs", ()), info.get("groups", ()), info.get("account"))
        # a busy controller: sbatch warns on stderr, retries by itself and then succeeds (exit 0, id printed) — every
        # fourth accepted submission; what is on stderr of a successful sbatch must not matter
        err = "sbatch: error: Slurm temporarily unable to accept job, sleeping and retrying.\n" if hid % 4 == 1 else ""
        return 0, f"Submitted batch job {hid}\n", err

    # ------------------------------------------------------------------ entry points
    def _entry_submit(self, local=False):
        from jade.jobs.job_submitter import JobSubmitter
        config = jadeenv.make_config(self.sc, commands={j["id"]: f"job {j['id']}" for j in self.sc["jobs"]},
                                     extra_params={"poll_interval": 60})
        return JobSubmitter.run_submit_jobs(config, self.out, local=local)

    def _entry_trysubmit(self, output, verbose=False):
        from jade.cli.try_submit_jobs import try_submit_jobs
        return try_submit_jobs.callback(output, verbose)

    def _entry_node(self, argv):
        from jade.cli.jade_internal import cli
        return cli.main(list(argv), standalone_mode=False)

    def _entry_cancel(self, complete):
        from jade.cli.cancel_jobs import cancel_jobs
        return cancel_jobs.callback(self.out, complete, False)

    def _entry_resubmit(self, failed, missing, successful, groups_file=None):
        from jade.cli.resubmit_jobs import resubmit_jobs
        return resubmit_jobs.callback(self.out, failed, missing, successful, groups_file, False)

    def edited_groups_file(self, tag, groups, max_nodes):
        """what the user does before `resubmit-jobs -s FILE`: `jade config save-submission-groups` (a copy of
        submitter_groups.json of the output directory), then edit the parameters.  `groups`: scenario-style group
        dicts (jadeenv), same length and names as the original."""
        from jadeenv import walltime_str
        data = json.load(REAL_OPEN(os.path.join(self.out, "submitter_groups.json")))
        for gi, (d, g) in enumerate(zip(data, groups)):
            sp = d["submitter_params"]
            sp["per_node_batch_size"] = g["batchSize"]
            sp["time_based_batching"] = g["timeBased"]
            sp["try_add_blocked_jobs"] = g["tryAdd"]
            sp["num_parallel_processes_per_node"] = g.get("procs")
            sp["max_nodes"] = max_nodes
            sp["hpc_config"]["hpc"]["walltime"] = walltime_str(g["wallSec"])
            sp["hpc_config"]["hpc"]["partition"] = g.get("partition")
        path = os.path.abspath(os.path.join(self.out, "..", f"groups-{tag}.json"))
        with REAL_OPEN(path, "w") as f:
            json.dump(data, f, indent=2)
        return path

    def _entry_showstatus(self):
        from jade.cli.show_status import show_status
        return show_status.callback(self.out, False, True, False)

    def spawn_user(self, kind, *args):
        host = "login1"
        if kind == "submit":
            return self.spawn("submit", host, lambda: self._entry_submit(*args))
        if kind == "trysubmit":
            return self.spawn("trysubmit", host, lambda: self._entry_trysubmit(self.out))
        if kind == "cancel":
            return self.spawn("cancel", host, lambda: self._entry_cancel(*args))
        if kind == "resubmit":
            return self.spawn("resubmit", host, lambda: self._entry_resubmit(*args))
        if kind == "showstatus":
            return self.spawn("showstatus", host, lambda: self._entry_showstatus())
        raise ValueError(kind)

    def start_batch(self, hid):
        b = self.slurm[hid]
        assert b["state"] == "pending"
        self.step_no += 1
        scratch = os.path.join(self.out, "..", f"scratch-{hid}")
        os.makedirs(scratch, exist_ok=True)
        env = {"SLURM_JOB_ID": str(hid), "SLURM_NODEID": "0", "LOCAL_SCRATCH": os.path.abspath(scratch),
               "SLURM_CPUS_ON_NODE": str(self.sc.get("cpus", 4))}
        # sharedHosts: nodes are not exclusive - several batches of the submission run on the same host (same hostname)
        host = f"node{hid % 2}" if self.sc.get("sharedHosts") else f"node{hid}"
        p = self.spawn("node", host, lambda: self._entry_node(b["argv"]), env=env)
        p.batch = b["batch"]
        p.hpc_id = hid
        b["state"] = "running"
        b["odd"] = None            # released by the scheduler: RUNNING
        b["node"] = p.pid
        self.log("startbatch", hid, b["batch"], p.pid)
        # multi-node allocation (#SBATCH --nodes=N, N >= 2): `srun` starts the run script on every node of the
        # allocation.  Node 0 is the manager node (kind "node", as before); the others are kind "worker": they run the
        # same jade-internal run-jobs with SLURM_NODEID=i on their own host.  The batch is listed by the scheduler
        # until the last of them has ended.
        for i in range(1, int(b.get("nnodes") or 1)):
            wenv = dict(env, SLURM_NODEID=str(i))
            w = self.spawn("worker", f"{host}w{i}", lambda: self._entry_node(b["argv"]), env=wenv)
            w.batch = b["batch"]
            w.hpc_id = hid
            b["workers"].append(w.pid)
            self.log("startworker", hid, b["batch"], w.pid, i)
        return p

    # state words of real SLURM (squeue %T / --Format state) that JADE's five-entry table does not know and
    # under which a batch is still alive: it holds or will again hold its node and may still run its jobs
    ODD_PENDING = ("REQUEUED", "REQUEUE_HOLD", "REQUEUE_FED", "RESV_DEL_HOLD", "SPECIAL_EXIT", "SUSPENDED")
    ODD_RUNNING = ("SUSPENDED", "STOPPED", "SIGNALING", "RESIZING", "STAGE_OUT")

    def set_odd(self, hid, word):
        """the scheduler lists the (pending or running) batch under `word` from now on; None = its normal word again"""
        b = self.slurm[hid]
        self.step_no += 1
        if b["state"] in ("pending", "running"):
            b["odd"] = word
            self.log("oddstate", hid, word, b["state"])

    def job_exit(self, jp):
        self.step_no += 1
        j = next(j for j in self.sc["jobs"] if jname(j["id"]) == jp.name)
        rcs = j.get("rcs")          # exit code per resubmission epoch (a rerun may end differently)
        rc = rcs[min(self.epoch, len(rcs) - 1)] if rcs else j["rc"]
        jp.exited = rc
        self.log("jobexit", jp.node, jp.name, rc)

    def node_lost(self, hid):
        b = self.slurm[hid]
        if b["state"] == "pending":
            self.step_no += 1
            b["state"] = "ended"
            self.log("nodelost", hid, None)
        elif b["state"] == "running":
            self.log("nodelost", hid, b["node"])
            for m in self.members(b):          # a failed node takes the whole allocation down (SLURM default)
                self.kill(m)
            b["state"] = "ended"

    def break_lock(self, path):
        """filelock >= 3.13-style stale breaking: remove a marker whose owner is dead or which is empty"""
        self.step_no += 1
        try:
            os.unlink(path)
            self.log("breaklock", os.path.basename(path))
        except FileNotFoundError:
            pass

    # ------------------------------------------------------------------ observations
    def read_status(self):
        """what `show-status` would read, if the files parse (None otherwise)"""
        try:
            cfg = json.load(REAL_OPEN(os.path.join(self.out, "cluster_config.json")))
            js = json.load(REAL_OPEN(os.path.join(self.out, "job_status.json")))
            cv = int(REAL_OPEN(os.path.join(self.out, "config_version.txt")).read().strip())
            jv = int(REAL_OPEN(os.path.join(self.out, "job_status_version.txt")).read().strip())
        except Exception:
            return None
        return {"submitter": cfg["submitter"], "submitted": cfg["submitted_jobs"], "completed": cfg["completed_jobs"],
                "num": cfg["num_jobs"], "complete": cfg["is_complete"], "canceled": cfg["is_canceled"], "cver": cfg["version"],
                "cverfile": cv, "jver": js["version"], "jverfile": jv, "ids": list(js["hpc_job_ids"]), "batch_index": js["batch_index"],
                "jobs": [(jid(j["name"]), j["state"], sorted(jid(b) for b in j["blocked_by"])) for j in js["jobs"]]}

    def read_rows(self):
        """all result rows currently on disk: (file, job, rc, status)"""
        rows = []
        files = [Path(self.out) / "processed_results.csv"] + sorted((Path(self.out) / "results").glob("results_batch_*.csv"))
        for f in files:
            try:
                lines = REAL_OPEN(f).read().split("\n")
            except OSError:
                continue
            for l in lines[1:]:
                if l.strip():
                    parts = l.split(",")
                    rows.append((f.name, jid(parts[0]), int(parts[1]), parts[2], parts[5] if len(parts) > 5 else None))
        return rows

    def cluster_lock(self):
        return os.path.join(self.out, "cluster_config.json.lock")

    def marker(self):
        return os.path.exists(os.path.join(self.out, "submitter.lock"))
