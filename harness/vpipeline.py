"""Whole PIPELINES under the deterministic simulation: harness/vcluster.py extended by composition/subclassing.

`VPipeline` is a `VCluster` whose "output directory" is the pipeline directory; every stage has its own submission
directory `<pdir>/output-stage<k>` below it (so every file mutation of every stage is seen by the same boundary).  What is
added to the fake process boundary:

  autoconfig <k>                          the config-creation command of stage k (`jade pipeline create -a "autoconfig k"`):
                                          writes a REAL GenericCommandConfiguration for the stage (from the scenario) to
                                          ./config-stage<k>.json, as a user's script would; it may be told to fail
  jade pipeline submit-next-stage <dir> --stage-num=k --return-code=rc
                                          the completion hand-off: EXECUTED as a child virtual process through the real click
                                          group (`jade.cli.pipeline`), i.e. the real PipelineManager.load / submit_next_stage /
                                          _run_auto_config / JobSubmitter.run_submit_jobs of the next stage
  <any command> failing to START          OSError(ENOMEM) out of subprocess (fork failure on an exhausted node)

and the entry point `jade pipeline submit <cfg> -o <pdir>` as a user process.  Observation wrappers (they call the original)
record, at the moment they happen and inside the acting process: every load / write of pipeline.json, every
`JobSubmitter.run_submit_jobs(..., pipeline_stage_num=k)` (= "stage k is submitted"), with a snapshot of what is on disk and
in the fake SLURM at that moment.

Job ids are global: job i of stage k is `GID * k + i` (name j<id>), so vcluster's job bookkeeping works unchanged.
Nothing under /repo is edited.
"""
import errno
import json
import os
import re

import jadeenv
from vcluster import REAL_OPEN, VCluster

GID = 100


def stage_of_job(k):
    return k // GID


def stage_of_path(path):
    m = re.search(r"output-stage(-?\d+)(?:/|$)", str(path))
    return int(m.group(1)) if m else None


def pview(data):
    return {"stage_num": data["stage_num"], "is_complete": data["is_complete"],
            "return_codes": [s["return_code"] for s in data["stages"]]}


class VPipeline(VCluster):
    def __init__(self, psc, pdir, workdir):
        union = {"jobs": [j for st in psc["stages"] for j in st["jobs"]], "cpus": psc.get("cpus", 4)}
        super().__init__(union, pdir, hook_rc=psc.get("hook_rc"))
        self.psc = psc
        self.pdir = str(pdir)
        self.workdir = str(workdir)
        self.cfgfile = os.path.join(self.workdir, "pipeline-config.json")
        self.autoconfig_fail = {}         # stage -> "ret" | "nofile"  (environment: the user's script fails)

    # ------------------------------------------------------------------ directories / observations per stage
    def stage_dir(self, k):
        return os.path.join(self.pdir, f"output-stage{k}")

    def _in_stage(self, k, fn):
        old = self.out
        self.out = self.stage_dir(k)
        try:
            return fn()
        finally:
            self.out = old

    def stage_status(self, k):
        return self._in_stage(k, lambda: VCluster.read_status(self))

    def stage_rows(self, k):
        return self._in_stage(k, lambda: VCluster.read_rows(self))

    def stage_flag(self, k):
        """is_complete of stage k's cluster_config.json (None: no such file / unreadable)"""
        try:
            return bool(json.load(REAL_OPEN(os.path.join(self.stage_dir(k), "cluster_config.json")))["is_complete"])
        except Exception:
            return None

    def stage_lock(self, k):
        return os.path.join(self.stage_dir(k), "cluster_config.json.lock")

    def stage_marker(self, k):
        return os.path.exists(os.path.join(self.stage_dir(k), "submitter.lock"))

    def pipeline_view(self):
        """what pipeline.json says (None: absent; "unreadable": does not parse)"""
        f = os.path.join(self.pdir, "pipeline.json")
        if not os.path.exists(f):
            return None
        try:
            return pview(json.load(REAL_OPEN(f)))
        except Exception:
            return "unreadable"

    def host_batches(self):
        """SLURM ids of the batches on whose node the CURRENT process runs (it, or an ancestor, is that node's process)"""
        out, p, seen = [], self.cur(), set()
        while p is not None and p.pid not in seen:
            seen.add(p.pid)
            if p.kind in ("node", "worker") and p.hpc_id is not None:
                out.append(p.hpc_id)
            p = self.procs.get(p.parent) if p.parent is not None else None
        return out

    def live_batches(self, below=None, with_tail=False):
        """batches of stages < `below` that are queued or running in the fake SLURM AND still have work: at least one of
        their jobs has no recorded result.  [(hid, stage, state, jobs without result)].
        A batch whose jobs ALL have a recorded result is in its tail (node teardown, its own try-submit-jobs - the very
        process that completes the stage and hands over runs inside such a batch); `with_tail` lists those too."""
        out = []
        rows = {}
        for h, b in sorted(self.slurm.items()):
            st = b.get("stage")
            if b["state"] not in ("pending", "running") or (below is not None and (st or 0) >= below):
                continue
            if st not in rows:
                rows[st] = {r[1] for r in self.stage_rows(st)} if st is not None else set()
            todo = sorted(j for j, _bl in b["jobs"] if j not in rows[st])
            if todo or with_tail:
                out.append((h, st, b["state"], todo))
        return out

    def snapshot(self, upto):
        """taken INSIDE the acting process: what is on disk / in SLURM right now about the stages < upto"""
        return {"flags": {k: self.stage_flag(k) for k in range(1, max(1, upto))}, "live": self.live_batches(below=upto),
                "host": self.host_batches(), "pipeline": self.pipeline_view()}

    # ------------------------------------------------------------------ patches
    def install(self):
        super().install()
        import jade.jobs.pipeline_manager as pm
        import jade.jobs.job_submitter as js
        vc = self

        def patch(obj, name, val):
            self._patched.append((obj, name, getattr(obj, name, None), hasattr(obj, name)))
            setattr(obj, name, val)

        PM = pm.PipelineManager
        orig_ser, orig_des = PM._serialize, PM._deserialize

        def ser(s):
            r = orig_ser(s)
            v = vc.pipeline_view()
            vc.log("pserialize", vc.cur().pid, v, vc.snapshot(len(v["return_codes"]) + 1) if isinstance(v, dict) and v["is_complete"] else None)
            return r

        def des(s):
            r = orig_des(s)
            vc.log("pload", vc.cur().pid, vc.pipeline_view())
            return r
        patch(PM, "_serialize", ser)
        patch(PM, "_deserialize", des)

        orig_run = js.JobSubmitter.run_submit_jobs

        def run_submit_jobs(config, output, *a, **kw):
            k = kw.get("pipeline_stage_num")
            if k is None:
                return orig_run(config, output, *a, **kw)
            pid = vc.cur().pid
            names = [j.name for j in config.iter_jobs()]
            cfg_stages = sorted({stage_of_job(jadeenv.jid(n)) for n in names if re.match(r"j\d+$", n)})
            vc.log("stagesubmit", pid, k, stage_of_path(output), cfg_stages[0] if len(cfg_stages) == 1 else -1,
                   len(names), len(config.submission_groups), vc.snapshot(k if isinstance(k, int) else 1),
                   os.environ.get("JADE_PIPELINE_STAGE_ID"))
            try:
                ret = orig_run(config, output, *a, **kw)
            except BaseException as e:  # noqa
                vc.log("stagesubmitted", pid, k, None, type(e).__name__)
                raise
            vc.log("stagesubmitted", pid, k, ret, None)
            return ret
        patch(js.JobSubmitter, "run_submit_jobs", staticmethod(run_submit_jobs))

        import jade.jobs.cluster as cl
        inner_mark = cl.Cluster._mark_complete       # vcluster's observation wrapper around the original

        def mark_complete(s):
            vc.log("stagecomplete", vc.cur().pid, stage_of_path(s._config.path), s._config.pipeline_stage_num)
            return inner_mark(s)
        patch(cl.Cluster, "_mark_complete", mark_complete)

    # ------------------------------------------------------------------ external commands
    def yield_point(self, kind, detail=""):
        if kind == "EXT" and self._skip_ext_yield:
            self._skip_ext_yield = False      # the yield of this command was already taken in `external` below
            return
        super().yield_point(kind, detail)

    _skip_ext_yield = False

    def external(self, command, env):
        c0 = command[0]
        p = self.cur()
        self.yield_point("EXT", " ".join(command[:3]))
        fork = getattr(p, "fork_fail", None)
        if fork is not None and (fork == "*" or fork == c0):
            # the command cannot be started at all: subprocess raises OSError in the caller
            p.fork_fail = None
            self.log("forkfail", p.pid, tuple(command[:3]))
            raise OSError(errno.ENOMEM, "Cannot allocate memory")
        if c0 == "autoconfig":
            return self._autoconfig(p, command), "", ""
        if c0 == "jade" and command[1:3] == ["pipeline", "submit-next-stage"]:
            args = tuple(a.replace(self.pdir, "<P>") for a in command[3:])
            m = re.match(r"--stage-num=(-?\d+)$", command[4]) if len(command) > 4 else None
            nxt = int(m.group(1)) if m else None
            self.log("nextstage", p.pid, args, self.snapshot(nxt if nxt is not None and 0 < nxt < 50 else 1))
            rc = self._child(p, "nextstage", lambda: self._entry_pipeline(command[2:]))
            return rc, "", ""
        self._skip_ext_yield = True           # (same thread, consumed by the first statement of the base method)
        return super().external(command, env)

    def _autoconfig(self, p, command):
        k = int(command[1])
        env = dict(os.environ)
        self.log("autoconfig", p.pid, k, self.snapshot(k), env.get("JADE_PIPELINE_STAGE_ID"), env.get("JADE_PIPELINE_OUTPUT_DIR"))
        how = self.autoconfig_fail.get(k)
        if how == "ret":
            return 3
        if how == "nofile":
            return 0
        write_stage_config(self.psc, k, os.path.join(self.workdir, f"config-stage{k}.json"))
        return 0

    def _sbatch(self, p, command, failing):
        before = set(self.slurm)
        st = stage_of_path(command[1])
        live = self.live_batches(below=st) if st is not None else []
        r = super()._sbatch(p, command, failing)
        for h in set(self.slurm) - before:
            self.slurm[h]["stage"] = st
            self.log("sbatchstage", p.pid, h, st, live, {k: self.stage_flag(k) for k in range(1, st or 1)})
        return r

    # ------------------------------------------------------------------ entry points
    def _entry_pipeline(self, argv):
        from jade.cli.pipeline import pipeline
        self.log("pcall", self.cur().pid, tuple(a.replace(self.pdir, "<P>") for a in argv))
        return pipeline.main(list(argv), standalone_mode=False)

    def spawn_pipeline_submit(self):
        return self.spawn("psubmit", "login1", lambda: self._entry_pipeline(["submit", self.cfgfile, "-o", self.pdir]))

    def spawn_user_trysubmit(self, k):
        out = self.stage_dir(k)
        return self.spawn("trysubmit", "login1", lambda: self._entry_trysubmit(out))

    def spawn_user_nextstage(self, k, rc):
        """somebody repeats a hand-off command (a retried hand-off; the second completion of a resubmitted stage)"""
        argv = ["submit-next-stage", self.pdir, f"--stage-num={k}", f"--return-code={rc}"]
        self.log("usernext", k, rc)
        return self.spawn("nextstage", "login1", lambda: self._entry_pipeline(argv))

    # ------------------------------------------------------------------ `jade pipeline create` (before the run)
    def create_pipeline(self):
        """the real click command writes the pipeline config file; in `files` mode the stage configs exist up front"""
        from jade.cli.pipeline import pipeline
        n = len(self.psc["stages"])
        argv = ["create", "-l", "-c", self.cfgfile, "--no-reports"]
        if self.psc.get("cfgMode", "commands") == "commands":
            for k in range(1, n + 1):
                argv += ["-a", f"autoconfig {k}"]
        else:
            for k in range(1, n + 1):
                f = os.path.join(self.workdir, f"given-stage{k}.json")
                write_stage_config(self.psc, k, f)
                argv += ["-f", f]
        try:
            pipeline.main(argv, standalone_mode=False)
        except SystemExit as e:
            if e.code not in (0, None):
                raise RuntimeError(f"jade pipeline create exited {e.code}")
        if not os.path.exists(self.cfgfile):
            raise RuntimeError("jade pipeline create wrote no config file")


def write_stage_config(psc, k, path):
    """a real GenericCommandConfiguration for stage k of the scenario (what the user's config script produces)"""
    st = psc["stages"][k - 1]
    config = jadeenv.make_config(st, commands={j["id"]: f"job {j['id']}" for j in st["jobs"]},
                                 extra_params={"poll_interval": 60})
    config.dump(path, indent=2)         # (logging is disabled while the simulation is installed)
