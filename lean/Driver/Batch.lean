import Driver.Util
import JadeModel.Model.Batch

namespace Jade.Driver
open Lean Jade.Batch Jade.Gen.Batch

structure JobIn where
  id : Nat
  group : Nat
  est : Nat
  blockedBy : List Nat
  state : String

structure GroupIn where
  p : Params
  dryRun : Bool

def parseJobIn (j : Json) : R JobIn := do
  pure { id := ← nat j "id", group := ← nat j "group", est := ← nat j "est",
         blockedBy := ← natList j "blockedBy", state := ← str j "state" }

def parseGroupIn (j : Json) : R GroupIn := do
  let tb ← bool j "timeBased"
  let wall ← nat j "wallSec"
  let procs ← nat j "procs"
  pure { p := { batchSize := ← nat j "batchSize", timeBased := tb, tryAdd := ← bool j "tryAdd",
                maxTime := maxBatchTime wall procs },
         dryRun := ← bool j "dryRun" }

def jcand (c : Cand) : Json := jobj [("id", jnat c.id), ("blockedBy", jnats c.blockedBy)]

def batchOps : List (String × (Json → R Json)) := [
  ("batch.round", fun j => do
    let jobs ← (← arr j "jobs").toList.mapM parseJobIn
    let groups ← (← arr j "groups").toList.mapM parseGroupIn
    let depth ← nat j "depth"
    let existing ← nat j "existing"
    let env ← (← arr j "env").toList.mapM (·.getBool?)
    let mut out := existing
    let mut env' := env
    let mut res : List Json := []
    let mut blocked : List Nat := []
    let mut diverged := false
    let mut gi := 0
    for g in groups do
      if !(queueFull out depth) then
        let cands := (jobs.filter fun x => x.group == gi && x.state == "n").map fun x =>
          ({ id := x.id, blockedBy := x.blockedBy, est := x.est } : Cand)
        let r := submitBatches g.p depth g.dryRun out cands env'
        out := r.outstanding
        env' := r.env
        diverged := diverged || r.diverged
        blocked := blocked ++ r.blocked.map (·.id)
        res := res ++ r.batches.map fun b =>
          jobj [("group", jnat gi), ("accepted", jbool b.accepted), ("jobs", jarr (b.jobs.map jcand))]
      gi := gi + 1
    pure <| jobj [("batches", jarr res), ("blocked", jnats blocked), ("outstanding", jnat out),
                  ("diverged", jbool diverged)])
]

end Jade.Driver
