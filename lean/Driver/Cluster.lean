import Driver.Util
import JadeModel.Model.Cluster
import JadeModel.Model.ClusterCrash
import JadeModel.Model.ClusterLive

namespace Jade.Driver
open Lean Jade.Cluster Jade.Gen.Cluster

private def sortNats (l : List Nat) : List Nat := l.mergeSort (fun a b => a ≤ b)

def parsePairs (j : Json) (k : String) : R (List (Nat × List Nat)) := do
  (← arr j k).toList.mapM fun p => do pure ((← nat p "j"), (← natList p "by"))

def parseUpdateArgs (j : Json) : R UpdateArgs := do
  pure { submitted := ← natList j "submitted", blocked := ← parsePairs j "blocked",
         canceled := ← natList j "canceled", completed := ← natList j "completed",
         hpcIds := ← natList j "hpcIds", batchIdx := ← nat j "batchIdx" }

def parseClusterOp (j : Json) : R Op := do
  let k ← str j "k"
  match k with
  | "load" => pure (.load (← nat j "h") (← nat j "host") (← bool j "promote") (← bool j "jobs"))
  | "promote" => pure (.promote (← nat j "h"))
  | "demote" => pure (.demote (← nat j "h"))
  | "update" => pure (.update (← nat j "h") (← parseUpdateArgs j))
  | "markComplete" => pure (.markComplete (← nat j "h"))
  | "markCanceled" => pure (.markCanceled (← nat j "h"))
  | "completeHpcId" => pure (.completeHpcId (← nat j "h") (← nat j "id"))
  | "deserializeJobs" => pure (.deserializeJobs (← nat j "h"))
  | "allComplete" => pure (.allComplete (← nat j "h"))
  | "prepareResubmit" => pure (.prepareResubmit (← nat j "h") (← natList j "sel") (← parsePairs j "blockers"))
  | "read" => pure .read
  | "breakMarker" => pure .breakMarker
  | "forgeCfgVer" => pure (.forgeCfgVer (← nat j "n"))
  | "forgeJsVer" => pure (.forgeJsVer (← nat j "n"))
  | "rmCfg" => pure .rmCfg
  | "memCancel" => pure (.memCancel (← nat j "h") (← nat j "j"))
  | "memUnblock" => pure (.memUnblock (← nat j "h") (← nat j "j") (← natList j "done"))
  | _ => throw s!"unknown cluster op {k}"

/-- `{"k": "crash", "op": <api op>, "after": k, "lockGone": b}`: the process performing `op` is killed right before
    its `(k+1)`-th file write -/
def parseClusterXOp (j : Json) : R XOp := do
  if (← str j "k") == "crash" then
    pure (.crash (← parseClusterOp (← fld j "op")) (← nat j "after") (← bool j "lockGone"))
  else pure (.api (← parseClusterOp j))

/-- `{"k": "crash", …, "torn": b}` (absent = false): killed INSIDE that file write — a version file is left empty -/
def parseClusterTOp (j : Json) : R TOp := do
  if (← str j "k") == "crash" then
    let torn ← match j.getObjVal? "torn" with
      | .ok v => v.getBool?
      | .error _ => pure false
    pure (.crash (← parseClusterOp (← fld j "op")) (← nat j "after") (← bool j "lockGone") torn)
  else pure (.api (← parseClusterOp j))

/-- `{"k": "failWrite", "op": <api op>, "after": k}`: the `(k+1)`-th file write of the call raises OSError, the handle lives on;
    `{"k": "stallBegin", "h": slot, "op": <api op>, "after": k}` / `{"k": "stallEnd", "h": slot}`: the call parks right before its
    `(k+1)`-th file write, inside its lock section, until `stallEnd` -/
def parseClusterFOp (j : Json) : R FOp := do
  let k ← str j "k"
  if k == "failWrite" then
    let torn ← match j.getObjVal? "torn" with
      | .ok v => v.getBool?
      | .error _ => pure false
    pure (.failWrite (← parseClusterOp (← fld j "op")) (← nat j "after") torn)
  else if k == "stallBegin" then pure (.stallBegin (← parseClusterOp (← fld j "op")) (← nat j "after"))
  else if k == "stallEnd" then pure .stallEnd
  else pure (.base (← parseClusterTOp j))

def jres : Res → Json
  | .ok => jstr "ok"
  | .bool b => jobj [("bool", jbool b)]
  | .err e => jerr e
  | .attrErr => jobj [("error", jstr "attributeError")]
  | .noHandle => jstr "noHandle"
  | .disabled => jstr "disabled"

def jfres : FRes → Json
  | .res r => jres r
  | .killed => jstr "killed"
  | .stalled => jstr "stalled"
  | .busy => jstr "busy"
  | .noStall => jstr "noStall"

def jjob (v : JobView) : Json :=
  jobj [("state", jstr v.state.value), ("blockedBy", jnats (sortNats v.blockedBy)), ("cancel", jbool v.cancelFlag)]

def jcfg (c : CfgView) : Json :=
  jobj [("submitter", jopt jnat c.submitter), ("submitted", jnat c.submitted), ("completed", jnat c.completed),
        ("numJobs", jnat c.numJobs), ("isComplete", jbool c.isComplete), ("isCanceled", jbool c.isCanceled),
        ("version", jnat c.version)]

def jjs (j : JsView) : Json :=
  jobj [("jobs", jarr (j.jobs.map jjob)), ("hpcIds", jnats j.hpcIds), ("batchIdx", jnat j.batchIdx),
        ("version", jnat j.version)]

def jdisk (d : Disk) : Json :=
  jobj [("cfg", if d.cfgMissing then Json.null else jcfg d.cfg), ("cfgVer", jnat d.cfgVer), ("js", jjs d.js),
        ("jsVer", jnat d.jsVer), ("marker", jbool d.marker), ("bk", jarr [])]

/-- the files of a system whose version files may be EMPTY (printed as `null`) -/
def jtdisk (t : TSys) : Json :=
  let d := t.s.disk
  jobj [("cfg", if d.cfgMissing then Json.null else jcfg d.cfg), ("cfgVer", if t.cfgVerTorn then Json.null else jnat d.cfgVer),
        ("js", jjs d.js), ("jsVer", if t.jsVerTorn then Json.null else jnat d.jsVer), ("marker", jbool d.marker), ("bk", jarr [])]

def jsummary (d : Disk) : Json :=
  match readStatus d with
  | .error e => jerr e
  | .ok s => jobj [("isComplete", jbool s.isComplete), ("isCanceled", jbool s.isCanceled), ("numJobs", jnat s.numJobs),
                   ("completed", jnat s.completed), ("notSubmitted", jint s.notSubmitted), ("jobs", jarr (s.jobs.map jjob))]

def clusterOps : List (String × (Json → R Json)) := [
  ("cluster.run", fun j => do
    let host ← nat j "host"
    let spec ← (← arr j "jobs").toList.mapM fun p => do pure ((← natList p "blockers"), (← bool p "cancel"))
    let brk ← bool j "breakStale"
    let ops ← (← arr j "ops").toList.mapM parseClusterFOp
    let mut s := FSys.ofT (TSys.ofSys (create host spec brk))
    let init := jtdisk s.t
    let mut out : List Json := []
    for op in ops do
      let before := s.t.s.disk
      let (s', r) := stepF s op
      s := s'
      let base := [("res", jfres r), ("disk", jtdisk s.t)]
      let extra := match op with
        | .base (.api .read) => [("summary", jsummary before)]
        | _ => []
      out := out ++ [jobj (base ++ extra)]
    pure <| jobj [("init", init), ("steps", jarr out)])
]

end Jade.Driver
