import Driver.Util
import JadeModel.Model.Command

namespace Jade.Driver
open Lean Jade.Command Jade.Gen.Command

private def jtokens (ws : List (List Char)) : Json := jstrs (ws.map String.ofList)

private def jrow : Option Row → Json
  | none => Json.null
  | some r => jobj [("name", jstr r.name), ("return_code", jint r.returnCode), ("status", jstr r.status),
                    ("hpc_job_id", jopt jstr r.hpcJobId), ("batch", jnat r.batch)]

/-- effective environment assignments (last one wins), sorted by key -/
private def jenv (kvs : List (String × String)) : Json :=
  let keys := (kvs.map (·.1)).eraseDups
  let keys := keys.toArray.qsort (· < ·) |>.toList
  jobj (keys.map fun k => (k, jopt jstr (kvs.reverse.lookup k)))

private def jlaunch (l : Launch) : Json :=
  jobj [("argv", jstrs l.argv), ("env", jenv l.env), ("inherits", jbool l.inheritsEnv),
        ("stdout", jstr l.stdout), ("stderr", jstr l.stderr)]

private def readJob (j : Json) : R Job := do
  pure { name := (← str j "name"), command := (← str j "command"),
         appendJobName := (← bool j "appendJobName"), appendOutputDir := (← bool j "appendOutputDir") }

private def readCtx (j : Json) (cmd : String) : R Ctx := do
  pure { jobName := (← str j "name"), cliCmd := cmd, output := (← str j "output"),
         hpcJobId := (← optStr j "hpc"), batchId := (← nat j "batch"), isManager := (← bool j "manager"),
         rc := (← int j "rc") }

def commandOps : List (String × (Json → R Json)) := [
  -- `AsyncCliCommand.run` up to the `Popen` call: the argv
  ("command.split", fun j => do
    let text ← str j "text"
    let x : Ctx := { jobName := "j", cliCmd := text, output := "/S/o", hpcJobId := none, batchId := 1,
                     isManager := true, rc := 0 }
    match runSplit (← str j "platform") x with
    | .error e => pure (jerr e)
    | .ok ws => pure (jtokens ws)),
  -- `GenericCommandExecution.generate_command(job, output, …)`
  ("command.generate", fun j => do
    let job ← readJob j
    pure (jstr (generateCommand job (← str j "output")))),
  -- `AsyncCliCommand(job, cmd, …)`: `run()`, then `is_complete()`/`_complete()` or `cancel()`
  ("command.record", fun j => do
    let x ← readCtx j (← str j "cmd")
    let mode ← str j "mode"
    if mode == "cancel" then
      pure <| jobj [("launch", Json.null), ("row", jrow (cancelRow x))]
    else
      match launch (← str j "platform") x with
      | .error e => pure (jerr e)
      | .ok l => pure <| jobj [("launch", jlaunch l), ("row", jrow (completeRow x))]),
  -- `_generate_jobs` for one job: generate_command on `<output>/job-outputs`, run, complete
  ("command.job", fun j => do
    let job ← readJob j
    let out ← str j "output"
    let x := jobCtx job out (← optStr j "hpc") (← nat j "batch") (← bool j "manager") (← int j "rc")
    match launch (← str j "platform") x with
    | .error e => pure <| jobj [("cmd", jstr x.cliCmd), ("error", jstr e.toString)]
    | .ok l => pure <| jobj [("cmd", jstr x.cliCmd), ("launch", jlaunch l), ("row", jrow (completeRow x))])
]

end Jade.Driver
