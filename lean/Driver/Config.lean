import Driver.Util
import JadeModel.Model.Config

/-! Driver ops for the `config` suite (C17): `config.roundtrip`, `config.checks`. -/

namespace Jade.Driver
open Lean Jade.Config

/-! ### Lean.Json ↔ model tree -/

partial def toJ : Json → R J
  | .null => pure .null
  | .bool b => pure (.bool b)
  | .num n => if n.exponent = 0 then pure (.num n.mantissa) else throw "non-integer number"
  | .str s => pure (.str s)
  | .arr a => do pure (.arr (← a.toList.mapM toJ))
  | .obj o => do
    let kvs ← o.toList.mapM fun (k, v) => do pure (k, ← toJ v)
    pure (.obj kvs)

partial def ofJ : J → Json
  | .null => .null
  | .bool b => .bool b
  | .num n => jint n
  | .str s => .str s
  | .arr l => jarr (l.map ofJ)
  | .obj kvs => jobj (kvs.map fun (k, v) => (k, ofJ v))

/-! ### file edits (between `dump` and `create_config_from_file`) -/

inductive PathElem where
  | key (k : String)
  | idx (i : Nat)

def setKey (kvs : Obj) (k : String) (v : J) : Obj :=
  if kvs.any (·.1 == k) then kvs.map (fun kv => if kv.1 == k then (k, v) else kv) else kvs ++ [(k, v)]

partial def editPath (t : J) (path : List PathElem) (newVal : Option J) : R J :=
  match path, t with
  | [], _ => match newVal with
    | some v => pure v
    | none => throw "cannot delete the root"
  | [.key k], .obj kvs => match newVal with
    | some v => pure (.obj (setKey kvs k v))
    | none => pure (.obj (kvs.filter (·.1 != k)))
  | [.idx i], .arr l => match newVal with
    | some v => if i < l.length then pure (.arr (l.set i v)) else pure (.arr (l ++ [v]))
    | none => pure (.arr (l.eraseIdx i))
  | .key k :: rest, .obj kvs =>
    match kvs.lookup k with
    | some sub => do pure (.obj (setKey kvs k (← editPath sub rest newVal)))
    | none => throw s!"edit: no key {k}"
  | .idx i :: rest, .arr l =>
    match l[i]? with
    | some sub => do pure (.arr (l.set i (← editPath sub rest newVal)))
    | none => throw s!"edit: no index {i}"
  | _, _ => throw "edit: path does not fit the tree"

def parsePath (j : Json) : R (List PathElem) := do
  (← j.getArr?).toList.mapM fun e =>
    match e with
    | .str s => pure (PathElem.key s)
    | .num n => pure (PathElem.idx n.mantissa.toNat)
    | _ => throw "bad path element"

def applyEdits (t : J) (edits : Array Json) : R J :=
  edits.foldlM (init := t) fun t e => do
    let path ← parsePath (← fld e "path")
    match e.getObjVal? "set" with
    | .ok v => editPath t path (some (← toJ v))
    | .error _ => editPath t path none

/-! ### building the inputs -/

def rejJson (stage : String) (e : Rej) : List (String × Json) :=
  [("stage", jstr stage), ("error", jstr e.kind),
   ("why", match e with
           | .invalid w => jstr w.toString
           | _ => Json.null)]

/-- the flat group description of a case → the tree `SubmissionGroup.dict()` would hold for the
    given keys (absent keys stay absent, so the model's defaults apply) -/
def groupTree (g : Json) : R J := do
  let name ← str g "name"
  let ty ← str g "hpc_type"
  let hpc : Obj := match g.getObjVal? "walltime" with
    | .ok (.str w) => [("walltime", .str w)]
    | _ => []
  let mut sp : Obj := [("hpc_config", .obj [("hpc_type", .str ty), ("hpc", .obj hpc)])]
  for (k, field) in [("max_nodes", "max_nodes"), ("num_processes", "num_parallel_processes_per_node"),
                     ("per_node_batch_size", "per_node_batch_size"), ("poll_interval", "poll_interval"),
                     ("try_add_blocked_jobs", "try_add_blocked_jobs"),
                     ("time_based_batching", "time_based_batching"), ("dry_run", "dry_run")] do
    match g.getObjVal? k with
    | .ok v => sp := sp ++ [(field, ← toJ v)]
    | .error _ => pure ()
  pure (.obj [("name", .str name), ("submitter_params", .obj sp)])

inductive Built where
  | ok (c : Config)
  | rejected (out : List (String × Json))

def liftR {α} (stage : String) (x : Config.R α) : Except (List (String × Json)) α :=
  match x with
  | .ok a => .ok a
  | .error e => .error (rejJson stage e)

/-- constructor calls + `add_job` per job + groups + commands -/
def buildConfig (j : Json) : R Built := do
  let jobKw ← (← arr j "jobs").toList.mapM toJ
  let groupJ ← (← arr j "groups").toList.mapM groupTree
  let setup ← optStr j "setup_command"
  let teardown ← optStr j "teardown_command"
  let nodeSetup ← optStr j "node_setup_command"
  let nodeTeardown ← optStr j "node_teardown_command"
  let r : Except (List (String × Json)) Config := do
    let jobs ← jobKw.mapM fun t => liftR "params" ((asObj t) >>= decodeFields)
    let groups ← liftR "params" (decodeGroups groupJ)
    liftR "add_job" (construct { jobs := jobs, groups := groups, setup := setup, teardown := teardown,
                                 nodeSetup := nodeSetup, nodeTeardown := nodeTeardown })
  match r with
  | .ok c => pure (.ok c)
  | .error o => pure (.rejected o)

/-! ### canonical dumps -/

def sortStrs (l : List String) : List String := canonSet l

def dumpJob (j : Job) : Json :=
  jobj [("name", jstr j.name), ("model_name", jopt jstr j.name?), ("job_id", jopt jnat j.jobId),
        ("command", jstr j.command), ("command_prop", jstr j.commandProp),
        ("blocked_by", jstrs (sortStrs j.blockedBy)),
        ("cancel_on_blocking_job_failure", jbool j.cancelFlag),
        ("estimated_run_minutes", jopt jnat j.estMinutes),
        ("submission_group", jstr j.group), ("append_job_name", jbool j.appendJobName),
        ("append_output_dir", jbool j.appendOutputDir),
        ("use_multi_node_manager", jbool j.useMultiNode), ("ext", ofJ (.obj j.ext))]

def dumpGroup (g : Group) : Json :=
  jobj [("name", jstr g.name), ("hpc_type", jstr g.hpc.type), ("walltime", jopt jstr g.hpc.walltime?),
        ("max_nodes", jopt jnat g.maxNodes), ("num_processes", jopt jnat g.numProcesses),
        ("per_node_batch_size", jnat g.perNodeBatchSize), ("poll_interval", jnat g.pollInterval),
        ("try_add_blocked_jobs", jbool g.tryAddBlocked), ("time_based_batching", jbool g.timeBased),
        ("dry_run", jbool g.dryRun)]

def dumpConfig (c : Config) : Json :=
  jobj [("jobs", jarr (c.jobs.map dumpJob)), ("groups", jarr (c.groups.map dumpGroup)),
        ("setup_command", jopt jstr c.setup), ("teardown_command", jopt jstr c.teardown),
        ("node_setup_command", jopt jstr c.nodeSetup), ("node_teardown_command", jopt jstr c.nodeTeardown)]

def effectName : Effect → String
  | .mkdirs => "mkdirs"
  | .initDirs => "initDirs"
  | .dumpConfig => "dump"
  | .clusterCreate => "cluster"
  | .submitJobs => "submit"
  | .demote => "demote"

def dumpRun (x : List Effect × Config.R Unit) : Json :=
  jobj ([("effects", jstrs (x.1.map effectName))] ++
    (match x.2 with
     | .ok () => [("result", jstr "ok"), ("why", Json.null)]
     | .error e => [("result", jstr e.kind),
                    ("why", match e with
                            | .invalid w => jstr w.toString
                            | _ => Json.null)]))

def configOps : List (String × (Json → R Json)) := [
  ("config.roundtrip", fun j => do
    match ← buildConfig j with
    | .rejected o => pure (jobj o)
    | .ok c =>
      match serialize c with
      | .error e => pure (jobj (rejJson "dump" e))
      | .ok tree =>
        let edits := (j.getObjVal? "edits").toOption.bind (·.getArr?.toOption) |>.getD #[]
        let tree' ← applyEdits tree edits
        let file := ofJ tree
        match decodeConfig tree' with
        | .error e => pure (jobj (rejJson "load" e ++ [("file", file)]))
        | .ok c' =>
          pure (jobj [("stage", jstr "ok"), ("file", file), ("original", dumpConfig c),
                      ("reloaded", dumpConfig c'), ("lossless", jbool (decide (c' = c)))])),
  ("config.checks", fun j => do
    match ← buildConfig j with
    | .rejected o => pure (jobj o)
    | .ok c =>
      let entries ← strList j "entries"
      pure (jobj ([("stage", jstr "ok")] ++
        (if entries.contains "create" then [("create", dumpRun (runCreate c))] else []) ++
        (if entries.contains "submit" then [("submit", dumpRun (runSubmit c))] else []))))
]

end Jade.Driver
