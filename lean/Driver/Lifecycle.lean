import Driver.Util
import JadeModel.Model.Lifecycle

namespace Jade.Driver
open Lean Jade.Lifecycle Jade.Gen.Lifecycle

private def hookName : Hook → String
  | .setup => "setup" | .teardown => "teardown" | .nodeSetup => "node_setup" | .nodeTeardown => "node_teardown"

private def envName : EnvVar → String
  | .runtimeOutput => "JADE_RUNTIME_OUTPUT" | .submissionGroup => "JADE_SUBMISSION_GROUP"

private def jev : Ev → Json
  | .hook h env rc => jarr [jstr "hook", jstr (hookName h), jstrs (env.map envName), jint rc]
  | .legacy h rc => jarr [jstr "legacy", jstr (hookName h), jint rc]
  | .sbatch b => jarr [jstr "sbatch", jnat b]
  | .job b (.start j) => jarr [jstr "start", jnat b, jnat j]
  | .job b (.row j) => jarr [jstr "row", jnat b, jnat j]
  | .collect => jarr [jstr "collect"]
  | .summary r m => jarr [jstr "summary", jnats r, jnats m]
  | .reports => jarr [jstr "reports"]
  | .flag => jarr [jstr "flag"]
  | .nextStage => jarr [jstr "nextStage"]
  | .trySubmit => jarr [jstr "trySubmit"]

private def boolD (j : Json) (k : String) (d : Bool) : R Bool :=
  match j.getObjVal? k with
  | .ok v => v.getBool?
  | .error _ => pure d

private def intD (j : Json) (k : String) (d : Int) : R Int :=
  match j.getObjVal? k with
  | .ok v => v.getInt?
  | .error _ => pure d

private def natListD (j : Json) (k : String) : R (List Nat) :=
  match j.getObjVal? k with
  | .ok v => asNatList v
  | .error _ => pure []

private def readCfg (j : Json) : R Cfg := do
  pure { setup := (← boolD j "setup" false), teardown := (← boolD j "teardown" false),
         nodeSetup := (← boolD j "node_setup" false), nodeTeardown := (← boolD j "node_teardown" false),
         legacySetup := (← boolD j "legacy_setup" false), legacyShutdown := (← boolD j "legacy_shutdown" false),
         reports := (← boolD j "reports" false), pipelineStage := (← boolD j "pipeline_stage" false) }

private def readRcs (j : Json) : R Rcs := do
  pure { setup := (← intD j "setup" 0), teardown := (← intD j "teardown" 0),
         nodeSetup := (← intD j "node_setup" 0), nodeTeardown := (← intD j "node_teardown" 0) }

private def readQEv (j : Json) : R QEv := do
  let a ← j.getArr?
  match a.toList with
  | [k, n] =>
    match (← k.getStr?) with
    | "start" => pure (.start (← n.getNat?))
    | "row" => pure (.row (← n.getNat?))
    | s => throw s!"unknown queue event {s}"
  | _ => throw "queue event must be [kind, job]"

private def readEntry : String → R Entry
  | "submitJobs" => pure .submitJobs
  | "trySubmit" => pure .trySubmit
  | "resubmit" => pure .resubmit
  | s => throw s!"unknown entry point {s}"

/-- the fields of one call; absent fields take the defaults of `Ctx` -/
private def readCtx (cfg : Cfg) (jobs : List Nat) (j : Json) : R Ctx := do
  let q ← match j.getObjVal? "queue" with
    | .ok v => (← v.getArr?).toList.mapM readQEv
    | .error _ => pure []
  let rc ← match j.getObjVal? "rc" with
    | .ok v => readRcs v
    | .error _ => pure {}
  pure { cfg := cfg, rc := rc, isLocal := (← boolD j "local" false), batches := (← natListD j "batches"),
         hpcComplete := (← boolD j "hpcComplete" false), jobs := jobs, rows := (← natListD j "rows"),
         batch := (← (match j.getObjVal? "batch" with | .ok v => v.getNat? | .error _ => pure 0)),
         queue := q, distributed := (← boolD j "distributed" true), localInputs := (← boolD j "localInputs" false) }

private def jres (trace : List Ev) (err : Option Err) : Json :=
  jobj [("trace", jarr (trace.map jev)), ("err", jopt (fun (e : Err) => jstr e.toString) err)]

def lifecycleOps : List (String × (Json → R Json)) := [
  -- one submission: every call of `submit_jobs` (in promotion order) and every node, each interpreted on its own
  ("lifecycle.history", fun j => do
    let cfg ← readCfg (← fld j "cfg")
    let jobs ← natList j "jobs"
    let mut rounds : Array Json := #[]
    for r in (← arr j "rounds") do
      let entry ← readEntry (← str r "entry")
      let c ← readCtx cfg jobs r
      let rd : Round := { entry := entry, ctx := c }
      rounds := rounds.push (jres (roundTrace cfg rd) (roundErr cfg rd))
    let mut nodes : Array Json := #[]
    for n in (← arr j "nodes") do
      let c ← readCtx cfg jobs n
      nodes := nodes.push (jres (nodeTrace cfg c) (nodeErr cfg c))
    pure <| jobj [("rounds", Json.arr rounds), ("nodes", Json.arr nodes)])
]

end Jade.Driver
