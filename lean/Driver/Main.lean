import Driver.All

open Lean Jade.Driver

def handle (line : String) : String :=
  match Json.parse line with
  | .error e => (jobj [("driver_error", jstr s!"parse: {e}")]).compress
  | .ok j =>
    match str j "op" with
    | .error e => (jobj [("driver_error", jstr e)]).compress
    | .ok op =>
      match allOps.lookup op with
      | none => (jobj [("driver_error", jstr s!"unknown op {op}")]).compress
      | some f =>
        match f j with
        | .ok r => r.compress
        | .error e => (jobj [("driver_error", jstr e)]).compress

partial def loop (hin hout : IO.FS.Stream) : IO Unit := do
  let line ← hin.getLine
  if line.isEmpty then return ()
  let l := line.trimAscii.toString
  if l.isEmpty then loop hin hout else
  hout.putStrLn (handle l)
  hout.flush
  loop hin hout

def main : IO Unit := do
  loop (← IO.getStdin) (← IO.getStdout)
