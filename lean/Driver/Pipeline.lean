import Driver.Util
import JadeModel.Model.Pipeline

namespace Jade.Driver
open Lean Jade.Pipeline Jade.Gen.Pipeline

private def jcfg (c : Config) : Json :=
  jobj [("stage_num", jnat c.stageNum), ("is_complete", jbool c.isComplete),
        ("return_codes", jarr (c.returnCodes.map (jopt jint)))]

/-- the persisted `pipeline.json` (null while the directory does not exist) -/
private def jstate (s : State) : Json := if s.created then jcfg s.cfg else Json.null

private def jhand (h : Handover) : Json :=
  jobj [("stage", jnat h.stage), ("cfg", jnat h.cfgStage), ("out", jnat h.outStage), ("disk", jcfg h.disk)]

private def readOutcome (j : Json) : R Outcome := do
  pure { cfgOk := (← bool j "cfgOk"), ret := (← int j "ret") }

private def optInt (j : Json) (k : String) : R (Option Int) := do
  match j.getObjVal? k with
  | .ok .null => pure none
  | .ok v => pure (some (← v.getInt?))
  | .error _ => pure none

/-- one line of the call sequence: a CLI command or the API-level call -/
private def applyOp (s : State) (j : Json) : R (State × Res) := do
  let out ← readOutcome j
  match (← str j "t") with
  | "start" => pure (step s (.start out))
  | "next" => pure (step s (.next (← int j "k") (← int j "rc") out))
  | "raw" => pure (rawCall s (← int j "k") (← optInt j "rc") out)
  | t => throw s!"unknown call kind {t}"

private def jaction : Action → Json
  | .markComplete => jarr [jstr "markComplete"]
  | .runCmd cmd _ _ => jarr [jstr "runCmd", jstr cmd]

private structure StageEnv where
  numResults : Nat
  numJobs : Nat
  cfgOk : Bool

private def readStage (j : Json) : R StageEnv := do
  pure { numResults := (← nat j "numResults"), numJobs := (← nat j "numJobs"), cfgOk := (← bool j "cfgOk") }

/-- return value of `run_submit_jobs` for a stage: 0 while in progress (asynchronous), the final status value when the
    stage runs to completion inside the call (local mode) -/
private def submitRet (localMode : Bool) (e : StageEnv) : Int :=
  if localMode then completionStatus e.numResults e.numJobs else 0

def pipelineOps : List (String × (Json → R Json)) := [
  -- a sequence of calls against one pipeline directory; after every call: result and persisted state
  ("pipeline.run", fun j => do
    let n ← nat j "n"
    let ops ← arr j "ops"
    let mut s := init n
    let mut steps : Array Json := #[]
    for o in ops do
      let before := s.handovers.length
      let (s', r) ← applyOp s o
      let h := (s'.handovers.drop before).head?
      steps := steps.push (jobj [("res", jstr r.toString), ("state", jstate s'), ("handover", jopt jhand h)])
      s := s'
    pure <| jobj [("steps", Json.arr steps), ("submitted", jnats s.submitted)]),
  -- completion of the stages of a pipeline, one after the other, by the submitter that completes each stage
  ("pipeline.completion", fun j => do
    let dir ← str j "dir"
    let localMode ← bool j "local"
    let stages ← (← arr j "stages").toList.mapM readStage
    let completions ← nat j "completions"
    if (← bool j "standalone") then
      -- a submission that is not a pipeline stage
      let e ← match stages.head? with
        | some e => pure e
        | none => throw "no stage"
      let status := completionStatus e.numResults e.numJobs
      pure <| jobj [("events", jarr [jobj [("status", jint status),
                ("actions", jarr ((completionActions none status dir).map jaction)),
                ("before", Json.null), ("res", Json.null)]]),
              ("final", Json.null), ("submitted", jnats [])]
    else
      let n := stages.length
      let e1 ← match stages.head? with
        | some e => pure e
        | none => throw "no stage"
      let mut s := (step (init n) (.start { cfgOk := e1.cfgOk, ret := submitRet localMode e1 })).1
      let mut events : Array Json := #[]
      for i in List.range completions do
        let stage := i + 1
        match stages[i]? with
        | none => pure ()
        | some e =>
          -- only a stage that was handed to run_submit_jobs can complete
          if s.submitted.contains stage then
            let status := completionStatus e.numResults e.numJobs
            let acts := completionActions (some stage) status dir
            let out : Outcome := match stages[i + 1]? with
              | some e' => { cfgOk := e'.cfgOk, ret := submitRet localMode e' }
              | none => Outcome.good
            let before := s
            let (s', rs) := applyActions s out acts
            let hasCmd := acts.any (fun a => match a with | .runCmd .. => true | _ => false)
            events := events.push (jobj [("status", jint status), ("actions", jarr (acts.map jaction)),
              ("before", if hasCmd then jstate before else Json.null),
              ("res", jopt (fun (r : Res) => jstr r.toString) rs.head?)])
            s := s'
      pure <| jobj [("events", Json.arr events), ("final", jstate s), ("submitted", jnats s.submitted)])
]

end Jade.Driver
