import Driver.Util
import JadeModel.Model.Queue

namespace Jade.Driver
open Lean Jade.Queue Jade.Gen.Queue

def parseQJob (j : Json) : R Job := do
  pure { id := ← nat j "id", blockers := ← natList j "blockers", cancelFlag := ← bool j "cancel" }

def parsePoll (j : Json) : R Poll := do
  (← j.getArr?).toList.mapM fun e => do
    let a ← e.getArr?
    match a.toList with
    | [x, y] => pure (← x.getNat?, ← y.getInt?)
    | _ => throw "poll event must be [id, rc]"

def parsePolls (j : Json) : R (List Poll) := do (← j.getArr?).toList.mapM parsePoll

def parseQOp (j : Json) : R Op := do
  match j.getObjVal? "submit" with
  | .ok v => pure (.submit (← parseQJob v))
  | .error _ => pure (.processQueue (← parsePolls (← fld j "pq")))

private def sortNats (l : List Nat) : List Nat := (l.toArray.qsort (· < ·)).toList

/-- canonical dump of a queue state: outstanding (insertion order), queued (list order, blockers sorted),
    launches and rows in the order they happened, counters -/
def dumpQ (s : QState) : Json :=
  jobj [("outstanding", jnats s.outIds),
        ("queued", jarr (s.queued.map fun q => jobj [("id", jnat q.id), ("blockers", jnats (sortNats q.blockers))])),
        ("starts", jnats s.starts),
        ("rows", jarr (s.rows.map fun r => jarr [jnat r.1, jint r.2.1, jstr r.2.2.toString])),
        ("numJobs", jnat s.numJobs), ("numCompleted", jnat s.numCompleted)]

def queueOps : List (String × (Json → R Json)) := [
  -- JobQueue driven op by op: after each op the state
  ("queue.run", fun j => do
    let depth ← nat j "depth"
    let ops ← (← arr j "ops").toList.mapM parseQOp
    let mut s := QState.init depth
    let mut out : List Json := []
    for o in ops do
      s := step s o
      out := out ++ [dumpQ s]
    pure <| jobj [("steps", jarr out)]),
  -- JobRunner._run_jobs -> JobQueue.run_jobs: worker count, run to completion under a schedule
  ("queue.runAll", fun j => do
    let np ← optNat j "numProcs"
    let cpus ← nat j "cpus"
    let jobs ← (← arr j "jobs").toList.mapM parseQJob
    let sched ← (← arr j "sched").toList.mapM parsePolls
    let r := match (← optNat j "depth") with
      | some d => runAll d jobs sched
      | none => runNode np cpus jobs sched
    match r with
    | .error e => pure (jerr e)
    | .ok r => pure <| jobj [("depth", jnat r.final.depth), ("drained", jbool r.drained), ("final", dumpQ r.final)])
]

end Jade.Driver
