import Driver.Util
import JadeModel.Model.Replica

namespace Jade.Driver
open Lean Jade.Replica

def replicaOps : List (String × (Json → R Json)) := [
  -- `SlurmManager.am_i_manager()` / `get_node_id()` under a given SLURM_NODEID (absent = null), and what a node
  -- with that answer records of a finished and of a canceled job (`_complete` / `cancel` guards)
  ("replica.manager", fun j => do
    let v ← optStr j "nodeId"
    let m := Jade.Gen.Replica.amIManager v
    let x : Jade.Gen.Command.Ctx := { jobName := "j", cliCmd := "c", output := "o", hpcJobId := none, batchId := 1, isManager := m, rc := 0 }
    pure <| jobj [("manager", jbool m), ("recordsFinished", jbool (records x .finished)),
                  ("recordsCanceled", jbool (records x .canceled))])]

end Jade.Driver
