import Driver.Util
import JadeModel.Model.Reports

namespace Jade.Driver
open Lean Jade.Reports Jade.Gen.Reports

namespace ReportsIO

def getEvent (j : Json) : R (Event Json) := do
  pure { name := ← str j "name", timestamp := ← str j "timestamp", payload := ← fld j "payload" }

def putEvent (e : Event Json) : Json :=
  jobj [("name", jstr e.name), ("timestamp", jstr e.timestamp), ("payload", e.payload)]

def putSummary (s : Summary Json) : Json :=
  jarr (s.map fun (n, es) => jarr [jstr n, jarr (es.map putEvent)])

/-- canonical form of a finite map: sorted by name (names are distinct) -/
def sortByName (s : Summary Json) : Summary Json :=
  (s.toArray.qsort fun a b => a.1 < b.1).toList

def sortStrings (l : List String) : List String := (l.toArray.qsort fun a b => a < b).toList

def intList (j : Json) : R (List Int) := do (← j.getArr?).toList.mapM (·.getInt?)

/-- the mean as a reduced fraction `[num, den]` -/
def putFrac (n d : Int) : Json :=
  let g := Int.gcd n d
  if g = 0 then jarr [jint n, jint d]
  else
    let s : Int := if d < 0 then -1 else 1
    jarr [jint (s * (n / g)), jint (s * (d / g))]

def putReport : Option StatReport → Json
  | none => Json.null
  | some r => jobj [("max", jint r.maximum), ("min", jint r.minimum), ("mean", putFrac r.meanNum r.meanDen),
                    ("samples", jnat r.samples)]

def getRow (j : Json) : R Row := do
  pure { name := ← str j "name", rc := ← int j "rc", status := ← str j "status" }

def putTally (t : Tally) (numMissing : Nat) : Json :=
  jobj [("num_successful", jnat t.successful), ("num_failed", jnat t.failed), ("num_canceled", jnat t.canceled),
        ("num_missing", jnat numMissing)]

def names (rs : List Row) : Json := jstrs (rs.map (·.name))

def putByType (rows : List Row) : Json :=
  let (s, f, c) := byType rows
  jobj [("successful", names s), ("failed", names f), ("canceled", names c)]

def putShown (rows : List Row) (missing : List String) : Json :=
  match showResults rows missing with
  | .error e => jerr e
  | .ok s => jobj [("successful", jnat s.tally.successful), ("failed", jnat s.tally.failed),
                   ("canceled", jnat s.tally.canceled), ("missing", jnat s.numMissing), ("total", jnat s.total)]

end ReportsIO

open ReportsIO

def reportsOps : List (String × (Json → R Json)) := [
  ("events.consolidate", fun j => do
    -- files in the order the real glob yielded them; first construction on an empty `events/`,
    -- second (preload) and third (lazy) construction on what the first one saved
    let files ← (← arr j "files").toList.mapM fun f => do (← f.getArr?).toList.mapM getEvent
    let later ← (← arr j "later").toList.mapM fun f => do (← f.getArr?).toList.mapM getEvent
    let (mem1, dir1) := construct { json := [], parquet := [] } files
    let (mem2, dir2) := construct dir1 (files ++ later)
    let absent ← str j "absent"
    pure <| jobj [
      ("first", putSummary mem1),
      ("parquet", jstrs (sortStrings dir1.parquet)),
      ("second", putSummary (sortByName mem2)),
      ("lazy", putSummary (sortByName (dir2.json.map fun (n, _) => (n, eventsOf dir2.json n)))),
      ("absent", jarr ((eventsOf mem1 absent).map putEvent))]),
  ("stats.run", fun j => do
    let maxsize ← int j "maxsize"
    let sys ← (← arr j "sys").toList.mapM intList
    let proc ← (← arr j "proc").toList.mapM intList
    pure <| jobj [
      ("sys", jarr (sys.map fun col => putReport (statsFinalize (statsRun 0 maxsize col)))),
      ("proc", jarr (proc.map fun col => putReport (procFinalize (procRun col))))]),
  ("tally.run", fun j => do
    let configured ← strList j "configured"
    let rows ← (← arr j "rows").toList.mapM getRow
    match handleCompletion configured rows with
    | .error e => pure (jerr e)
    | .ok f =>
      let missing := sortStrings f.missing
      pure <| jobj [
        ("summary", putTally f.tally f.numMissing),
        ("missing", jstrs missing),
        ("byType", putByType rows),
        ("shown", putShown rows missing)]),
  ("tally.summary", fun j => do
    -- `ResultsSummary` on a given results.json (rows and missing list as found in the file)
    let rows ← (← arr j "rows").toList.mapM getRow
    let missing ← strList j "missing"
    pure <| jobj [("byType", putByType rows), ("shown", putShown rows missing)])
]

end Jade.Driver
