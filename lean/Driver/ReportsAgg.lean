import Driver.Util
import Driver.Reports
import JadeModel.Model.ReportsAgg

namespace Jade.Driver
open Lean Jade.Reports Jade.ReportsAgg Jade.Gen.Reports Jade.Gen.ReportsAgg

namespace ReportsAggIO
open ReportsIO

def getEvents (j : Json) (k : String) : R (List (Event Json)) := do
  (← arr j k).toList.mapM getEvent

/-- `events`: a list, or null = the job process never opens its event file -/
def getOptEvents (j : Json) (k : String) : R (Option (List (Event Json))) := do
  match j.getObjVal? k with
  | .ok .null => pure none
  | .ok _ => pure (some (← getEvents j k))
  | .error _ => pure none

/-- canonical listing of a directory of line files: sorted by name -/
def putFiles (fs : Files (Event Json)) : Json :=
  jarr ((fs.toArray.qsort fun a b => a.1 < b.1).toList.map fun (n, es) => jarr [jstr n, jarr (es.map putEvent)])

/-- replay state: the output directory, `events/`, and what every `EventsSummary` construction returned -/
structure St where
  out : Out Json
  dir : EventsDir Json
  sums : Array Json

def stepJ (st : St) (j : Json) : R St := do
  let k ← str j "s"
  let op (o : Op Json) : R St := pure { st with out := step st.out o }
  match k with
  | "submitterStart" => op .submitterStart
  | "submitterLog" => op (.submitterLog (← getEvents j "events"))
  | "runnerStart" => op (.runnerStart (← str j "batch") (← str j "node"))
  | "runnerLog" => op (.runnerLog (← str j "batch") (← str j "node") (← getEvents j "events"))
  | "otherLog" => op (.otherLog (← str j "file") (← getEvents j "events"))
  | "jobRun" => op (.jobRun (← str j "job") (← getOptEvents j "events"))
  | "aggregate" => op (.aggregate (← str j "batch") (← str j "node") (← strList j "jobs"))
  | "consolidate" =>
    -- `EventsSummary(output)`; the event files in the order the real glob yielded them
    let order ← strList j "order"
    let files := order.filterMap fun n => lookupFile n st.out.top
    let (mem, dir) := construct st.dir files
    pure { st with dir := dir, sums := st.sums.push (jobj [
      ("events", putSummary (sortByName mem)), ("parquet", jstrs (sortStrings dir.parquet))]) }
  | "resubmit" => pure { st with dir := clearEvents st.dir }
  | "clear" => pure { st with dir := { json := [], parquet := [] } }
  | _ => throw s!"unknown step {k}"

end ReportsAggIO

open ReportsAggIO

def reportsAggOps : List (String × (Json → R Json)) := [
  ("events.aggregate", fun j => do
    let steps ← arr j "steps"
    let st ← steps.toList.foldlM stepJ { out := Out.empty, dir := { json := [], parquet := [] }, sums := #[] }
    pure <| jobj [
      ("files", putFiles st.out.top),
      ("jobfiles", putFiles st.out.job),
      ("summaries", Json.arr st.sums)])
]

end Jade.Driver
