import Driver.Util
import JadeModel.Model.Resubmit

/-! Line-protocol ops for the `resubmit` suite (C13). -/
namespace Jade.Driver
open Lean Jade.Resubmit Jade.Gen.Resubmit

namespace Rs

def parseRow (j : Json) : R Row := do
  pure { name := ← nat j "name", rc := ← int j "rc", status := ← str j "status",
         exec := ← str j "exec", ctime := ← str j "ctime", hpc := ← str j "hpc" }

def jrow (r : Row) : Json :=
  jobj [("name", jnat r.name), ("rc", jint r.rc), ("status", jstr r.status),
        ("exec", jstr r.exec), ("ctime", jstr r.ctime), ("hpc", jstr r.hpc)]

def parseRows (j : Json) (k : String) : R (List Row) := do (← arr j k).toList.mapM parseRow

def parseState (s : String) : R JState :=
  match s with
  | "n" => pure .notSubmitted
  | "s" => pure .submitted
  | "d" => pure .done
  | _ => throw s!"bad state {s}"

def jstate : JState → Json
  | .notSubmitted => jstr "n"
  | .submitted => jstr "s"
  | .done => jstr "d"

def sortNats (l : List Nat) : List Nat := (l.toArray.qsort (· < ·)).toList

/-- list of lists → function (default `[]`) -/
def fnOfLists (ls : List (List Nat)) : Nat → List Nat := fun j => ls.getD j []

def parseListOfLists (j : Json) (k : String) : R (List (List Nat)) := do
  (← arr j k).toList.mapM asNatList

def parseCfg (j : Json) : R Cfg := do
  pure { submitter := ← optStr j "submitter", isComplete := ← bool j "isComplete", isCanceled := ← bool j "isCanceled",
         submitted := ← int j "submitted", completed := ← int j "completed" }

def jcfg (c : Cfg) : Json :=
  jobj [("submitter", jopt jstr c.submitter), ("isComplete", jbool c.isComplete), ("isCanceled", jbool c.isCanceled),
        ("submitted", jint c.submitted), ("completed", jint c.completed)]

def parseFlags (j : Json) : R Flags := do
  pure { failed := ← bool j "failed", missing := ← bool j "missing", successful := ← bool j "successful" }

def parseSub (j : Json) : R Sub := do
  let n ← nat j "n"
  let blockers ← parseListOfLists j "blockers"
  let summary ← match j.getObjVal? "summary" with
    | .ok .null => pure none
    | .ok _ => do pure (some (← parseRows j "summary"))
    | .error _ => pure none
  let rows ← parseRows j "rows"
  let states ← (← strList j "states").mapM parseState
  let blockedBy ← parseListOfLists j "blockedBy"
  let cfg ← parseCfg (← fld j "cfg")
  let events ← optNat j "events"
  pure { n := n, blockers := fnOfLists blockers, summary := summary, rows := rows,
         state := fun k => states.getD k .notSubmitted, blockedBy := fnOfLists blockedBy, cfg := cfg, events := events }

def jsub (s : Sub) : Json :=
  jobj [("rows", jarr (s.rows.map jrow)),
        ("states", jarr ((List.range s.n).map fun k => jstate (s.state k))),
        ("blockedBy", jarr ((List.range s.n).map fun k => jnats (sortNats (s.blockedBy k)))),
        ("cfg", jcfg s.cfg),
        ("events", jopt jnat s.events)]

def parseGroups (s : String) : R Groups :=
  match s with
  | "absent" => pure .absent
  | "ok" => pure .ok
  | "lenMismatch" => pure .lenMismatch
  | "unknownName" => pure .unknownName
  | "raises" => pure .raises
  | _ => throw s!"bad groups {s}"

def parsePrepFail (j : Json) (k : String) : R (Option PrepFail) := do
  match ← optStr j k with
  | none => pure none
  | some "config" => pure (some .config)
  | some "jobs" => pure (some .jobs)
  | some "groups" => pure (some .groups)
  | some s => throw s!"bad prepFails {s}"

def parseRound (j : Json) (k : String) : R (Option RoundStatus) := do
  match ← optStr j k with
  | none => pure none
  | some "good" => pure (some .good)
  | some "error" => pure (some .error)
  | some "inProgress" => pure (some .inProgress)
  | some s => throw s!"bad round {s}"

def parseErr (s : String) : R Jade.Err :=
  match s with
  | "assertion" => pure .assertion
  | "versionMismatch" => pure .versionMismatch
  | "markerExists" => pure .markerExists
  | "lockTimeout" => pure .lockTimeout
  | "invalidConfig" => pure .invalidConfig
  | "invalidParam" => pure .invalidParam
  | "execError" => pure .execError
  | "ioError" => pure .ioError
  | "valueError" => pure .valueError
  | "keyError" => pure .keyError
  | _ => throw s!"bad error kind {s}"

def parseOptBool (j : Json) (k : String) : R (Option Bool) := do
  match j.getObjVal? k with
  | .ok .null => pure none
  | .ok v => pure (some (← v.getBool?))
  | .error _ => pure none

def parseEnv (j : Json) : R Env := do
  pure { host := ← str j "host", loadFails := ← bool j "loadFails", groups := ← parseGroups (← str j "groups"),
         closureFails := ← bool j "closureFails", resetFails := ← parseOptBool j "resetFails",
         prepFails := ← parsePrepFail j "prepFails", eventsFails := ← bool j "eventsFails",
         loadMgrFails := ← bool j "loadMgrFails", round := ← parseRound j "round",
         roundErr := ← parseErr (← str j "roundErr") }

def joutcome : Outcome → Json
  | .exit c => jobj [("exit", jint c)]
  | .raised e => jobj [("raised", jstr e.toString)]

def jupd (n : Nat) (upd : Nat → Option (List Nat)) : Json :=
  jarr ((List.range n).filterMap fun k => (upd k).map fun v => jarr [jnat k, jnats (sortNats v)])

end Rs

open Rs in
def resubmitOps : List (String × (Json → R Json)) := [
  ("resubmit.closure", fun j => do
    let n ← nat j "n"
    let blockers := fnOfLists (← parseListOfLists j "blockers")
    let fl ← parseFlags (← fld j "flags")
    match j.getObjVal? "summary" with
    | .ok .null => pure (jerr .invalidConfig)
    | _ =>
      let summary ← parseRows j "summary"
      let sel := resubmitSelect n summary fl.failed fl.missing fl.successful
      match resubmitClosure n blockers sel with
      | .error e => pure (jobj [("selected", jnats (sortNats sel)), ("error", jstr e.toString)])
      | .ok st =>
        pure <| jobj [("selected", jnats (sortNats sel)), ("closure", jnats (sortNats st.cur)),
                      ("blockers", jupd n st.upd)]),
  ("resubmit.prepare", fun j => do
    let n ← nat j "n"
    let states ← (← strList j "states").mapM parseState
    let blockedBy := fnOfLists (← parseListOfLists j "blockedBy")
    let cfg ← parseCfg (← fld j "cfg")
    let rows ← parseRows j "rows"
    let sel ← natList j "sel"
    let updL ← (← arr j "upd").toList.mapM fun e => do
      let a ← e.getArr?
      match a.toList with
      | [k, v] => pure ((← k.getNat?), (← asNatList v))
      | _ => throw "bad upd entry"
    let upd : Nat → Option (List Nat) := fun k => updL.lookup k
    let state : Nat → JState := fun k => states.getD k .notSubmitted
    let rows' := clearResults rows sel
    match prepareForResubmission n cfg state blockedBy sel upd with
    | .error e => pure (jobj [("rows", jarr (rows'.map jrow)), ("error", jstr e.toString)])
    | .ok p =>
      pure <| jobj [("rows", jarr (rows'.map jrow)),
                    ("states", jarr ((List.range n).map fun k => jstate (p.state k))),
                    ("blockedBy", jarr ((List.range n).map fun k => jnats (sortNats (p.blockedBy k)))),
                    ("cfg", jcfg p.cfg)]),
  ("resubmit.cmd", fun j => do
    let runs ← (← arr j "runs").toList.mapM fun r => do
      let s ← parseSub (← fld r "sub")
      let fl ← parseFlags (← fld r "flags")
      let env ← parseEnv (← fld r "env")
      let res := resubmitCmd env fl s
      pure <| jobj [("outcome", joutcome res.outcome), ("after", jsub res.s),
                    ("roundEntered", jbool res.roundEntered), ("pruned", jbool res.pruned)]
    pure (jarr runs))
]

end Jade.Driver
