import Driver.Util
import JadeModel.Model.ResultsFault

/-! Driver ops for `Model/Results.lean` + `Model/ResultsFault.lean` (suite `results`, property C08).
The byte-level model (`byteOpsX`) is executed, so file contents are compared byte for byte; a history
without fault / kill operations runs exactly the base model (`C08_faultfree_is_base`). -/

namespace Jade.Driver
open Lean Jade.Results Jade.Gen.Results

namespace Results

def chars (s : String) : List Char := s.toList
def text (cs : List Char) : String := String.ofList cs

def rowOfJson (j : Json) : R Row := do
  let a ← j.getArr?
  match (← a.toList.mapM (·.getStr?)) with
  | [n, rc, st, et, ct, h] =>
    pure { name := chars n, returnCode := chars rc, status := chars st, execTime := chars et,
           completionTime := chars ct, hpcJobId := chars h }
  | _ => throw "row must have 6 strings"

def rowToJson (r : Row) : Json :=
  jstrs [text r.name, text r.returnCode, text r.status, text r.execTime, text r.completionTime, text r.hpcJobId]

def rowsToJson (rs : List Row) : Json := jarr (rs.map rowToJson)

def parsedToJson : Except PErr (List Row) → Json
  | .ok rs => rowsToJson rs
  | .error e => jobj [("error", jstr e.toString)]

def opOfJson (j : Json) : R (Op Row) := do
  let t ← str j "t"
  match t with
  | "append" => pure (.append (← nat j "w") (← nat j "b") (← rowOfJson (← fld j "row")))
  | "begin" => pure (.beginCollect (← nat j "p") (← natList j "snap"))
  | "lock" => pure (.lockFile (← nat j "p"))
  | "move" => pure (.moveStep (← nat j "p"))
  | "end" => pure (.endCollect (← nat j "p"))
  | "cancel" => pure (.cancelAppend (← nat j "p") (← rowOfJson (← fld j "row")))
  | _ => throw s!"unknown op kind {t}"

def faultOfString : String → R FaultAt
  | "read" => pure .read
  | "open" => pure .open
  | "write" => pure .write
  | "remove" => pure .remove
  | w => throw s!"unknown fault point {w}"

def dieOfString : String → R DieAt
  | "opened" => pure .opened
  | "removed" => pure .removed
  | w => throw s!"unknown kill point {w}"

/-- `fault` arms one OSError, `kill` with `at` arms a death inside the next matching step, `kill`
    without `at` is a death at the current yield point, `breakLocks` removes stale markers -/
def opXOfJson (j : Json) : R (OpX Row) := do
  let t ← str j "t"
  match t with
  | "fault" => pure (.arm (← nat j "p") (.fail (← faultOfString (← str j "what"))))
  | "kill" =>
    match (← optStr j "at") with
    | none => pure (.kill (← nat j "p"))
    | some a => pure (.arm (← nat j "p") (.die (← dieOfString a)))
  | "breakLocks" => pure .breakLocks
  | _ => pure (.base (← opOfJson j))

/-- ascending insertion sort of batch ids (canonical order of set-like output) -/
def insertSorted (x : Nat) : List Nat → List Nat
  | [] => [x]
  | y :: ys => if x ≤ y then x :: y :: ys else y :: insertSorted x ys

def sortNats (l : List Nat) : List Nat := l.foldr insertSorted []

def retToJson : Pid × Ret Row → Json
  | (p, .rows l) => jarr [jnat p, rowsToJson l]
  | (p, .raised) => jarr [jnat p, jstr "raised"]

/-- canonical dump of the observable state: file contents (bytes and parsed), lock markers,
    return values of the finished `process_results()` calls -/
def dump (batches : List Nat) (s : State Row (List Char)) : Json :=
  let dir := sortNats s.dir
  jobj [
    ("cons", jopt (fun c => jstr (text c)) s.cons),
    ("consRows", match s.cons with
      | some c => parsedToJson (parseFile c)
      | none => jobj [("error", jstr "missing")]),
    ("nodes", jarr (dir.map fun b =>
      jarr [jnat b, jstr (text ((s.node b).getD [])), parsedToJson (parseFile ((s.node b).getD []))])),
    ("consLocked", jbool s.consLock.isSome),
    ("nodeLocked", jnats ((sortNats batches).filter fun b => (s.nodeLock b).isSome)),
    ("returned", jarr (s.returned.map retToJson))]

def dumpX (batches : List Nat) (x : XState Row (List Char)) : Json :=
  (dump batches x.base).setObjVal! "dead" (jnats (sortNats x.dead))

def opBatches : Op Row → List Nat
  | .append _ b _ => [b]
  | .beginCollect _ snap => snap
  | _ => []

/-- did the operation do anything (an enabled operation always changes a file, a lock or a ghost log) -/
def changed (batches : List Nat) (s s' : State Row (List Char)) : Bool :=
  (dump batches s).compress != (dump batches s').compress || s.written.length != s'.written.length ||
    s.canceled.length != s'.canceled.length || s.moved.length != s'.moved.length

def opXBatches : OpX Row → List Nat
  | .base op => opBatches op
  | _ => []

/-- did the operation do anything: a base operation changed a file, a lock, a ghost log or killed its
    process; arming / killing applies to a process that is not dead; breaking removed a marker -/
def okX (batches : List Nat) (x x' : XState Row (List Char)) : OpX Row → Bool
  | .base _ => changed batches x.base x'.base || x.dead.length != x'.dead.length
  | .arm p _ => !x.dead.contains p
  | .kill p => !x.dead.contains p
  | .breakLocks => (dump batches x.base).compress != (dump batches x'.base).compress

def runDump (x : XState Row (List Char)) (batches : List Nat) : List (OpX Row) → List Json
  | [] => []
  | op :: ops =>
    let x' := stepX byteOpsX x op
    (dumpX batches x').setObjVal! "ok" (jbool (okX batches x x' op)) :: runDump x' batches ops

end Results

open Results in
def resultsOps : List (String × (Json → R Json)) := [
  ("results.run", fun j => do
    let ops ← (← arr j "ops").toList.mapM opXOfJson
    -- "created": `ResultsAggregator.create` ran before the operations (default true)
    let created := (bool j "created").toOption.getD true
    let s0 : State Row (List Char) := init byteOps created
    -- optional initial files
    let s0 ← match (fld j "init").toOption with
      | none => pure s0
      | some i => do
        let s1 ← match (← optStr i "cons") with
          | none => pure s0
          | some c => pure { s0 with cons := some (chars c) }
        let nodes := (fldD i "nodes" (jarr []))
        let ns ← (← nodes.getArr?).toList.mapM fun e => do
          let a ← e.getArr?
          match a.toList with
          | [b, t] => pure ((← b.getNat?), chars (← t.getStr?))
          | _ => throw "init.nodes entries are [batch, text]"
        pure (ns.foldl (fun (s : State Row (List Char)) (bt : Nat × List Char) =>
          { (s.setNode bt.1 (some bt.2)) with dir := if (s.node bt.1).isSome then s.dir else s.dir ++ [bt.1] }) s1)
    let batches := (s0.dir ++ ops.flatMap opXBatches).eraseDups
    pure <| jarr (runDump { base := s0, dead := [], armed := fun _ => none } batches ops)),
  ("results.render", fun j => do
    let rows ← (← arr j "rows").toList.mapM rowOfJson
    -- what the harness drives: `create` then `_append_processed_results(rows)`
    -- on a created file (default) or creating it ("created": false)
    let created := (bool j "created").toOption.getD true
    pure <| jstr (text (byteOps.appendRows (if created then some byteOps.create else none) rows))),
  ("results.parse", fun j => do
    pure <| parsedToJson (parseFile (chars (← str j "text")))),
  ("results.append1", fun j => do
    -- `_append_result` on one file: absent (null) or with the given content
    let f ← optStr j "file"
    let r ← rowOfJson (← fld j "row")
    pure <| jstr (text (byteOps.appendRow (f.map chars) r)))
]

end Jade.Driver
