import Driver.Util
import JadeModel.Model.Slurm

namespace Jade.Driver
open Lean Jade.Slurm Jade.Gen.Slurm

def slurmOps : List (String × (Json → R Json)) := [
  ("slurm.parse", fun j => do
    let text ← str j "text"
    let ids ← strList j "ids"
    -- `squeueRet ≠ 0`: squeue failed through all retries: `check_statuses` raises ExecutionError, which
    -- `HpcStatusCollector.check_status` lets through — nothing is decided about any batch
    let ret := (int j "squeueRet").toOption.getD 0
    match (if ret != 0 then .ok [] else parseSqueue text.toList) with
    | .error e => pure (jerr e)
    | .ok pairs =>
      match ids.mapM (fun i => checkStatusQ (ret == 0) pairs i), ids.mapM (fun i => hpcIsCompleteQ (ret == 0) pairs i) with
      | .ok sts, .ok cs => pure <| jobj [("statuses", jarr (sts.map jstr)), ("complete", jarr (cs.map jbool))]
      | .error e, _ => pure (jerr e)
      | _, .error e => pure (jerr e)),
  ("slurm.submit", fun j => do
    let ret ← int j "ret"
    let out ← str j "stdout"
    let (st, id) := slurmSubmit ret out.toList
    pure <| jobj [("good", jbool (st == .good)), ("id", jopt (fun cs => jstr (String.ofList cs)) id)]),
  ("slurm.script", fun j => do
    let account ← str j "account"
    let walltime ← str j "walltime"
    let opts ← fld j "opt"
    let look : String → Option String := fun p =>
      match (fld opts p) with
      | .ok (.str s) => some s
      | _ => none
    let cfg : SlurmCfg := { account := account, walltime := walltime, opt := look }
    pure <| jstrs (sbatchScript cfg (← str j "name") (← str j "script") (← str j "path"))),
  ("slurm.runscript", fun j => do
    let d ← bool j "distributed"
    let np ← optNat j "numProcs"
    let v ← bool j "verbose"
    let o : RunOpts := { distributed := d, numProcs := np, verbose := v }
    pure <| jstrs (runScript (← str j "configFile") (← str j "output") o)),
  ("slurm.retry", fun j => do
    let n ← nat j "numRetries"
    let ho ← bool j "hasOutput"
    let outs ← (← arr j "outs").toList.mapM fun a => do
      let r ← int a "ret"
      let p ← bool a "permanent"
      pure ({ ret := r, permanent := p } : Attempt)
    let (cnt, a) := runCommand' n ho outs
    pure <| jobj [("executions", jnat cnt), ("ret", jopt (fun (a : Attempt) => jint a.ret) a)])
]

end Jade.Driver
