import Driver.Util
import JadeModel.Model.System
import JadeModel.Model.SystemPlain

/-!
Replays the boundary-event history of a real execution (recorded by harness/vcluster.py, translated by
harness/suites/system.py) through `Jade.Sys.step`.  Every event must be accepted; for the events that
carry data decided by the code (batch index, handed-over blockers, persisted arguments, summary) the
driver prints what the model computes so that the harness can compare it with what was observed.
A few *macro* ops resolve what the history does not record explicitly (an exception is only visible
through the `finally: demote` that follows it; a skipped `_update_status` is the absence of an event).
-/

namespace Jade.Driver
open Lean Jade.Sys

def lookupList (l : List (Nat × List Nat)) (k : Nat) : List Nat :=
  match l.lookup k with
  | some v => v
  | none => []

def parseScn (j : Json) : R Scn := do
  let n ← nat j "n"
  let bl ← (← arr j "blockers").toList.mapM asNatList
  let fl ← (← arr j "flags").toList.mapM (·.getBool?)
  let rc ← (← arr j "rc").toList.mapM (·.getInt?)
  let mn ← nat j "maxNodes"
  pure { n := n, blockers := fun k => bl.getD k [], flag := fun k => fl.getD k false,
         rc := fun k => rc.getD k 0, maxNodes := mn }

def jst : JSt → String
  | .ns => "not_submitted" | .sub => "submitted" | .done => "done"

def dumpStatus (n : Nat) (st : Status) : Json :=
  jobj [("jobs", jarr ((List.range n).map fun k => jarr [jstr (jst (st.st k)), jnats ((st.blk k).mergeSort)])),
        ("ids", jnats st.ids.mergeSort), ("bidx", jnat st.bidx), ("submitted", jnat st.subCnt),
        ("completed", jnat st.doneCnt), ("complete", jbool st.complete), ("canceled", jbool st.canceled)]

def jrow (r : Row) : Json := jarr [jnat r.job, jint r.rc, jbool r.canceled]

def pcName : SPc → String
  | .fresh => "fresh" | .loaded => "loaded" | .collecting => "collecting" | .ready => "ready"
  | .marked => "marked" | .persisted => "persisted" | .unmarked => "unmarked"
  | .summarized => "summarized" | .flagged => "flagged" | .failing => "failing" | .gone => "gone"

/-- try ops in order; the first accepted prefix-chain wins -/
def tryChain (stp : Sys → Op → Option Sys) (s : Sys) : List Op → Option Sys
  | [] => some s
  | op :: ops => (stp s op).bind (fun s' => tryChain stp s' ops)

def firstOfS (stp : Sys → Op → Option Sys) (s : Sys) : List (List Op) → Option Sys
  | [] => none
  | c :: cs => match tryChain stp s c with
    | some s' => some s'
    | none => firstOfS stp s cs

/-- one history event → (new state, what the model computed for it) -/
def replayOne (step : Sys → Op → Option Sys) (s : Sys) (j : Json) : R (Option (Sys × Json)) := do
  let firstOf := firstOfS step
  let op ← str j "op"
  let p := (nat j "p").toOption.getD 0
  let sub? := getSub s p
  match op with
  | "spawnSub" =>
    let c ← bool j "isCancel"
    pure ((step s (.spawnSub p c)).map (·, Json.null))
  | "promote" =>
    match step s (.promote p) with
    | some s' =>
      let ok := s'.submitter == some p && s.submitter != some p
      pure (some (s', jbool ok))
    | none => pure none
  | "poll" =>
    let listed ← natList j "listed"
    match sub? with
    | some x =>
      let gone := x.out.filter (fun h => !listed.contains h)
      pure ((step s (.poll p gone)).map (·, jnats gone))
    | none => pure none
  | "collectFile" =>
    let b ← nat j "b"
    let rows := s.nodeFile b
    pure ((step s (.collectFile p b)).map (·, jarr (rows.map jrow)))
  | "collectCopy" =>
    let b ← nat j "b"
    pure ((step s (.collectCopy p b)).map (·, Json.null))
  | "passEnd" =>
    let obs ← natList j "ks"
    match sub? with
    | some x =>
      let ks := (List.range s.sc.n).filter (fun k => mustCancel s.sc x k)
      -- the observed cancel rows must be a prefix of the model's decision (a kill may cut them short)
      if obs.isPrefixOf ks then
        pure ((step s (.passEnd p ks)).map (·, jnats ks))
      else pure none
    | none => pure none
  | "cancelRow" =>
    let k ← nat j "j"
    pure ((step s (.cancelRow p k)).map (·, Json.null))
  | "collectDone" => pure ((step s (.collectDone p)).map (·, Json.null))
  | "mark" =>
    -- the collection loop ends silently: insert collectDone (and an empty last pass if the process never collected)
    pure ((firstOf s [[.mark p], [.collectDone p, .mark p]]).map (·, Json.null))
  | "sbatch" =>
    let jobs ← natList j "jobs"
    let hid ← optNat j "hid"
    match sub? with
    | some x =>
      let out := jobj [("bid", jnat x.bidx), ("handed", jarr (jobs.map fun k => jnats (x.loc.blk k).mergeSort))]
      pure ((step s (.sbatch p jobs hid)).map (·, out))
    | none => pure none
  | "persist" =>
    match sub? with
    | some x =>
      let out := jobj [("pend", jnats x.pend.mergeSort), ("cancels", jnats x.cancels.mergeSort),
                       ("newly", jnats x.newly.mergeSort), ("ids", jnats x.out.mergeSort), ("bidx", jnat x.bidx)]
      pure ((firstOf s [[.persist p], [.collectDone p, .mark p, .persist p]]).map (·, out))
    | none => pure none
  | "persistCfg" => pure ((firstOf s [[.persistCfg p], [.collectDone p, .mark p, .persistCfg p]]).map (·, Json.null))
  | "persistJobs" => pure ((step s (.persistJobs p)).map (·, Json.null))
  | "unmark" =>
    match firstOf s [[.unmark p], [.skipPersist p, .unmark p]] with
    | some s' =>
      let d := match getSub s' p with | some x => x.decided | none => false
      pure (some (s', jbool d))
    | none => pure none
  | "summary" =>
    let missing := (List.range s.sc.n).filter (fun k => !(s.processed.any (·.job == k)))
    pure ((step s (.summary p)).map (·, jobj [("missing", jnats missing), ("rows", jarr (s.processed.map jrow))]))
  | "flag" => pure ((step s (.flag p)).map (·, Json.null))
  | "demote" =>
    match firstOf s [[.demote p], [.fail p, .demote p], [.collectDone p, .fail p, .demote p]] with
    | some s' => pure (some (s', Json.null))
    | none => pure none
  | "exit" =>
    -- normal exit; a process that ends after an exception without releasing the role is dead weight: kill
    match firstOf s [[.exit p], [.nodeEnd p], [.fail p, .exit p], [.kill p]] with
    | some s' => pure (some (s', Json.null))
    | none =>
      -- already dead (killed earlier): stutter
      pure (some (s, jstr "stutter"))
  | "scancel" =>
    let h ← nat j "h"
    pure ((step s (.scancel p h)).map (·, Json.null))
  | "markCanceled" => pure ((step s (.markCanceled p)).map (·, Json.null))
  | "startBatch" =>
    let h ← nat j "h"
    let w ← nat j "workers"
    match step s (.startBatch h p w) with
    | some s' =>
      let out := match getNode s' p with
        | some n => jobj [("bid", jnat n.bid), ("jobs", jarr (n.queued.map fun k => jarr [jnat k, jnats (n.nblk k).mergeSort]))]
        | none => Json.null
      pure (some (s', out))
    | none => pure none
  | "nodeStart" =>
    let k ← nat j "j"
    pure ((step s (.nodeStart p k)).map (·, Json.null))
  | "nodeRow" =>
    let k ← nat j "j"
    pure ((step s (.nodeRow p k)).map (·, jint (s.sc.rc k)))
  | "nodeCancel" =>
    let k ← nat j "j"
    pure ((step s (.nodeCancel p k)).map (·, Json.null))
  | "kill" =>
    match step s (.kill p) with
    | some s' => pure (some (s', Json.null))
    | none => pure (some (s, jstr "stutter"))
  | "batchLost" =>
    let h ← nat j "h"
    match step s (.batchLost h) with
    | some s' => pure (some (s', Json.null))
    | none => pure (some (s, jstr "stutter"))
  | _ => throw s!"unknown system op {op}"

def replay (stp : Sys → Op → Option Sys) (s : Sys) : List Json → Nat → List Json → R (Sys × List Json × Option Nat)
  | [], _, outs => pure (s, outs.reverse, none)
  | j :: js, i, outs => do
    match ← replayOne stp s j with
    | some (s', o) => replay stp s' js (i + 1) (o :: outs)
    | none => pure (s, outs.reverse, some i)

def systemOps : List (String × (Json → R Json)) := [
  ("system.trace", fun j => do
    let sc ← parseScn (← fld j "scn")
    let evs ← arr j "events"
    -- "plain": the execution was fault-free: replay through `stepP` (extra guards collectedAll / roundDone)
    let plain := (bool j "plain").toOption.getD false
    let (s, outs, rej) ← replay (if plain then Jade.Sys.stepP else Jade.Sys.step) (Jade.Sys.init sc) evs.toList 0 []
    let procState := fun (p : Nat) => match s.procs p with
      | .none => "none"
      | .sub a x => (if a then "" else "dead:") ++ pcName x.pc
      | .node a _ => if a then "node" else "node:dead"
    pure <| jobj [
      ("rejected", jopt jnat rej),
      ("outs", jarr outs),
      ("disk", dumpStatus sc.n s.disk),
      ("submitter", jopt jnat s.submitter),
      ("marker", jbool s.marker),
      ("processed", jarr (s.processed.map jrow)),
      ("batches", jarr (s.batches.map fun b => jobj [("bid", jnat b.bid), ("jobs", jnats b.jobs), ("hid", jopt jnat b.hid)])),
      ("starts", jnats (s.starts.map (·.1))),
      ("lateSbatch", jbool s.lateSbatch),
      ("completions", jnat s.completions),
      ("procAt", jstr (match rej with | some i => (match (evs.toList.getD i Json.null).getObjVal? "p" with
                                                   | .ok (.num n) => procState n.mantissa.toNat | _ => "?") | none => ""))])
]

end Jade.Driver
