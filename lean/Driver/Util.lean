import Lean.Data.Json
import JadeModel.Basic

/-! JSON helpers for the line-protocol driver. -/
namespace Jade.Driver
open Lean

abbrev R := Except String

def fld (j : Json) (k : String) : R Json := j.getObjVal? k
def fldD (j : Json) (k : String) (d : Json) : Json := (j.getObjVal? k).toOption.getD d
def str (j : Json) (k : String) : R String := do (← fld j k).getStr?
def nat (j : Json) (k : String) : R Nat := do (← fld j k).getNat?
def int (j : Json) (k : String) : R Int := do (← fld j k).getInt?
def bool (j : Json) (k : String) : R Bool := do (← fld j k).getBool?
def arr (j : Json) (k : String) : R (Array Json) := do (← fld j k).getArr?
def optNat (j : Json) (k : String) : R (Option Nat) := do
  match j.getObjVal? k with
  | .ok .null => pure none
  | .ok v => pure (some (← v.getNat?))
  | .error _ => pure none
def optStr (j : Json) (k : String) : R (Option String) := do
  match j.getObjVal? k with
  | .ok .null => pure none
  | .ok v => pure (some (← v.getStr?))
  | .error _ => pure none
def natList (j : Json) (k : String) : R (List Nat) := do
  (← arr j k).toList.mapM (·.getNat?)
def strList (j : Json) (k : String) : R (List String) := do
  (← arr j k).toList.mapM (·.getStr?)
def asNatList (j : Json) : R (List Nat) := do (← j.getArr?).toList.mapM (·.getNat?)

def jstr (s : String) : Json := Json.str s
def jnat (n : Nat) : Json := Json.num (JsonNumber.fromNat n)
def jint (n : Int) : Json := Json.num (JsonNumber.fromInt n)
def jbool (b : Bool) : Json := Json.bool b
def jarr (l : List Json) : Json := Json.arr l.toArray
def jnats (l : List Nat) : Json := jarr (l.map jnat)
def jstrs (l : List String) : Json := jarr (l.map jstr)
def jobj (l : List (String × Json)) : Json := Json.mkObj l
def jopt {α} (f : α → Json) : Option α → Json
  | none => Json.null
  | some a => f a
def jerr (e : Jade.Err) : Json := jobj [("error", jstr e.toString)]

end Jade.Driver
