import JadeModel.Basic
import JadeModel.Props.C18
