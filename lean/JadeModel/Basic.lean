/-
Shared definitions for the JADE models.  Core Lean only (no Mathlib) so that the
line-protocol driver can be compiled to a native executable.
-/

namespace Jade

/-- Jobs are identified by their index in the configuration's listing order. -/
abbrev JobId := Nat

/-- Small error enumeration: a model never defaults where the code raises. -/
inductive Err where
  | assertion        -- `assert` failed
  | versionMismatch  -- ConfigVersionMismatch / JobStatusVersionMismatch
  | markerExists     -- `submitter.lock` present at the start of the submit phase
  | lockTimeout
  | invalidConfig    -- InvalidConfiguration
  | invalidParam     -- InvalidParameter
  | execError        -- ExecutionError
  | ioError
  | valueError
  | keyError
  deriving DecidableEq, Repr, Inhabited

def Err.toString : Err → String
  | .assertion => "assertion"
  | .versionMismatch => "versionMismatch"
  | .markerExists => "markerExists"
  | .lockTimeout => "lockTimeout"
  | .invalidConfig => "invalidConfig"
  | .invalidParam => "invalidParam"
  | .execError => "execError"
  | .ioError => "ioError"
  | .valueError => "valueError"
  | .keyError => "keyError"

instance : ToString Err := ⟨Err.toString⟩

deriving instance DecidableEq for Except

/-- Python `set.issubset` on duplicate-free lists. -/
def subsetB {α} [BEq α] (a b : List α) : Bool := a.all (fun x => b.contains x)

/-- truthiness of `a.intersection(b)` -/
def intersectsB {α} [BEq α] (a b : List α) : Bool := a.any (fun x => b.contains x)

/-- `a.difference_update(b)` -/
def diffL {α} [BEq α] (a b : List α) : List α := a.filter (fun x => !b.contains x)

/-- set insertion preserving first-insertion order -/
def insertL {α} [BEq α] (a : List α) (x : α) : List α := if a.contains x then a else a ++ [x]

theorem subsetB_iff {α} [BEq α] [LawfulBEq α] (a b : List α) :
    subsetB a b = true ↔ ∀ x ∈ a, x ∈ b := by
  simp [subsetB, List.all_eq_true]

theorem intersectsB_iff {α} [BEq α] [LawfulBEq α] (a b : List α) :
    intersectsB a b = true ↔ ∃ x, x ∈ a ∧ x ∈ b := by
  simp [intersectsB, List.any_eq_true]

theorem mem_diffL {α} [BEq α] [LawfulBEq α] (a b : List α) (x : α) :
    x ∈ diffL a b ↔ x ∈ a ∧ x ∉ b := by
  simp [diffL]

end Jade
