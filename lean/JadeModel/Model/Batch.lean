import JadeModel.Basic
import JadeModel.Gen.Batch

/-!
Model of batching: `_BatchJobs.try_append / is_job_blocked`, `HpcSubmitter._make_batch`,
`_get_available_jobs[_by_time]`, `_submit_batches` and the per-group loop of `HpcSubmitter.run`.
Every decision is a generated predicate of `Gen.Batch`; this file is the control-flow skeleton.

Assumption recorded here: candidate names are unique (they are the names of `job_status.json`,
unique by `JobContainerByName`), so `len(submitted_jobs_by_name)` = number of jobs in the batch.
-/

namespace Jade.Batch
open Jade.Gen.Batch

/-- an available (NOT_SUBMITTED) job: cluster `Job` + the estimate from the configuration -/
structure Cand where
  id : JobId
  /-- remaining blockers as persisted in job_status.json -/
  blockedBy : List JobId
  /-- `estimated_run_minutes` (0 when unset and not time-based) -/
  est : Nat
  deriving DecidableEq, Repr

structure Params where
  batchSize : Nat
  timeBased : Bool
  tryAdd : Bool
  /-- `get_wall_time() * num_processes` in seconds (meaningful only when `timeBased`) -/
  maxTime : Nat
  deriving DecidableEq, Repr

/-- `_BatchJobs` -/
structure BState where
  jobs : List Cand
  time : Nat
  ready : Bool
  deriving DecidableEq, Repr

def BState.empty : BState := { jobs := [], time := 0, ready := false }
def BState.names (b : BState) : List JobId := b.jobs.map (·.id)

/-- the batch after an accepted job -/
def appendJob (p : Params) (b : BState) (c : Cand) : BState :=
  { jobs := b.jobs ++ [c],
    time := if p.timeBased then b.time + appendTimeInc c.est else b.time,
    ready := b.ready || appendReady p.timeBased (b.jobs.length + 1) p.batchSize }

/-- `_BatchJobs.try_append` -/
def tryAppend (p : Params) (b : BState) (c : Cand) : BState × Bool :=
  if tryAppendReject p.timeBased b.time c.est p.maxTime then ({ b with ready := true }, false)
  else (appendJob p b c, true)

/-- loop state of `_make_batch` -/
structure MState where
  b : BState
  /-- `blocked_jobs_by_name` in insertion order -/
  blocked : List Cand
  /-- `highest_index` -/
  hi : Int
  done : Bool
  deriving DecidableEq, Repr

def MState.init : MState := { b := .empty, blocked := [], hi := -1, done := false }

def bump (i : Nat) (s : MState) : MState :=
  if cursorBump i s.hi then { s with hi := i } else s

/-- `blocked_jobs_by_name[job.name] = job` (re-assignment keeps the position) -/
def markBlocked (c : Cand) (s : MState) : MState :=
  if s.blocked.any (·.id == c.id) then s else { s with blocked := s.blocked ++ [c] }

/-- bookkeeping after an accepted job -/
def place (b' : BState) (c : Cand) (s : MState) : MState :=
  { s with b := b', blocked := s.blocked.filter (·.id != c.id) }

/-- a refused job: batch marked ready, cursor possibly rolled back -/
def refuse (b' : BState) (i : Nat) (s : MState) : MState :=
  if cursorRollback i s.hi then { s with b := b', hi := s.hi - 1 } else { s with b := b' }

def markDone (numAvail : Nat) (s : MState) : MState :=
  if batchDone s.b.ready s.b.jobs.length numAvail then { s with done := true } else s

/-- the part of the loop body after the membership `continue` -/
def consider (p : Params) (numAvail : Nat) (i : Nat) (c : Cand) (s : MState) : MState :=
  let s' :=
    if isJobBlocked c.blockedBy p.tryAdd s.b.names then markBlocked c s
    else
      match tryAppend p s.b c with
      | (b', true) => place b' c s
      | (b', false) => refuse b' i s
  markDone numAvail s'

/-- one iteration of the inner loop (a `done` state models the two `break`s) -/
def visit (p : Params) (numAvail : Nat) (s : MState) (i : Nat) (c : Cand) : MState :=
  if s.done then s
  else
    let s := bump i s
    if skipBatched (s.b.names.contains c.id) then s else consider p numAvail i c s

/-- `for i, job in enumerate(available_jobs)` from index `i` on -/
def scan (p : Params) (numAvail : Nat) : Nat → List Cand → MState → MState
  | _, [], s => s
  | i, c :: cs, s => scan p numAvail (i + 1) cs (visit p numAvail s i c)

/-- `for _ in range(max_iterations)` -/
def passes (p : Params) (avail : List Cand) : Nat → MState → MState
  | 0, s => s
  | n + 1, s => if s.done then s else passes p avail n (scan p avail.length 0 avail s)

structure BatchOut where
  batch : BState
  blocked : List Cand
  notChecked : List Cand
  hi : Int
  deriving DecidableEq, Repr

/-- `_make_batch` -/
def makeBatch (p : Params) (avail : List Cand) : BatchOut :=
  let s := passes p avail (maxIterations p.tryAdd avail.length) .init
  { batch := s.b, blocked := s.blocked, hi := s.hi,
    notChecked := if allChecked s.hi avail.length then [] else avail.drop (s.hi + 1).toNat }

/-! ### `_submit_batches` -/

/-- one batch handed to `_submit_batch` -/
structure Submitted where
  jobs : List Cand
  /-- `sbatch` accepted it (dry-run counts as accepted: job id 0, nothing handed to the HPC) -/
  accepted : Bool
  deriving DecidableEq, Repr

structure SubmitOut where
  batches : List Submitted
  blocked : List Cand
  /-- `len(queue.outstanding_jobs)` afterwards -/
  outstanding : Nat
  /-- unused sbatch outcomes -/
  env : List Bool
  /-- the Python loop would not have terminated within the fuel -/
  diverged : Bool
  deriving DecidableEq, Repr

/-- outcome of handing one batch to the HPC: dry-run consumes no `sbatch` outcome and counts as
    accepted (job id 0); an exhausted environment counts as a failed `sbatch` -/
def sbatchOutcome (dryRun : Bool) (env : List Bool) : Bool × List Bool :=
  if dryRun then (true, env)
  else match env with
    | [] => (false, [])
    | e :: es => (e, es)

/-- `len(outstanding)` after `queue.submit(async_submitter)` -/
def afterSubmit (ok : Bool) (out : Nat) : Nat := if ok then out + 1 else out

/-- `while not queue.is_full() and available_jobs`; `env` = outcomes of successive `sbatch`
    calls (`true` = accepted). -/
def submitLoop (p : Params) (depth : Nat) (dryRun : Bool) :
    Nat → Nat → List Cand → List Bool → List Submitted → List Cand → SubmitOut
  | 0, out, avail, env, acc, blk =>
    { batches := acc, blocked := blk, outstanding := out, env := env,
      diverged := submitLoopGuard (queueFull out depth) (avail.map (·.id)) }
  | fuel + 1, out, avail, env, acc, blk =>
    if submitLoopGuard (queueFull out depth) (avail.map (·.id)) then
      if batchNonEmpty (makeBatch p avail).batch.jobs.length then
        submitLoop p depth dryRun fuel (afterSubmit (sbatchOutcome dryRun env).1 out)
          (makeBatch p avail).notChecked (sbatchOutcome dryRun env).2
          (acc ++ [{ jobs := (makeBatch p avail).batch.jobs, accepted := (sbatchOutcome dryRun env).1 }])
          (blk ++ (makeBatch p avail).blocked)
      else
        submitLoop p depth dryRun fuel out (makeBatch p avail).notChecked env acc
          (blk ++ (makeBatch p avail).blocked)
    else
      { batches := acc, blocked := blk, outstanding := out, env := env, diverged := false }

/-- insertion of an *earlier-listed* element into the sorted later ones: it goes in front of
    everything that is not strictly smaller (stability of `list.sort(key=…)`) -/
def insertByEst (c : Cand) : List Cand → List Cand
  | [] => [c]
  | d :: ds => if d.est < c.est then d :: insertByEst c ds else c :: d :: ds

/-- stable ascending sort by estimate -/
def sortByEst (l : List Cand) : List Cand := l.foldr insertByEst []

/-- `_submit_batches` for one group; `cands` = NOT_SUBMITTED jobs of the group in status order -/
def submitBatches (p : Params) (depth : Nat) (dryRun : Bool) (out : Nat) (cands : List Cand)
    (env : List Bool) : SubmitOut :=
  let avail := if sortByTime p.timeBased then sortByEst cands else cands
  submitLoop p depth dryRun (avail.length + 1) out avail env [] []

end Jade.Batch
