import JadeModel.Basic
import JadeModel.Gen.Cluster

/-!
Model of `jade/jobs/cluster.py`: the four cluster files + the lock marker, any number of `Cluster`
handles (in-memory copies) on any hosts, and the public API as a total transition function
`step : Sys → Op → Sys × Res`.

What is modelled (and compared with the real code after every operation by the `cluster` suite):
* every public mutator runs under `_do_action_under_lock_internal`: a present lock marker makes the
  call time out; an exception inside releases the lock and RE-CREATES the lock file (deadlock marker);
* handles keep their in-memory mutations when an operation raises (partial updates stay in memory);
* `_serialize` / `_serialize_jobs`: version compare → changed-test → bump → version file → data file.
  The changed-tests are the generated `cfgChanged` / `jsChanged` over the two remembered hashes; a
  hash is abstracted by the value whose JSON text was hashed (`Snap`), i.e. hash collisions are ignored.
  In the current tree `_serialize_jobs` compares the job-status hash with `_config_hash`, which is never
  equal, so the job-status file is rewritten and its version bumped on EVERY call;
* `prepare_for_resubmission` takes no lock, leaves no marker, and checks the two versions one after
  the other (config written before the job-status version is compared).

Hosts and HPC job ids are numbers (the harness maps them to strings); jobs are indices.
-/

namespace Jade.Cluster
open Jade.Gen.Cluster

abbrev Host := Nat
abbrev Hid := Nat

/-- one entry of `job_status.json` -/
structure JobView where
  state : JState
  blockedBy : List JobId
  cancelFlag : Bool
  deriving DecidableEq, Repr

/-- abstract content of `cluster_config.json` -/
structure CfgView where
  submitter : Option Host
  submitted : Nat
  completed : Nat
  numJobs : Nat
  isComplete : Bool
  isCanceled : Bool
  version : Nat
  deriving DecidableEq, Repr

/-- abstract content of `job_status.json` -/
structure JsView where
  jobs : List JobView
  hpcIds : List Nat
  batchIdx : Nat
  version : Nat
  deriving DecidableEq, Repr

/-- what a remembered hash stands for: the value whose JSON text was hashed -/
inductive Snap where
  | cfg (c : CfgView)
  | js (j : JsView)
  deriving DecidableEq, Repr

/-- the files of the submission directory -/
structure Disk where
  /-- `cluster_config.json` -/
  cfg : CfgView
  /-- `cluster_config.json` was deleted (environment fault); `cfg` is then meaningless -/
  cfgMissing : Bool
  /-- `config_version.txt` -/
  cfgVer : Nat
  /-- `job_status.json` (its version field is the "inside" version) -/
  js : JsView
  /-- `job_status_version.txt` -/
  jsVer : Nat
  /-- `cluster_config.json.lock` exists while nobody holds the lock (stale / deadlock marker) -/
  marker : Bool
  deriving DecidableEq, Repr

/-- the content of the four files (everything but the lock marker) -/
def Disk.files (d : Disk) : CfgView × Bool × Nat × JsView × Nat := (d.cfg, d.cfgMissing, d.cfgVer, d.js, d.jsVer)

/-- a `Cluster` object -/
structure Handle where
  /-- `_hostname`, fixed at construction -/
  host : Host
  /-- `_config` -/
  cfg : CfgView
  /-- `_job_status` (None until deserialized) -/
  js : Option JsView
  /-- `_config_hash` -/
  cfgHash : Option Snap
  /-- `_job_status_hash` -/
  jsHash : Option Snap
  deriving DecidableEq, Repr

structure Sys where
  disk : Disk
  handles : Hid → Option Handle
  /-- the installed filelock breaks stale markers (3.32.7 does, older releases never do) -/
  breakStale : Bool

def Sys.setHandle (s : Sys) (h : Hid) (x : Handle) : Sys :=
  { s with handles := fun q => if q = h then some x else s.handles q }

/-- arguments of `update_job_status` -/
structure UpdateArgs where
  submitted : List JobId
  /-- blocked job ↦ its `blocked_by` -/
  blocked : List (JobId × List JobId)
  /-- only the length is used by the code -/
  canceled : List JobId
  /-- iterated in this order (the harness passes a list) -/
  completed : List JobId
  hpcIds : List Nat
  batchIdx : Nat
  deriving DecidableEq, Repr

inductive Op where
  | load (h : Hid) (host : Host) (promote jobs : Bool)
  | promote (h : Hid)
  | demote (h : Hid)
  | update (h : Hid) (a : UpdateArgs)
  | markComplete (h : Hid)
  | markCanceled (h : Hid)
  | completeHpcId (h : Hid) (id : Nat)
  | deserializeJobs (h : Hid)
  | allComplete (h : Hid)
  | prepareResubmit (h : Hid) (sel : List JobId) (blockers : List (JobId × List JobId))
  /-- `Cluster.deserialize(dir, deserialize_jobs=True)` as `jade show-status` does -/
  | read
  /-- the lock library removes a stale marker (only if `breakStale`) -/
  | breakMarker
  /-- environment: somebody overwrites a version file -/
  | forgeCfgVer (n : Nat)
  | forgeJsVer (n : Nat)
  /-- environment: `cluster_config.json` is deleted -/
  | rmCfg
  /-- the caller mutates the handle's job status in memory, as a submitter round does:
      `_cancel_job` (`state = DONE`, `blocked_by.clear()`) -/
  | memCancel (h : Hid) (j : JobId)
  /-- … and `job.blocked_by.difference_update(done)` -/
  | memUnblock (h : Hid) (j : JobId) (done : List JobId)
  deriving DecidableEq, Repr

inductive Res where
  | ok
  | bool (b : Bool)
  | err (e : Err)
  /-- AttributeError: the operation needs `_job_status`, which was never deserialized -/
  | attrErr
  /-- no handle in this slot (harness bookkeeping, nothing was called) -/
  | noHandle
  /-- environment operation not enabled -/
  | disabled
  deriving DecidableEq, Repr

def Res.isExc : Res → Bool
  | .err _ => true
  | .attrErr => true
  | _ => false

def Res.isSuccess : Res → Bool
  | .ok => true
  | .bool true => true
  | _ => false

/-! ### serialization -/

/-- `_serialize` of handle `x` against disk `d` -/
def serializeCfg (d : Disk) (x : Handle) : Disk × Handle × Option Err :=
  if cfgVersionMismatch x.cfg.version d.cfgVer then (d, x, some .versionMismatch)
  else if cfgChanged (Snap.cfg x.cfg) x.cfgHash x.jsHash then
    let c := { x.cfg with version := cfgVersionBump x.cfg.version }
    ({ d with cfgVer := c.version, cfg := c, cfgMissing := false },
     { x with cfg := c, cfgHash := some (Snap.cfg c) }, none)
  else (d, x, none)

/-- `_serialize_jobs` for a loaded job status `j` -/
def serializeJs (d : Disk) (x : Handle) (j : JsView) : Disk × Handle × Option Err :=
  if jsVersionMismatch j.version d.jsVer then (d, x, some .versionMismatch)
  else if jsChanged (Snap.js j) x.cfgHash x.jsHash then
    let j' := { j with version := jsVersionBump j.version }
    ({ d with jsVer := j'.version, js := j' },
     { x with js := some j', jsHash := some (Snap.js j') }, none)
  else (d, x, none)

/-! ### `_update_job_status` on the in-memory copies -/

/-- the in-memory pair the loops mutate -/
structure Mem where
  cfg : CfgView
  js : JsView
  deriving DecidableEq, Repr

/-- a loop with early exit: the state reached so far is kept when an element raises -/
def forEach {α : Type} (f : α → Mem → Mem × Option Err) : List α → Mem → Mem × Option Err
  | [], m => (m, none)
  | a :: as, m =>
    match f a m with
    | (m', none) => forEach f as m'
    | r => r

def Mem.setJob (m : Mem) (j : JobId) (v : JobView) : Mem :=
  { m with js := { m.js with jobs := m.js.jobs.set j v } }

/-- one element of `for job in submitted_jobs` -/
def submitOne (j : JobId) (m : Mem) : Mem × Option Err :=
  match m.js.jobs[j]? with
  | none => (m, some .keyError)
  | some v =>
    if submitAssert v.state then
      ({ (m.setJob j { v with state := submitNewState }) with
          cfg := { m.cfg with submitted := submittedAfterSubmit m.cfg.submitted } }, none)
    else (m, some .assertion)

/-- one element of `for job in blocked_jobs` -/
def blockOne (b : JobId × List JobId) (m : Mem) : Mem × Option Err :=
  match m.js.jobs[b.1]? with
  | none => (m, some .keyError)
  | some v =>
    if blockedAssert v.state then (m.setJob b.1 { v with blockedBy := b.2 }, none)
    else (m, some .assertion)

/-- one element of `for _ in canceled_jobs` -/
def cancelOne (_j : JobId) (m : Mem) : Mem × Option Err :=
  ({ m with cfg := { m.cfg with submitted := submittedAfterCancel m.cfg.submitted } }, none)

/-- one element of `for name in completed_job_names`; `processed` = submitted ∪ blocked names -/
def completeOne (processed : List JobId) (j : JobId) (m : Mem) : Mem × Option Err :=
  if completeAssert (processed.contains j) then
    match m.js.jobs[j]? with
    | none => (m, some .keyError)
    | some v =>
      ({ (m.setJob j { v with state := completeNewState }) with
          cfg := { m.cfg with completed := completedAfterComplete m.cfg.completed } }, none)
  else (m, some .assertion)

def clearOne (v : JobView) : JobView :=
  if clearBlockers v.blockedBy v.state then { v with blockedBy := [] } else v

/-- the clearing loop -/
def clearAll (m : Mem) : Mem := { m with js := { m.js with jobs := m.js.jobs.map clearOne } }

/-- sequencing of two phases with early exit -/
def andThen (r : Mem × Option Err) (f : Mem → Mem × Option Err) : Mem × Option Err :=
  match r with
  | (m, none) => f m
  | r => r

/-- names that were submitted or blocked when the completed loop starts (it is only reached when both loops
    ran to their end) -/
def processedOf (a : UpdateArgs) : List JobId := a.submitted ++ a.blocked.map (·.1)

/-- the body of `_update_job_status` between `_check_versions` and `_serialize` -/
def applyUpdate (a : UpdateArgs) (m : Mem) : Mem × Option Err :=
  let m0 : Mem := { m with js := { m.js with hpcIds := a.hpcIds, batchIdx := a.batchIdx } }
  andThen (andThen (andThen (andThen (forEach submitOne a.submitted m0)
    (forEach blockOne a.blocked))
    (forEach cancelOne a.canceled))
    (forEach (completeOne (processedOf a)) a.completed))
    (fun m => (clearAll m, none))

/-! ### private methods: handle × disk → disk × handle × result -/

abbrev Out := Disk × Handle × Res

def resOf : Option Err → Res
  | none => .ok
  | some e => .err e

/-- `_promote_to_submitter` -/
def doPromote (d : Disk) (x : Handle) : Out :=
  if promoteRefused x.cfg.submitter then (d, x, .bool false)
  else
    let r := serializeCfg d { x with cfg := { x.cfg with submitter := some x.host } }
    (r.1, r.2.1, match r.2.2 with | none => .bool true | some e => .err e)

/-- `_demote_from_submitter` -/
def doDemote (d : Disk) (x : Handle) : Out :=
  if demoteAssert x.cfg.submitter x.host then
    let r := serializeCfg d { x with cfg := { x.cfg with submitter := none } }
    (r.1, r.2.1, resOf r.2.2)
  else (d, x, .err .assertion)

/-- `_mark_complete` -/
def doMarkComplete (d : Disk) (x : Handle) : Out :=
  if markCompleteAssert x.cfg.isComplete then
    let r := serializeCfg d { x with cfg := { x.cfg with isComplete := true } }
    (r.1, r.2.1, resOf r.2.2)
  else (d, x, .err .assertion)

/-- `_mark_canceled` -/
def doMarkCanceled (d : Disk) (x : Handle) : Out :=
  let r := serializeCfg d { x with cfg := { x.cfg with isCanceled := true } }
  (r.1, r.2.1, resOf r.2.2)

/-- `_deserialize_jobs` -/
def doDeserializeJobs (d : Disk) (x : Handle) : Out :=
  (d, { x with js := some d.js }, .ok)

/-- `_complete_hpc_job_id` (`list.remove` raises ValueError when the id is absent) -/
def doCompleteHpcId (id : Nat) (d : Disk) (x : Handle) : Out :=
  match x.js with
  | none => (d, x, .attrErr)
  | some j =>
    if j.hpcIds.contains id then
      let j1 := { j with hpcIds := j.hpcIds.erase id }
      let r := serializeJs d { x with js := some j1 } j1
      (r.1, r.2.1, resOf r.2.2)
    else (d, x, .err .valueError)

/-- `_check_versions` -/
def checkVersions (d : Disk) (x : Handle) : Option Res :=
  if checkCfgMismatch x.cfg.version d.cfgVer then some (.err .versionMismatch)
  else match x.js with
    | none => some .attrErr
    | some j => if checkJsMismatch j.version d.jsVer then some (.err .versionMismatch) else none

/-- `_serialize` then `_serialize_jobs` (the second only if the first did not raise) -/
def serializeBoth (d : Disk) (x : Handle) (j : JsView) : Out :=
  let r1 := serializeCfg d x
  match r1.2.2 with
  | some e => (r1.1, r1.2.1, .err e)
  | none =>
    let r2 := serializeJs r1.1 r1.2.1 j
    (r2.1, r2.2.1, resOf r2.2.2)

/-- `_update_job_status` -/
def doUpdate (a : UpdateArgs) (d : Disk) (x : Handle) : Out :=
  match checkVersions d x with
  | some r => (d, x, r)
  | none =>
    match x.js with
    | none => (d, x, .attrErr)
    | some j =>
      let u := applyUpdate a { cfg := x.cfg, js := j }
      match u.2 with
      | some e => (d, { x with cfg := u.1.cfg, js := some u.1.js }, .err e)
      | none => serializeBoth d { x with cfg := u.1.cfg, js := some u.1.js } u.1.js

/-- the loop of `_are_all_jobs_complete` -/
def allCompleteLoop (c : CfgView) : List JobView → Res
  | [] => if allDoneAssert c.completed c.numJobs then .bool true else .err .assertion
  | v :: vs =>
    if jobNotDone v.state then
      (if incompleteAssert c.completed c.numJobs then .bool false else .err .assertion)
    else allCompleteLoop c vs

/-- `_are_all_jobs_complete` (`iter_jobs` asserts that the job status is loaded) -/
def doAllComplete (d : Disk) (x : Handle) : Out :=
  match x.js with
  | none => (d, x, .err .assertion)
  | some j => (d, x, allCompleteLoop x.cfg j.jobs)

/-- the loop of `prepare_for_resubmission`: selected jobs are reset, unselected DONE jobs are counted -/
def resubmitLoop (sel : List JobId) (blockers : List (JobId × List JobId)) :
    Nat → List JobView → Nat → List JobView × Nat
  | _, [], c => ([], c)
  | i, v :: vs, c =>
    if sel.contains i then
      let r := resubmitLoop sel blockers (i + 1) vs c
      ({ v with state := resubmitState, blockedBy := (blockers.lookup i).getD [] } :: r.1, r.2)
    else
      let r := resubmitLoop sel blockers (i + 1) vs (if resubmitCounts v.state then resubmitCompletedInc c else c)
      (v :: r.1, r.2)

/-- the in-memory config after the assignments and the recount of `prepare_for_resubmission` -/
def resubmitCfg (c : CfgView) (sel : List JobId) (completed : Nat) : CfgView :=
  { c with isComplete := resubmitIsComplete, isCanceled := resubmitIsCanceled,
           submitted := (resubmitSubmitted c.numJobs sel).toNat, completed := completed }

/-- `prepare_for_resubmission` (no lock) -/
def doPrepareResubmit (sel : List JobId) (blockers : List (JobId × List JobId)) (d : Disk) (x : Handle) : Out :=
  if resubmitAssert x.cfg.isComplete then
    match x.js with
    | none => (d, { x with cfg := resubmitCfg x.cfg sel resubmitCompletedInit }, .err .assertion)
    | some j =>
      let r := resubmitLoop sel blockers 0 j.jobs resubmitCompletedInit
      let j1 := { j with jobs := r.1 }
      serializeBoth d { x with cfg := resubmitCfg x.cfg sel r.2, js := some j1 } j1
  else (d, x, .err .assertion)

/-- a freshly constructed handle -/
def newHandle (host : Host) (d : Disk) : Handle :=
  { host := host, cfg := d.cfg, js := none, cfgHash := initialHash, jsHash := initialHash }

/-- optional `_deserialize_jobs` of a fresh handle -/
def withJobs (jobs : Bool) (d : Disk) (x : Handle) : Handle :=
  if jobs then { x with js := some d.js } else x

/-- `_deserialize` -/
def doLoad (host : Host) (promote jobs : Bool) (d : Disk) : Disk × Option Handle × Res :=
  if d.cfgMissing then (d, none, .err .invalidConfig)
  else
    let o : Out := if promote then doPromote d (newHandle host d) else (d, newHandle host d, .bool false)
    if o.2.2.isExc then (o.1, none, o.2.2)
    else (o.1, some (withJobs jobs o.1 o.2.1), o.2.2)

/-! ### the lock wrapper and the transition function -/

/-- the marker after an operation that ran under the lock -/
def markerAfter (r : Res) : Bool := r.isExc && markerAfterException

/-- a method of an existing handle under `_do_action_under_lock` -/
def locked (s : Sys) (h : Hid) (f : Disk → Handle → Out) : Sys × Res :=
  match s.handles h with
  | none => (s, .noHandle)
  | some x =>
    if s.disk.marker then (s, .err .lockTimeout)
    else
      let o := f s.disk x
      (({ s with disk := { o.1 with marker := markerAfter o.2.2 } }).setHandle h o.2.1, o.2.2)

/-- a method of an existing handle that takes no lock -/
def unlocked (s : Sys) (h : Hid) (f : Disk → Handle → Out) : Sys × Res :=
  match s.handles h with
  | none => (s, .noHandle)
  | some x =>
    let o := f s.disk x
    (({ s with disk := o.1 }).setHandle h o.2.1, o.2.2)

/-- in-memory mutation of one job of the handle's job status -/
def memJob (s : Sys) (h : Hid) (j : JobId) (f : JobView → JobView) : Sys × Res :=
  match s.handles h with
  | none => (s, .noHandle)
  | some x =>
    match x.js with
    | none => (s, .attrErr)
    | some js =>
      match js.jobs[j]? with
      | none => (s, .err .keyError)
      | some v => (s.setHandle h { x with js := some { js with jobs := js.jobs.set j (f v) } }, .ok)

/-- `Cluster.deserialize` under the lock, binding the new handle to slot `h` (if given) -/
def loadOp (s : Sys) (slot : Option Hid) (host : Host) (promote jobs : Bool) : Sys × Res :=
  if s.disk.marker then (s, .err .lockTimeout)
  else
    let o := doLoad host promote jobs s.disk
    let s1 : Sys := { s with disk := { o.1 with marker := markerAfter o.2.2 } }
    match slot, o.2.1 with
    | some h, some x => (s1.setHandle h x, o.2.2)
    | _, _ => (s1, o.2.2)

def step (s : Sys) : Op → Sys × Res
  | .load h host p j => loadOp s (some h) host p j
  | .promote h => locked s h doPromote
  | .demote h => locked s h doDemote
  | .update h a => locked s h (doUpdate a)
  | .markComplete h => locked s h doMarkComplete
  | .markCanceled h => locked s h doMarkCanceled
  | .completeHpcId h id => locked s h (doCompleteHpcId id)
  | .deserializeJobs h => locked s h doDeserializeJobs
  | .allComplete h => locked s h doAllComplete
  | .prepareResubmit h sel bl =>
    if resubmitLocked then locked s h (doPrepareResubmit sel bl) else unlocked s h (doPrepareResubmit sel bl)
  | .read =>
    match loadOp s none 0 false true with
    | (s', .bool _) => (s', .ok)
    | r => r
  | .breakMarker =>
    if s.breakStale && s.disk.marker then ({ s with disk := { s.disk with marker := false } }, .ok)
    else (s, .disabled)
  | .forgeCfgVer n => ({ s with disk := { s.disk with cfgVer := n } }, .ok)
  | .forgeJsVer n => ({ s with disk := { s.disk with jsVer := n } }, .ok)
  | .rmCfg => ({ s with disk := { s.disk with cfgMissing := true } }, .ok)
  | .memCancel h j => memJob s h j (fun v => { v with state := .done, blockedBy := [] })
  | .memUnblock h j done => memJob s h j (fun v => { v with blockedBy := diffL v.blockedBy done })

/-- run an operation sequence, collecting the results -/
def run (s : Sys) : List Op → Sys × List Res
  | [] => (s, [])
  | op :: ops =>
    let r := step s op
    let rest := run r.1 ops
    (rest.1, r.2 :: rest.2)

/-- the state after an operation sequence -/
def exec (s : Sys) (ops : List Op) : Sys := ops.foldl (fun s op => (step s op).1) s

/-! ### `Cluster.create` -/

/-- the job list of a new submission: per job its blockers and `cancel_on_blocking_job_failure` -/
def createJobs (spec : List (List JobId × Bool)) : List JobView :=
  spec.map fun p => { state := createJobState, blockedBy := p.1, cancelFlag := p.2 }

/-- `Cluster.create`: versions 0 are written to the version files, then config and job status are serialized once each
    (the creator is the first submitter); the creating handle sits in slot 0 -/
def create (host : Host) (spec : List (List JobId × Bool)) (breakStale : Bool) : Sys :=
  let c0 : CfgView := { submitter := some host, submitted := 0, completed := 0, numJobs := spec.length,
                        isComplete := false, isCanceled := false, version := createCfgVersion }
  let j0 : JsView := { jobs := createJobs spec, hpcIds := [], batchIdx := defaultBatchIndex, version := createJsVersion }
  let x0 : Handle := { host := host, cfg := c0, js := some j0, cfgHash := initialHash, jsHash := initialHash }
  let d0 : Disk := { cfg := c0, cfgMissing := true, cfgVer := c0.version, js := j0, jsVer := j0.version, marker := false }
  let r1 := serializeCfg d0 x0
  let r2 := serializeJs r1.1 r1.2.1 j0
  { disk := r2.1, handles := fun q => if q = 0 then some r2.2.1 else none, breakStale := breakStale }

/-! ### reading the status (`jade show-status`) -/

structure Summary where
  isComplete : Bool
  isCanceled : Bool
  numJobs : Nat
  completed : Nat
  notSubmitted : Int
  jobs : List JobView
  deriving DecidableEq, Repr

/-- `Cluster.deserialize(dir, deserialize_jobs=True)[0].get_status_summary(include_jobs=True)` -/
def readStatus (d : Disk) : Except Err Summary :=
  if d.marker then .error .lockTimeout
  else if d.cfgMissing then .error .invalidConfig
  else .ok { isComplete := d.cfg.isComplete, isCanceled := d.cfg.isCanceled, numJobs := d.cfg.numJobs,
             completed := d.cfg.completed, notSubmitted := notSubmittedCount d.cfg.numJobs d.cfg.submitted,
             jobs := d.js.jobs }

/-! ### ghost state: who believes to hold the submitter role, and the role protocol -/

/-- a system together with the set of *holders*: handles that got `True` from a promotion (or created the
    submission) and have not successfully demoted since -/
structure Tracked where
  s : Sys
  holder : Hid → Bool

def holdersAfter (hs : Hid → Bool) : Op → Res → Hid → Bool
  | .load h _ _ _, .bool true => fun q => if q = h then true else hs q
  | .promote h, .bool true => fun q => if q = h then true else hs q
  | .demote h, .ok => fun q => if q = h then false else hs q
  | _, _ => hs

def Tracked.step (t : Tracked) (op : Op) : Tracked :=
  { s := (Jade.Cluster.step t.s op).1, holder := holdersAfter t.holder op (Jade.Cluster.step t.s op).2 }

def Tracked.exec (t : Tracked) (ops : List Op) : Tracked := ops.foldl Tracked.step t

/-- `Cluster.create`: the creator (slot 0) holds the role -/
def Tracked.create (host : Host) (spec : List (List JobId × Bool)) (breakStale : Bool) : Tracked :=
  { s := Jade.Cluster.create host spec breakStale, holder := fun q => q == 0 }

/-- The role protocol, for one operation in a given state: the operations that write cluster state are invoked only
    by a current holder; a holder's handle is not thrown away by re-loading into its slot; nobody tampers with the
    files behind the API's back.  (Every JADE call site has this shape: promote → work → demote.) -/
def Protocol (t : Tracked) : Op → Bool
  | .demote h => t.holder h
  | .update h _ => t.holder h
  | .markComplete h => t.holder h
  | .markCanceled h => t.holder h
  | .completeHpcId h _ => t.holder h
  | .prepareResubmit h _ _ => t.holder h
  | .load h _ _ _ => !t.holder h
  | .forgeCfgVer _ => false
  | .forgeJsVer _ => false
  | .rmCfg => false
  | _ => true

/-- every operation of the run respects the protocol in the state in which it is invoked -/
def ProtocolRun (t : Tracked) : List Op → Bool
  | [] => true
  | op :: ops => Protocol t op && ProtocolRun (t.step op) ops

/-- operations of the environment that bypass the API -/
def Op.isTamper : Op → Bool
  | .forgeCfgVer _ => true
  | .forgeJsVer _ => true
  | .rmCfg => true
  | _ => false

end Jade.Cluster
