import JadeModel.Model.Cluster

/-!
Torn writes: a process is KILLED inside a lock section of `jade/jobs/cluster.py`, between two of the file
writes the section performs (SIGKILL / scheduler kill / Ctrl-C: no `except Exception` handler runs, so the
lock file is not re-created on purpose; whether the marker of the dead process survives depends on the lock
library and is a parameter of the operation).

`_serialize` writes two files (version file and data file), `_serialize_jobs` two more, and
`_update_job_status` / `prepare_for_resubmission` call both, config first.  The ORDER of the two writes of
each pair is `Gen.Cluster.cfgWriteOrder` / `jsWriteOrder`, regenerated from the statement order of the
source on every run.  A kill after `k` writes leaves the first `k` writes of the full operation on disk and
the others not (`_serialize_file`, i.e. rename-to-backup / write / remove-backup, is one write).

The extended operation alphabet `XOp` wraps the API operations of `Model/Cluster.lean` (unchanged) and adds
`crash`.  The cluster suite kills the real code at exactly these points and compares the files.
-/

namespace Jade.Cluster
open Jade.Gen.Cluster

/-- the config pair (data file, its presence, version file) differs -/
def cfgPairChanged (d d' : Disk) : Bool :=
  !(decide (d'.cfg = d.cfg) && decide (d'.cfgVer = d.cfgVer) && decide (d'.cfgMissing = d.cfgMissing))

/-- the job-status pair differs -/
def jsPairChanged (d d' : Disk) : Bool :=
  !(decide (d'.js = d.js) && decide (d'.jsVer = d.jsVer))

/-- the file writes of a completed operation that took the disk from `d` to `d'`, in the order in which the
    code performs them: the config pair before the job-status pair, each pair in its generated order -/
def writesOf (d d' : Disk) : List FileId :=
  (if cfgPairChanged d d' then cfgWriteOrder else []) ++ (if jsPairChanged d d' then jsWriteOrder else [])

/-- one file write of the operation whose complete result is `d'`, applied to `d` -/
def writeFile (d' : Disk) (d : Disk) : FileId → Disk
  | .cfgVer => { d with cfgVer := d'.cfgVer }
  | .cfg => { d with cfg := d'.cfg, cfgMissing := d'.cfgMissing }
  | .jsVer => { d with jsVer := d'.jsVer }
  | .js => { d with js := d'.js }

/-- the disk after the first `k` file writes of the operation -/
def tornDisk (d d' : Disk) (k : Nat) : Disk :=
  ((writesOf d d').take k).foldl (writeFile d') d

/-- the slot of the handle an operation acts through (its process dies with it) -/
def Op.actor : Op → Option Hid
  | .promote h => some h
  | .demote h => some h
  | .update h _ => some h
  | .markComplete h => some h
  | .markCanceled h => some h
  | .completeHpcId h _ => some h
  | .deserializeJobs h => some h
  | .allComplete h => some h
  | .prepareResubmit h _ _ => some h
  | .memCancel h _ => some h
  | .memUnblock h _ _ => some h
  | _ => none

/-- the operation runs under the cluster lock -/
def Op.takesLock : Op → Bool
  | .load .. => true
  | .promote _ => true
  | .demote _ => true
  | .update .. => true
  | .markComplete _ => true
  | .markCanceled _ => true
  | .completeHpcId .. => true
  | .deserializeJobs _ => true
  | .allComplete _ => true
  | .prepareResubmit .. => resubmitLocked
  | .read => true
  | _ => false

def dropHandle (hs : Hid → Option Handle) : Option Hid → Hid → Option Handle
  | none => hs
  | some h => fun q => if q = h then none else hs q

/-- The process performing `op` is killed right before its `(k+1)`-th file write.  If the operation performs
    at most `k` writes nothing happens to it (result `some r`, exactly `step`).  Otherwise (result `none`):
    the first `k` writes are on disk, the acting handle is gone, nothing is bound by a `load`, and the lock
    marker of a locked operation is still there unless `lockGone`. -/
def crashStep (s : Sys) (op : Op) (k : Nat) (lockGone : Bool) : Sys × Option Res :=
  let r := step s op
  if k < (writesOf s.disk r.1.disk).length then
    ({ s with disk := { tornDisk s.disk r.1.disk k with marker := if op.takesLock then !lockGone else s.disk.marker },
              handles := dropHandle s.handles op.actor }, none)
  else (r.1, some r.2)

/-- API operations plus kills -/
inductive XOp where
  | api (op : Op)
  | crash (op : Op) (k : Nat) (lockGone : Bool)
  deriving DecidableEq, Repr

def stepX (s : Sys) : XOp → Sys × Option Res
  | .api op => ((step s op).1, some (step s op).2)
  | .crash op k g => crashStep s op k g

def execX (s : Sys) (ops : List XOp) : Sys := ops.foldl (fun s op => (stepX s op).1) s

/-- run a sequence, collecting the results (`none` = the process was killed) -/
def runX (s : Sys) : List XOp → Sys × List (Option Res)
  | [] => (s, [])
  | op :: ops =>
    let r := stepX s op
    let rest := runX r.1 ops
    (rest.1, r.2 :: rest.2)

def XOp.isTamper : XOp → Bool
  | .api op => op.isTamper
  | .crash op _ _ => op.isTamper

end Jade.Cluster
