import JadeModel.Model.Cluster

/-!
Torn writes: a process is KILLED inside a lock section of `jade/jobs/cluster.py`, between two of the file
writes the section performs (SIGKILL / scheduler kill / Ctrl-C: no `except Exception` handler runs, so the
lock file is not re-created on purpose; whether the marker of the dead process survives depends on the lock
library and is a parameter of the operation).

`_serialize` writes two files (version file and data file), `_serialize_jobs` two more, and
`_update_job_status` / `prepare_for_resubmission` call both, config first.  The ORDER of the two writes of
each pair is `Gen.Cluster.cfgWriteOrder` / `jsWriteOrder`, regenerated from the statement order of the
source on every run.  A kill after `k` writes leaves the first `k` writes of the full operation on disk and
the others not (`_serialize_file`, i.e. rename-to-backup / write / remove-backup, is one write).

The extended operation alphabet `XOp` wraps the API operations of `Model/Cluster.lean` (unchanged) and adds
`crash`.  The cluster suite kills the real code at exactly these points and compares the files.
-/

namespace Jade.Cluster
open Jade.Gen.Cluster

/-- the config pair (data file, its presence, version file) differs -/
def cfgPairChanged (d d' : Disk) : Bool :=
  !(decide (d'.cfg = d.cfg) && decide (d'.cfgVer = d.cfgVer) && decide (d'.cfgMissing = d.cfgMissing))

/-- the job-status pair differs -/
def jsPairChanged (d d' : Disk) : Bool :=
  !(decide (d'.js = d.js) && decide (d'.jsVer = d.jsVer))

/-- the file writes of a completed operation that took the disk from `d` to `d'`, in the order in which the
    code performs them: the config pair before the job-status pair, each pair in its generated order -/
def writesOf (d d' : Disk) : List FileId :=
  (if cfgPairChanged d d' then cfgWriteOrder else []) ++ (if jsPairChanged d d' then jsWriteOrder else [])

/-- one file write of the operation whose complete result is `d'`, applied to `d` -/
def writeFile (d' : Disk) (d : Disk) : FileId → Disk
  | .cfgVer => { d with cfgVer := d'.cfgVer }
  | .cfg => { d with cfg := d'.cfg, cfgMissing := d'.cfgMissing }
  | .jsVer => { d with jsVer := d'.jsVer }
  | .js => { d with js := d'.js }

/-- the disk after the first `k` file writes of the operation -/
def tornDisk (d d' : Disk) (k : Nat) : Disk :=
  ((writesOf d d').take k).foldl (writeFile d') d

/-- the slot of the handle an operation acts through (its process dies with it) -/
def Op.actor : Op → Option Hid
  | .promote h => some h
  | .demote h => some h
  | .update h _ => some h
  | .markComplete h => some h
  | .markCanceled h => some h
  | .completeHpcId h _ => some h
  | .deserializeJobs h => some h
  | .allComplete h => some h
  | .prepareResubmit h _ _ => some h
  | .memCancel h _ => some h
  | .memUnblock h _ _ => some h
  | _ => none

/-- the operation runs under the cluster lock -/
def Op.takesLock : Op → Bool
  | .load .. => true
  | .promote _ => true
  | .demote _ => true
  | .update .. => true
  | .markComplete _ => true
  | .markCanceled _ => true
  | .completeHpcId .. => true
  | .deserializeJobs _ => true
  | .allComplete _ => true
  | .prepareResubmit .. => resubmitLocked
  | .read => true
  | _ => false

def dropHandle (hs : Hid → Option Handle) : Option Hid → Hid → Option Handle
  | none => hs
  | some h => fun q => if q = h then none else hs q

/-- The process performing `op` is killed right before its `(k+1)`-th file write.  If the operation performs
    at most `k` writes nothing happens to it (result `some r`, exactly `step`).  Otherwise (result `none`):
    the first `k` writes are on disk, the acting handle is gone, nothing is bound by a `load`, and the lock
    marker of a locked operation is still there unless `lockGone`. -/
def crashStep (s : Sys) (op : Op) (k : Nat) (lockGone : Bool) : Sys × Option Res :=
  let r := step s op
  if k < (writesOf s.disk r.1.disk).length then
    ({ s with disk := { tornDisk s.disk r.1.disk k with marker := if op.takesLock then !lockGone else s.disk.marker },
              handles := dropHandle s.handles op.actor }, none)
  else (r.1, some r.2)

/-- API operations plus kills -/
inductive XOp where
  | api (op : Op)
  | crash (op : Op) (k : Nat) (lockGone : Bool)
  deriving DecidableEq, Repr

def stepX (s : Sys) : XOp → Sys × Option Res
  | .api op => ((step s op).1, some (step s op).2)
  | .crash op k g => crashStep s op k g

def execX (s : Sys) (ops : List XOp) : Sys := ops.foldl (fun s op => (stepX s op).1) s

/-- run a sequence, collecting the results (`none` = the process was killed) -/
def runX (s : Sys) : List XOp → Sys × List (Option Res)
  | [] => (s, [])
  | op :: ops =>
    let r := stepX s op
    let rest := runX r.1 ops
    (rest.1, r.2 :: rest.2)

def XOp.isTamper : XOp → Bool
  | .api op => op.isTamper
  | .crash op _ _ => op.isTamper

/-! ## torn version files

`_serialize_config_version` / `_serialize_job_status_version` are `open(f, "w")` (truncate) followed by `write()`.
A process killed INSIDE such a write leaves the version file EMPTY.  `_get_config_version` /
`_get_job_status_version` then die in `int('')` (ValueError) — at exactly the statement where a handle with an
out-of-date copy gets the version-mismatch error (`current = self._get_…_version()` is immediately followed by
the compare-and-raise).  So while a version file is empty, every operation behaves as if the acting handle's
version DIFFERED from that file, except that the exception is ValueError.

The state of `Model/Cluster.lean` (`Sys`, `Disk`) is unchanged: `TSys` adds one flag per version file.  While a
flag is set the corresponding number in `Disk` is hidden (it is what the file said before it was truncated; no
operation of the API can observe or change it, and the driver prints `null`).  `apiT` runs the unchanged `step`
on a disk in which each empty version file is replaced by a number that differs from the acting process's
version (`Op.mine`), puts the hidden number back, and turns the `versionMismatch` raised by the read of an empty
file into `valueError`.  WHICH read raised follows the read order of the code:
* `_serialize` only (`promote`, `load` with promotion, `demote`, `mark_complete`, `mark_canceled`): config version;
* `_serialize_jobs` only (`complete_hpc_job_id`): job-status version;
* `_check_versions` (`update_job_status`) and `_serialize`; `_serialize_jobs` (`prepare_for_resubmission`): config
  version first, then — if that compare passed — the job-status version.  In `_check_versions` the read of the
  job-status version file precedes the access `self._job_status.version`, so a handle WITHOUT a job status gets
  ValueError there, not AttributeError.
Operations that read no version file (load without promotion, a refused promotion, deserialize_jobs,
are_all_jobs_complete, reading the status, in-memory mutations) are unaffected.  Only the environment
(`forgeCfgVer` / `forgeJsVer`: somebody rewrites the file) ends the state; JADE code reads a version file before
it writes it.
-/

/-- a system in which version files may be EMPTY -/
structure TSys where
  s : Sys
  /-- `config_version.txt` is empty (`s.disk.cfgVer` is then the hidden number it held before) -/
  cfgVerTorn : Bool
  /-- `job_status_version.txt` is empty -/
  jsVerTorn : Bool

def TSys.ofSys (s : Sys) : TSys := { s := s, cfgVerTorn := false, jsVerTorn := false }

/-- the versions (config, job status) the acting process holds in memory when it reads the version files: a fresh
    handle (`load`) has just read `cluster_config.json`; an operation that needs the job-status version of a handle
    that has no job status fails before it compares anything (the second component is then irrelevant) -/
def Op.mine (s : Sys) (op : Op) : Nat × Nat :=
  match op with
  | .load .. => (s.disk.cfg.version, 0)
  | _ =>
    match op.actor with
    | none => (0, 0)
    | some h =>
      match s.handles h with
      | none => (0, 0)
      | some x => (x.cfg.version, match x.js with | none => 0 | some j => j.version)

/-- the operation reads `config_version.txt` (if it gets that far) -/
def Op.readsCfgVer : Op → Bool
  | .load _ _ p _ => p
  | .promote _ => true
  | .demote _ => true
  | .update .. => true
  | .markComplete _ => true
  | .markCanceled _ => true
  | .prepareResubmit .. => true
  | _ => false

/-- the operation reads `job_status_version.txt` (if it gets that far) -/
def Op.readsJsVer : Op → Bool
  | .update .. => true
  | .completeHpcId .. => true
  | .prepareResubmit .. => true
  | _ => false

/-- operations that read both version files: the compare of the config version, which comes first, raises -/
def Op.cfgCompareFails (mine current : Nat) : Op → Bool
  | .update .. => checkCfgMismatch mine current
  | .prepareResubmit .. => cfgVersionMismatch mine current
  | _ => false

/-- each empty version file replaced by a number that differs from the acting process's version -/
def maskDisk (t : TSys) (mine : Nat × Nat) : Disk :=
  { t.s.disk with cfgVer := if t.cfgVerTorn then mine.1 + 1 else t.s.disk.cfgVer,
                  jsVer := if t.jsVerTorn then mine.2 + 1 else t.s.disk.jsVer }

/-- … and the hidden numbers put back -/
def unmaskDisk (t : TSys) (d : Disk) : Disk :=
  { d with cfgVer := if t.cfgVerTorn then t.s.disk.cfgVer else d.cfgVer,
           jsVer := if t.jsVerTorn then t.s.disk.jsVer else d.jsVer }

/-- the result is the exception of a version compare (for `_check_versions` without a job status: the AttributeError
    of `self._job_status.version`, which the read of the version file precedes) -/
def compareRaised (op : Op) : Res → Bool
  | .err .versionMismatch => true
  | .attrErr => (match op with | .update .. => true | _ => false)
  | _ => false

/-- the result of the run on the masked disk, with the exception of a read of an EMPTY file put in place -/
def tornRes (t : TSys) (op : Op) (mine : Nat × Nat) (r : Res) : Res :=
  if compareRaised op r &&
      ((t.cfgVerTorn && op.readsCfgVer) ||
       (t.jsVerTorn && op.readsJsVer && !(op.cfgCompareFails mine.1 t.s.disk.cfgVer))) then .err .valueError
  else r

/-- an API operation in a system whose version files may be empty -/
def apiT (t : TSys) (op : Op) : TSys × Res :=
  match op with
  | .forgeCfgVer _ => ({ t with s := (step t.s op).1, cfgVerTorn := false }, (step t.s op).2)
  | .forgeJsVer _ => ({ t with s := (step t.s op).1, jsVerTorn := false }, (step t.s op).2)
  | _ =>
    let r := step { t.s with disk := maskDisk t (op.mine t.s) } op
    ({ t with s := { r.1 with disk := unmaskDisk t r.1.disk } }, tornRes t op (op.mine t.s) r.2)

/-- The process performing `op` is killed at its `(k+1)`-th file write: right before it (`torn = false`, exactly
    `crashStep`), or INSIDE it (`torn = true`): if that write is a version file, the file is left empty; if it is a data
    file (`_serialize_file`: rename to backup / write / remove backup) the kill is the one right before the write.
    The operation itself runs in the torn-aware way: if an empty version file makes it raise, it performs no write. -/
def crashT (t : TSys) (op : Op) (k : Nat) (lockGone torn : Bool) : TSys × Option Res :=
  let r := apiT t op
  let ws := writesOf t.s.disk r.1.s.disk
  if k < ws.length then
    ({ s := { t.s with disk := { tornDisk t.s.disk r.1.s.disk k with marker := if op.takesLock then !lockGone else t.s.disk.marker },
                       handles := dropHandle t.s.handles op.actor },
       cfgVerTorn := t.cfgVerTorn || (torn && decide (ws[k]? = some FileId.cfgVer)),
       jsVerTorn := t.jsVerTorn || (torn && decide (ws[k]? = some FileId.jsVer)) }, none)
  else (r.1, some r.2)

/-- API operations, kills between file writes, kills inside a file write -/
inductive TOp where
  | api (op : Op)
  | crash (op : Op) (k : Nat) (lockGone torn : Bool)
  deriving DecidableEq, Repr

def TOp.ofX : XOp → TOp
  | .api op => .api op
  | .crash op k g => .crash op k g false

def stepT (t : TSys) : TOp → TSys × Option Res
  | .api op => ((apiT t op).1, some (apiT t op).2)
  | .crash op k g torn => crashT t op k g torn

def execT (t : TSys) (ops : List TOp) : TSys := ops.foldl (fun t op => (stepT t op).1) t

/-- run a sequence, collecting the results (`none` = the process was killed) -/
def runT (t : TSys) : List TOp → TSys × List (Option Res)
  | [] => (t, [])
  | op :: ops =>
    let r := stepT t op
    let rest := runT r.1 ops
    (rest.1, r.2 :: rest.2)

def TOp.isTamper : TOp → Bool
  | .api op => op.isTamper
  | .crash op _ _ _ => op.isTamper

end Jade.Cluster
