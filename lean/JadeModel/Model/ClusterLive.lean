import JadeModel.Model.ClusterCrash

/-!
Calls that FAIL and leave the process alive, and calls that STALL inside the lock section.

`Model/ClusterCrash.lean` kills a process at one of its file writes: the handle is gone afterwards.  Here the process
survives:

* **failed write** (`failWrite op k`): the `(k+1)`-th file write of the call raises `OSError` (quota exceeded, a hiccup of
  the shared filesystem).  The first `k` writes are on disk.  The exception passes through `_do_action_under_lock_internal`
  (`except Exception`: the lock is released and the lock file re-created as the deadlock marker) to the caller, which goes
  on using the SAME `Cluster` object.  What that object holds in memory follows the statement order of `_serialize` /
  `_serialize_jobs`:

      self._config.version += 1                 self._job_status.version += 1
      try: self._serialize_config_version() (1) try: self._serialize_job_status_version()   (3)
      except Exception:                         except Exception:
          self._config.version -= 1; raise          self._job_status.version -= 1; raise
      self._config_hash = hash(text)            self._serialize_file(text, job_status_file)   (4)
      self._serialize_file(text, config_file) (2)   self._job_status_hash = hash(text)

  i.e. the mutation of the call is in memory before write (1) / (3) is attempted; when that write - of the VERSION file -
  raises, the bump of the version number is rolled back (`Gen.Cluster.cfgVersionAfterFailedWrite` /
  `jsVersionAfterFailedWrite`, regenerated from the handler; without the handler the handle kept a version number that is on
  no file - findings/f9f): the handle holds the on-disk version again.  When write (2) / (4) - of the DATA file - raises, the
  version file holds the bumped number and so does the handle.  The config hash is remembered before write (2), the
  job-status hash only after write (4); `_serialize_jobs` is not reached when a write of `_serialize` raised.  With
  `torn = true` the failing write of a version file had already truncated it (`open(f, "w")` succeeded, `write()` raised): the
  file is left EMPTY, as after a kill inside that write.  (Calls that raise without any write failure — unknown job
  name, an assertion, a version mismatch — are ordinary API operations of `Model/Cluster.lean`: `step` keeps the partly
  updated in-memory copy in the handle.)

* **stalled call** (`stallBegin op k` … `stallEnd`): the process performing `op` hangs right before its `(k+1)`-th file write —
  alive, inside its lock section, the lock file present — while the other handles act; `stallEnd` lets it perform its
  remaining writes and return.  Only a call of a handle under the cluster lock is parked.  The lock marker of a live holder
  is not stale: the lock library does not remove it (`breakMarker` is refused meanwhile), whatever its age.

The cluster suite makes the real code fail / hang at exactly these points (the write primitives that the kill points hook) and
compares result and files after every operation.
-/

namespace Jade.Cluster
open Jade.Gen.Cluster

/-- the slot an operation acts through or binds -/
def Op.slot : Op → Option Hid
  | .load h _ _ _ => some h
  | op => op.actor

/-- the in-memory job status with the version it had before the call (its bump was not reached); a handle without a job status
    has none afterwards either (no call that writes a file loads one) -/
def restoreJsVersion (x x' : Handle) : Option JsView :=
  match x.js with
  | some j => x'.js.map fun j' => { j' with version := j.version }
  | none => none

/-- The handle after its call raised at the write of file `f`: `x` the handle before the call, `x'` the handle the completed
    call would have left. -/
def failedHandle (x x' : Handle) : FileId → Handle
  | .cfgVer => { x' with cfg := { x'.cfg with version := (cfgVersionAfterFailedWrite x'.cfg.version).toNat },
                         cfgHash := x.cfgHash, js := restoreJsVersion x x', jsHash := x.jsHash }
  | .cfg => { x' with js := restoreJsVersion x x', jsHash := x.jsHash }
  | .jsVer => { x' with js := x'.js.map fun j => { j with version := (jsVersionAfterFailedWrite j.version).toNat },
                        jsHash := x.jsHash }
  | .js => { x' with jsHash := x.jsHash }

/-- The `(k+1)`-th file write of `op` raises OSError.  If the call performs at most `k` writes it is exactly `apiT`. -/
def failT (t : TSys) (op : Op) (k : Nat) (torn : Bool := false) : TSys × Res :=
  let r := apiT t op
  let ws := writesOf t.s.disk r.1.s.disk
  match ws[k]? with
  | none => r
  | some f =>
    let hs : Hid → Option Handle :=
      match op.actor with
      | none => t.s.handles
      | some h =>
        match t.s.handles h, r.1.s.handles h with
        | some x, some x' => fun q => if q = h then some (failedHandle x x' f) else t.s.handles q
        | _, _ => t.s.handles
    ({ s := { t.s with disk := { tornDisk t.s.disk r.1.s.disk k with
                                   marker := if op.takesLock then markerAfter (.err .ioError) else t.s.disk.marker },
                       handles := hs },
       cfgVerTorn := t.cfgVerTorn || (torn && decide (f = FileId.cfgVer)),
       jsVerTorn := t.jsVerTorn || (torn && decide (f = FileId.jsVer)) }, .err .ioError)

/-- a call parked inside its lock section -/
structure Pending where
  /-- the slot of the process (nothing else is invoked through it meanwhile) -/
  slot : Option Hid
  /-- the handle in that slot when the call has returned -/
  handle : Option Handle
  /-- the files as the completed call leaves them (the values of its remaining writes; its marker) -/
  final : Disk
  /-- the writes still to be performed -/
  rest : List FileId
  /-- what the call returns -/
  res : Res

structure FSys where
  t : TSys
  pending : Option Pending

def FSys.ofT (t : TSys) : FSys := { t := t, pending := none }

inductive FRes where
  | res (r : Res)
  /-- the process was killed -/
  | killed
  /-- the call is parked inside its lock section -/
  | stalled
  /-- the process behind the slot is inside a (parked) call: nothing was invoked -/
  | busy
  /-- `stallEnd` without a parked call -/
  | noStall
  deriving DecidableEq, Repr

inductive FOp where
  | base (op : TOp)
  | failWrite (op : Op) (k : Nat) (torn : Bool := false)
  | stallBegin (op : Op) (k : Nat)
  | stallEnd
  deriving DecidableEq, Repr

/-- the API call an operation invokes -/
def FOp.call : FOp → Option Op
  | .base (.api op) => some op
  | .base (.crash op _ _ _) => some op
  | .failWrite op _ _ => some op
  | .stallBegin op _ => some op
  | .stallEnd => none

/-- the operation goes through the slot of the parked call -/
def FSys.busy (f : FSys) (op : Op) : Bool :=
  match f.pending, op.slot with
  | some p, some h => decide (p.slot = some h)
  | _, _ => false

def FRes.ofT : Option Res → FRes
  | some r => .res r
  | none => .killed

/-- only a call of a handle under the cluster lock is parked -/
def Op.stallable (op : Op) : Bool := op.takesLock && op.slot.isSome

/-- `stallBegin`: the call runs up to its `(k+1)`-th file write and parks there, holding the lock -/
def stallBeginF (f : FSys) (op : Op) (k : Nat) : FSys × FRes :=
  let r := apiT f.t op
  let ws := writesOf f.t.s.disk r.1.s.disk
  if op.stallable && decide (k < ws.length) then
    ({ t := { f.t with s := { f.t.s with disk := { tornDisk f.t.s.disk r.1.s.disk k with marker := true } } },
       pending := some { slot := op.slot, handle := op.slot.bind r.1.s.handles, final := r.1.s.disk,
                         rest := ws.drop k, res := r.2 } }, .stalled)
  else ({ f with t := r.1 }, .res r.2)

/-- `stallEnd`: the parked call performs its remaining writes (a version file it writes is no longer empty), releases the
    lock (re-creating the marker if it raises) and returns -/
def stallEndF (f : FSys) : FSys × FRes :=
  match f.pending with
  | none => (f, .noStall)
  | some p =>
    let hs : Hid → Option Handle :=
      match p.slot, p.handle with
      | some h, some x => fun q => if q = h then some x else f.t.s.handles q
      | _, _ => f.t.s.handles
    ({ t := { s := { f.t.s with disk := { p.rest.foldl (writeFile p.final) f.t.s.disk with marker := p.final.marker },
                                handles := hs },
              cfgVerTorn := f.t.cfgVerTorn && !p.rest.contains FileId.cfgVer,
              jsVerTorn := f.t.jsVerTorn && !p.rest.contains FileId.jsVer },
       pending := none }, .res p.res)

def stepF (f : FSys) (fop : FOp) : FSys × FRes :=
  match fop.call with
  | none => stallEndF f
  | some op =>
    if f.busy op then (f, .busy)
    -- the marker of a live holder is not stale: the lock library leaves it alone
    else if decide (op = .breakMarker) && f.pending.isSome then (f, .res .disabled)
    else
      match fop with
      | .base top => ({ f with t := (stepT f.t top).1 }, FRes.ofT (stepT f.t top).2)
      | .failWrite op k torn => ({ f with t := (failT f.t op k torn).1 }, .res (failT f.t op k torn).2)
      | .stallBegin op k => stallBeginF f op k
      | .stallEnd => stallEndF f

def execF (f : FSys) (ops : List FOp) : FSys := ops.foldl (fun f op => (stepF f op).1) f

def runF (f : FSys) : List FOp → FSys × List FRes
  | [] => (f, [])
  | op :: ops =>
    let r := stepF f op
    let rest := runF r.1 ops
    (rest.1, r.2 :: rest.2)

def FOp.ofT (op : TOp) : FOp := .base op

def FOp.isTamper : FOp → Bool
  | .base op => op.isTamper
  | .failWrite op _ _ => op.isTamper
  | .stallBegin op _ => op.isTamper
  | .stallEnd => false

end Jade.Cluster
