import JadeModel.Basic
import JadeModel.Gen.Command

/-!
Model of how a job is launched and how its outcome is recorded (property C19):

* `shSplit` — Python's `shlex.split(s, posix=True)`, i.e. `shlex.shlex(s, posix=True)` with
  `whitespace_split = True` and `commenters = ''`, as a character-at-a-time state machine that
  mirrors `shlex.read_token` (CPython 3.12, posix branch);
* `generateCommand` — `GenericCommandExecution.generate_command` (the guarded suffix templates
  come from `Gen.Command`);
* `launch` — `AsyncCliCommand.run`: argv, the two environment variables, the stdout/stderr files;
* `completeRow` / `cancelRow` — the `Result` that `_complete` / `cancel` append to the batch's
  results file.

Strings are `List Char` inside the lexer.  Everything that the code decides (posix flag, env names,
file name templates, suffix templates and guards, `Result(...)` arguments) is a generated term.
-/

namespace Jade.Command
open Jade.Gen.Command

/-! ### `shlex.split(s, posix=True)` -/

/-- `shlex.whitespace = ' \t\r\n'` -/
def isShWs (c : Char) : Bool := c == ' ' || c == '\t' || c == '\r' || c == '\n'

/-- `shlex.quotes = '\'"'` -/
def isQuote (c : Char) : Bool := c == '\'' || c == '"'

/-- `shlex.escape = '\\'` -/
def isEscape (c : Char) : Bool := c == '\\'

/-- `shlex.escapedquotes = '"'`: the quotes inside which a backslash escapes -/
def isEscapedQuote (q : Char) : Bool := q == '"'

/-- `shlex.state` (the values reachable with `posix=True`, `whitespace_split=True`,
    no punctuation chars).  After end of input the state is `None`; that is `Lex.finish`. -/
inductive Mode where
  /-- `' '`: between tokens -/
  | space
  /-- `'a'`: inside a word -/
  | word
  /-- `'\''` or `'"'`: inside quotes opened by `q` -/
  | quote (q : Char)
  /-- `'\\'`: the previous character was an escape; `back` is `escapedstate`
      (`none` = `'a'`, `some q` = the quote state to return to) -/
  | escape (back : Option Char)
  deriving DecidableEq, Repr

/-- The lexer's variables: `state`, `token`, the local `quoted` of `read_token`, and the tokens
    already returned. -/
structure Lex where
  mode : Mode
  token : List Char
  quoted : Bool
  out : List (List Char)
  deriving DecidableEq, Repr

def Lex.init : Lex := { mode := .space, token := [], quoted := false, out := [] }

/-- `if self.token or (self.posix and quoted): break  # emit current token  else: continue`.
    A `break` returns `token` from `read_token` (it is kept even when empty, because `quoted`);
    the next `read_token` starts with `token = ''` and `quoted = False`.  With `continue` the
    token is empty and `quoted` false already. -/
def Lex.flush (s : Lex) : Lex :=
  { s with token := [], quoted := false,
           out := if s.token ≠ [] ∨ s.quoted = true then s.out ++ [s.token] else s.out }

/-- state `' '` -/
def Lex.stepSpace (s : Lex) (c : Char) : Lex :=
  if isShWs c then { s.flush with mode := .space }
  else if isEscape c then { s with mode := .escape none }        -- escapedstate = 'a'
  else if isQuote c then { s with mode := .quote c }
  else { s with token := [c], mode := .word }                      -- wordchars / whitespace_split

/-- state `'a'` -/
def Lex.stepWord (s : Lex) (c : Char) : Lex :=
  if isShWs c then { s.flush with mode := .space }
  else if isQuote c then { s with mode := .quote c }
  else if isEscape c then { s with mode := .escape none }
  else { s with token := s.token ++ [c] }

/-- state in `quotes` (`quoted = True` is executed for every character read in this state) -/
def Lex.stepQuote (s : Lex) (q c : Char) : Lex :=
  if c = q then { s with quoted := true, mode := .word }
  else if isEscape c && isEscapedQuote q then { s with quoted := true, mode := .escape (some q) }
  else { s with quoted := true, token := s.token ++ [c] }

/-- state in `escape`: inside double quotes only the quote itself and the escape character are
    escapable; before any other character the backslash is kept. -/
def Lex.stepEscape (s : Lex) (back : Option Char) (c : Char) : Lex :=
  match back with
  | none => { s with token := s.token ++ [c], mode := .word }
  | some q =>
    if c ≠ '\\' ∧ c ≠ q then { s with token := s.token ++ ['\\', c], mode := .quote q }
    else { s with token := s.token ++ [c], mode := .quote q }

/-- one iteration of the `while True` loop of `read_token` on a real character -/
def Lex.step (s : Lex) (c : Char) : Lex :=
  match s.mode with
  | .space => s.stepSpace c
  | .word => s.stepWord c
  | .quote q => s.stepQuote q c
  | .escape back => s.stepEscape back c

def Lex.run (s : Lex) (cs : List Char) : Lex := cs.foldl Lex.step s

/-- end of input (`nextchar == ''`): in the states `' '`/`'a'` the pending token is returned
    unless it is empty and unquoted; inside quotes `ValueError("No closing quotation")`, after an
    escape `ValueError("No escaped character")`. -/
def Lex.finish (s : Lex) : Except Err (List (List Char)) :=
  match s.mode with
  | .space => .ok s.flush.out
  | .word => .ok s.flush.out
  | .quote _ => .error .valueError
  | .escape _ => .error .valueError

/-- `shlex.split(s, posix=True)` -/
def shSplit (s : List Char) : Except Err (List (List Char)) := (Lex.init.run s).finish

/-! ### `os.path.join`, `os.path.dirname` (posixpath) -/

/-- `posixpath.join(a, b)` for two components -/
def pathJoin (a b : List Char) : List Char :=
  if b.head? = some '/' then b
  else if a = [] ∨ a.getLast? = some '/' then a ++ b
  else a ++ '/' :: b

/-- `s.rstrip('/')` -/
def rstripSlash (s : List Char) : List Char := (s.reverse.dropWhile (· == '/')).reverse

/-- `p[: p.rfind('/') + 1]` -/
def uptoLastSlash (p : List Char) : List Char := (p.reverse.dropWhile (· != '/')).reverse

/-- `posixpath.dirname` -/
def dirname (p : List Char) : List Char :=
  let head := uptoLastSlash p
  if head ≠ [] ∧ head.all (· == '/') = false then rstripSlash head else head

/-! ### `GenericCommandExecution.generate_command` -/

/-- The fields of `GenericCommandParameters` the command depends on
    (`use_multi_node_manager = False`, no Spark: `job.command` is the configured command). -/
structure Job where
  name : String
  command : String
  appendJobName : Bool
  appendOutputDir : Bool
  deriving DecidableEq, Repr

def renderPieces (env : String → String) (ps : List Piece) : String :=
  String.join (ps.map fun
    | .lit s => s
    | .var v => env v)

/-- truth value of a guard expression of `generate_command` -/
def guardVal (j : Job) : String → Bool
  | "job.append_job_name" => j.appendJobName
  | "job.append_output_dir" => j.appendOutputDir
  | _ => false

/-- value of a (string) expression of `generate_command`; `output` is its second parameter -/
def evalExpr (j : Job) (output : String) : String → String
  | "job.command" => j.command
  | "job.name" => j.name
  | "output" => output
  | "os.path.dirname(output)" => String.ofList (dirname output.toList)
  | v => "<unbound:" ++ v ++ ">"

/-- names defined by the local assignments of the function resolve to their expressions -/
def genEnv (j : Job) (output : String) (v : String) : String :=
  match cmdLocals.lookup v with
  | some e => evalExpr j output e
  | none => evalExpr j output v

def applySuffix (j : Job) (output : String) (cmd : String) (g : String × List Piece) : String :=
  if guardVal j g.1 then cmd ++ renderPieces (genEnv j output) g.2 else cmd

/-- `generate_command(job, output, …)` -/
def generateCommand (j : Job) (output : String) : String :=
  cmdSuffixes.foldl (applySuffix j output) (genEnv j output cmdInit)

/-- The command `JobRunner._generate_jobs` gives to the job's `AsyncCliCommand`:
    `generate_command(job, os.path.join(output, JOBS_OUTPUT_DIR), …)`. -/
def jobCommand (j : Job) (outputDir : String) : String :=
  generateCommand j (String.ofList (pathJoin outputDir.toList jobsOutputDir.toList))

/-! ### `AsyncCliCommand.run` -/

/-- `shlex.split(<splitInput>, posix=<posixArg>)`; the non-POSIX mode of `shlex` is not modelled. -/
def runSplit (platform : String) (x : Ctx) : Except Err (List (List Char)) :=
  if posixArg platform then shSplit (splitInput x).toList else .error .invalidParam

/-- `str(a / b / c)` for a normalised first component and plain names after it -/
def pathStr : List String → String
  | [] => ""
  | [a] => a
  | a :: rest => a ++ "/" ++ pathStr rest

structure Launch where
  argv : List String
  /-- variables assigned on top of the inherited environment -/
  env : List (String × String)
  inheritsEnv : Bool
  stdout : String
  stderr : String
  deriving DecidableEq, Repr

/-- the value a variable gets on top of the inherited environment (last assignment wins) -/
def Launch.envGet (l : Launch) (k : String) : Option String := l.env.reverse.lookup k

def launch (platform : String) (x : Ctx) : Except Err Launch :=
  match runSplit platform x with
  | .error e => .error e
  | .ok ws => .ok {
      argv := ws.map String.ofList
      env := envAssigns x
      inheritsEnv := envInherits
      stdout := pathStr (stdoutPath x)
      stderr := pathStr (stderrPath x) }

/-! ### `_complete` / `cancel` -/

/-- the columns of the results row that C19 speaks about, and the batch file it goes to -/
structure Row where
  name : String
  returnCode : Int
  status : String
  hpcJobId : Option String
  batch : Nat
  deriving DecidableEq, Repr

/-- `_complete` (called by `is_complete` once `poll()` is not `None`) -/
def completeRow (x : Ctx) : Option Row :=
  if completeRecords x then
    some { name := completeName x, returnCode := completeReturnCode x, status := completeStatus,
           hpcJobId := completeHpcJobId x, batch := completeBatch x }
  else none

/-- `cancel` -/
def cancelRow (x : Ctx) : Option Row :=
  if cancelRecords x then
    some { name := cancelName x, returnCode := cancelReturnCode x, status := cancelStatus,
           hpcJobId := cancelHpcJobId x, batch := cancelBatch x }
  else none

/-- the `AsyncCliCommand` that `_generate_jobs` builds for job `j` -/
def jobCtx (j : Job) (outputDir : String) (hpc : Option String) (batch : Nat) (mgr : Bool) (rc : Int) : Ctx :=
  { jobName := j.name, cliCmd := jobCommand j outputDir, output := outputDir, hpcJobId := hpc,
    batchId := batch, isManager := mgr, rc := rc }

end Jade.Command
