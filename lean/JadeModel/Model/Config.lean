import JadeModel.Basic
import JadeModel.Gen.Config

/-!
Model of JADE's configuration layer (property C17):

* `GenericCommandParameters(**kwargs)` / `GenericCommandParametersModel.dict` / `serialize` /
  `deserialize`, the `name` and `command` properties          → `decodeFields`, `encodeJob`, `decodeJob`
* `GenericCommandConfiguration.add_job` + `JobContainerByName.add_job`  → `admitJob`, `addJobs`, `loadJobs`
* `JobConfiguration.serialize` / `dump` / `create_config_from_file` / constructor → `encodeConfig`,
  `serialize`, `decodeConfig`
* `JobSubmitter.run_checks` and the four `check_*` methods it calls, `_to_timedelta`,
  `SubmitterParams.get_wall_time`                              → `runChecks`, `searchWall`, `wallOf`
* program order of `JobSubmitter.create` and `JobSubmitter.run_submit_jobs`   → `runCreate`, `runSubmit`

A file is a JSON *tree* `J` (what `json.load` returns / `json.dump` receives): the `json` library and
pydantic's type coercions are outside the model.  Tables, defaults, decision predicates and statement
orders come from `Jade.Gen.Config`, regenerated from the source on every run.
-/

namespace Jade.Config
open Jade.Gen.Config

/-! ## JSON trees -/

inductive J where
  | null
  | bool (b : Bool)
  | num (n : Int)
  | str (s : String)
  | arr (l : List J)
  | obj (kvs : List (String × J))
  deriving Repr, Inhabited

namespace J
mutual
def beq : J → J → Bool
  | .null, .null => true
  | .bool a, .bool b => a == b
  | .num a, .num b => a == b
  | .str a, .str b => a == b
  | .arr a, .arr b => beqList a b
  | .obj a, .obj b => beqFields a b
  | _, _ => false
def beqList : List J → List J → Bool
  | [], [] => true
  | x :: xs, y :: ys => beq x y && beqList xs ys
  | _, _ => false
def beqFields : List (String × J) → List (String × J) → Bool
  | [], [] => true
  | (k, x) :: xs, (l, y) :: ys => k == l && beq x y && beqFields xs ys
  | _, _ => false
end

mutual
theorem beq_iff : ∀ (a b : J), beq a b = true ↔ a = b
  | .null, b => by cases b <;> simp [beq]
  | .bool a, b => by cases b <;> simp [beq]
  | .num a, b => by cases b <;> simp [beq]
  | .str a, b => by cases b <;> simp [beq]
  | .arr a, b => by cases b <;> simp [beq, beqList_iff a]
  | .obj a, b => by cases b <;> simp [beq, beqFields_iff a]
theorem beqList_iff : ∀ (a b : List J), beqList a b = true ↔ a = b
  | [], b => by cases b <;> simp [beqList]
  | x :: xs, b => by cases b <;> simp [beqList, beq_iff x, beqList_iff xs]
theorem beqFields_iff : ∀ (a b : List (String × J)), beqFields a b = true ↔ a = b
  | [], b => by cases b <;> simp [beqFields]
  | (k, x) :: xs, b => by
    cases b with
    | nil => simp [beqFields]
    | cons h t => obtain ⟨l, y⟩ := h; simp [beqFields, beq_iff x, beqFields_iff xs, and_assoc]
end

instance : DecidableEq J := fun a b =>
  if h : beq a b = true then isTrue ((beq_iff a b).1 h)
  else isFalse (fun e => h ((beq_iff a b).2 e))
end J

abbrev Obj := List (String × J)

def optStrJ : Option String → J
  | none => .null
  | some s => .str s

def natJ (n : Nat) : J := .num (Int.ofNat n)

def optNatJ : Option Nat → J
  | none => .null
  | some n => natJ n

/-- JSON rendering of a field default (`required` has none) -/
def pyValJ : PyVal → Option J
  | .none => some .null
  | .bool b => some (.bool b)
  | .int n => some (.num n)
  | .str s => some (.str s)
  | .emptySet => some (.arr [])
  | .emptyDict => some (.obj [])
  | .required => none

/-! ## Errors

Every function of this model fails with a `Rej`: which exception class the code raises and, for
`InvalidConfiguration`, at which `raise`. -/

inductive Why where
  | emptyCommand                 -- GenericCommandConfiguration.add_job
  | dupName                      -- JobContainerByName.add_job
  | groupTwice | hpcType | mustBeSame (param : String) | jobGroup   -- check_submission_groups
  | estimateMissing              -- check_job_estimated_run_minutes
  | dependencies                 -- check_job_dependencies
  | runtime                      -- check_job_runtimes
  deriving DecidableEq, Repr

inductive Rej where
  | invalid (w : Why)     -- jade.exceptions.InvalidConfiguration
  | err (e : Err)         -- another exception class of the shared enum
  | stopIteration         -- `next(iter([]))`: StopIteration (not in the shared enum)
  deriving DecidableEq, Repr

def Why.toString : Why → String
  | .emptyCommand => "emptyCommand"
  | .dupName => "dupName"
  | .groupTwice => "groupTwice"
  | .hpcType => "hpcType"
  | .mustBeSame p => "mustBeSame:" ++ p
  | .jobGroup => "jobGroup"
  | .estimateMissing => "estimateMissing"
  | .dependencies => "dependencies"
  | .runtime => "runtime"

/-- exception class, in the vocabulary of the harness (`common.err_enum`) -/
def Rej.kind : Rej → String
  | .invalid _ => Err.invalidConfig.toString
  | .err e => e.toString
  | .stopIteration => "other:StopIteration"

def Rej.isInvalidConfig : Rej → Bool
  | .invalid _ => true
  | _ => false

abbrev R := Except Rej

def bad {α} : R α := .error (.err .valueError)

/-! ## Canonical string sets (Python `set` of `str`, order-insensitive) -/

/-- insert into a strictly increasing list, keeping it strictly increasing -/
def insertS (x : String) : List String → List String
  | [] => [x]
  | y :: ys => if x < y then x :: y :: ys else if x = y then y :: ys else y :: insertS x ys

/-- the canonical (sorted, duplicate-free) representative of a set given in any order -/
def canonSet (l : List String) : List String := l.foldr insertS []

/-- strictly increasing (hence duplicate-free): the canonical form -/
def sortedS (l : List String) : Bool := decide (l.Pairwise (· < ·))

/-! ## Jobs -/

structure Job where
  name? : Option String          -- `_model.name`
  jobId : Option Nat             -- `_model.job_id`; assigned by `add_job`
  command : String               -- `_model.command`
  blockedBy : List String        -- `Set[str]`, canonical
  cancelFlag : Bool
  estMinutes : Option Nat
  group : String
  appendJobName : Bool
  appendOutputDir : Bool
  useMultiNode : Bool
  ext : Obj
  deriving DecidableEq, Repr

def extensionName : String := "generic_command"

/-- `str(x)` for `x : Optional[int]` -/
def pyStrOptNat : Option Nat → String
  | some n => toString n
  | none => "None"

/-- the `name` property -/
def Job.name (j : Job) : String :=
  if nameUnset j.name? then pyStrOptNat j.jobId else j.name?.getD ""

/-- the `command` property -/
def Job.commandProp (j : Job) : String :=
  if j.useMultiNode then
    String.join (multiNodeCommand.map fun p =>
      if p = "{self.name}" then j.name else if p = "{self._model.command}" then j.command else p)
  else j.command

/-- value of a model field as `_model.dict()` holds it (before popping), by pydantic field name -/
def Job.fieldValue (j : Job) (k : String) : Option J :=
  if k = "name" then some (optStrJ j.name?)
  else if k = "use_multi_node_manager" then some (.bool j.useMultiNode)
  else if k = "spark_config" then some .null
  else if k = "command" then some (.str j.command)
  else if k = "blocked_by" then some (.arr (j.blockedBy.map .str))
  else if k = "cancel_on_blocking_job_failure" then some (.bool j.cancelFlag)
  else if k = "estimated_run_minutes" then some (optNatJ j.estMinutes)
  else if k = "submission_group" then some (.str j.group)
  else if k = "append_job_name" then some (.bool j.appendJobName)
  else if k = "append_output_dir" then some (.bool j.appendOutputDir)
  else if k = "ext" then some (.obj j.ext)
  else if k = "job_id" then some (optNatJ j.jobId)
  else if k = "extension" then some (.str extensionName)
  else none

/-- does `dict()` drop this field for this value? -/
def popped (k : String) (v : J) (d : PyVal) : Bool :=
  poppedFields.contains k &&
    (match pyValJ d with
     | some dj => popTest v dj
     | none => false)

def encodeField (j : Job) (f : String × PyVal) : Option (String × J) :=
  match j.fieldValue f.1 with
  | none => none
  | some v => if popped f.1 v f.2 then none else some (f.1, v)

/-- `GenericCommandParametersModel.dict()` -/
def encodeJob (j : Job) : J := .obj (jobFields.filterMap (encodeField j))

/-- `GenericCommandParameters.serialize()` -/
def serializeJob (j : Job) : R J :=
  if j.jobId.isNone then .error (.err .assertion) else .ok (encodeJob j)

/-! ### decoding (`GenericCommandParameters(**data)`) -/

def asBool : J → R Bool
  | .bool b => .ok b
  | _ => bad

def asStr : J → R String
  | .str s => .ok s
  | _ => bad

def asOptStr : J → R (Option String)
  | .null => .ok none
  | .str s => .ok (some s)
  | _ => bad

def asNat : J → R Nat
  | .num (.ofNat n) => .ok n
  | _ => bad

def asOptNat : J → R (Option Nat)
  | .null => .ok none
  | .num (.ofNat n) => .ok (some n)
  | _ => bad

def asObj : J → R Obj
  | .obj kvs => .ok kvs
  | _ => bad

/-- one blocker: `str(x)` (integers and strings are what the public model is given) -/
def blockerStr : J → R String
  | .str s => .ok s
  | .num n => .ok (toString n)
  | _ => bad

def blockerStrs : List J → R (List String)
  | [] => .ok []
  | x :: xs =>
    match blockerStr x with
    | .error e => .error e
    | .ok s =>
      match blockerStrs xs with
      | .error e => .error e
      | .ok ss => .ok (s :: ss)

def asBlockers : J → R (List String)
  | .arr l => blockerStrs l
  | _ => bad

/-- the given value, or the field's default when the key is absent (error for a required field) -/
def fieldOrDefault (kvs : Obj) (k : String) : R J :=
  match kvs.lookup k with
  | some v => .ok v
  | none =>
    match (jobFields.lookup k).bind pyValJ with
    | some d => .ok d
    | none => bad

def jobFieldNames : List String := jobFields.map Prod.fst

/-- reading the keyword arguments: `extra = "forbid"`, defaults for absent keys, element-wise `str()` of
    the blockers.  Values whose acceptance depends on pydantic's coercions (numbers for strings, …)
    are outside the model and answered `valueError`. -/
def decodeRaw (kvs : Obj) : R Job := do
  if kvs.any (fun kv => !jobFieldNames.contains kv.1) then bad
  let name? ← (fieldOrDefault kvs "name") >>= asOptStr
  let multi ← (fieldOrDefault kvs "use_multi_node_manager") >>= asBool
  let spark ← fieldOrDefault kvs "spark_config"
  if spark ≠ .null then bad
  let command ← (fieldOrDefault kvs "command") >>= asStr
  let blockedBy ← (fieldOrDefault kvs "blocked_by") >>= asBlockers
  let cancelFlag ← (fieldOrDefault kvs "cancel_on_blocking_job_failure") >>= asBool
  let est ← (fieldOrDefault kvs "estimated_run_minutes") >>= asOptNat
  let group ← (fieldOrDefault kvs "submission_group") >>= asStr
  let ajn ← (fieldOrDefault kvs "append_job_name") >>= asBool
  let aod ← (fieldOrDefault kvs "append_output_dir") >>= asBool
  let ext ← (fieldOrDefault kvs "ext") >>= asObj
  let jobId ← (fieldOrDefault kvs "job_id") >>= asOptNat
  let extension ← (fieldOrDefault kvs "extension") >>= asStr
  if extension ≠ extensionName then bad
  pure { name? := name?, jobId := jobId, command := command, blockedBy := blockedBy,
         cancelFlag := cancelFlag, estMinutes := est, group := group, appendJobName := ajn,
         appendOutputDir := aod, useMultiNode := multi, ext := ext }

/-- what the validators make of the values: `Set[str]` (canonical representative) and
    `handle_append_output_dir` (which, with `validate_all`, also runs when the key is absent) -/
def normaliseJob (outputDirGiven : Bool) (j : Job) : Job :=
  { j with
    blockedBy := canonSet j.blockedBy
    appendOutputDir :=
      if (validateAll || outputDirGiven) && outputDirForced j.useMultiNode false then true
      else j.appendOutputDir }

/-- `GenericCommandParametersModel(**kvs)` -/
def decodeFields (kvs : Obj) : R Job :=
  match decodeRaw kvs with
  | .error e => .error e
  | .ok j => .ok (normaliseJob (kvs.lookup "append_output_dir").isSome j)

/-- one entry of `_deserialize_jobs`: `_job["extension"]` (KeyError), registry look-up
    (InvalidParameter), `param_class.deserialize(_job)` -/
def decodeJob (t : J) : R Job :=
  match t with
  | .obj kvs =>
    match kvs.lookup "extension" with
    | none => .error (.err .keyError)
    | some e => if e = .str extensionName then decodeFields kvs else .error (.err .invalidParam)
  | _ => bad

/-! ### `add_job` -/

/-- `if job.job_id is None: job.job_id = self._cur_job_id; self._cur_job_id += 1` -/
def assignId (j : Job) (next : Nat) : Job × Nat :=
  if idMissing j.jobId then ({ j with jobId := some next }, next + 1) else (j, next)

/-- `GenericCommandConfiguration.add_job` followed by `JobContainerByName.add_job`, given the names
    already stored and the id counter -/
def admitJob (j : Job) (names : List String) (next : Nat) : R (Job × Nat) :=
  let (j', next') := assignId j next
  if commandRejected j'.commandProp then .error (.invalid .emptyCommand)
  else if nameTaken j'.name names then .error (.invalid .dupName)
  else .ok (j', next')

/-- `for job in jobs: config.add_job(job)` -/
def addJobs : List Job → List String → Nat → R (List Job)
  | [], _, _ => .ok []
  | j :: rest, names, next =>
    match admitJob j names next with
    | .error e => .error e
    | .ok (j', next') =>
      match addJobs rest (j'.name :: names) next' with
      | .error e => .error e
      | .ok js => .ok (j' :: js)

/-- `_deserialize_jobs`: decode and add, entry by entry -/
def loadJobs : List J → List String → Nat → R (List Job)
  | [], _, _ => .ok []
  | t :: rest, names, next =>
    match decodeJob t with
    | .error e => .error e
    | .ok j =>
      match admitJob j names next with
      | .error e => .error e
      | .ok (j', next') =>
        match loadJobs rest (j'.name :: names) next' with
        | .error e => .error e
        | .ok js => .ok (j' :: js)

/-! ## Submission groups -/

inductive Hpc where
  | slurm (walltime : String)
  | fake (walltime : String)
  | «local»
  deriving DecidableEq, Repr

def Hpc.type : Hpc → String
  | .slurm _ => "slurm"
  | .fake _ => "fake"
  | .local => "local"

/-- `getattr(self.hpc_config.hpc, "walltime", None)` -/
def Hpc.walltime? : Hpc → Option String
  | .slurm w => some w
  | .fake w => some w
  | .local => none

structure Group where
  name : String
  hpc : Hpc
  maxNodes : Option Nat
  numProcesses : Option Nat
  perNodeBatchSize : Nat
  pollInterval : Nat
  tryAddBlocked : Bool
  timeBased : Bool
  dryRun : Bool
  deriving DecidableEq, Repr

/-- `getattr(group.submitter_params, param)` for the parameters the model carries -/
def Group.param (g : Group) (p : String) : Option J :=
  if p = "max_nodes" then some (optNatJ g.maxNodes)
  else if p = "num_parallel_processes_per_node" then some (optNatJ g.numProcesses)
  else if p = "per_node_batch_size" then some (natJ g.perNodeBatchSize)
  else if p = "poll_interval" then some (natJ g.pollInterval)
  else if p = "try_add_blocked_jobs" then some (.bool g.tryAddBlocked)
  else if p = "time_based_batching" then some (.bool g.timeBased)
  else if p = "dry_run" then some (.bool g.dryRun)
  else none

def paramKeys : List String :=
  ["max_nodes", "num_parallel_processes_per_node", "per_node_batch_size", "poll_interval",
   "try_add_blocked_jobs", "time_based_batching", "dry_run"]

/-- `SubmissionGroup.dict()` restricted to the keys the model carries -/
def encodeGroup (g : Group) : J :=
  .obj [("name", .str g.name),
        ("submitter_params", .obj (
          ("hpc_config", .obj [("hpc_type", .str g.hpc.type),
                               ("hpc", .obj (match g.hpc.walltime? with
                                             | some w => [("walltime", .str w)]
                                             | none => []))])
          :: paramKeys.filterMap (fun p => (g.param p).map fun v => (p, v))))]

def getD (kvs : Obj) (k : String) (d : J) : J := (kvs.lookup k).getD d

def decodeHpc (kvs : Obj) : R Hpc := do
  let ty ← match kvs.lookup "hpc_type" with
    | some v => asStr v
    | none => bad
  let hpc ← match kvs.lookup "hpc" with
    | some v => asObj v
    | none => bad
  if ty = "slurm" then
    let w ← asStr (getD hpc "walltime" (.str slurmWalltimeDefault))
    pure (.slurm w)
  else if ty = "fake" then
    match hpc.lookup "walltime" with
    | some v => do pure (.fake (← asStr v))
    | none => bad
  else if ty = "local" then pure .local
  else bad

/-- `SubmissionGroup(**x)` on the keys the model carries -/
def decodeGroup (t : J) : R Group := do
  let kvs ← asObj t
  let name ← match kvs.lookup "name" with
    | some v => asStr v
    | none => bad
  let sp ← match kvs.lookup "submitter_params" with
    | some v => asObj v
    | none => bad
  let hc ← match sp.lookup "hpc_config" with
    | some v => asObj v
    | none => bad
  let hpc ← decodeHpc hc
  let maxNodes ← asOptNat (getD sp "max_nodes" (optNatJ dMaxNodes))
  let numProcesses ← asOptNat (getD sp "num_parallel_processes_per_node" (optNatJ dNumProcesses))
  let perNode ← asNat (getD sp "per_node_batch_size" (natJ dPerNodeBatchSize))
  let poll ← asNat (getD sp "poll_interval" (natJ dPollInterval))
  let tryAdd ← asBool (getD sp "try_add_blocked_jobs" (.bool dTryAddBlocked))
  let timeBased ← asBool (getD sp "time_based_batching" (.bool dTimeBased))
  let dryRun ← asBool (getD sp "dry_run" (.bool dDryRun))
  pure { name := name, hpc := hpc, maxNodes := maxNodes, numProcesses := numProcesses,
         perNodeBatchSize := perNode, pollInterval := poll, tryAddBlocked := tryAdd,
         timeBased := timeBased, dryRun := dryRun }

def decodeGroups : List J → R (List Group)
  | [] => .ok []
  | t :: ts =>
    match decodeGroup t with
    | .error e => .error e
    | .ok g =>
      match decodeGroups ts with
      | .error e => .error e
      | .ok gs => .ok (g :: gs)

/-! ## Configurations -/

structure Config where
  jobs : List Job                     -- in container (insertion) order
  groups : List Group
  setup : Option String
  teardown : Option String
  nodeSetup : Option String
  nodeTeardown : Option String
  deriving DecidableEq, Repr

def configModule : String := "jade.extensions.generic_command.generic_command_configuration"
def configClass : String := "GenericCommandConfiguration"

/-- value of an entry of `data = {...}` in `JobConfiguration.serialize`, by its source expression -/
def Config.value (c : Config) (e : String) : Option J :=
  if e = "self._jobs_directory" then some .null
  else if e = "self.__class__.__module__" then some (.str configModule)
  else if e = "self.__class__.__name__" then some (.str configClass)
  else if e = "self.FORMAT_VERSION" then some (.str formatVersion)
  else if e = "self._user_data" then some (.obj [])
  else if e = "[x.dict() for x in self.submission_groups]" then some (.arr (c.groups.map encodeGroup))
  else if e = "self.setup_command" then some (optStrJ c.setup)
  else if e = "self.teardown_command" then some (optStrJ c.teardown)
  else if e = "self.node_setup_command" then some (optStrJ c.nodeSetup)
  else if e = "self.node_teardown_command" then some (optStrJ c.nodeTeardown)
  else none

def headerEntries (c : Config) : Obj :=
  serializeKeys.filterMap (fun ke => (c.value ke.2).map fun v => (ke.1, v))

/-- the tree `JobConfiguration.serialize()` builds (and `dump` writes) -/
def encodeConfig (c : Config) : J :=
  .obj (headerEntries c ++ [(serializeJobsKey, .arr (c.jobs.map encodeJob))])

def serializeJobs : List Job → R (List J)
  | [] => .ok []
  | j :: js =>
    match serializeJob j with
    | .error e => .error e
    | .ok t =>
      match serializeJobs js with
      | .error e => .error e
      | .ok ts => .ok (t :: ts)

/-- `serialize()` with the assertion of `GenericCommandParameters.serialize` -/
def serialize (c : Config) : R J :=
  match serializeJobs c.jobs with
  | .error e => .error e
  | .ok ts => .ok (.obj (headerEntries c ++ [(serializeJobsKey, .arr ts)]))

/-- everything `create_config_from_file` / `deserialize_config` / the constructor look at before the
    jobs: format version, configuration class, groups, lifecycle commands -/
def decodeHeader (kvs : Obj) : R (List Group × Option String × Option String × Option String × Option String) := do
  -- create_config_from_file: `data.get("format_version") is None` → upgrade path → `data["class"]`
  match kvs.lookup "format_version" with
    | none => .error (.err .keyError)
    | some .null => .error (.err .keyError)
    | some _ => pure ()
  -- deserialize_config
  let m ← match kvs.lookup "configuration_module" with
    | some v => pure v
    | none => .error (.err .keyError)
  let k ← match kvs.lookup "configuration_class" with
    | some v => pure v
    | none => .error (.err .keyError)
  if m ≠ .str configModule ∨ k ≠ .str configClass then .error (.err .invalidParam)
  -- constructor: groups first
  let groups ← match kvs.lookup "submission_groups" with
    | none => pure []
    | some .null => pure []
    | some (.arr gs) => decodeGroups gs
    | some _ => bad
  let setup ← asOptStr (getD kvs "setup_command" .null)
  let teardown ← asOptStr (getD kvs "teardown_command" .null)
  let nodeSetup ← asOptStr (getD kvs "node_setup_command" .null)
  let nodeTeardown ← asOptStr (getD kvs "node_teardown_command" .null)
  pure (groups, setup, teardown, nodeSetup, nodeTeardown)

/-- `if "jobs" in kwargs: self._deserialize_jobs(kwargs["jobs"])` -/
def decodeJobsField (kvs : Obj) : R (List Job) :=
  match kvs.lookup "jobs" with
  | none => .ok []
  | some (.arr ts) => loadJobs ts [] firstJobId
  | some _ => bad

/-- `create_config_from_file` → `deserialize_config` → `GenericCommandConfiguration(**data)` on a
    parsed JSON file -/
def decodeConfig (t : J) : R Config :=
  match t with
  | .obj kvs =>
    match decodeHeader kvs with
    | .error e => .error e
    | .ok (groups, setup, teardown, nodeSetup, nodeTeardown) =>
      match decodeJobsField kvs with
      | .error e => .error e
      | .ok jobs => .ok { jobs := jobs, groups := groups, setup := setup, teardown := teardown,
                          nodeSetup := nodeSetup, nodeTeardown := nodeTeardown }
  | _ => bad

/-- building a configuration through the public API: `GenericCommandConfiguration(...)`, `add_job` per
    job, `append_submission_group` per group, the four command setters -/
def construct (c : Config) : R Config :=
  match addJobs c.jobs [] firstJobId with
  | .error e => .error e
  | .ok js => .ok { c with jobs := js }

/-! ## Wall time (`_to_timedelta`, `get_wall_time`) -/

def isDigit (c : Char) : Bool := '0' ≤ c && c ≤ '9'

def digitsVal (ds : List Char) : Nat := ds.foldl (fun a c => 10 * a + (c.toNat - 48)) 0

/-- `(\d+):(\d+):(\d+)` anchored at the head of the text -/
def matchWallAt (cs : List Char) : Option (Nat × Nat × Nat) :=
  let d1 := cs.takeWhile isDigit
  match d1, cs.dropWhile isDigit with
  | [], _ => none
  | _ :: _, ':' :: r1 =>
    let d2 := r1.takeWhile isDigit
    match d2, r1.dropWhile isDigit with
    | [], _ => none
    | _ :: _, ':' :: r2 =>
      let d3 := r2.takeWhile isDigit
      match d3 with
      | [] => none
      | _ :: _ => some (digitsVal d1, digitsVal d2, digitsVal d3)
    | _, _ => none
  | _, _ => none

/-- `_REGEX_WALL_TIME.search(text)`: leftmost match -/
def searchWall : List Char → Option (Nat × Nat × Nat)
  | [] => none
  | c :: cs =>
    match matchWallAt (c :: cs) with
    | some r => some r
    | none => searchWall cs

/-- `get_wall_time()` in seconds; `none` = the `assert match` of `_to_timedelta` fails -/
def wallOf (g : Group) : Option Nat :=
  match g.hpc.walltime? with
  | none => some wallUnsetSeconds
  | some w =>
    match searchWall w.toList with
    | some (a, b, c) => some (wallSecondsOf a b c)
    | none => none

/-! ## `JobSubmitter.run_checks` -/

def groupNames (c : Config) : List String := c.groups.map (·.name)
def jobNames (c : Config) : List String := c.jobs.map (·.name)

/-- first parameter of `must_be_same` on which `g` differs from the first group -/
def firstDiffering (g first : Group) : Option String :=
  mustBeSame.find? (fun p => paramDiffers (g.param p) (first.param p))

/-- the group loop of `check_submission_groups` (`seen` = `group_names` so far) -/
def checkGroupsLoop (first : Group) : List Group → List String → R Unit
  | [], _ => .ok ()
  | g :: rest, seen =>
    if groupListedTwice g.name seen then .error (.invalid .groupTwice)
    else if hpcTypeDiffers g.hpc.type first.hpc.type then .error (.invalid .hpcType)
    else
      match firstDiffering g first with
      | some p => .error (.invalid (.mustBeSame p))
      | none => checkGroupsLoop first rest (g.name :: seen)

/-- the job loop of `check_submission_groups` -/
def checkJobGroups (names : List String) : List Job → R Unit
  | [] => .ok ()
  | j :: rest =>
    if jobGroupInvalid j.group names then .error (.invalid .jobGroup) else checkJobGroups names rest

def checkSubmissionGroups (c : Config) : R Unit :=
  match c.groups with
  | [] => .error .stopIteration
  | first :: _ =>
    match checkGroupsLoop first c.groups [] with
    | .error e => .error e
    | .ok () => checkJobGroups (groupNames c) c.jobs

def checkEstimatedRunMinutes (c : Config) (groupName : String) : R Unit :=
  if c.jobs.any (fun j => estimateMissing j.group groupName j.estMinutes)
  then .error (.invalid .estimateMissing) else .ok ()

/-- `for group in groups: if per_node_batch_size == 0: check_job_estimated_run_minutes(group.name)` -/
def checkEstimatesLoop (c : Config) : List Group → R Unit
  | [] => .ok ()
  | g :: rest =>
    if estimateGuard g.perNodeBatchSize then
      match checkEstimatedRunMinutes c g.name with
      | .error e => .error e
      | .ok () => checkEstimatesLoop c rest
    else checkEstimatesLoop c rest

def allBlockers (c : Config) : List String := c.jobs.flatMap (·.blockedBy)

def checkDependencies (c : Config) : R Unit :=
  if dependenciesBad (missingBlockers (allBlockers c) (jobNames c))
  then .error (.invalid .dependencies) else .ok ()

/-- `{x.name: x.submitter_params.get_wall_time() for x in groups}` -/
def wallTimes : List Group → R (List (String × Nat))
  | [] => .ok []
  | g :: rest =>
    match wallOf g with
    | none => .error (.err .assertion)
    | some w =>
      match wallTimes rest with
      | .error e => .error e
      | .ok ws => .ok ((g.name, w) :: ws)

def checkRuntimesLoop (walls : List (String × Nat)) : List Job → R Unit
  | [] => .ok ()
  | j :: rest =>
    match walls.lookup j.group with
    | none => .error (.err .keyError)
    | some w =>
      if hasEstimate j.estMinutes && runtimeTooLong (j.estMinutes.getD 0) w
      then .error (.invalid .runtime) else checkRuntimesLoop walls rest

def checkRuntimes (c : Config) : R Unit :=
  match wallTimes c.groups with
  | .error e => .error e
  | .ok walls => checkRuntimesLoop walls c.jobs

def runCheck (c : Config) : Check → R Unit
  | .submissionGroups => checkSubmissionGroups c
  | .estimatedRunMinutes => checkEstimatesLoop c c.groups
  | .dependencies => checkDependencies c
  | .runtimes => checkRuntimes c
  | .sparkConfig => .ok ()      -- no Spark jobs in the model

def runChecksList (c : Config) : List Check → R Unit
  | [] => .ok ()
  | k :: ks =>
    match runCheck c k with
    | .error e => .error e
    | .ok () => runChecksList c ks

/-- `JobSubmitter.run_checks`, in the order the code makes the calls -/
def runChecks (c : Config) : R Unit := runChecksList c runChecksCalls

/-! ## What a valid configuration is (declarative) -/

/-- the invariant `add_job` maintains on the stored jobs -/
def Stored (jobs : List Job) : Prop :=
  (∀ j ∈ jobs, j.jobId.isSome = true ∧ j.commandProp ≠ "") ∧ (jobs.map Job.name).Nodup

instance (jobs : List Job) : Decidable (Stored jobs) := by unfold Stored; infer_instance

/-- a job's estimate fits the wall time of a group -/
def Fits (j : Job) (g : Group) : Prop :=
  match j.estMinutes, wallOf g with
  | some m, some w => 60 * m ≤ w
  | _, _ => True

instance (j : Job) (g : Group) : Decidable (Fits j g) := by unfold Fits; split <;> infer_instance

/-- what `run_checks` is meant to establish -/
def ChecksValid (c : Config) : Prop :=
  c.groups ≠ [] ∧
  (groupNames c).Nodup ∧
  (∀ g ∈ c.groups, ∀ f ∈ c.groups,
      g.hpc.type = f.hpc.type ∧ g.maxNodes = f.maxNodes ∧ g.pollInterval = f.pollInterval) ∧
  (∀ j ∈ c.jobs, j.group ∈ groupNames c) ∧
  (∀ g ∈ c.groups, g.perNodeBatchSize = 0 → ∀ j ∈ c.jobs, j.group = g.name → j.estMinutes.isSome = true) ∧
  (∀ j ∈ c.jobs, ∀ b ∈ j.blockedBy, b ∈ jobNames c) ∧
  (∀ g ∈ c.groups, (wallOf g).isSome = true) ∧
  (∀ j ∈ c.jobs, ∀ g ∈ c.groups, g.name = j.group → Fits j g)

instance (c : Config) : Decidable (ChecksValid c) := by unfold ChecksValid; infer_instance

/-- a valid configuration: unique job names, non-empty commands (ids assigned), and everything
    `run_checks` verifies -/
def Valid (c : Config) : Prop := Stored c.jobs ∧ ChecksValid c

instance (c : Config) : Decidable (Valid c) := by unfold Valid; infer_instance

/-- jobs as `add_job` stores them when every id is assigned from the counter in listing order -/
def withIds : List Job → Nat → List Job
  | [], _ => []
  | j :: rest, next => (assignId j next).1 :: withIds rest (assignId j next).2

/-- normal form of a stored configuration: what the loader's output always satisfies -/
def NormalJob (j : Job) : Prop :=
  sortedS j.blockedBy = true ∧ (outputDirForced j.useMultiNode false = true → j.appendOutputDir = true)

instance (j : Job) : Decidable (NormalJob j) := by unfold NormalJob; infer_instance

def Normal (c : Config) : Prop :=
  Stored c.jobs ∧ ∀ j ∈ c.jobs, NormalJob j

instance (c : Config) : Decidable (Normal c) := by unfold Normal; infer_instance

/-! ## Program order of submission -/

inductive Effect where
  | mkdirs          -- `os.makedirs(output)`
  | initDirs        -- JobManagerBase.__init__: job-outputs, job-stdio, results, stats
  | dumpConfig      -- `config.dump(output/config.json)`
  | clusterCreate   -- `Cluster.create` (cluster_config.json, job_status.json, …)
  | submitJobs      -- `mgr.submit_jobs(cluster)`: everything handed to the HPC happens inside
  | demote
  deriving DecidableEq, Repr

/-- straight-line execution of `JobSubmitter.create`: a raising statement ends it -/
def runCreateSteps (c : Config) : List Step → List Effect × R Unit
  | [] => ([], .ok ())
  | .construct :: rest => let (e, r) := runCreateSteps c rest; (.initDirs :: e, r)
  | .runChecks :: rest =>
    match runChecks c with
    | .error x => ([], .error x)
    | .ok () => runCreateSteps c rest
  | .dump :: rest => let (e, r) := runCreateSteps c rest; (.dumpConfig :: e, r)
  | .ret :: _ => ([], .ok ())
  | _ :: rest => runCreateSteps c rest

def runCreate (c : Config) : List Effect × R Unit := runCreateSteps c createSteps

/-- straight-line execution of `run_submit_jobs`.  `submit_jobs` itself is outside this model except
    for its first use of the configuration, `get_default_submission_group()` =
    `next(iter(self.iter_jobs()))`, which raises StopIteration for a configuration without jobs
    (inside the `try`, so the `finally` still demotes). -/
def runSubmitSteps' (c : Config) : List Step → List Effect × R Unit
  | [] => ([], .ok ())
  | .makedirs :: rest => let (e, r) := runSubmitSteps' c rest; (.mkdirs :: e, r)
  | .create :: rest =>
    match runCreate c with
    | (e, .error x) => (e, .error x)
    | (e, .ok ()) => let (e', r) := runSubmitSteps' c rest; (e ++ e', r)
  | .clusterCreate :: rest => let (e, r) := runSubmitSteps' c rest; (.clusterCreate :: e, r)
  | .submitJobs :: rest =>
    if c.jobs.isEmpty then
      (.submitJobs :: (if rest.contains .demote then [.demote] else []), .error .stopIteration)
    else let (e, r) := runSubmitSteps' c rest; (.submitJobs :: e, r)
  | .demote :: rest => let (e, r) := runSubmitSteps' c rest; (.demote :: e, r)
  | _ :: rest => runSubmitSteps' c rest

def runSubmit (c : Config) : List Effect × R Unit := runSubmitSteps' c runSubmitSteps

end Jade.Config
