import JadeModel.Basic
import JadeModel.Gen.Lifecycle

/-!
Model of the lifecycle commands (C16): an *interpreter* of the straight-line programs that the translator extracts
from the working tree (`Gen.Lifecycle.submitJobsProg`, `handleCompletionProg`, `runJobsProg`, `runJobsCliProg`:
the relevant statements of `JobSubmitter.submit_jobs`, `JobSubmitter._handle_completion`, `JobRunner.run_jobs` and
`jade-internal run-jobs`, in source order, each with the conditions under which it is reached, the treatment of a
command's return code and the exported environment variables).  This file only fixes what each kind of statement
does to the event trace; order, guards, raise/ignore and environment come from the source.

What the environment supplies for one call (`Ctx`): which commands are configured, their return codes should they
run, whether the `JobSubmitter` was built by `create` or `load`, local or HPC mode, the batches the call hands to
`sbatch` and whether `HpcSubmitter.run` reports completion, the result rows present at completion, and — for a node —
its batch and the *whole queue run* as an arbitrary list of job starts / recorded result rows (so every schedule of the
jobs inside a batch is covered).  Everything is a list: no bound on batches, jobs, rounds or completions.
-/

namespace Jade.Lifecycle
open Jade.Gen.Lifecycle

/-- which commands a configuration sets (the part of `config.json` C16 is about) -/
structure Cfg where
  setup : Bool
  teardown : Bool
  nodeSetup : Bool
  nodeTeardown : Bool
  /-- obsolete `submitter_params.node_setup_script` (takes precedence over `node_setup_command`) -/
  legacySetup : Bool := false
  /-- obsolete `submitter_params.node_shutdown_script` -/
  legacyShutdown : Bool := false
  /-- `submitter_params.generate_reports` -/
  reports : Bool := false
  /-- the submission is a pipeline stage -/
  pipelineStage : Bool := false
  deriving DecidableEq, Repr

def Cfg.has (c : Cfg) : Hook → Bool
  | .setup => c.setup
  | .teardown => c.teardown
  | .nodeSetup => c.nodeSetup
  | .nodeTeardown => c.nodeTeardown

def Cfg.legacy (c : Cfg) : Hook → Bool
  | .nodeSetup => c.legacySetup
  | .nodeTeardown => c.legacyShutdown
  | _ => false

/-- the same configuration without any lifecycle command -/
def Cfg.noHooks (c : Cfg) : Cfg :=
  { c with setup := false, teardown := false, nodeSetup := false, nodeTeardown := false }

/-- return code of each command, should it run during this call -/
structure Rcs where
  setup : Int := 0
  teardown : Int := 0
  nodeSetup : Int := 0
  nodeTeardown : Int := 0
  deriving DecidableEq, Repr

def Rcs.of (r : Rcs) : Hook → Int
  | .setup => r.setup
  | .teardown => r.teardown
  | .nodeSetup => r.nodeSetup
  | .nodeTeardown => r.nodeTeardown

/-- what `JobQueue.run_jobs` does on a node, as seen from outside -/
inductive QEv where
  | start (j : Nat)   -- the process of job `j` is launched
  | row (j : Nat)     -- job `j` has ended (or was canceled by the queue) and its result row is appended to the batch's results file
  deriving DecidableEq, Repr

/-- observable events -/
inductive Ev where
  | hook (h : Hook) (env : List EnvVar) (rc : Int)   -- a lifecycle command ran with these variables and returned `rc`
  | legacy (h : Hook) (rc : Int)                     -- an obsolete per-group node script ran
  | sbatch (b : Nat)                                 -- batch `b` handed to the HPC
  | job (b : Nat) (e : QEv)                          -- queue event on the node of batch `b`
  | collect                                          -- local mode: `process_results()` after the in-process run
  | summary (results missing : List Nat)             -- `results.json` written: every listed job has an outcome or is reported missing
  | reports
  | flag                                             -- `cluster.mark_complete()`
  | nextStage
  | trySubmit                                        -- the node runs `jade try-submit-jobs`
  deriving DecidableEq, Repr

/-- everything the environment decides for one call -/
structure Ctx where
  cfg : Cfg
  rc : Rcs := {}
  /-- `self._is_new` -/
  isNew : Bool := false
  /-- `self._hpc.hpc_type == HpcType.LOCAL or force_local` -/
  isLocal : Bool := false
  /-- batches `HpcSubmitter.run` hands to `sbatch` during this call -/
  batches : List Nat := []
  /-- return value of `HpcSubmitter.run` (`_is_complete()`) -/
  hpcComplete : Bool := false
  /-- jobs of the configuration -/
  jobs : List Nat := []
  /-- jobs with a result row when `_handle_completion` lists the results -/
  rows : List Nat := []
  /-- batch of the node (0 for the in-process runner of local mode) -/
  batch : Nat := 0
  /-- the queue run of the node -/
  queue : List QEv := []
  /-- `distributed_submitter` -/
  distributed : Bool := true
  /-- `are_inputs_local` -/
  localInputs : Bool := false
  deriving DecidableEq, Repr

/-- interpreter state -/
structure St where
  trace : List Ev := []
  /-- local `is_complete` of `submit_jobs` -/
  isComplete : Bool := false
  /-- `self._results` (job ids) -/
  results : List Nat := []
  /-- local `missing_jobs` -/
  missing : List Nat := []
  /-- an exception is propagating -/
  err : Option Err := none
  deriving DecidableEq, Repr

def St.emit (st : St) (es : List Ev) : St := { st with trace := st.trace ++ es }
def St.fail (st : St) (e : Err) : St := { st with err := some e }

def guardHolds (c : Ctx) (st : St) : Guard → Bool
  | .isNew => c.isNew
  | .notNew => !c.isNew
  | .isLocal => c.isLocal
  | .notLocal => !c.isLocal
  | .isComplete => st.isComplete
  | .hookSet h => c.cfg.has h
  | .legacySet h => c.cfg.legacy h
  | .legacyUnset h => !c.cfg.legacy h
  | .reports => c.cfg.reports
  | .pipelineStage => c.cfg.pipelineStage
  | .distributedLocal => c.distributed && c.localInputs
  | .goodDistributed => c.distributed   -- `status` is `Status.GOOD` whenever `run_jobs` returns (site lifecycle.runJobs)

/-- a command ran and returned `rc` -/
def afterCommand (st : St) (onFail : OnFail) (rc : Int) : St :=
  match onFail with
  | .raise => if commandFailed rc then st.fail .execError else st
  | .ignore => st

/-- `missing_jobs` -/
def missingJobs (jobs rows : List Nat) : List Nat :=
  if resultsIncomplete rows.length jobs.length then jobs.filter (fun j => !rows.contains j) else []

/-- statements that call none of the other extracted functions; a nested call here is a malformed program -/
def execBase (c : Ctx) (st : St) : Act → St
  | .createResults => st
  | .runHook h onFail env => afterCommand (st.emit [.hook h env (c.rc.of h)]) onFail (c.rc.of h)
  | .runLegacy h onFail _ => afterCommand (st.emit [.legacy h (c.rc.of h)]) onFail (c.rc.of h)
  | .processResults => st.emit [.collect]
  | .setComplete => { st with isComplete := true }
  | .submitHpc => { st.emit (c.batches.map .sbatch) with isComplete := c.hpcComplete }
  | .listResults => { st with results := c.rows }
  | .computeMissing => { st with missing := missingJobs c.jobs st.results }
  | .writeSummary => st.emit [.summary st.results st.missing]
  | .generateReports => st.emit [.reports]
  | .markComplete => st.emit [.flag]
  | .nextStage => st.emit [.nextStage]
  | .runQueue => st.emit (c.queue.map (.job c.batch))
  | .completeHpcJob => st
  | .trySubmit => st.emit [.trySubmit]
  | .runLocal => st.fail .assertion
  | .handleCompletion => st.fail .assertion
  | .runJobs => st.fail .assertion

/-- one step: skipped while an exception propagates (unless it belongs to a `finally:`) or when a guard is false -/
def stepProg (exec : St → Act → St) (c : Ctx) (st : St) (s : Step) : St :=
  if st.err.isSome && !s.fin then st
  else if s.guards.all (guardHolds c st) then exec st s.act
  else st

def runProg (exec : St → Act → St) (c : Ctx) (prog : List Step) (st : St) : St :=
  prog.foldl (stepProg exec c) st

/-- `JobRunner.run_jobs` -/
def runJobs (c : Ctx) (st : St) : St := runProg (execBase c) c runJobsProg st

/-- `JobSubmitter._handle_completion` -/
def handleCompletion (c : Ctx) (st : St) : St := runProg (execBase c) c handleCompletionProg st

/-- statements of `submit_jobs`: the in-process runner of local mode and the completion are nested calls -/
def execSubmit (c : Ctx) (st : St) : Act → St
  | .runLocal => runJobs c st
  | .handleCompletion => handleCompletion c st
  | a => execBase c st a

/-- `JobSubmitter.submit_jobs` -/
def submitJobs (c : Ctx) : St := runProg (execSubmit c) c submitJobsProg {}

def execCli (c : Ctx) (st : St) : Act → St
  | .runJobs => runJobs c st
  | a => execBase c st a

/-- `jade-internal run-jobs`: one node working through its batch -/
def nodeCli (c : Ctx) : St := runProg (execCli c) c runJobsCliProg {}

/-! ### Histories: one submission over its whole life -/

/-- one call of `submit_jobs`: who calls, and what the environment does during the call -/
structure Round where
  entry : Entry
  ctx : Ctx
  deriving DecidableEq, Repr

/-- the context of a round: the configuration is the submission's, `_is_new` follows from the entry point -/
def Round.ctxFor (cfg : Cfg) (r : Round) : Ctx := { r.ctx with cfg := cfg, isNew := entryIsNew r.entry }

def roundTrace (cfg : Cfg) (r : Round) : List Ev := (submitJobs (r.ctxFor cfg)).trace

/-- did the call end with an exception? -/
def roundErr (cfg : Cfg) (r : Round) : Option Err := (submitJobs (r.ctxFor cfg)).err

/-- the submit side of a history: calls of `submit_jobs` are serialised by the submitter role (C10), so the
    submit-side events of a history are the concatenation of the rounds' traces -/
def submitSide (cfg : Cfg) (rs : List Round) : List Ev := rs.flatMap (roundTrace cfg)

/-- a history starts with `submit-jobs`; every later call comes from `try-submit-jobs` or `resubmit-jobs` -/
def History (rs : List Round) : Prop :=
  ∃ r rest, rs = r :: rest ∧ r.entry = .submitJobs ∧ ∀ x ∈ rest, x.entry ≠ .submitJobs

instance (rs : List Round) : Decidable (History rs) :=
  match rs with
  | [] => isFalse (by rintro ⟨r, rest, h, _⟩; cases h)
  | r :: rest =>
    if h : r.entry = .submitJobs ∧ ∀ x ∈ rest, x.entry ≠ .submitJobs then isTrue ⟨r, rest, rfl, h.1, h.2⟩
    else isFalse (by rintro ⟨r', rest', he, h1, h2⟩; cases he; exact h ⟨h1, h2⟩)

/-- the node of batch `b` -/
def nodeTrace (cfg : Cfg) (c : Ctx) : List Ev := (nodeCli { c with cfg := cfg }).trace
def nodeErr (cfg : Cfg) (c : Ctx) : Option Err := (nodeCli { c with cfg := cfg }).err

/-! ### Global schedules -/

/-- the processes of a submission: the (serialised) submit side and one node per batch -/
inductive Proc where
  | submit
  | node (b : Nat)
  deriving DecidableEq, Repr

/-- the events of process `p` in a global schedule -/
def proj (p : Proc) (g : List (Proc × Ev)) : List Ev :=
  g.filterMap (fun x => if x.1 = p then some x.2 else none)

/-- a global schedule of a submission: its submit-side projection is the history's trace, and a node does something only
    after its batch was handed to the HPC (the one fact about SLURM used) — otherwise ANY interleaving -/
structure Execution (cfg : Cfg) (rs : List Round) (g : List (Proc × Ev)) : Prop where
  submit : proj .submit g = submitSide cfg rs
  causal : ∀ pre post b e, g = pre ++ (Proc.node b, e) :: post → (Proc.submit, Ev.sbatch b) ∈ pre

end Jade.Lifecycle
