import JadeModel.Basic
import JadeModel.Gen.Pipeline

/-!
Model of the pipeline driver (C15): `PipelineManager._submit_next_stage` as reached from the two CLI commands
`jade pipeline submit` and `jade pipeline submit-next-stage`, and the tail of `JobSubmitter._handle_completion`
that issues the next-stage command.

`_submit_next_stage` is modelled as an *interpreter* of the statement programs generated from the source
(`Gen.Pipeline.firstBody/acceptBody/completeBody/submitBody : List Stmt`): the order of the effectful statements
and every test/arithmetic expression come from the working tree; this file only fixes what each statement kind does
to (in-memory config, persisted `pipeline.json`, locals).  The environment supplies, per call, whether the
stage's auto-config command succeeds and what `JobSubmitter.run_submit_jobs` returns (`Outcome`).

`pipeline.json` has no lock: the model is sequential (one call at a time).  That two completions of the same stage
never race is property C05.
-/

namespace Jade.Pipeline
open Jade.Gen.Pipeline

/-- the part of `PipelineConfig` (= the persisted `pipeline.json`) that C15 is about -/
structure Config where
  /-- `stage_num`: 1-based number of the current stage (`len(stages)+1` when complete) -/
  stageNum : Nat
  /-- `is_complete` -/
  isComplete : Bool
  /-- `stages[i].return_code` -/
  returnCodes : List (Option Int)
  deriving DecidableEq, Repr

/-- `len(self._config.stages)` -/
def Config.numStages (c : Config) : Nat := c.returnCodes.length

/-- what the environment does during one call -/
structure Outcome where
  /-- the stage's auto-config command succeeds and produces the configuration file -/
  cfgOk : Bool
  /-- return value of `JobSubmitter.run_submit_jobs` -/
  ret : Int
  deriving DecidableEq, Repr

def Outcome.good : Outcome := { cfgOk := true, ret := 0 }

/-- ghost record of one invocation of `JobSubmitter.run_submit_jobs` -/
structure Handover where
  /-- `pipeline_stage_num` argument -/
  stage : Nat
  /-- 1-based position of the stage whose `config_file` was loaded -/
  cfgStage : Nat
  /-- stage number in the name of the output directory -/
  outStage : Nat
  /-- `pipeline.json` as persisted at that moment -/
  disk : Config
  deriving DecidableEq, Repr

/-- result of one call, as seen by the caller -/
inductive Res where
  | ok             -- returned normally (`sys.exit(0)` in the CLI)
  | invalidParam   -- InvalidParameter
  | assertion      -- AssertionError
  | indexError     -- IndexError
  | execError      -- ExecutionError
  | nameError      -- a local read before assignment (unreachable with the statement order of the pinned tree)
  | noPipeline     -- `submit-next-stage` on a directory that `submit` has not created
  | dirExists      -- `submit` on an existing directory without --force (`sys.exit(1)`)
  deriving DecidableEq, Repr, Inhabited

def Res.toString : Res → String
  | .ok => "ok" | .invalidParam => "invalidParam" | .assertion => "assertion" | .indexError => "indexError"
  | .execError => "execError" | .nameError => "nameError" | .noPipeline => "noPipeline" | .dirExists => "dirExists"

/-- the call passed the acceptance test and its effects were persisted (it may still have failed to submit) -/
def Res.accepted : Res → Bool
  | .ok | .execError => true
  | _ => false

/-- Python list indexing `xs[i]` for a list of length `len`: the position, or `none` for IndexError -/
def pyIndex (i : Int) (len : Nat) : Option Nat :=
  if 0 ≤ i then (if i < len then some i.toNat else none)
  else (if -i ≤ len then some (len + i).toNat else none)

/-- arguments of one call `_submit_next_stage(stage_num, return_code)` plus the environment's behaviour -/
structure Args where
  k : Int
  rc : Option Int
  out : Outcome
  deriving DecidableEq, Repr

/-- one activation of `_submit_next_stage` -/
structure Frame where
  /-- `self._config` -/
  mem : Config
  /-- `pipeline.json` -/
  disk : Config
  /-- local `stage` (1-based position in `stages`) -/
  stage : Option Nat := none
  /-- local `output` (stage number in the directory name) -/
  output : Option Nat := none
  /-- local `config` (stage whose configuration was loaded) -/
  config : Option Nat := none
  /-- local `ret` -/
  ret : Option Int := none
  handover : Option Handover := none
  /-- exception raised -/
  err : Option Res := none
  deriving DecidableEq, Repr

def Frame.fail (f : Frame) (e : Res) : Frame := { f with err := some e }

/-- effect of one statement -/
def exec (a : Args) (f : Frame) : Stmt → Frame
  | .assertFirst => if firstStageOk a.k then f else f.fail .assertion
  | .checkStage => if rejectStage a.k f.mem.stageNum then f.fail .invalidParam else f
  | .recordRc =>
    match pyIndex (rcIndex a.k) f.mem.returnCodes.length with
    | none => f.fail .indexError
    | some i => { f with mem := { f.mem with returnCodes := f.mem.returnCodes.set i a.rc } }
  | .increment => { f with mem := { f.mem with stageNum := f.mem.stageNum + stageInc } }
  | .setComplete => { f with mem := { f.mem with isComplete := true } }
  | .serialize => { f with disk := f.mem }
  | .loadStage =>
    match pyIndex (stageIndex f.mem.stageNum) f.mem.returnCodes.length with
    | none => f.fail .indexError
    | some i => { f with stage := some (i + 1) }
  | .autoConfig =>
    match f.stage with
    | none => f.fail .nameError
    | some _ => if a.out.cfgOk then f else f.fail .execError
  | .outputPath => { f with output := some (outputStageArg f.mem.stageNum) }
  | .loadConfig =>
    match f.stage with
    | none => f.fail .nameError
    | some st => { f with config := some st }
  | .runSubmit =>
    match f.config, f.output with
    | some c, some o =>
      { f with ret := some a.out.ret,
               handover := some { stage := submitStageArg f.mem.stageNum, cfgStage := c, outStage := o, disk := f.disk } }
    | _, _ => f.fail .nameError
  | .checkRet =>
    match f.ret with
    | none => f.fail .nameError
    | some r => if retFails r then f.fail .execError else f

/-- run a block; an exception ends it -/
def execAll (a : Args) : List Stmt → Frame → Frame
  | [], f => f
  | st :: rest, f =>
    let f' := exec a f st
    if f'.err.isSome then f' else execAll a rest f'

/-- `PipelineManager.load(dir)._submit_next_stage(k, return_code=rc)` on the persisted config `c` -/
def submitNextStage (a : Args) (c : Config) : Frame :=
  let f0 : Frame := { mem := c, disk := c }
  let f1 := if isFirstCall a.rc then execAll a firstBody f0 else execAll a acceptBody f0
  if f1.err.isSome then f1
  else if pipelineDone f1.mem.stageNum f1.mem.numStages then execAll a completeBody f1
  else execAll a submitBody f1

/-- the pipeline directory -/
structure State where
  /-- `jade pipeline submit` has created the directory and `pipeline.json` -/
  created : Bool
  /-- `pipeline.json` (before creation: the user's pipeline config file, `stage_num = 1`) -/
  cfg : Config
  /-- ghost: every invocation of `run_submit_jobs`, in order -/
  handovers : List Handover
  deriving DecidableEq, Repr

def State.numStages (s : State) : Nat := s.cfg.numStages
def State.stageNum (s : State) : Nat := s.cfg.stageNum
def State.isComplete (s : State) : Bool := s.cfg.isComplete
def State.returnCodes (s : State) : List (Option Int) := s.cfg.returnCodes
/-- ghost: the stages handed to `run_submit_jobs` (their `pipeline_stage_num`), in order -/
def State.submitted (s : State) : List Nat := s.handovers.map (·.stage)

/-- a pipeline of `n` stages as written by `jade pipeline create` -/
def init (n : Nat) : State :=
  { created := false, cfg := { stageNum := 1, isComplete := false, returnCodes := List.replicate n none }, handovers := [] }

/-- persist the effects of one activation -/
def applyCall (s : State) (a : Args) : State × Res :=
  let f := submitNextStage a s.cfg
  ({ s with cfg := f.disk, handovers := s.handovers ++ f.handover.toList }, f.err.getD .ok)

/-- the snapshot of `pipeline.json` taken when `run_submit_jobs` was entered during the call, if it was -/
def callHandover (s : State) (a : Args) : Option Handover := (submitNextStage a s.cfg).handover

/-- the commands of the CLI -/
inductive Op where
  /-- `jade pipeline submit <config> -o <dir>` (without --force) -/
  | start (out : Outcome)
  /-- `jade pipeline submit-next-stage <dir> --stage-num=k --return-code=rc` -/
  | next (k : Int) (rc : Int) (out : Outcome)
  deriving DecidableEq, Repr

def Op.args : Op → Args
  | .start out => { k := cliFirstStage, rc := none, out := out }
  | .next k rc out => { k := k, rc := some rc, out := out }

/-- one CLI command against the pipeline directory -/
def step (s : State) : Op → State × Res
  | .start out =>
    if s.created then (s, .dirExists)
    else applyCall { s with created := true } (Op.args (.start out))
  | .next k rc out =>
    if s.created then applyCall s (Op.args (.next k rc out)) else (s, .noPipeline)

/-- API-level call `PipelineManager.load(dir).submit_next_stage(k, return_code=rc)`; `rc = none` is not reachable
    through `submit-next-stage` (its `--return-code` is required) -/
def rawCall (s : State) (k : Int) (rc : Option Int) (out : Outcome) : State × Res :=
  if s.created then applyCall s { k := k, rc := rc, out := out } else (s, .noPipeline)

def run (s : State) (ops : List Op) : State := ops.foldl (fun s op => (step s op).1) s

/-- (op, result, state after) for every op -/
def trace (s : State) : List Op → List (Op × Res × State)
  | [] => []
  | op :: ops => (op, (step s op).2, (step s op).1) :: trace (step s op).1 ops

/-- the stage numbers of the accepted `submit-next-stage` calls, in call order -/
def acceptedStages (s : State) : List Op → List Int
  | [] => []
  | .start out :: ops => acceptedStages (step s (.start out)).1 ops
  | .next k rc out :: ops =>
    if (step s (.next k rc out)).2.accepted then k :: acceptedStages (step s (.next k rc out)).1 ops
    else acceptedStages (step s (.next k rc out)).1 ops

/-! ## The glue in `JobSubmitter._handle_completion` -/

inductive Action where
  /-- `cluster.mark_complete()`: `is_complete: true` written to the stage's `cluster_config.json` -/
  | markComplete
  /-- `run_command(cmd)`; `stageNum`/`rc` are the values interpolated into the command -/
  | runCmd (cmd : String) (stageNum : Nat) (rc : Int)
  deriving DecidableEq, Repr

def renderPiece (dir : String) (next : Nat) (status : Int) : Piece → String
  | .lit s => s
  | .dir => dir
  | .nextStage => toString next
  | .status => toString status

def renderCmd (dir : String) (next : Nat) (status : Int) : String :=
  String.join (nextStageCmd.map (renderPiece dir next status))

def completionAction (stageNum : Option Nat) (status : Int) (dir : String) : CStep → List Action
  | .markComplete => [.markComplete]
  | .nextStageCmd =>
    if isPipelineStage stageNum then
      match stageNum with
      | some p => [.runCmd (renderCmd dir (nextStage p) status) (nextStage p) status]
      | none => []
    else []

/-- the ordered actions of the tail of `_handle_completion` for a submission created with
    `pipeline_stage_num = stageNum`, final status value `status`, pipeline directory `dir` -/
def completionActions (stageNum : Option Nat) (status : Int) (dir : String) : List Action :=
  completionOrder.flatMap (completionAction stageNum status dir)

/-- the completing submitter of stage `stage` runs its actions against the pipeline directory: the command is
    executed as the CLI call it spells -/
def applyActions (s : State) (out : Outcome) : List Action → State × List Res
  | [] => (s, [])
  | .markComplete :: rest => applyActions s out rest
  | .runCmd _ k rc :: rest =>
    let (s', r) := step s (.next k rc out)
    let (s'', rs) := applyActions s' out rest
    (s'', r :: rs)

end Jade.Pipeline
