import JadeModel.Basic
import JadeModel.Gen.Queue

/-!
Model of the node-level job queue `jade/jobs/job_queue.py` (`JobQueue.submit / process_queue /
_check_completions / _run_job / wait / run`) as used by `JobRunner._run_jobs` with `AsyncCliCommand`
jobs (C02, C04, C06 node level).  Every decision is a generated predicate of `Gen.Queue`; this file is
the control-flow skeleton.

* `outstanding` mirrors the `OrderedDict` `_outstanding_jobs` (insertion order); an entry is a real
  process that is `running`, a real process seen complete in the current pass (`exited rc`, its row was
  appended by `_complete()` at that poll) or a `canceled` placeholder (`cancel()` wrote its row and set
  `_is_complete`); `queued` mirrors the list `_queued_jobs` (remaining blockers per job).
* The environment supplies the outcome of `Popen.poll()`: one `Poll` (exit events `(job, code)`) per
  pass of the `while need_to_rerun` loop of one `_check_completions` call (a process may exit between
  two passes of one call); missing passes = nobody exits.
* Ghost state: `handed` (jobs as handed to `submit`, in order) and `log` (launches and appended result
  rows in the order they happen).
* Assumptions recorded here: the node is the manager node (`_is_manager_node`, rows are written),
  `run()` does not raise (C19), job names handed to one queue are distinct.
-/

namespace Jade.Queue
open Jade.Gen.Queue

/-- a job as the queue sees it (`AsyncCliCommand` delegating to its job parameters) -/
structure Job where
  id : JobId
  /-- `get_blocking_jobs()`: the remaining blockers -/
  blockers : List JobId
  /-- `cancel_on_blocking_job_failure` -/
  cancelFlag : Bool
  deriving DecidableEq, Repr

/-- state of an entry of `_outstanding_jobs` (a job in `_queued_jobs` is "queued") -/
inductive St where
  | running
  | exited (rc : Int)
  | canceled
  deriving DecidableEq, Repr

structure Slot where
  id : JobId
  st : St
  deriving DecidableEq, Repr

/-- boundary events: a process launch (`Popen`) and a row appended to the node's results file -/
inductive Ev where
  | start (j : JobId)
  | row (j : JobId) (rc : Int) (status : RowStatus)
  deriving DecidableEq, Repr

/-- which running processes have exited, with which code, at one poll round -/
abbrev Poll := List (JobId × Int)

structure QState where
  /-- `_queue_depth` -/
  depth : Nat
  outstanding : List Slot
  queued : List Job
  numJobs : Nat
  numCompleted : Nat
  /-- ghost: the jobs as handed to `submit` -/
  handed : List Job
  /-- ghost: launches and rows in the order they happened -/
  log : List Ev
  deriving DecidableEq, Repr

def QState.init (depth : Nat) : QState :=
  { depth := depth, outstanding := [], queued := [], numJobs := 0, numCompleted := 0, handed := [], log := [] }

def QState.outIds (s : QState) : List JobId := s.outstanding.map (·.id)
def QState.queuedIds (s : QState) : List JobId := s.queued.map (·.id)

def startsOf (log : List Ev) : List JobId :=
  log.filterMap fun e => match e with
    | .start j => some j
    | _ => none

def rowsOf (log : List Ev) : List (JobId × Int × RowStatus) :=
  log.filterMap fun e => match e with
    | .row j rc st => some (j, rc, st)
    | _ => none

/-- ghost log of launches -/
def QState.starts (s : QState) : List JobId := startsOf s.log
/-- ghost log of rows in the order written -/
def QState.rows (s : QState) : List (JobId × Int × RowStatus) := rowsOf s.log

/-! ### `submit` / `_run_job` -/

/-- `_run_job`: `job.run()` launches the process; counted and outstanding iff it reports GOOD -/
def runJob (j : Job) (s : QState) : QState :=
  if runCounted asyncRunStatus then
    { s with log := s.log ++ [.start j.id], numJobs := s.numJobs + 1,
             outstanding := s.outstanding ++ [{ id := j.id, st := .running }] }
  else { s with log := s.log ++ [.start j.id] }

def enqueue (j : Job) (s : QState) : QState := { s with queued := s.queued ++ [j] }

def hand (j : Job) (s : QState) : QState := { s with handed := s.handed ++ [j] }

/-- `JobQueue.submit` -/
def submit (j : Job) (s : QState) : QState :=
  if submitRuns (isFull s.outstanding.length s.depth) j.blockers then runJob j (hand j s)
  else enqueue j (hand j s)

/-! ### `_check_completions` -/

/-- `self._pipe.poll()` of an outstanding job that is still pending: the exit code, if the environment
    says the process has ended -/
def exitCode (ev : Poll) (o : Slot) : Option Int :=
  match o.st with
  | .running => ev.lookup o.id
  | _ => none

/-- `job.is_complete()` for one outstanding job -/
def pollSlot (ev : Poll) (o : Slot) : Slot :=
  match exitCode ev o with
  | some rc => { o with st := .exited rc }
  | none => o

/-- the row `_complete()` appends when the poll finds the process ended -/
def exitRow (ev : Poll) (o : Slot) : Option Ev :=
  (exitCode ev o).map fun rc => Ev.row o.id rc completeStatus

/-- `return_code` of a job whose `is_complete()` is true -/
def Slot.code (o : Slot) : Option Int :=
  match o.st with
  | .running => none
  | .exited rc => some rc
  | .canceled => if cancelSetsComplete then some cancelRc else none

def Slot.complete (o : Slot) : Bool := o.code.isSome

def Slot.failed (o : Slot) : Bool :=
  match o.code with
  | some rc => failedCode rc
  | none => false

/-- the polls of the collection loop `for name, job in self._outstanding_jobs.items()` -/
def pollAll (ev : Poll) (s : QState) : QState :=
  { s with outstanding := s.outstanding.map (pollSlot ev),
           log := s.log ++ s.outstanding.filterMap (exitRow ev) }

/-- `completed_jobs` -/
def completedOf (s : QState) : List JobId := (s.outstanding.filter (·.complete)).map (·.id)
/-- names added to `failed_jobs` by the collection loop -/
def failedOf (s : QState) : List JobId := (s.outstanding.filter (·.failed)).map (·.id)

/-- the queued job is canceled by the scan -/
def doCancel (failed : List JobId) (q : Job) : Bool :=
  scanGuard q.blockers && cancelCond q.cancelFlag q.blockers failed

/-- `elif name in blocking_jobs: job.remove_blocking_job(name)` -/
def dropBlocker (name : JobId) (q : Job) : Job :=
  if scanGuard q.blockers && removeCond name q.blockers then
    { q with blockers := q.blockers.filter (· != name) }
  else q

def cancelSlot (q : Job) : Slot := { id := q.id, st := .canceled }
/-- the row `cancel()` appends -/
def cancelRow (q : Job) : Ev := .row q.id cancelRc cancelStatus

/-- body of `for name in completed_jobs`: pop the name, scan the queued jobs (cancel / remove the name),
    pop the canceled ones.  The cancel decision of a queued job does not depend on the other queued
    jobs, so the scan is a filter/map. -/
def reap (failed : List JobId) (s : QState) (name : JobId) : QState :=
  { s with
    outstanding := s.outstanding.filter (·.id != name) ++ (s.queued.filter (doCancel failed)).map cancelSlot,
    queued := (s.queued.filter (fun q => !doCancel failed q)).map (dropBlocker name),
    numJobs := s.numJobs + (s.queued.filter (doCancel failed)).length,
    log := s.log ++ (s.queued.filter (doCancel failed)).map cancelRow }

/-- `for name in completed_jobs`; the Bool is `need_to_rerun` -/
def reapAll (failed : List JobId) : List JobId → QState → QState × Bool
  | [], s => (s, false)
  | n :: ns, s =>
    ((reapAll failed ns (reap failed s n)).1,
     s.queued.any (doCancel failed) || (reapAll failed ns (reap failed s n)).2)

/-- `self._num_completed += len(completed_jobs)` -/
def addCompleted (n : Nat) (s : QState) : QState := { s with numCompleted := s.numCompleted + n }

/-- one pass of `while need_to_rerun`: (state, failed_jobs, need_to_rerun) -/
def pass (ev : Poll) (failed : List JobId) (s : QState) : QState × List JobId × Bool :=
  let s1 := pollAll ev s
  let failed' := failed ++ failedOf s1
  let names := completedOf s1
  let r := reapAll failed' names (addCompleted names.length s1)
  (r.1, failed', r.2)

/-- `while need_to_rerun` (fuel: every rerun cancels at least one queued job) -/
def checkLoop : Nat → List Poll → List JobId → QState → QState
  | 0, _, _, s => s
  | n + 1, evs, failed, s =>
    if (pass (evs.headD []) failed s).2.2 then
      checkLoop n evs.tail (pass (evs.headD []) failed s).2.1 (pass (evs.headD []) failed s).1
    else (pass (evs.headD []) failed s).1

/-- `_check_completions` (`failed_jobs = set()` once per call) -/
def checkCompletions (evs : List Poll) (s : QState) : QState :=
  checkLoop (s.queued.length + 1) evs [] s

/-! ### `process_queue` -/

/-- the start loop: `n` = `len(jobs_to_pop)` so far; result = (jobs run, in order; remaining queue) -/
def pick (avail : Int) : Nat → List Job → List Job × List Job
  | _, [] => ([], [])
  | n, q :: qs =>
    if startBlocked q.blockers then ((pick avail n qs).1, q :: (pick avail n qs).2)
    else if startBreak (n + 1) avail then ([q], qs)
    else (q :: (pick avail (n + 1) qs).1, (pick avail (n + 1) qs).2)

def runPicked (js : List Job) (s : QState) : QState := js.foldl (fun s j => runJob j s) s

/-- `JobQueue.process_queue` -/
def processQueue (evs : List Poll) (s : QState) : QState :=
  let s := checkCompletions evs s
  if nothingQueued s.queuedIds then s
  else if noneAvailable (availableJobs s.depth s.outIds) then s
  else
    runPicked (pick (availableJobs s.depth s.outIds) 0 s.queued).1
      { s with queued := (pick (availableJobs s.depth s.outIds) 0 s.queued).2 }

/-! ### operation sequences, `wait`, `run` -/

inductive Op where
  | submit (j : Job)
  | processQueue (evs : List Poll)
  deriving DecidableEq, Repr

def step (s : QState) : Op → QState
  | .submit j => submit j s
  | .processQueue evs => processQueue evs s

def runOps (depth : Nat) (ops : List Op) : QState := ops.foldl step (QState.init depth)

def QState.busy (s : QState) : Bool := waitMore s.outIds s.queuedIds

/-- `wait`'s loop; one schedule entry per `process_queue` call.  The Bool says the loop condition
    became false (with an exhausted schedule and a busy queue the Python loop would keep polling). -/
def waitLoop : List (List Poll) → QState → QState × Bool
  | [], s => (s, !s.busy)
  | evs :: rest, s => if s.busy then waitLoop rest (processQueue evs s) else (s, true)

def submitAll (depth : Nat) (jobs : List Job) : QState :=
  jobs.foldl (fun s j => submit j s) (QState.init depth)

structure RunOut where
  final : QState
  /-- `wait` returned -/
  drained : Bool
  deriving DecidableEq, Repr

/-- `JobQueue.run_jobs(jobs, max_queue_depth=depth)`: submit all, `wait`, assert -/
def runAll (depth : Nat) (jobs : List Job) (sched : List (List Poll)) : Except Err RunOut :=
  let r := waitLoop sched (submitAll depth jobs)
  if r.2 && !waitAssert r.1.numCompleted r.1.numJobs then .error .assertion
  else .ok { final := r.1, drained := r.2 }

/-- the queue depth `JobRunner._run_jobs` passes -/
def workers (numJobs : Nat) (numProcs : Option Nat) (cpus : Nat) : Nat :=
  numWorkers numJobs (maxNumWorkers numProcs cpus)

/-- `JobRunner._run_jobs` as far as the queue is concerned -/
def runNode (numProcs : Option Nat) (cpus : Nat) (jobs : List Job) (sched : List (List Poll)) :
    Except Err RunOut :=
  runAll (workers jobs.length numProcs cpus) jobs sched

end Jade.Queue
