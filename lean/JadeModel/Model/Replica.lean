import JadeModel.Basic
import JadeModel.Model.Queue
import JadeModel.Gen.Command
import JadeModel.Gen.Replica

/-!
Multi-node allocations (`hpc.nodes = N ≥ 2`): `srun` starts the batch's run script — `jade-internal run-jobs` —
on every node of the allocation.  Every node runs its own `JobRunner` / `JobQueue` over the *same* batch
configuration (`Model/Queue.lean` is the model of one such queue; its ghost log holds the launches and the rows
that queue *would* record); the nodes differ in one thing only: `self._intf.am_i_manager()`
(`SLURM_NODEID == "0"`, `Gen/Replica.lean`), which `JobRunner._generate_jobs` hands to every
`AsyncCliCommand` as `is_manager_node`, and which gates the two places where a node records a result
(`_complete`, `cancel`: `Gen/Command.lean` `completeRecords` / `cancelRecords`).

This file models what an allocation appends to the batch's results file: per node, the rows of its queue's log
filtered by the *generated* recording predicates.  Modelled, not verified: that SLURM gives the nodes of an
allocation the ids `0 … N-1`, each exactly once (`SLURM_NODEID`).
-/

namespace Jade.Replica
open Jade.Queue Jade.Gen.Queue

/-- `SLURM_NODEID` of the i-th node of an allocation -/
def nodeIdOf (i : Nat) : String := toString i

/-- the `AsyncCliCommand` context on node `i`: only the manager flag depends on the node -/
def nodeCtx (base : Jade.Gen.Command.Ctx) (i : Nat) : Jade.Gen.Command.Ctx :=
  { base with isManager := Jade.Gen.Replica.amIManager (some (nodeIdOf i)) }

/-- does a node with context `x` append the row its queue logged? (`_complete` for finished rows, `cancel` for canceled) -/
def records (x : Jade.Gen.Command.Ctx) : RowStatus → Bool
  | .finished => Jade.Gen.Command.completeRecords x
  | .canceled => Jade.Gen.Command.cancelRecords x

/-- rows a node with context `x` appends to `results_batch_<b>.csv`, given its queue's log -/
def recorded (x : Jade.Gen.Command.Ctx) (log : List Ev) : List (JobId × Int × RowStatus) :=
  (rowsOf log).filter (fun r => records x r.2.2)

/-- an allocation: the queue logs of its nodes `0 … N-1` (each node runs the whole batch) -/
abbrev Allocation := List (List Ev)

/-- rows of node `i`.. of an allocation whose first listed node has id `i` -/
def recordedFrom (base : Jade.Gen.Command.Ctx) : Nat → Allocation → List (JobId × Int × RowStatus)
  | _, [] => []
  | i, log :: rest => recorded (nodeCtx base i) log ++ recordedFrom base (i + 1) rest

/-- everything the allocation appends to the batch's results file (in node order; interleaving is C08's concern) -/
def allocationRows (base : Jade.Gen.Command.Ctx) (a : Allocation) : List (JobId × Int × RowStatus) :=
  recordedFrom base 0 a

/-- launches on node `i` (every node launches its own copy of each job) -/
def launchesOn (a : Allocation) (i : Nat) : List JobId := startsOf (a.getD i [])

end Jade.Replica
