import JadeModel.Basic
import JadeModel.Gen.Reports

/-!
Model of the reports (property C20):

* `EventsSummary.__init__/_consolidate_events/_save_events_summary/_load_all_events/_get_events`
  (`jade/events.py`): `consolidateEvents`, `saveEvents`, `construct`, `eventsOf`;
* `ResourceMonitorAggregator.__init__/update_resource_stats/finalize` (`jade/resource_monitor.py`):
  `statsInit/statsUpdate/statsRun/statsFinalize` (system statistics) and
  `procStep/procRun/procFinalize` (per-process statistics);
* `JobSubmitter._handle_completion/_build_results`, `ResultsSummary.get_results_by_type/show_results`
  (`jade/jobs/job_submitter.py`, `jade/result.py`): `tally`, `missingJobs`, `handleCompletion`, `byName`,
  `byType`, `showResults`.

The sort key, grouping key, `reverse` flag, the if/elif chains of the statistics update, the initial
values, the divisions of `finalize`, `Result.is_*`, the classification chains and the missing-jobs guard
come from `Gen.Reports` (regenerated from the source on every run).
-/

namespace Jade.Reports
open Jade.Gen.Reports

/-! ## (a) events -/

section events
variable {α : Type}

/-- The only comparison `list.sort(key=…, reverse=…)` performs between two elements:
    `key(a) < key(b)` (operands swapped under `reverse=True`).  Keys are the timestamps as the code
    holds them: Python `str` (`str(datetime.now())`), compared by code point — Lean's `String.<`. -/
def keyLt (a b : Event α) : Bool :=
  if sortReverse then decide (sortKey b < sortKey a) else decide (sortKey a < sortKey b)

/-- stable insertion: `a` (which preceded every element of the list in the input) goes in front of
    the first element that is not strictly smaller than it -/
def insertBy {ε : Type} (lt : ε → ε → Bool) (a : ε) : List ε → List ε
  | [] => [a]
  | x :: xs => if lt x a then x :: insertBy lt a xs else a :: x :: xs

/-- stable sort using only `lt`, as `list.sort` does -/
def sortBy {ε : Type} (lt : ε → ε → Bool) : List ε → List ε
  | [] => []
  | a :: l => insertBy lt a (sortBy lt l)

def sortEvents (l : List (Event α)) : List (Event α) := sortBy keyLt l

/-- dict key order: first insertion -/
def dedup : List String → List String
  | [] => []
  | n :: ns => n :: (dedup ns).filter (fun m => m != n)

/-- the lines of all globbed files, file after file, line after line -/
def allEvents (files : List (List (Event α))) : List (Event α) := files.flatten

/-- `self._events[name]` before sorting: the events appended under that key, in reading order -/
def eventsNamed (n : String) (l : List (Event α)) : List (Event α) :=
  l.filter (fun e => groupKey e == n)

abbrev Summary (α : Type) := List (String × List (Event α))

/-- `_consolidate_events`: `self._events` as a list of `(name, events)` in dict order -/
def consolidateEvents (files : List (List (Event α))) : Summary α :=
  (dedup ((allEvents files).map groupKey)).map fun n =>
    (n, sortEvents (eventsNamed n (allEvents files)))

/-- `self._events.get(name, [])` -/
def eventsOf (s : Summary α) (n : String) : List (Event α) := (s.lookup n).getD []

/-- the directory `events/`: per-name JSON files (name ↦ list of events, in file order) and the names of
    the Parquet tables (content outside the model) -/
structure EventsDir (α : Type) where
  json : Summary α
  parquet : List String

def EventsDir.isEmpty (d : EventsDir α) : Bool := d.json.isEmpty && d.parquet.isEmpty

/-- what `_save_events_summary` leaves in memory and writes as JSON: everything but the resource stats -/
def keptEvents (s : Summary α) : Summary α := s.filter fun p => !resourceStats.contains p.1

/-- `_save_events_summary` into an empty `events/` -/
def saveEvents (s : Summary α) : EventsDir α :=
  { json := keptEvents s, parquet := (s.map (·.1)).filter fun n => resourceStats.contains n }

/-- `EventsSummary(output, preload=True)` given the present content of `events/` and the present event
    log files: the in-memory events (as a finite map; the driver prints it sorted by name) and `events/`
    afterwards.  Only an empty `events/` triggers a consolidation; otherwise the log files are not read. -/
def construct (dir : EventsDir α) (files : List (List (Event α))) : Summary α × EventsDir α :=
  if dir.isEmpty then
    let s := consolidateEvents files
    (keptEvents s, saveEvents s)
  else (dir.json, dir)

end events

/-! ## (b) resource statistics (one statistic = one column of samples) -/

section stats
variable {α : Type} [LT α] [LE α] [DecidableLT α] [DecidableLE α] [Add α]

/-- summaries of one statistic plus the number of `update_resource_stats` calls -/
structure Stats (α : Type) where
  st : St α
  count : Nat
  deriving DecidableEq, Repr

/-- `__init__`: 0.0 / sys.maxsize / 0.0, `_count = 0` -/
def statsInit (zero maxsize : α) : Stats α := { st := sysInit zero maxsize, count := 0 }

/-- one `update_resource_stats` call, as seen by one system statistic -/
def statsUpdate (s : Stats α) (val : α) : Stats α := { st := sysUpdate s.st val, count := s.count + 1 }

def statsRun (zero maxsize : α) (samples : List α) : Stats α :=
  samples.foldl statsUpdate (statsInit zero maxsize)

/-- one sample of one statistic of one process: `none` = the process has not been seen yet -/
def procStep (s : Option (Stats α)) (val : α) : Option (Stats α) :=
  match s with
  | none => some { st := procFirst val, count := 1 }
  | some s => some { st := procUpdate s.st val, count := s.count + 1 }

def procRun (samples : List α) : Option (Stats α) := samples.foldl procStep none

end stats

/-- one entry of `<batch>_resource_stats.json`; the average is kept as the fraction the code divides -/
structure StatReport where
  maximum : Int
  minimum : Int
  meanNum : Int
  meanDen : Int
  samples : Nat
  deriving DecidableEq, Repr

/-- `finalize` for a system statistic: nothing is written when no sample was taken -/
def statsFinalize (s : Stats Int) : Option StatReport :=
  if s.count = 0 then none
  else some { maximum := s.st.mx, minimum := s.st.mn, meanNum := sysMeanNum s.st.sm s.count,
              meanDen := sysMeanDen s.st.sm s.count, samples := s.count }

/-- `finalize` for a statistic of a process -/
def procFinalize (s : Option (Stats Int)) : Option StatReport :=
  s.map fun s => { maximum := s.st.mx, minimum := s.st.mn, meanNum := procMeanNum s.st.sm s.count,
                   meanDen := procMeanDen s.st.sm s.count, samples := s.count }

/-! ## (c) tallies -/

/-- a row of the results file, as far as the tallies look at it -/
structure Row where
  name : String
  rc : Int
  status : String
  deriving DecidableEq, Repr

structure Tally where
  successful : Nat
  failed : Nat
  canceled : Nat
  deriving DecidableEq, Repr

def Tally.zero : Tally := { successful := 0, failed := 0, canceled := 0 }

def Tally.bump (t : Tally) : Cls → Tally
  | .successful => { t with successful := t.successful + 1 }
  | .failed => { t with failed := t.failed + 1 }
  | .canceled => { t with canceled := t.canceled + 1 }

def Tally.total (t : Tally) : Nat := t.successful + t.failed + t.canceled

/-- `_build_results`' chain on one row -/
def classify (r : Row) : Except Err Cls := buildClassify r.rc r.status

/-- a counting loop over the rows with the given chain; the first failing assertion aborts it -/
def tallyWith (cl : Int → String → Except Err Cls) : List Row → Tally → Except Err Tally
  | [], t => .ok t
  | r :: rs, t =>
    match cl r.rc r.status with
    | .error e => .error e
    | .ok c => tallyWith cl rs (t.bump c)

/-- `_build_results`: num_successful / num_failed / num_canceled -/
def tally (rows : List Row) : Except Err Tally := tallyWith buildClassify rows Tally.zero

def hasRow (rows : List Row) (n : String) : Bool := rows.any fun r => r.name == n

/-- `_handle_completion`: `missing_jobs` (as a set; the code sorts it, the driver does too) -/
def missingJobs (configured : List String) (rows : List Row) : List String :=
  if missingGuard rows.length configured.length then configured.filter fun n => !hasRow rows n
  else []

/-- `results_summary` + `missing_jobs` of results.json -/
structure ResultsFile where
  tally : Tally
  numMissing : Nat
  missing : List String
  deriving DecidableEq, Repr

def handleCompletion (configured : List String) (rows : List Row) : Except Err ResultsFile :=
  match tally rows with
  | .error e => .error e
  | .ok t =>
    let m := missingJobs configured rows
    .ok { tally := t, numMissing := m.length, missing := m }

/-- `deserialize_results`: a dict keyed by job name (last row wins, first position kept) -/
def upsert (acc : List Row) (r : Row) : List Row :=
  if hasRow acc r.name then acc.map fun x => if x.name == r.name then r else x else acc ++ [r]

def byName (rows : List Row) : List Row := rows.foldl upsert []

def rowsOfClass (c : Cls) (rows : List Row) : List Row :=
  rows.filter fun r => typeClassify r.rc r.status == some c

/-- `ResultsSummary.get_results_by_type` on the rows of results.json -/
def byType (rows : List Row) : List Row × List Row × List Row :=
  let rs := byName rows
  (rowsOfClass .successful rs, rowsOfClass .failed rs, rowsOfClass .canceled rs)

structure Shown where
  tally : Tally
  numMissing : Nat
  total : Nat
  deriving DecidableEq, Repr

/-- `ResultsSummary.show_results`: the printed tallies (with both of its assertions) -/
def showResults (rows : List Row) (missing : List String) : Except Err Shown :=
  match tallyWith showClassify (byName rows) Tally.zero with
  | .error e => .error e
  | .ok t =>
    let total := t.total + missing.length
    if total == (byName rows).length + missing.length then
      .ok { tally := t, numMissing := missing.length, total := total }
    else .error .assertion

end Jade.Reports
