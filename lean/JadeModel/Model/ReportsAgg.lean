import JadeModel.Basic
import JadeModel.Gen.Reports
import JadeModel.Gen.ReportsAgg
import JadeModel.Model.Reports

/-!
Model of the way structured events travel from the processes of a submission to the files that
`EventsSummary` consolidates (property C20, "every event written by any JADE process … exactly once"):

* a JADE process (`jade submit-jobs` / `try-submit-jobs` / `resubmit-jobs`, `jade-internal run-jobs`, …) logs
  into its own top-level `<output>/*events.log` through `setup_event_logging(file, mode=…)`: `submitterStart`,
  `submitterLog`, `runnerStart`, `runnerLog`, `otherLog`;
* a job process (`jade-internal run`, `jade/cli/run.py`) logs into `<output>/job-outputs/<job>/events.log`: `jobRun`;
* at the end of a batch the node's runner moves the per-job files of ITS jobs into the node's file
  (`JobRunner._aggregate_events`, `jade/jobs/job_runner.py`): `aggregate`;
* a history is a list of such steps (`run`): batches may be killed before they aggregate, be requeued under the
  same batch id / node id, jobs may run again in later batches.

The open modes, what the loop does with a job that has no file, whether the per-job file is removed after the
copy, and all file names come from `Gen.ReportsAgg` (regenerated from the source on every run).
-/

namespace Jade.ReportsAgg
open Jade.Gen.Reports Jade.Gen.ReportsAgg Jade.Reports

/-! ## line files -/

section files
variable {ε : Type}

/-- a directory of line files: name ↦ lines, in creation order -/
abbrev Files (ε : Type) := List (String × List ε)

/-- `os.path.exists` + reading the whole file -/
def lookupFile (k : String) : Files ε → Option (List ε)
  | [] => none
  | (k', v) :: r => if k' == k then some v else lookupFile k r

/-- open in append mode and write `ls` (the file is created when absent) -/
def appendFile (k : String) (ls : List ε) : Files ε → Files ε
  | [] => [(k, ls)]
  | (k', v) :: r => if k' == k then (k', v ++ ls) :: r else (k', v) :: appendFile k ls r

/-- open in "w" mode and write `ls`: what the file held is dropped -/
def truncFile (k : String) (ls : List ε) : Files ε → Files ε
  | [] => [(k, ls)]
  | (k', v) :: r => if k' == k then (k', ls) :: r else (k', v) :: truncFile k ls r

/-- `os.remove` -/
def removeFile (k : String) : Files ε → Files ε
  | [] => []
  | (k', v) :: r => if k' == k then r else (k', v) :: removeFile k r

/-- `open(k, mode)` / `logging.FileHandler(k, mode)` and writing `ls` -/
def writeFile (appends : Bool) (k : String) (ls : List ε) (fs : Files ε) : Files ε :=
  if appends then appendFile k ls fs else truncFile k ls fs

/-- all lines of all files -/
def content (fs : Files ε) : List ε := (fs.map (·.2)).flatten

end files

/-! ## the output directory -/

/-- `<output>/`: the top-level event files of the JADE processes, and the per-job event files
    `job-outputs/<job>/<file>` (key `<job>/<file>`) -/
structure Out (α : Type) where
  top : Files (Event α)
  job : Files (Event α)
  deriving DecidableEq, Repr

def Out.empty {α : Type} : Out α := { top := [], job := [] }

inductive Op (α : Type) where
  /-- `jade submit-jobs` / `try-submit-jobs` / `resubmit-jobs` starts: `setup_event_logging(submit_jobs_events.log, …)` -/
  | submitterStart
  | submitterLog (evs : List (Event α))
  /-- `jade-internal run-jobs` for batch `batch` starts on node `node`: `setup_event_logging(mgr.event_filename, …)` -/
  | runnerStart (batch node : String)
  | runnerLog (batch node : String) (evs : List (Event α))
  /-- any other process appending to its own top-level file -/
  | otherLog (file : String) (evs : List (Event α))
  /-- a job process runs and logs `evs`; `none`: it never sets up event logging (no file is created) -/
  | jobRun (job : String) (evs : Option (List (Event α)))
  /-- `JobRunner._aggregate_events` of the runner of `batch` on `node`, whose configuration lists `jobs` -/
  | aggregate (batch node : String) (jobs : List String)
  deriving DecidableEq, Repr

section steps
variable {α : Type}

/-- key of a per-job file -/
def jobPath (job file : String) : String := job ++ "/" ++ file

def submitterStart (s : Out α) : Out α :=
  { s with top := writeFile submitterLogAppends submitterFile [] s.top }

def submitterLog (evs : List (Event α)) (s : Out α) : Out α :=
  { s with top := appendFile submitterFile evs s.top }

def runnerStart (batch node : String) (s : Out α) : Out α :=
  { s with top := writeFile nodeLogAppends (nodeFileName batch node) [] s.top }

/-- the runner process logs events of its own into the node's file -/
def runnerLog (batch node : String) (evs : List (Event α)) (s : Out α) : Out α :=
  { s with top := appendFile (nodeFileName batch node) evs s.top }

def otherLog (file : String) (evs : List (Event α)) (s : Out α) : Out α :=
  { s with top := appendFile file evs s.top }

/-- one run of a job: `os.makedirs(job_dir)`, `setup_event_logging(job_dir/events.log, mode=…)`, `log_event` … -/
def jobRun (job : String) (evs : Option (List (Event α))) (s : Out α) : Out α :=
  match evs with
  | none => s
  | some l => { s with job := writeFile jobLogAppends (jobPath job jobLogFile) l s.job }

/-- the body of the aggregation loop for a job whose file exists: copy every line, then (maybe) remove -/
def moveJob (nodeFile key : String) (lines : List (Event α)) (s : Out α) : Out α :=
  { top := appendFile nodeFile lines s.top,
    job := if aggRemovesJobFile then removeFile key s.job else s.job }

/-- `for job in self._config.iter_jobs(): …` -/
def aggLoop (nodeFile : String) : List String → Out α → Out α
  | [], s => s
  | j :: js, s =>
    match lookupFile (jobPath j aggJobFile) s.job with
    | none =>
      match aggOnMissing with
      | .skip => aggLoop nodeFile js s
      | .stop => s
    | some lines => aggLoop nodeFile js (moveJob nodeFile (jobPath j aggJobFile) lines s)

/-- `JobRunner._aggregate_events`: `with open(self._event_filename, …) as f_out:` and the loop -/
def aggregate (batch node : String) (jobs : List String) (s : Out α) : Out α :=
  aggLoop (nodeFileName batch node) jobs
    { s with top := writeFile aggNodeAppends (nodeFileName batch node) [] s.top }

def step (s : Out α) : Op α → Out α
  | .submitterStart => submitterStart s
  | .submitterLog evs => submitterLog evs s
  | .runnerStart b n => runnerStart b n s
  | .runnerLog b n evs => runnerLog b n evs s
  | .otherLog f evs => otherLog f evs s
  | .jobRun j evs => jobRun j evs s
  | .aggregate b n jobs => aggregate b n jobs s

/-- a history -/
def run (s : Out α) (ops : List (Op α)) : Out α := ops.foldl step s

/-- ghost: the events a step's process writes -/
def Op.written : Op α → List (Event α)
  | .submitterLog evs => evs
  | .runnerLog _ _ evs => evs
  | .otherLog _ evs => evs
  | .jobRun _ (some evs) => evs
  | _ => []

/-- ghost: every event any process wrote over the history, in history order -/
def written (ops : List (Op α)) : List (Event α) := (ops.map Op.written).flatten

/-- what `jade resubmit-jobs` does to `events/` before it submits again -/
def clearEvents (d : EventsDir α) : EventsDir α :=
  if resubmitClearsEvents then { json := [], parquet := [] } else d

end steps

end Jade.ReportsAgg
