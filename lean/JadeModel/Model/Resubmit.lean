import JadeModel.Basic
import JadeModel.Gen.Resubmit

/-!
Model of `jade resubmit-jobs` (jade/cli/resubmit_jobs.py) and of the functions it calls:
`ResultsSummary.get_results_by_type / get_missing_jobs`, `_get_jobs_to_resubmit`,
`_update_with_blocking_jobs`, `ResultsAggregator.clear_results_for_resubmission`,
`Cluster.prepare_for_resubmission`, `Cluster._promote_to_submitter / _demote_from_submitter`.

Every decision is a generated definition of `Gen.Resubmit`; this file is the control-flow skeleton.
Jobs are identified by their index in the configuration's listing order (`JobId`), so "the
configuration's listing order" is `List.range n` and an arbitrary DAG over indices covers every
listing order (blockers may point forwards, backwards, to the job itself, or form cycles:
`check_job_dependencies` only checks existence).  Python sets are duplicate-free lists in insertion
order (`insertL`); the dict `updated_blocking_jobs_by_name` is a function `JobId → Option _`
(its only use is `.get(name, set())`).

What is *not* modelled here: the submit round that follows the reset (`JobSubmitter.submit_jobs`;
its outcome is supplied by the environment, its effects are the subject of the system model) and
the version counters of the cluster files (C10).
-/

namespace Jade.Resubmit
open Jade.Gen.Resubmit

/-- one result row (processed_results.csv / results.json); the two times and the HPC id are opaque -/
structure Row where
  name : JobId
  rc : Int
  status : String
  exec : String
  ctime : String
  hpc : String
  deriving DecidableEq, Repr

/-- the fields of cluster_config.json the command reads or writes -/
structure Cfg where
  submitter : Option String
  isComplete : Bool
  isCanceled : Bool
  submitted : Int
  completed : Int
  deriving DecidableEq, Repr

/-- the files of an output directory -/
structure Sub where
  /-- number of jobs (config.json, job_status.json, `num_jobs`) -/
  n : Nat
  /-- configured blockers (config.json) -/
  blockers : JobId → List JobId
  /-- results.json `results` in file order; `none` = the file does not exist -/
  summary : Option (List Row)
  /-- processed_results.csv -/
  rows : List Row
  /-- job_status.json -/
  state : JobId → JState
  blockedBy : JobId → List JobId
  cfg : Cfg
  /-- events/: `none` = no such directory, `some k` = k files -/
  events : Option Nat

/-! ## Selection (`_get_jobs_to_resubmit`) -/

/-- `set(...)` built from a list: first occurrences, insertion order -/
def dedup (l : List JobId) : List JobId := l.foldl insertL []

/-- results.json is read into a dict by name: the last entry of a name wins -/
def resultOf (summary : List Row) (j : JobId) : Option Row :=
  summary.reverse.find? (fun r => r.name == j)

/-- keys of that dict -/
def summaryNames (summary : List Row) : List JobId := dedup (summary.map (·.name))

/-- `get_results_by_type()[ty]` (names) -/
def byType (summary : List Row) (ty : String) : List JobId :=
  (summaryNames summary).filter fun j =>
    match resultOf summary j with
    | some r => resultType r.rc r.status == ty
    | none => false

/-- `get_missing_jobs(cluster.iter_jobs())` (names) -/
def missingJobs (n : Nat) (summary : List Row) : List JobId :=
  (List.range n).filter fun j => missingTest (resultOf summary j).isSome

/-- `_get_jobs_to_resubmit` -/
def resubmitSelect (n : Nat) (summary : List Row) (failed missing successful : Bool) : List JobId :=
  dedup (((typesAdded failed successful).flatMap (byType summary)) ++
         (if addsMissing missing then missingJobs n summary else []))

/-! ## Closure under "is blocked by" (`_update_with_blocking_jobs`) -/

/-- loop state: the growing set `jobs_to_resubmit` and the dict `updated_blocking_jobs_by_name` -/
structure CState where
  cur : List JobId
  upd : JobId → Option (List JobId)

/-- `blocking_jobs.intersection(jobs_to_resubmit)` -/
def interOf (blocking cur : List JobId) : List JobId := blocking.filter (fun b => cur.contains b)

/-- body of the inner loop for job `j` -/
def visit (blockers : JobId → List JobId) (st : CState) (j : JobId) : CState :=
  if skipJob (blockers j) then st
  else if closureHit (blockers j) st.cur then
    { cur := insertL st.cur j,
      upd := fun k => if k = j then some (interOf (blockers j) st.cur) else st.upd k }
  else st

/-- one pass over the configuration in listing order -/
def pass (n : Nat) (blockers : JobId → List JobId) (st : CState) : CState :=
  (List.range n).foldl (visit blockers) st

/-- `for i in range(max_iter)` from pass `i` on, `fuel` passes left -/
def iter (n : Nat) (blockers : JobId → List JobId) : Nat → Nat → CState → Except Err CState
  | 0, _, st => .ok st
  | fuel + 1, i, st =>
    let st' := pass n blockers st
    if stopIter (numAdded st'.cur.length st.cur.length) then .ok st'
    else if assertIter i (maxIter n) then iter n blockers fuel (i + 1) st'
    else .error .assertion

/-- `_update_with_blocking_jobs` (the set is mutated in place: `cur` is `jobs_to_resubmit` afterwards) -/
def resubmitClosure (n : Nat) (blockers : JobId → List JobId) (sel : List JobId) : Except Err CState :=
  iter n blockers (maxIter n) 0 { cur := sel, upd := fun _ => none }

/-! ## Pruning the results (`clear_results_for_resubmission`) -/

def clearResults (rows : List Row) (sel : List JobId) : List Row :=
  rows.filter fun r => keepRow r.name sel

/-! ## Resetting the cluster state (`Cluster.prepare_for_resubmission`) -/

/-- the `completed_jobs` counter after the loop over the jobs -/
def prepCompleted (n : Nat) (state : JobId → JState) (sel : List JobId) : Nat :=
  (List.range n).foldl
    (fun c j => if prepResets j sel then c else if prepCounts (state j) then c + prepCountInc else c)
    prepCompleted0

/-- what `prepare_for_resubmission` leaves in memory (and writes, see `PrepFail`) -/
structure Prepared where
  cfg : Cfg
  state : JobId → JState
  blockedBy : JobId → List JobId

def prepareForResubmission (n : Nat) (mem : Cfg) (state : JobId → JState) (blockedBy : JobId → List JobId)
    (sel : List JobId) (upd : JobId → Option (List JobId)) : Except Err Prepared :=
  if prepAssert mem.isComplete then
    .ok { cfg := { mem with isComplete := prepIsComplete, isCanceled := prepIsCanceled,
                            submitted := prepSubmitted n sel, completed := (prepCompleted n state sel : Nat) },
          state := fun j => if prepResets j sel then prepNewState else state j,
          blockedBy := fun j => if prepResets j sel then (upd j).getD [] else blockedBy j }
  else .error .assertion

/-! ## The submitter role -/

/-- `_promote_to_submitter`: new config and whether promotion happened -/
def promote (host : String) (c : Cfg) : Cfg × Bool :=
  if promoteRefused c.submitter then (c, false) else ({ c with submitter := some host }, true)

/-- `_demote_from_submitter` -/
def demote (host : String) (c : Cfg) : Except Err Cfg :=
  if amISubmitter c.submitter host then .ok { c with submitter := none } else .error .assertion

/-! ## The command -/

structure Flags where
  failed : Bool
  missing : Bool
  successful : Bool
  deriving DecidableEq, Repr

/-- what the option `--submission-groups-file` does -/
inductive Groups where
  | absent        -- option not given
  | ok            -- parameters replaced in memory
  | lenMismatch   -- "Length of submission_groups must be identical": demote, exit 1
  | unknownName   -- "submission group … does not exist in the original": demote, exit 1
  | raises        -- `load_data` fails or `SubmissionGroup(**_group)` does not validate
  deriving DecidableEq, Repr

/-- where `prepare_for_resubmission` can fail after it has changed the in-memory config -/
inductive PrepFail where
  | config   -- `_serialize` raises: nothing written by prepare
  | jobs     -- `_serialize_jobs` raises: cluster_config.json written, job_status.json not
  | groups   -- `serialize_submission_groups` raises: both written
  deriving DecidableEq, Repr

/-- failures and outcomes supplied by the environment -/
structure Env where
  host : String
  /-- `Cluster.deserialize` raises (missing/corrupt file, lock timeout) -/
  loadFails : Bool := false
  groups : Groups := .absent
  /-- `create_config_from_file` in `_update_with_blocking_jobs` raises -/
  closureFails : Bool := false
  /-- `_reset_results` raises: `some false` before the CSV is rewritten, `some true` after -/
  resetFails : Option Bool := none
  prepFails : Option PrepFail := none
  /-- unlinking a file of events/ raises -/
  eventsFails : Bool := false
  /-- `JobSubmitter.load` raises -/
  loadMgrFails : Bool := false
  /-- outcome of `mgr.submit_jobs(cluster)`; `none` = it raises `roundErr` -/
  round : Option RoundStatus := some .inProgress
  roundErr : Err := .execError
  deriving DecidableEq, Repr

inductive Outcome where
  | exit (code : Int)
  | raised (e : Err)
  deriving DecidableEq, Repr

/-- locals of the callback while the `try` block runs -/
structure Ctx where
  /-- the files -/
  s : Sub
  /-- the cluster handle's in-memory config (written by every `_serialize`) -/
  mem : Cfg
  /-- `jobs_to_resubmit` -/
  sel : Option (List JobId)
  /-- `updated_blocking_jobs_by_name` -/
  upd : Option (JobId → Option (List JobId))
  /-- `mgr` is bound -/
  mgr : Bool
  ret : Int
  /-- the submit round was entered (its own writes are not part of this model) -/
  roundEntered : Bool
  /-- rows were removed from processed_results.csv by this run -/
  pruned : Bool

/-- one effectful statement of the `try` block: the new context and the exception it raised, if any -/
def runStep (env : Env) (fl : Flags) (c : Ctx) : Step → Ctx × Option Err
  | .select =>
    match c.s.summary with
    | none => (c, some .invalidConfig)          -- "There is no results file"
    | some sm => ({ c with sel := some (resubmitSelect c.s.n sm fl.failed fl.missing fl.successful) }, none)
  | .closure =>
    match c.sel with
    | none => (c, some .keyError)                -- unbound local
    | some sel =>
      if env.closureFails then (c, some .ioError)
      else match resubmitClosure c.s.n c.s.blockers sel with
        | .error e => (c, some e)
        | .ok st => ({ c with sel := some st.cur, upd := some st.upd }, none)
  | .reset =>
    match c.sel with
    | none => (c, some .keyError)
    | some sel =>
      match env.resetFails with
      | some false => (c, some .ioError)
      | some true => ({ c with s := { c.s with rows := clearResults c.s.rows sel }, pruned := true }, some .ioError)
      | none => ({ c with s := { c.s with rows := clearResults c.s.rows sel }, pruned := true }, none)
  | .prepare =>
    match c.sel, c.upd with
    | some sel, some upd =>
      match prepareForResubmission c.s.n c.mem c.s.state c.s.blockedBy sel upd with
      | .error e => (c, some e)
      | .ok p =>
        match env.prepFails with
        | some .config => ({ c with mem := p.cfg }, some .ioError)
        | some .jobs => ({ c with mem := p.cfg, s := { c.s with cfg := p.cfg } }, some .ioError)
        | some .groups =>
          ({ c with mem := p.cfg, s := { c.s with cfg := p.cfg, state := p.state, blockedBy := p.blockedBy } }, some .ioError)
        | none =>
          ({ c with mem := p.cfg, s := { c.s with cfg := p.cfg, state := p.state, blockedBy := p.blockedBy } }, none)
    | _, _ => (c, some .keyError)
  | .events =>
    match c.s.events with
    | none => if eventsGuard false then (c, some .ioError) else (c, none)   -- iterdir() of a missing directory
    | some k =>
      if eventsGuard true then
        if env.eventsFails && k != 0 then (c, some .ioError)
        else ({ c with s := { c.s with events := some 0 } }, none)
      else (c, none)
  | .load => if env.loadMgrFails then (c, some .ioError) else ({ c with mgr := true }, none)
  | .round =>
    if c.mgr then
      match env.round with
      | none => ({ c with roundEntered := true }, some env.roundErr)
      | some st => ({ c with roundEntered := true, ret := retOf st }, none)
    else (c, some .keyError)

/-- the `try` block: statements in order until one raises -/
def runSteps (env : Env) (fl : Flags) : Ctx → List Step → Ctx × Option Err
  | c, [] => (c, none)
  | c, st :: rest =>
    match runStep env fl c st with
    | (c', some e) => (c', some e)
    | (c', none) => runSteps env fl c' rest

structure CmdResult where
  outcome : Outcome
  /-- the files afterwards (not counting what the submit round itself wrote) -/
  s : Sub
  roundEntered : Bool
  /-- rows were removed from processed_results.csv by this run -/
  pruned : Bool

/-- write the in-memory config with the role released (`demote_from_submitter` → `_serialize`) -/
def release (host : String) (c : Ctx) : Except Err Sub :=
  match demote host c.mem with
  | .ok cfg => .ok { c.s with cfg := cfg }
  | .error e => .error e

/-- the `try/except/finally` and the final `sys.exit(ret)` -/
def tryBlock (env : Env) (fl : Flags) (c0 : Ctx) : CmdResult :=
  match runSteps env fl c0 trySteps with
  | (c, some e) =>
    if demoteOnException then
      match release env.host c with
      | .ok s => { outcome := .raised e, s := s, roundEntered := c.roundEntered, pruned := c.pruned }
      | .error e' => { outcome := .raised e', s := c.s, roundEntered := c.roundEntered, pruned := c.pruned }
    else { outcome := .raised e, s := c.s, roundEntered := c.roundEntered, pruned := c.pruned }
  | (c, none) =>
    if demoteOnReturn then
      match release env.host c with
      | .ok s => { outcome := .exit c.ret, s := s, roundEntered := c.roundEntered, pruned := c.pruned }
      | .error e' => { outcome := .raised e', s := c.s, roundEntered := c.roundEntered, pruned := c.pruned }
    else { outcome := .exit c.ret, s := c.s, roundEntered := c.roundEntered, pruned := c.pruned }

/-- `resubmit_jobs(output, failed, missing, successful, submission_groups_file, verbose)` -/
def resubmitCmd (env : Env) (fl : Flags) (s : Sub) : CmdResult :=
  if env.loadFails then { outcome := .raised .ioError, s := s, roundEntered := false, pruned := false }
  else
    let (mem, promoted) := promote env.host s.cfg
    let s1 : Sub := { s with cfg := mem }          -- promotion is serialised immediately
    if refuses mem.isComplete then
      if refuseDemotes promoted then
        match demote env.host mem with
        | .ok cfg => { outcome := .exit refuseExit, s := { s1 with cfg := cfg }, roundEntered := false, pruned := false }
        | .error e => { outcome := .raised e, s := s1, roundEntered := false, pruned := false }
      else { outcome := .exit refuseExit, s := s1, roundEntered := false, pruned := false }
    else if !assertPromoted promoted then
      { outcome := .raised .assertion, s := s1, roundEntered := false, pruned := false }
    else
      match env.groups with
      | .raises => { outcome := .raised .valueError, s := s1, roundEntered := false, pruned := false }
      | .lenMismatch | .unknownName =>
        match demote env.host mem with
        | .ok cfg => { outcome := .exit groupsErrorExit, s := { s1 with cfg := cfg }, roundEntered := false, pruned := false }
        | .error e => { outcome := .raised e, s := s1, roundEntered := false, pruned := false }
      | .absent | .ok =>
        tryBlock env fl { s := s1, mem := mem, sel := none, upd := none, mgr := false, ret := retInit,
                          roundEntered := false, pruned := false }

end Jade.Resubmit
