import JadeModel.Basic
import JadeModel.Gen.Results

/-!
Model of `jade/jobs/results_aggregator.py` (property C08): node result files written by job
runners, the consolidated file, the per-file cooperative locks (`<file>.lock`), and submitter
rounds that collect (`process_results`) or cancel-append (`HpcSubmitter._cancel_job`).

Granularity: one step = one process running from one yield point to the next, where the yield
points are the lock acquisitions, the file *mutations* performed while a node-file lock is held
inside `_move_results` (so that "append → remove" and "remove → append" are different models),
and the release of the consolidated lock at the end of a collection.

    append w b r        ResultsAggregator.append(output, r, batch_id=b): one section under the node
                        file's lock: open "a", header iff `tell() == 0`, row.
    beginCollect p snap process_results(): acquire the consolidated lock, glob (the environment
                        supplies the order `snap`; it must be a listing of the directory).
    lockFile p          move_results on the next path: acquire the node file's lock, run up to the
                        first file mutation of `_move_results` (i.e. read the rows).
    moveStep p          perform the next file mutation of `_move_results` (`Gen.moveOrder`), run to
                        the next one; after the last: `return results`, release the node lock,
                        `results += …`.
    endCollect p        release the consolidated lock, return the accumulated rows.
    cancelAppend p r    `_cancel_job`: `append_result` on the consolidated file under its lock.

A step whose lock is taken (or that does not apply to the process' state) is a stutter.
The consolidated file may be absent at the start (`init F false`): `_append_result` and
`_append_processed_results` both create it with its header when `tell() == 0`.

The model is generic in the file representation `φ` (`FileOps`): `absOps` keeps a file as the
list of its rows (protocol theorems), `byteOps` keeps the bytes (`renderFile`/`parseFile`);
`Proofs/Results.lean` shows the second refines the first.
-/

namespace Jade.Results
open Jade.Gen.Results

abbrev BatchId := Nat
/-- a submitter round runner (collector / canceller) -/
abbrev Pid := Nat
/-- a job-runner process (ghost only) -/
abbrev Wid := Nat

/-! ## Byte level -/

/-- one result row; every attribute as the text `str(getattr(result, x))` yields -/
structure Row where
  name : List Char
  returnCode : List Char
  status : List Char
  execTime : List Char
  completionTime : List Char
  hpcJobId : List Char
  deriving DecidableEq, Repr

def Row.get (r : Row) : Field → List Char
  | .name => r.name
  | .returnCode => r.returnCode
  | .status => r.status
  | .execTime => r.execTime
  | .completionTime => r.completionTime
  | .hpcJobId => r.hpcJobId

/-- `sep.join(parts)` -/
def joinWith (sep : Char) : List (List Char) → List Char
  | [] => []
  | [x] => x
  | x :: y :: rest => x ++ sep :: joinWith sep (y :: rest)

/-- `s.split(sep)` for a one-character separator -/
def splitOn (sep : Char) : List Char → List (List Char)
  | [] => [[]]
  | c :: cs =>
    if c = sep then [] :: splitOn sep cs
    else
      match splitOn sep cs with
      | [] => [[c]]   -- unreachable
      | l :: ls => (c :: l) :: ls

/-- `delimiter.join(self._get_fields())` -/
def headerLine : List Char := joinWith delimiter (resultFields.map Field.pyName)

/-- `delimiter.join([str(getattr(result, x)) for x in fields])` -/
def renderRow (r : Row) : List Char := joinWith delimiter (resultFields.map r.get)

def tokBytes (text : List Char) : WriteTok → List Char
  | .header => headerLine
  | .text => text
  | .nl => ['\n']

def writeToks (text : List Char) (toks : List WriteTok) : List Char := toks.flatMap (tokBytes text)

/-- the text of a well-formed results file: header line, then one line per row -/
def renderFile (rows : List Row) : List Char :=
  headerLine ++ '\n' :: rows.flatMap (fun r => renderRow r ++ ['\n'])

/-- errors of `_get_results` -/
inductive PErr where
  | keyError     -- a column the code indexes is not in the header
  | typeError    -- short row: `int(None)` / `float(None)`
  | valueError   -- `int("x")`
  deriving DecidableEq, Repr

def PErr.toString : PErr → String
  | .keyError => "keyError"
  | .typeError => "typeError"
  | .valueError => "valueError"

def isDigit (c : Char) : Bool := '0' ≤ c && c ≤ '9'

/-- the texts `str(int)` produces (what `int()` accepts beyond that is outside the model) -/
def isIntText : List Char → Bool
  | [] => false
  | '-' :: ds => !ds.isEmpty && ds.all isDigit
  | ds => ds.all isDigit

/-- index of the last occurrence (DictReader builds `dict(zip(fieldnames, row))`: last wins) -/
def lastIdx (names : List (List Char)) (k : List Char) : Option Nat :=
  let n := (names.reverse.idxOf k)
  if n < names.length then some (names.length - 1 - n) else none

/-- `row[key]` of a DictReader row: `none` = KeyError, `some none` = `restval` (None) -/
def cell (names vals : List (List Char)) (k : Field) : Option (Option (List Char)) :=
  match lastIdx names k.pyName with
  | none => none
  | some i => some vals[i]?

def noneText : List Char := ['N', 'o', 'n', 'e']

/-- one data row of `_get_results`, in the code's evaluation order -/
def parseRow (names : List (List Char)) (line : List Char) : Except PErr Row :=
  let vals := splitOn delimiter line
  match cell names vals .returnCode with
  | none => .error .keyError
  | some none => .error .typeError
  | some (some rc) =>
    if !isIntText rc then .error .valueError else
    match cell names vals .execTime with
    | none => .error .keyError
    | some none => .error .typeError
    | some (some et) =>
      match cell names vals .completionTime with
      | none => .error .keyError
      | some none => .error .typeError
      | some (some ct) =>
        -- deserialize_result: data.get("hpc_job_id") (None and "None" both become None -> "None")
        let hpc := match cell names vals .hpcJobId with
          | some (some h) => h
          | _ => noneText
        match cell names vals .name, cell names vals .status with
        | some n, some st =>
          .ok { name := n.getD noneText, returnCode := rc, status := st.getD noneText,
                execTime := et, completionTime := ct, hpcJobId := hpc }
        | _, _ => .error .keyError

def parseRows (names : List (List Char)) : List (List Char) → Except PErr (List Row)
  | [] => .ok []
  | l :: ls =>
    if l = [] then parseRows names ls   -- csv skips blank lines
    else
      match parseRow names l with
      | .error e => .error e
      | .ok r =>
        match parseRows names ls with
        | .error e => .error e
        | .ok rs => .ok (r :: rs)

/-- `_get_results`: `csv.DictReader` over the text (fields free of quotes and carriage returns) -/
def parseFile (text : List Char) : Except PErr (List Row) :=
  if text = [] then .ok []
  else
    match splitOn '\n' text with
    | [] => .ok []
    | hd :: rest => parseRows (splitOn delimiter hd) rest

/-- rows the byte-level theorems speak about: no delimiter / newline inside an attribute, and the
    return code is the text of an integer -/
def fieldOk (f : List Char) : Prop := delimiter ∉ f ∧ '\n' ∉ f

structure Row.Legal (r : Row) : Prop where
  name : fieldOk r.name
  returnCode : fieldOk r.returnCode
  status : fieldOk r.status
  execTime : fieldOk r.execTime
  completionTime : fieldOk r.completionTime
  hpcJobId : fieldOk r.hpcJobId
  rcInt : isIntText r.returnCode = true

instance (f : List Char) : Decidable (fieldOk f) := by unfold fieldOk; infer_instance

/-! ## File operations, generic in the representation -/

structure FileOps (ρ φ : Type) where
  /-- `_create_files` (mode "w"): header only -/
  create : φ
  /-- `_append_result` on a file that is absent (`none`) or present -/
  appendRow : Option φ → ρ → φ
  /-- `_append_processed_results` on the consolidated file, absent (`none`) or present -/
  appendRows : Option φ → List ρ → φ
  /-- `_get_results` -/
  read : φ → Except PErr (List ρ)

/-- a file = the list of its rows -/
def absOps (ρ : Type) : FileOps ρ (List ρ) where
  create := []
  appendRow f r := (if appendTruncates then [] else f.getD []) ++ [r]
  appendRows f rows := (if processedTruncates then [] else f.getD []) ++ rows
  read f := .ok f

/-- what is in the file when `open(.., mode)` returns -/
def openedBytes (truncates : Bool) (f : Option (List Char)) : List Char :=
  if truncates then [] else f.getD []

/-- a file = its bytes -/
def byteOps : FileOps Row (List Char) where
  create := writeToks [] createWrites
  appendRow f r :=
    let old := openedBytes appendTruncates f
    old ++ (if headerCond old.length then writeToks (renderRow r) headerWrites else [])
        ++ writeToks (renderRow r) rowWrites
  appendRows f rows :=
    let old := openedBytes processedTruncates f
    old ++ (if processedHeaderCond old.length then writeToks [] processedHeaderWrites else [])
        ++ rows.flatMap (fun r => renderRow r ++ ['\n'])
  read := parseFile

/-! ## Processes and state -/

/-- local state of a submitter-round runner -/
inductive Coll (ρ : Type) where
  | idle
  /-- inside `_process_results`, between files: paths still to visit, `results` so far -/
  | collecting (snap : List BatchId) (acc : List ρ)
  /-- inside `_move_results` of batch `b`, parked before the file mutation at the head of `pc` -/
  | moving (b : BatchId) (rest : List BatchId) (acc : List ρ) (buf : List ρ) (pc : List MoveAct)
  deriving DecidableEq, Repr

/-- outcome of a finished `process_results()` call -/
inductive Ret (ρ : Type) where
  | rows (l : List ρ)
  | raised            -- an exception left `process_results` (FileNotFoundError, parse error)
  deriving DecidableEq, Repr

structure State (ρ φ : Type) where
  /-- the consolidated file: absent until `ResultsAggregator.create` / the first write into it -/
  cons : Option φ
  consLock : Option Pid
  /-- node result files: absent / present -/
  node : BatchId → Option φ
  /-- directory listing of `results/`: the batches whose file exists, in creation order -/
  dir : List BatchId
  nodeLock : BatchId → Option Pid
  coll : Pid → Coll ρ
  /-- ghost: every row appended to a node file, with writer and batch -/
  written : List (Wid × BatchId × ρ)
  /-- ghost: every cancel-appended row -/
  canceled : List (Pid × ρ)
  /-- ghost: every `func(results)` call of `_move_results` (collector, batch, rows copied) -/
  moved : List (Pid × BatchId × List ρ)
  /-- ghost: the finished `process_results()` calls, oldest first -/
  returned : List (Pid × Ret ρ)

inductive Op (ρ : Type) where
  | append (w : Wid) (b : BatchId) (r : ρ)
  | beginCollect (p : Pid) (snap : List BatchId)
  | lockFile (p : Pid)
  | moveStep (p : Pid)
  | endCollect (p : Pid)
  | cancelAppend (p : Pid) (r : ρ)
  deriving DecidableEq, Repr

variable {ρ φ : Type}

/-- `created`: `ResultsAggregator.create` has run (the normal flow: `JobSubmitter` creates the
    consolidated file with its header at submission start); `false`: the file does not exist yet -/
def init (F : FileOps ρ φ) (created : Bool := true) : State ρ φ where
  cons := if created then some F.create else none
  consLock := none
  node := fun _ => none
  dir := []
  nodeLock := fun _ => none
  coll := fun _ => .idle
  written := []
  canceled := []
  moved := []
  returned := []

def State.setColl (s : State ρ φ) (p : Pid) (c : Coll ρ) : State ρ φ :=
  { s with coll := fun q => if q = p then c else s.coll q }

def State.setNode (s : State ρ φ) (b : BatchId) (f : Option φ) : State ρ φ :=
  { s with node := fun c => if c = b then f else s.node c }

def State.setNodeLock (s : State ρ φ) (b : BatchId) (h : Option Pid) : State ρ φ :=
  { s with nodeLock := fun c => if c = b then h else s.nodeLock c }

/-- is the lock free for an entry point that takes it (`flag` = it goes through
    `_do_action_under_lock`; if it does not, nothing is waited for) -/
def lockFree (flag : Bool) (holder : Option Pid) : Bool := !flag || holder.isNone

/-- `ResultsAggregator.append(output, r, batch_id=b)` -/
def doAppend (F : FileOps ρ φ) (s : State ρ φ) (w : Wid) (b : BatchId) (r : ρ) : State ρ φ :=
  if lockFree appendUnderLock (s.nodeLock b) then
    { (s.setNode b (some (F.appendRow (s.node b) r))) with
      dir := if (s.node b).isSome then s.dir else s.dir ++ [b]
      written := s.written ++ [(w, b, r)] }
  else s

/-- what `glob` can return: the listing of the directory if the pattern matches node file names -/
def globVisible : Bool :=
  globPrefix.isPrefixOf nodePrefix && globSuffix.isSuffixOf nodeSuffix

def globbed (s : State ρ φ) : List BatchId := if globVisible then s.dir else []

def doBegin (s : State ρ φ) (p : Pid) (snap : List BatchId) : State ρ φ :=
  match s.coll p with
  | .idle =>
    if lockFree processUnderLock s.consLock && snap.isPerm (globbed s) then
      { (s.setColl p (.collecting snap [])) with
        consLock := if processUnderLock then some p else s.consLock }
    else s
  | _ => s

/-- an exception leaves `_move_results`: both `finally: lock.release()` run, the call raises -/
def raiseOut (s : State ρ φ) (p : Pid) (b : BatchId) : State ρ φ :=
  let s1 := if moveUnderLock && releaseInFinally then s.setNodeLock b none else s
  { (s1.setColl p .idle) with
    consLock := if processUnderLock && releaseInFinally then none else s1.consLock
    returned := s1.returned ++ [(p, .raised)] }

/-- `return results` of `_move_results`, release of the node lock, `results += …` -/
def finishMove (s : State ρ φ) (p : Pid) (b : BatchId) (rest : List BatchId) (acc buf : List ρ) :
    State ρ φ :=
  let s1 := if moveUnderLock then s.setNodeLock b none else s
  s1.setColl p (.collecting rest (if processAccumulates then acc ++ buf else buf))

/-- run `_move_results` from the current statement to the next file mutation (or to its end) -/
def settle (F : FileOps ρ φ) (s : State ρ φ) (p : Pid) (b : BatchId) (rest : List BatchId)
    (acc : List ρ) : List ρ → List MoveAct → State ρ φ
  | buf, [] => finishMove s p b rest acc buf
  | _, .read :: pc =>
    match s.node b with
    | none => raiseOut s p b                  -- FileNotFoundError
    | some f =>
      match F.read f with
      | .error _ => raiseOut s p b
      | .ok rows => settle F s p b rest acc rows pc
  | buf, a :: pc => s.setColl p (.moving b rest acc buf (a :: pc))

def doLockFile (F : FileOps ρ φ) (s : State ρ φ) (p : Pid) : State ρ φ :=
  match s.coll p with
  | .collecting (b :: rest) acc =>
    if lockFree moveUnderLock (s.nodeLock b) then
      settle F (if moveUnderLock then s.setNodeLock b (some p) else s) p b rest acc [] moveOrder
    else s
  | _ => s

def doMoveStep (F : FileOps ρ φ) (s : State ρ φ) (p : Pid) : State ρ φ :=
  match s.coll p with
  | .moving b rest acc buf (.append :: pc) =>
    settle F { s with cons := some (F.appendRows s.cons buf), moved := s.moved ++ [(p, b, buf)] } p b rest acc buf pc
  | .moving b rest acc buf (.remove :: pc) =>
    match s.node b with
    | none => raiseOut s p b                  -- FileNotFoundError
    | some _ => settle F { (s.setNode b none) with dir := s.dir.erase b } p b rest acc buf pc
  | .moving b rest acc buf (.read :: pc) => settle F s p b rest acc buf (.read :: pc)
  | _ => s

def doEnd (s : State ρ φ) (p : Pid) : State ρ φ :=
  match s.coll p with
  | .collecting [] acc =>
    { (s.setColl p .idle) with
      consLock := if processUnderLock then none else s.consLock
      returned := s.returned ++ [(p, .rows acc)] }
  | _ => s

/-- `HpcSubmitter._cancel_job`: `aggregator.append_result(row)` on the consolidated file -/
def doCancel (F : FileOps ρ φ) (s : State ρ φ) (p : Pid) (r : ρ) : State ρ φ :=
  match s.coll p with
  | .idle =>
    if lockFree appendUnderLock s.consLock then
      { s with cons := some (F.appendRow s.cons r), canceled := s.canceled ++ [(p, r)] }
    else s
  | _ => s

def step (F : FileOps ρ φ) (s : State ρ φ) : Op ρ → State ρ φ
  | .append w b r => doAppend F s w b r
  | .beginCollect p snap => doBegin s p snap
  | .lockFile p => doLockFile F s p
  | .moveStep p => doMoveStep F s p
  | .endCollect p => doEnd s p
  | .cancelAppend p r => doCancel F s p r

def run (F : FileOps ρ φ) (s : State ρ φ) (ops : List (Op ρ)) : State ρ φ := ops.foldl (step F) s

/-! ## Observations -/

/-- the rows of the consolidated file (none while it does not exist) -/
def consRows (s : State ρ (List ρ)) : List ρ := s.cons.getD []

/-- all rows currently in node files (directory order) -/
def nodeRows (s : State ρ (List ρ)) : List ρ := s.dir.flatMap (fun b => (s.node b).getD [])

def writtenRows (s : State ρ φ) : List ρ := s.written.map (·.2.2)
def canceledRows (s : State ρ φ) : List ρ := s.canceled.map (·.2)
/-- all rows copied into the consolidated file by collections -/
def movedRows (s : State ρ φ) : List ρ := s.moved.flatMap (·.2.2)

def Ret.toRows : Ret ρ → List ρ
  | .rows l => l
  | .raised => []

/-- concatenation of the return values of all finished collections -/
def returnedRows (s : State ρ φ) : List ρ := s.returned.flatMap (·.2.toRows)

/-- has `func(results)` run in the section parked at `pc`? -/
def copied (pc : List MoveAct) : Bool := !pc.contains .append
def removed (pc : List MoveAct) : Bool := !pc.contains .remove

/-- rows a collection in progress will still return -/
def Coll.held : Coll ρ → List ρ
  | .idle => []
  | .collecting _ acc => acc
  | .moving _ _ acc buf pc => if copied pc then acc ++ buf else acc

/-- rows that are momentarily in both the consolidated file and a node file (copied, source not yet removed) -/
def Coll.dup : Coll ρ → List ρ
  | .moving _ _ _ buf pc => if copied pc && !removed pc then buf else []
  | _ => []

/-- rows that are momentarily in no file (source removed before the copy) -/
def Coll.inFlight : Coll ρ → List ρ
  | .moving _ _ _ buf pc => if removed pc && !copied pc then buf else []
  | _ => []

/-- the collector holding the consolidated lock, if any -/
def active (s : State ρ φ) : Coll ρ :=
  match s.consLock with
  | some p => s.coll p
  | none => .idle

end Jade.Results
