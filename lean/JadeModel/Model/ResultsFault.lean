import JadeModel.Model.Results

/-!
Faults and kills on top of `Model/Results.lean` (property C08, the part C11 needs of it): what a
collection (`process_results`) does when a file operation fails with an `OSError` (disk quota
exceeded / I/O error) or when the submitter process is killed between two file operations.

    arm p (fail f)   ONE `OSError` is armed for collector `p`: its next file operation of kind `f`
                     inside a collection raises.  The real propagation follows: the exception leaves
                     `_move_results`, both `finally: lock.release()` run, `process_results` raises to
                     the caller (`raiseOut` of the base model), the rows already moved in this round
                     stay in the consolidated file and are returned to no one.
                       read    `open(node file)` in `_get_results`        nothing changed
                       open    `open(processed_results.csv, "a")`          nothing changed
                       write   the write / flush / close after that open   nothing written; the file
                               succeeded                                    exists now (empty if new)
                       remove  `os.remove(node file)`                      the file stays (its rows are
                                                                           in both files from now on)
    arm p (die d)    the process dies INSIDE its next matching step:
                       opened   after the append-open succeeded, nothing flushed
                       removed  right after `os.remove`, before the node lock is released
    kill p           the process dies at its current yield point (between two steps).  Nothing of the
                     call runs any more: no `finally`, the lock markers it holds stay on disk.
    breakLocks       the markers of dead processes are removed (what a lock library that breaks stale
                     markers, or an operator, does); a dead process never runs again.
    base op          an operation of the base model; a dead process does nothing.

The write of `_append_processed_results` is buffered (a few rows, far below the io buffer), so between
the open and the close nothing is on disk: a failure or a death there leaves the file as the open
left it (`FileOpsX.opened`).  Torn writes of more than a buffer are outside the model.
-/

namespace Jade.Results
open Jade.Gen.Results

/-- file operations of a collection at which an `OSError` can be injected -/
inductive FaultAt where
  | read | open | write | remove
  deriving DecidableEq, Repr

/-- points inside a step (between two yield points) at which the process can die -/
inductive DieAt where
  | opened | removed
  deriving DecidableEq, Repr

inductive Armed where
  | fail (f : FaultAt)
  | die (d : DieAt)
  deriving DecidableEq, Repr

structure FileOpsX (ρ φ : Type) extends FileOps ρ φ where
  /-- the consolidated file when `open(.., processedMode)` has returned and nothing is written yet -/
  opened : Option φ → φ

def absOpsX (ρ : Type) : FileOpsX ρ (List ρ) :=
  { absOps ρ with opened := fun f => if processedTruncates then [] else f.getD [] }

def byteOpsX : FileOpsX Row (List Char) :=
  { byteOps with opened := openedBytes processedTruncates }

structure XState (ρ φ : Type) where
  base : State ρ φ
  /-- killed processes, oldest first -/
  dead : List Pid
  armed : Pid → Option Armed

inductive OpX (ρ : Type) where
  | base (op : Op ρ)
  | arm (p : Pid) (a : Armed)
  | kill (p : Pid)
  | breakLocks
  deriving DecidableEq, Repr

variable {ρ φ : Type}

def initX (F : FileOpsX ρ φ) (created : Bool := true) : XState ρ φ where
  base := init F.toFileOps created
  dead := []
  armed := fun _ => none

/-- the submitter-round process an operation belongs to (job runners are not killed here) -/
def Op.pid : Op ρ → Option Pid
  | .append _ _ _ => none
  | .beginCollect p _ => some p
  | .lockFile p => some p
  | .moveStep p => some p
  | .endCollect p => some p
  | .cancelAppend p _ => some p

def XState.disarm (x : XState ρ φ) (p : Pid) : XState ρ φ :=
  { x with armed := fun q => if q = p then none else x.armed q }

def XState.die (x : XState ρ φ) (p : Pid) : XState ρ φ :=
  { x with dead := if p ∈ x.dead then x.dead else x.dead ++ [p] }

/-- `lockFile` with a read fault armed: the node lock is taken, `_get_results` raises at its `open` -/
def lockFailRead (x : XState ρ φ) (p : Pid) : XState ρ φ :=
  let s := x.base
  match s.coll p, moveOrder with
  | .collecting (b :: _) _, .read :: _ =>
    if lockFree moveUnderLock (s.nodeLock b) then
      { x.disarm p with base := raiseOut (if moveUnderLock then s.setNodeLock b (some p) else s) p b }
    else x
  | _, _ => x

/-- `moveStep` with something armed that matches the file mutation the process is parked at
    (`none`: it does not match, the base step runs) -/
def moveArmed (F : FileOpsX ρ φ) (x : XState ρ φ) (p : Pid) (a : Armed) : Option (XState ρ φ) :=
  let s := x.base
  match s.coll p, a with
  | .moving b _ _ _ (.append :: _), .fail .open =>
    some { x.disarm p with base := raiseOut s p b }
  | .moving b _ _ _ (.append :: _), .fail .write =>
    some { x.disarm p with base := raiseOut { s with cons := some (F.opened s.cons) } p b }
  | .moving _ _ _ _ (.append :: _), .die .opened =>
    some { (x.disarm p).die p with base := { s with cons := some (F.opened s.cons) } }
  | .moving b _ _ _ (.remove :: _), .fail .remove =>
    some { x.disarm p with base := raiseOut s p b }
  | .moving b rest acc buf (.remove :: pc), .die .removed =>
    match s.node b with
    | none => none                  -- FileNotFoundError first: the base step
    | some _ =>
      some { (x.disarm p).die p with
             base := ({ (s.setNode b none) with dir := s.dir.erase b }).setColl p (.moving b rest acc buf pc) }
  | _, _ => none

def stepBase (F : FileOpsX ρ φ) (x : XState ρ φ) (op : Op ρ) : XState ρ φ :=
  let plain : XState ρ φ := { x with base := step F.toFileOps x.base op }
  match op.pid with
  | none => plain
  | some p =>
    if p ∈ x.dead then x
    else
      match op, x.armed p with
      | .lockFile _, some (.fail .read) => lockFailRead x p
      | .moveStep _, some a => (moveArmed F x p a).getD plain
      | _, _ => plain

/-- the markers of dead processes disappear; the dead processes are forgotten -/
def breakLocks (x : XState ρ φ) : XState ρ φ :=
  let s := x.base
  let stale : Option Pid → Bool := fun h => h.any (· ∈ x.dead)
  { x with base := { s with
      consLock := if stale s.consLock then none else s.consLock
      nodeLock := fun b => if stale (s.nodeLock b) then none else s.nodeLock b
      coll := fun p => if p ∈ x.dead then .idle else s.coll p } }

def stepX (F : FileOpsX ρ φ) (x : XState ρ φ) : OpX ρ → XState ρ φ
  | .base op => stepBase F x op
  | .arm p a => if p ∈ x.dead then x else { x with armed := fun q => if q = p then some a else x.armed q }
  | .kill p => x.die p
  | .breakLocks => breakLocks x

def runX (F : FileOpsX ρ φ) (x : XState ρ φ) (ops : List (OpX ρ)) : XState ρ φ := ops.foldl (stepX F) x

end Jade.Results
