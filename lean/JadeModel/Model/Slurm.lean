import JadeModel.Basic
import JadeModel.Gen.Slurm

/-!
Model of the SLURM boundary (property C18):
`SlurmManager._get_statuses_from_output`, `HpcStatusCollector.check_status`,
`AsyncHpcSubmitter.is_complete`, `SlurmManager.submit` (response parsing),
`SlurmManager._create_submission_script_text`, `HpcSubmitter._create_run_script`,
`run_command` (retry loop).
Strings are `List Char` inside the parsers; tables come from `Gen.Slurm`.
-/

namespace Jade.Slurm
open Jade.Gen.Slurm

/-- Python `str.isspace` for a single character (what `str.split()`/`strip()` use). -/
def isPyWs (c : Char) : Bool :=
  let n := c.toNat
  (9 ≤ n && n ≤ 13) || (28 ≤ n && n ≤ 32) || n == 0x85 || n == 0xA0 || n == 0x1680 ||
  (0x2000 ≤ n && n ≤ 0x200A) || n == 0x2028 || n == 0x2029 || n == 0x202F || n == 0x205F ||
  n == 0x3000

/-- `str.split("\n")` -/
def splitNl : List Char → List (List Char)
  | [] => [[]]
  | c :: cs =>
    match splitNl cs with
    | [] => [[]]   -- unreachable
    | l :: ls => if c = '\n' then [] :: l :: ls else (c :: l) :: ls

/-- `str.split()` with no argument: maximal runs of non-whitespace. -/
def splitWs : List Char → List (List Char)
  | [] => []
  | c :: cs =>
    if isPyWs c then splitWs cs
    else
      match cs with
      | [] => [[c]]
      | d :: _ =>
        if isPyWs d then [c] :: splitWs cs
        else
          match splitWs cs with
          | [] => [[c]]  -- unreachable
          | w :: ws => (c :: w) :: ws

/-- One line of `_get_statuses_from_output`: `none` = skipped (empty line),
    `some (error)` = the 2-field assertion failed. -/
def parseLine (line : List Char) : Option (Except Err (String × String)) :=
  if line = [] then none
  else
    match splitWs line with   -- `line.strip().split()` = `line.split()`
    | [a, b] => some (.ok (String.ofList a, String.ofList b))
    | _ => some (.error .assertion)

/-- The list of `(job_id, state word)` pairs in file order; an assertion error if any
    non-empty line does not have exactly two fields. -/
def parseLines : List (List Char) → Except Err (List (String × String))
  | [] => .ok []
  | l :: ls =>
    match parseLine l with
    | none => parseLines ls
    | some (.error e) => .error e
    | some (.ok p) =>
      match parseLines ls with
      | .error e => .error e
      | .ok ps => .ok (p :: ps)

def parseSqueue (text : List Char) : Except Err (List (String × String)) :=
  parseLines (splitNl text)

/-- `_STATUSES.get(word, UNKNOWN)` -/
def statusOf (word : String) : String :=
  match statuses.lookup word with
  | some s => s
  | none => statusDefault

/-- dict semantics: the last assignment for a key wins -/
def lastWord (pairs : List (String × String)) (id : String) : Option String :=
  (pairs.reverse.lookup id)

/-- `HpcStatusCollector.check_status` on a parsed squeue listing -/
def checkStatus (pairs : List (String × String)) (id : String) : String :=
  match lastWord pairs id with
  | some w => statusOf w
  | none => collectorDefault

/-- `AsyncHpcSubmitter.is_complete` (first evaluation; the flag is sticky afterwards) -/
def hpcIsComplete (pairs : List (String × String)) (id : String) : Bool :=
  completeStatuses.contains (checkStatus pairs id)

/-- `check_status` when the status query itself may fail (`queryOk = false`: squeue failed through all
    retries, `check_statuses()` raised ExecutionError).  If the collector swallowed the failure it would
    answer from an empty table — every id would read as the default. -/
def checkStatusQ (queryOk : Bool) (pairs : List (String × String)) (id : String) : Except Err String :=
  if queryOk then .ok (checkStatus pairs id)
  else if collectorPropagatesQueryFailure then .error .execError
  else .ok (checkStatus [] id)

def hpcIsCompleteQ (queryOk : Bool) (pairs : List (String × String)) (id : String) : Except Err Bool :=
  (checkStatusQ queryOk pairs id).map (completeStatuses.contains ·)

/-! ### sbatch response -/

def isAsciiDigit (c : Char) : Bool := '0' ≤ c && c ≤ '9'

def sbatchPrefix : List Char := "Submitted batch job ".toList

/-- leftmost match of `Submitted batch job (\d+)` (ASCII digits): the captured group -/
def parseSbatch : List Char → Option (List Char)
  | [] => none
  | c :: cs =>
    let s := c :: cs
    if sbatchPrefix.isPrefixOf s then
      let rest := s.drop sbatchPrefix.length
      let ds := rest.takeWhile isAsciiDigit
      if ds ≠ [] then some ds else parseSbatch cs
    else parseSbatch cs

inductive SubmitStatus where | good | error deriving DecidableEq, Repr

/-- `SlurmManager.submit` after `run_command` returned `ret` with `stdout` -/
def slurmSubmit (ret : Int) (stdout : List Char) : SubmitStatus × Option (List Char) :=
  if ret = 0 then
    match parseSbatch stdout with
    | some id => (.good, some id)
    | none => (.error, none)
  else (.error, none)

/-! ### submission script and run script -/

structure SlurmCfg where
  account : String
  walltime : String
  /-- values of the optional parameters, by attribute name; `none` = unset -/
  opt : String → Option String

def renderPieces (env : String → String) (ps : List Piece) : String :=
  String.join (ps.map fun
    | .lit s => s
    | .var v => env v)

def scriptEnv (cfg : SlurmCfg) (name script path : String) : String → String
  | "self._config.hpc.account" => cfg.account
  | "self._config.hpc.walltime" => cfg.walltime
  | "name" => name
  | "path" => path
  | "script" => script
  | v => "<unbound:" ++ v ++ ">"

def optEnv (param value : String) : String → String
  | "param" => param
  | "value" => value
  | v => "<unbound:" ++ v ++ ">"

/-- `_create_submission_script_text` -/
def sbatchScript (cfg : SlurmCfg) (name script path : String) : List String :=
  headerLines.map (renderPieces (scriptEnv cfg name script path))
  ++ optionalParams.filterMap (fun p => (cfg.opt p).map fun v => renderPieces (optEnv p v) optionalLine)
  ++ trailerLines.map (renderPieces (scriptEnv cfg name script path))

structure RunOpts where
  distributed : Bool
  numProcs : Option Nat
  verbose : Bool

def runEnv (configFile output dsub : String) (n : String) : String → String
  | "config_file" => configFile
  | "self._output" => output
  | "dsub" => dsub
  | "submission_group.submitter_params.num_parallel_processes_per_node" => n
  | v => "<unbound:" ++ v ++ ">"

/-- `_create_run_script` (singularity disabled): the lines of the script -/
def runScript (configFile output : String) (o : RunOpts) : List String :=
  let dsub := if o.distributed then runDsubTrue else runDsubFalse
  let n := match o.numProcs with | some k => toString k | none => ""
  let env := runEnv configFile output dsub n
  let cmd := renderPieces env runCommand
  let cmd := match o.numProcs with
    | some _ => cmd ++ renderPieces env runNumProcsSuffix
    | none => cmd
  let cmd := if o.verbose then cmd ++ runVerboseSuffix else cmd
  [runShebang, cmd]

/-! ### run_command retry loop -/

/- `run_command`: `outs` is what successive executions would produce (`Attempt.permanent`
    = stderr contains one of the caller's `error_strings`); `hasOutput` says whether the
    caller passed an `output` dict.  Returns the number of executions performed and the
    execution whose return code/output is returned.  `fuel` = remaining iterations of
    `for i in range(max_tries)`; `k` = the loop index. -/

/-- value of `i` at the break test: `max_tries - 1` when the early-exit guard held -/
def retryIdx (numRetries : Nat) (hasOutput : Bool) (k : Nat) (a : Attempt) : Nat :=
  if retryEarly numRetries hasOutput a then numRetries else k

def retryStop (numRetries : Nat) (hasOutput : Bool) (k : Nat) (a : Attempt) : Bool :=
  retryBreak numRetries (retryIdx numRetries hasOutput k a) a

def retryLoop (numRetries : Nat) (hasOutput : Bool) : (fuel : Nat) → (k : Nat) → List Attempt → Nat × Option Attempt
  | 0, k, _ => (k, none)
  | _, k, [] => (k, none)            -- environment supplied too few outcomes
  | fuel + 1, k, a :: rest =>
    if retryStop numRetries hasOutput k a then (k + 1, some a)
    else retryLoop numRetries hasOutput fuel (k + 1) rest

def runCommand' (numRetries : Nat) (hasOutput : Bool) (outs : List Attempt) : Nat × Option Attempt :=
  retryLoop numRetries hasOutput (numRetries + 1) 0 outs

end Jade.Slurm
