import JadeModel.Basic

/-!
# System model: a whole submission as a labelled transition system (DESIGN 4.3)

Processes (submitter rounds on the login node or on compute nodes, node runners, user commands),
the shared files of the output directory, a virtual SLURM, and ghost history.  One `Op` is one
*boundary event* of one process: an action that happens inside a single lock section, or a single
external command / file mutation.  Ops carry the data the environment or the component algorithms
decide (which batch, which rows, which exit code); `step` checks the *guard* the code's mechanisms
enforce and returns `none` when the event could not have been produced by the code.  The
correspondence check replays the event history of real executions through `step` (every event of
the real system must be accepted and the abstract disk must agree with the files), the component
theorems (C07, queue, cluster …) show that the deterministic algorithms satisfy the guards, and the
theorems of `Props/` are invariants of *every* op sequence `step` accepts: all schedules, all crash
points (`kill`), all injected failures (`fail`), all histories.
-/

namespace Jade.Sys

abbrev Pid := Nat
abbrev Hid := Nat
abbrev Bid := Nat

inductive JSt where
  | ns | sub | done
  deriving DecidableEq, Repr

structure Row where
  job : JobId
  rc : Int
  canceled : Bool
  deriving DecidableEq, Repr

/-- a result that does not let flagged dependents run -/
def Row.bad (r : Row) : Bool := r.canceled || r.rc != 0

/-- the static scenario -/
structure Scn where
  n : Nat
  blockers : JobId → List JobId
  flag : JobId → Bool
  /-- the exit code job j's command produces when it runs to its end -/
  rc : JobId → Int
  /-- max_nodes (sys.maxsize when unset) -/
  maxNodes : Nat

/-- `job_status.json` + the counters/flags of `cluster_config.json` -/
structure Status where
  st : JobId → JSt
  blk : JobId → List JobId
  ids : List Hid
  bidx : Nat
  subCnt : Nat
  doneCnt : Nat
  complete : Bool
  canceled : Bool

/-- program counter of a submitter round (initial submit, try-submit-jobs, resubmit's round) -/
inductive SPc where
  | fresh       -- not yet tried to promote
  | loaded      -- promoted: holds the role and a copy of the status
  | collecting  -- inside `_update_completed_jobs` (after the scheduler poll)
  | ready       -- collection finished, marker not yet created
  | marked      -- `submitter.lock` created: may hand batches to the HPC
  | persisted   -- `update_job_status` done (or skipped because nothing changed)
  | unmarked    -- marker removed; completion decided
  | summarized  -- `results.json` written
  | flagged     -- `mark_complete` done
  | failing     -- an exception is propagating; `finally: demote` is next
  | gone        -- demoted / never promoted; about to exit or exited
  deriving DecidableEq, Repr

structure SubP where
  pc : SPc
  /-- in-memory copy of the status (`cluster.job_status`, `cluster.config`) -/
  loc : Status
  /-- HPC-level queue: ids believed active -/
  out : List Hid
  /-- rows seen in the current pass of `_update_completed_jobs` -/
  pass : List Row
  /-- `newly_completed` -/
  newly : List JobId
  /-- `canceled_jobs` -/
  cancels : List JobId
  /-- canceled rows decided in this pass, not yet appended -/
  toCancel : List JobId
  /-- canceled rows appended in this pass (feed the next pass) -/
  cancelRows : List Row
  /-- `submitted_jobs` of this round -/
  pend : List JobId
  /-- `_batch_index` -/
  bidx : Nat
  /-- this process created the marker and has not removed it -/
  hasMarker : Bool
  /-- decision of `_is_complete` -/
  decided : Bool
  /-- it holds the cancel-jobs role (never submits) -/
  isCancel : Bool

/-- node runner of one batch -/
structure NodeP where
  bid : Bid
  hid : Hid
  /-- jobs not yet started nor canceled, with their remaining in-queue blockers -/
  queued : List JobId
  nblk : JobId → List JobId
  /-- started, process not yet reaped (row not yet written) -/
  running : List JobId
  /-- rows this node wrote (exit code seen / canceled) -/
  seen : List Row
  workers : Nat

inductive Proc where
  | none
  | sub (alive : Bool) (p : SubP)
  | node (alive : Bool) (p : NodeP)

inductive BSt where
  | pending | running | ended
  deriving DecidableEq, Repr

structure Batch where
  bid : Bid
  owner : Pid
  jobs : List JobId
  handed : JobId → List JobId
  /-- `none`: sbatch failed, the batch never exists on the HPC -/
  hid : Option Hid

structure Sys where
  sc : Scn
  disk : Status
  /-- `submitter` field of cluster_config.json (abstractly: the pid that wrote it) -/
  submitter : Option Pid
  marker : Bool
  processed : List Row
  nodeFile : Bid → List Row
  procs : Pid → Proc
  slurm : Hid → Option BSt
  -- ghost history
  batches : List Batch
  /-- (job, HPC id of the node that started it) -/
  starts : List (JobId × Hid)
  /-- the submission was complete when `results.json` was last written -/
  summaries : Nat
  completions : Nat
  /-- a batch was handed to the HPC after the cancel flag was on disk / after completion -/
  lateSbatch : Bool

/-! ### helpers -/

def allRows (s : Sys) : List Row :=
  s.processed ++ (s.batches.flatMap fun b => s.nodeFile b.bid)

def hasRow (s : Sys) (j : JobId) : Prop := ∃ r ∈ allRows s, r.job = j

def setProc (s : Sys) (p : Pid) (x : Proc) : Sys :=
  { s with procs := fun q => if q = p then x else s.procs q }

def getSub (s : Sys) (p : Pid) : Option SubP :=
  match s.procs p with
  | .sub true x => some x
  | _ => none

def getNode (s : Sys) (p : Pid) : Option NodeP :=
  match s.procs p with
  | .node true x => some x
  | _ => none

def setSub (s : Sys) (p : Pid) (x : SubP) : Sys := setProc s p (.sub true x)
def setNode (s : Sys) (p : Pid) (x : NodeP) : Sys := setProc s p (.node true x)

def activeB (s : Sys) (h : Hid) : Bool :=
  match s.slurm h with
  | some .pending => true
  | some .running => true
  | _ => false

/-- the fields a fresh in-memory copy gets -/
def SubP.load (st : Status) (isCancel : Bool) : SubP :=
  { pc := .loaded, loc := st, out := st.ids, pass := [], newly := [], cancels := [], toCancel := [],
    cancelRows := [], pend := [], bidx := st.bidx, hasMarker := false, decided := false,
    isCancel := isCancel }

/-- `_update_job_status`: the status written by a round -/
def persistStatus (x : SubP) : Status :=
  { x.loc with
    st := fun j => if j ∈ x.pend then .sub else if j ∈ x.newly then .done else x.loc.st j,
    blk := fun j => if j ∈ x.pend ∨ j ∈ x.newly then [] else
                      (match x.loc.st j with | .ns => x.loc.blk j | _ => []),
    ids := x.out,
    bidx := x.bidx,
    subCnt := x.loc.subCnt + x.pend.length + x.cancels.length,
    doneCnt := x.loc.doneCnt + x.newly.length }

/-- `_is_complete` on the in-memory copy: all done, or forced when no batch is active -/
def isCompleteDecision (n : Nat) (st : Status) : Bool :=
  (List.range n).all (fun j => st.st j == .done) || st.ids.isEmpty

/-! ### operations -/

inductive Op where
  -- submitter rounds ---------------------------------------------------------------------
  /-- a process starts (`spawn`); `isCancel` = it is cancel-jobs -/
  | spawnSub (p : Pid) (isCancel : Bool)
  /-- `_deserialize` + `_promote_to_submitter` under the cluster lock -/
  | promote (p : Pid)
  /-- scheduler poll: `gone` = persisted ids the scheduler no longer lists as active -/
  | poll (p : Pid) (gone : List Hid)
  /-- one `_move_results`: the rows of node file `b` move to the consolidated file -/
  | collectFile (p : Pid) (b : Bid)
  /-- a collector that dies or fails between the copy and the removal inside `_move_results`: the rows
      are in the consolidated file AND still in the node file -/
  | collectCopy (p : Pid) (b : Bid)
  /-- end of one pass of `_update_completed_jobs`; `ks` = the jobs it cancels -/
  | passEnd (p : Pid) (ks : List JobId)
  /-- `_cancel_job`'s row is appended to the consolidated file -/
  | cancelRow (p : Pid) (j : JobId)
  /-- the pass after which nothing was canceled ends the loop -/
  | collectDone (p : Pid)
  | mark (p : Pid)
  /-- one batch: written to disk and passed to `sbatch`; `hid = none`: sbatch failed -/
  | sbatch (p : Pid) (jobs : List JobId) (hid : Option Hid)
  | persist (p : Pid)
  /-- the two halves of `persist`, for histories in which the process dies between the files -/
  | persistCfg (p : Pid)
  | persistJobs (p : Pid)
  /-- `_update_status` skipped because nothing changed -/
  | skipPersist (p : Pid)
  /-- `_is_complete` then `os.remove(lock_file)` -/
  | unmark (p : Pid)
  | summary (p : Pid)
  | flag (p : Pid)
  | demote (p : Pid)
  | exit (p : Pid)
  /-- an exception (injected failure, failed external command, assertion) in process `p` -/
  | fail (p : Pid)
  -- cancel-jobs --------------------------------------------------------------------------
  | scancel (p : Pid) (h : Hid)
  | markCanceled (p : Pid)
  -- the scheduler and the nodes ----------------------------------------------------------
  /-- the batch starts: node runner `p` reads its batch file -/
  | startBatch (h : Hid) (p : Pid) (workers : Nat)
  | nodeStart (p : Pid) (j : JobId)
  /-- the process of `j` exited and `_complete` appended its row -/
  | nodeRow (p : Pid) (j : JobId)
  /-- `cancel()` appended a canceled row for queued job `j` -/
  | nodeCancel (p : Pid) (j : JobId)
  /-- the node runner ends (after its try-submit-jobs child, not modelled as part of it) -/
  | nodeEnd (p : Pid)
  -- faults ---------------------------------------------------------------------------------
  | kill (p : Pid)
  /-- the batch dies (node lost, wall-time, scancel'ed while pending) -/
  | batchLost (h : Hid)

/-- names of blockers of `j` that are bad in `rows` -/
def badIn (rows : List Row) (j : JobId) : Bool := rows.any (fun r => r.job == j && r.bad)

def subsetL (a b : List JobId) : Bool := a.all (b.contains ·)

/-- the cancel decision of one pass: exactly the NOT_SUBMITTED flagged jobs with a remaining
    blocker that failed in this pass (failed rows collected, canceled rows of the last pass) -/
def mustCancel (sc : Scn) (x : SubP) (j : JobId) : Bool :=
  x.loc.st j == .ns && !(x.loc.blk j).isEmpty && sc.flag j &&
    (x.loc.blk j).any (fun b => badIn x.pass b)

/-- `ks` is exactly the set of jobs the pass cancels -/
def cancelSetOk (sc : Scn) (x : SubP) (ks : List JobId) : Bool :=
  ks.all (fun j => decide (j < sc.n) && mustCancel sc x j) &&
  (List.range sc.n).all (fun j => !mustCancel sc x j || ks.contains j)

/-- the id `sbatch` returned is new -/
def freshHid (s : Sys) (x : SubP) : Option Hid → Bool
  | some h => (s.slurm h).isNone && !x.out.contains h
  | none => true

def step (s : Sys) : Op → Option Sys
  | .spawnSub p isCancel =>
    match s.procs p with
    | .none =>
      some (setSub s p { SubP.load s.disk isCancel with pc := .fresh })
    | _ => none
  | .promote p =>
    match getSub s p with
    | some x =>
      if x.pc = .fresh then
        match s.submitter with
        | some _ =>
          -- refused, nothing changes; cancel-jobs sleeps and retries, try-submit-jobs gives up
          some (setSub s p { x with pc := if x.isCancel then .fresh else .gone })
        | none =>
          if s.disk.complete then
            -- try-submit-jobs / cancel-jobs: promoted, sees completion, demotes right away
            some (setSub { s with submitter := some p } p { SubP.load s.disk x.isCancel with pc := .unmarked, decided := false })
          else
            some (setSub { s with submitter := some p } p (SubP.load s.disk x.isCancel))
      else none
    | none => none
  | .poll p gone =>
    match getSub s p with
    | some x =>
      -- truthful squeue: a batch the scheduler still runs is always listed
      -- …and a batch that has ended is no longer listed as active (not listed, or a finished word)
      if x.pc = .loaded ∧ !x.isCancel ∧ gone.all (fun h => !activeB s h) ∧
          x.out.all (fun h => activeB s h || gone.contains h) then
        some (setSub s p { x with pc := .collecting, out := x.out.filter (fun h => !gone.contains h) })
      else none
    | none => none
  | .collectFile p b =>
    match getSub s p with
    | some x =>
      if (x.pc = .collecting ∨ (x.pc = .loaded ∧ x.out = [])) ∧ !x.isCancel then
        some (setSub { s with processed := s.processed ++ s.nodeFile b,
                              nodeFile := fun c => if c = b then [] else s.nodeFile c } p
          { x with pc := .collecting, pass := x.pass ++ s.nodeFile b })
      else none
    | none => none
  | .collectCopy p b =>
    match getSub s p with
    | some x =>
      if (x.pc = .collecting ∨ (x.pc = .loaded ∧ x.out = [])) ∧ !x.isCancel then
        some (setSub { s with processed := s.processed ++ s.nodeFile b } p { x with pc := .failing })
      else none
    | none => none
  | .passEnd p ks =>
    match getSub s p with
    | some x =>
      if (x.pc = .collecting ∨ (x.pc = .loaded ∧ x.out = [])) ∧ !x.isCancel ∧ x.toCancel = [] ∧
          ks.Nodup ∧ cancelSetOk s.sc x ks then
        let newly := x.newly ++ (x.pass.map (·.job)).filter (fun j => !x.newly.contains j)
        let names := x.pass.map (·.job)
        some (setSub s p { x with
          pc := .collecting,
          newly := newly,
          loc := { x.loc with
            st := fun j => if j ∈ ks then .done else x.loc.st j,
            blk := fun j => if j ∈ ks then [] else
              (match x.loc.st j with
               | .ns => (x.loc.blk j).filter (fun b => !names.contains b && !x.newly.contains b)
               | _ => x.loc.blk j) },
          cancels := x.cancels ++ ks,
          toCancel := ks,
          pass := [],
          cancelRows := [] })
      else none
    | none => none
  | .cancelRow p j =>
    match getSub s p with
    | some x =>
      match x.toCancel with
      | k :: rest =>
        if x.pc = .collecting ∧ k = j then
          let r : Row := { job := j, rc := 1, canceled := true }
          some (setSub { s with processed := s.processed ++ [r] } p
            { x with toCancel := rest, pass := x.pass ++ [r] })
        else none
      | [] => none
    | none => none
  | .collectDone p =>
    match getSub s p with
    | some x =>
      if x.pc = .collecting ∧ x.toCancel = [] ∧ x.pass = [] then
        some (setSub s p { x with pc := .ready })
      else none
    | none => none
  | .mark p =>
    match getSub s p with
    | some x =>
      if x.pc = .ready ∧ !s.marker then
        some (setSub { s with marker := true } p { x with pc := .marked, hasMarker := true })
      else none
    | none => none
  | .sbatch p jobs hid =>
    match getSub s p with
    | some x =>
      if x.pc = .marked ∧ !x.loc.canceled ∧ jobs ≠ [] ∧ jobs.Nodup ∧
          x.out.length < s.sc.maxNodes ∧
          (∀ j ∈ jobs, x.loc.st j = .ns ∧ j ∉ x.pend ∧
            (∀ b ∈ x.loc.blk j, b ∈ jobs) ∧ j < s.sc.n) ∧
          freshHid s x hid then
        let b : Batch := { bid := x.bidx, owner := p, jobs := jobs, handed := x.loc.blk, hid := hid }
        let s' := { s with batches := s.batches ++ [b],
                           slurm := fun h => if hid = some h then some .pending else s.slurm h,
                           lateSbatch := s.lateSbatch || s.disk.canceled || s.disk.complete }
        some (setSub s' p { x with pend := x.pend ++ jobs, bidx := x.bidx + 1,
                                   out := match hid with | some h => x.out ++ [h] | none => x.out })
      else none
    | none => none
  | .persist p =>
    match getSub s p with
    | some x =>
      if x.pc = .marked then
        some (setSub { s with disk := persistStatus x } p
          { x with pc := .persisted, loc := persistStatus x, pend := [], newly := [], cancels := [] })
      else none
    | none => none
  | .persistCfg p =>
    match getSub s p with
    | some x =>
      if x.pc = .marked then
        some (setSub { s with disk := { s.disk with subCnt := (persistStatus x).subCnt, doneCnt := (persistStatus x).doneCnt } } p
          { x with loc := { x.loc with subCnt := (persistStatus x).subCnt, doneCnt := (persistStatus x).doneCnt },
                   cancels := [] , pc := .failing })
      else none
    | none => none
  | .persistJobs p =>
    match getSub s p with
    | some x =>
      -- only after `persistCfg` (which parks the process in `failing`: it will not act again)
      if x.pc = .failing then
        some (setSub { s with disk := { persistStatus x with subCnt := s.disk.subCnt, doneCnt := s.disk.doneCnt } } p
          { x with loc := { persistStatus x with subCnt := s.disk.subCnt, doneCnt := s.disk.doneCnt },
                   pend := [], newly := [] })
      else none
    | none => none
  | .skipPersist p =>
    match getSub s p with
    | some x =>
      if x.pc = .marked ∧ x.pend = [] ∧ x.newly = [] ∧ x.out = x.loc.ids then
        some (setSub s p { x with pc := .persisted })
      else none
    | none => none
  | .unmark p =>
    match getSub s p with
    | some x =>
      if x.pc = .persisted ∧ x.hasMarker then
        some (setSub { s with marker := false } p
          { x with pc := .unmarked, hasMarker := false, decided := isCompleteDecision s.sc.n x.loc })
      else none
    | none => none
  | .summary p =>
    match getSub s p with
    | some x =>
      if x.pc = .unmarked ∧ x.decided then
        some (setSub { s with summaries := s.summaries + 1 } p { x with pc := .summarized })
      else none
    | none => none
  | .flag p =>
    match getSub s p with
    | some x =>
      if x.pc = .summarized ∧ !s.disk.complete then
        some (setSub { s with disk := { s.disk with complete := true }, completions := s.completions + 1 } p
          { x with pc := .flagged, loc := { x.loc with complete := true } })
      else none
    | none => none
  | .demote p =>
    match getSub s p with
    | some x =>
      -- `finally: demote`: from a finished round, after an exception, or the early exit on completion
      if (x.pc = .unmarked ∧ !x.decided) ∨ x.pc = .flagged ∨ x.pc = .failing then
        if s.submitter = some p then
          some (setSub { s with submitter := none } p { x with pc := .gone, hasMarker := false, pend := [] })
        else none
      else none
    | none => none
  | .exit p =>
    match s.procs p with
    | .sub true x => if x.pc = .gone then some (setProc s p (.sub false x)) else none
    | _ => none
  | .fail p =>
    match getSub s p with
    | some x =>
      if x.pc = .fresh ∨ x.pc = .gone then some (setSub s p { x with pc := .gone })
      else some (setSub s p { x with pc := .failing })
    | none => none
  | .scancel p h =>
    match getSub s p with
    | some x =>
      -- cancel-jobs walks the persisted ids; each is asked to be canceled once
      if x.pc = .loaded ∧ x.isCancel ∧ h ∈ x.out then
        some { s with slurm := fun k => if k = h then (match s.slurm h with | some _ => some .ended | none => none) else s.slurm k,
                      procs := fun q =>
                        if q = p then .sub true { x with out := x.out.filter (· != h) }
                        else match s.procs q with
                          | .node true n => if n.hid = h then .node false n else s.procs q
                          | other => other }
      else none
    | none => none
  | .markCanceled p =>
    match getSub s p with
    | some x =>
      -- …and only then is the submission marked canceled
      if x.pc = .loaded ∧ x.isCancel ∧ x.out = [] then
        some (setSub { s with disk := { s.disk with canceled := true } } p
          { x with pc := .unmarked, decided := false, loc := { x.loc with canceled := true } })
      else none
    | none => none
  | .startBatch h p workers =>
    match s.procs p, s.slurm h with
    | .none, some .pending =>
      match s.batches.find? (fun b => b.hid == some h) with
      | some b =>
        some (setNode { s with slurm := fun k => if k = h then some .running else s.slurm k } p
          { bid := b.bid, hid := h, queued := b.jobs, nblk := b.handed, running := [], seen := [],
            workers := workers })
      | none => none
    | _, _ => none
  | .nodeStart p j =>
    match getNode s p with
    | some n =>
      if j ∈ n.queued ∧ n.nblk j = [] ∧ n.running.length < n.workers then
        some (setNode { s with starts := s.starts ++ [(j, n.hid)] } p
          { n with queued := n.queued.filter (· != j), running := n.running ++ [j] })
      else none
    | none => none
  | .nodeRow p j =>
    match getNode s p with
    | some n =>
      if j ∈ n.running then
        let r : Row := { job := j, rc := s.sc.rc j, canceled := false }
        some (setNode { s with nodeFile := fun c => if c = n.bid then s.nodeFile c ++ [r] else s.nodeFile c } p
          { n with running := n.running.filter (· != j), seen := n.seen ++ [r],
                   -- unflagged (or not yet doomed) dependents lose the blocker; flagged dependents of a
                   -- failed job keep it until `nodeCancel` removes them from the queue
                   nblk := fun k => if r.bad && s.sc.flag k then n.nblk k else (n.nblk k).filter (· != j) })
      else none
    | none => none
  | .nodeCancel p j =>
    match getNode s p with
    | some n =>
      if j ∈ n.queued ∧ s.sc.flag j ∧ (n.nblk j).any (fun b => badIn n.seen b) then
        let r : Row := { job := j, rc := 1, canceled := true }
        some (setNode { s with nodeFile := fun c => if c = n.bid then s.nodeFile c ++ [r] else s.nodeFile c } p
          { n with queued := n.queued.filter (· != j), seen := n.seen ++ [r],
                   nblk := fun k => if s.sc.flag k then n.nblk k else (n.nblk k).filter (· != j) })
      else none
    | none => none
  | .nodeEnd p =>
    match s.procs p with
    | .node true n =>
      if n.queued = [] ∧ n.running = [] then
        some { s with procs := fun q => if q = p then .node false n else s.procs q,
                      slurm := fun k => if k = n.hid then some .ended else s.slurm k }
      else none
    | _ => none
  | .kill p =>
    match s.procs p with
    | .sub true x => some (setProc s p (.sub false x))
    | .node true n =>
      some { s with procs := fun q => if q = p then .node false n else s.procs q,
                    slurm := fun k => if k = n.hid then some .ended else s.slurm k }
    | _ => none
  | .batchLost h =>
    match s.slurm h with
    | some .pending => some { s with slurm := fun k => if k = h then some .ended else s.slurm k }
    | _ => none

def init (sc : Scn) : Sys :=
  let st : Status := { st := fun _ => .ns, blk := sc.blockers, ids := [], bidx := 1, subCnt := 0,
                       doneCnt := 0, complete := false, canceled := false }
  { sc := sc, disk := st, submitter := none, marker := false, processed := [], nodeFile := fun _ => [],
    procs := fun _ => .none, slurm := fun _ => none, batches := [], starts := [], summaries := 0,
    completions := 0, lateSbatch := false }

def run (s : Sys) : List Op → Option Sys
  | [] => some s
  | op :: ops => match step s op with
    | some s' => run s' ops
    | none => none

end Jade.Sys
