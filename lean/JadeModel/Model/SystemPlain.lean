import JadeModel.Model.System

/-!
# Fault-free executions of the system model

`Jade.Sys.step` accepts every boundary event that is *safe*; liveness-flavoured facts ("a completed
fault-free submission has no missing job") need two things the real code also does in every round and
that the history replay checks on fault-free executions (modes plain/busy of the system suite):

* `collectedAll`: when a pass of `_update_completed_jobs` ends — and when the loop ends, which the code
  does only after at least one pass (`need_to_rerun = True` initially) — the result file of every batch
  this round no longer believes active has been moved (`ResultsAggregator.process_results` globs all
  files, and a batch the scheduler poll reported as ended wrote its last row before it ended);
* `roundDone`: when the round persists, every NOT_SUBMITTED job without remaining blockers was handed
  over in this round, unless the node limit is reached (C07 `submitLoop_unblocked`).

`stepP` = `step` restricted to fault-free operations satisfying these; `runP_run` transfers every
invariant of `run` to `runP`.
-/

namespace Jade.Sys

/-- crashes, write failures, lost batches, failed sbatch — and cancel-jobs (outside C03/C05's scope) -/
def Op.faulty : Op → Bool
  | .collectCopy _ _ => true
  | .persistCfg _ => true
  | .persistJobs _ => true
  | .kill _ => true
  | .fail _ => true
  | .batchLost _ => true
  | .sbatch _ _ none => true
  | .spawnSub _ true => true
  | .scancel _ _ => true
  | .markCanceled _ => true
  | _ => false

/-- every batch this round does not (any longer) believe active has no uncollected rows -/
def collectedAll (s : Sys) (x : SubP) : Bool :=
  s.batches.all fun B => match B.hid with
    | some h => x.out.contains h || (s.nodeFile B.bid).isEmpty
    | none => true

/-- every unblocked NOT_SUBMITTED job was handed over in this round, or the node limit is reached -/
def roundDone (sc : Scn) (x : SubP) : Bool :=
  decide (sc.maxNodes ≤ x.out.length) ||
  (List.range sc.n).all fun j => !(x.loc.st j == .ns && (x.loc.blk j).isEmpty) || x.pend.contains j

def extraGuard (s : Sys) (op : Op) : Bool :=
  !op.faulty &&
  match op with
  | .passEnd p _ => (match getSub s p with | some x => collectedAll s x | none => true)
  | .collectDone p => (match getSub s p with | some x => collectedAll s x | none => true)
  | .persist p => (match getSub s p with | some x => roundDone s.sc x | none => true)
  | .skipPersist p => (match getSub s p with | some x => roundDone s.sc x | none => true)
  | _ => true

def stepP (s : Sys) (op : Op) : Option Sys := if extraGuard s op then step s op else none

def runP (s : Sys) : List Op → Option Sys
  | [] => some s
  | op :: ops => match stepP s op with
    | some s' => runP s' ops
    | none => none

theorem stepP_step {s s' : Sys} {op : Op} (h : stepP s op = some s') : step s op = some s' := by
  unfold stepP at h
  split at h
  · exact h
  · cases h

theorem stepP_guard {s s' : Sys} {op : Op} (h : stepP s op = some s') : extraGuard s op = true := by
  unfold stepP at h
  split at h
  · assumption
  · cases h

/-- a fault-free execution is an execution: every invariant proved for `run` holds along `runP` -/
theorem runP_run {s s' : Sys} (ops : List Op) (h : runP s ops = some s') : run s ops = some s' := by
  induction ops generalizing s with
  | nil => simpa [runP, run] using h
  | cons op ops ih =>
    simp only [runP] at h
    split at h
    · next s1 hs => simp only [run, stepP_step hs]; exact ih h
    · cases h

end Jade.Sys
