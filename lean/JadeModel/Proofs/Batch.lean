import JadeModel.Model.Batch

/-! Invariants of `_make_batch` / `_submit_batches` (C01, C02, C05, C07 component level). -/

namespace Jade.Batch
open Jade.Gen.Batch

/-! ### generated predicates in plain terms (one lemma each) -/

theorem cursorBump_iff (i : Nat) (hi : Int) : cursorBump i hi = true ↔ hi < (i : Int) := by
  simp [cursorBump]

theorem cursorRollback_imp (i : Nat) (hi : Int) (h : cursorRollback i hi = true) : hi = (i : Int) := by
  simpa [cursorRollback] using h

theorem skipBatched_eq (b : Bool) : skipBatched b = b := rfl

theorem batchDone_ready (n m : Nat) : batchDone true n m = true := by simp [batchDone]

theorem batchDone_all (r : Bool) (n : Nat) : batchDone r n n = true := by simp [batchDone]

theorem allChecked_iff (hi : Int) (n : Nat) : allChecked hi n = true ↔ hi = (n : Int) - 1 := by
  simp [allChecked]

theorem isJobBlocked_false (bl : List Nat) (t : Bool) (names : List Nat)
    (h : isJobBlocked bl t names = false) :
    bl = [] ∨ (t = true ∧ ∀ x ∈ bl, x ∈ names) := by
  unfold isJobBlocked at h
  split at h
  · next h1 => left; simpa using h1
  · split at h
    · next h2 =>
      right
      simp only [Bool.and_eq_true] at h2
      exact ⟨h2.1, (subsetB_iff _ _).1 h2.2⟩
    · cases h

theorem isJobBlocked_nil (t : Bool) (names : List Nat) : isJobBlocked [] t names = false := by
  simp [isJobBlocked]

theorem tryAppendReject_iff (tb : Bool) (time est mx : Nat) :
    tryAppendReject tb time est mx = true ↔ (tb = true ∧ mx < time + 60 * est) := by
  simp [tryAppendReject]

theorem appendTimeInc_eq (e : Nat) : appendTimeInc e = 60 * e := rfl

theorem appendReady_iff (tb : Bool) (n bs : Nat) :
    appendReady tb n bs = true ↔ (tb = false ∧ bs ≤ n) := by
  cases tb <;> simp [appendReady]

theorem queueFull_iff (o d : Nat) : queueFull o d = true ↔ d ≤ o := by simp [queueFull]

theorem submitLoopGuard_iff (f : Bool) (a : List Nat) :
    submitLoopGuard f a = true ↔ (f = false ∧ a ≠ []) := by
  cases f <;> cases a <;> simp [submitLoopGuard]

theorem batchNonEmpty_iff (n : Nat) : batchNonEmpty n = true ↔ 0 < n := by simp [batchNonEmpty]

theorem maxIterations_pos (t : Bool) (n : Nat) (h : 0 < n) : 0 < maxIterations t n := by
  unfold maxIterations; split <;> omega

/-! ### tryAppend -/

theorem tryAppend_true (p : Params) (b b' : BState) (c : Cand) (h : tryAppend p b c = (b', true)) :
    b' = appendJob p b c ∧ tryAppendReject p.timeBased b.time c.est p.maxTime = false := by
  unfold tryAppend at h
  split at h
  · cases h
  · next hr => cases h; exact ⟨rfl, by simpa using hr⟩

theorem tryAppend_false (p : Params) (b b' : BState) (c : Cand) (h : tryAppend p b c = (b', false)) :
    b' = { b with ready := true } ∧ tryAppendReject p.timeBased b.time c.est p.maxTime = true := by
  unfold tryAppend at h
  split at h
  · next hr => cases h; exact ⟨rfl, hr⟩
  · cases h

/-! ### the loop invariant of `_make_batch` -/

def timeOf (jobs : List Cand) : Nat := (jobs.map (fun c => 60 * c.est)).sum

structure Core (p : Params) (avail : List Cand) (s : MState) : Prop where
  idx : ∀ c ∈ s.b.jobs, ∃ k : Nat, avail[k]? = some c ∧ (k : Int) ≤ s.hi
  nodup : (s.b.jobs.map (·.id)).Nodup
  time : p.timeBased = true → s.b.time = timeOf s.b.jobs ∧ s.b.time ≤ p.maxTime
  size : p.timeBased = false → s.b.jobs.length ≤ max 1 p.batchSize ∧
    (s.b.ready = false → s.b.jobs.length < p.batchSize ∨ s.b.jobs = [])
  blk : ∀ c ∈ s.b.jobs, c.blockedBy = [] ∨ (p.tryAdd = true ∧ ∀ x ∈ c.blockedBy, x ∈ s.b.names)
  hiLo : -1 ≤ s.hi
  hiHi : s.hi < (avail.length : Int)
  blocked : ∀ c ∈ s.blocked, c ∈ avail ∧ c.id ∉ s.b.names

/-- the loop invariant: `Core` plus "a ready batch ends the loops" -/
def Good (p : Params) (avail : List Cand) (s : MState) : Prop :=
  Core p avail s ∧ (s.b.ready = true → s.done = true)

theorem good_init (p : Params) (avail : List Cand) : Good p avail .init := by
  refine ⟨?_, by simp [MState.init, BState.empty]⟩
  constructor <;> simp [MState.init, BState.empty, timeOf, BState.names]
  omega

theorem bump_core {p avail s} (i : Nat) (hi : i < avail.length) (h : Core p avail s) :
    Core p avail (bump i s) ∧ (i : Int) ≤ (bump i s).hi ∧ (bump i s).b = s.b ∧
      (bump i s).blocked = s.blocked ∧ (bump i s).done = s.done := by
  unfold bump
  split
  · next hb =>
    have hlt := (cursorBump_iff i s.hi).1 hb
    refine ⟨⟨?_, h.nodup, h.time, h.size, h.blk, by show (-1 : Int) ≤ (i : Int); omega, by show (i : Int) < _; omega, h.blocked⟩,
      by simp, rfl, rfl, rfl⟩
    intro c hc
    obtain ⟨k, hk, hle⟩ := h.idx c hc
    exact ⟨k, hk, by simp; omega⟩
  · next hb =>
    have : ¬ s.hi < (i : Int) := fun hh => hb ((cursorBump_iff i s.hi).2 hh)
    exact ⟨h, by omega, rfl, rfl, rfl⟩

theorem markBlocked_core {p avail s} (c : Cand) (hc : c ∈ avail) (hn : c.id ∉ s.b.names)
    (h : Core p avail s) : Core p avail (markBlocked c s) := by
  unfold markBlocked
  split
  · exact h
  · refine ⟨h.idx, h.nodup, h.time, h.size, h.blk, h.hiLo, h.hiHi, ?_⟩
    intro d hd
    simp only [List.mem_append, List.mem_singleton] at hd
    rcases hd with hd | hd
    · exact h.blocked d hd
    · subst hd; exact ⟨hc, hn⟩

theorem markDone_good {p avail s} (n : Nat) (h : Core p avail s) : Good p avail (markDone n s) := by
  unfold markDone
  split
  · exact ⟨⟨h.idx, h.nodup, h.time, h.size, h.blk, h.hiLo, h.hiHi, h.blocked⟩, fun _ => rfl⟩
  · next hd =>
    refine ⟨h, ?_⟩
    intro hrd
    rw [hrd, batchDone_ready] at hd
    exact absurd rfl hd

/-- placing an accepted candidate -/
theorem place_core {p avail s} (i : Nat) (c : Cand) (hget : avail[i]? = some c)
    (hile : (i : Int) ≤ s.hi) (hn : c.id ∉ s.b.names) (hnr : s.b.ready = false)
    (hunb : isJobBlocked c.blockedBy p.tryAdd s.b.names = false)
    (hrej : tryAppendReject p.timeBased s.b.time c.est p.maxTime = false)
    (h : Core p avail s) :
    Core p avail (place (appendJob p s.b c) c s) := by
  constructor
  · -- idx
    intro d hd
    simp only [place, appendJob, List.mem_append, List.mem_singleton] at hd
    rcases hd with hd | hd
    · exact h.idx d hd
    · subst hd; exact ⟨i, hget, hile⟩
  · -- nodup
    simp only [place, appendJob, List.map_append, List.map_cons, List.map_nil]
    rw [List.nodup_append]
    refine ⟨h.nodup, by simp, ?_⟩
    intro a ha b hb
    simp only [List.mem_singleton] at hb
    subst hb
    intro heq; subst heq
    exact hn ha
  · -- time
    intro htb
    obtain ⟨h1, h2⟩ := h.time htb
    have hnr' : ¬ (p.timeBased = true ∧ p.maxTime < s.b.time + 60 * c.est) := by
      intro hh; have := (tryAppendReject_iff _ _ _ _).2 hh; rw [hrej] at this; cases this
    simp only [place, appendJob, htb, if_true, appendTimeInc_eq, timeOf, List.map_append,
      List.sum_append, List.map_cons, List.map_nil, List.sum_cons, List.sum_nil]
    simp only [timeOf] at h1
    constructor
    · omega
    · have : ¬ p.maxTime < s.b.time + 60 * c.est := fun hh => hnr' ⟨htb, hh⟩
      omega
  · -- size
    intro htb
    obtain ⟨h1, h2⟩ := h.size htb
    have h2' := h2 hnr
    simp only [place, appendJob, List.length_append, List.length_cons, List.length_nil, hnr,
      Bool.false_or]
    constructor
    · rcases h2' with h2' | h2'
      · omega
      · simp [h2']; omega
    · intro hrd
      left
      have : ¬ (p.timeBased = false ∧ p.batchSize ≤ s.b.jobs.length + 1) := by
        intro hh; have := (appendReady_iff _ _ _).2 hh; rw [hrd] at this; cases this
      have : ¬ p.batchSize ≤ s.b.jobs.length + 1 := fun hh => this ⟨htb, hh⟩
      omega
  · -- blk
    intro d hd
    simp only [place, appendJob, List.mem_append, List.mem_singleton] at hd
    simp only [place, appendJob, BState.names, List.map_append, List.mem_append]
    rcases hd with hd | hd
    · rcases h.blk d hd with hb | ⟨ht, hb⟩
      · exact Or.inl hb
      · exact Or.inr ⟨ht, fun x hx => Or.inl (hb x hx)⟩
    · subst hd
      rcases isJobBlocked_false _ _ _ hunb with hb | ⟨ht, hb⟩
      · exact Or.inl hb
      · exact Or.inr ⟨ht, fun x hx => Or.inl (hb x hx)⟩
  · exact h.hiLo
  · exact h.hiHi
  · -- blocked
    intro d hd
    simp only [place, List.mem_filter] at hd
    obtain ⟨hd1, hd2⟩ := hd
    obtain ⟨ha, hb⟩ := h.blocked d hd1
    refine ⟨ha, ?_⟩
    simp only [place, appendJob, BState.names, List.map_append, List.mem_append, List.map_cons,
      List.map_nil, List.mem_singleton]
    rintro (hx | hx)
    · exact hb hx
    · simp [hx] at hd2

/-- a refused candidate: batch contents unchanged, marked ready, cursor possibly rolled back -/
theorem refuse_core {p avail s} (i : Nat) (c : Cand) (hget : avail[i]? = some c)
    (hn : c.id ∉ s.b.names) (h : Core p avail s) :
    Core p avail (refuse { s.b with ready := true } i s) := by
  unfold refuse
  split
  · next hrb =>
    have hhi := cursorRollback_imp i s.hi hrb
    refine ⟨?_, h.nodup, h.time, ?_, h.blk, ?_, ?_, h.blocked⟩
    · intro d hd
      obtain ⟨k, hk, hle⟩ := h.idx d hd
      refine ⟨k, hk, ?_⟩
      have hki : k ≠ i := by
        intro hki; subst hki
        rw [hget] at hk; cases hk
        exact hn (List.mem_map.2 ⟨c, hd, rfl⟩)
      simp only; omega
    · intro htb
      exact ⟨(h.size htb).1, fun hh => by simp at hh⟩
    · simp only; omega
    · simp only; have := h.hiHi; omega
  · refine ⟨h.idx, h.nodup, h.time, ?_, h.blk, h.hiLo, h.hiHi, h.blocked⟩
    intro htb
    exact ⟨(h.size htb).1, fun hh => by simp at hh⟩

theorem consider_good {p avail s} (i : Nat) (c : Cand) (hget : avail[i]? = some c)
    (hile : (i : Int) ≤ s.hi) (hn : c.id ∉ s.b.names) (hnd : s.done = false)
    (h : Good p avail s) : Good p avail (consider p avail.length i c s) := by
  obtain ⟨hc, hr⟩ := h
  have hnr : s.b.ready = false := by
    cases hrd : s.b.ready with
    | false => rfl
    | true => have := hr hrd; rw [hnd] at this; cases this
  have hmem : c ∈ avail := List.mem_of_getElem? hget
  unfold consider
  apply markDone_good
  split
  · exact markBlocked_core c hmem hn hc
  · next hunb =>
    have hunb' : isJobBlocked c.blockedBy p.tryAdd s.b.names = false := by simpa using hunb
    split
    · next b' hta =>
      obtain ⟨hb', hrej⟩ := tryAppend_true p s.b b' c hta
      subst hb'
      exact place_core i c hget hile hn hnr hunb' hrej hc
    · next b' hta =>
      obtain ⟨hb', -⟩ := tryAppend_false p s.b b' c hta
      subst hb'
      exact refuse_core i c hget hn hc

theorem visit_good {p avail s} (i : Nat) (c : Cand) (hget : avail[i]? = some c)
    (h : Good p avail s) : Good p avail (visit p avail.length s i c) := by
  unfold visit
  split
  · exact h
  · next hnd =>
    have hilt : i < avail.length := by
      have := List.getElem?_eq_some_iff.1 hget; exact this.1
    obtain ⟨hcore, hile, hb, hbl, hdn⟩ := bump_core i hilt h.1
    have hgood : Good p avail (bump i s) := ⟨hcore, by rw [hb, hdn]; exact h.2⟩
    by_cases hnc : skipBatched ((bump i s).b.names.contains c.id) = true
    · rw [if_pos hnc]; exact hgood
    · rw [if_neg hnc]
      rw [skipBatched_eq] at hnc
      have hn : c.id ∉ (bump i s).b.names := by simpa using hnc
      exact consider_good i c hget hile hn (by rw [hdn]; simpa using hnd) hgood

theorem scan_good {p avail} (cs : List Cand) (i : Nat) (s : MState)
    (hcs : ∀ k c, cs[k]? = some c → avail[i + k]? = some c) (h : Good p avail s) :
    Good p avail (scan p avail.length i cs s) := by
  induction cs generalizing i s with
  | nil => simpa [scan] using h
  | cons c cs ih =>
    simp only [scan]
    apply ih
    · intro k d hk
      have := hcs (k + 1) d (by simpa using hk)
      rwa [show i + 1 + k = i + (k + 1) by omega]
    · exact visit_good i c (by simpa using hcs 0 c (by simp)) h

theorem passes_good {p avail} (n : Nat) (s : MState) (h : Good p avail s) :
    Good p avail (passes p avail n s) := by
  induction n generalizing s with
  | zero => simpa [passes] using h
  | succ n ih =>
    simp only [passes]
    split
    · exact h
    · exact ih _ (scan_good avail 0 s (by intro k c hk; simpa using hk) h)

theorem makeBatch_good (p : Params) (avail : List Cand) :
    Good p avail (passes p avail (maxIterations p.tryAdd avail.length) .init) :=
  passes_good _ _ (good_init p avail)

/-! ### consequences for the result of `_make_batch` -/

theorem nodup_map_index_inj {α β} (f : α → β) (l : List α) (h : (l.map f).Nodup) (i j : Nat) (a b : α)
    (hi : l[i]? = some a) (hj : l[j]? = some b) (hab : f a = f b) : i = j := by
  induction l generalizing i j with
  | nil => simp at hi
  | cons x xs ih =>
    simp only [List.map_cons, List.nodup_cons] at h
    cases i with
    | zero =>
      cases j with
      | zero => rfl
      | succ j =>
        simp at hi hj; subst hi
        exact absurd (List.mem_map.2 ⟨b, List.mem_of_getElem? hj, hab.symm⟩) h.1
    | succ i =>
      cases j with
      | zero =>
        simp at hi hj; subst hj
        exact absurd (List.mem_map.2 ⟨a, List.mem_of_getElem? hi, hab⟩) h.1
      | succ j =>
        simp at hi hj
        rw [ih h.2 i j hi hj]

theorem makeBatch_sub (p : Params) (avail : List Cand) :
    ∀ c ∈ (makeBatch p avail).batch.jobs, c ∈ avail := by
  intro c hc
  obtain ⟨k, hk, -⟩ := (makeBatch_good p avail).1.idx c hc
  exact List.mem_of_getElem? hk

theorem makeBatch_nodup (p : Params) (avail : List Cand) :
    ((makeBatch p avail).batch.jobs.map (·.id)).Nodup :=
  (makeBatch_good p avail).1.nodup

theorem makeBatch_notChecked_drop (p : Params) (avail : List Cand) :
    ∃ k, (makeBatch p avail).notChecked = avail.drop k ∧ ((makeBatch p avail).hi + 1).toNat ≤ k := by
  simp only [makeBatch]
  split
  · next h =>
    have := (allChecked_iff _ _).1 h
    exact ⟨avail.length, by simp, by omega⟩
  · exact ⟨_, rfl, Nat.le_refl _⟩

theorem makeBatch_disjoint (p : Params) (avail : List Cand) (hnd : (avail.map (·.id)).Nodup) :
    ∀ c ∈ (makeBatch p avail).batch.jobs, ∀ d ∈ (makeBatch p avail).notChecked, c.id ≠ d.id := by
  intro c hc d hd heq
  have hg := (makeBatch_good p avail).1
  obtain ⟨k, hk, hle⟩ := hg.idx c hc
  obtain ⟨m, hm, hmle⟩ := makeBatch_notChecked_drop p avail
  rw [hm] at hd
  obtain ⟨j, hj⟩ := List.getElem?_of_mem hd
  rw [List.getElem?_drop] at hj
  have := nodup_map_index_inj (·.id) avail hnd k (m + j) c d hk hj heq
  have hlo := hg.hiLo
  simp only [makeBatch] at hmle
  omega

theorem makeBatch_blocked_disjoint (p : Params) (avail : List Cand) :
    ∀ c ∈ (makeBatch p avail).blocked, c ∈ avail ∧ c.id ∉ (makeBatch p avail).batch.names :=
  (makeBatch_good p avail).1.blocked

theorem makeBatch_size (p : Params) (avail : List Cand) (h : p.timeBased = false) :
    (makeBatch p avail).batch.jobs.length ≤ max 1 p.batchSize :=
  ((makeBatch_good p avail).1.size h).1

theorem makeBatch_time (p : Params) (avail : List Cand) (h : p.timeBased = true) :
    timeOf (makeBatch p avail).batch.jobs ≤ p.maxTime := by
  have := (makeBatch_good p avail).1.time h
  simp only [makeBatch]
  omega

theorem makeBatch_blk (p : Params) (avail : List Cand) :
    ∀ c ∈ (makeBatch p avail).batch.jobs,
      c.blockedBy = [] ∨ (p.tryAdd = true ∧ ∀ x ∈ c.blockedBy, x ∈ (makeBatch p avail).batch.names) :=
  (makeBatch_good p avail).1.blk

/-! ### progress facts of `_make_batch`: unblocked candidates, cursor never below 0 -/

theorem cursorRollback_iff (i : Nat) (hi : Int) : cursorRollback i hi = true ↔ hi = (i : Int) := by
  simp [cursorRollback]

/-- every candidate without remaining blockers at an index the cursor has passed is in the batch -/
def Unb (avail : List Cand) (s : MState) : Prop :=
  ∀ (k : Nat) (c : Cand), avail[k]? = some c → c.blockedBy = [] → (k : Int) ≤ s.hi → c.id ∈ s.b.names

/-- every candidate fits an empty batch (what `check_job_runtimes` guarantees) -/
def Fits (p : Params) (avail : List Cand) : Prop :=
  ∀ c ∈ avail, p.timeBased = true → 60 * c.est ≤ p.maxTime

theorem markDone_fields (n : Nat) (s : MState) :
    (markDone n s).b = s.b ∧ (markDone n s).hi = s.hi ∧ (markDone n s).blocked = s.blocked ∧
    (s.b.ready = true → (markDone n s).done = true) := by
  unfold markDone
  split
  · exact ⟨rfl, rfl, rfl, fun _ => rfl⟩
  · next h => exact ⟨rfl, rfl, rfl, fun hr => by rw [hr, batchDone_ready] at h; exact absurd rfl h⟩

theorem markBlocked_fields (c : Cand) (s : MState) :
    (markBlocked c s).b = s.b ∧ (markBlocked c s).hi = s.hi ∧ (markBlocked c s).done = s.done := by
  unfold markBlocked; split <;> simp

theorem consider_cases (p : Params) (n i : Nat) (c : Cand) (s : MState) :
    (isJobBlocked c.blockedBy p.tryAdd s.b.names = true ∧
        consider p n i c s = markDone n (markBlocked c s)) ∨
    (isJobBlocked c.blockedBy p.tryAdd s.b.names = false ∧
        tryAppendReject p.timeBased s.b.time c.est p.maxTime = false ∧
        consider p n i c s = markDone n (place (appendJob p s.b c) c s)) ∨
    (isJobBlocked c.blockedBy p.tryAdd s.b.names = false ∧
        tryAppendReject p.timeBased s.b.time c.est p.maxTime = true ∧
        consider p n i c s = markDone n (refuse { s.b with ready := true } i s)) := by
  unfold consider tryAppend
  cases hb : isJobBlocked c.blockedBy p.tryAdd s.b.names with
  | true => left; simp
  | false =>
    right
    cases hr : tryAppendReject p.timeBased s.b.time c.est p.maxTime with
    | true => right; simp
    | false => left; simp

theorem refuse_fields (b' : BState) (i : Nat) (s : MState) :
    (refuse b' i s).b = b' ∧ (refuse b' i s).done = s.done ∧
    ((refuse b' i s).hi = s.hi ∨ (s.hi = (i : Int) ∧ (refuse b' i s).hi = s.hi - 1)) ∧
    (s.hi = (i : Int) → (refuse b' i s).hi = s.hi - 1) := by
  unfold refuse
  split
  · next h => exact ⟨rfl, rfl, Or.inr ⟨(cursorRollback_iff _ _).1 h, rfl⟩, fun _ => rfl⟩
  · next h => exact ⟨rfl, rfl, Or.inl rfl, fun hh => absurd ((cursorRollback_iff _ _).2 hh) h⟩

/-- one visit at scan position `i` keeps `Unb`, and re-establishes `i ≤ hi` unless done -/
theorem visit_unb {p avail s} (i : Nat) (c : Cand) (hget : avail[i]? = some c)
    (h : Good p avail s) (hpos : s.done = false → (i : Int) - 1 ≤ s.hi) (hu : Unb avail s) :
    Unb avail (visit p avail.length s i c) ∧
      ((visit p avail.length s i c).done = false → (i : Int) ≤ (visit p avail.length s i c).hi) := by
  unfold visit
  by_cases hd : s.done = true
  · rw [if_pos hd]
    exact ⟨hu, fun h' => by rw [hd] at h'; cases h'⟩
  · rw [if_neg hd]
    have hd' : s.done = false := by simpa using hd
    have hilt : i < avail.length := (List.getElem?_eq_some_iff.1 hget).1
    obtain ⟨hcore, hile, hb, hbl, hdn⟩ := bump_core i hilt h.1
    have hpos' := hpos hd'
    have hbhi : (bump i s).hi = s.hi ∨ ((bump i s).hi = (i : Int) ∧ s.hi < (i : Int)) := by
      unfold bump; split
      · next hbb => exact Or.inr ⟨rfl, (cursorBump_iff _ _).1 hbb⟩
      · exact Or.inl rfl
    -- all indices below the (bumped) cursor except `i` itself are settled
    have hex : ∀ (k : Nat) (d : Cand), avail[k]? = some d → d.blockedBy = [] →
        (k : Int) ≤ (bump i s).hi → k ≠ i → d.id ∈ s.b.names := by
      intro k d hk hbl' hle hki
      rcases hbhi with he | ⟨he, hlt⟩
      · exact hu k d hk hbl' (by omega)
      · exact hu k d hk hbl' (by omega)
    by_cases hnc : skipBatched ((bump i s).b.names.contains c.id) = true
    · rw [if_pos hnc]
      rw [skipBatched_eq] at hnc
      refine ⟨?_, fun _ => hile⟩
      intro k d hk hbl' hle
      rw [hb]
      by_cases hki : k = i
      · subst hki
        rw [hget] at hk; cases hk
        rw [hb] at hnc; simpa using hnc
      · exact hex k d hk hbl' hle hki
    · rw [if_neg hnc]
      rw [skipBatched_eq] at hnc
      have hn : c.id ∉ s.b.names := by rw [hb] at hnc; simpa using hnc
      have hnr : s.b.ready = false := by
        cases hrd : s.b.ready with
        | false => rfl
        | true => have := h.2 hrd; rw [hd'] at this; cases this
      rcases consider_cases p avail.length i c (bump i s) with ⟨hblk, heq⟩ | ⟨hblk, hrej, heq⟩ | ⟨hblk, hrej, heq⟩
      · -- reported as blocked
        rw [heq]
        obtain ⟨m1, m2, -, -⟩ := markDone_fields avail.length (markBlocked c (bump i s))
        obtain ⟨b1, b2, b3⟩ := markBlocked_fields c (bump i s)
        refine ⟨?_, fun _ => by rw [m2, b2]; exact hile⟩
        intro k d hk hbl' hle
        rw [m2, b2] at hle
        unfold BState.names
        rw [m1, b1, hb]
        by_cases hki : k = i
        · subst hki
          rw [hget] at hk; cases hk
          rw [hbl', isJobBlocked_nil] at hblk; cases hblk
        · exact hex k d hk hbl' hle hki
      · -- placed
        rw [heq]
        obtain ⟨m1, m2, -, -⟩ := markDone_fields avail.length (place (appendJob p (bump i s).b c) c (bump i s))
        refine ⟨?_, fun _ => by rw [m2]; exact hile⟩
        intro k d hk hbl' hle
        rw [m2] at hle
        unfold BState.names
        rw [m1]
        simp only [place, appendJob, hb, List.map_append, List.mem_append,
          List.map_cons, List.map_nil, List.mem_singleton]
        by_cases hki : k = i
        · subst hki
          rw [hget] at hk; cases hk
          exact Or.inr rfl
        · exact Or.inl (hex k d hk hbl' (by simpa [place] using hle) hki)
      · -- refused
        rw [heq]
        obtain ⟨m1, m2, -, m4⟩ := markDone_fields avail.length (refuse { (bump i s).b with ready := true } i (bump i s))
        obtain ⟨r1, r2, r3, r4⟩ := refuse_fields { (bump i s).b with ready := true } i (bump i s)
        refine ⟨?_, fun hdn' => ?_⟩
        · intro k d hk hbl' hle
          rw [m2] at hle
          unfold BState.names
          rw [m1, r1]
          simp only [hb]
          by_cases hki : k = i
          · subst hki
            rw [hget] at hk; cases hk
            -- an unblocked candidate that does not fit: the cursor is at k, so it is rolled back
            exfalso
            have hcur : (bump k s).hi = (k : Int) := by
              rcases hbhi with he | ⟨he, -⟩
              · -- s.hi ≥ k; if s.hi > k then c would already be in the batch
                by_cases hgt : (k : Int) < s.hi
                · exact absurd (hu k c hget hbl' (by omega)) hn
                · omega
              · exact he
            have := r4 hcur
            omega
          · refine hex k d hk hbl' ?_ hki
            rcases r3 with r3 | ⟨-, r3⟩ <;> omega
        · -- a refusal marks the batch ready, hence done
          have : (markDone avail.length (refuse { (bump i s).b with ready := true } i (bump i s))).done = true :=
            m4 (by rw [r1])
          rw [this] at hdn'; cases hdn'

theorem scan_unb {p avail} (cs : List Cand) (i : Nat) (s : MState)
    (hcs : ∀ k c, cs[k]? = some c → avail[i + k]? = some c) (h : Good p avail s)
    (hpos : s.done = false → (i : Int) - 1 ≤ s.hi) (hu : Unb avail s) :
    Unb avail (scan p avail.length i cs s) := by
  induction cs generalizing i s with
  | nil => simpa [scan] using hu
  | cons c cs ih =>
    simp only [scan]
    have hget : avail[i]? = some c := by simpa using hcs 0 c (by simp)
    obtain ⟨hu', hpos'⟩ := visit_unb i c hget h hpos hu
    apply ih
    · intro k d hk
      have := hcs (k + 1) d (by simpa using hk)
      rwa [show i + 1 + k = i + (k + 1) by omega]
    · exact visit_good i c hget h
    · intro hd; have := hpos' hd; push_cast; omega
    · exact hu'

theorem passes_unb {p avail} (n : Nat) (s : MState) (h : Good p avail s) (hu : Unb avail s) :
    Unb avail (passes p avail n s) := by
  induction n generalizing s with
  | zero => simpa [passes] using hu
  | succ n ih =>
    simp only [passes]
    split
    · exact hu
    · have hcs : ∀ k c, avail[k]? = some c → avail[0 + k]? = some c := by
        intro k c hk; simpa using hk
      exact ih _ (scan_good avail 0 s hcs h)
        (scan_unb avail 0 s hcs h (fun _ => by have := h.1.hiLo; simp; omega) hu)

/-- C05 (component): a candidate without remaining blockers is batched or handed on as
    "not checked" — never silently dropped. -/
theorem makeBatch_unblocked (p : Params) (avail : List Cand) :
    ∀ c ∈ avail, c.blockedBy = [] →
      c.id ∈ (makeBatch p avail).batch.names ∨ c ∈ (makeBatch p avail).notChecked := by
  intro c hc hb
  obtain ⟨k, hk⟩ := List.getElem?_of_mem hc
  have hu : Unb avail (passes p avail (maxIterations p.tryAdd avail.length) .init) :=
    passes_unb _ _ (good_init p avail) (by
      intro k c _ _ hle; simp [MState.init] at hle; omega)
  have hklt : k < avail.length := (List.getElem?_eq_some_iff.1 hk).1
  by_cases hle : (k : Int) ≤ (passes p avail (maxIterations p.tryAdd avail.length) .init).hi
  · left; exact hu k c hk hb hle
  · right
    simp only [makeBatch]
    split
    · next hall => have := (allChecked_iff _ _).1 hall; omega
    · have hlo := (makeBatch_good p avail).1.hiLo
      apply List.mem_of_getElem? (i := k - ((passes p avail (maxIterations p.tryAdd avail.length) .init).hi + 1).toNat)
      rw [List.getElem?_drop]
      rw [show ((passes p avail (maxIterations p.tryAdd avail.length) .init).hi + 1).toNat +
        (k - ((passes p avail (maxIterations p.tryAdd avail.length) .init).hi + 1).toNat) = k by omega]
      exact hk

/-! ### termination of `_submit_batches`: the candidate list shrinks -/

theorem visit_nonneg {p avail s} (i : Nat) (c : Cand) (hget : avail[i]? = some c)
    (h : Good p avail s) (hf : Fits p avail) (hs : s.done = false ∨ 0 ≤ s.hi) :
    0 ≤ (visit p avail.length s i c).hi := by
  unfold visit
  by_cases hd : s.done = true
  · rw [if_pos hd]
    rcases hs with hs | hs
    · rw [hd] at hs; cases hs
    · exact hs
  · rw [if_neg hd]
    have hilt : i < avail.length := (List.getElem?_eq_some_iff.1 hget).1
    obtain ⟨hcore, hile, hb, hbl, hdn⟩ := bump_core i hilt h.1
    by_cases hnc : skipBatched ((bump i s).b.names.contains c.id) = true
    · rw [if_pos hnc]; omega
    · rw [if_neg hnc]
      rw [skipBatched_eq] at hnc
      have hn : c.id ∉ s.b.names := by rw [hb] at hnc; simpa using hnc
      rcases consider_cases p avail.length i c (bump i s) with ⟨-, heq⟩ | ⟨-, -, heq⟩ | ⟨-, hrej, heq⟩
      · rw [heq]
        rw [(markDone_fields _ _).2.1, (markBlocked_fields _ _).2.1]; omega
      · rw [heq]
        rw [(markDone_fields _ _).2.1]; simp only [place]; omega
      · rw [heq, (markDone_fields _ _).2.1]
        obtain ⟨-, -, r3, -⟩ := refuse_fields { (bump i s).b with ready := true } i (bump i s)
        rcases r3 with r3 | ⟨r3a, r3b⟩
        · omega
        · -- rolled back from i to i-1: impossible at i = 0 because c fits the (then empty) batch
          by_cases hi0 : i = 0
          · subst hi0
            exfalso
            have hempty : s.b.jobs = [] := by
              cases hj : s.b.jobs with
              | nil => rfl
              | cons e es =>
                exfalso
                have hmem : e ∈ (bump 0 s).b.jobs := by rw [hb, hj]; simp
                obtain ⟨k, hk, hkle⟩ := hcore.idx e hmem
                have hk0 : k = 0 := by omega
                subst hk0
                rw [hget] at hk; cases hk
                exact hn (List.mem_map.2 ⟨c, by rw [hj]; simp, rfl⟩)
            obtain ⟨htb, hlt⟩ := (tryAppendReject_iff _ _ _ _).1 hrej
            have ht := (hcore.time htb).1
            rw [hb, hempty] at ht
            have hfit := hf c (List.mem_of_getElem? hget) htb
            rw [hb] at hlt
            simp [timeOf] at ht
            omega
          · omega

theorem scan_nonneg {p avail} (cs : List Cand) (i : Nat) (s : MState)
    (hcs : ∀ k c, cs[k]? = some c → avail[i + k]? = some c) (h : Good p avail s)
    (hf : Fits p avail) (hs : (s.done = false ∧ cs ≠ []) ∨ 0 ≤ s.hi) :
    0 ≤ (scan p avail.length i cs s).hi := by
  induction cs generalizing i s with
  | nil =>
    rcases hs with ⟨-, hs⟩ | hs
    · exact absurd rfl hs
    · simpa [scan] using hs
  | cons c cs ih =>
    simp only [scan]
    have hget : avail[i]? = some c := by simpa using hcs 0 c (by simp)
    apply ih
    · intro k d hk
      have := hcs (k + 1) d (by simpa using hk)
      rwa [show i + 1 + k = i + (k + 1) by omega]
    · exact visit_good i c hget h
    · right
      exact visit_nonneg i c hget h hf (by rcases hs with ⟨hs, -⟩ | hs; exact Or.inl hs; exact Or.inr hs)

theorem passes_nonneg {p avail} (n : Nat) (s : MState) (h : Good p avail s) (hf : Fits p avail)
    (hne : avail ≠ []) (hs : (s.done = false ∧ 0 < n) ∨ 0 ≤ s.hi) :
    0 ≤ (passes p avail n s).hi := by
  induction n generalizing s with
  | zero =>
    rcases hs with ⟨-, hs⟩ | hs
    · omega
    · simpa [passes] using hs
  | succ n ih =>
    simp only [passes]
    have hcs : ∀ k c, avail[k]? = some c → avail[0 + k]? = some c := by
      intro k c hk; simpa using hk
    by_cases hd : s.done = true
    · rw [if_pos hd]
      rcases hs with ⟨hs, -⟩ | hs
      · rw [hd] at hs; cases hs
      · exact hs
    · rw [if_neg hd]
      apply ih _ (scan_good avail 0 s hcs h)
      right
      exact scan_nonneg avail 0 s hcs h hf (by
        rcases hs with ⟨hs, -⟩ | hs
        · exact Or.inl ⟨hs, hne⟩
        · exact Or.inr hs)

/-- under validated estimates every call of `_make_batch` on a non-empty list consumes a candidate -/
theorem makeBatch_shrinks (p : Params) (avail : List Cand) (hne : avail ≠ []) (hf : Fits p avail) :
    (makeBatch p avail).notChecked.length < avail.length := by
  have hpos : 0 < avail.length := List.length_pos_iff.2 hne
  have h0 : 0 ≤ (passes p avail (maxIterations p.tryAdd avail.length) .init).hi :=
    passes_nonneg _ _ (good_init p avail) hf hne
      (Or.inl ⟨rfl, maxIterations_pos _ _ hpos⟩)
  simp only [makeBatch]
  split
  · simpa using hpos
  · simp only [List.length_drop]; omega

/-! ### `_submit_batches` -/

/-- what C07 demands of every batch handed to `_submit_batch` -/
def BatchOK (p : Params) (jobs : List Cand) : Prop :=
  jobs ≠ [] ∧ (jobs.map (·.id)).Nodup ∧
  (p.timeBased = false → jobs.length ≤ max 1 p.batchSize) ∧
  (p.timeBased = true → timeOf jobs ≤ p.maxTime) ∧
  (∀ c ∈ jobs, c.blockedBy = [] ∨ (p.tryAdd = true ∧ ∀ x ∈ c.blockedBy, x ∈ jobs.map (·.id)))

def allJobs (bs : List Submitted) : List Cand := bs.flatMap (·.jobs)

structure LoopInv (p : Params) (cands avail : List Cand) (acc : List Submitted) : Prop where
  sub : ∀ c ∈ avail, c ∈ cands
  availNodup : (avail.map (·.id)).Nodup
  ok : ∀ b ∈ acc, BatchOK p b.jobs ∧ ∀ c ∈ b.jobs, c ∈ cands
  accNodup : ((allJobs acc).map (·.id)).Nodup
  disj : ∀ c ∈ allJobs acc, ∀ d ∈ avail, c.id ≠ d.id

theorem makeBatch_ok (p : Params) (avail : List Cand)
    (hne : batchNonEmpty (makeBatch p avail).batch.jobs.length = true) :
    BatchOK p (makeBatch p avail).batch.jobs := by
  refine ⟨?_, makeBatch_nodup p avail, makeBatch_size p avail, makeBatch_time p avail, makeBatch_blk p avail⟩
  have := (batchNonEmpty_iff _).1 hne
  exact List.length_pos_iff.1 this

theorem loopInv_step {p cands avail acc} (h : LoopInv p cands avail acc) :
    (batchNonEmpty (makeBatch p avail).batch.jobs.length = true → ∀ ok,
      LoopInv p cands (makeBatch p avail).notChecked
        (acc ++ [{ jobs := (makeBatch p avail).batch.jobs, accepted := ok }])) ∧
    LoopInv p cands (makeBatch p avail).notChecked acc := by
  obtain ⟨k, hk, -⟩ := makeBatch_notChecked_drop p avail
  have hsub' : ∀ c ∈ (makeBatch p avail).notChecked, c ∈ avail := by
    intro c hc; rw [hk] at hc; exact List.mem_of_mem_drop hc
  have hnd' : ((makeBatch p avail).notChecked.map (·.id)).Nodup := by
    rw [hk, List.map_drop]
    exact List.Nodup.sublist (List.drop_sublist _ _) h.availNodup
  constructor
  · intro hne ok
    refine ⟨fun c hc => h.sub c (hsub' c hc), hnd', ?_, ?_, ?_⟩
    · intro b hb
      simp only [List.mem_append, List.mem_singleton] at hb
      rcases hb with hb | hb
      · exact h.ok b hb
      · subst hb
        exact ⟨makeBatch_ok p avail hne, fun c hc => h.sub c (makeBatch_sub p avail c hc)⟩
    · simp only [allJobs, List.flatMap_append, List.flatMap_cons, List.flatMap_nil, List.append_nil,
        List.map_append]
      rw [List.nodup_append]
      refine ⟨h.accNodup, makeBatch_nodup p avail, ?_⟩
      intro a ha b hb hab
      obtain ⟨c, hc, rfl⟩ := List.mem_map.1 ha
      obtain ⟨d, hd, rfl⟩ := List.mem_map.1 hb
      exact h.disj c hc d (makeBatch_sub p avail d hd) hab
    · intro c hc d hd
      simp only [allJobs, List.flatMap_append, List.flatMap_cons, List.flatMap_nil, List.append_nil,
        List.mem_append] at hc
      rcases hc with hc | hc
      · exact h.disj c hc d (hsub' d hd)
      · exact makeBatch_disjoint p avail h.availNodup c hc d hd
  · exact ⟨fun c hc => h.sub c (hsub' c hc), hnd', h.ok, h.accNodup,
      fun c hc d hd => h.disj c hc d (hsub' d hd)⟩

/-- every batch of one `_submit_batches` call is well-formed, and no job is in two of them -/
theorem submitLoop_spec (p : Params) (depth : Nat) (dryRun : Bool) (cands : List Cand) :
    ∀ (fuel out : Nat) (avail : List Cand) (env : List Bool) (acc : List Submitted) (blk : List Cand),
      LoopInv p cands avail acc →
      (∀ b ∈ (submitLoop p depth dryRun fuel out avail env acc blk).batches,
          BatchOK p b.jobs ∧ ∀ c ∈ b.jobs, c ∈ cands) ∧
        ((allJobs (submitLoop p depth dryRun fuel out avail env acc blk).batches).map (·.id)).Nodup := by
  intro fuel
  induction fuel with
  | zero => intro out avail env acc blk h; exact ⟨h.ok, h.accNodup⟩
  | succ f ih =>
    intro out avail env acc blk h
    simp only [submitLoop]
    split
    · obtain ⟨h1, h2⟩ := loopInv_step h
      split
      · next hne => exact ih _ _ _ _ _ (h1 hne _)
      · exact ih _ _ _ _ _ h2
    · exact ⟨h.ok, h.accNodup⟩

/-- C06 (component): the HPC-level queue never exceeds its depth through `_submit_batches` -/
theorem submitLoop_outstanding (p : Params) (depth : Nat) (dryRun : Bool) :
    ∀ (fuel out : Nat) (avail : List Cand) (env : List Bool) (acc : List Submitted) (blk : List Cand),
      (submitLoop p depth dryRun fuel out avail env acc blk).outstanding ≤ max out depth := by
  intro fuel
  induction fuel with
  | zero => intro out avail env acc blk; simp [submitLoop]; omega
  | succ f ih =>
    intro out avail env acc blk
    simp only [submitLoop]
    split
    · next hg =>
      have hnf : ¬ depth ≤ out := by
        have := (submitLoopGuard_iff _ _).1 hg
        intro hh; have := (queueFull_iff out depth).2 hh; simp_all
      split
      · have := ih (afterSubmit (sbatchOutcome dryRun env).1 out) (makeBatch p avail).notChecked
          (sbatchOutcome dryRun env).2
          (acc ++ [{ jobs := (makeBatch p avail).batch.jobs, accepted := (sbatchOutcome dryRun env).1 }])
          (blk ++ (makeBatch p avail).blocked)
        generalize (sbatchOutcome dryRun env).1 = ok at this ⊢
        cases ok <;> simp only [afterSubmit, Bool.false_eq_true, if_false, if_true] at this ⊢ <;> omega
      · have := ih out (makeBatch p avail).notChecked env acc (blk ++ (makeBatch p avail).blocked)
        omega
    · simp only; omega

/-- C07 (`fuel_suffices`): with validated estimates the `while` loop terminates within the fuel
    the driver passes -/
theorem submitLoop_terminates (p : Params) (depth : Nat) (dryRun : Bool) :
    ∀ (fuel out : Nat) (avail : List Cand) (env : List Bool) (acc : List Submitted) (blk : List Cand),
      Fits p avail → avail.length < fuel →
      (submitLoop p depth dryRun fuel out avail env acc blk).diverged = false := by
  intro fuel
  induction fuel with
  | zero => intro out avail env acc blk _ hl; omega
  | succ f ih =>
    intro out avail env acc blk hf hl
    simp only [submitLoop]
    split
    · next hg =>
      have hne : avail ≠ [] := by
        have := ((submitLoopGuard_iff _ _).1 hg).2
        intro h; subst h; simp at this
      have hsh := makeBatch_shrinks p avail hne hf
      have hf' : Fits p (makeBatch p avail).notChecked := by
        obtain ⟨k, hk, -⟩ := makeBatch_notChecked_drop p avail
        intro c hc; rw [hk] at hc; exact hf c (List.mem_of_mem_drop hc)
      split
      · exact ih _ _ _ _ _ hf' (by omega)
      · exact ih _ _ _ _ _ hf' (by omega)
    · rfl

/-- C05 (component): when the loop ends, either the node limit is reached or every candidate
    without remaining blockers was placed in a batch of this call -/
theorem submitLoop_unblocked (p : Params) (depth : Nat) (dryRun : Bool) (cands : List Cand) :
    ∀ (fuel out : Nat) (avail : List Cand) (env : List Bool) (acc : List Submitted) (blk : List Cand),
      (∀ c ∈ cands, c.blockedBy = [] → c.id ∈ (allJobs acc).map (·.id) ∨ c ∈ avail) →
      (submitLoop p depth dryRun fuel out avail env acc blk).diverged = false →
      queueFull (submitLoop p depth dryRun fuel out avail env acc blk).outstanding depth = true ∨
      ∀ c ∈ cands, c.blockedBy = [] →
        c.id ∈ (allJobs (submitLoop p depth dryRun fuel out avail env acc blk).batches).map (·.id) := by
  intro fuel
  induction fuel with
  | zero =>
    intro out avail env acc blk h hd
    simp only [submitLoop] at hd ⊢
    have hng : ¬ (queueFull out depth = false ∧ avail.map (·.id) ≠ []) := by
      intro hh; have := (submitLoopGuard_iff _ _).2 hh; rw [hd] at this; cases this
    by_cases hq : queueFull out depth = true
    · exact Or.inl hq
    · right
      have hav : avail = [] := by
        have : avail.map (·.id) = [] := by
          by_cases hm : avail.map (·.id) = []
          · exact hm
          · exact absurd ⟨by simpa using hq, hm⟩ hng
        simpa using this
      intro c hc hb
      rcases h c hc hb with h' | h'
      · exact h'
      · rw [hav] at h'; cases h'
  | succ f ih =>
    intro out avail env acc blk h hd
    simp only [submitLoop] at hd ⊢
    split at hd
    · next hg =>
      rw [if_pos hg]
      split at hd
      · next hne =>
        rw [if_pos hne]
        refine ih _ _ _ _ _ ?_ hd
        intro c hc hb
        rcases h c hc hb with h' | h'
        · left
          simp only [allJobs, List.flatMap_append, List.map_append, List.mem_append]
          exact Or.inl h'
        · rcases makeBatch_unblocked p avail c h' hb with h'' | h''
          · left
            simp only [allJobs, List.flatMap_append, List.flatMap_cons, List.flatMap_nil,
              List.append_nil, List.map_append, List.mem_append]
            exact Or.inr h''
          · exact Or.inr h''
      · next hne =>
        rw [if_neg hne]
        refine ih _ _ _ _ _ ?_ hd
        intro c hc hb
        rcases h c hc hb with h' | h'
        · exact Or.inl h'
        · rcases makeBatch_unblocked p avail c h' hb with h'' | h''
          · -- an empty batch cannot contain c
            exfalso
            have hlen : (makeBatch p avail).batch.jobs.length = 0 := by
              by_cases hz : (makeBatch p avail).batch.jobs.length = 0
              · exact hz
              · exact absurd ((batchNonEmpty_iff _).2 (by omega)) hne
            have : (makeBatch p avail).batch.jobs = [] := List.length_eq_zero_iff.1 hlen
            simp [BState.names, this] at h''
          · exact Or.inr h''
    · next hg =>
      rw [if_neg hg]
      have hng : ¬ (queueFull out depth = false ∧ avail.map (·.id) ≠ []) := by
        intro hh; exact hg ((submitLoopGuard_iff _ _).2 hh)
      by_cases hq : queueFull out depth = true
      · exact Or.inl hq
      · right
        have hav : avail = [] := by
          have : avail.map (·.id) = [] := by
            by_cases hm : avail.map (·.id) = []
            · exact hm
            · exact absurd ⟨by simpa using hq, hm⟩ hng
          simpa using this
        intro c hc hb
        rcases h c hc hb with h' | h'
        · exact h'
        · rw [hav] at h'; cases h'

/-! ### candidate order: stable sort by estimate is a permutation -/

theorem insertByEst_perm (c : Cand) (l : List Cand) : (insertByEst c l).Perm (c :: l) := by
  induction l with
  | nil => simp [insertByEst]
  | cons d ds ih =>
    simp only [insertByEst]
    split
    · exact (List.Perm.cons d ih).trans (List.Perm.swap c d ds)
    · exact List.Perm.refl _

theorem sortByEst_perm (l : List Cand) : (sortByEst l).Perm l := by
  induction l with
  | nil => simp [sortByEst]
  | cons c cs ih =>
    simp only [sortByEst, List.foldr_cons]
    exact (insertByEst_perm c _).trans (List.Perm.cons c ih)

theorem loopInv_init (p : Params) (cands : List Cand) (hnd : (cands.map (·.id)).Nodup) :
    LoopInv p cands (if sortByTime p.timeBased then sortByEst cands else cands) [] := by
  split
  · have hp := sortByEst_perm cands
    exact ⟨fun c hc => hp.mem_iff.1 hc, (hp.map _).nodup_iff.2 hnd, by simp, by simp [allJobs],
      by simp [allJobs]⟩
  · exact ⟨fun c hc => hc, hnd, by simp, by simp [allJobs], by simp [allJobs]⟩

theorem submitBatches_spec (p : Params) (depth : Nat) (dryRun : Bool) (out : Nat) (cands : List Cand)
    (env : List Bool) (hnd : (cands.map (·.id)).Nodup) :
    (∀ b ∈ (submitBatches p depth dryRun out cands env).batches,
        BatchOK p b.jobs ∧ ∀ c ∈ b.jobs, c ∈ cands) ∧
      ((allJobs (submitBatches p depth dryRun out cands env).batches).map (·.id)).Nodup := by
  unfold submitBatches
  exact submitLoop_spec p depth dryRun cands _ _ _ _ _ _ (loopInv_init p cands hnd)

/-- with `dryRun` the batches are those of a run in which every `sbatch` is accepted -/
theorem submitLoop_dryRun (p : Params) (depth : Nat) :
    ∀ (fuel out : Nat) (avail : List Cand) (env env' : List Bool) (acc acc' : List Submitted)
      (blk : List Cand),
      (∀ e ∈ env', e = true) → fuel ≤ env'.length → acc.map (·.jobs) = acc'.map (·.jobs) →
      (submitLoop p depth true fuel out avail env acc blk).batches.map (·.jobs) =
        (submitLoop p depth false fuel out avail env' acc' blk).batches.map (·.jobs) ∧
      (submitLoop p depth true fuel out avail env acc blk).env = env := by
  intro fuel
  induction fuel with
  | zero => intro out avail env env' acc acc' blk _ _ h; simp [submitLoop, h]
  | succ f ih =>
    intro out avail env env' acc acc' blk htrue hlen hacc
    cases env' with
    | nil => simp at hlen
    | cons e es =>
      have he : e = true := htrue e (by simp)
      subst he
      simp only [submitLoop]
      split
      · split
        · have := ih (afterSubmit true out) (makeBatch p avail).notChecked env es
            (acc ++ [{ jobs := (makeBatch p avail).batch.jobs, accepted := true }])
            (acc' ++ [{ jobs := (makeBatch p avail).batch.jobs, accepted := true }])
            (blk ++ (makeBatch p avail).blocked)
            (fun e he => htrue e (by simp [he])) (by simpa using hlen) (by simp [hacc])
          simpa [sbatchOutcome] using this
        · exact ih _ _ _ (true :: es) _ _ _ htrue (by simp at hlen ⊢; omega) hacc
      · simp [hacc]

end Jade.Batch
