import JadeModel.Proofs.Batch

/-!
`_submit_batches` hands two lists to `Cluster.update_job_status`: the jobs it put into batches (`submitted_jobs`) and the
jobs `_make_batch` looked at and found blocked (`blocked_jobs`).  `_update_job_status` asserts that a *blocked* job is
still NOT_SUBMITTED after the submitted ones were marked SUBMITTED — so the two lists must not share a job, or the round
dies under the cluster lock with the batches already at the HPC (seeded change C05-12).

This file proves that disjointness for size-based batching (`time_based_batching = False`, the default): a job recorded as
blocked has been *looked at* (its index is at most the cursor `highest_index`), everything the next `_make_batch` call of
the round sees lies beyond the cursor, so it is never looked at again in that round.

With time-based batching the cursor can roll back over a job that is in the blocked dictionary (the job became unblocked
in a later pass of the same call and then did not fit the time limit).  Such a job IS handed to the next call — see
`rollback_hands_blocked_job_on` — and stays out of the later batches for a different reason (its blockers sit in the
earlier batch); that case is not proved here (`…_partial`), the batch correspondence suite persists every round's output
through the real `update_job_status` instead (`round.status_update_raises`).
-/

namespace Jade.Batch
open Jade.Gen.Batch

/-- every job in the blocked dictionary has been looked at: its index is at most the cursor -/
@[reducible] def BlkIdx (avail : List Cand) (s : MState) : Prop :=
  ∀ c ∈ s.blocked, ∃ k : Nat, avail[k]? = some c ∧ (k : Int) ≤ s.hi

theorem blkIdx_init (avail : List Cand) : BlkIdx avail .init := by
  intro c hc; simp [MState.init] at hc

theorem bump_blkIdx {avail s} (i : Nat) (h : BlkIdx avail s) :
    BlkIdx avail (bump i s) ∧ (i : Int) ≤ (bump i s).hi := by
  unfold bump
  split
  · next hb =>
    have := (cursorBump_iff _ _).1 hb
    refine ⟨?_, by simp⟩
    intro c hc
    obtain ⟨k, hk, hle⟩ := h c hc
    exact ⟨k, hk, by simp only; omega⟩
  · next hb =>
    have : ¬ s.hi < (i : Int) := fun hlt => hb ((cursorBump_iff _ _).2 hlt)
    exact ⟨h, by omega⟩

theorem markBlocked_blkIdx {avail s} (i : Nat) (c : Cand) (hget : avail[i]? = some c) (hile : (i : Int) ≤ s.hi)
    (h : BlkIdx avail s) : BlkIdx avail (markBlocked c s) := by
  unfold markBlocked
  split
  · exact h
  · intro d hd
    simp only [List.mem_append, List.mem_singleton] at hd
    rcases hd with hd | hd
    · exact h d hd
    · subst hd; exact ⟨i, hget, hile⟩

theorem place_blkIdx {avail s} (b' : BState) (c : Cand) (h : BlkIdx avail s) : BlkIdx avail (place b' c s) := by
  intro d hd
  simp only [place] at hd
  exact h d (List.mem_filter.1 hd).1

theorem markDone_blkIdx {avail s} (n : Nat) (h : BlkIdx avail s) : BlkIdx avail (markDone n s) := by
  unfold markDone; split <;> exact h

theorem consider_blkIdx {p : Params} {avail s} (htb : p.timeBased = false) (n i : Nat) (c : Cand)
    (hget : avail[i]? = some c) (hile : (i : Int) ≤ s.hi) (h : BlkIdx avail s) :
    BlkIdx avail (consider p n i c s) := by
  unfold consider
  apply markDone_blkIdx
  split
  · exact markBlocked_blkIdx i c hget hile h
  · split
    · exact place_blkIdx _ c h
    · next b' hta =>
      -- size-based batching never refuses a job
      obtain ⟨-, hrej⟩ := tryAppend_false p s.b b' c hta
      have := (tryAppendReject_iff _ _ _ _).1 hrej
      rw [htb] at this
      exact absurd this.1 (by decide)

theorem visit_blkIdx {p : Params} {avail s} (htb : p.timeBased = false) (n i : Nat) (c : Cand)
    (hget : avail[i]? = some c) (h : BlkIdx avail s) : BlkIdx avail (visit p n s i c) := by
  unfold visit
  split
  · exact h
  · obtain ⟨hb, hile⟩ := bump_blkIdx i h
    show BlkIdx avail (if skipBatched ((bump i s).b.names.contains c.id) = true then bump i s else consider p n i c (bump i s))
    split
    · exact hb
    · exact consider_blkIdx htb n i c hget hile hb

theorem scan_blkIdx {p : Params} {avail} (htb : p.timeBased = false) (n : Nat) (cs : List Cand) (i : Nat) (s : MState)
    (hcs : ∀ k c, cs[k]? = some c → avail[i + k]? = some c) (h : BlkIdx avail s) :
    BlkIdx avail (scan p n i cs s) := by
  induction cs generalizing i s with
  | nil => simpa [scan] using h
  | cons c cs ih =>
    simp only [scan]
    apply ih
    · intro k d hk
      have := hcs (k + 1) d (by simpa using hk)
      rwa [show i + 1 + k = i + (k + 1) by omega]
    · exact visit_blkIdx htb n i c (by simpa using hcs 0 c (by simp)) h

theorem passes_blkIdx {p : Params} {avail} (htb : p.timeBased = false) (n : Nat) (s : MState) (h : BlkIdx avail s) :
    BlkIdx avail (passes p avail n s) := by
  induction n generalizing s with
  | zero => simpa [passes] using h
  | succ n ih =>
    simp only [passes]
    split
    · exact h
    · exact ih _ (scan_blkIdx htb _ avail 0 s (by intro k c hk; simpa using hk) h)

/-- size-based batching: every job `_make_batch` reports as blocked lies at or below the cursor -/
theorem makeBatch_blocked_idx (p : Params) (avail : List Cand) (htb : p.timeBased = false) :
    ∀ c ∈ (makeBatch p avail).blocked, ∃ k : Nat, avail[k]? = some c ∧ (k : Int) ≤ (makeBatch p avail).hi :=
  passes_blkIdx htb _ _ (blkIdx_init avail)

/-- …so it is not among the jobs handed to the next `_make_batch` call of the round -/
theorem makeBatch_blocked_not_notChecked (p : Params) (avail : List Cand) (htb : p.timeBased = false)
    (hnd : (avail.map (·.id)).Nodup) :
    ∀ c ∈ (makeBatch p avail).blocked, ∀ d ∈ (makeBatch p avail).notChecked, c.id ≠ d.id := by
  intro c hc d hd heq
  obtain ⟨k, hk, hle⟩ := makeBatch_blocked_idx p avail htb c hc
  obtain ⟨m, hm, hmle⟩ := makeBatch_notChecked_drop p avail
  rw [hm] at hd
  obtain ⟨j, hj⟩ := List.getElem?_of_mem hd
  rw [List.getElem?_drop] at hj
  have := nodup_map_index_inj (·.id) avail hnd k (m + j) c d hk hj heq
  have hlo := (makeBatch_good p avail).1.hiLo
  simp only [makeBatch] at hmle hle hlo
  omega

/-- invariant of the `_submit_batches` loop about the accumulated blocked list -/
structure BlkInv (avail : List Cand) (acc : List Submitted) (blk : List Cand) : Prop where
  notBatched : ∀ c ∈ blk, ∀ d ∈ allJobs acc, c.id ≠ d.id
  notAvail : ∀ c ∈ blk, ∀ d ∈ avail, c.id ≠ d.id

theorem blkInv_step {p : Params} {cands avail acc blk} (htb : p.timeBased = false)
    (h : LoopInv p cands avail acc) (hb : BlkInv avail acc blk) :
    (∀ ok, BlkInv (makeBatch p avail).notChecked
        (acc ++ [{ jobs := (makeBatch p avail).batch.jobs, accepted := ok }]) (blk ++ (makeBatch p avail).blocked)) ∧
    BlkInv (makeBatch p avail).notChecked acc (blk ++ (makeBatch p avail).blocked) := by
  obtain ⟨k, hk, -⟩ := makeBatch_notChecked_drop p avail
  have hsub' : ∀ c ∈ (makeBatch p avail).notChecked, c ∈ avail := by
    intro c hc; rw [hk] at hc; exact List.mem_of_mem_drop hc
  have hnew_acc : ∀ c ∈ (makeBatch p avail).blocked, ∀ d ∈ allJobs acc, c.id ≠ d.id := by
    intro c hc d hd heq
    exact h.disj d hd c (makeBatch_blocked_disjoint p avail c hc).1 heq.symm
  have hnew_batch : ∀ c ∈ (makeBatch p avail).blocked, ∀ d ∈ (makeBatch p avail).batch.jobs, c.id ≠ d.id := by
    intro c hc d hd heq
    apply (makeBatch_blocked_disjoint p avail c hc).2
    rw [heq]
    exact List.mem_map.2 ⟨d, hd, rfl⟩
  have hnotAvail : ∀ c ∈ blk ++ (makeBatch p avail).blocked, ∀ d ∈ (makeBatch p avail).notChecked, c.id ≠ d.id := by
    intro c hc d hd
    rcases List.mem_append.1 hc with hc | hc
    · exact hb.notAvail c hc d (hsub' d hd)
    · exact makeBatch_blocked_not_notChecked p avail htb h.availNodup c hc d hd
  constructor
  · intro ok
    refine ⟨?_, hnotAvail⟩
    intro c hc d hd
    simp only [allJobs, List.flatMap_append, List.flatMap_cons, List.flatMap_nil, List.append_nil,
      List.mem_append] at hd
    rcases List.mem_append.1 hc with hc | hc
    · rcases hd with hd | hd
      · exact hb.notBatched c hc d hd
      · exact hb.notAvail c hc d (makeBatch_sub p avail d hd)
    · rcases hd with hd | hd
      · exact hnew_acc c hc d hd
      · exact hnew_batch c hc d hd
  · refine ⟨?_, hnotAvail⟩
    intro c hc d hd
    rcases List.mem_append.1 hc with hc | hc
    · exact hb.notBatched c hc d hd
    · exact hnew_acc c hc d hd

theorem submitLoop_blocked_disjoint (p : Params) (depth : Nat) (dryRun : Bool) (cands : List Cand)
    (htb : p.timeBased = false) :
    ∀ (fuel out : Nat) (avail : List Cand) (env : List Bool) (acc : List Submitted) (blk : List Cand),
      LoopInv p cands avail acc → BlkInv avail acc blk →
      ∀ c ∈ (submitLoop p depth dryRun fuel out avail env acc blk).blocked,
        ∀ d ∈ allJobs (submitLoop p depth dryRun fuel out avail env acc blk).batches, c.id ≠ d.id := by
  intro fuel
  induction fuel with
  | zero => intro out avail env acc blk _ hb; exact hb.notBatched
  | succ f ih =>
    intro out avail env acc blk h hb
    simp only [submitLoop]
    split
    · obtain ⟨h1, h2⟩ := loopInv_step h
      obtain ⟨b1, b2⟩ := blkInv_step htb h hb
      split
      · next hne => exact ih _ _ _ _ _ (h1 hne _) (b1 _)
      · exact ih _ _ _ _ _ h2 b2
    · exact hb.notBatched

/-- `_submit_batches`, size-based batching: no job is both in a batch and in the blocked list the round hands to
    `update_job_status` -/
theorem submitBatches_blocked_disjoint (p : Params) (depth : Nat) (dryRun : Bool) (out : Nat) (cands : List Cand)
    (env : List Bool) (hnd : (cands.map (·.id)).Nodup) (htb : p.timeBased = false) :
    ∀ c ∈ (submitBatches p depth dryRun out cands env).blocked,
      ∀ d ∈ allJobs (submitBatches p depth dryRun out cands env).batches, c.id ≠ d.id := by
  unfold submitBatches
  have hb : ∀ avail : List Cand, BlkInv avail [] [] :=
    fun _ => ⟨fun c hc => absurd hc (by simp), fun c hc => absurd hc (by simp)⟩
  exact submitLoop_blocked_disjoint p depth dryRun cands htb _ _ _ _ _ _ (loopInv_init p cands hnd) (hb _)

/-- time-based batching: the cursor rolls back over a job that is in the blocked dictionary — job 2 (blocked by 0) is
    marked blocked in the first pass, becomes unblocked in the second (0 rides along with its blocker 1), does not fit
    the time limit, and is handed to the next `_make_batch` call although the round already lists it as blocked -/
theorem rollback_hands_blocked_job_on :
    let r := (makeBatch { batchSize := 500, timeBased := true, tryAdd := true, maxTime := 1500 }
      [⟨0, [1], 10⟩, ⟨1, [], 10⟩, ⟨2, [0], 90⟩])
    r.batch.jobs.map (·.id) = [1, 0] ∧ r.blocked.map (·.id) = [2] ∧ r.notChecked.map (·.id) = [2] := by decide

end Jade.Batch
