import JadeModel.Proofs.BatchBlockedFull

/-!
Steps (2) and (3) of the plan of DESIGN 0.9: the blocked / submitted disjointness of one `_submit_batches` call for ANY
batching mode (size-based or time-based).
-/

namespace Jade.Batch
open Jade.Gen.Batch

theorem eq_of_id_eq (l : List Cand) (hnd : (l.map (·.id)).Nodup) (a b : Cand) (ha : a ∈ l) (hb : b ∈ l)
    (h : a.id = b.id) : a = b := by
  obtain ⟨i, hi⟩ := List.getElem?_of_mem ha
  obtain ⟨j, hj⟩ := List.getElem?_of_mem hb
  have := nodup_map_index_inj (·.id) l hnd i j a b hi hj h
  subst this
  rw [hi] at hj; exact Option.some.inj hj

theorem idx_not_notChecked (p : Params) (avail : List Cand) (hnd : (avail.map (·.id)).Nodup) (c : Cand) (k : Nat)
    (hk : avail[k]? = some c) (hle : (k : Int) ≤ (makeBatch p avail).hi) :
    ∀ d ∈ (makeBatch p avail).notChecked, c.id ≠ d.id := by
  intro d hd heq
  obtain ⟨m, hm, hmle⟩ := makeBatch_notChecked_drop p avail
  rw [hm] at hd
  obtain ⟨j, hj⟩ := List.getElem?_of_mem hd
  rw [List.getElem?_drop] at hj
  have := nodup_map_index_inj (·.id) avail hnd k (m + j) c d hk hj heq
  have hlo := (makeBatch_good p avail).1.hiLo
  simp only [makeBatch] at hmle hle hlo
  omega

structure BlkInv2 (cands avail : List Cand) (acc : List Submitted) (blk : List Cand) : Prop where
  sub : ∀ c ∈ blk, c ∈ cands
  notBatched : ∀ c ∈ blk, ∀ d ∈ allJobs acc, c.id ≠ d.id
  notAvail : ∀ c ∈ blk, (∀ d ∈ avail, c.id ≠ d.id) ∨ (∃ x ∈ c.blockedBy, x ∈ (allJobs acc).map (·.id))

/-- a candidate one of whose blockers sits in an earlier batch of the round is never placed -/
theorem doomed_not_in_batch {p : Params} {cands avail acc} (hnd : (cands.map (·.id)).Nodup)
    (h : LoopInv p cands avail acc) (c : Cand) (hc : c ∈ cands)
    (hx : ∃ x ∈ c.blockedBy, x ∈ (allJobs acc).map (·.id)) :
    ∀ d ∈ (makeBatch p avail).batch.jobs, c.id ≠ d.id := by
  intro d hd heq
  have hda : d ∈ avail := makeBatch_sub p avail d hd
  have hcd : c = d := eq_of_id_eq cands hnd c d hc (h.sub d hda) heq
  subst hcd
  obtain ⟨x, hxb, hxa⟩ := hx
  rcases makeBatch_blk p avail c hd with h0 | ⟨-, hall⟩
  · rw [h0] at hxb; cases hxb
  · have hxn := hall x hxb
    obtain ⟨e, he, hex⟩ := List.mem_map.1 hxn
    obtain ⟨g, hg, hgx⟩ := List.mem_map.1 hxa
    exact h.disj g hg e (makeBatch_sub p avail e he) (by rw [hgx, hex])

theorem blkInv2_step {p : Params} {cands avail acc blk} (hnd : (cands.map (·.id)).Nodup)
    (h : LoopInv p cands avail acc) (hb : BlkInv2 cands avail acc blk) (acc' : List Submitted)
    (hall : allJobs acc' = allJobs acc ++ (makeBatch p avail).batch.jobs) :
    BlkInv2 cands (makeBatch p avail).notChecked acc' (blk ++ (makeBatch p avail).blocked) := by
  obtain ⟨k, hk, -⟩ := makeBatch_notChecked_drop p avail
  have hsub' : ∀ c ∈ (makeBatch p avail).notChecked, c ∈ avail := by
    intro c hc; rw [hk] at hc; exact List.mem_of_mem_drop hc
  refine ⟨?_, ?_, ?_⟩
  · intro c hc
    rcases List.mem_append.1 hc with hc | hc
    · exact hb.sub c hc
    · exact h.sub c (makeBatch_blocked_disjoint p avail c hc).1
  · intro c hc d hd
    rw [hall] at hd
    rcases List.mem_append.1 hc with hc | hc
    · rcases List.mem_append.1 hd with hd | hd
      · exact hb.notBatched c hc d hd
      · rcases hb.notAvail c hc with hl | hr
        · exact hl d (makeBatch_sub p avail d hd)
        · exact doomed_not_in_batch hnd h c (hb.sub c hc) hr d hd
    · rcases List.mem_append.1 hd with hd | hd
      · intro heq; exact h.disj d hd c (makeBatch_blocked_disjoint p avail c hc).1 heq.symm
      · intro heq
        apply (makeBatch_blocked_disjoint p avail c hc).2
        rw [heq]; exact List.mem_map.2 ⟨d, hd, rfl⟩
  · intro c hc
    rcases List.mem_append.1 hc with hc | hc
    · rcases hb.notAvail c hc with hl | ⟨x, hxb, hxa⟩
      · exact .inl fun d hd => hl d (hsub' d hd)
      · refine .inr ⟨x, hxb, ?_⟩
        rw [hall, List.map_append]; exact List.mem_append_left _ hxa
    · obtain ⟨hne, hr⟩ := makeBatch_blocked_looked_at_or_doomed p avail c hc
      rcases hr with ⟨i, hi, hle⟩ | hr
      · exact .inl (idx_not_notChecked p avail h.availNodup c i hi hle)
      · obtain ⟨x, hx⟩ := List.exists_mem_of_ne_nil _ hne
        refine .inr ⟨x, hx, ?_⟩
        rw [hall, List.map_append]; exact List.mem_append_right _ (hr x hx)

theorem submitLoop_blocked_disjoint_all (p : Params) (depth : Nat) (dryRun : Bool) (cands : List Cand)
    (hnd : (cands.map (·.id)).Nodup) :
    ∀ (fuel out : Nat) (avail : List Cand) (env : List Bool) (acc : List Submitted) (blk : List Cand),
      LoopInv p cands avail acc → BlkInv2 cands avail acc blk →
      ∀ c ∈ (submitLoop p depth dryRun fuel out avail env acc blk).blocked,
        ∀ d ∈ allJobs (submitLoop p depth dryRun fuel out avail env acc blk).batches, c.id ≠ d.id := by
  intro fuel
  induction fuel with
  | zero => intro out avail env acc blk _ hb; exact hb.notBatched
  | succ f ih =>
    intro out avail env acc blk h hb
    simp only [submitLoop]
    split
    · obtain ⟨h1, h2⟩ := loopInv_step h
      split
      · next hne =>
        exact ih _ _ _ _ _ (h1 hne _) (blkInv2_step hnd h hb _ (by simp [allJobs]))
      · next hne =>
        have hempty : (makeBatch p avail).batch.jobs = [] := by
          have : ¬ 0 < (makeBatch p avail).batch.jobs.length := fun hp => hne ((batchNonEmpty_iff _).2 hp)
          exact List.length_eq_zero_iff.1 (by omega)
        exact ih _ _ _ _ _ h2 (blkInv2_step hnd h hb acc (by rw [hempty]; simp))
    · exact hb.notBatched

/-- **`_submit_batches`, any batching mode**: no job is both in a batch and in the blocked list the round hands to
    `update_job_status` -/
theorem submitBatches_blocked_disjoint_all (p : Params) (depth : Nat) (dryRun : Bool) (out : Nat) (cands : List Cand)
    (env : List Bool) (hnd : (cands.map (·.id)).Nodup) :
    ∀ c ∈ (submitBatches p depth dryRun out cands env).blocked,
      ∀ d ∈ allJobs (submitBatches p depth dryRun out cands env).batches, c.id ≠ d.id := by
  unfold submitBatches
  have hb : ∀ avail : List Cand, BlkInv2 cands avail [] [] :=
    fun _ => ⟨fun c hc => absurd hc (by simp), fun c hc => absurd hc (by simp), fun c hc => absurd hc (by simp)⟩
  exact submitLoop_blocked_disjoint_all p depth dryRun cands hnd _ _ _ _ _ _ (loopInv_init p cands hnd) (hb _)

end Jade.Batch
