import JadeModel.Proofs.BatchBlocked

/-!
`_make_batch`, any batching mode: every job it reports as blocked has a non-empty blocker list and either was looked at for
good (its index is at or below the cursor) or has *all its blockers in the batch just made* — the only way to be above the
cursor is the roll-back after a time-limit refusal, which happens in the not-blocked branch.  First step of the proof plan
for the full blocked/submitted disjointness (DESIGN 0.9).
-/

namespace Jade.Batch
open Jade.Gen.Batch

@[reducible] def BlkIdx2 (avail : List Cand) (s : MState) : Prop :=
  ∀ c ∈ s.blocked, c.blockedBy ≠ [] ∧
    ((∃ k : Nat, avail[k]? = some c ∧ (k : Int) ≤ s.hi) ∨ (∀ x ∈ c.blockedBy, x ∈ s.b.names))

theorem blkIdx2_init (avail : List Cand) : BlkIdx2 avail .init := by
  intro c hc; simp [MState.init] at hc

theorem bump_blkIdx2 {avail s} (i : Nat) (h : BlkIdx2 avail s) :
    BlkIdx2 avail (bump i s) ∧ (i : Int) ≤ (bump i s).hi ∧ (bump i s).b = s.b := by
  unfold bump
  split
  · next hb =>
    have := (cursorBump_iff _ _).1 hb
    refine ⟨?_, by simp, rfl⟩
    intro c hc
    obtain ⟨hne, hr⟩ := h c hc
    refine ⟨hne, ?_⟩
    rcases hr with ⟨k, hk, hle⟩ | hr
    · exact .inl ⟨k, hk, by simp only; omega⟩
    · exact .inr hr
  · next hb =>
    have : ¬ s.hi < (i : Int) := fun hlt => hb ((cursorBump_iff _ _).2 hlt)
    exact ⟨h, by omega, rfl⟩

theorem markBlocked_blkIdx2 {avail s} (i : Nat) (c : Cand) (hget : avail[i]? = some c) (hile : (i : Int) ≤ s.hi)
    (hne : c.blockedBy ≠ []) (h : BlkIdx2 avail s) : BlkIdx2 avail (markBlocked c s) := by
  unfold markBlocked
  split
  · exact h
  · intro d hd
    simp only [List.mem_append, List.mem_singleton] at hd
    rcases hd with hd | hd
    · exact h d hd
    · subst hd; exact ⟨hne, .inl ⟨i, hget, hile⟩⟩

theorem appendJob_names (p : Params) (b : BState) (c : Cand) : (appendJob p b c).names = b.names ++ [c.id] := by
  simp [appendJob, BState.names]

theorem place_blkIdx2 {avail s} (p : Params) (c : Cand) (h : BlkIdx2 avail s) :
    BlkIdx2 avail (place (appendJob p s.b c) c s) := by
  intro d hd
  simp only [place] at hd
  obtain ⟨hne, hr⟩ := h d (List.mem_filter.1 hd).1
  refine ⟨hne, ?_⟩
  rcases hr with hr | hr
  · exact .inl hr
  · refine .inr fun x hx => ?_
    show x ∈ (appendJob p s.b c).names
    rw [appendJob_names]; exact List.mem_append_left _ (hr x hx)

theorem refuse_blkIdx2 {p : Params} {avail s} (i : Nat) (c : Cand) (hget : avail[i]? = some c)
    (hunb : isJobBlocked c.blockedBy p.tryAdd s.b.names = false) (h : BlkIdx2 avail s) :
    BlkIdx2 avail (refuse { s.b with ready := true } i s) := by
  unfold refuse
  split
  · next hrb =>
    have hi := (cursorRollback_iff _ _).1 hrb
    intro d hd
    obtain ⟨hne, hr⟩ := h d hd
    refine ⟨hne, ?_⟩
    rcases hr with ⟨k, hk, hle⟩ | hr
    · by_cases hki : k = i
      · -- the refused job itself: it is in the not-blocked branch, all its blockers are in the batch
        subst hki
        have hdc : d = c := by rw [hget] at hk; exact (Option.some.inj hk).symm
        subst hdc
        rcases isJobBlocked_false _ _ _ hunb with h0 | ⟨-, hall⟩
        · exact absurd h0 hne
        · exact .inr hall
      · exact .inl ⟨k, hk, by simp only; omega⟩
    · exact .inr hr
  · intro d hd
    obtain ⟨hne, hr⟩ := h d hd
    exact ⟨hne, hr⟩

theorem markDone_blkIdx2 {avail s} (n : Nat) (h : BlkIdx2 avail s) : BlkIdx2 avail (markDone n s) := by
  unfold markDone; split <;> exact h

theorem consider_blkIdx2 {p : Params} {avail s} (n i : Nat) (c : Cand)
    (hget : avail[i]? = some c) (hile : (i : Int) ≤ s.hi) (h : BlkIdx2 avail s) :
    BlkIdx2 avail (consider p n i c s) := by
  unfold consider
  apply markDone_blkIdx2
  split
  · next hb =>
    have hne : c.blockedBy ≠ [] := by
      intro h0; rw [h0, isJobBlocked_nil] at hb; cases hb
    exact markBlocked_blkIdx2 i c hget hile hne h
  · next hunb =>
    have hunb' : isJobBlocked c.blockedBy p.tryAdd s.b.names = false := by simpa using hunb
    split
    · next b' hta =>
      obtain ⟨hb', -⟩ := tryAppend_true p s.b b' c hta
      subst hb'
      exact place_blkIdx2 p c h
    · next b' hta =>
      obtain ⟨hb', -⟩ := tryAppend_false p s.b b' c hta
      subst hb'
      exact refuse_blkIdx2 i c hget hunb' h

theorem visit_blkIdx2 {p : Params} {avail s} (n i : Nat) (c : Cand)
    (hget : avail[i]? = some c) (h : BlkIdx2 avail s) : BlkIdx2 avail (visit p n s i c) := by
  unfold visit
  split
  · exact h
  · obtain ⟨hb, hile, -⟩ := bump_blkIdx2 i h
    show BlkIdx2 avail (if skipBatched ((bump i s).b.names.contains c.id) = true then bump i s else consider p n i c (bump i s))
    split
    · exact hb
    · exact consider_blkIdx2 n i c hget hile hb

theorem scan_blkIdx2 {p : Params} {avail} (n : Nat) (cs : List Cand) (i : Nat) (s : MState)
    (hcs : ∀ k c, cs[k]? = some c → avail[i + k]? = some c) (h : BlkIdx2 avail s) :
    BlkIdx2 avail (scan p n i cs s) := by
  induction cs generalizing i s with
  | nil => simpa [scan] using h
  | cons c cs ih =>
    simp only [scan]
    apply ih
    · intro k d hk
      have := hcs (k + 1) d (by simpa using hk)
      rwa [show i + 1 + k = i + (k + 1) by omega]
    · exact visit_blkIdx2 n i c (by simpa using hcs 0 c (by simp)) h

theorem passes_blkIdx2 {p : Params} {avail} (n : Nat) (s : MState) (h : BlkIdx2 avail s) :
    BlkIdx2 avail (passes p avail n s) := by
  induction n generalizing s with
  | zero => simpa [passes] using h
  | succ n ih =>
    simp only [passes]
    split
    · exact h
    · exact ih _ (scan_blkIdx2 _ avail 0 s (by intro k c hk; simpa using hk) h)

/-- **`_make_batch`, any batching mode**: a job reported as blocked has blockers, and either lies at or below the cursor or
    has all its blockers in the batch just made -/
theorem makeBatch_blocked_looked_at_or_doomed (p : Params) (avail : List Cand) :
    ∀ c ∈ (makeBatch p avail).blocked, c.blockedBy ≠ [] ∧
      ((∃ k : Nat, avail[k]? = some c ∧ (k : Int) ≤ (makeBatch p avail).hi) ∨
        (∀ x ∈ c.blockedBy, x ∈ (makeBatch p avail).batch.names)) :=
  passes_blkIdx2 _ _ (blkIdx2_init avail)

end Jade.Batch
