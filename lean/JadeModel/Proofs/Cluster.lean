import JadeModel.Model.Cluster

/-!
Helper lemmas for `Model/Cluster.lean`.

Section 1 characterises the generated predicates (one lemma each: a change of the generated text breaks
exactly that lemma).  Everything else is proved from these characterisations.
-/

namespace Jade.Cluster
open Jade.Gen.Cluster

/-! ## 1. generated predicates -/

theorem cfgVersionMismatch_iff (a b : Nat) : cfgVersionMismatch a b = true ↔ a ≠ b := by
  simp [cfgVersionMismatch]

theorem jsVersionMismatch_iff (a b : Nat) : jsVersionMismatch a b = true ↔ a ≠ b := by
  simp [jsVersionMismatch]

theorem checkCfgMismatch_iff (a b : Nat) : checkCfgMismatch a b = true ↔ a ≠ b := by
  simp [checkCfgMismatch]

theorem checkJsMismatch_iff (a b : Nat) : checkJsMismatch a b = true ↔ a ≠ b := by
  simp [checkJsMismatch]

theorem promoteRefused_iff (s : Option Nat) : promoteRefused s = true ↔ s ≠ none := by
  cases s <;> simp [promoteRefused, hasSubmitter]

theorem demoteAssert_iff (s : Option Nat) (h : Nat) : demoteAssert s h = true ↔ s = some h := by
  simp [demoteAssert, amISubmitter]

theorem cfgChanged_iff (c : CfgView) (x y : Option Snap) :
    cfgChanged (Snap.cfg c) x y = true ↔ x ≠ some (Snap.cfg c) := by
  unfold cfgChanged
  rw [bne_iff_ne]
  constructor <;> intro h h' <;> exact h h'.symm

theorem cfgVersionBump_eq (v : Nat) : cfgVersionBump v = v + 1 := rfl
theorem jsVersionBump_eq (v : Nat) : jsVersionBump v = v + 1 := rfl

theorem markCompleteAssert_iff (b : Bool) : markCompleteAssert b = true ↔ b = false := by
  cases b <;> simp [markCompleteAssert]

theorem resubmitAssert_iff (b : Bool) : resubmitAssert b = true ↔ b = true := by
  simp [resubmitAssert]

theorem submitAssert_iff (st : JState) : submitAssert st = true ↔ st ≠ .submitted := by
  cases st <;> simp [submitAssert]

theorem blockedAssert_iff (st : JState) : blockedAssert st = true ↔ st = .notSubmitted := by
  cases st <;> simp [blockedAssert]

theorem completeAssert_iff (b : Bool) : completeAssert b = true ↔ b = false := by
  cases b <;> simp [completeAssert]

theorem clearBlockers_iff (bl : List Nat) (st : JState) :
    clearBlockers bl st = true ↔ bl ≠ [] ∧ (st = .submitted ∨ st = .done) := by
  cases st <;> cases bl <;> simp [clearBlockers]

theorem submittedAfterSubmit_eq (n : Nat) : submittedAfterSubmit n = n + 1 := rfl
theorem submittedAfterCancel_eq (n : Nat) : submittedAfterCancel n = n + 1 := rfl
theorem completedAfterComplete_eq (n : Nat) : completedAfterComplete n = n + 1 := rfl
theorem submitNewState_eq : submitNewState = JState.submitted := rfl
theorem completeNewState_eq : completeNewState = JState.done := rfl
theorem markerAfterException_eq : markerAfterException = true := rfl
theorem resubmitLocked_eq : resubmitLocked = false := rfl

/-! ## 2. serialization -/

/-- the three outcomes of `_serialize` -/
theorem serializeCfg_cases (d : Disk) (x : Handle) :
    (x.cfg.version ≠ d.cfgVer ∧ serializeCfg d x = (d, x, some .versionMismatch)) ∨
    (x.cfg.version = d.cfgVer ∧ x.cfgHash = some (Snap.cfg x.cfg) ∧ serializeCfg d x = (d, x, none)) ∨
    (x.cfg.version = d.cfgVer ∧ x.cfgHash ≠ some (Snap.cfg x.cfg) ∧
      serializeCfg d x =
        ({ d with cfgVer := x.cfg.version + 1, cfg := { x.cfg with version := x.cfg.version + 1 }, cfgMissing := false },
         { x with cfg := { x.cfg with version := x.cfg.version + 1 },
                  cfgHash := some (Snap.cfg { x.cfg with version := x.cfg.version + 1 }) }, none)) := by
  unfold serializeCfg
  by_cases hv : x.cfg.version = d.cfgVer
  · have h1 : cfgVersionMismatch x.cfg.version d.cfgVer = false := by
      rw [Bool.eq_false_iff, ne_eq, cfgVersionMismatch_iff]; simpa using hv
    by_cases hc : x.cfgHash = some (Snap.cfg x.cfg)
    · have h2 : cfgChanged (Snap.cfg x.cfg) x.cfgHash x.jsHash = false := by
        rw [Bool.eq_false_iff, ne_eq, cfgChanged_iff]; simpa using hc
      right; left
      refine ⟨hv, hc, ?_⟩
      rw [h1, h2]; rfl
    · have h2 : cfgChanged (Snap.cfg x.cfg) x.cfgHash x.jsHash = true := (cfgChanged_iff _ _ _).2 hc
      right; right
      refine ⟨hv, hc, ?_⟩
      rw [h1, h2]; rfl
  · left
    have h1 : cfgVersionMismatch x.cfg.version d.cfgVer = true := (cfgVersionMismatch_iff _ _).2 hv
    refine ⟨hv, ?_⟩
    rw [h1]; rfl

/-- the outcomes of `_serialize_jobs` -/
theorem serializeJs_cases (d : Disk) (x : Handle) (j : JsView) :
    (j.version ≠ d.jsVer ∧ serializeJs d x j = (d, x, some .versionMismatch)) ∨
    (j.version = d.jsVer ∧ jsChanged (Snap.js j) x.cfgHash x.jsHash = false ∧ serializeJs d x j = (d, x, none)) ∨
    (j.version = d.jsVer ∧ jsChanged (Snap.js j) x.cfgHash x.jsHash = true ∧
      serializeJs d x j =
        ({ d with jsVer := j.version + 1, js := { j with version := j.version + 1 } },
         { x with js := some { j with version := j.version + 1 },
                  jsHash := some (Snap.js { j with version := j.version + 1 }) }, none)) := by
  unfold serializeJs
  by_cases hv : j.version = d.jsVer
  · have h1 : jsVersionMismatch j.version d.jsVer = false := by
      rw [Bool.eq_false_iff, ne_eq, jsVersionMismatch_iff]; simpa using hv
    by_cases hc : jsChanged (Snap.js j) x.cfgHash x.jsHash = true
    · right; right
      refine ⟨hv, hc, ?_⟩
      rw [h1, hc]; rfl
    · right; left
      have hc' : jsChanged (Snap.js j) x.cfgHash x.jsHash = false := by simpa using hc
      refine ⟨hv, hc', ?_⟩
      rw [h1, hc']; rfl
  · left
    have h1 : jsVersionMismatch j.version d.jsVer = true := (jsVersionMismatch_iff _ _).2 hv
    refine ⟨hv, ?_⟩
    rw [h1]; rfl

/-! ## 3. `_update_job_status` loops: what they never touch -/

/-- fields of the in-memory pair that no loop of `_update_job_status` changes -/
structure Frame (m m' : Mem) : Prop where
  version : m'.cfg.version = m.cfg.version
  submitter : m'.cfg.submitter = m.cfg.submitter
  numJobs : m'.cfg.numJobs = m.cfg.numJobs
  isComplete : m'.cfg.isComplete = m.cfg.isComplete
  isCanceled : m'.cfg.isCanceled = m.cfg.isCanceled
  jsVersion : m'.js.version = m.js.version
  length : m'.js.jobs.length = m.js.jobs.length

theorem Frame.refl (m : Mem) : Frame m m := ⟨rfl, rfl, rfl, rfl, rfl, rfl, rfl⟩

theorem Frame.trans {a b c : Mem} (h1 : Frame a b) (h2 : Frame b c) : Frame a c :=
  ⟨h2.1.trans h1.1, h2.2.trans h1.2, h2.3.trans h1.3, h2.4.trans h1.4, h2.5.trans h1.5, h2.6.trans h1.6,
   h2.7.trans h1.7⟩

theorem forEach_frame {α : Type} (f : α → Mem → Mem × Option Err) (hf : ∀ a m, Frame m (f a m).1) :
    ∀ (l : List α) (m : Mem), Frame m (forEach f l m).1 := by
  intro l
  induction l with
  | nil => intro m; exact Frame.refl m
  | cons a as ih =>
    intro m
    have h1 := hf a m
    unfold forEach
    split
    · next m' heq => rw [heq] at h1; exact h1.trans (ih m')
    · next r hne => exact h1

theorem forEach_nil {α : Type} (f : α → Mem → Mem × Option Err) (m : Mem) : forEach f [] m = (m, none) := rfl

theorem forEach_cons_ok {α : Type} (f : α → Mem → Mem × Option Err) (a : α) (as : List α) (m m' : Mem)
    (h : f a m = (m', none)) : forEach f (a :: as) m = forEach f as m' := by
  rw [forEach, h]

theorem forEach_cons_err {α : Type} (f : α → Mem → Mem × Option Err) (a : α) (as : List α) (m m' : Mem) (e : Err)
    (h : f a m = (m', some e)) : forEach f (a :: as) m = (m', some e) := by
  rw [forEach, h]

theorem submitOne_frame (j : JobId) (m : Mem) : Frame m (submitOne j m).1 := by
  unfold submitOne
  split
  · exact Frame.refl m
  · split
    · exact ⟨rfl, rfl, rfl, rfl, rfl, rfl, by simp [Mem.setJob]⟩
    · exact Frame.refl m

theorem blockOne_frame (b : JobId × List JobId) (m : Mem) : Frame m (blockOne b m).1 := by
  unfold blockOne
  split
  · exact Frame.refl m
  · split
    · exact ⟨rfl, rfl, rfl, rfl, rfl, rfl, by simp [Mem.setJob]⟩
    · exact Frame.refl m

theorem cancelOne_frame (j : JobId) (m : Mem) : Frame m (cancelOne j m).1 :=
  ⟨rfl, rfl, rfl, rfl, rfl, rfl, rfl⟩

theorem completeOne_frame (p : List JobId) (j : JobId) (m : Mem) : Frame m (completeOne p j m).1 := by
  unfold completeOne
  split
  · split
    · exact Frame.refl m
    · exact ⟨rfl, rfl, rfl, rfl, rfl, rfl, by simp [Mem.setJob]⟩
  · exact Frame.refl m

theorem andThen_frame (m0 : Mem) (r : Mem × Option Err) (f : Mem → Mem × Option Err) (h1 : Frame m0 r.1)
    (hf : ∀ m, Frame m (f m).1) : Frame m0 (andThen r f).1 := by
  rcases r with ⟨m, e⟩
  cases e with
  | none => exact h1.trans (hf m)
  | some e => exact h1

theorem applyUpdate_frame (a : UpdateArgs) (m : Mem) : Frame m (applyUpdate a m).1 := by
  unfold applyUpdate
  apply andThen_frame
  · apply andThen_frame
    · apply andThen_frame
      · apply andThen_frame
        · exact Frame.trans (b := { m with js := { m.js with hpcIds := a.hpcIds, batchIdx := a.batchIdx } })
            ⟨rfl, rfl, rfl, rfl, rfl, rfl, rfl⟩ (forEach_frame _ submitOne_frame _ _)
        · exact forEach_frame _ blockOne_frame _
      · exact forEach_frame _ cancelOne_frame _
    · exact forEach_frame _ (completeOne_frame _) _
  · intro m; exact ⟨rfl, rfl, rfl, rfl, rfl, rfl, by simp [clearAll]⟩

/-- the loops of `_update_job_status` raise nothing but AssertionError and KeyError -/
def UpdErr (e : Option Err) : Prop := e = none ∨ e = some .assertion ∨ e = some .keyError

theorem forEach_err {α : Type} (f : α → Mem → Mem × Option Err) (hf : ∀ a m, UpdErr (f a m).2) :
    ∀ (l : List α) (m : Mem), UpdErr (forEach f l m).2 := by
  intro l
  induction l with
  | nil => intro m; exact Or.inl rfl
  | cons a as ih =>
    intro m
    have h1 := hf a m
    unfold forEach
    split
    · next m' heq => exact ih m'
    · next r hne => exact h1

theorem andThen_err (r : Mem × Option Err) (f : Mem → Mem × Option Err) (h1 : UpdErr r.2)
    (hf : ∀ m, UpdErr (f m).2) : UpdErr (andThen r f).2 := by
  rcases r with ⟨m, e⟩
  cases e with
  | none => exact hf m
  | some e => exact h1

theorem applyUpdate_err (a : UpdateArgs) (m : Mem) : UpdErr (applyUpdate a m).2 := by
  unfold applyUpdate
  apply andThen_err
  · apply andThen_err
    · apply andThen_err
      · apply andThen_err
        · apply forEach_err
          intro j m; unfold submitOne
          split
          · exact Or.inr (Or.inr rfl)
          · split
            · exact Or.inl rfl
            · exact Or.inr (Or.inl rfl)
        · intro m; apply forEach_err
          intro b m; unfold blockOne
          split
          · exact Or.inr (Or.inr rfl)
          · split
            · exact Or.inl rfl
            · exact Or.inr (Or.inl rfl)
      · intro m; apply forEach_err
        intro j m; exact Or.inl rfl
    · intro m; apply forEach_err
      intro j m; unfold completeOne
      split
      · split
        · exact Or.inr (Or.inr rfl)
        · exact Or.inl rfl
      · exact Or.inr (Or.inl rfl)
  · intro m; exact Or.inl rfl

/-! ## 4. effect of a private method on the disk and on the acting handle -/

/-- the config pair: untouched, or written by a handle whose copy was current -/
def EffCfg (d : Disk) (x : Handle) (d' : Disk) (x' : Handle) : Prop :=
  (d'.cfg = d.cfg ∧ d'.cfgVer = d.cfgVer ∧ d'.cfgMissing = d.cfgMissing ∧
     x'.cfg.version = x.cfg.version ∧ x'.cfgHash = x.cfgHash) ∨
  (x.cfg.version = d.cfgVer ∧ d'.cfgVer = d.cfgVer + 1 ∧ d'.cfg = x'.cfg ∧ d'.cfgMissing = false ∧
     x'.cfg.version = d.cfgVer + 1 ∧ x'.cfgHash = some (Snap.cfg x'.cfg))

/-- the job-status pair: untouched (the handle keeps its copy's version or has just loaded the disk's), or written
    by a handle whose copy was current -/
def EffJs (d : Disk) (x : Handle) (d' : Disk) (x' : Handle) : Prop :=
  (d'.js = d.js ∧ d'.jsVer = d.jsVer ∧
     ∀ j' : JsView, x'.js = some j' → (∃ j : JsView, x.js = some j ∧ j'.version = j.version) ∨ j' = d.js) ∨
  (∃ j : JsView, x.js = some j ∧ j.version = d.jsVer ∧ d'.jsVer = d.jsVer + 1 ∧ x'.js = some d'.js ∧
     d'.js.version = d.jsVer + 1)

structure Eff (d : Disk) (x : Handle) (o : Out) : Prop where
  host : o.2.1.host = x.host
  marker : o.1.marker = d.marker
  cfg : EffCfg d x o.1 o.2.1
  js : EffJs d x o.1 o.2.1

/-- `_serialize` applied to a handle `x1` that differs from `x` only in in-memory config fields -/
theorem serializeCfg_eff (d : Disk) (x x1 : Handle) (hv : x1.cfg.version = x.cfg.version)
    (hh : x1.cfgHash = x.cfgHash) (hhost : x1.host = x.host) (hjs : x1.js = x.js) :
    (serializeCfg d x1).2.1.host = x.host ∧ (serializeCfg d x1).1.marker = d.marker ∧
    EffCfg d x (serializeCfg d x1).1 (serializeCfg d x1).2.1 ∧
    (serializeCfg d x1).1.js = d.js ∧ (serializeCfg d x1).1.jsVer = d.jsVer ∧
    (serializeCfg d x1).2.1.js = x.js ∧ (serializeCfg d x1).2.1.jsHash = x1.jsHash ∧
    ((serializeCfg d x1).2.2 = none ∨ (serializeCfg d x1).2.2 = some .versionMismatch) := by
  rcases serializeCfg_cases d x1 with ⟨h1, h2⟩ | ⟨h1, h2, h3⟩ | ⟨h1, h2, h3⟩
  · rw [h2]; exact ⟨hhost, rfl, Or.inl ⟨rfl, rfl, rfl, hv, hh⟩, rfl, rfl, hjs, rfl, Or.inr rfl⟩
  · rw [h3]; exact ⟨hhost, rfl, Or.inl ⟨rfl, rfl, rfl, hv, hh⟩, rfl, rfl, hjs, rfl, Or.inl rfl⟩
  · rw [h3]
    refine ⟨hhost, rfl, Or.inr ⟨by rw [← hv]; exact h1, ?_, rfl, rfl, ?_, rfl⟩, rfl, rfl, hjs, rfl, Or.inl rfl⟩
    · simp only; rw [h1]
    · simp only; rw [h1]

/-- `_serialize_jobs` of job status `j` held by `x1`, seen from a handle `x` whose copy has the same version, and from a
    disk `d0` with the same job-status pair -/
theorem serializeJs_eff (d0 d : Disk) (x x1 : Handle) (j : JsView) (hd : d.js = d0.js) (hd' : d.jsVer = d0.jsVer)
    (hx : ∃ j0 : JsView, x.js = some j0 ∧ j0.version = j.version) (hx1 : x1.js = some j) :
    (serializeJs d x1 j).2.1.host = x1.host ∧ (serializeJs d x1 j).1.marker = d.marker ∧
    EffJs d0 x (serializeJs d x1 j).1 (serializeJs d x1 j).2.1 ∧
    (serializeJs d x1 j).1.cfg = d.cfg ∧ (serializeJs d x1 j).1.cfgVer = d.cfgVer ∧
    (serializeJs d x1 j).1.cfgMissing = d.cfgMissing ∧
    (serializeJs d x1 j).2.1.cfg = x1.cfg ∧ (serializeJs d x1 j).2.1.cfgHash = x1.cfgHash ∧
    ((serializeJs d x1 j).2.2 = none ∨ (serializeJs d x1 j).2.2 = some .versionMismatch) := by
  obtain ⟨j0, hj0, hjv⟩ := hx
  rcases serializeJs_cases d x1 j with ⟨h1, h2⟩ | ⟨h1, h2, h3⟩ | ⟨h1, h2, h3⟩
  · rw [h2]
    refine ⟨rfl, rfl, Or.inl ⟨hd, hd', ?_⟩, rfl, rfl, rfl, rfl, rfl, Or.inr rfl⟩
    intro j' hj'
    left
    refine ⟨j0, hj0, ?_⟩
    simp only at hj'
    rw [hx1] at hj'
    cases hj'
    exact hjv.symm
  · rw [h3]
    refine ⟨rfl, rfl, Or.inl ⟨hd, hd', ?_⟩, rfl, rfl, rfl, rfl, rfl, Or.inl rfl⟩
    intro j' hj'
    left
    refine ⟨j0, hj0, ?_⟩
    simp only at hj'
    rw [hx1] at hj'
    cases hj'
    exact hjv.symm
  · rw [h3]
    refine ⟨rfl, rfl, Or.inr ⟨j0, hj0, ?_, ?_, rfl, ?_⟩, rfl, rfl, rfl, rfl, rfl, Or.inl rfl⟩
    · rw [hjv, h1, hd']
    · simp only; rw [h1, hd']
    · simp only; rw [h1, hd']

/-- `_serialize` followed by `_serialize_jobs` -/
theorem serializeBoth_eff (d : Disk) (x x1 : Handle) (j : JsView) (hv : x1.cfg.version = x.cfg.version)
    (hh : x1.cfgHash = x.cfgHash) (hhost : x1.host = x.host)
    (hx : ∃ j0 : JsView, x.js = some j0 ∧ j0.version = j.version) (hx1 : x1.js = some j) :
    Eff d x (serializeBoth d x1 j) := by
  have h1 := serializeCfg_eff d x1 x1 rfl rfl rfl rfl
  obtain ⟨c1, c2, c3, c4, c5, c6, c7, c8⟩ := h1
  unfold serializeBoth
  simp only
  split
  · next e he =>
    refine ⟨by simpa [hhost] using c1, c2, ?_, Or.inl ⟨c4, c5, ?_⟩⟩
    · rcases c3 with c3 | c3
      · left; rw [← hv, ← hh]; exact c3
      · right; rw [← hv]; exact c3
    · intro j' hj'
      left
      obtain ⟨j0, hj0, hjv⟩ := hx
      refine ⟨j0, hj0, ?_⟩
      simp only at hj'
      rw [c6, hx1] at hj'
      cases hj'
      exact hjv.symm
  · next he =>
    have h2 := serializeJs_eff d (serializeCfg d x1).1 x (serializeCfg d x1).2.1 j c4 c5 hx (by rw [c6]; exact hx1)
    obtain ⟨e1, e2, e3, e4, e5, e6, e7, e8, e9⟩ := h2
    refine ⟨by simp only; rw [e1, c1, hhost], by simp only; rw [e2, c2], ?_, e3⟩
    simp only
    rcases c3 with c3 | c3
    · left
      obtain ⟨a1, a2, a3, a4, a5⟩ := c3
      exact ⟨e4.trans a1, e5.trans a2, e6.trans a3, by rw [e7, a4, hv], by rw [e8, a5, hh]⟩
    · right
      obtain ⟨a1, a2, a3, a4, a5, a6⟩ := c3
      exact ⟨by rw [← hv]; exact a1, e5.trans a2, by rw [e4, e7]; exact a3, e6.trans a4, by rw [e7]; exact a5,
        by rw [e8, e7]; exact a6⟩

theorem serializeCfg_cfg (d : Disk) (x : Handle) :
    ∃ v : Nat, (serializeCfg d x).2.1.cfg = { x.cfg with version := v } := by
  rcases serializeCfg_cases d x with ⟨_, h2⟩ | ⟨_, _, h3⟩ | ⟨_, _, h3⟩
  · rw [h2]; exact ⟨x.cfg.version, rfl⟩
  · rw [h3]; exact ⟨x.cfg.version, rfl⟩
  · rw [h3]; exact ⟨x.cfg.version + 1, rfl⟩

theorem serializeJs_cfg (d : Disk) (x : Handle) (j : JsView) : (serializeJs d x j).2.1.cfg = x.cfg := by
  rcases serializeJs_cases d x j with ⟨_, h2⟩ | ⟨_, _, h3⟩ | ⟨_, _, h3⟩ <;> rw [‹serializeJs d x j = _›]

theorem serializeBoth_cfg (d : Disk) (x : Handle) (j : JsView) :
    ∃ v : Nat, (serializeBoth d x j).2.1.cfg = { x.cfg with version := v } := by
  unfold serializeBoth
  simp only
  split
  · exact serializeCfg_cfg d x
  · simp only [serializeJs_cfg]; exact serializeCfg_cfg d x

theorem serializeCfg_submitter (d : Disk) (x : Handle) :
    (serializeCfg d x).2.1.cfg.submitter = x.cfg.submitter := by
  obtain ⟨v, hv⟩ := serializeCfg_cfg d x; rw [hv]

theorem serializeBoth_submitter (d : Disk) (x : Handle) (j : JsView) :
    (serializeBoth d x j).2.1.cfg.submitter = x.cfg.submitter := by
  obtain ⟨v, hv⟩ := serializeBoth_cfg d x j; rw [hv]

/-- an outcome that leaves disk and (up to in-memory config fields) handle alone -/
theorem eff_noop (d : Disk) (x x1 : Handle) (r : Res) (hv : x1.cfg.version = x.cfg.version)
    (hh : x1.cfgHash = x.cfgHash) (hhost : x1.host = x.host)
    (hjs : ∀ j' : JsView, x1.js = some j' → (∃ j : JsView, x.js = some j ∧ j'.version = j.version) ∨ j' = d.js) :
    Eff d x (d, x1, r) :=
  ⟨hhost, rfl, Or.inl ⟨rfl, rfl, rfl, hv, hh⟩, Or.inl ⟨rfl, rfl, hjs⟩⟩

theorem keepJs (x : Handle) (d : Disk) :
    ∀ j' : JsView, x.js = some j' → (∃ j : JsView, x.js = some j ∧ j'.version = j.version) ∨ j' = d.js :=
  fun j' h => Or.inl ⟨j', h, rfl⟩

/-- a config-only method: in-memory change `x1`, then `_serialize` -/
theorem cfgOnly_eff (d : Disk) (x x1 : Handle) (f : Option Err → Res) (hv : x1.cfg.version = x.cfg.version)
    (hh : x1.cfgHash = x.cfgHash) (hhost : x1.host = x.host) (hjs : x1.js = x.js) :
    Eff d x ((serializeCfg d x1).1, (serializeCfg d x1).2.1, f (serializeCfg d x1).2.2) := by
  obtain ⟨c1, c2, c3, c4, c5, c6, _, _⟩ := serializeCfg_eff d x x1 hv hh hhost hjs
  refine ⟨c1, c2, c3, Or.inl ⟨c4, c5, ?_⟩⟩
  intro j' hj'
  simp only at hj'
  rw [c6] at hj'
  exact keepJs x d j' hj'

theorem doPromote_eff (d : Disk) (x : Handle) : Eff d x (doPromote d x) := by
  unfold doPromote
  split
  · exact eff_noop d x x _ rfl rfl rfl (keepJs x d)
  · exact cfgOnly_eff d x { x with cfg := { x.cfg with submitter := some x.host } }
      (fun e => match e with | none => .bool true | some e => .err e) rfl rfl rfl rfl

theorem doDemote_eff (d : Disk) (x : Handle) : Eff d x (doDemote d x) := by
  unfold doDemote
  split
  · exact cfgOnly_eff d x _ _ rfl rfl rfl rfl
  · exact eff_noop d x x _ rfl rfl rfl (keepJs x d)

theorem doMarkComplete_eff (d : Disk) (x : Handle) : Eff d x (doMarkComplete d x) := by
  unfold doMarkComplete
  split
  · exact cfgOnly_eff d x _ _ rfl rfl rfl rfl
  · exact eff_noop d x x _ rfl rfl rfl (keepJs x d)

theorem doMarkCanceled_eff (d : Disk) (x : Handle) : Eff d x (doMarkCanceled d x) :=
  cfgOnly_eff d x _ _ rfl rfl rfl rfl

theorem doDeserializeJobs_eff (d : Disk) (x : Handle) : Eff d x (doDeserializeJobs d x) := by
  unfold doDeserializeJobs
  refine eff_noop d x _ _ rfl rfl rfl ?_
  intro j' hj'
  right
  simp only at hj'
  cases hj'
  rfl

theorem doAllComplete_eff (d : Disk) (x : Handle) : Eff d x (doAllComplete d x) := by
  unfold doAllComplete
  split <;> exact eff_noop d x x _ rfl rfl rfl (keepJs x d)

theorem doCompleteHpcId_eff (id : Nat) (d : Disk) (x : Handle) : Eff d x (doCompleteHpcId id d x) := by
  unfold doCompleteHpcId
  split
  · exact eff_noop d x x _ rfl rfl rfl (keepJs x d)
  · next j hj =>
    split
    · obtain ⟨e1, e2, e3, e4, e5, e6, e7, e8, _⟩ :=
        serializeJs_eff d d x { x with js := some { j with hpcIds := j.hpcIds.erase id } }
          { j with hpcIds := j.hpcIds.erase id } rfl rfl ⟨j, hj, rfl⟩ rfl
      exact ⟨e1, e2, Or.inl ⟨e4, e5, e6, by rw [e7], e8⟩, e3⟩
    · exact eff_noop d x x _ rfl rfl rfl (keepJs x d)

theorem doUpdate_eff (a : UpdateArgs) (d : Disk) (x : Handle) : Eff d x (doUpdate a d x) := by
  unfold doUpdate
  split
  · exact eff_noop d x x _ rfl rfl rfl (keepJs x d)
  · split
    · exact eff_noop d x x _ rfl rfl rfl (keepJs x d)
    · next j hj =>
      have hf := applyUpdate_frame a { cfg := x.cfg, js := j }
      simp only
      split
      · refine eff_noop d x _ _ hf.version rfl rfl ?_
        intro j' hj'
        left
        simp only at hj'
        cases hj'
        exact ⟨j, hj, hf.jsVersion⟩
      · exact serializeBoth_eff d x _ _ hf.version rfl rfl ⟨j, hj, hf.jsVersion.symm⟩ rfl

theorem doPrepareResubmit_eff (sel : List JobId) (bl : List (JobId × List JobId)) (d : Disk) (x : Handle) :
    Eff d x (doPrepareResubmit sel bl d x) := by
  unfold doPrepareResubmit
  split
  · split
    · exact eff_noop d x _ _ rfl rfl rfl (keepJs x d)
    · next j hj => exact serializeBoth_eff d x _ _ rfl rfl rfl ⟨j, hj, rfl⟩ rfl
  · exact eff_noop d x x _ rfl rfl rfl (keepJs x d)

/-! ### the in-memory submitter field is only changed by promote / demote -/

theorem doMarkComplete_submitter (d : Disk) (x : Handle) :
    (doMarkComplete d x).2.1.cfg.submitter = x.cfg.submitter := by
  unfold doMarkComplete
  split
  · simp only [serializeCfg_submitter]
  · rfl

theorem doMarkCanceled_submitter (d : Disk) (x : Handle) :
    (doMarkCanceled d x).2.1.cfg.submitter = x.cfg.submitter := by
  unfold doMarkCanceled
  simp only [serializeCfg_submitter]

theorem doCompleteHpcId_submitter (id : Nat) (d : Disk) (x : Handle) :
    (doCompleteHpcId id d x).2.1.cfg.submitter = x.cfg.submitter := by
  unfold doCompleteHpcId
  split
  · rfl
  · split
    · simp only [serializeJs_cfg]
    · rfl

theorem doUpdate_submitter (a : UpdateArgs) (d : Disk) (x : Handle) :
    (doUpdate a d x).2.1.cfg.submitter = x.cfg.submitter := by
  unfold doUpdate
  split
  · rfl
  · split
    · rfl
    · next j hj =>
      have hf := applyUpdate_frame a { cfg := x.cfg, js := j }
      simp only
      split
      · exact hf.submitter
      · simp only [serializeBoth_submitter]
        exact hf.submitter

theorem doPrepareResubmit_submitter (sel : List JobId) (bl : List (JobId × List JobId)) (d : Disk) (x : Handle) :
    (doPrepareResubmit sel bl d x).2.1.cfg.submitter = x.cfg.submitter := by
  unfold doPrepareResubmit
  split
  · split
    · rfl
    · simp only [serializeBoth_submitter]
      rfl
  · rfl

theorem doDeserializeJobs_submitter (d : Disk) (x : Handle) :
    (doDeserializeJobs d x).2.1.cfg.submitter = x.cfg.submitter := rfl

theorem doAllComplete_submitter (d : Disk) (x : Handle) :
    (doAllComplete d x).2.1.cfg.submitter = x.cfg.submitter := by
  unfold doAllComplete
  split <;> rfl

end Jade.Cluster
