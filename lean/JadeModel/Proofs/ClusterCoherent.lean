import JadeModel.Proofs.ClusterRole

/-!
`Coherent`: what holds of the cluster files and of every handle after ANY sequence of API calls (no role protocol
assumed), as long as nobody tampers with the files behind the API's back.
-/

namespace Jade.Cluster
open Jade.Gen.Cluster

structure Coherent (s : Sys) : Prop where
  agreeCfg : s.disk.cfg.version = s.disk.cfgVer
  agreeJs : s.disk.js.version = s.disk.jsVer
  present : s.disk.cfgMissing = false
  le : ∀ (h : Hid) (x : Handle), s.handles h = some x → x.cfg.version ≤ s.disk.cfgVer
  cur : ∀ (h : Hid) (x : Handle), s.handles h = some x → x.cfg.version = s.disk.cfgVer →
    x.cfg.submitter = s.disk.cfg.submitter
  /-- the value behind a current handle's remembered config hash is the config on disk -/
  hash : ∀ (h : Hid) (x : Handle) (c : CfgView), s.handles h = some x → x.cfgHash = some (Snap.cfg c) →
    x.cfg.version = s.disk.cfgVer → c = s.disk.cfg
  /-- `_config_hash` never holds the hash of a job status -/
  hashWf : ∀ (h : Hid) (x : Handle) (j : JsView), s.handles h = some x → x.cfgHash ≠ some (Snap.js j)

theorem Coherent.generic {s : Sys} (hI : Coherent s) (h : Hid) (x : Handle) (o : Out) (m : Bool)
    (hx : s.handles h = some x) (he : Eff s.disk x o) (hk : o.2.1.cfg.submitter = x.cfg.submitter) :
    Coherent (({ s with disk := { o.1 with marker := m } }).setHandle h o.2.1) := by
  obtain ⟨_, _, hcfg, hjs⟩ := he
  have hle := hI.le h x hx
  refine ⟨?_, ?_, ?_, ?_, ?_, ?_, ?_⟩
  · show o.1.cfg.version = o.1.cfgVer
    rcases hcfg with ⟨a1, a2, _, _, _⟩ | ⟨_, a2, a3, _, a5, _⟩
    · rw [a1, a2]; exact hI.agreeCfg
    · rw [a3, a5, a2]
  · show o.1.js.version = o.1.jsVer
    rcases hjs with ⟨a1, a2, _⟩ | ⟨j, _, _, a3, _, a5⟩
    · rw [a1, a2]; exact hI.agreeJs
    · rw [a5, a3]
  · show o.1.cfgMissing = false
    rcases hcfg with ⟨_, _, a3, _, _⟩ | ⟨_, _, _, a4, _, _⟩
    · rw [a3]; exact hI.present
    · exact a4
  · intro q y hy
    show y.cfg.version ≤ o.1.cfgVer
    simp only [Sys.setHandle] at hy
    split at hy
    · cases hy
      rcases hcfg with ⟨_, a2, _, a4, _⟩ | ⟨_, a2, _, _, a5, _⟩
      · rw [a4, a2]; exact hle
      · rw [a5, a2]; exact Nat.le_refl _
    · have := hI.le q y hy
      rcases hcfg with ⟨_, a2, _, _, _⟩ | ⟨_, a2, _, _, _, _⟩ <;> rw [a2] <;> omega
  · intro q y hy hv
    show y.cfg.submitter = o.1.cfg.submitter
    change y.cfg.version = o.1.cfgVer at hv
    simp only [Sys.setHandle] at hy
    split at hy
    · cases hy
      rcases hcfg with ⟨a1, a2, _, a4, _⟩ | ⟨_, _, a3, _, _, _⟩
      · rw [a1, hk]; rw [a4, a2] at hv; exact hI.cur h x hx hv
      · rw [a3]
    · have hl := hI.le q y hy
      rcases hcfg with ⟨a1, a2, _, _, _⟩ | ⟨_, a2, _, _, _, _⟩
      · rw [a1]; rw [a2] at hv; exact hI.cur q y hy hv
      · rw [a2] at hv; omega
  · intro q y c hy hc hv
    show c = o.1.cfg
    change y.cfg.version = o.1.cfgVer at hv
    simp only [Sys.setHandle] at hy
    split at hy
    · cases hy
      rcases hcfg with ⟨a1, a2, _, a4, a5⟩ | ⟨_, _, a3, _, _, a6⟩
      · rw [a1]; rw [a4, a2] at hv; rw [a5] at hc; exact hI.hash h x c hx hc hv
      · rw [a6] at hc; cases hc; rw [a3]
    · have hl := hI.le q y hy
      rcases hcfg with ⟨a1, a2, _, _, _⟩ | ⟨_, a2, _, _, _, _⟩
      · rw [a1]; rw [a2] at hv; exact hI.hash q y c hy hc hv
      · rw [a2] at hv; omega
  · intro q y j hy
    simp only [Sys.setHandle] at hy
    split at hy
    · cases hy
      rcases hcfg with ⟨_, _, _, _, a5⟩ | ⟨_, _, _, _, _, a6⟩
      · rw [a5]; exact hI.hashWf h x j hx
      · rw [a6]; intro e; cases e
    · exact hI.hashWf q y j hy

/-- slot `h` receives a handle that is stale, or current and faithful; only the marker changes on disk -/
theorem Coherent.replace {s : Sys} (hI : Coherent s) (h : Hid) (y : Handle) (m : Bool)
    (hle : y.cfg.version ≤ s.disk.cfgVer)
    (hcur : y.cfg.version = s.disk.cfgVer → y.cfg.submitter = s.disk.cfg.submitter ∧
      (∀ c : CfgView, y.cfgHash = some (Snap.cfg c) → c = s.disk.cfg))
    (hwf : ∀ j : JsView, y.cfgHash ≠ some (Snap.js j)) :
    Coherent (({ s with disk := { s.disk with marker := m } }).setHandle h y) := by
  refine ⟨hI.agreeCfg, hI.agreeJs, hI.present, ?_, ?_, ?_, ?_⟩
  · intro q z hz
    simp only [Sys.setHandle] at hz
    split at hz
    · cases hz; exact hle
    · exact hI.le q z hz
  · intro q z hz hv
    simp only [Sys.setHandle] at hz
    split at hz
    · cases hz; exact (hcur hv).1
    · exact hI.cur q z hz hv
  · intro q z c hz hc hv
    simp only [Sys.setHandle] at hz
    split at hz
    · cases hz; exact (hcur hv).2 c hc
    · exact hI.hash q z c hz hc hv
  · intro q z j hz
    simp only [Sys.setHandle] at hz
    split at hz
    · cases hz; exact hwf j
    · exact hI.hashWf q z j hz

/-- a config write by the handle put into slot `h` -/
theorem Coherent.write {s : Sys} (hI : Coherent s) (h : Hid) (y : Handle) (d' : Disk)
    (h1 : d'.cfgVer = s.disk.cfgVer + 1) (h2 : d'.cfg = y.cfg) (h3 : d'.cfgMissing = false)
    (h4 : d'.js = s.disk.js) (h5 : d'.jsVer = s.disk.jsVer)
    (y1 : y.cfg.version = s.disk.cfgVer + 1) (y3 : y.cfgHash = some (Snap.cfg y.cfg)) :
    Coherent (({ s with disk := d' }).setHandle h y) := by
  refine ⟨?_, ?_, h3, ?_, ?_, ?_, ?_⟩
  · show d'.cfg.version = d'.cfgVer; rw [h2, y1, h1]
  · show d'.js.version = d'.jsVer; rw [h4, h5]; exact hI.agreeJs
  · intro q z hz
    show z.cfg.version ≤ d'.cfgVer
    simp only [Sys.setHandle] at hz
    split at hz
    · cases hz; rw [y1, h1]; exact Nat.le_refl _
    · have := hI.le q z hz; rw [h1]; omega
  · intro q z hz hv
    show z.cfg.submitter = d'.cfg.submitter
    change z.cfg.version = d'.cfgVer at hv
    simp only [Sys.setHandle] at hz
    split at hz
    · cases hz; rw [h2]
    · have := hI.le q z hz; rw [h1] at hv; omega
  · intro q z c hz hc hv
    show c = d'.cfg
    change z.cfg.version = d'.cfgVer at hv
    simp only [Sys.setHandle] at hz
    split at hz
    · cases hz; rw [y3] at hc; cases hc; rw [h2]
    · have := hI.le q z hz; rw [h1] at hv; omega
  · intro q z j hz
    simp only [Sys.setHandle] at hz
    split at hz
    · cases hz; rw [y3]; intro e; cases e
    · exact hI.hashWf q z j hz

theorem Coherent.marker {s : Sys} (hI : Coherent s) (m : Bool) :
    Coherent { s with disk := { s.disk with marker := m } } :=
  ⟨hI.agreeCfg, hI.agreeJs, hI.present, hI.le, hI.cur, hI.hash, hI.hashWf⟩

theorem Coherent.lockedKeep {s : Sys} (hI : Coherent s) (h : Hid) (f : Disk → Handle → Out)
    (hE : ∀ (d : Disk) (x : Handle), Eff d x (f d x))
    (hK : ∀ (d : Disk) (x : Handle), (f d x).2.1.cfg.submitter = x.cfg.submitter) :
    Coherent (locked s h f).1 := by
  rcases locked_cases s h f with ⟨_, h2⟩ | ⟨x, _, _, h2⟩ | ⟨x, hx, _, h2⟩
  · rw [h2]; exact hI
  · rw [h2]; exact hI
  · rw [h2]; exact Coherent.generic hI h x (f s.disk x) _ hx (hE _ _) (hK _ _)

theorem Coherent.unlockedKeep {s : Sys} (hI : Coherent s) (h : Hid) (f : Disk → Handle → Out)
    (hE : ∀ (d : Disk) (x : Handle), Eff d x (f d x))
    (hK : ∀ (d : Disk) (x : Handle), (f d x).2.1.cfg.submitter = x.cfg.submitter) :
    Coherent (unlocked s h f).1 := by
  rcases unlocked_cases s h f with ⟨_, h2⟩ | ⟨x, hx, h2⟩
  · rw [h2]; exact hI
  · rw [h2]; exact Coherent.generic hI h x (f s.disk x) (f s.disk x).1.marker hx (hE _ _) (hK _ _)

theorem Coherent.promoteStep {s : Sys} (hI : Coherent s) (h : Hid) : Coherent (step s (.promote h)).1 := by
  simp only [Jade.Cluster.step]
  rcases locked_cases s h doPromote with ⟨_, h2⟩ | ⟨x, _, _, h2⟩ | ⟨x, hx, _, h2⟩
  · rw [h2]; exact hI
  · rw [h2]; exact hI
  · rw [h2]
    rcases doPromote_cases s.disk x with ⟨c1, c2⟩ | ⟨c1, c2, c3⟩ | ⟨c1, c2, c3, c4⟩ | ⟨c1, c2, c3, c4⟩
    · rw [c2]
      exact Coherent.generic hI h x (s.disk, x, .bool false) _ hx (eff_noop _ x x _ rfl rfl rfl (keepJs x _)) rfl
    · rw [c3]
      refine Coherent.replace hI h (promoted x) _ (hI.le h x hx) ?_ (hI.hashWf h x · hx)
      intro hv; exact absurd hv c2
    · exfalso
      have := congrArg CfgView.submitter (hI.hash h x (promoted x).cfg hx c3 c2)
      have h3 := hI.cur h x hx c2
      rw [← h3, c1] at this
      cases this
    · rw [c4]
      refine Coherent.write hI h _ _ ?_ rfl rfl rfl rfl ?_ rfl
      · show x.cfg.version + 1 = _; rw [c2]
      · show x.cfg.version + 1 = _; rw [c2]

theorem Coherent.demoteStep {s : Sys} (hI : Coherent s) (h : Hid) : Coherent (step s (.demote h)).1 := by
  simp only [Jade.Cluster.step]
  rcases locked_cases s h doDemote with ⟨_, h2⟩ | ⟨x, _, _, h2⟩ | ⟨x, hx, _, h2⟩
  · rw [h2]; exact hI
  · rw [h2]; exact hI
  · rw [h2]
    rcases doDemote_cases s.disk x with ⟨c1, c2⟩ | ⟨c1, c2, c3⟩ | ⟨c1, c2, c3, c4⟩ | ⟨c1, c2, c3, c4⟩
    · rw [c2]
      exact Coherent.generic hI h x (s.disk, x, .err .assertion) _ hx (eff_noop _ x x _ rfl rfl rfl (keepJs x _)) rfl
    · rw [c3]
      refine Coherent.replace hI h (demoted x) _ (hI.le h x hx) ?_ (hI.hashWf h x · hx)
      intro hv; exact absurd hv c2
    · exfalso
      have := congrArg CfgView.submitter (hI.hash h x (demoted x).cfg hx c3 c2)
      have h3 := hI.cur h x hx c2
      rw [← h3, c1] at this
      cases this
    · rw [c4]
      refine Coherent.write hI h _ _ ?_ rfl rfl rfl rfl ?_ rfl
      · show x.cfg.version + 1 = _; rw [c2]
      · show x.cfg.version + 1 = _; rw [c2]

theorem Coherent.loadOp {s : Sys} (hI : Coherent s) (slot : Option Hid) (host : Host) (p j : Bool) :
    Coherent (loadOp s slot host p j).1 := by
  unfold Jade.Cluster.loadOp
  cases hm : s.disk.marker with
  | true => simp only [if_true]; exact hI
  | false =>
    simp only [Bool.false_eq_true, if_false]
    rcases doLoad_cases host p j s.disk hI.present hI.agreeCfg with ⟨_, hr⟩ | ⟨_, _, hr⟩
    · rw [hr]
      cases slot with
      | none => exact Coherent.marker hI _
      | some h =>
        refine Coherent.replace hI h _ _ ?_ ?_ ?_
        · unfold withJobs; split <;> exact Nat.le_of_eq hI.agreeCfg
        · intro _
          refine ⟨by unfold withJobs; split <;> rfl, ?_⟩
          intro c hc; unfold withJobs at hc; split at hc <;> cases hc
        · intro j' hc; unfold withJobs at hc; split at hc <;> cases hc
    · rw [hr]
      cases slot with
      | none =>
        -- a promoted handle that is thrown away (never happens for `read`, which does not promote)
        have := Coherent.write hI 0 (withJobs j (loadDisk host s.disk) (loadHandle host s.disk))
          { loadDisk host s.disk with marker := markerAfter (.bool true) }
          (by show s.disk.cfg.version + 1 = _; rw [hI.agreeCfg]) (by unfold withJobs; split <;> rfl) rfl rfl rfl
          (by unfold withJobs; split <;> (show s.disk.cfg.version + 1 = _; rw [hI.agreeCfg]))
          (by unfold withJobs; split <;> rfl)
        refine ⟨this.agreeCfg, this.agreeJs, this.present, ?_, ?_, ?_, hI.hashWf⟩
        · intro q z hz
          have hl := hI.le q z hz
          show z.cfg.version ≤ s.disk.cfg.version + 1
          rw [hI.agreeCfg]; omega
        · intro q z hz hv
          have hl := hI.le q z hz
          change z.cfg.version = s.disk.cfg.version + 1 at hv
          rw [hI.agreeCfg] at hv; omega
        · intro q z c hz _ hv
          have hl := hI.le q z hz
          change z.cfg.version = s.disk.cfg.version + 1 at hv
          rw [hI.agreeCfg] at hv; omega
      | some h =>
        refine Coherent.write hI h _ _ ?_ ?_ rfl rfl rfl ?_ ?_
        · show s.disk.cfg.version + 1 = _; rw [hI.agreeCfg]
        · unfold withJobs; split <;> rfl
        · unfold withJobs; split <;> (show s.disk.cfg.version + 1 = _; rw [hI.agreeCfg])
        · unfold withJobs; split <;> rfl

theorem Coherent.memJob {s : Sys} (hI : Coherent s) (h : Hid) (j : JobId) (f : JobView → JobView) :
    Coherent (memJob s h j f).1 := by
  unfold Jade.Cluster.memJob
  cases hx : s.handles h with
  | none => exact hI
  | some x =>
    simp only
    cases hjs : x.js with
    | none => exact hI
    | some js =>
      simp only
      cases hv : js.jobs[j]? with
      | none => exact hI
      | some v =>
        simp only
        exact Coherent.generic hI h x (s.disk, { x with js := some { js with jobs := js.jobs.set j (f v) } }, .ok)
          s.disk.marker hx
          (eff_noop _ x _ _ rfl rfl rfl (by
            intro j' hj'
            left
            simp only at hj'
            cases hj'
            exact ⟨js, hjs, rfl⟩)) rfl

/-- every API operation preserves `Coherent` — no protocol assumed -/
theorem Coherent.step {s : Sys} (hI : Coherent s) (op : Op) (hnt : op.isTamper = false) :
    Coherent (step s op).1 := by
  cases op with
  | load h host p j => exact Coherent.loadOp hI (some h) host p j
  | promote h => exact Coherent.promoteStep hI h
  | demote h => exact Coherent.demoteStep hI h
  | update h a => exact Coherent.lockedKeep hI h _ (doUpdate_eff a) (doUpdate_submitter a)
  | markComplete h => exact Coherent.lockedKeep hI h _ doMarkComplete_eff doMarkComplete_submitter
  | markCanceled h => exact Coherent.lockedKeep hI h _ doMarkCanceled_eff doMarkCanceled_submitter
  | completeHpcId h id => exact Coherent.lockedKeep hI h _ (doCompleteHpcId_eff id) (doCompleteHpcId_submitter id)
  | deserializeJobs h => exact Coherent.lockedKeep hI h _ doDeserializeJobs_eff doDeserializeJobs_submitter
  | allComplete h => exact Coherent.lockedKeep hI h _ doAllComplete_eff doAllComplete_submitter
  | prepareResubmit h sel bl =>
    simp only [Jade.Cluster.step]
    split
    · exact Coherent.lockedKeep hI h _ (doPrepareResubmit_eff sel bl) (doPrepareResubmit_submitter sel bl)
    · exact Coherent.unlockedKeep hI h _ (doPrepareResubmit_eff sel bl) (doPrepareResubmit_submitter sel bl)
  | read =>
    have hst : (Jade.Cluster.step s .read).1 = (Jade.Cluster.loadOp s none 0 false true).1 := by
      simp only [Jade.Cluster.step]
      split <;> simp_all
    rw [hst]; exact Coherent.loadOp hI none 0 false true
  | breakMarker =>
    simp only [Jade.Cluster.step]
    split
    · exact Coherent.marker hI false
    · exact hI
  | forgeCfgVer n => cases hnt
  | forgeJsVer n => cases hnt
  | rmCfg => cases hnt
  | memCancel h j => exact Coherent.memJob hI h j _
  | memUnblock h j done => exact Coherent.memJob hI h j _

theorem Coherent.create (host : Host) (spec : List (List JobId × Bool)) (brk : Bool) :
    Coherent (create host spec brk) := by
  rw [create_eq]
  refine ⟨rfl, rfl, rfl, ?_, ?_, ?_, ?_⟩
  · intro h x hx
    simp only at hx
    split at hx
    · cases hx; exact Nat.le_refl _
    · cases hx
  · intro h x hx _
    simp only at hx
    split at hx
    · cases hx; rfl
    · cases hx
  · intro h x c hx hc _
    simp only at hx
    split at hx
    · cases hx; cases hc; rfl
    · cases hx
  · intro h x j hx
    simp only at hx
    split at hx
    · cases hx; intro e; cases e
    · cases hx

theorem Coherent.exec : ∀ (ops : List Op) (s : Sys), Coherent s → (∀ op ∈ ops, op.isTamper = false) →
    Coherent (exec s ops) := by
  intro ops
  induction ops with
  | nil => intro s hI _; exact hI
  | cons op ops ih =>
    intro s hI hnt
    exact ih _ (Coherent.step hI op (hnt op (List.mem_cons_self ..))) (fun o ho => hnt o (List.mem_cons_of_mem _ ho))

/-! ### what one operation can do to the two (data file, version file) pairs -/

/-- untouched, or rewritten with the next version -/
def DiskStep (d d' : Disk) : Prop :=
  ((d'.cfg = d.cfg ∧ d'.cfgVer = d.cfgVer ∧ d'.cfgMissing = d.cfgMissing) ∨
   (d'.cfgVer = d.cfgVer + 1 ∧ d'.cfg.version = d.cfgVer + 1 ∧ d'.cfgMissing = false)) ∧
  ((d'.js = d.js ∧ d'.jsVer = d.jsVer) ∨ (d'.jsVer = d.jsVer + 1 ∧ d'.js.version = d.jsVer + 1))

theorem DiskStep.refl (d : Disk) : DiskStep d d := ⟨Or.inl ⟨rfl, rfl, rfl⟩, Or.inl ⟨rfl, rfl⟩⟩

theorem Eff.diskStep {d : Disk} {x : Handle} {o : Out} (he : Eff d x o) (m : Bool) :
    DiskStep d { o.1 with marker := m } := by
  obtain ⟨_, _, hc, hj⟩ := he
  constructor
  · rcases hc with ⟨a1, a2, a3, _, _⟩ | ⟨_, a2, a3, a4, a5, _⟩
    · exact Or.inl ⟨a1, a2, a3⟩
    · exact Or.inr ⟨a2, by show o.1.cfg.version = _; rw [a3, a5], a4⟩
  · rcases hj with ⟨a1, a2, _⟩ | ⟨_, _, _, a3, _, a5⟩
    · exact Or.inl ⟨a1, a2⟩
    · exact Or.inr ⟨a3, a5⟩

theorem locked_diskStep (s : Sys) (h : Hid) (f : Disk → Handle → Out) (hE : ∀ (d : Disk) (x : Handle), Eff d x (f d x)) :
    DiskStep s.disk (locked s h f).1.disk := by
  rcases locked_cases s h f with ⟨_, h2⟩ | ⟨x, _, _, h2⟩ | ⟨x, _, _, h2⟩
  · rw [h2]; exact DiskStep.refl _
  · rw [h2]; exact DiskStep.refl _
  · rw [h2]; exact (hE s.disk x).diskStep _

theorem unlocked_diskStep (s : Sys) (h : Hid) (f : Disk → Handle → Out)
    (hE : ∀ (d : Disk) (x : Handle), Eff d x (f d x)) : DiskStep s.disk (unlocked s h f).1.disk := by
  rcases unlocked_cases s h f with ⟨_, h2⟩ | ⟨x, _, h2⟩
  · rw [h2]; exact DiskStep.refl _
  · rw [h2]; exact (hE s.disk x).diskStep (f s.disk x).1.marker

theorem doLoad_diskStep (host : Host) (p j : Bool) (d : Disk) (m : Bool) :
    DiskStep d { (doLoad host p j d).1 with marker := m } := by
  unfold doLoad
  split
  · exact DiskStep.refl _
  · cases p with
    | false => simp only [Bool.false_eq_true, if_false]; split <;> exact DiskStep.refl _
    | true =>
      simp only [if_true]
      have := (doPromote_eff d (newHandle host d)).diskStep m
      split <;> exact this

theorem loadOp_diskStep (s : Sys) (slot : Option Hid) (host : Host) (p j : Bool) :
    DiskStep s.disk (loadOp s slot host p j).1.disk := by
  unfold loadOp
  split
  · exact DiskStep.refl _
  · simp only
    have := doLoad_diskStep host p j s.disk (markerAfter (doLoad host p j s.disk).2.2)
    split <;> exact this

theorem memJob_disk (s : Sys) (h : Hid) (j : JobId) (f : JobView → JobView) : (memJob s h j f).1.disk = s.disk := by
  unfold memJob
  split
  · rfl
  · split
    · rfl
    · split <;> rfl

/-- every operation of the API (not the tampering ones) leaves each pair untouched or rewrites it with the next version -/
theorem step_diskStep (s : Sys) (op : Op) (hnt : op.isTamper = false) : DiskStep s.disk (step s op).1.disk := by
  cases op with
  | load h host p j => exact loadOp_diskStep s (some h) host p j
  | promote h => exact locked_diskStep s h _ doPromote_eff
  | demote h => exact locked_diskStep s h _ doDemote_eff
  | update h a => exact locked_diskStep s h _ (doUpdate_eff a)
  | markComplete h => exact locked_diskStep s h _ doMarkComplete_eff
  | markCanceled h => exact locked_diskStep s h _ doMarkCanceled_eff
  | completeHpcId h id => exact locked_diskStep s h _ (doCompleteHpcId_eff id)
  | deserializeJobs h => exact locked_diskStep s h _ doDeserializeJobs_eff
  | allComplete h => exact locked_diskStep s h _ doAllComplete_eff
  | prepareResubmit h sel bl =>
    simp only [Jade.Cluster.step]
    split
    · exact locked_diskStep s h _ (doPrepareResubmit_eff sel bl)
    · exact unlocked_diskStep s h _ (doPrepareResubmit_eff sel bl)
  | read =>
    have hst : (Jade.Cluster.step s .read).1 = (Jade.Cluster.loadOp s none 0 false true).1 := by
      simp only [Jade.Cluster.step]
      split <;> simp_all
    rw [hst]; exact loadOp_diskStep s none 0 false true
  | breakMarker =>
    simp only [Jade.Cluster.step]
    split
    · exact DiskStep.refl _
    · exact DiskStep.refl _
  | forgeCfgVer n => cases hnt
  | forgeJsVer n => cases hnt
  | rmCfg => cases hnt
  | memCancel h j => show DiskStep _ (memJob ..).1.disk; rw [memJob_disk]; exact DiskStep.refl _
  | memUnblock h j done => show DiskStep _ (memJob ..).1.disk; rw [memJob_disk]; exact DiskStep.refl _

/-! ### a handle whose copies are current is never rejected -/

theorem serializeCfg_ok (d : Disk) (x : Handle) (hv : x.cfg.version = d.cfgVer) : (serializeCfg d x).2.2 = none := by
  rcases serializeCfg_cases d x with ⟨h1, _⟩ | ⟨_, _, h3⟩ | ⟨_, _, h3⟩
  · exact absurd hv h1
  · rw [h3]
  · rw [h3]

theorem serializeJs_ok (d : Disk) (x : Handle) (j : JsView) (hv : j.version = d.jsVer) :
    (serializeJs d x j).2.2 = none := by
  rcases serializeJs_cases d x j with ⟨h1, _⟩ | ⟨_, _, h3⟩ | ⟨_, _, h3⟩
  · exact absurd hv h1
  · rw [h3]
  · rw [h3]

theorem serializeBoth_ok (d : Disk) (x : Handle) (j : JsView) (hv : x.cfg.version = d.cfgVer)
    (hj : j.version = d.jsVer) : (serializeBoth d x j).2.2 = .ok := by
  unfold serializeBoth
  have h1 := serializeCfg_ok d x hv
  obtain ⟨_, _, _, _, c5, _, _, _⟩ := serializeCfg_eff d x x rfl rfl rfl rfl
  simp only [h1]
  rw [serializeJs_ok _ _ _ (by rw [c5]; exact hj)]
  rfl

end Jade.Cluster
