import JadeModel.Model.ClusterCrash
import JadeModel.Proofs.ClusterCoherent

/-!
Torn writes (`Model/ClusterCrash.lean`): what survives when writers are killed between the file writes of a
lock section.

`VerAhead`: a version file is never BEHIND the version inside its data file, and no handle is ahead of a
version file.  It holds after every history of API operations and kills (no tampering), because each pair is
written version file first (`cfgWriteOrder_eq`, `jsWriteOrder_eq`: the generated statement order).  Hence a
handle whose copy is older than the CONTENTS on disk always fails the version compare (`VerAhead.older_stale`),
which is the hypothesis of the history-free rejection theorems of `Proofs/ClusterStale.lean`.
-/

namespace Jade.Cluster
open Jade.Gen.Cluster

/-! ## the generated write order -/

/-- `_serialize` writes config_version.txt BEFORE cluster_config.json -/
theorem cfgWriteOrder_eq : cfgWriteOrder = [FileId.cfgVer, FileId.cfg] := rfl

/-- `_serialize_jobs` writes job_status_version.txt BEFORE job_status.json -/
theorem jsWriteOrder_eq : jsWriteOrder = [FileId.jsVer, FileId.js] := rfl

/-! ## the invariant -/

structure VerAhead (s : Sys) : Prop where
  /-- config_version.txt is not behind the version inside cluster_config.json -/
  cfgData : s.disk.cfg.version ≤ s.disk.cfgVer
  /-- job_status_version.txt is not behind the version inside job_status.json -/
  jsData : s.disk.js.version ≤ s.disk.jsVer
  cfgHandle : ∀ (h : Hid) (x : Handle), s.handles h = some x → x.cfg.version ≤ s.disk.cfgVer
  jsHandle : ∀ (h : Hid) (x : Handle) (j : JsView), s.handles h = some x → x.js = some j → j.version ≤ s.disk.jsVer

/-- a copy older than the contents on disk never passes the version compare -/
theorem VerAhead.older_stale {s : Sys} (hI : VerAhead s) (h : Hid) (x : Handle) (_hx : s.handles h = some x)
    (hold : x.cfg.version < s.disk.cfg.version) : x.cfg.version ≠ s.disk.cfgVer := by
  have := hI.cfgData
  omega

theorem VerAhead.older_stale_js {s : Sys} (hI : VerAhead s) (h : Hid) (x : Handle) (j : JsView) (_hx : s.handles h = some x)
    (_hj : x.js = some j) (hold : j.version < s.disk.js.version) : j.version ≠ s.disk.jsVer := by
  have := hI.jsData
  omega

/-! ## API operations -/

/-- what the effect of a private method means for the version bounds -/
theorem Eff.bounds {d : Disk} {x : Handle} {o : Out} (he : Eff d x o)
    (hc : d.cfg.version ≤ d.cfgVer) (hj : d.js.version ≤ d.jsVer) (hx : x.cfg.version ≤ d.cfgVer)
    (hxj : ∀ j : JsView, x.js = some j → j.version ≤ d.jsVer) :
    o.1.cfg.version ≤ o.1.cfgVer ∧ o.1.js.version ≤ o.1.jsVer ∧ d.cfgVer ≤ o.1.cfgVer ∧ d.jsVer ≤ o.1.jsVer ∧
    o.2.1.cfg.version ≤ o.1.cfgVer ∧ ∀ j : JsView, o.2.1.js = some j → j.version ≤ o.1.jsVer := by
  obtain ⟨_, _, hcfg, hjs⟩ := he
  have c : o.1.cfg.version ≤ o.1.cfgVer ∧ d.cfgVer ≤ o.1.cfgVer ∧ o.2.1.cfg.version ≤ o.1.cfgVer := by
    rcases hcfg with ⟨a1, a2, _, a4, _⟩ | ⟨_, a2, a3, _, a5, _⟩
    · rw [a1, a2, a4]; exact ⟨hc, Nat.le_refl _, hx⟩
    · rw [a3, a5, a2]; exact ⟨Nat.le_refl _, Nat.le_succ _, Nat.le_refl _⟩
  have j : o.1.js.version ≤ o.1.jsVer ∧ d.jsVer ≤ o.1.jsVer ∧ ∀ j : JsView, o.2.1.js = some j → j.version ≤ o.1.jsVer := by
    rcases hjs with ⟨a1, a2, a3⟩ | ⟨j0, _, _, a3, a4, a5⟩
    · rw [a1, a2]
      refine ⟨hj, Nat.le_refl _, ?_⟩
      intro j' hj'
      rcases a3 j' hj' with ⟨j0, b1, b2⟩ | b
      · rw [b2]; exact hxj j0 b1
      · rw [b]; exact hj
    · rw [a5, a3]
      refine ⟨Nat.le_refl _, Nat.le_succ _, ?_⟩
      intro j' hj'
      rw [a4] at hj'
      cases hj'
      rw [a5]; exact Nat.le_refl _
  exact ⟨c.1, j.1, c.2.1, j.2.1, c.2.2, j.2.2⟩

/-- an existing handle acted (under the lock or not) -/
theorem VerAhead.generic {s : Sys} (hI : VerAhead s) (h : Hid) (x : Handle) (o : Out) (m : Bool)
    (hx : s.handles h = some x) (he : Eff s.disk x o) :
    VerAhead (({ s with disk := { o.1 with marker := m } }).setHandle h o.2.1) := by
  obtain ⟨b1, b2, b3, b4, b5, b6⟩ := he.bounds hI.cfgData hI.jsData (hI.cfgHandle h x hx) (fun j hj => hI.jsHandle h x j hx hj)
  refine ⟨b1, b2, ?_, ?_⟩
  · intro q y hy
    show y.cfg.version ≤ o.1.cfgVer
    simp only [Sys.setHandle] at hy
    split at hy
    · cases hy; exact b5
    · exact Nat.le_trans (hI.cfgHandle q y hy) b3
  · intro q y j hy hj
    show j.version ≤ o.1.jsVer
    simp only [Sys.setHandle] at hy
    split at hy
    · cases hy; exact b6 j hj
    · exact Nat.le_trans (hI.jsHandle q y j hy hj) b4

theorem VerAhead.marker {s : Sys} (hI : VerAhead s) (m : Bool) : VerAhead { s with disk := { s.disk with marker := m } } :=
  ⟨hI.cfgData, hI.jsData, hI.cfgHandle, hI.jsHandle⟩

theorem VerAhead.locked {s : Sys} (hI : VerAhead s) (h : Hid) (f : Disk → Handle → Out)
    (hE : ∀ (d : Disk) (x : Handle), Eff d x (f d x)) : VerAhead (locked s h f).1 := by
  rcases locked_cases s h f with ⟨_, h2⟩ | ⟨x, _, _, h2⟩ | ⟨x, hx, _, h2⟩
  · rw [h2]; exact hI
  · rw [h2]; exact hI
  · rw [h2]; exact VerAhead.generic hI h x _ _ hx (hE s.disk x)

theorem VerAhead.unlocked {s : Sys} (hI : VerAhead s) (h : Hid) (f : Disk → Handle → Out)
    (hE : ∀ (d : Disk) (x : Handle), Eff d x (f d x)) : VerAhead (unlocked s h f).1 := by
  rcases unlocked_cases s h f with ⟨_, h2⟩ | ⟨x, hx, h2⟩
  · rw [h2]; exact hI
  · rw [h2]
    have := VerAhead.generic hI h x _ (f s.disk x).1.marker hx (hE s.disk x)
    exact this

/-- the outcome of `_deserialize` in terms of the effect of a private method on the fresh handle -/
theorem doLoad_shape (host : Host) (p j : Bool) (d : Disk) :
    doLoad host p j d = (d, none, .err .invalidConfig) ∨
    ∃ o : Out, Eff d (newHandle host d) o ∧
      (doLoad host p j d = (o.1, none, o.2.2) ∨ doLoad host p j d = (o.1, some (withJobs j o.1 o.2.1), o.2.2)) := by
  unfold doLoad
  split
  · left; rfl
  · right
    cases p with
    | false =>
      refine ⟨(d, newHandle host d, Res.bool false), eff_noop _ _ _ _ rfl rfl rfl (by intro j' hj'; cases hj'), ?_⟩
      right
      simp [Res.isExc]
    | true =>
      refine ⟨doPromote d (newHandle host d), doPromote_eff d (newHandle host d), ?_⟩
      simp only [if_true]
      split
      · left; rfl
      · right; rfl

/-- a fresh handle (`Cluster.deserialize`), optionally promoted, optionally with the job status -/
theorem VerAhead.loadOp {s : Sys} (hI : VerAhead s) (slot : Option Hid) (host : Host) (p j : Bool) :
    VerAhead (loadOp s slot host p j).1 := by
  unfold Jade.Cluster.loadOp
  split
  · exact hI
  · have hx0 : (newHandle host s.disk).cfg.version ≤ s.disk.cfgVer := hI.cfgData
    have hxj0 : ∀ j : JsView, (newHandle host s.disk).js = some j → j.version ≤ s.disk.jsVer := by
      intro j hj; cases hj
    rcases doLoad_shape host p j s.disk with h | ⟨o, he, h | h⟩
    · rw [h]
      cases slot <;> exact VerAhead.marker hI _
    · obtain ⟨b1, b2, b3, b4, _, _⟩ := he.bounds hI.cfgData hI.jsData hx0 hxj0
      have base : VerAhead { s with disk := { o.1 with marker := markerAfter o.2.2 } } :=
        ⟨b1, b2, fun q y hy => Nat.le_trans (hI.cfgHandle q y hy) b3,
          fun q y jj hy hj => Nat.le_trans (hI.jsHandle q y jj hy hj) b4⟩
      rw [h]
      cases slot <;> exact base
    · obtain ⟨b1, b2, b3, b4, b5, b6⟩ := he.bounds hI.cfgData hI.jsData hx0 hxj0
      have base : VerAhead { s with disk := { o.1 with marker := markerAfter o.2.2 } } :=
        ⟨b1, b2, fun q y hy => Nat.le_trans (hI.cfgHandle q y hy) b3,
          fun q y jj hy hj => Nat.le_trans (hI.jsHandle q y jj hy hj) b4⟩
      rw [h]
      cases slot with
      | none => exact base
      | some hh =>
        refine ⟨b1, b2, ?_, ?_⟩
        · intro q y hy
          simp only [Sys.setHandle] at hy
          split at hy
          · cases hy
            show (withJobs j o.1 o.2.1).cfg.version ≤ o.1.cfgVer
            unfold withJobs; split <;> exact b5
          · exact base.cfgHandle q y hy
        · intro q y jj hy hj
          simp only [Sys.setHandle] at hy
          split at hy
          · cases hy
            show jj.version ≤ o.1.jsVer
            unfold withJobs at hj
            split at hj
            · cases hj; exact b2
            · exact b6 jj hj
          · exact base.jsHandle q y jj hy hj

theorem VerAhead.memJob {s : Sys} (hI : VerAhead s) (h : Hid) (j : JobId) (f : JobView → JobView) :
    VerAhead (memJob s h j f).1 := by
  unfold Jade.Cluster.memJob
  cases hx : s.handles h with
  | none => exact hI
  | some x =>
    simp only
    cases hjs : x.js with
    | none => exact hI
    | some js =>
      simp only
      cases hv : js.jobs[j]? with
      | none => exact hI
      | some v =>
        simp only
        refine ⟨hI.cfgData, hI.jsData, ?_, ?_⟩
        · intro q y hy
          simp only [Sys.setHandle] at hy
          split at hy
          · cases hy; exact hI.cfgHandle h x hx
          · exact hI.cfgHandle q y hy
        · intro q y jj hy hj
          simp only [Sys.setHandle] at hy
          split at hy
          · cases hy; cases hj; exact hI.jsHandle h x js hx hjs
          · exact hI.jsHandle q y jj hy hj

/-- every API operation preserves `VerAhead` — no protocol assumed, and `Coherent` is NOT needed (it does not
    survive a torn write) -/
theorem VerAhead.step {s : Sys} (hI : VerAhead s) (op : Op) (hnt : op.isTamper = false) :
    VerAhead (step s op).1 := by
  cases op with
  | load h host p j => exact VerAhead.loadOp hI (some h) host p j
  | promote h => exact VerAhead.locked hI h _ doPromote_eff
  | demote h => exact VerAhead.locked hI h _ doDemote_eff
  | update h a => exact VerAhead.locked hI h _ (doUpdate_eff a)
  | markComplete h => exact VerAhead.locked hI h _ doMarkComplete_eff
  | markCanceled h => exact VerAhead.locked hI h _ doMarkCanceled_eff
  | completeHpcId h id => exact VerAhead.locked hI h _ (doCompleteHpcId_eff id)
  | deserializeJobs h => exact VerAhead.locked hI h _ doDeserializeJobs_eff
  | allComplete h => exact VerAhead.locked hI h _ doAllComplete_eff
  | prepareResubmit h sel bl =>
    simp only [Jade.Cluster.step]
    split
    · exact VerAhead.locked hI h _ (doPrepareResubmit_eff sel bl)
    · exact VerAhead.unlocked hI h _ (doPrepareResubmit_eff sel bl)
  | read =>
    have hst : (Jade.Cluster.step s .read).1 = (Jade.Cluster.loadOp s none 0 false true).1 := by
      simp only [Jade.Cluster.step]
      split <;> simp_all
    rw [hst]; exact VerAhead.loadOp hI none 0 false true
  | breakMarker =>
    simp only [Jade.Cluster.step]
    split
    · exact VerAhead.marker hI false
    · exact hI
  | forgeCfgVer n => cases hnt
  | forgeJsVer n => cases hnt
  | rmCfg => cases hnt
  | memCancel h j => exact VerAhead.memJob hI h j _
  | memUnblock h j done => exact VerAhead.memJob hI h j _

/-! ## kills -/

/-- Each pair after the first `k` writes of an operation: untouched, version file written only, or both written
    — never the data file alone.  THIS is where the generated order of the two writes is used. -/
theorem tornDisk_pairs (d d' : Disk) (k : Nat) :
    (((tornDisk d d' k).cfgVer = d.cfgVer ∧ (tornDisk d d' k).cfg = d.cfg) ∨
     ((tornDisk d d' k).cfgVer = d'.cfgVer ∧ (tornDisk d d' k).cfg = d.cfg) ∨
     ((tornDisk d d' k).cfgVer = d'.cfgVer ∧ (tornDisk d d' k).cfg = d'.cfg)) ∧
    (((tornDisk d d' k).jsVer = d.jsVer ∧ (tornDisk d d' k).js = d.js) ∨
     ((tornDisk d d' k).jsVer = d'.jsVer ∧ (tornDisk d d' k).js = d.js) ∨
     ((tornDisk d d' k).jsVer = d'.jsVer ∧ (tornDisk d d' k).js = d'.js)) := by
  unfold tornDisk writesOf
  rw [cfgWriteOrder_eq, jsWriteOrder_eq]
  cases cfgPairChanged d d' <;> cases jsPairChanged d d' <;>
    rcases k with _ | _ | _ | _ | k <;> simp [writeFile]

/-- The files after the first `k` writes of an operation that rewrites each pair with the next version or leaves
    it alone: no version file falls behind its data file, and no version file decreases. -/
theorem tornDisk_bounds (d d' : Disk) (k : Nat) (hs : DiskStep d d')
    (hc : d.cfg.version ≤ d.cfgVer) (hj : d.js.version ≤ d.jsVer) :
    (tornDisk d d' k).cfg.version ≤ (tornDisk d d' k).cfgVer ∧ (tornDisk d d' k).js.version ≤ (tornDisk d d' k).jsVer ∧
    d.cfgVer ≤ (tornDisk d d' k).cfgVer ∧ d.jsVer ≤ (tornDisk d d' k).jsVer := by
  obtain ⟨h1, h2⟩ := hs
  obtain ⟨p1, p2⟩ := tornDisk_pairs d d' k
  have v1 : (d'.cfg.version = d.cfg.version ∧ d'.cfgVer = d.cfgVer) ∨ (d'.cfgVer = d.cfgVer + 1 ∧ d'.cfg.version = d.cfgVer + 1) := by
    rcases h1 with ⟨c1, c2, _⟩ | ⟨c1, c2, _⟩
    · left; exact ⟨by rw [c1], c2⟩
    · right; exact ⟨c1, c2⟩
  have v2 : (d'.js.version = d.js.version ∧ d'.jsVer = d.jsVer) ∨ (d'.jsVer = d.jsVer + 1 ∧ d'.js.version = d.jsVer + 1) := by
    rcases h2 with ⟨c1, c2⟩ | ⟨c1, c2⟩
    · left; exact ⟨by rw [c1], c2⟩
    · right; exact ⟨c1, c2⟩
  refine ⟨?_, ?_, ?_, ?_⟩
  · rcases p1 with ⟨a, b⟩ | ⟨a, b⟩ | ⟨a, b⟩ <;> rw [a, b] <;> omega
  · rcases p2 with ⟨a, b⟩ | ⟨a, b⟩ | ⟨a, b⟩ <;> rw [a, b] <;> omega
  · rcases p1 with ⟨a, b⟩ | ⟨a, b⟩ | ⟨a, b⟩ <;> rw [a] <;> omega
  · rcases p2 with ⟨a, b⟩ | ⟨a, b⟩ | ⟨a, b⟩ <;> rw [a] <;> omega

/-- new config contents on disk after a kill imply that the version file was already advanced -/
theorem tornDisk_cfg_new (d d' : Disk) (k : Nat) (hs : DiskStep d d')
    (hnew : (tornDisk d d' k).cfg ≠ d.cfg) : (tornDisk d d' k).cfgVer = d.cfgVer + 1 := by
  obtain ⟨h1, _⟩ := hs
  obtain ⟨p1, _⟩ := tornDisk_pairs d d' k
  rcases p1 with ⟨a, b⟩ | ⟨a, b⟩ | ⟨a, b⟩
  · exact absurd b hnew
  · exact absurd b hnew
  · rcases h1 with ⟨c1, _, _⟩ | ⟨c1, _, _⟩
    · rw [b] at hnew; exact absurd c1 hnew
    · rw [a]; exact c1

/-- … and likewise for the job status -/
theorem tornDisk_js_new (d d' : Disk) (k : Nat) (hs : DiskStep d d')
    (hnew : (tornDisk d d' k).js ≠ d.js) : (tornDisk d d' k).jsVer = d.jsVer + 1 := by
  obtain ⟨_, h2⟩ := hs
  obtain ⟨_, p2⟩ := tornDisk_pairs d d' k
  rcases p2 with ⟨a, b⟩ | ⟨a, b⟩ | ⟨a, b⟩
  · exact absurd b hnew
  · exact absurd b hnew
  · rcases h2 with ⟨c1, _⟩ | ⟨c1, _⟩
    · rw [b] at hnew; exact absurd c1 hnew
    · rw [a]; exact c1

theorem dropHandle_sub (hs : Hid → Option Handle) (a : Option Hid) (q : Hid) (y : Handle)
    (h : dropHandle hs a q = some y) : hs q = some y := by
  cases a with
  | none => exact h
  | some h0 =>
    simp only [dropHandle] at h
    split at h
    · cases h
    · exact h

/-- a kill at any point of any API operation preserves `VerAhead` -/
theorem VerAhead.crash {s : Sys} (hI : VerAhead s) (op : Op) (k : Nat) (g : Bool) (hnt : op.isTamper = false) :
    VerAhead (crashStep s op k g).1 := by
  unfold crashStep
  simp only
  split
  · obtain ⟨b1, b2, b3, b4⟩ := tornDisk_bounds s.disk (Jade.Cluster.step s op).1.disk k (step_diskStep s op hnt) hI.cfgData hI.jsData
    refine ⟨b1, b2, ?_, ?_⟩
    · intro q y hy
      exact Nat.le_trans (hI.cfgHandle q y (dropHandle_sub _ _ q y hy)) b3
    · intro q y j hy hj
      exact Nat.le_trans (hI.jsHandle q y j (dropHandle_sub _ _ q y hy) hj) b4
  · exact VerAhead.step hI op hnt

theorem VerAhead.stepX {s : Sys} (hI : VerAhead s) (op : XOp) (hnt : op.isTamper = false) : VerAhead (stepX s op).1 := by
  cases op with
  | api op => exact VerAhead.step hI op hnt
  | crash op k g => exact VerAhead.crash hI op k g hnt

theorem VerAhead.execX : ∀ (ops : List XOp) (s : Sys), VerAhead s → (∀ op ∈ ops, op.isTamper = false) →
    VerAhead (execX s ops) := by
  intro ops
  induction ops with
  | nil => intro s hI _; exact hI
  | cons op ops ih =>
    intro s hI hnt
    exact ih _ (VerAhead.stepX hI op (hnt op (List.mem_cons_self ..))) (fun o ho => hnt o (List.mem_cons_of_mem _ ho))

theorem VerAhead.of_coherent {s : Sys} (hI : Coherent s)
    (hjs : ∀ (h : Hid) (x : Handle) (j : JsView), s.handles h = some x → x.js = some j → j.version ≤ s.disk.jsVer) : VerAhead s :=
  ⟨Nat.le_of_eq hI.agreeCfg, Nat.le_of_eq hI.agreeJs, hI.le, hjs⟩

theorem VerAhead.create (host : Host) (spec : List (List JobId × Bool)) (brk : Bool) :
    VerAhead (create host spec brk) := by
  refine VerAhead.of_coherent (Coherent.create host spec brk) ?_
  rw [create_eq]
  intro h x j hx hj
  simp only at hx
  split at hx
  · cases hx; cases hj; exact Nat.le_refl _
  · cases hx

/-! ## torn version files (`TSys`, `apiT`, `crashT`, `stepT`)

1. The extension is conservative: while no version file is empty, `stepT` IS `stepX` (so every theorem about
   histories of API calls and kills between file writes holds verbatim for the extended system).
2. Fail closed: while a version file is empty, no operation of the API and no kill changes that (data file,
   version file) pair; the state ends only when the environment rewrites the file.
-/

/-! ### 1. conservative -/

theorem apiT_ofSys (s : Sys) (op : Op) : apiT (TSys.ofSys s) op = (TSys.ofSys (step s op).1, (step s op).2) := by
  cases op <;> simp [apiT, TSys.ofSys, maskDisk, unmaskDisk, tornRes]

theorem stepT_ofSys (s : Sys) (op : XOp) :
    stepT (TSys.ofSys s) (TOp.ofX op) = (TSys.ofSys (stepX s op).1, (stepX s op).2) := by
  cases op with
  | api op => simp only [TOp.ofX, stepT, stepX, apiT_ofSys]
  | crash op k g =>
    simp only [TOp.ofX, stepT, stepX, crashT, crashStep, apiT_ofSys]
    by_cases hk : k < (writesOf s.disk (step s op).1.disk).length
    · simp [TSys.ofSys, hk]
    · simp [TSys.ofSys, hk]

theorem execT_ofSys : ∀ (ops : List XOp) (s : Sys), execT (TSys.ofSys s) (ops.map TOp.ofX) = TSys.ofSys (execX s ops) := by
  intro ops
  induction ops with
  | nil => intro s; rfl
  | cons op ops ih =>
    intro s
    simp only [List.map_cons, execT, execX, List.foldl_cons]
    rw [stepT_ofSys]
    exact ih _

theorem runT_ofSys : ∀ (ops : List XOp) (s : Sys), (runT (TSys.ofSys s) (ops.map TOp.ofX)).2 = (runX s ops).2 := by
  intro ops
  induction ops with
  | nil => intro s; rfl
  | cons op ops ih =>
    intro s
    simp only [List.map_cons, runT, runX]
    rw [stepT_ofSys]
    simp only [ih]

/-! ### 2. fail closed -/

/-- the config pair (data file, its presence, version file) is as it was -/
@[reducible] def CfgKept (d d' : Disk) : Prop := d'.cfg = d.cfg ∧ d'.cfgVer = d.cfgVer ∧ d'.cfgMissing = d.cfgMissing

/-- the job-status pair is as it was -/
@[reducible] def JsKept (d d' : Disk) : Prop := d'.js = d.js ∧ d'.jsVer = d.jsVer

/-- a private method run by a handle whose config version differs from the version file does not touch the config pair -/
theorem Eff.cfgKept {d : Disk} {x : Handle} {o : Out} (he : Eff d x o) (hm : x.cfg.version ≠ d.cfgVer) : CfgKept d o.1 := by
  rcases he.cfg with ⟨a1, a2, a3, _, _⟩ | ⟨a1, _⟩
  · exact ⟨a1, a2, a3⟩
  · exact absurd a1 hm

/-- … and likewise for the job-status pair (a handle without a job status never writes it) -/
theorem Eff.jsKept {d : Disk} {x : Handle} {o : Out} (he : Eff d x o)
    (hm : ∀ j : JsView, x.js = some j → j.version ≠ d.jsVer) : JsKept d o.1 := by
  rcases he.js with ⟨a1, a2, _⟩ | ⟨j, a1, a2, _⟩
  · exact ⟨a1, a2⟩
  · exact absurd a2 (hm j a1)

theorem locked_kept (s : Sys) (h : Hid) (f : Disk → Handle → Out) (hE : ∀ (d : Disk) (x : Handle), Eff d x (f d x)) :
    ((∀ x : Handle, s.handles h = some x → x.cfg.version ≠ s.disk.cfgVer) → CfgKept s.disk (locked s h f).1.disk) ∧
    ((∀ (x : Handle) (j : JsView), s.handles h = some x → x.js = some j → j.version ≠ s.disk.jsVer) →
      JsKept s.disk (locked s h f).1.disk) := by
  rcases locked_cases s h f with ⟨_, h2⟩ | ⟨x, _, _, h2⟩ | ⟨x, hx, _, h2⟩
  · rw [h2]; exact ⟨fun _ => ⟨rfl, rfl, rfl⟩, fun _ => ⟨rfl, rfl⟩⟩
  · rw [h2]; exact ⟨fun _ => ⟨rfl, rfl, rfl⟩, fun _ => ⟨rfl, rfl⟩⟩
  · rw [h2]
    exact ⟨fun hm => (hE s.disk x).cfgKept (hm x hx), fun hm => (hE s.disk x).jsKept (fun j hj => hm x j hx hj)⟩

theorem unlocked_kept (s : Sys) (h : Hid) (f : Disk → Handle → Out) (hE : ∀ (d : Disk) (x : Handle), Eff d x (f d x)) :
    ((∀ x : Handle, s.handles h = some x → x.cfg.version ≠ s.disk.cfgVer) → CfgKept s.disk (unlocked s h f).1.disk) ∧
    ((∀ (x : Handle) (j : JsView), s.handles h = some x → x.js = some j → j.version ≠ s.disk.jsVer) →
      JsKept s.disk (unlocked s h f).1.disk) := by
  rcases unlocked_cases s h f with ⟨_, h2⟩ | ⟨x, hx, h2⟩
  · rw [h2]; exact ⟨fun _ => ⟨rfl, rfl, rfl⟩, fun _ => ⟨rfl, rfl⟩⟩
  · rw [h2]
    exact ⟨fun hm => (hE s.disk x).cfgKept (hm x hx), fun hm => (hE s.disk x).jsKept (fun j hj => hm x j hx hj)⟩

/-- a fresh handle: it has no job status yet when it is promoted, and its config version is the one inside
    `cluster_config.json` -/
theorem loadOp_kept (s : Sys) (slot : Option Hid) (host : Host) (p j : Bool) :
    (s.disk.cfg.version ≠ s.disk.cfgVer → CfgKept s.disk (loadOp s slot host p j).1.disk) ∧
    JsKept s.disk (loadOp s slot host p j).1.disk := by
  unfold Jade.Cluster.loadOp
  split
  · exact ⟨fun _ => ⟨rfl, rfl, rfl⟩, ⟨rfl, rfl⟩⟩
  · have hj0 : ∀ j : JsView, (newHandle host s.disk).js = some j → j.version ≠ s.disk.jsVer := by
      intro j hj; cases hj
    rcases doLoad_shape host p j s.disk with h | ⟨o, he, h | h⟩
    · rw [h]
      cases slot <;> exact ⟨fun _ => ⟨rfl, rfl, rfl⟩, ⟨rfl, rfl⟩⟩
    · rw [h]
      cases slot <;> exact ⟨fun hm => he.cfgKept hm, he.jsKept hj0⟩
    · rw [h]
      cases slot <;> exact ⟨fun hm => he.cfgKept hm, he.jsKept hj0⟩

/-- `Cluster.deserialize` without promotion writes nothing -/
theorem loadOp_noPromote_kept (s : Sys) (slot : Option Hid) (host : Host) (j : Bool) :
    CfgKept s.disk (loadOp s slot host false j).1.disk := by
  unfold Jade.Cluster.loadOp doLoad
  split
  · exact ⟨rfl, rfl, rfl⟩
  · split
    · cases slot <;> exact ⟨rfl, rfl, rfl⟩
    · cases slot <;> exact ⟨rfl, rfl, rfl⟩

/-- the acting handle's versions, as `Op.mine` reads them -/
theorem Op.mine_handle (s : Sys) (op : Op) (h : Hid) (x : Handle) (ha : op.actor = some h) (hx : s.handles h = some x) :
    op.mine s = (x.cfg.version, match x.js with | none => 0 | some j => j.version) := by
  cases op <;> simp only [Op.actor, Option.some.injEq, reduceCtorEq] at ha <;> subst ha <;> simp only [Op.mine, Op.actor, hx] <;> cases x.js <;> rfl

/-- An operation whose process holds a config version (resp. job-status version) that DIFFERS from the version file
    leaves that pair alone — the statement of `C10_stale_rejected`, reduced to the files and stated for every operation. -/
theorem step_kept (s : Sys) (op : Op) (hnt : op.isTamper = false) :
    ((op.mine s).1 ≠ s.disk.cfgVer → CfgKept s.disk (step s op).1.disk) ∧
    ((op.mine s).2 ≠ s.disk.jsVer → JsKept s.disk (step s op).1.disk) := by
  have viaHandle : ∀ (h : Hid), op.actor = some h → ∀ (d' : Disk),
      (((∀ x : Handle, s.handles h = some x → x.cfg.version ≠ s.disk.cfgVer) → CfgKept s.disk d') ∧
       ((∀ (x : Handle) (j : JsView), s.handles h = some x → x.js = some j → j.version ≠ s.disk.jsVer) → JsKept s.disk d')) →
      (((op.mine s).1 ≠ s.disk.cfgVer → CfgKept s.disk d') ∧ ((op.mine s).2 ≠ s.disk.jsVer → JsKept s.disk d')) := by
    intro h ha d' hk
    constructor
    · intro hm
      refine hk.1 (fun x hx => ?_)
      rw [Op.mine_handle s op h x ha hx] at hm
      exact hm
    · intro hm
      refine hk.2 (fun x j hx hj => ?_)
      rw [Op.mine_handle s op h x ha hx, hj] at hm
      exact hm
  cases op with
  | load h host p j =>
    have := loadOp_kept s (some h) host p j
    exact ⟨this.1, fun _ => this.2⟩
  | promote h => exact viaHandle h rfl _ (locked_kept s h _ doPromote_eff)
  | demote h => exact viaHandle h rfl _ (locked_kept s h _ doDemote_eff)
  | update h a => exact viaHandle h rfl _ (locked_kept s h _ (doUpdate_eff a))
  | markComplete h => exact viaHandle h rfl _ (locked_kept s h _ doMarkComplete_eff)
  | markCanceled h => exact viaHandle h rfl _ (locked_kept s h _ doMarkCanceled_eff)
  | completeHpcId h id => exact viaHandle h rfl _ (locked_kept s h _ (doCompleteHpcId_eff id))
  | deserializeJobs h => exact viaHandle h rfl _ (locked_kept s h _ doDeserializeJobs_eff)
  | allComplete h => exact viaHandle h rfl _ (locked_kept s h _ doAllComplete_eff)
  | prepareResubmit h sel bl =>
    simp only [Jade.Cluster.step]
    split
    · exact viaHandle h rfl _ (locked_kept s h _ (doPrepareResubmit_eff sel bl))
    · exact viaHandle h rfl _ (unlocked_kept s h _ (doPrepareResubmit_eff sel bl))
  | read =>
    have hst : (Jade.Cluster.step s .read).1 = (Jade.Cluster.loadOp s none 0 false true).1 := by
      simp only [Jade.Cluster.step]
      split <;> simp_all
    rw [hst]
    have := loadOp_kept s none 0 false true
    exact ⟨fun _ => loadOp_noPromote_kept s none 0 true, fun _ => this.2⟩
  | breakMarker =>
    simp only [Jade.Cluster.step]
    split <;> exact ⟨fun _ => ⟨rfl, rfl, rfl⟩, fun _ => ⟨rfl, rfl⟩⟩
  | forgeCfgVer n => cases hnt
  | forgeJsVer n => cases hnt
  | rmCfg => cases hnt
  | memCancel h j =>
    show (_ → CfgKept _ (memJob ..).1.disk) ∧ (_ → JsKept _ (memJob ..).1.disk)
    rw [memJob_disk]; exact ⟨fun _ => ⟨rfl, rfl, rfl⟩, fun _ => ⟨rfl, rfl⟩⟩
  | memUnblock h j done =>
    show (_ → CfgKept _ (memJob ..).1.disk) ∧ (_ → JsKept _ (memJob ..).1.disk)
    rw [memJob_disk]; exact ⟨fun _ => ⟨rfl, rfl, rfl⟩, fun _ => ⟨rfl, rfl⟩⟩

/-- an API operation (not one of the environment's) in a system with possibly empty version files: the unchanged `step`
    on the masked disk -/
theorem apiT_api (t : TSys) (op : Op) (hnt : op.isTamper = false) :
    apiT t op =
      ({ t with s := { (step { t.s with disk := maskDisk t (op.mine t.s) } op).1 with
                         disk := unmaskDisk t (step { t.s with disk := maskDisk t (op.mine t.s) } op).1.disk } },
       tornRes t op (op.mine t.s) (step { t.s with disk := maskDisk t (op.mine t.s) } op).2) := by
  cases op <;> first | rfl | cases hnt

/-- masking the version files does not change what the acting process holds in memory -/
theorem Op.mine_mask (t : TSys) (op : Op) (m : Nat × Nat) : op.mine { t.s with disk := maskDisk t m } = op.mine t.s := by
  cases op <;> rfl

/-- While `config_version.txt` is empty, no API operation changes the config pair (the hidden number included), and the
    file stays empty; likewise for the job-status pair. -/
theorem apiT_failClosed (t : TSys) (op : Op) (hnt : op.isTamper = false) :
    (t.cfgVerTorn = true → (apiT t op).1.cfgVerTorn = true ∧ CfgKept t.s.disk (apiT t op).1.s.disk) ∧
    (t.jsVerTorn = true → (apiT t op).1.jsVerTorn = true ∧ JsKept t.s.disk (apiT t op).1.s.disk) := by
  rw [apiT_api t op hnt]
  have hk := step_kept { t.s with disk := maskDisk t (op.mine t.s) } op hnt
  rw [Op.mine_mask] at hk
  constructor
  · intro ht
    have hm : (op.mine t.s).1 ≠ (maskDisk t (op.mine t.s)).cfgVer := by
      simp only [maskDisk, ht, if_true]; omega
    obtain ⟨a1, _, a3⟩ := hk.1 hm
    refine ⟨ht, ?_, ?_, ?_⟩
    · exact a1
    · simp only [unmaskDisk, ht, if_true]
    · exact a3
  · intro ht
    have hm : (op.mine t.s).2 ≠ (maskDisk t (op.mine t.s)).jsVer := by
      simp only [maskDisk, ht, if_true]; omega
    obtain ⟨a1, _⟩ := hk.2 hm
    refine ⟨ht, ?_, ?_⟩
    · exact a1
    · simp only [unmaskDisk, ht, if_true]

/-- the first `k` writes of an operation that left the config pair alone leave it alone -/
theorem tornDisk_cfgKept (d d' : Disk) (k : Nat) (h : CfgKept d d') : CfgKept d (tornDisk d d' k) := by
  obtain ⟨h1, h2, h3⟩ := h
  have hc : cfgPairChanged d d' = false := by simp [cfgPairChanged, h1, h2, h3]
  unfold tornDisk writesOf
  rw [hc, jsWriteOrder_eq]
  cases jsPairChanged d d' <;> rcases k with _ | _ | _ | k <;> simp [writeFile, CfgKept]

theorem tornDisk_jsKept (d d' : Disk) (k : Nat) (h : JsKept d d') : JsKept d (tornDisk d d' k) := by
  obtain ⟨h1, h2⟩ := h
  have hc : jsPairChanged d d' = false := by simp [jsPairChanged, h1, h2]
  unfold tornDisk writesOf
  rw [hc, cfgWriteOrder_eq]
  cases cfgPairChanged d d' <;> rcases k with _ | _ | _ | k <;> simp [writeFile, JsKept]

/-- … and so does a kill at any file write of any API operation, torn or not -/
theorem crashT_failClosed (t : TSys) (op : Op) (k : Nat) (g torn : Bool) (hnt : op.isTamper = false) :
    (t.cfgVerTorn = true → (crashT t op k g torn).1.cfgVerTorn = true ∧ CfgKept t.s.disk (crashT t op k g torn).1.s.disk) ∧
    (t.jsVerTorn = true → (crashT t op k g torn).1.jsVerTorn = true ∧ JsKept t.s.disk (crashT t op k g torn).1.s.disk) := by
  have ha := apiT_failClosed t op hnt
  unfold crashT
  simp only
  split
  · constructor
    · intro ht
      exact ⟨by simp [ht], tornDisk_cfgKept _ _ k (ha.1 ht).2⟩
    · intro ht
      exact ⟨by simp [ht], tornDisk_jsKept _ _ k (ha.2 ht).2⟩
  · exact ha

theorem stepT_failClosed (t : TSys) (op : TOp) (hnt : op.isTamper = false) :
    (t.cfgVerTorn = true → (stepT t op).1.cfgVerTorn = true ∧ CfgKept t.s.disk (stepT t op).1.s.disk) ∧
    (t.jsVerTorn = true → (stepT t op).1.jsVerTorn = true ∧ JsKept t.s.disk (stepT t op).1.s.disk) := by
  cases op with
  | api op => exact apiT_failClosed t op hnt
  | crash op k g torn => exact crashT_failClosed t op k g torn hnt

theorem execT_failClosed : ∀ (ops : List TOp) (t : TSys), (∀ op ∈ ops, op.isTamper = false) →
    (t.cfgVerTorn = true → (execT t ops).cfgVerTorn = true ∧ CfgKept t.s.disk (execT t ops).s.disk) ∧
    (t.jsVerTorn = true → (execT t ops).jsVerTorn = true ∧ JsKept t.s.disk (execT t ops).s.disk) := by
  intro ops
  induction ops with
  | nil => intro t _; exact ⟨fun ht => ⟨ht, rfl, rfl, rfl⟩, fun ht => ⟨ht, rfl, rfl⟩⟩
  | cons op ops ih =>
    intro t hnt
    have h1 := stepT_failClosed t op (hnt op (List.mem_cons_self ..))
    have h2 := ih (stepT t op).1 (fun o ho => hnt o (List.mem_cons_of_mem _ ho))
    show (_ → (execT (stepT t op).1 ops).cfgVerTorn = true ∧ CfgKept _ (execT (stepT t op).1 ops).s.disk) ∧
         (_ → (execT (stepT t op).1 ops).jsVerTorn = true ∧ JsKept _ (execT (stepT t op).1 ops).s.disk)
    constructor
    · intro ht
      obtain ⟨b0, b1, b2, b3⟩ := h1.1 ht
      obtain ⟨c0, c1, c2, c3⟩ := h2.1 b0
      exact ⟨c0, c1.trans b1, c2.trans b2, c3.trans b3⟩
    · intro ht
      obtain ⟨b0, b1, b2⟩ := h1.2 ht
      obtain ⟨c0, c1, c2⟩ := h2.2 b0
      exact ⟨c0, c1.trans b1, c2.trans b2⟩

/-- with an EMPTY `config_version.txt` no operation that reads it reports a version mismatch: the compare is never
    reached, the exception is the ValueError of the read -/
theorem tornRes_not_mismatch (t : TSys) (op : Op) (m : Nat × Nat) (r : Res) (ht : t.cfgVerTorn = true)
    (hr : op.readsCfgVer = true) : tornRes t op m r ≠ .err .versionMismatch := by
  unfold tornRes
  rw [ht, hr]
  cases r with
  | err e => cases e <;> simp [compareRaised]
  | attrErr => simp only [compareRaised]; split <;> simp
  | _ => simp [compareRaised]

end Jade.Cluster
