import JadeModel.Model.ClusterLive
import JadeModel.Proofs.ClusterCrash

/-!
Failed calls whose handle lives on, and calls stalled inside the lock section (`Model/ClusterLive.lean`).
-/

namespace Jade.Cluster
open Jade.Gen.Cluster

/-! ## a held lock excludes every call that takes it -/

/-- an API call that takes the cluster lock while the lock file is present: `filelock.Timeout`, nothing changes -/
theorem step_locked_out (s : Sys) (op : Op) (hm : s.disk.marker = true) (hl : op.takesLock = true) :
    step s op = (s, .err .lockTimeout) ∨ step s op = (s, .noHandle) := by
  cases op <;> simp [Op.takesLock, resubmitLocked_eq] at hl <;>
    simp only [step, locked, loadOp, hm, if_true] <;>
    first
      | (left; rfl)
      | (left; trivial)
      | (split <;> first | (right; rfl) | (left; rfl))

theorem unmask_mask (t : TSys) (m : Nat × Nat) : unmaskDisk t (maskDisk t m) = t.s.disk := by
  cases hc : t.cfgVerTorn <;> cases hj : t.jsVerTorn <;> simp [unmaskDisk, maskDisk, hc, hj]

theorem tornRes_lockTimeout (t : TSys) (op : Op) (m : Nat × Nat) : tornRes t op m (.err .lockTimeout) = .err .lockTimeout := by
  simp [tornRes, compareRaised]

theorem tornRes_noHandle (t : TSys) (op : Op) (m : Nat × Nat) : tornRes t op m .noHandle = .noHandle := by
  simp [tornRes, compareRaised]

theorem Op.takesLock_notTamper (op : Op) (hl : op.takesLock = true) : op.isTamper = false := by
  cases op <;> first | rfl | cases hl

/-- … also when version files are empty -/
theorem apiT_locked_out (t : TSys) (op : Op) (hm : t.s.disk.marker = true) (hl : op.takesLock = true) :
    apiT t op = (t, .err .lockTimeout) ∨ apiT t op = (t, .noHandle) := by
  rw [apiT_api t op (op.takesLock_notTamper hl)]
  have hm' : ({ t.s with disk := maskDisk t (op.mine t.s) } : Sys).disk.marker = true := by simpa [maskDisk] using hm
  rcases step_locked_out { t.s with disk := maskDisk t (op.mine t.s) } op hm' hl with h | h
  · left
    rw [h]
    simp only [unmask_mask, tornRes_lockTimeout]
  · right
    rw [h]
    simp only [unmask_mask, tornRes_noHandle]

theorem writesOf_self (d : Disk) : writesOf d d = [] := by
  simp [writesOf, cfgPairChanged, jsPairChanged]

/-- a kill point inside a call that never got the lock is never reached -/
theorem crashT_locked_out (t : TSys) (op : Op) (k : Nat) (g torn : Bool) (hm : t.s.disk.marker = true)
    (hl : op.takesLock = true) :
    crashT t op k g torn = (t, some (.err .lockTimeout)) ∨ crashT t op k g torn = (t, some .noHandle) := by
  rcases apiT_locked_out t op hm hl with h | h <;> simp [crashT, h, writesOf_self]

theorem failT_locked_out (t : TSys) (op : Op) (k : Nat) (torn : Bool) (hm : t.s.disk.marker = true) (hl : op.takesLock = true) :
    failT t op k torn = (t, .err .lockTimeout) ∨ failT t op k torn = (t, .noHandle) := by
  rcases apiT_locked_out t op hm hl with h | h <;> simp [failT, h, writesOf_self]

theorem stallBeginF_locked_out (f : FSys) (op : Op) (k : Nat) (hm : f.t.s.disk.marker = true) (hl : op.takesLock = true) :
    stallBeginF f op k = (f, .res (.err .lockTimeout)) ∨ stallBeginF f op k = (f, .res .noHandle) := by
  rcases apiT_locked_out f.t op hm hl with h | h <;> simp [stallBeginF, h, writesOf_self]


/-! ## a parked call keeps the lock file: nothing but the lock library's stale-marker removal deletes a marker -/

/-- no API call removes a lock file that is present when the call starts (only `breakMarker` - the lock library - does) -/
theorem step_keeps_marker (s : Sys) (op : Op) (hm : s.disk.marker = true) (hb : op ≠ .breakMarker) :
    (step s op).1.disk.marker = true := by
  by_cases hl : op.takesLock = true
  · rcases step_locked_out s op hm hl with h | h <;> rw [h] <;> exact hm
  · cases op with
    | prepareResubmit h sel bl =>
      simp only [step, resubmitLocked_eq, Bool.false_eq_true, if_false]
      rcases unlocked_cases s h (doPrepareResubmit sel bl) with ⟨_, h2⟩ | ⟨x, _, h2⟩
      · rw [h2]; exact hm
      · rw [h2]
        show (doPrepareResubmit sel bl s.disk x).1.marker = true
        rw [(doPrepareResubmit_eff sel bl s.disk x).marker]; exact hm
    | breakMarker => exact absurd rfl hb
    | forgeCfgVer n => exact hm
    | forgeJsVer n => exact hm
    | rmCfg => exact hm
    | memCancel h j => simp only [step]; rw [memJob_disk]; exact hm
    | memUnblock h j done => simp only [step]; rw [memJob_disk]; exact hm
    | _ => exact absurd rfl hl

theorem apiT_keeps_marker (t : TSys) (op : Op) (hm : t.s.disk.marker = true) (hb : op ≠ .breakMarker) :
    (apiT t op).1.s.disk.marker = true := by
  cases hnt : op.isTamper
  · rw [apiT_api t op hnt]
    have := step_keeps_marker { t.s with disk := maskDisk t (op.mine t.s) } op (by simpa [maskDisk] using hm) hb
    simpa [unmaskDisk] using this
  · cases op <;> simp [Op.isTamper] at hnt <;> simpa [apiT, step, maskDisk, unmaskDisk] using hm

theorem crashT_keeps_marker (t : TSys) (op : Op) (k : Nat) (g torn : Bool) (hm : t.s.disk.marker = true)
    (hb : op ≠ .breakMarker) : (crashT t op k g torn).1.s.disk.marker = true := by
  by_cases hl : op.takesLock = true
  · rcases crashT_locked_out t op k g torn hm hl with h | h <;> rw [h] <;> exact hm
  · simp only [crashT]
    split
    · simp [hm]
    · exact apiT_keeps_marker t op hm hb

theorem failT_keeps_marker (t : TSys) (op : Op) (k : Nat) (torn : Bool) (hm : t.s.disk.marker = true) (hb : op ≠ .breakMarker) :
    (failT t op k torn).1.s.disk.marker = true := by
  by_cases hl : op.takesLock = true
  · rcases failT_locked_out t op k torn hm hl with h | h <;> rw [h] <;> exact hm
  · simp only [failT]
    split
    · exact apiT_keeps_marker t op hm hb
    · simp [hl, hm]

/-- the lock file of a parked call is present -/
@[reducible] def Held (f : FSys) : Prop := f.pending.isSome = true → f.t.s.disk.marker = true

theorem stepT_keeps_marker (t : TSys) (top : TOp) (op : Op) (hc : (FOp.base top).call = some op) (hm : t.s.disk.marker = true)
    (hb : op ≠ .breakMarker) : (stepT t top).1.s.disk.marker = true := by
  cases top with
  | api op' => cases hc; exact apiT_keeps_marker t op hm hb
  | crash op' k g torn => cases hc; exact crashT_keeps_marker t op k g torn hm hb

/-- INVARIANT of the extended system: while a call is parked inside the lock section its lock file is present - no API
    call, kill, failing write or second stall removes it (the lock library's removal of STALE markers does not apply to it). -/
theorem stepF_held (f : FSys) (fop : FOp) (hH : Held f) : Held (stepF f fop).1 := by
  cases hc : fop.call with
  | none =>
    have : stepF f fop = stallEndF f := by simp [stepF, hc]
    rw [this]
    unfold stallEndF
    split
    · exact hH
    · intro h; cases h
  | some op =>
    cases hbz : f.busy op
    · by_cases hbm : (decide (op = .breakMarker) && f.pending.isSome) = true
      · have hs : stepF f fop = (f, .res .disabled) := by simp [stepF, hc, hbz, hbm]
        rw [hs]; exact hH
      · have hnb : f.pending.isSome = true → op ≠ .breakMarker := by
          intro hp e; apply hbm; simp [e, hp]
        cases fop with
        | stallEnd => cases hc
        | failWrite op' k torn =>
          cases hc
          have hs : stepF f (.failWrite op k torn) = ({ f with t := (failT f.t op k torn).1 }, .res (failT f.t op k torn).2) := by
            simp [stepF, FOp.call, hbz, hbm]
          rw [hs]
          intro hp
          exact failT_keeps_marker f.t op k torn (hH hp) (hnb hp)
        | stallBegin op' k =>
          cases hc
          have hs : stepF f (.stallBegin op k) = stallBeginF f op k := by simp [stepF, FOp.call, hbz, hbm]
          rw [hs]
          simp only [stallBeginF]
          split
          · intro _; rfl
          · intro hp
            exact apiT_keeps_marker f.t op (hH hp) (hnb hp)
        | base top =>
          have hs : stepF f (.base top) = ({ f with t := (stepT f.t top).1 }, FRes.ofT (stepT f.t top).2) := by
            simp [stepF, hc, hbz, hbm]
          rw [hs]
          intro hp
          exact stepT_keeps_marker f.t top op hc (hH hp) (hnb hp)
    · have hs : stepF f fop = (f, .busy) := by simp [stepF, hc, hbz]
      rw [hs]; exact hH

theorem execF_held : ∀ (ops : List FOp) (f : FSys), Held f → Held (execF f ops) := by
  intro ops
  induction ops with
  | nil => intro f h; exact h
  | cons op ops ih =>
    intro f h
    simp only [execF, List.foldl_cons]
    exact ih _ (stepF_held f op h)


/-! ## a failed write never leaves a handle AHEAD of a version file (the repaired `_serialize` / `_serialize_jobs`) -/

/-- the handler `except Exception: self._config.version -= 1; raise` -/
theorem cfgVersionAfterFailedWrite_eq (v : Nat) : (cfgVersionAfterFailedWrite v).toNat = v - 1 := by
  simp only [cfgVersionAfterFailedWrite]; omega

theorem jsVersionAfterFailedWrite_eq (v : Nat) : (jsVersionAfterFailedWrite v).toNat = v - 1 := by
  simp only [jsVersionAfterFailedWrite]; omega

/-- what is on disk when the `(k+1)`-th write - of file `f` - is attempted -/
theorem tornDisk_at (d d' : Disk) (k : Nat) (f : FileId) (hs : DiskStep d d') (hk : (writesOf d d')[k]? = some f) :
    (f = .cfgVer → (tornDisk d d' k).cfgVer = d.cfgVer ∧ d'.cfgVer = d.cfgVer + 1) ∧
    (f ≠ .cfgVer → (tornDisk d d' k).cfgVer = d'.cfgVer) ∧
    (f = .jsVer → (tornDisk d d' k).jsVer = d.jsVer ∧ d'.jsVer = d.jsVer + 1) ∧
    (f = .js → (tornDisk d d' k).jsVer = d'.jsVer) ∧
    ((f = .cfgVer ∨ f = .cfg) → (tornDisk d d' k).jsVer = d.jsVer) := by
  obtain ⟨h1, h2⟩ := hs
  have c1 : cfgPairChanged d d' = true → d'.cfgVer = d.cfgVer + 1 := by
    intro hc
    rcases h1 with ⟨a, b, c⟩ | ⟨a, _, _⟩
    · simp [cfgPairChanged, a, b, c] at hc
    · exact a
  have c0 : cfgPairChanged d d' = false → d'.cfgVer = d.cfgVer := by
    intro hc; simp [cfgPairChanged] at hc; exact hc.1.2
  have j1 : jsPairChanged d d' = true → d'.jsVer = d.jsVer + 1 := by
    intro hc
    rcases h2 with ⟨a, b⟩ | ⟨a, _⟩
    · simp [jsPairChanged, a, b] at hc
    · exact a
  have j0 : jsPairChanged d d' = false → d'.jsVer = d.jsVer := by
    intro hc; simp [jsPairChanged] at hc; exact hc.2
  unfold tornDisk
  unfold writesOf at hk ⊢
  rw [cfgWriteOrder_eq, jsWriteOrder_eq] at hk ⊢
  cases hc : cfgPairChanged d d' <;> cases hj : jsPairChanged d d' <;>
    simp only [hc, hj] at hk c1 c0 j1 j0 ⊢ <;>
    rcases k with _ | _ | _ | _ | k <;> simp [writeFile] at hk ⊢ <;> subst hk <;> simp_all

theorem restoreJsVersion_some (x x' : Handle) (j'' : JsView) (h : restoreJsVersion x x' = some j'') :
    ∃ j : JsView, x.js = some j ∧ j''.version = j.version := by
  unfold restoreJsVersion at h
  cases hx : x.js with
  | none => simp [hx] at h
  | some j =>
    simp only [hx, Option.map_eq_some_iff] at h
    obtain ⟨j', _, e⟩ := h
    exact ⟨j, rfl, by rw [← e]⟩

/-- `VerAhead` (no version file behind its data file, NO HANDLE AHEAD OF A VERSION FILE) survives a failed write at any
    point of any API call: the handle whose version-file write failed holds the on-disk version again, the handle whose
    data-file write failed holds the version the version file has. -/
theorem failT_verAhead {s : Sys} (hI : VerAhead s) (op : Op) (k : Nat) (hnt : op.isTamper = false) :
    VerAhead (failT (TSys.ofSys s) op k false).1.s ∧
    (failT (TSys.ofSys s) op k false).1 = TSys.ofSys (failT (TSys.ofSys s) op k false).1.s := by
  have hstep := VerAhead.step hI op hnt
  have hds := step_diskStep s op hnt
  have ha : apiT { s := s, cfgVerTorn := false, jsVerTorn := false } op =
      ({ s := (step s op).1, cfgVerTorn := false, jsVerTorn := false }, (step s op).2) := apiT_ofSys s op
  unfold failT
  simp only [TSys.ofSys, ha]
  cases hk : (writesOf s.disk (step s op).1.disk)[k]? with
  | none => exact ⟨hstep, rfl⟩
  | some f =>
    refine ⟨?_, by simp⟩
    obtain ⟨b1, b2, b3, b4⟩ := tornDisk_bounds s.disk (step s op).1.disk k hds hI.cfgData hI.jsData
    obtain ⟨t1, t2, t3, t4, t5⟩ := tornDisk_at s.disk (step s op).1.disk k f hds hk
    refine ⟨b1, b2, ?_, ?_⟩
    · intro q y hy
      show y.cfg.version ≤ (tornDisk s.disk (step s op).1.disk k).cfgVer
      cases ha : op.actor with
      | none => simp only [ha] at hy; exact Nat.le_trans (hI.cfgHandle q y hy) b3
      | some h =>
        simp only [ha] at hy
        cases hx : s.handles h with
        | none => simp only [hx] at hy; exact Nat.le_trans (hI.cfgHandle q y hy) b3
        | some x =>
          cases hx' : (step s op).1.handles h with
          | none => simp only [hx, hx'] at hy; exact Nat.le_trans (hI.cfgHandle q y hy) b3
          | some x' =>
            simp only [hx, hx'] at hy
            by_cases hq : q = h
            · simp only [hq, if_true, Option.some.injEq] at hy
              have hx'le := hstep.cfgHandle h x' hx'
              subst hy
              cases f with
              | cfgVer =>
                obtain ⟨e1, e2⟩ := t1 rfl
                simp only [failedHandle, cfgVersionAfterFailedWrite_eq]
                omega
              | cfg => rw [t2 (by simp)]; exact hx'le
              | jsVer => rw [t2 (by simp)]; exact hx'le
              | js => rw [t2 (by simp)]; exact hx'le
            · simp only [hq, if_false] at hy
              exact Nat.le_trans (hI.cfgHandle q y hy) b3
    · intro q y j hy hj
      show j.version ≤ (tornDisk s.disk (step s op).1.disk k).jsVer
      cases ha : op.actor with
      | none => simp only [ha] at hy; exact Nat.le_trans (hI.jsHandle q y j hy hj) b4
      | some h =>
        simp only [ha] at hy
        cases hx : s.handles h with
        | none => simp only [hx] at hy; exact Nat.le_trans (hI.jsHandle q y j hy hj) b4
        | some x =>
          cases hx' : (step s op).1.handles h with
          | none => simp only [hx, hx'] at hy; exact Nat.le_trans (hI.jsHandle q y j hy hj) b4
          | some x' =>
            simp only [hx, hx'] at hy
            by_cases hq : q = h
            · simp only [hq, if_true, Option.some.injEq] at hy
              subst hy
              cases f with
              | cfgVer =>
                simp only [failedHandle] at hj
                obtain ⟨j0, hj0, e⟩ := restoreJsVersion_some x x' j hj
                rw [e]; exact Nat.le_trans (hI.jsHandle h x j0 hx hj0) b4
              | cfg =>
                simp only [failedHandle] at hj
                obtain ⟨j0, hj0, e⟩ := restoreJsVersion_some x x' j hj
                rw [e]; exact Nat.le_trans (hI.jsHandle h x j0 hx hj0) b4
              | jsVer =>
                obtain ⟨e1, e2⟩ := t3 rfl
                simp only [failedHandle, Option.map_eq_some_iff] at hj
                obtain ⟨j', hj', e⟩ := hj
                have := hstep.jsHandle h x' j' hx' hj'
                rw [← e]
                simp only [jsVersionAfterFailedWrite_eq]
                omega
              | js =>
                simp only [failedHandle] at hj
                rw [t4 rfl]; exact hstep.jsHandle h x' j hx' hj
            · simp only [hq, if_false] at hy
              exact Nat.le_trans (hI.jsHandle q y j hy hj) b4


/-! ## histories of API calls, kills between file writes and failed writes -/

/-- an API call, a kill right before a file write, a failing file write (no stalls, no truncated version files) -/
def FOp.plain : FOp → Bool
  | .base (.api _) => true
  | .base (.crash _ _ _ torn) => !torn
  | .failWrite _ _ torn => !torn
  | _ => false

/-- no call parked, no version file empty, and `VerAhead` -/
structure PlainAhead (f : FSys) : Prop where
  idle : f.pending = none
  plain : f.t = TSys.ofSys f.t.s
  ahead : VerAhead f.t.s

theorem stepF_plainAhead (f : FSys) (hP : PlainAhead f) (fop : FOp) (hp : fop.plain = true) (hnt : fop.isTamper = false) :
    PlainAhead (stepF f fop).1 := by
  obtain ⟨hidle, hplain, hI⟩ := hP
  obtain ⟨t, p⟩ := f
  simp only at hidle hplain hI
  subst hidle
  obtain ⟨s, c, j⟩ := t
  simp only [TSys.ofSys, TSys.mk.injEq, true_and] at hplain hI
  obtain ⟨hc, hj⟩ := hplain
  subst hc; subst hj
  cases fop with
  | stallEnd => cases hp
  | stallBegin op k => cases hp
  | failWrite op k torn =>
    have ht : torn = false := by simpa [FOp.plain] using hp
    subst ht
    have hs : stepF ⟨⟨s, false, false⟩, none⟩ (.failWrite op k false) =
        (⟨(failT (TSys.ofSys s) op k false).1, none⟩, .res (failT (TSys.ofSys s) op k false).2) := by
      simp [stepF, FOp.call, FSys.busy, TSys.ofSys]
    rw [hs]
    obtain ⟨a, b⟩ := failT_verAhead hI op k (by simpa [FOp.isTamper] using hnt)
    exact ⟨rfl, b, a⟩
  | base top =>
    have hs : stepF ⟨⟨s, false, false⟩, none⟩ (.base top) =
        (⟨(stepT (TSys.ofSys s) top).1, none⟩, FRes.ofT (stepT (TSys.ofSys s) top).2) := by
      cases top <;> simp [stepF, FOp.call, FSys.busy, TSys.ofSys]
    rw [hs]
    cases top with
    | api op =>
      have := stepT_ofSys s (.api op)
      simp only [TOp.ofX] at this
      rw [this]
      exact ⟨rfl, rfl, VerAhead.stepX hI (.api op) (by simpa [FOp.isTamper, TOp.isTamper, XOp.isTamper] using hnt)⟩
    | crash op k g torn =>
      have ht : torn = false := by simpa [FOp.plain] using hp
      subst ht
      have := stepT_ofSys s (.crash op k g)
      simp only [TOp.ofX] at this
      rw [this]
      exact ⟨rfl, rfl, VerAhead.stepX hI (.crash op k g) (by simpa [FOp.isTamper, TOp.isTamper, XOp.isTamper] using hnt)⟩

theorem execF_plainAhead : ∀ (ops : List FOp) (f : FSys), PlainAhead f →
    (∀ op ∈ ops, op.plain = true ∧ op.isTamper = false) → PlainAhead (execF f ops) := by
  intro ops
  induction ops with
  | nil => intro f h _; exact h
  | cons op ops ih =>
    intro f h hall
    simp only [execF, List.foldl_cons]
    exact ih _ (stepF_plainAhead f h op (hall op (by simp)).1 (hall op (by simp)).2)
      (fun o ho => hall o (by simp [ho]))

theorem PlainAhead.create (host : Host) (spec : List (List JobId × Bool)) (brk : Bool) :
    PlainAhead (FSys.ofT (TSys.ofSys (Jade.Cluster.create host spec brk))) :=
  ⟨rfl, rfl, VerAhead.create host spec brk⟩

/-! ## without a parked call and with no empty version file, the extended system is the plain one -/

theorem TSys.eq_ofSys (t : TSys) (hc : t.cfgVerTorn = false) (hj : t.jsVerTorn = false) : t = TSys.ofSys t.s := by
  cases t; simp_all [TSys.ofSys]

theorem FSys.busy_idle (f : FSys) (op : Op) (hp : f.pending = none) : f.busy op = false := by
  simp [FSys.busy, hp]

/-- an API call in the extended system when no call is parked and no version file is empty: exactly `step` -/
theorem stepF_idle_api (f : FSys) (op : Op) (hp : f.pending = none) (hc : f.t.cfgVerTorn = false) (hj : f.t.jsVerTorn = false) :
    (stepF f (.base (.api op))).2 = .res (step f.t.s op).2 ∧ (stepF f (.base (.api op))).1.t.s = (step f.t.s op).1 ∧
    (stepF f (.base (.api op))).1.pending = none := by
  have ht := f.t.eq_ofSys hc hj
  have ha : apiT f.t op = (TSys.ofSys (step f.t.s op).1, (step f.t.s op).2) := by
    conv => lhs; rw [ht]
    exact apiT_ofSys f.t.s op
  have : stepF f (.base (.api op)) = ({ f with t := (stepT f.t (.api op)).1 }, FRes.ofT (stepT f.t (.api op)).2) := by
    simp [stepF, FOp.call, FSys.busy_idle f _ hp, hp]
  rw [this]
  simp [stepT, ha, FRes.ofT, TSys.ofSys, hp]

/-! ## conservative over the alphabet of kills -/

theorem stepF_base (t : TSys) (op : TOp) :
    stepF (FSys.ofT t) (.base op) = (FSys.ofT (stepT t op).1, FRes.ofT (stepT t op).2) := by
  cases op <;> simp [stepF, FOp.call, FSys.busy, FSys.ofT]

theorem execF_base : ∀ (ops : List TOp) (t : TSys), execF (FSys.ofT t) (ops.map FOp.ofT) = FSys.ofT (execT t ops) := by
  intro ops
  induction ops with
  | nil => intro t; rfl
  | cons op ops ih =>
    intro t
    simp only [List.map_cons, execF, execT, List.foldl_cons, FOp.ofT]
    rw [stepF_base]
    exact ih _

theorem runF_base : ∀ (ops : List TOp) (t : TSys), (runF (FSys.ofT t) (ops.map FOp.ofT)).2 = (runT t ops).2.map FRes.ofT := by
  intro ops
  induction ops with
  | nil => intro t; rfl
  | cons op ops ih =>
    intro t
    simp only [List.map_cons, runF, runT, FOp.ofT]
    rw [stepF_base]
    simp only [ih]

end Jade.Cluster
