import JadeModel.Model.ClusterLive
import JadeModel.Proofs.ClusterCrash

/-!
Failed calls whose handle lives on, and calls stalled inside the lock section (`Model/ClusterLive.lean`).
-/

namespace Jade.Cluster
open Jade.Gen.Cluster

/-! ## a held lock excludes every call that takes it -/

/-- an API call that takes the cluster lock while the lock file is present: `filelock.Timeout`, nothing changes -/
theorem step_locked_out (s : Sys) (op : Op) (hm : s.disk.marker = true) (hl : op.takesLock = true) :
    step s op = (s, .err .lockTimeout) ∨ step s op = (s, .noHandle) := by
  cases op <;> simp [Op.takesLock, resubmitLocked_eq] at hl <;>
    simp only [step, locked, loadOp, hm, if_true] <;>
    first
      | (left; rfl)
      | (left; trivial)
      | (split <;> first | (right; rfl) | (left; rfl))

theorem unmask_mask (t : TSys) (m : Nat × Nat) : unmaskDisk t (maskDisk t m) = t.s.disk := by
  cases hc : t.cfgVerTorn <;> cases hj : t.jsVerTorn <;> simp [unmaskDisk, maskDisk, hc, hj]

theorem tornRes_lockTimeout (t : TSys) (op : Op) (m : Nat × Nat) : tornRes t op m (.err .lockTimeout) = .err .lockTimeout := by
  simp [tornRes, compareRaised]

theorem tornRes_noHandle (t : TSys) (op : Op) (m : Nat × Nat) : tornRes t op m .noHandle = .noHandle := by
  simp [tornRes, compareRaised]

theorem Op.takesLock_notTamper (op : Op) (hl : op.takesLock = true) : op.isTamper = false := by
  cases op <;> first | rfl | cases hl

/-- … also when version files are empty -/
theorem apiT_locked_out (t : TSys) (op : Op) (hm : t.s.disk.marker = true) (hl : op.takesLock = true) :
    apiT t op = (t, .err .lockTimeout) ∨ apiT t op = (t, .noHandle) := by
  rw [apiT_api t op (op.takesLock_notTamper hl)]
  have hm' : ({ t.s with disk := maskDisk t (op.mine t.s) } : Sys).disk.marker = true := by simpa [maskDisk] using hm
  rcases step_locked_out { t.s with disk := maskDisk t (op.mine t.s) } op hm' hl with h | h
  · left
    rw [h]
    simp only [unmask_mask, tornRes_lockTimeout]
  · right
    rw [h]
    simp only [unmask_mask, tornRes_noHandle]

theorem writesOf_self (d : Disk) : writesOf d d = [] := by
  simp [writesOf, cfgPairChanged, jsPairChanged]

/-- a kill point inside a call that never got the lock is never reached -/
theorem crashT_locked_out (t : TSys) (op : Op) (k : Nat) (g torn : Bool) (hm : t.s.disk.marker = true)
    (hl : op.takesLock = true) :
    crashT t op k g torn = (t, some (.err .lockTimeout)) ∨ crashT t op k g torn = (t, some .noHandle) := by
  rcases apiT_locked_out t op hm hl with h | h <;> simp [crashT, h, writesOf_self]

theorem failT_locked_out (t : TSys) (op : Op) (k : Nat) (hm : t.s.disk.marker = true) (hl : op.takesLock = true) :
    failT t op k = (t, .err .lockTimeout) ∨ failT t op k = (t, .noHandle) := by
  rcases apiT_locked_out t op hm hl with h | h <;> simp [failT, h, writesOf_self]

theorem stallBeginF_locked_out (f : FSys) (op : Op) (k : Nat) (hm : f.t.s.disk.marker = true) (hl : op.takesLock = true) :
    stallBeginF f op k = (f, .res (.err .lockTimeout)) ∨ stallBeginF f op k = (f, .res .noHandle) := by
  rcases apiT_locked_out f.t op hm hl with h | h <;> simp [stallBeginF, h, writesOf_self]


/-! ## a parked call keeps the lock file: nothing but the lock library's stale-marker removal deletes a marker -/

/-- no API call removes a lock file that is present when the call starts (only `breakMarker` - the lock library - does) -/
theorem step_keeps_marker (s : Sys) (op : Op) (hm : s.disk.marker = true) (hb : op ≠ .breakMarker) :
    (step s op).1.disk.marker = true := by
  by_cases hl : op.takesLock = true
  · rcases step_locked_out s op hm hl with h | h <;> rw [h] <;> exact hm
  · cases op with
    | prepareResubmit h sel bl =>
      simp only [step, resubmitLocked_eq, Bool.false_eq_true, if_false]
      rcases unlocked_cases s h (doPrepareResubmit sel bl) with ⟨_, h2⟩ | ⟨x, _, h2⟩
      · rw [h2]; exact hm
      · rw [h2]
        show (doPrepareResubmit sel bl s.disk x).1.marker = true
        rw [(doPrepareResubmit_eff sel bl s.disk x).marker]; exact hm
    | breakMarker => exact absurd rfl hb
    | forgeCfgVer n => exact hm
    | forgeJsVer n => exact hm
    | rmCfg => exact hm
    | memCancel h j => simp only [step]; rw [memJob_disk]; exact hm
    | memUnblock h j done => simp only [step]; rw [memJob_disk]; exact hm
    | _ => exact absurd rfl hl

theorem apiT_keeps_marker (t : TSys) (op : Op) (hm : t.s.disk.marker = true) (hb : op ≠ .breakMarker) :
    (apiT t op).1.s.disk.marker = true := by
  cases hnt : op.isTamper
  · rw [apiT_api t op hnt]
    have := step_keeps_marker { t.s with disk := maskDisk t (op.mine t.s) } op (by simpa [maskDisk] using hm) hb
    simpa [unmaskDisk] using this
  · cases op <;> simp [Op.isTamper] at hnt <;> simpa [apiT, step, maskDisk, unmaskDisk] using hm

theorem crashT_keeps_marker (t : TSys) (op : Op) (k : Nat) (g torn : Bool) (hm : t.s.disk.marker = true)
    (hb : op ≠ .breakMarker) : (crashT t op k g torn).1.s.disk.marker = true := by
  by_cases hl : op.takesLock = true
  · rcases crashT_locked_out t op k g torn hm hl with h | h <;> rw [h] <;> exact hm
  · simp only [crashT]
    split
    · simp [hm]
    · exact apiT_keeps_marker t op hm hb

theorem failT_keeps_marker (t : TSys) (op : Op) (k : Nat) (hm : t.s.disk.marker = true) (hb : op ≠ .breakMarker) :
    (failT t op k).1.s.disk.marker = true := by
  by_cases hl : op.takesLock = true
  · rcases failT_locked_out t op k hm hl with h | h <;> rw [h] <;> exact hm
  · simp only [failT]
    split
    · exact apiT_keeps_marker t op hm hb
    · simp [hl, hm]

/-- the lock file of a parked call is present -/
@[reducible] def Held (f : FSys) : Prop := f.pending.isSome = true → f.t.s.disk.marker = true

theorem stepT_keeps_marker (t : TSys) (top : TOp) (op : Op) (hc : (FOp.base top).call = some op) (hm : t.s.disk.marker = true)
    (hb : op ≠ .breakMarker) : (stepT t top).1.s.disk.marker = true := by
  cases top with
  | api op' => cases hc; exact apiT_keeps_marker t op hm hb
  | crash op' k g torn => cases hc; exact crashT_keeps_marker t op k g torn hm hb

/-- INVARIANT of the extended system: while a call is parked inside the lock section its lock file is present - no API
    call, kill, failing write or second stall removes it (the lock library's removal of STALE markers does not apply to it). -/
theorem stepF_held (f : FSys) (fop : FOp) (hH : Held f) : Held (stepF f fop).1 := by
  cases hc : fop.call with
  | none =>
    have : stepF f fop = stallEndF f := by simp [stepF, hc]
    rw [this]
    unfold stallEndF
    split
    · exact hH
    · intro h; cases h
  | some op =>
    cases hbz : f.busy op
    · by_cases hbm : (decide (op = .breakMarker) && f.pending.isSome) = true
      · have hs : stepF f fop = (f, .res .disabled) := by simp [stepF, hc, hbz, hbm]
        rw [hs]; exact hH
      · have hnb : f.pending.isSome = true → op ≠ .breakMarker := by
          intro hp e; apply hbm; simp [e, hp]
        cases fop with
        | stallEnd => cases hc
        | failWrite op' k =>
          cases hc
          have hs : stepF f (.failWrite op k) = ({ f with t := (failT f.t op k).1 }, .res (failT f.t op k).2) := by
            simp [stepF, FOp.call, hbz, hbm]
          rw [hs]
          intro hp
          exact failT_keeps_marker f.t op k (hH hp) (hnb hp)
        | stallBegin op' k =>
          cases hc
          have hs : stepF f (.stallBegin op k) = stallBeginF f op k := by simp [stepF, FOp.call, hbz, hbm]
          rw [hs]
          simp only [stallBeginF]
          split
          · intro _; rfl
          · intro hp
            exact apiT_keeps_marker f.t op (hH hp) (hnb hp)
        | base top =>
          have hs : stepF f (.base top) = ({ f with t := (stepT f.t top).1 }, FRes.ofT (stepT f.t top).2) := by
            simp [stepF, hc, hbz, hbm]
          rw [hs]
          intro hp
          exact stepT_keeps_marker f.t top op hc (hH hp) (hnb hp)
    · have hs : stepF f fop = (f, .busy) := by simp [stepF, hc, hbz]
      rw [hs]; exact hH

theorem execF_held : ∀ (ops : List FOp) (f : FSys), Held f → Held (execF f ops) := by
  intro ops
  induction ops with
  | nil => intro f h; exact h
  | cons op ops ih =>
    intro f h
    simp only [execF, List.foldl_cons]
    exact ih _ (stepF_held f op h)

/-! ## without a parked call and with no empty version file, the extended system is the plain one -/

theorem TSys.eq_ofSys (t : TSys) (hc : t.cfgVerTorn = false) (hj : t.jsVerTorn = false) : t = TSys.ofSys t.s := by
  cases t; simp_all [TSys.ofSys]

theorem FSys.busy_idle (f : FSys) (op : Op) (hp : f.pending = none) : f.busy op = false := by
  simp [FSys.busy, hp]

/-- an API call in the extended system when no call is parked and no version file is empty: exactly `step` -/
theorem stepF_idle_api (f : FSys) (op : Op) (hp : f.pending = none) (hc : f.t.cfgVerTorn = false) (hj : f.t.jsVerTorn = false) :
    (stepF f (.base (.api op))).2 = .res (step f.t.s op).2 ∧ (stepF f (.base (.api op))).1.t.s = (step f.t.s op).1 ∧
    (stepF f (.base (.api op))).1.pending = none := by
  have ht := f.t.eq_ofSys hc hj
  have ha : apiT f.t op = (TSys.ofSys (step f.t.s op).1, (step f.t.s op).2) := by
    conv => lhs; rw [ht]
    exact apiT_ofSys f.t.s op
  have : stepF f (.base (.api op)) = ({ f with t := (stepT f.t (.api op)).1 }, FRes.ofT (stepT f.t (.api op)).2) := by
    simp [stepF, FOp.call, FSys.busy_idle f _ hp, hp]
  rw [this]
  simp [stepT, ha, FRes.ofT, TSys.ofSys, hp]

/-! ## conservative over the alphabet of kills -/

theorem stepF_base (t : TSys) (op : TOp) :
    stepF (FSys.ofT t) (.base op) = (FSys.ofT (stepT t op).1, FRes.ofT (stepT t op).2) := by
  cases op <;> simp [stepF, FOp.call, FSys.busy, FSys.ofT]

theorem execF_base : ∀ (ops : List TOp) (t : TSys), execF (FSys.ofT t) (ops.map FOp.ofT) = FSys.ofT (execT t ops) := by
  intro ops
  induction ops with
  | nil => intro t; rfl
  | cons op ops ih =>
    intro t
    simp only [List.map_cons, execF, execT, List.foldl_cons, FOp.ofT]
    rw [stepF_base]
    exact ih _

theorem runF_base : ∀ (ops : List TOp) (t : TSys), (runF (FSys.ofT t) (ops.map FOp.ofT)).2 = (runT t ops).2.map FRes.ofT := by
  intro ops
  induction ops with
  | nil => intro t; rfl
  | cons op ops ih =>
    intro t
    simp only [List.map_cons, runF, runT, FOp.ofT]
    rw [stepF_base]
    simp only [ih]

end Jade.Cluster
