import JadeModel.Proofs.Cluster

/-!
The role invariant (`RoleInv`, DESIGN 4.3) of the cluster API model and its preservation by every operation that
respects `Protocol`.
-/

namespace Jade.Cluster
open Jade.Gen.Cluster

/-- the inductive invariant behind C10 -/
structure RoleInv (t : Tracked) : Prop where
  /-- at most one holder -/
  one : ∀ a b : Hid, t.holder a = true → t.holder b = true → a = b
  agreeCfg : t.s.disk.cfg.version = t.s.disk.cfgVer
  agreeJs : t.s.disk.js.version = t.s.disk.jsVer
  present : t.s.disk.cfgMissing = false
  /-- no handle is ahead of the disk -/
  le : ∀ (h : Hid) (x : Handle), t.s.handles h = some x → x.cfg.version ≤ t.s.disk.cfgVer
  /-- a handle whose config copy is current knows who the submitter is -/
  cur : ∀ (h : Hid) (x : Handle), t.s.handles h = some x → x.cfg.version = t.s.disk.cfgVer →
    x.cfg.submitter = t.s.disk.cfg.submitter
  /-- … and the value behind its remembered hash is the one on disk, as far as the submitter goes -/
  hash : ∀ (h : Hid) (x : Handle) (c : CfgView), t.s.handles h = some x → x.cfgHash = some (Snap.cfg c) →
    x.cfg.version = t.s.disk.cfgVer → c.submitter = t.s.disk.cfg.submitter
  /-- a holder's copies are current and name its own host -/
  hold : ∀ h : Hid, t.holder h = true → ∃ x : Handle, t.s.handles h = some x ∧ x.cfg.version = t.s.disk.cfgVer ∧
    x.cfg.submitter = some x.host ∧ ∀ j : JsView, x.js = some j → j.version = t.s.disk.jsVer
  /-- the submitter field is set iff somebody holds the role -/
  someIff : t.s.disk.cfg.submitter.isSome = true ↔ ∃ h : Hid, t.holder h = true
  /-- while the role is free, a handle with a current config copy has a current job-status copy -/
  free : t.s.disk.cfg.submitter = none → ∀ (h : Hid) (x : Handle) (j : JsView), t.s.handles h = some x →
    x.cfg.version = t.s.disk.cfgVer → x.js = some j → j.version = t.s.disk.jsVer

/-- Generic step: handle `h` ran a method with effect `Eff` that keeps the in-memory submitter field; whoever
    writes is a holder.  The marker is irrelevant to the invariant. -/
theorem RoleInv.generic {t : Tracked} (hI : RoleInv t) (h : Hid) (x : Handle) (o : Out) (m : Bool)
    (hx : t.s.handles h = some x) (he : Eff t.s.disk x o) (hk : o.2.1.cfg.submitter = x.cfg.submitter)
    (hw : t.holder h = true ∨
      ((o.1.cfg = t.s.disk.cfg ∧ o.1.cfgVer = t.s.disk.cfgVer ∧ o.1.cfgMissing = t.s.disk.cfgMissing) ∧
       (o.1.js = t.s.disk.js ∧ o.1.jsVer = t.s.disk.jsVer))) :
    RoleInv { s := ({ t.s with disk := { o.1 with marker := m } }).setHandle h o.2.1, holder := t.holder } := by
  obtain ⟨hhost, _, hcfg, hjs⟩ := he
  have hxcur : t.holder h = true → x.cfg.version = t.s.disk.cfgVer ∧ x.cfg.submitter = some x.host ∧
      ∀ j : JsView, x.js = some j → j.version = t.s.disk.jsVer := by
    intro hh
    obtain ⟨x', h1, h2, h3, h4⟩ := hI.hold h hh
    rw [hx] at h1; cases h1
    exact ⟨h2, h3, h4⟩
  -- the config write, if any, was made by a holder
  have hcw : ¬ (o.1.cfg = t.s.disk.cfg ∧ o.1.cfgVer = t.s.disk.cfgVer ∧ o.1.cfgMissing = t.s.disk.cfgMissing) →
      t.holder h = true := by
    intro hn; rcases hw with hw | hw
    · exact hw
    · exact absurd hw.1 hn
  have hjw : ¬ (o.1.js = t.s.disk.js ∧ o.1.jsVer = t.s.disk.jsVer) → t.holder h = true := by
    intro hn; rcases hw with hw | hw
    · exact hw
    · exact absurd hw.2 hn
  have hle := hI.le h x hx
  refine ⟨hI.one, ?_, ?_, ?_, ?_, ?_, ?_, ?_, ?_, ?_⟩
  · -- agreeCfg
    show o.1.cfg.version = o.1.cfgVer
    rcases hcfg with ⟨a1, a2, _, _, _⟩ | ⟨_, a2, a3, _, a5, _⟩
    · rw [a1, a2]; exact hI.agreeCfg
    · rw [a3, a5, a2]
  · -- agreeJs
    show o.1.js.version = o.1.jsVer
    rcases hjs with ⟨a1, a2, _⟩ | ⟨j, _, _, a3, _, a5⟩
    · rw [a1, a2]; exact hI.agreeJs
    · rw [a5, a3]
  · -- present
    show o.1.cfgMissing = false
    rcases hcfg with ⟨_, _, a3, _, _⟩ | ⟨_, _, _, a4, _, _⟩
    · rw [a3]; exact hI.present
    · exact a4
  · -- le
    intro q y hy
    show y.cfg.version ≤ o.1.cfgVer
    simp only [Sys.setHandle] at hy
    split at hy
    · cases hy
      rcases hcfg with ⟨_, a2, _, a4, _⟩ | ⟨_, a2, _, _, a5, _⟩
      · rw [a4, a2]; exact hle
      · rw [a5, a2]; exact Nat.le_refl _
    · have := hI.le q y hy
      rcases hcfg with ⟨_, a2, _, _, _⟩ | ⟨_, a2, _, _, _, _⟩ <;> rw [a2] <;> omega
  · -- cur
    intro q y hy hv
    show y.cfg.submitter = o.1.cfg.submitter
    change y.cfg.version = o.1.cfgVer at hv
    simp only [Sys.setHandle] at hy
    split at hy
    · cases hy
      rcases hcfg with ⟨a1, a2, _, a4, _⟩ | ⟨_, _, a3, _, _, _⟩
      · rw [a1, hk]; rw [a4, a2] at hv; exact hI.cur h x hx hv
      · rw [a3]
    · have hl := hI.le q y hy
      rcases hcfg with ⟨a1, a2, _, _, _⟩ | ⟨_, a2, _, _, _, _⟩
      · rw [a1]; rw [a2] at hv; exact hI.cur q y hy hv
      · rw [a2] at hv; omega
  · -- hash
    intro q y c hy hc hv
    show c.submitter = o.1.cfg.submitter
    change y.cfg.version = o.1.cfgVer at hv
    simp only [Sys.setHandle] at hy
    split at hy
    · cases hy
      rcases hcfg with ⟨a1, a2, _, a4, a5⟩ | ⟨_, _, a3, _, _, a6⟩
      · rw [a1]; rw [a4, a2] at hv; rw [a5] at hc; exact hI.hash h x c hx hc hv
      · rw [a6] at hc; cases hc; rw [a3]
    · have hl := hI.le q y hy
      rcases hcfg with ⟨a1, a2, _, _, _⟩ | ⟨_, a2, _, _, _, _⟩
      · rw [a1]; rw [a2] at hv; exact hI.hash q y c hy hc hv
      · rw [a2] at hv; omega
  · -- hold
    intro q hq
    show ∃ y : Handle, (({ t.s with disk := { o.1 with marker := m } }).setHandle h o.2.1).handles q = some y ∧
      y.cfg.version = o.1.cfgVer ∧ y.cfg.submitter = some y.host ∧ ∀ j : JsView, y.js = some j → j.version = o.1.jsVer
    by_cases hqh : q = h
    · subst hqh
      obtain ⟨c1, c2, c3⟩ := hxcur hq
      refine ⟨o.2.1, by simp [Sys.setHandle], ?_, by rw [hk, hhost]; exact c2, ?_⟩
      · rcases hcfg with ⟨_, a2, _, a4, _⟩ | ⟨_, a2, _, _, a5, _⟩
        · rw [a4, a2]; exact c1
        · rw [a5, a2]
      · intro j' hj'
        rcases hjs with ⟨a1, a2, a3⟩ | ⟨j, _, _, a3, a4, a5⟩
        · rw [a2]
          rcases a3 j' hj' with ⟨j, b1, b2⟩ | b
          · rw [b2]; exact c3 j b1
          · rw [b]; exact hI.agreeJs
        · rw [a4] at hj'; cases hj'; rw [a5, a3]
    · -- another holder than the acting handle: impossible if anything was written
      obtain ⟨y, b1, b2, b3, b4⟩ := hI.hold q hq
      have hnh : t.holder h = true → False := fun hh => hqh (hI.one q h hq hh)
      have hc1 : o.1.cfg = t.s.disk.cfg ∧ o.1.cfgVer = t.s.disk.cfgVer ∧ o.1.cfgMissing = t.s.disk.cfgMissing :=
        Classical.byContradiction fun hn => hnh (hcw hn)
      have hj1 : o.1.js = t.s.disk.js ∧ o.1.jsVer = t.s.disk.jsVer :=
        Classical.byContradiction fun hn => hnh (hjw hn)
      refine ⟨y, by simp [Sys.setHandle, hqh, b1], by rw [hc1.2.1]; exact b2, b3, ?_⟩
      intro j hj; rw [hj1.2]; exact b4 j hj
  · -- someIff
    show o.1.cfg.submitter.isSome = true ↔ _
    rcases hcfg with ⟨a1, _, _, _, _⟩ | ⟨a1, _, a3, _, _, _⟩
    · rw [a1]; exact hI.someIff
    · rw [a3, hk, hI.cur h x hx a1]; exact hI.someIff
  · -- free
    intro hnone q y j hy hv hj
    change o.1.cfg.submitter = none at hnone
    change y.cfg.version = o.1.cfgVer at hv
    show j.version = o.1.jsVer
    -- nothing was written: a config write by the (holding) handle would leave the submitter set
    have hnoh : ∀ q : Hid, t.holder q = true → False := by
      intro q' hq'
      have hsome : t.s.disk.cfg.submitter.isSome = true := hI.someIff.2 ⟨q', hq'⟩
      rcases hcfg with ⟨a1, _, _, _, _⟩ | ⟨a1, _, a3, _, _, _⟩
      · rw [a1] at hnone; rw [hnone] at hsome; cases hsome
      · rw [a3, hk, hI.cur h x hx a1] at hnone; rw [hnone] at hsome; cases hsome
    have hc1 : o.1.cfg = t.s.disk.cfg ∧ o.1.cfgVer = t.s.disk.cfgVer ∧ o.1.cfgMissing = t.s.disk.cfgMissing :=
      Classical.byContradiction fun hn => hnoh h (hcw hn)
    have hj1 : o.1.js = t.s.disk.js ∧ o.1.jsVer = t.s.disk.jsVer :=
      Classical.byContradiction fun hn => hnoh h (hjw hn)
    rw [hc1.1] at hnone
    rw [hc1.2.1] at hv
    rw [hj1.2]
    simp only [Sys.setHandle] at hy
    split at hy
    · cases hy
      rcases hcfg with ⟨_, _, _, a4, _⟩ | ⟨_, a2, _, _, _, _⟩
      · rw [a4] at hv
        rcases hjs with ⟨_, _, a3⟩ | ⟨j0, _, _, a3, _, _⟩
        · rcases a3 j hj with ⟨j0, b1, b2⟩ | b
          · rw [b2]; exact hI.free hnone h x j0 hx hv b1
          · rw [b]; exact hI.agreeJs
        · rw [hj1.2] at a3; omega
      · rw [hc1.2.1] at a2; omega
    · exact hI.free hnone q y j hy hv hj

/-! ### the lock wrapper -/

theorem locked_cases (s : Sys) (h : Hid) (f : Disk → Handle → Out) :
    (s.handles h = none ∧ locked s h f = (s, .noHandle)) ∨
    (∃ x : Handle, s.handles h = some x ∧ s.disk.marker = true ∧ locked s h f = (s, .err .lockTimeout)) ∨
    (∃ x : Handle, s.handles h = some x ∧ s.disk.marker = false ∧
      locked s h f = (({ s with disk := { (f s.disk x).1 with marker := markerAfter (f s.disk x).2.2 } }).setHandle h
        (f s.disk x).2.1, (f s.disk x).2.2)) := by
  unfold locked
  cases hx : s.handles h with
  | none => left; exact ⟨rfl, rfl⟩
  | some x =>
    right
    cases hm : s.disk.marker with
    | true => left; exact ⟨x, rfl, rfl, by simp⟩
    | false => right; exact ⟨x, rfl, rfl, by simp⟩

theorem unlocked_cases (s : Sys) (h : Hid) (f : Disk → Handle → Out) :
    (s.handles h = none ∧ unlocked s h f = (s, .noHandle)) ∨
    (∃ x : Handle, s.handles h = some x ∧
      unlocked s h f = (({ s with disk := (f s.disk x).1 }).setHandle h (f s.disk x).2.1, (f s.disk x).2.2)) := by
  unfold unlocked
  cases hx : s.handles h with
  | none => left; exact ⟨rfl, rfl⟩
  | some x => right; exact ⟨x, rfl, rfl⟩

/-! ### promote / demote in detail -/

/-- the handle after the in-memory assignment of `_promote_to_submitter` -/
def promoted (x : Handle) : Handle := { x with cfg := { x.cfg with submitter := some x.host } }
/-- … of `_demote_from_submitter` -/
def demoted (x : Handle) : Handle := { x with cfg := { x.cfg with submitter := none } }

theorem doPromote_cases (d : Disk) (x : Handle) :
    (x.cfg.submitter ≠ none ∧ doPromote d x = (d, x, .bool false)) ∨
    (x.cfg.submitter = none ∧ x.cfg.version ≠ d.cfgVer ∧ doPromote d x = (d, promoted x, .err .versionMismatch)) ∨
    (x.cfg.submitter = none ∧ x.cfg.version = d.cfgVer ∧ x.cfgHash = some (Snap.cfg (promoted x).cfg) ∧
      doPromote d x = (d, promoted x, .bool true)) ∨
    (x.cfg.submitter = none ∧ x.cfg.version = d.cfgVer ∧ x.cfgHash ≠ some (Snap.cfg (promoted x).cfg) ∧
      doPromote d x =
        ({ d with cfgVer := x.cfg.version + 1, cfg := { (promoted x).cfg with version := x.cfg.version + 1 },
                  cfgMissing := false },
         { promoted x with cfg := { (promoted x).cfg with version := x.cfg.version + 1 },
                           cfgHash := some (Snap.cfg { (promoted x).cfg with version := x.cfg.version + 1 }) },
         .bool true)) := by
  unfold doPromote
  by_cases hs : x.cfg.submitter = none
  · have h0 : promoteRefused x.cfg.submitter = false := by
      rw [Bool.eq_false_iff, ne_eq, promoteRefused_iff]; simpa using hs
    right
    simp only [h0, Bool.false_eq_true, if_false]
    rcases serializeCfg_cases d (promoted x) with ⟨h1, h2⟩ | ⟨h1, h2, h3⟩ | ⟨h1, h2, h3⟩
    · left; refine ⟨hs, h1, ?_⟩; show _ = _; rw [show ({ x with cfg := { x.cfg with submitter := some x.host } } : Handle) = promoted x from rfl, h2]
    · right; left; refine ⟨hs, h1, h2, ?_⟩; rw [show ({ x with cfg := { x.cfg with submitter := some x.host } } : Handle) = promoted x from rfl, h3]
    · right; right; refine ⟨hs, h1, h2, ?_⟩; rw [show ({ x with cfg := { x.cfg with submitter := some x.host } } : Handle) = promoted x from rfl, h3]; rfl
  · left
    have h0 : promoteRefused x.cfg.submitter = true := (promoteRefused_iff _).2 hs
    simp only [h0, if_true]
    exact ⟨hs, trivial⟩

theorem doDemote_cases (d : Disk) (x : Handle) :
    (x.cfg.submitter ≠ some x.host ∧ doDemote d x = (d, x, .err .assertion)) ∨
    (x.cfg.submitter = some x.host ∧ x.cfg.version ≠ d.cfgVer ∧ doDemote d x = (d, demoted x, .err .versionMismatch)) ∨
    (x.cfg.submitter = some x.host ∧ x.cfg.version = d.cfgVer ∧ x.cfgHash = some (Snap.cfg (demoted x).cfg) ∧
      doDemote d x = (d, demoted x, .ok)) ∨
    (x.cfg.submitter = some x.host ∧ x.cfg.version = d.cfgVer ∧ x.cfgHash ≠ some (Snap.cfg (demoted x).cfg) ∧
      doDemote d x =
        ({ d with cfgVer := x.cfg.version + 1, cfg := { (demoted x).cfg with version := x.cfg.version + 1 },
                  cfgMissing := false },
         { demoted x with cfg := { (demoted x).cfg with version := x.cfg.version + 1 },
                          cfgHash := some (Snap.cfg { (demoted x).cfg with version := x.cfg.version + 1 }) },
         .ok)) := by
  unfold doDemote
  by_cases hs : x.cfg.submitter = some x.host
  · have h0 : demoteAssert x.cfg.submitter x.host = true := (demoteAssert_iff _ _).2 hs
    right
    simp only [h0, if_true]
    rcases serializeCfg_cases d (demoted x) with ⟨h1, h2⟩ | ⟨h1, h2, h3⟩ | ⟨h1, h2, h3⟩
    · left; refine ⟨hs, h1, ?_⟩; rw [show ({ x with cfg := { x.cfg with submitter := none } } : Handle) = demoted x from rfl, h2]; rfl
    · right; left; refine ⟨hs, h1, h2, ?_⟩; rw [show ({ x with cfg := { x.cfg with submitter := none } } : Handle) = demoted x from rfl, h3]; rfl
    · right; right; refine ⟨hs, h1, h2, ?_⟩; rw [show ({ x with cfg := { x.cfg with submitter := none } } : Handle) = demoted x from rfl, h3]; rfl
  · left
    have h0 : demoteAssert x.cfg.submitter x.host = false := by
      rw [Bool.eq_false_iff, ne_eq, demoteAssert_iff]; exact hs
    simp only [h0, Bool.false_eq_true, if_false]
    exact ⟨hs, trivial⟩

/-! ### replacing a handle that does not hold the role; role writes -/

/-- slot `h` (not a holder) receives a handle that is stale, or current and faithful; only the marker changes on disk -/
theorem RoleInv.replace {t : Tracked} (hI : RoleInv t) (h : Hid) (y : Handle) (m : Bool) (hnh : t.holder h = false)
    (hle : y.cfg.version ≤ t.s.disk.cfgVer)
    (hcur : y.cfg.version = t.s.disk.cfgVer → y.cfg.submitter = t.s.disk.cfg.submitter ∧
      (∀ c : CfgView, y.cfgHash = some (Snap.cfg c) → c.submitter = t.s.disk.cfg.submitter) ∧
      (t.s.disk.cfg.submitter = none → ∀ j : JsView, y.js = some j → j.version = t.s.disk.jsVer)) :
    RoleInv { s := ({ t.s with disk := { t.s.disk with marker := m } }).setHandle h y, holder := t.holder } := by
  refine ⟨hI.one, hI.agreeCfg, hI.agreeJs, hI.present, ?_, ?_, ?_, ?_, hI.someIff, ?_⟩
  · intro q z hz
    simp only [Sys.setHandle] at hz
    split at hz
    · cases hz; exact hle
    · exact hI.le q z hz
  · intro q z hz hv
    simp only [Sys.setHandle] at hz
    split at hz
    · cases hz; exact (hcur hv).1
    · exact hI.cur q z hz hv
  · intro q z c hz hc hv
    simp only [Sys.setHandle] at hz
    split at hz
    · cases hz; exact (hcur hv).2.1 c hc
    · exact hI.hash q z c hz hc hv
  · intro q hq
    obtain ⟨z, b1, b2, b3, b4⟩ := hI.hold q hq
    have hqh : q ≠ h := by intro e; subst e; rw [hnh] at hq; cases hq
    exact ⟨z, by simp [Sys.setHandle, hqh, b1], b2, b3, b4⟩
  · intro hnone q z j hz hv hj
    simp only [Sys.setHandle] at hz
    split at hz
    · cases hz; exact (hcur hv).2.2 hnone j hj
    · exact hI.free hnone q z j hz hv hj

/-- a successful promotion: the role was free, slot `h` now holds it -/
theorem RoleInv.promoteWrite {t : Tracked} (hI : RoleInv t) (h : Hid) (y : Handle) (d' : Disk)
    (hnone : t.s.disk.cfg.submitter = none)
    (h1 : d'.cfgVer = t.s.disk.cfgVer + 1) (h2 : d'.cfg = y.cfg) (h3 : d'.cfgMissing = false)
    (h4 : d'.js = t.s.disk.js) (h5 : d'.jsVer = t.s.disk.jsVer)
    (y1 : y.cfg.version = t.s.disk.cfgVer + 1) (y2 : y.cfg.submitter = some y.host)
    (y3 : y.cfgHash = some (Snap.cfg y.cfg)) (y4 : ∀ j : JsView, y.js = some j → j.version = t.s.disk.jsVer) :
    RoleInv { s := ({ t.s with disk := d' }).setHandle h y, holder := fun q => if q = h then true else t.holder q } := by
  have hno : ∀ q : Hid, t.holder q = true → False := by
    intro q hq
    have := hI.someIff.2 ⟨q, hq⟩
    rw [hnone] at this; cases this
  refine ⟨?_, ?_, ?_, h3, ?_, ?_, ?_, ?_, ?_, ?_⟩
  · intro a b ha hb
    simp only at ha hb
    split at ha
    · split at hb
      · subst_vars; rfl
      · exact (hno b hb).elim
    · exact (hno a ha).elim
  · show d'.cfg.version = d'.cfgVer; rw [h2, y1, h1]
  · show d'.js.version = d'.jsVer; rw [h4, h5]; exact hI.agreeJs
  · intro q z hz
    show z.cfg.version ≤ d'.cfgVer
    simp only [Sys.setHandle] at hz
    split at hz
    · cases hz; rw [y1, h1]; exact Nat.le_refl _
    · have := hI.le q z hz; rw [h1]; omega
  · intro q z hz hv
    show z.cfg.submitter = d'.cfg.submitter
    change z.cfg.version = d'.cfgVer at hv
    simp only [Sys.setHandle] at hz
    split at hz
    · cases hz; rw [h2]
    · have := hI.le q z hz; rw [h1] at hv; omega
  · intro q z c hz hc hv
    show c.submitter = d'.cfg.submitter
    change z.cfg.version = d'.cfgVer at hv
    simp only [Sys.setHandle] at hz
    split at hz
    · cases hz; rw [y3] at hc; cases hc; rw [h2]
    · have := hI.le q z hz; rw [h1] at hv; omega
  · intro q hq
    simp only at hq
    split at hq
    · next e =>
      subst e
      exact ⟨y, by simp [Sys.setHandle], by show y.cfg.version = d'.cfgVer; rw [y1, h1], y2,
        by intro j hj; show j.version = d'.jsVer; rw [h5]; exact y4 j hj⟩
    · exact (hno q hq).elim
  · show d'.cfg.submitter.isSome = true ↔ _
    rw [h2, y2]
    exact ⟨fun _ => ⟨h, by simp⟩, fun _ => rfl⟩
  · intro hn
    change d'.cfg.submitter = none at hn
    rw [h2, y2] at hn; cases hn

/-- a successful demotion by the holder in slot `h` -/
theorem RoleInv.demoteWrite {t : Tracked} (hI : RoleInv t) (h : Hid) (y : Handle) (d' : Disk)
    (hh : t.holder h = true)
    (h1 : d'.cfgVer = t.s.disk.cfgVer + 1) (h2 : d'.cfg = y.cfg) (h3 : d'.cfgMissing = false)
    (h4 : d'.js = t.s.disk.js) (h5 : d'.jsVer = t.s.disk.jsVer)
    (y1 : y.cfg.version = t.s.disk.cfgVer + 1) (y2 : y.cfg.submitter = none)
    (y3 : y.cfgHash = some (Snap.cfg y.cfg)) (y4 : ∀ j : JsView, y.js = some j → j.version = t.s.disk.jsVer) :
    RoleInv { s := ({ t.s with disk := d' }).setHandle h y, holder := fun q => if q = h then false else t.holder q } := by
  have hno : ∀ q : Hid, (if q = h then false else t.holder q) = true → False := by
    intro q hq
    split at hq
    · cases hq
    · next hne => exact hne (hI.one q h hq hh)
  refine ⟨?_, ?_, ?_, h3, ?_, ?_, ?_, ?_, ?_, ?_⟩
  · intro a b ha _; exact (hno a ha).elim
  · show d'.cfg.version = d'.cfgVer; rw [h2, y1, h1]
  · show d'.js.version = d'.jsVer; rw [h4, h5]; exact hI.agreeJs
  · intro q z hz
    show z.cfg.version ≤ d'.cfgVer
    simp only [Sys.setHandle] at hz
    split at hz
    · cases hz; rw [y1, h1]; exact Nat.le_refl _
    · have := hI.le q z hz; rw [h1]; omega
  · intro q z hz hv
    show z.cfg.submitter = d'.cfg.submitter
    change z.cfg.version = d'.cfgVer at hv
    simp only [Sys.setHandle] at hz
    split at hz
    · cases hz; rw [h2]
    · have := hI.le q z hz; rw [h1] at hv; omega
  · intro q z c hz hc hv
    show c.submitter = d'.cfg.submitter
    change z.cfg.version = d'.cfgVer at hv
    simp only [Sys.setHandle] at hz
    split at hz
    · cases hz; rw [y3] at hc; cases hc; rw [h2]
    · have := hI.le q z hz; rw [h1] at hv; omega
  · intro q hq; exact (hno q hq).elim
  · show d'.cfg.submitter.isSome = true ↔ _
    rw [h2, y2]
    exact ⟨(fun hc => by cases hc), (fun ⟨q, hq⟩ => (hno q hq).elim)⟩
  · intro _ q z j hz hv hj
    show j.version = d'.jsVer
    change z.cfg.version = d'.cfgVer at hv
    simp only [Sys.setHandle] at hz
    split at hz
    · cases hz; rw [h5]; exact y4 j hj
    · have := hI.le q z hz; rw [h1] at hv; omega

/-! ### one step -/

theorem RoleInv.marker {t : Tracked} (hI : RoleInv t) (m : Bool) :
    RoleInv { s := { t.s with disk := { t.s.disk with marker := m } }, holder := t.holder } :=
  ⟨hI.one, hI.agreeCfg, hI.agreeJs, hI.present, hI.le, hI.cur, hI.hash, hI.hold, hI.someIff, hI.free⟩

/-- a locked method that keeps the in-memory submitter; it writes only when invoked by a holder -/
theorem RoleInv.lockedKeep {t : Tracked} (hI : RoleInv t) (h : Hid) (f : Disk → Handle → Out)
    (hE : ∀ (d : Disk) (x : Handle), Eff d x (f d x))
    (hK : ∀ (d : Disk) (x : Handle), (f d x).2.1.cfg.submitter = x.cfg.submitter)
    (hw : t.holder h = true ∨ ∀ (d : Disk) (x : Handle), (f d x).1 = d) :
    RoleInv { s := (locked t.s h f).1, holder := t.holder } := by
  rcases locked_cases t.s h f with ⟨_, h2⟩ | ⟨x, _, _, h2⟩ | ⟨x, hx, _, h2⟩
  · rw [h2]; exact hI
  · rw [h2]; exact hI
  · rw [h2]
    refine RoleInv.generic hI h x (f t.s.disk x) _ hx (hE _ _) (hK _ _) ?_
    rcases hw with hw | hw
    · exact Or.inl hw
    · right; rw [hw]; exact ⟨⟨rfl, rfl, rfl⟩, rfl, rfl⟩

theorem RoleInv.unlockedKeep {t : Tracked} (hI : RoleInv t) (h : Hid) (f : Disk → Handle → Out)
    (hE : ∀ (d : Disk) (x : Handle), Eff d x (f d x))
    (hK : ∀ (d : Disk) (x : Handle), (f d x).2.1.cfg.submitter = x.cfg.submitter)
    (hw : t.holder h = true) :
    RoleInv { s := (unlocked t.s h f).1, holder := t.holder } := by
  rcases unlocked_cases t.s h f with ⟨_, h2⟩ | ⟨x, hx, h2⟩
  · rw [h2]; exact hI
  · rw [h2]
    exact RoleInv.generic hI h x (f t.s.disk x) (f t.s.disk x).1.marker hx (hE _ _) (hK _ _) (Or.inl hw)

theorem holdersAfter_keep (hs : Hid → Bool) (op : Op) (r : Res)
    (h1 : ∀ h host p j, op ≠ .load h host p j) (h2 : ∀ h, op ≠ .promote h) (h3 : ∀ h, op ≠ .demote h) :
    holdersAfter hs op r = hs := by
  unfold holdersAfter
  split
  · next h _ _ _ => exact absurd rfl (h1 _ _ _ _)
  · next h => exact absurd rfl (h2 _)
  · next h => exact absurd rfl (h3 _)
  · rfl

theorem RoleInv.promoteStep {t : Tracked} (hI : RoleInv t) (h : Hid) : RoleInv (t.step (.promote h)) := by
  unfold Tracked.step
  simp only [Jade.Cluster.step]
  rcases locked_cases t.s h doPromote with ⟨_, h2⟩ | ⟨x, _, _, h2⟩ | ⟨x, hx, _, h2⟩
  · rw [h2]; exact hI
  · rw [h2]; exact hI
  · rw [h2]
    rcases doPromote_cases t.s.disk x with ⟨c1, c2⟩ | ⟨c1, c2, c3⟩ | ⟨c1, c2, c3, c4⟩ | ⟨c1, c2, c3, c4⟩
    · rw [c2]
      exact RoleInv.generic hI h x (t.s.disk, x, .bool false) _ hx (eff_noop _ x x _ rfl rfl rfl (keepJs x _)) rfl
        (Or.inr ⟨⟨rfl, rfl, rfl⟩, rfl, rfl⟩)
    · rw [c3]
      have hnh : t.holder h = false := by
        cases hh : t.holder h with
        | false => rfl
        | true =>
          obtain ⟨x', b1, b2, _, _⟩ := hI.hold h hh
          rw [hx] at b1; cases b1
          exact absurd b2 c2
      refine RoleInv.replace hI h (promoted x) _ hnh (hI.le h x hx) ?_
      intro hv
      exact absurd hv c2
    · exfalso
      have := hI.hash h x (promoted x).cfg hx c3 c2
      have h3 := hI.cur h x hx c2
      rw [← h3, c1] at this
      cases this
    · rw [c4]
      have hnone : t.s.disk.cfg.submitter = none := by rw [← hI.cur h x hx c2]; exact c1
      refine RoleInv.promoteWrite hI h _ _ hnone ?_ rfl rfl rfl rfl ?_ rfl rfl ?_
      · show x.cfg.version + 1 = _; rw [c2]
      · show x.cfg.version + 1 = _; rw [c2]
      · intro j hj
        exact hI.free hnone h x j hx c2 hj

theorem RoleInv.demoteStep {t : Tracked} (hI : RoleInv t) (h : Hid) (hh : t.holder h = true) :
    RoleInv (t.step (.demote h)) := by
  unfold Tracked.step
  simp only [Jade.Cluster.step]
  obtain ⟨x0, b1, b2, b3, b4⟩ := hI.hold h hh
  rcases locked_cases t.s h doDemote with ⟨_, h2⟩ | ⟨x, _, _, h2⟩ | ⟨x, hx, _, h2⟩
  · rw [h2]; exact hI
  · rw [h2]; exact hI
  · rw [h2]
    have e : x = x0 := Option.some.inj (hx.symm.trans b1)
    subst e
    rcases doDemote_cases t.s.disk x with ⟨c1, _⟩ | ⟨_, c2, _⟩ | ⟨c1, c2, c3, c4⟩ | ⟨c1, c2, c3, c4⟩
    · exact absurd b3 c1
    · exact absurd b2 c2
    · exfalso
      have := hI.hash h x (demoted x).cfg hx c3 c2
      have h3 := hI.cur h x hx c2
      rw [← h3, c1] at this
      cases this
    · rw [c4]
      refine RoleInv.demoteWrite hI h _ _ hh ?_ rfl rfl rfl rfl ?_ rfl rfl ?_
      · show x.cfg.version + 1 = _; rw [c2]
      · show x.cfg.version + 1 = _; rw [c2]
      · exact b4

/-- the disk and the handle after a successful promotion of a fresh handle -/
def loadDisk (host : Host) (d : Disk) : Disk :=
  { d with cfgVer := d.cfg.version + 1,
           cfg := { (promoted (newHandle host d)).cfg with version := d.cfg.version + 1 },
           cfgMissing := false }

def loadHandle (host : Host) (d : Disk) : Handle :=
  { promoted (newHandle host d) with
      cfg := { (promoted (newHandle host d)).cfg with version := d.cfg.version + 1 },
      cfgHash := some (Snap.cfg { (promoted (newHandle host d)).cfg with version := d.cfg.version + 1 }) }

/-- `_deserialize` on a readable, version-coherent directory: no promotion (not asked for, or refused), or promotion -/
theorem doLoad_cases (host : Host) (p j : Bool) (d : Disk) (hpres : d.cfgMissing = false)
    (hagree : d.cfg.version = d.cfgVer) :
    ((p = false ∨ d.cfg.submitter ≠ none) ∧
      doLoad host p j d = (d, some (withJobs j d (newHandle host d)), .bool false)) ∨
    (p = true ∧ d.cfg.submitter = none ∧
      doLoad host p j d = (loadDisk host d, some (withJobs j (loadDisk host d) (loadHandle host d)), .bool true)) := by
  unfold doLoad
  simp only [hpres, Bool.false_eq_true, if_false]
  cases p with
  | false => left; exact ⟨Or.inl rfl, rfl⟩
  | true =>
    simp only [if_true]
    rcases doPromote_cases d (newHandle host d) with ⟨c1, c2⟩ | ⟨_, c2, _⟩ | ⟨_, _, c3, _⟩ | ⟨c1, _, _, c4⟩
    · left; rw [c2]; exact ⟨Or.inr c1, rfl⟩
    · exact absurd hagree c2
    · cases c3
    · right; rw [c4]; exact ⟨trivial, c1, rfl⟩

/-- `load` into a slot that does not hold the role -/
theorem RoleInv.loadStep {t : Tracked} (hI : RoleInv t) (h : Hid) (host : Host) (p j : Bool)
    (hnh : t.holder h = false) : RoleInv (t.step (.load h host p j)) := by
  unfold Tracked.step
  simp only [Jade.Cluster.step]
  unfold loadOp
  cases hm : t.s.disk.marker with
  | true => simp only [if_true]; exact hI
  | false =>
    simp only [Bool.false_eq_true, if_false]
    rcases doLoad_cases host p j t.s.disk hI.present hI.agreeCfg with ⟨_, hr⟩ | ⟨_, hnone, hr⟩
    · rw [hr]
      refine RoleInv.replace hI h _ _ hnh ?_ ?_
      · unfold withJobs; split <;> exact Nat.le_of_eq hI.agreeCfg
      · intro _
        refine ⟨by unfold withJobs; split <;> rfl, ?_, ?_⟩
        · intro c hc; unfold withJobs at hc; split at hc <;> cases hc
        · intro _ j' hj'
          unfold withJobs at hj'
          split at hj'
          · cases hj'; exact hI.agreeJs
          · cases hj'
    · rw [hr]
      refine RoleInv.promoteWrite hI h _ _ hnone ?_ ?_ rfl rfl rfl ?_ ?_ ?_ ?_
      · show t.s.disk.cfg.version + 1 = _; rw [hI.agreeCfg]
      · unfold withJobs; split <;> rfl
      · unfold withJobs; split <;> (show t.s.disk.cfg.version + 1 = _; rw [hI.agreeCfg])
      · unfold withJobs; split <;> rfl
      · unfold withJobs; split <;> rfl
      · intro j' hj'
        unfold withJobs at hj'
        split at hj'
        · cases hj'; exact hI.agreeJs
        · cases hj'

theorem RoleInv.readStep {t : Tracked} (hI : RoleInv t) : RoleInv (t.step .read) := by
  unfold Tracked.step
  have hst : (Jade.Cluster.step t.s .read).1 = (loadOp t.s none 0 false true).1 := by
    simp only [Jade.Cluster.step]
    split <;> simp_all
  rw [hst, holdersAfter_keep _ _ _ (by intros; simp) (by intros; simp) (by intros; simp)]
  unfold loadOp
  cases hm : t.s.disk.marker with
  | true => simp only [if_true]; exact hI
  | false =>
    simp only [Bool.false_eq_true, if_false]
    rcases doLoad_cases 0 false true t.s.disk hI.present hI.agreeCfg with ⟨_, hr⟩ | ⟨hp, _, _⟩
    · rw [hr]; exact RoleInv.marker hI _
    · cases hp

theorem RoleInv.memJob {t : Tracked} (hI : RoleInv t) (h : Hid) (j : JobId) (f : JobView → JobView) :
    RoleInv { s := (memJob t.s h j f).1, holder := t.holder } := by
  unfold Jade.Cluster.memJob
  cases hx : t.s.handles h with
  | none => exact hI
  | some x =>
    simp only
    cases hjs : x.js with
    | none => exact hI
    | some js =>
      simp only
      cases hv : js.jobs[j]? with
      | none => exact hI
      | some v =>
        simp only
        have := RoleInv.generic hI h x (t.s.disk, { x with js := some { js with jobs := js.jobs.set j (f v) } }, .ok)
          t.s.disk.marker hx
          (eff_noop _ x _ _ rfl rfl rfl (by
            intro j' hj'
            left
            simp only at hj'
            cases hj'
            exact ⟨js, hjs, rfl⟩)) rfl (Or.inr ⟨⟨rfl, rfl, rfl⟩, rfl, rfl⟩)
        exact this

theorem RoleInv.step {t : Tracked} (hI : RoleInv t) (op : Op) (hp : Protocol t op = true) : RoleInv (t.step op) := by
  cases op with
  | load h host p j =>
    refine RoleInv.loadStep hI h host p j ?_
    simpa [Protocol] using hp
  | promote h => exact RoleInv.promoteStep hI h
  | demote h => exact RoleInv.demoteStep hI h (by simpa [Protocol] using hp)
  | update h a =>
    unfold Tracked.step
    rw [holdersAfter_keep _ _ _ (by intros; simp) (by intros; simp) (by intros; simp)]
    exact RoleInv.lockedKeep hI h _ (doUpdate_eff a) (doUpdate_submitter a) (Or.inl (by simpa [Protocol] using hp))
  | markComplete h =>
    unfold Tracked.step
    rw [holdersAfter_keep _ _ _ (by intros; simp) (by intros; simp) (by intros; simp)]
    exact RoleInv.lockedKeep hI h _ doMarkComplete_eff doMarkComplete_submitter (Or.inl (by simpa [Protocol] using hp))
  | markCanceled h =>
    unfold Tracked.step
    rw [holdersAfter_keep _ _ _ (by intros; simp) (by intros; simp) (by intros; simp)]
    exact RoleInv.lockedKeep hI h _ doMarkCanceled_eff doMarkCanceled_submitter (Or.inl (by simpa [Protocol] using hp))
  | completeHpcId h id =>
    unfold Tracked.step
    rw [holdersAfter_keep _ _ _ (by intros; simp) (by intros; simp) (by intros; simp)]
    exact RoleInv.lockedKeep hI h _ (doCompleteHpcId_eff id) (doCompleteHpcId_submitter id)
      (Or.inl (by simpa [Protocol] using hp))
  | deserializeJobs h =>
    unfold Tracked.step
    rw [holdersAfter_keep _ _ _ (by intros; simp) (by intros; simp) (by intros; simp)]
    exact RoleInv.lockedKeep hI h _ doDeserializeJobs_eff doDeserializeJobs_submitter (Or.inr (fun _ _ => rfl))
  | allComplete h =>
    unfold Tracked.step
    rw [holdersAfter_keep _ _ _ (by intros; simp) (by intros; simp) (by intros; simp)]
    refine RoleInv.lockedKeep hI h _ doAllComplete_eff doAllComplete_submitter (Or.inr ?_)
    intro d x; unfold doAllComplete; split <;> rfl
  | prepareResubmit h sel bl =>
    unfold Tracked.step
    rw [holdersAfter_keep _ _ _ (by intros; simp) (by intros; simp) (by intros; simp)]
    have hh : t.holder h = true := by simpa [Protocol] using hp
    simp only [Jade.Cluster.step]
    split
    · exact RoleInv.lockedKeep hI h _ (doPrepareResubmit_eff sel bl) (doPrepareResubmit_submitter sel bl) (Or.inl hh)
    · exact RoleInv.unlockedKeep hI h _ (doPrepareResubmit_eff sel bl) (doPrepareResubmit_submitter sel bl) hh
  | read => exact RoleInv.readStep hI
  | breakMarker =>
    unfold Tracked.step
    rw [holdersAfter_keep _ _ _ (by intros; simp) (by intros; simp) (by intros; simp)]
    simp only [Jade.Cluster.step]
    split
    · exact RoleInv.marker hI false
    · exact hI
  | forgeCfgVer n => simp [Protocol] at hp
  | forgeJsVer n => simp [Protocol] at hp
  | rmCfg => simp [Protocol] at hp
  | memCancel h j =>
    unfold Tracked.step
    rw [holdersAfter_keep _ _ _ (by intros; simp) (by intros; simp) (by intros; simp)]
    exact RoleInv.memJob hI h j _
  | memUnblock h j done =>
    unfold Tracked.step
    rw [holdersAfter_keep _ _ _ (by intros; simp) (by intros; simp) (by intros; simp)]
    exact RoleInv.memJob hI h j _

/-! ### `Cluster.create` and whole runs -/

/-- the config of a new submission, as serialized by `create` -/
def createCfg (host : Host) (n : Nat) : CfgView :=
  { submitter := some host, submitted := 0, completed := 0, numJobs := n, isComplete := false, isCanceled := false,
    version := 1 }

/-- the job status of a new submission, as serialized by `create` -/
def createJs (spec : List (List JobId × Bool)) : JsView :=
  { jobs := createJobs spec, hpcIds := [], batchIdx := 1, version := 1 }

theorem create_eq (host : Host) (spec : List (List JobId × Bool)) (brk : Bool) :
    create host spec brk =
      { disk := { cfg := createCfg host spec.length, cfgMissing := false, cfgVer := 1, js := createJs spec, jsVer := 1,
                  marker := false },
        handles := fun q => if q = 0 then some { host := host, cfg := createCfg host spec.length,
                                                  js := some (createJs spec),
                                                  cfgHash := some (Snap.cfg (createCfg host spec.length)),
                                                  jsHash := some (Snap.js (createJs spec)) } else none,
        breakStale := brk } := rfl

theorem RoleInv.create (host : Host) (spec : List (List JobId × Bool)) (brk : Bool) :
    RoleInv (Tracked.create host spec brk) := by
  unfold Tracked.create
  rw [create_eq]
  refine ⟨?_, rfl, rfl, rfl, ?_, ?_, ?_, ?_, ?_, ?_⟩
  · intro a b ha hb
    simp only [beq_iff_eq] at ha hb
    rw [ha, hb]
  · intro h x hx
    simp only at hx
    split at hx
    · cases hx; exact Nat.le_refl _
    · cases hx
  · intro h x hx _
    simp only at hx
    split at hx
    · cases hx; rfl
    · cases hx
  · intro h x c hx hc _
    simp only at hx
    split at hx
    · cases hx; cases hc; rfl
    · cases hx
  · intro h hh
    simp only [beq_iff_eq] at hh
    subst hh
    refine ⟨{ host := host, cfg := createCfg host spec.length, js := some (createJs spec),
              cfgHash := some (Snap.cfg (createCfg host spec.length)), jsHash := some (Snap.js (createJs spec)) },
      by simp, rfl, rfl, ?_⟩
    intro j hj; cases hj; rfl
  · exact ⟨fun _ => ⟨0, rfl⟩, fun _ => rfl⟩
  · intro hn; cases hn

theorem RoleInv.exec : ∀ (ops : List Op) (t : Tracked), RoleInv t → ProtocolRun t ops = true → RoleInv (t.exec ops) := by
  intro ops
  induction ops with
  | nil => intro t hI _; exact hI
  | cons op ops ih =>
    intro t hI hp
    simp only [ProtocolRun, Bool.and_eq_true] at hp
    exact ih (t.step op) (RoleInv.step hI op hp.1) hp.2

theorem ProtocolRun_append (t : Tracked) (pre post : List Op) :
    ProtocolRun t (pre ++ post) = true → ProtocolRun t pre = true := by
  induction pre generalizing t with
  | nil => intro _; rfl
  | cons op ops ih =>
    intro h
    simp only [List.cons_append, ProtocolRun, Bool.and_eq_true] at h ⊢
    exact ⟨h.1, ih _ h.2⟩

end Jade.Cluster
