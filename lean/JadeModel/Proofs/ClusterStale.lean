import JadeModel.Proofs.ClusterCoherent

/-!
Rejection of writes by handles with out-of-date copies (no assumption on the history), and acceptance of writes by
handles whose copies are current.
-/

namespace Jade.Cluster
open Jade.Gen.Cluster

/-- a locked call by an existing handle while the lock is free -/
theorem locked_run (s : Sys) (h : Hid) (f : Disk → Handle → Out) (x : Handle) (hx : s.handles h = some x)
    (hm : s.disk.marker = false) :
    locked s h f = (({ s with disk := { (f s.disk x).1 with marker := markerAfter (f s.disk x).2.2 } }).setHandle h
        (f s.disk x).2.1, (f s.disk x).2.2) := by
  rcases locked_cases s h f with ⟨h1, _⟩ | ⟨_, _, h2, _⟩ | ⟨y, hy, _, h3⟩
  · rw [hx] at h1; cases h1
  · rw [hm] at h2; cases h2
  · rw [hx] at hy; cases hy; exact h3

theorem unlocked_run (s : Sys) (h : Hid) (f : Disk → Handle → Out) (x : Handle) (hx : s.handles h = some x) :
    unlocked s h f = (({ s with disk := (f s.disk x).1 }).setHandle h (f s.disk x).2.1, (f s.disk x).2.2) := by
  rcases unlocked_cases s h f with ⟨h1, _⟩ | ⟨y, hy, h3⟩
  · rw [hx] at h1; cases h1
  · rw [hx] at hy; cases hy; exact h3

theorem serializeCfg_stale (d : Disk) (x : Handle) (hs : x.cfg.version ≠ d.cfgVer) :
    serializeCfg d x = (d, x, some .versionMismatch) := by
  rcases serializeCfg_cases d x with ⟨_, h2⟩ | ⟨h1, _, _⟩ | ⟨h1, _, _⟩
  · exact h2
  · exact absurd h1 hs
  · exact absurd h1 hs

theorem serializeJs_stale (d : Disk) (x : Handle) (j : JsView) (hs : j.version ≠ d.jsVer) :
    serializeJs d x j = (d, x, some .versionMismatch) := by
  rcases serializeJs_cases d x j with ⟨_, h2⟩ | ⟨h1, _, _⟩ | ⟨h1, _, _⟩
  · exact h2
  · exact absurd h1 hs
  · exact absurd h1 hs

/-! ### out-of-date config copy -/

theorem doPromote_stale (d : Disk) (x : Handle) (hs : x.cfg.version ≠ d.cfgVer) :
    (doPromote d x).1 = d ∧
    ((x.cfg.submitter ≠ none ∧ (doPromote d x).2.2 = .bool false) ∨
     (x.cfg.submitter = none ∧ (doPromote d x).2.2 = .err .versionMismatch)) := by
  rcases doPromote_cases d x with ⟨c1, c2⟩ | ⟨c1, _, c3⟩ | ⟨_, c2, _, _⟩ | ⟨_, c2, _, _⟩
  · rw [c2]; exact ⟨rfl, Or.inl ⟨c1, rfl⟩⟩
  · rw [c3]; exact ⟨rfl, Or.inr ⟨c1, rfl⟩⟩
  · exact absurd c2 hs
  · exact absurd c2 hs

theorem doDemote_stale (d : Disk) (x : Handle) (hs : x.cfg.version ≠ d.cfgVer) :
    (doDemote d x).1 = d ∧
    ((x.cfg.submitter ≠ some x.host ∧ (doDemote d x).2.2 = .err .assertion) ∨
     (x.cfg.submitter = some x.host ∧ (doDemote d x).2.2 = .err .versionMismatch)) := by
  rcases doDemote_cases d x with ⟨c1, c2⟩ | ⟨c1, _, c3⟩ | ⟨_, c2, _, _⟩ | ⟨_, c2, _, _⟩
  · rw [c2]; exact ⟨rfl, Or.inl ⟨c1, rfl⟩⟩
  · rw [c3]; exact ⟨rfl, Or.inr ⟨c1, rfl⟩⟩
  · exact absurd c2 hs
  · exact absurd c2 hs

theorem doMarkComplete_stale (d : Disk) (x : Handle) (hs : x.cfg.version ≠ d.cfgVer) :
    (doMarkComplete d x).1 = d ∧
    ((x.cfg.isComplete = true ∧ (doMarkComplete d x).2.2 = .err .assertion) ∨
     (x.cfg.isComplete = false ∧ (doMarkComplete d x).2.2 = .err .versionMismatch)) := by
  unfold doMarkComplete
  cases hc : x.cfg.isComplete with
  | true =>
    have : markCompleteAssert true = false := by rw [Bool.eq_false_iff, ne_eq, markCompleteAssert_iff]; simp
    simp only [this, Bool.false_eq_true, if_false]
    exact ⟨trivial, Or.inl ⟨trivial, trivial⟩⟩
  | false =>
    have : markCompleteAssert false = true := (markCompleteAssert_iff _).2 rfl
    simp only [this, if_true]
    rw [serializeCfg_stale d _ (by exact hs)]
    exact ⟨rfl, Or.inr ⟨trivial, rfl⟩⟩

theorem doMarkCanceled_stale (d : Disk) (x : Handle) (hs : x.cfg.version ≠ d.cfgVer) :
    (doMarkCanceled d x).1 = d ∧ (doMarkCanceled d x).2.2 = .err .versionMismatch := by
  unfold doMarkCanceled
  rw [serializeCfg_stale d _ (by exact hs)]
  exact ⟨rfl, rfl⟩

theorem doUpdate_stale (a : UpdateArgs) (d : Disk) (x : Handle) (hs : x.cfg.version ≠ d.cfgVer) :
    doUpdate a d x = (d, x, .err .versionMismatch) := by
  unfold doUpdate checkVersions
  have : checkCfgMismatch x.cfg.version d.cfgVer = true := (checkCfgMismatch_iff _ _).2 hs
  simp only [this, if_true]

/-- `prepare_for_resubmission` with an out-of-date config copy: nothing is written (and, as no lock is taken, no marker
    appears either) -/
theorem doPrepareResubmit_stale (sel : List JobId) (bl : List (JobId × List JobId)) (d : Disk) (x : Handle)
    (hs : x.cfg.version ≠ d.cfgVer) :
    (doPrepareResubmit sel bl d x).1 = d ∧
    ((doPrepareResubmit sel bl d x).2.2 = .err .assertion ∨ (doPrepareResubmit sel bl d x).2.2 = .err .versionMismatch) := by
  unfold doPrepareResubmit
  split
  · split
    · exact ⟨rfl, Or.inl rfl⟩
    · unfold serializeBoth
      simp only
      rw [serializeCfg_stale d _ (by exact hs)]
      exact ⟨rfl, Or.inr rfl⟩
  · exact ⟨rfl, Or.inl rfl⟩

/-! ### out-of-date job-status copy -/

theorem doUpdate_jsStale (a : UpdateArgs) (d : Disk) (x : Handle) (j : JsView) (hj : x.js = some j)
    (hs : j.version ≠ d.jsVer) : doUpdate a d x = (d, x, .err .versionMismatch) := by
  unfold doUpdate checkVersions
  split
  · next r hr =>
    split at hr
    · cases hr; rfl
    · rw [hj] at hr
      have : checkJsMismatch j.version d.jsVer = true := (checkJsMismatch_iff _ _).2 hs
      simp only [this, if_true] at hr
      cases hr; rfl
  · next hr =>
    exfalso
    split at hr
    · cases hr
    · rw [hj] at hr
      have : checkJsMismatch j.version d.jsVer = true := (checkJsMismatch_iff _ _).2 hs
      simp only [this, if_true] at hr
      cases hr

theorem doCompleteHpcId_jsStale (id : Nat) (d : Disk) (x : Handle) (j : JsView) (hj : x.js = some j)
    (hs : j.version ≠ d.jsVer) :
    (doCompleteHpcId id d x).1 = d ∧
    ((j.hpcIds.contains id = false ∧ (doCompleteHpcId id d x).2.2 = .err .valueError) ∨
     (j.hpcIds.contains id = true ∧ (doCompleteHpcId id d x).2.2 = .err .versionMismatch)) := by
  unfold doCompleteHpcId
  rw [hj]
  simp only
  cases hc : j.hpcIds.contains id with
  | false => simp only [Bool.false_eq_true, if_false]; exact ⟨trivial, Or.inl ⟨trivial, trivial⟩⟩
  | true =>
    simp only [if_true]
    rw [serializeJs_stale d _ _ (by exact hs)]
    exact ⟨rfl, Or.inr ⟨trivial, rfl⟩⟩

/-! ### current copies: no rejection -/

theorem doUpdate_notStale (a : UpdateArgs) (d : Disk) (x : Handle) (hv : x.cfg.version = d.cfgVer)
    (hj : ∀ j : JsView, x.js = some j → j.version = d.jsVer) :
    (doUpdate a d x).2.2 ≠ .err .versionMismatch := by
  unfold doUpdate checkVersions
  have h0 : checkCfgMismatch x.cfg.version d.cfgVer = false := by
    rw [Bool.eq_false_iff, ne_eq, checkCfgMismatch_iff]; simpa using hv
  simp only [h0, Bool.false_eq_true, if_false]
  cases hjs : x.js with
  | none => simp
  | some j =>
    have h1 : checkJsMismatch j.version d.jsVer = false := by
      rw [Bool.eq_false_iff, ne_eq, checkJsMismatch_iff]; simpa using hj j hjs
    simp only [h1, Bool.false_eq_true, if_false]
    have hf := applyUpdate_frame a { cfg := x.cfg, js := j }
    split
    · next e he =>
      -- the loops raise only AssertionError / KeyError
      intro hc
      simp only at hc
      have := applyUpdate_err a { cfg := x.cfg, js := j }
      rw [he] at this
      rcases this with h | h | h
      · cases h
      · cases h; cases hc
      · cases h; cases hc
    · rw [serializeBoth_ok _ _ _ (by simp only; rw [hf.version]; exact hv) (by rw [hf.jsVersion]; exact hj j hjs)]
      simp

theorem resOf_ne_mismatch (e : Option Err) (h : e = none) : resOf e ≠ .err .versionMismatch := by
  rw [h]; simp [resOf]

theorem doDemote_notStale (d : Disk) (x : Handle) (hv : x.cfg.version = d.cfgVer) :
    (doDemote d x).2.2 ≠ .err .versionMismatch := by
  unfold doDemote
  split
  · exact resOf_ne_mismatch _ (serializeCfg_ok d _ (by exact hv))
  · simp

theorem doMarkComplete_notStale (d : Disk) (x : Handle) (hv : x.cfg.version = d.cfgVer) :
    (doMarkComplete d x).2.2 ≠ .err .versionMismatch := by
  unfold doMarkComplete
  split
  · exact resOf_ne_mismatch _ (serializeCfg_ok d _ (by exact hv))
  · simp

theorem doMarkCanceled_notStale (d : Disk) (x : Handle) (hv : x.cfg.version = d.cfgVer) :
    (doMarkCanceled d x).2.2 ≠ .err .versionMismatch := by
  unfold doMarkCanceled
  exact resOf_ne_mismatch _ (serializeCfg_ok d _ (by exact hv))

theorem doCompleteHpcId_notStale (id : Nat) (d : Disk) (x : Handle)
    (hj : ∀ j : JsView, x.js = some j → j.version = d.jsVer) :
    (doCompleteHpcId id d x).2.2 ≠ .err .versionMismatch := by
  unfold doCompleteHpcId
  split
  · simp
  · next j hjs =>
    split
    · exact resOf_ne_mismatch _ (serializeJs_ok d _ _ (by exact hj j hjs))
    · simp

theorem doPrepareResubmit_notStale (sel : List JobId) (bl : List (JobId × List JobId)) (d : Disk) (x : Handle)
    (hv : x.cfg.version = d.cfgVer) (hj : ∀ j : JsView, x.js = some j → j.version = d.jsVer) :
    (doPrepareResubmit sel bl d x).2.2 ≠ .err .versionMismatch := by
  unfold doPrepareResubmit
  split
  · split
    · simp
    · next j hjs =>
      rw [serializeBoth_ok _ _ _ (by exact hv) (by exact hj j hjs)]
      simp
  · simp

end Jade.Cluster
