import JadeModel.Proofs.ClusterStale

/-!
Helper lemmas for `Props/ClusterStatus.lean`: closed forms of the loops of `_update_job_status`, and a counting lemma.
-/

namespace Jade.Cluster
open Jade.Gen.Cluster

/-- In this tree `_serialize_jobs` compares the job-status hash with `_config_hash`: whenever that slot does not
    hold a job-status snapshot (it never does, `HashWf`), the test says "changed". -/
theorem jsChanged_of_cfgSlot (j : JsView) (x y : Option Snap) (hx : ∀ j' : JsView, x ≠ some (Snap.js j')) :
    jsChanged (Snap.js j) x y = true := by
  simp only [jsChanged, bne_iff_ne, ne_eq]
  intro h
  exact hx j h.symm

/-! ## counting -/

/-- If `l2` differs from `l1` in `p` exactly at the (distinct, valid) indices `c`, where `p` turns from false to true,
    then `countP p l2 = countP p l1 + c.length`. -/
theorem countP_pointwise {α : Type} (p : α → Bool) :
    ∀ (c : List Nat) (l1 l2 : List α), l1.length = l2.length → c.Nodup → (∀ i ∈ c, i < l1.length) →
      (∀ (i : Nat) (h1 : i < l1.length) (h2 : i < l2.length),
        (if p l2[i] then 1 else 0) = (if p l1[i] then 1 else 0) + (if i ∈ c then 1 else 0)) →
      l2.countP p = l1.countP p + c.length := by
  intro c
  induction c with
  | nil =>
    intro l1 l2 hlen _ _ hpt
    have : l2.map p = l1.map p := by
      apply List.ext_getElem
      · simp [hlen]
      · intro i h1 h2
        simp only [List.length_map] at h1 h2
        have := hpt i h2 h1
        simp only [List.getElem_map]
        simp only [List.not_mem_nil, if_false, Nat.add_zero] at this
        cases h : p l2[i] <;> cases h' : p l1[i] <;> simp_all
    have e1 : l2.countP p = (l2.map p).countP id := by simp [List.countP_map]
    have e2 : l1.countP p = (l1.map p).countP id := by simp [List.countP_map]
    rw [e1, e2, this]; simp
  | cons i c ih =>
    intro l1 l2 hlen hnd hval hpt
    have hi1 : i < l1.length := hval i (List.mem_cons_self ..)
    have hi2 : i < l2.length := hlen ▸ hi1
    have hic : i ∉ c := (List.nodup_cons.1 hnd).1
    have hpi := hpt i hi1 hi2
    simp only [List.mem_cons, true_or, if_true] at hpi
    have hp2 : p l2[i] = true := by
      cases h : p l2[i] with
      | true => rfl
      | false => rw [h] at hpi; simp only [Bool.false_eq_true, if_false] at hpi; omega
    have hp1 : p l1[i] = false := by
      cases h : p l1[i] with
      | false => rfl
      | true => rw [h, hp2] at hpi; simp only [if_true] at hpi; omega
    -- undo the change at index i
    have key := ih l1 (l2.set i l1[i]) (by simp [hlen]) (List.nodup_cons.1 hnd).2
      (fun k hk => hval k (List.mem_cons_of_mem _ hk)) (by
        intro k h1 h2
        by_cases hk : k = i
        · subst hk
          simp [hic]
        · have := hpt k h1 (by simpa using h2)
          simp only [List.mem_cons, hk, false_or] at this
          rw [List.getElem_set_ne (Ne.symm hk)]
          exact this)
    rw [List.countP_set hi2] at key
    simp only [hp2, hp1, if_true, Bool.false_eq_true, if_false, Nat.add_zero] at key
    have hpos : 0 < l2.countP p := List.countP_pos_iff.2 ⟨l2[i], List.getElem_mem hi2, hp2⟩
    simp only [List.length_cons]
    omega

/-! ## closed forms of the loops -/

/-- the job list after a loop: every entry transformed by a function of its index -/
def JobsAre (l' l : List JobView) (F : Nat → JobView → JobView) : Prop :=
  ∀ i : Nat, l'[i]? = (l[i]?).map (F i)

theorem JobsAre.length {l' l : List JobView} {F : Nat → JobView → JobView} (h : JobsAre l' l F) :
    l'.length = l.length := by
  apply Nat.le_antisymm
  · apply Nat.le_of_not_lt
    intro hlt
    have := h l.length
    rw [List.getElem?_eq_none (Nat.le_refl _)] at this
    simp only [Option.map_none] at this
    rw [List.getElem?_eq_getElem hlt] at this
    cases this
  · apply Nat.le_of_not_lt
    intro hlt
    have := h l'.length
    rw [List.getElem?_eq_none (Nat.le_refl _), List.getElem?_eq_getElem hlt] at this
    cases this

/-- the submitted loop under its precondition -/
theorem submitLoop_closed : ∀ (subs : List JobId) (m : Mem), subs.Nodup →
    (∀ i ∈ subs, ∃ v : JobView, m.js.jobs[i]? = some v ∧ v.state = .notSubmitted) →
    (forEach submitOne subs m).2 = none ∧
    (forEach submitOne subs m).1.cfg = { m.cfg with submitted := m.cfg.submitted + subs.length } ∧
    (forEach submitOne subs m).1.js.hpcIds = m.js.hpcIds ∧ (forEach submitOne subs m).1.js.batchIdx = m.js.batchIdx ∧
    (forEach submitOne subs m).1.js.version = m.js.version ∧
    JobsAre (forEach submitOne subs m).1.js.jobs m.js.jobs
      (fun i v => if i ∈ subs then { v with state := .submitted } else v) := by
  intro subs
  induction subs with
  | nil => intro m _ _; exact ⟨rfl, rfl, rfl, rfl, rfl, fun i => by simp [forEach_nil]⟩
  | cons j subs ih =>
    intro m hnd hpre
    obtain ⟨v, hv, hs⟩ := hpre j (List.mem_cons_self ..)
    have hstep : submitOne j m =
        ({ cfg := { m.cfg with submitted := m.cfg.submitted + 1 },
           js := { m.js with jobs := m.js.jobs.set j { v with state := .submitted } } }, none) := by
      unfold submitOne
      rw [hv]
      have : submitAssert v.state = true := by rw [submitAssert_iff, hs]; simp
      simp only [this, if_true]
      rfl
    have hjl : j < m.js.jobs.length := by
      rcases Nat.lt_or_ge j m.js.jobs.length with h | h
      · exact h
      · rw [List.getElem?_eq_none h] at hv; cases hv
    rw [forEach_cons_ok _ _ _ _ _ hstep]
    have hnd' := List.nodup_cons.1 hnd
    obtain ⟨a1, a2, a3, a4, a5, a6⟩ :=
      ih { cfg := { m.cfg with submitted := m.cfg.submitted + 1 },
           js := { m.js with jobs := m.js.jobs.set j { v with state := .submitted } } } hnd'.2 (by
      intro i hi
      obtain ⟨w, hw, hws⟩ := hpre i (List.mem_cons_of_mem _ hi)
      refine ⟨w, ?_, hws⟩
      have hne : j ≠ i := fun e => hnd'.1 (e ▸ hi)
      rw [List.getElem?_set_ne hne]; exact hw)
    refine ⟨a1, ?_, a3, a4, a5, ?_⟩
    · rw [a2]; simp only [List.length_cons]; congr 1; omega
    · intro i
      rw [a6 i]
      simp only
      by_cases hij : i = j
      · subst hij
        rw [List.getElem?_set_self hjl, hv]
        simp [hnd'.1]
      · rw [List.getElem?_set_ne (Ne.symm hij)]
        simp only [List.mem_cons, hij, false_or]

/-- the blocker set a job ends up with after the blocked loop -/
def blockedFinal (blk : List (JobId × List JobId)) (i : Nat) (orig : List JobId) : List JobId :=
  blk.foldl (fun acc b => if b.1 = i then b.2 else acc) orig

theorem blockedFinal_subset (blk : List (JobId × List JobId)) (i : Nat) (orig bound : List JobId)
    (ho : ∀ q ∈ orig, q ∈ bound) (hb : ∀ b ∈ blk, b.1 = i → ∀ q ∈ b.2, q ∈ bound) :
    ∀ q ∈ blockedFinal blk i orig, q ∈ bound := by
  induction blk generalizing orig with
  | nil => exact ho
  | cons b blk ih =>
    unfold blockedFinal
    simp only [List.foldl_cons]
    apply ih
    · split
      · next e => exact hb b (List.mem_cons_self ..) e
      · exact ho
    · intro b' hb'; exact hb b' (List.mem_cons_of_mem _ hb')

/-- the blocked loop under its precondition -/
theorem blockLoop_closed : ∀ (blk : List (JobId × List JobId)) (m : Mem),
    (∀ b ∈ blk, ∃ v : JobView, m.js.jobs[b.1]? = some v ∧ v.state = .notSubmitted) →
    (forEach blockOne blk m).2 = none ∧ (forEach blockOne blk m).1.cfg = m.cfg ∧
    (forEach blockOne blk m).1.js.hpcIds = m.js.hpcIds ∧ (forEach blockOne blk m).1.js.batchIdx = m.js.batchIdx ∧
    (forEach blockOne blk m).1.js.version = m.js.version ∧
    JobsAre (forEach blockOne blk m).1.js.jobs m.js.jobs
      (fun i v => { v with blockedBy := blockedFinal blk i v.blockedBy }) := by
  intro blk
  induction blk with
  | nil => intro m _; exact ⟨rfl, rfl, rfl, rfl, rfl, fun i => by simp [blockedFinal, forEach_nil]⟩
  | cons b blk ih =>
    intro m hpre
    obtain ⟨v, hv, hs⟩ := hpre b (List.mem_cons_self ..)
    have hstep : blockOne b m = ({ m with js := { m.js with jobs := m.js.jobs.set b.1 { v with blockedBy := b.2 } } }, none) := by
      unfold blockOne
      rw [hv]
      have : blockedAssert v.state = true := (blockedAssert_iff _).2 hs
      simp only [this, if_true]
      rfl
    have hjl : b.1 < m.js.jobs.length := by
      rcases Nat.lt_or_ge b.1 m.js.jobs.length with h | h
      · exact h
      · rw [List.getElem?_eq_none h] at hv; cases hv
    rw [forEach_cons_ok _ _ _ _ _ hstep]
    obtain ⟨a1, a2, a3, a4, a5, a6⟩ := ih { m with js := { m.js with jobs := m.js.jobs.set b.1 { v with blockedBy := b.2 } } } (by
      intro b' hb'
      obtain ⟨w, hw, hws⟩ := hpre b' (List.mem_cons_of_mem _ hb')
      by_cases hne : b.1 = b'.1
      · rw [← hne, List.getElem?_set_self hjl]
        rw [← hne, hv] at hw; cases hw
        exact ⟨_, rfl, hs⟩
      · rw [List.getElem?_set_ne hne]; exact ⟨w, hw, hws⟩)
    refine ⟨a1, a2, a3, a4, a5, ?_⟩
    intro i
    rw [a6 i]
    simp only
    by_cases hij : i = b.1
    · subst hij
      rw [List.getElem?_set_self hjl, hv]
      simp [blockedFinal]
    · rw [List.getElem?_set_ne (Ne.symm hij)]
      cases m.js.jobs[i]? with
      | none => rfl
      | some w => simp [blockedFinal, Ne.symm hij]

theorem cancelLoop_closed : ∀ (can : List JobId) (m : Mem),
    forEach cancelOne can m = ({ m with cfg := { m.cfg with submitted := m.cfg.submitted + can.length } }, none) := by
  intro can
  induction can with
  | nil => intro m; rfl
  | cons j can ih =>
    intro m
    rw [forEach_cons_ok _ _ _ _ _ (rfl : cancelOne j m = _), ih]
    simp only [List.length_cons, submittedAfterCancel_eq]
    congr 3
    omega

/-- the completed loop under its precondition -/
theorem completeLoop_closed (processed : List JobId) : ∀ (comp : List JobId) (m : Mem),
    (∀ i ∈ comp, i ∉ processed ∧ i < m.js.jobs.length) →
    (forEach (completeOne processed) comp m).2 = none ∧
    (forEach (completeOne processed) comp m).1.cfg = { m.cfg with completed := m.cfg.completed + comp.length } ∧
    (forEach (completeOne processed) comp m).1.js.hpcIds = m.js.hpcIds ∧
    (forEach (completeOne processed) comp m).1.js.batchIdx = m.js.batchIdx ∧
    (forEach (completeOne processed) comp m).1.js.version = m.js.version ∧
    JobsAre (forEach (completeOne processed) comp m).1.js.jobs m.js.jobs
      (fun i v => if i ∈ comp then { v with state := .done } else v) := by
  intro comp
  induction comp with
  | nil => intro m _; exact ⟨rfl, rfl, rfl, rfl, rfl, fun i => by simp [forEach_nil]⟩
  | cons j comp ih =>
    intro m hpre
    obtain ⟨hnp, hjl⟩ := hpre j (List.mem_cons_self ..)
    have hstep : completeOne processed j m =
        ({ cfg := { m.cfg with completed := m.cfg.completed + 1 },
           js := { m.js with jobs := m.js.jobs.set j { m.js.jobs[j] with state := .done } } }, none) := by
      unfold completeOne
      have h1 : processed.contains j = false := by simpa using hnp
      have : completeAssert (processed.contains j) = true := (completeAssert_iff _).2 h1
      simp only [this, if_true]
      rw [List.getElem?_eq_getElem hjl]
      rfl
    rw [forEach_cons_ok _ _ _ _ _ hstep]
    obtain ⟨a1, a2, a3, a4, a5, a6⟩ :=
      ih { cfg := { m.cfg with completed := m.cfg.completed + 1 },
           js := { m.js with jobs := m.js.jobs.set j { m.js.jobs[j] with state := .done } } } (by
      intro i hi
      obtain ⟨h1, h2⟩ := hpre i (List.mem_cons_of_mem _ hi)
      exact ⟨h1, by simpa using h2⟩)
    refine ⟨a1, ?_, a3, a4, a5, ?_⟩
    · rw [a2]; simp only [List.length_cons]; congr 1; omega
    · intro i
      rw [a6 i]
      simp only
      by_cases hij : i = j
      · subst hij
        rw [List.getElem?_set_self hjl, List.getElem?_eq_getElem hjl]
        by_cases hic : i ∈ comp <;> simp [hic]
      · rw [List.getElem?_set_ne (Ne.symm hij)]
        simp only [List.mem_cons, hij, false_or]

/-! ## the whole body of `_update_job_status` -/

/-- what `_update_job_status` makes of job `i` -/
def updJob (a : UpdateArgs) (i : Nat) (v : JobView) : JobView :=
  clearOne { state := if i ∈ a.completed then .done else if i ∈ a.submitted then .submitted else v.state,
             blockedBy := blockedFinal a.blocked i v.blockedBy, cancelFlag := v.cancelFlag }

/-- the conditions under which no assertion of `_update_job_status` fires, on the in-memory copy -/
structure ArgsPre (jobs : List JobView) (a : UpdateArgs) : Prop where
  subNodup : a.submitted.Nodup
  sub : ∀ i ∈ a.submitted, ∃ v : JobView, jobs[i]? = some v ∧ v.state = .notSubmitted
  blk : ∀ b ∈ a.blocked, b.1 ∉ a.submitted ∧ ∃ v : JobView, jobs[b.1]? = some v ∧ v.state = .notSubmitted
  comp : ∀ i ∈ a.completed, i ∉ a.submitted ∧ (∀ b ∈ a.blocked, b.1 ≠ i) ∧ i < jobs.length

theorem applyUpdate_closed (a : UpdateArgs) (m : Mem) (hpre : ArgsPre m.js.jobs a) :
    (applyUpdate a m).2 = none ∧
    (applyUpdate a m).1.cfg = { m.cfg with submitted := m.cfg.submitted + a.submitted.length + a.canceled.length,
                                            completed := m.cfg.completed + a.completed.length } ∧
    (applyUpdate a m).1.js.hpcIds = a.hpcIds ∧ (applyUpdate a m).1.js.batchIdx = a.batchIdx ∧
    (applyUpdate a m).1.js.version = m.js.version ∧
    JobsAre (applyUpdate a m).1.js.jobs m.js.jobs (updJob a) := by
  unfold applyUpdate
  simp only
  -- submitted loop
  obtain ⟨s1, s2, s3, s4, s5, s6⟩ := submitLoop_closed a.submitted
    { m with js := { m.js with hpcIds := a.hpcIds, batchIdx := a.batchIdx } } hpre.subNodup hpre.sub
  generalize hm1 : forEach submitOne a.submitted { m with js := { m.js with hpcIds := a.hpcIds, batchIdx := a.batchIdx } } = r1
    at s1 s2 s3 s4 s5 s6
  obtain ⟨m1, e1⟩ := r1
  simp only at s1 s2 s3 s4 s5 s6
  subst s1
  simp only [andThen]
  -- blocked loop
  obtain ⟨b1, b2, b3, b4, b5, b6⟩ := blockLoop_closed a.blocked m1 (by
    intro b hb
    obtain ⟨hns, v, hv, hs⟩ := hpre.blk b hb
    refine ⟨v, ?_, hs⟩
    rw [s6 b.1]
    simp only [hv, Option.map_some, hns, if_false])
  generalize hm2 : forEach blockOne a.blocked m1 = r2 at b1 b2 b3 b4 b5 b6
  obtain ⟨m2, e2⟩ := r2
  simp only at b1 b2 b3 b4 b5 b6
  subst b1
  simp only
  -- canceled loop
  rw [cancelLoop_closed]
  simp only
  -- completed loop
  have hlen : m2.js.jobs.length = m.js.jobs.length := by rw [b6.length, s6.length]
  obtain ⟨c1, c2, c3, c4, c5, c6⟩ := completeLoop_closed (processedOf a) a.completed
    { m2 with cfg := { m2.cfg with submitted := m2.cfg.submitted + a.canceled.length } } (by
    intro i hi
    obtain ⟨h1, h2, h3⟩ := hpre.comp i hi
    refine ⟨?_, by simp only; rw [hlen]; exact h3⟩
    unfold processedOf
    simp only [List.mem_append, List.mem_map, not_or, not_exists, not_and]
    exact ⟨h1, fun b hb e => h2 b hb e⟩)
  generalize hm3 : forEach (completeOne (processedOf a)) a.completed
    { m2 with cfg := { m2.cfg with submitted := m2.cfg.submitted + a.canceled.length } } = r3 at c1 c2 c3 c4 c5 c6
  obtain ⟨m3, e3⟩ := r3
  simp only at c1 c2 c3 c4 c5 c6
  subst c1
  simp only
  refine ⟨trivial, ?_, ?_, ?_, ?_, ?_⟩
  · simp only [clearAll]; rw [c2, b2, s2]
  · simp only [clearAll]; rw [c3, b3, s3]
  · simp only [clearAll]; rw [c4, b4, s4]
  · simp only [clearAll]; rw [c5, b5, s5]
  · intro i
    simp only [clearAll, List.getElem?_map]
    rw [c6 i, b6 i, s6 i]
    cases m.js.jobs[i]? with
    | none => rfl
    | some v =>
      simp only [Option.map_some, updJob]
      by_cases h1 : i ∈ a.completed <;> by_cases h2 : i ∈ a.submitted <;> simp [h1, h2]

/-! ## the persisted status: invariant, argument well-formedness, monotonicity -/

def isDone (v : JobView) : Bool := v.state == JState.done
/-- submitted or done -/
def isSubm (v : JobView) : Bool := v.state != JState.notSubmitted

/-- the C09 relations on the files (meaningful whenever they can be read) -/
structure StatusInv (d : Disk) : Prop where
  total : d.cfg.numJobs = d.js.jobs.length
  completed : d.cfg.completed = d.js.jobs.countP isDone
  submitted : d.cfg.submitted = d.js.jobs.countP isSubm
  blockers : ∀ v ∈ d.js.jobs, v.state ≠ .notSubmitted → v.blockedBy = []
  verCfg : d.cfg.version = d.cfgVer
  verJs : d.js.version = d.jsVer

def stateRank : JState → Nat
  | .notSubmitted => 0
  | .submitted => 1
  | .done => 2

/-- job list `l'` is "not behind" `l`: states only advanced, blocker sets only shrank -/
def JobsAhead (l l' : List JobView) : Prop :=
  l'.length = l.length ∧
  ∀ (i : Nat) (v v' : JobView), l[i]? = some v → l'[i]? = some v' →
    stateRank v.state ≤ stateRank v'.state ∧ (∀ q ∈ v'.blockedBy, q ∈ v.blockedBy) ∧ v'.cancelFlag = v.cancelFlag

/-- the C09 two-state relation between the files before and after an operation -/
structure Mono (d d' : Disk) : Prop where
  submitted : d.cfg.submitted ≤ d'.cfg.submitted
  completed : d.cfg.completed ≤ d'.cfg.completed
  total : d'.cfg.numJobs = d.cfg.numJobs
  jobs : JobsAhead d.js.jobs d'.js.jobs
  complete : d.cfg.isComplete = true → d'.cfg.isComplete = true
  cfgVer : d.cfgVer ≤ d'.cfgVer
  jsVer : d.jsVer ≤ d'.jsVer
  cfgChanged : d'.cfg ≠ d.cfg → d.cfgVer < d'.cfgVer
  jsChanged : d'.js ≠ d.js → d.jsVer < d'.jsVer

/-- Well-formedness of the arguments of `update_job_status` as a submitter round produces them, relative to the files
    `d` and to the handle's in-memory job status `mj` (which the round has already modified: blocker sets reduced, the
    jobs it canceled marked DONE). -/
structure UpdateArgsOK (d : Disk) (mj : JsView) (a : UpdateArgs) : Prop where
  len : mj.jobs.length = d.js.jobs.length
  /-- memory = disk, except reduced blockers and jobs canceled by this round (NOT_SUBMITTED on disk, DONE in memory,
      listed in `canceled_jobs`) -/
  mem : ∀ (i : Nat) (dv mv : JobView), d.js.jobs[i]? = some dv → mj.jobs[i]? = some mv →
    mv.cancelFlag = dv.cancelFlag ∧ (∀ q ∈ mv.blockedBy, q ∈ dv.blockedBy) ∧
    (mv.state = dv.state ∨ (dv.state = .notSubmitted ∧ mv.state = .done ∧ i ∈ a.canceled))
  subNodup : a.submitted.Nodup
  /-- submitted jobs are NOT_SUBMITTED -/
  sub : ∀ i ∈ a.submitted, ∃ mv : JobView, mj.jobs[i]? = some mv ∧ mv.state = .notSubmitted
  /-- blocked jobs are NOT_SUBMITTED, not submitted in this round, and carry (a subset of) their current blockers -/
  blk : ∀ b ∈ a.blocked, b.1 ∉ a.submitted ∧
    ∃ mv : JobView, mj.jobs[b.1]? = some mv ∧ mv.state = .notSubmitted ∧ ∀ q ∈ b.2, q ∈ mv.blockedBy
  canNodup : a.canceled.Nodup
  /-- canceled jobs are NOT_SUBMITTED on disk and are reported as completed -/
  can : ∀ i ∈ a.canceled, i ∈ a.completed ∧ ∃ dv : JobView, d.js.jobs[i]? = some dv ∧ dv.state = .notSubmitted
  compNodup : a.completed.Nodup
  /-- completed names were not "processed" in this round and are SUBMITTED on disk, or canceled by this round -/
  comp : ∀ i ∈ a.completed, i ∉ a.submitted ∧ (∀ b ∈ a.blocked, b.1 ≠ i) ∧
    (i ∈ a.canceled ∨ ∃ dv : JobView, d.js.jobs[i]? = some dv ∧ dv.state = .submitted)

theorem clearOne_state (v : JobView) : (clearOne v).state = v.state := by
  unfold clearOne; split <;> rfl

theorem clearOne_cancelFlag (v : JobView) : (clearOne v).cancelFlag = v.cancelFlag := by
  unfold clearOne; split <;> rfl

theorem clearOne_blockedBy_sub (v : JobView) : ∀ q ∈ (clearOne v).blockedBy, q ∈ v.blockedBy := by
  unfold clearOne; split
  · intro q hq; cases hq
  · intro q hq; exact hq

theorem clearOne_cleared (v : JobView) (h : (clearOne v).state ≠ .notSubmitted) : (clearOne v).blockedBy = [] := by
  unfold clearOne at h ⊢
  split
  · rfl
  · next hc =>
    have : ¬ (v.blockedBy ≠ [] ∧ (v.state = .submitted ∨ v.state = .done)) := by
      rw [← clearBlockers_iff]; exact hc
    simp only [hc, Bool.false_eq_true, if_false] at h
    by_cases hb : v.blockedBy = []
    · exact hb
    · exfalso; apply this; refine ⟨hb, ?_⟩
      cases hs : v.state with
      | notSubmitted => exact absurd hs h
      | submitted => exact Or.inl rfl
      | done => exact Or.inr rfl

theorem updJob_state (a : UpdateArgs) (i : Nat) (v : JobView) :
    (updJob a i v).state = if i ∈ a.completed then .done else if i ∈ a.submitted then .submitted else v.state := by
  unfold updJob; rw [clearOne_state]

theorem UpdateArgsOK.pre {d : Disk} {mj : JsView} {a : UpdateArgs} (h : UpdateArgsOK d mj a) : ArgsPre mj.jobs a := by
  refine ⟨h.subNodup, h.sub, ?_, ?_⟩
  · intro b hb
    obtain ⟨h1, mv, h2, h3, _⟩ := h.blk b hb
    exact ⟨h1, mv, h2, h3⟩
  · intro i hi
    obtain ⟨h1, h2, h3⟩ := h.comp i hi
    refine ⟨h1, h2, ?_⟩
    have hv : ∃ dv : JobView, d.js.jobs[i]? = some dv := by
      rcases h3 with h3 | ⟨dv, h3, _⟩
      · obtain ⟨_, dv, h4, _⟩ := h.can i h3; exact ⟨dv, h4⟩
      · exact ⟨dv, h3⟩
    obtain ⟨dv, hdv⟩ := hv
    rw [h.len]
    rcases Nat.lt_or_ge i d.js.jobs.length with hl | hl
    · exact hl
    · rw [List.getElem?_eq_none hl] at hdv; cases hdv

/-- `_serialize` + `_serialize_jobs` by a handle whose copies are current: both succeed; the job status is always
    rewritten (see `jsChanged_of_cfgSlot`), the config is rewritten unless it equals the disk's -/
theorem serializeBoth_result (d : Disk) (x : Handle) (j : JsView) (hv : x.cfg.version = d.cfgVer)
    (hj : j.version = d.jsVer) (hhash : ∀ c : CfgView, x.cfgHash = some (Snap.cfg c) → c = d.cfg)
    (hwf : ∀ j' : JsView, x.cfgHash ≠ some (Snap.js j')) :
    (serializeBoth d x j).2.2 = .ok ∧ (serializeBoth d x j).1.marker = d.marker ∧
    (serializeBoth d x j).1.js = { j with version := d.jsVer + 1 } ∧ (serializeBoth d x j).1.jsVer = d.jsVer + 1 ∧
    (((serializeBoth d x j).1.cfg = d.cfg ∧ x.cfg = d.cfg ∧ (serializeBoth d x j).1.cfgVer = d.cfgVer ∧
        (serializeBoth d x j).1.cfgMissing = d.cfgMissing) ∨
     ((serializeBoth d x j).1.cfg = { x.cfg with version := d.cfgVer + 1 } ∧
        (serializeBoth d x j).1.cfgVer = d.cfgVer + 1 ∧ (serializeBoth d x j).1.cfgMissing = false)) := by
  unfold serializeBoth
  rcases serializeCfg_cases d x with ⟨h1, _⟩ | ⟨_, h2, h3⟩ | ⟨_, _, h3⟩
  · exact absurd hv h1
  · rw [h3]
    simp only
    rcases serializeJs_cases d x j with ⟨g1, _⟩ | ⟨_, g2, _⟩ | ⟨_, _, g3⟩
    · exact absurd hj g1
    · rw [jsChanged_of_cfgSlot j x.cfgHash x.jsHash hwf] at g2; cases g2
    · rw [g3]
      refine ⟨rfl, rfl, by rw [hj], by rw [hj], Or.inl ⟨rfl, (hhash _ h2), rfl, rfl⟩⟩
  · rw [h3]
    simp only
    rcases serializeJs_cases { d with cfgVer := x.cfg.version + 1, cfg := { x.cfg with version := x.cfg.version + 1 },
                                      cfgMissing := false }
        { x with cfg := { x.cfg with version := x.cfg.version + 1 },
                 cfgHash := some (Snap.cfg { x.cfg with version := x.cfg.version + 1 }) } j
      with ⟨g1, _⟩ | ⟨_, g2, _⟩ | ⟨_, _, g3⟩
    · exact absurd hj g1
    · rw [jsChanged_of_cfgSlot j _ _ (by intro j' e; cases e)] at g2; cases g2
    · rw [g3]
      refine ⟨rfl, rfl, by rw [hj], by rw [hj], Or.inr ⟨by rw [hv], by simp only; rw [hv], rfl⟩⟩

/-- what the update does to one job, compared with the entry on disk -/
theorem updJob_facts (a : UpdateArgs) (i : Nat) (dv mv : JobView)
    (hflag : mv.cancelFlag = dv.cancelFlag) (hbl : ∀ q ∈ mv.blockedBy, q ∈ dv.blockedBy)
    (hst : mv.state = dv.state ∨ (dv.state = .notSubmitted ∧ mv.state = .done ∧ i ∈ a.canceled))
    (hsub : i ∈ a.submitted → mv.state = .notSubmitted)
    (hblk : ∀ b ∈ a.blocked, b.1 = i → ∀ q ∈ b.2, q ∈ mv.blockedBy)
    (hcan : i ∈ a.canceled → i ∈ a.completed ∧ dv.state = .notSubmitted)
    (hcomp : i ∈ a.completed → i ∉ a.submitted ∧ (i ∈ a.canceled ∨ dv.state = .submitted)) :
    ((if isDone (updJob a i mv) then 1 else 0) = (if isDone dv then 1 else 0) + (if i ∈ a.completed then 1 else 0)) ∧
    ((if isSubm (updJob a i mv) then 1 else 0) =
        (if isSubm dv then 1 else 0) + (if i ∈ a.submitted ++ a.canceled then 1 else 0)) ∧
    stateRank dv.state ≤ stateRank (updJob a i mv).state ∧
    (∀ q ∈ (updJob a i mv).blockedBy, q ∈ dv.blockedBy) ∧ (updJob a i mv).cancelFlag = dv.cancelFlag := by
  have hs := updJob_state a i mv
  refine ⟨?_, ?_, ?_, ?_, ?_⟩
  · unfold isDone
    rw [hs]
    by_cases h1 : i ∈ a.completed
    · obtain ⟨_, h3⟩ := hcomp h1
      have : dv.state ≠ .done := by
        rcases h3 with h3 | h3
        · rw [(hcan h3).2]; simp
        · rw [h3]; simp
      simp [h1, this]
    · have hnc : i ∉ a.canceled := fun h => h1 (hcan h).1
      by_cases h2 : i ∈ a.submitted
      · have hm := hsub h2
        have : dv.state = .notSubmitted := by
          rcases hst with h | ⟨h, _, _⟩
          · rw [← h]; exact hm
          · exact h
        simp [h1, h2, this]
      · have : mv.state = dv.state := by
          rcases hst with h | ⟨_, _, h⟩
          · exact h
          · exact absurd h hnc
        simp [h1, h2, this]
  · unfold isSubm
    rw [hs]
    by_cases h1 : i ∈ a.completed
    · obtain ⟨h2, h3⟩ := hcomp h1
      by_cases h4 : i ∈ a.canceled
      · simp [h1, h2, h4, (hcan h4).2]
      · have : dv.state = .submitted := by
          rcases h3 with h3 | h3
          · exact absurd h3 h4
          · exact h3
        simp [h1, h2, h4, this]
    · have hnc : i ∉ a.canceled := fun h => h1 (hcan h).1
      by_cases h2 : i ∈ a.submitted
      · have hm := hsub h2
        have : dv.state = .notSubmitted := by
          rcases hst with h | ⟨h, _, _⟩
          · rw [← h]; exact hm
          · exact h
        simp [h1, h2, this]
      · have : mv.state = dv.state := by
          rcases hst with h | ⟨_, _, h⟩
          · exact h
          · exact absurd h hnc
        simp [h1, h2, hnc, this]
  · rw [hs]
    by_cases h1 : i ∈ a.completed
    · simp only [h1, if_true]; cases dv.state <;> simp [stateRank]
    · have hnc : i ∉ a.canceled := fun h => h1 (hcan h).1
      by_cases h2 : i ∈ a.submitted
      · have hm := hsub h2
        have : dv.state = .notSubmitted := by
          rcases hst with h | ⟨h, _, _⟩
          · rw [← h]; exact hm
          · exact h
        simp [h1, h2, this, stateRank]
      · have : mv.state = dv.state := by
          rcases hst with h | ⟨_, _, h⟩
          · exact h
          · exact absurd h hnc
        simp [h1, h2, this]
  · intro q hq
    unfold updJob at hq
    have := clearOne_blockedBy_sub _ q hq
    simp only at this
    exact hbl q (blockedFinal_subset a.blocked i mv.blockedBy mv.blockedBy (fun _ h => h) hblk q this)
  · unfold updJob
    rw [clearOne_cancelFlag]
    exact hflag

theorem JobsAre.getElem {l' l : List JobView} {F : Nat → JobView → JobView} (h : JobsAre l' l F) (i : Nat)
    (h1 : i < l.length) (h2 : i < l'.length) : l'[i] = F i l[i] := by
  have := h i
  rw [List.getElem?_eq_getElem h1, List.getElem?_eq_getElem h2] at this
  simpa using this

theorem getElem?_some_lt {α : Type} {l : List α} {i : Nat} {v : α} (h : l[i]? = some v) : i < l.length := by
  rcases Nat.lt_or_ge i l.length with hl | hl
  · exact hl
  · rw [List.getElem?_eq_none hl] at h; cases h

/-- the per-index hypotheses of `updJob_facts`, from `UpdateArgsOK` -/
theorem UpdateArgsOK.facts {d : Disk} {mj : JsView} {a : UpdateArgs} (hok : UpdateArgsOK d mj a) (i : Nat)
    (h1 : i < d.js.jobs.length) (h2 : i < mj.jobs.length) :
    ((if isDone (updJob a i mj.jobs[i]) then 1 else 0) =
        (if isDone d.js.jobs[i] then 1 else 0) + (if i ∈ a.completed then 1 else 0)) ∧
    ((if isSubm (updJob a i mj.jobs[i]) then 1 else 0) =
        (if isSubm d.js.jobs[i] then 1 else 0) + (if i ∈ a.submitted ++ a.canceled then 1 else 0)) ∧
    stateRank d.js.jobs[i].state ≤ stateRank (updJob a i mj.jobs[i]).state ∧
    (∀ q ∈ (updJob a i mj.jobs[i]).blockedBy, q ∈ d.js.jobs[i].blockedBy) ∧
    (updJob a i mj.jobs[i]).cancelFlag = d.js.jobs[i].cancelFlag := by
  have hd : d.js.jobs[i]? = some d.js.jobs[i] := List.getElem?_eq_getElem h1
  have hm : mj.jobs[i]? = some mj.jobs[i] := List.getElem?_eq_getElem h2
  obtain ⟨m1, m2, m3⟩ := hok.mem i _ _ hd hm
  refine updJob_facts a i _ _ m1 m2 m3 ?_ ?_ ?_ ?_
  · intro hs
    obtain ⟨mv, e, hs'⟩ := hok.sub i hs
    rw [hm] at e; cases e; exact hs'
  · intro b hb e q hq
    obtain ⟨_, mv, e1, _, e3⟩ := hok.blk b hb
    rw [e, hm] at e1; cases e1; exact e3 q hq
  · intro hc
    obtain ⟨c1, dv, e, hs'⟩ := hok.can i hc
    rw [hd] at e; cases e; exact ⟨c1, hs'⟩
  · intro hc
    obtain ⟨c1, _, c3⟩ := hok.comp i hc
    refine ⟨c1, ?_⟩
    rcases c3 with c3 | ⟨dv, e, hs'⟩
    · exact Or.inl c3
    · rw [hd] at e; cases e; exact Or.inr hs'

theorem UpdateArgsOK.nodupSubCan {d : Disk} {mj : JsView} {a : UpdateArgs} (hok : UpdateArgsOK d mj a) :
    (a.submitted ++ a.canceled).Nodup := by
  rw [List.nodup_append]
  refine ⟨hok.subNodup, hok.canNodup, ?_⟩
  intro x hx y hy e
  subst e
  exact (hok.comp x (hok.can x hy).1).1 hx

/-- `_update_job_status` by a handle whose copies are current, on consistent files, with well-formed arguments:
    no exception, the files are consistent afterwards and have only moved forward. -/
theorem doUpdate_status (a : UpdateArgs) (d : Disk) (x : Handle) (mj : JsView) (hI : StatusInv d)
    (hcfg : x.cfg = d.cfg) (hjs : x.js = some mj) (hver : mj.version = d.jsVer)
    (hhash : ∀ c : CfgView, x.cfgHash = some (Snap.cfg c) → c = d.cfg)
    (hwf : ∀ j' : JsView, x.cfgHash ≠ some (Snap.js j')) (hok : UpdateArgsOK d mj a) :
    (doUpdate a d x).2.2 = .ok ∧ (doUpdate a d x).1.marker = d.marker ∧ StatusInv (doUpdate a d x).1 ∧
    Mono d (doUpdate a d x).1 ∧ d.jsVer < (doUpdate a d x).1.jsVer ∧
    (doUpdate a d x).1.js.hpcIds = a.hpcIds ∧ (doUpdate a d x).1.js.batchIdx = a.batchIdx := by
  obtain ⟨u1, u2, u3, u4, u5, u6⟩ := applyUpdate_closed a { cfg := x.cfg, js := mj } hok.pre
  have hxv : x.cfg.version = d.cfgVer := by rw [hcfg]; exact hI.verCfg
  -- reduce `doUpdate` to the two serializations
  have heq : doUpdate a d x = serializeBoth d
      { x with cfg := (applyUpdate a { cfg := x.cfg, js := mj }).1.cfg,
               js := some (applyUpdate a { cfg := x.cfg, js := mj }).1.js }
      (applyUpdate a { cfg := x.cfg, js := mj }).1.js := by
    unfold doUpdate checkVersions
    have h0 : checkCfgMismatch x.cfg.version d.cfgVer = false := by
      rw [Bool.eq_false_iff, ne_eq, checkCfgMismatch_iff]; simpa using hxv
    have h1 : checkJsMismatch mj.version d.jsVer = false := by
      rw [Bool.eq_false_iff, ne_eq, checkJsMismatch_iff]; simpa using hver
    simp only [h0, Bool.false_eq_true, if_false, hjs, h1, u1]
  rw [heq]
  generalize hu : applyUpdate a { cfg := x.cfg, js := mj } = u at u1 u2 u3 u4 u5 u6
  simp only at u2 u5 u6
  obtain ⟨r1, r2, r3, r4, r5⟩ := serializeBoth_result d { x with cfg := u.1.cfg, js := some u.1.js } u.1.js
    (by simp only; rw [u2]; exact hxv) (by rw [u5]; exact hver) hhash hwf
  generalize serializeBoth d { x with cfg := u.1.cfg, js := some u.1.js } u.1.js = o at r1 r2 r3 r4 r5
  simp only at r5
  have hlenJ : u.1.js.jobs.length = mj.jobs.length := u6.length
  have hlen : u.1.js.jobs.length = d.js.jobs.length := by rw [hlenJ, hok.len]
  -- counts
  have hD : u.1.js.jobs.countP isDone = d.js.jobs.countP isDone + a.completed.length := by
    apply countP_pointwise isDone a.completed d.js.jobs u.1.js.jobs hlen.symm hok.compNodup
    · intro i hi
      have := (hok.pre.comp i hi).2.2
      rw [← hok.len]; exact this
    · intro i h1 h2
      rw [u6.getElem i (by rw [hok.len]; exact h1) h2]
      exact (hok.facts i h1 (by rw [hok.len]; exact h1)).1
  have hS : u.1.js.jobs.countP isSubm = d.js.jobs.countP isSubm + (a.submitted ++ a.canceled).length := by
    apply countP_pointwise isSubm (a.submitted ++ a.canceled) d.js.jobs u.1.js.jobs hlen.symm hok.nodupSubCan
    · intro i hi
      rw [List.mem_append] at hi
      rcases hi with hi | hi
      · obtain ⟨mv, e, _⟩ := hok.sub i hi
        rw [← hok.len]; exact getElem?_some_lt e
      · obtain ⟨_, dv, e, _⟩ := hok.can i hi
        exact getElem?_some_lt e
    · intro i h1 h2
      rw [u6.getElem i (by rw [hok.len]; exact h1) h2]
      exact (hok.facts i h1 (by rw [hok.len]; exact h1)).2.1
  have hjobs : JobsAhead d.js.jobs u.1.js.jobs := by
    refine ⟨hlen, ?_⟩
    intro i v v' hv hv'
    have h1 := getElem?_some_lt hv
    have h2 := getElem?_some_lt hv'
    rw [List.getElem?_eq_getElem h1] at hv
    rw [List.getElem?_eq_getElem h2, u6.getElem i (by rw [hok.len]; exact h1) h2] at hv'
    cases hv; cases hv'
    exact (hok.facts i h1 (by rw [hok.len]; exact h1)).2.2
  have hblock : ∀ v ∈ u.1.js.jobs, v.state ≠ .notSubmitted → v.blockedBy = [] := by
    intro v hv hs
    obtain ⟨i, h2, rfl⟩ := List.getElem_of_mem hv
    have h1 : i < mj.jobs.length := by rw [← hlenJ]; exact h2
    rw [u6.getElem i h1 h2] at hs ⊢
    unfold updJob at hs ⊢
    exact clearOne_cleared _ hs
  have hcnt : u.1.cfg.completed = u.1.js.jobs.countP isDone ∧ u.1.cfg.submitted = u.1.js.jobs.countP isSubm ∧
      u.1.cfg.numJobs = u.1.js.jobs.length := by
    rw [hD, hS, u2, hcfg, hlen]
    simp only [List.length_append]
    exact ⟨by rw [hI.completed], by rw [hI.submitted]; omega, hI.total⟩
  refine ⟨r1, r2, ?_, ?_, by rw [r4]; omega, by rw [r3]; exact u3, by rw [r3]; exact u4⟩
  · -- StatusInv
    rcases r5 with ⟨c1, c2, c3, _⟩ | ⟨c1, c3, _⟩
    · refine ⟨?_, ?_, ?_, by rw [r3]; exact hblock, by rw [c1, c3]; exact hI.verCfg, by rw [r3, r4]⟩
      · rw [c1, r3, ← c2]; exact hcnt.2.2
      · rw [c1, r3, ← c2]; exact hcnt.1
      · rw [c1, r3, ← c2]; exact hcnt.2.1
    · refine ⟨?_, ?_, ?_, by rw [r3]; exact hblock, by rw [c1, c3], by rw [r3, r4]⟩
      · rw [c1, r3]; exact hcnt.2.2
      · rw [c1, r3]; exact hcnt.1
      · rw [c1, r3]; exact hcnt.2.1
  · -- Mono
    have hsubm : d.cfg.submitted ≤ u.1.cfg.submitted := by rw [u2, hcfg]; simp only; omega
    have hcompl : d.cfg.completed ≤ u.1.cfg.completed := by rw [u2, hcfg]; simp only; omega
    have htot : u.1.cfg.numJobs = d.cfg.numJobs := by rw [u2, hcfg]
    have hic : u.1.cfg.isComplete = d.cfg.isComplete := by rw [u2, hcfg]
    rcases r5 with ⟨c1, c2, c3, _⟩ | ⟨c1, c3, _⟩
    · exact ⟨by rw [c1]; exact Nat.le_refl _, by rw [c1]; exact Nat.le_refl _, by rw [c1], by rw [r3]; exact hjobs,
        by rw [c1]; exact id, by rw [c3]; exact Nat.le_refl _, by rw [r4]; omega,
        fun h => absurd c1 h, fun _ => by rw [r4]; omega⟩
    · exact ⟨by rw [c1]; exact hsubm, by rw [c1]; exact hcompl, by rw [c1]; exact htot, by rw [r3]; exact hjobs,
        by rw [c1]; simp only; rw [hic]; exact id, by rw [c3]; omega, by rw [r4]; omega,
        fun _ => by rw [c3]; omega, fun _ => by rw [r4]; omega⟩

/-! ## the other operations -/

theorem Mono.refl (d : Disk) : Mono d d :=
  ⟨Nat.le_refl _, Nat.le_refl _, rfl, ⟨rfl, fun i v v' h h' => by rw [h] at h'; cases h'; exact ⟨Nat.le_refl _, fun _ h => h, rfl⟩⟩,
   id, Nat.le_refl _, Nat.le_refl _, fun h => absurd rfl h, fun h => absurd rfl h⟩

theorem JobsAhead.refl (l : List JobView) : JobsAhead l l :=
  ⟨rfl, fun i v v' h h' => by rw [h] at h'; cases h'; exact ⟨Nat.le_refl _, fun _ h => h, rfl⟩⟩

/-- a config-only method (`x1` = the handle after the in-memory assignment) by a handle whose config copy is the disk's:
    counters untouched ⇒ the status relations are untouched -/
theorem cfgOnly_status (d : Disk) (x1 : Handle) (hI : StatusInv d)
    (h1 : x1.cfg.submitted = d.cfg.submitted) (h2 : x1.cfg.completed = d.cfg.completed)
    (h3 : x1.cfg.numJobs = d.cfg.numJobs) (h4 : x1.cfg.version = d.cfg.version)
    (h5 : d.cfg.isComplete = true → x1.cfg.isComplete = true) :
    StatusInv (serializeCfg d x1).1 ∧ Mono d (serializeCfg d x1).1 ∧ (serializeCfg d x1).1.marker = d.marker ∧
    (serializeCfg d x1).2.2 = none := by
  have hv : x1.cfg.version = d.cfgVer := by rw [h4]; exact hI.verCfg
  rcases serializeCfg_cases d x1 with ⟨g1, _⟩ | ⟨_, _, g3⟩ | ⟨_, _, g3⟩
  · exact absurd hv g1
  · rw [g3]; exact ⟨hI, Mono.refl d, rfl, rfl⟩
  · rw [g3]
    refine ⟨⟨?_, ?_, ?_, hI.blockers, rfl, hI.verJs⟩, ⟨?_, ?_, ?_, JobsAhead.refl _, h5, ?_, Nat.le_refl _, ?_, ?_⟩, rfl, rfl⟩
    · show x1.cfg.numJobs = _; rw [h3]; exact hI.total
    · show x1.cfg.completed = _; rw [h2]; exact hI.completed
    · show x1.cfg.submitted = _; rw [h1]; exact hI.submitted
    · show _ ≤ x1.cfg.submitted; rw [h1]; exact Nat.le_refl _
    · show _ ≤ x1.cfg.completed; rw [h2]; exact Nat.le_refl _
    · show x1.cfg.numJobs = _; exact h3
    · show d.cfgVer ≤ x1.cfg.version + 1; omega
    · intro _; show d.cfgVer < x1.cfg.version + 1; omega
    · intro h; exact absurd rfl h

theorem create_status (host : Host) (spec : List (List JobId × Bool)) (brk : Bool) :
    StatusInv (create host spec brk).disk := by
  rw [create_eq]
  have hnone : ∀ p : JobView → Bool, (∀ v ∈ createJobs spec, p v = false) → (createJobs spec).countP p = 0 := by
    intro p hp
    rw [List.countP_eq_zero]
    intro v hv; rw [hp v hv]; simp
  have hst : ∀ v ∈ createJobs spec, v.state = .notSubmitted := by
    intro v hv
    simp only [createJobs, List.mem_map] at hv
    obtain ⟨_, _, rfl⟩ := hv
    rfl
  refine ⟨?_, ?_, ?_, ?_, rfl, rfl⟩
  · simp [createCfg, createJs, createJobs]
  · show 0 = (createJobs spec).countP isDone; rw [hnone]; intro v hv; simp [isDone, hst v hv]
  · show 0 = (createJobs spec).countP isSubm; rw [hnone]; intro v hv; simp [isSubm, hst v hv]
  · intro v hv hs; exact absurd (hst v hv) hs

/-- promote / demote / mark_complete / mark_canceled by a handle whose config copy is current and equal to the disk's -/
theorem cfgOps_status (d : Disk) (x : Handle) (hI : StatusInv d) (hcfg : x.cfg = d.cfg)
    (hhash : ∀ c : CfgView, x.cfgHash = some (Snap.cfg c) → c = d.cfg) :
    (StatusInv (doPromote d x).1 ∧ Mono d (doPromote d x).1 ∧ (doPromote d x).1.marker = d.marker) ∧
    (StatusInv (doDemote d x).1 ∧ Mono d (doDemote d x).1 ∧ (doDemote d x).1.marker = d.marker) ∧
    (StatusInv (doMarkComplete d x).1 ∧ Mono d (doMarkComplete d x).1 ∧ (doMarkComplete d x).1.marker = d.marker ∧
      (d.cfg.isComplete = false → (doMarkComplete d x).2.2 = .ok ∧ (doMarkComplete d x).1.cfg.isComplete = true)) ∧
    (StatusInv (doMarkCanceled d x).1 ∧ Mono d (doMarkCanceled d x).1 ∧ (doMarkCanceled d x).1.marker = d.marker ∧
      (doMarkCanceled d x).2.2 = .ok) := by
  refine ⟨?_, ?_, ?_, ?_⟩
  · unfold doPromote
    split
    · exact ⟨hI, Mono.refl d, rfl⟩
    · obtain ⟨a1, a2, a3, _⟩ := cfgOnly_status d { x with cfg := { x.cfg with submitter := some x.host } } hI
        (by rw [hcfg]) (by rw [hcfg]) (by rw [hcfg]) (by rw [hcfg]) (by intro h; simp only; rw [hcfg]; exact h)
      exact ⟨a1, a2, a3⟩
  · unfold doDemote
    split
    · obtain ⟨a1, a2, a3, _⟩ := cfgOnly_status d { x with cfg := { x.cfg with submitter := none } } hI
        (by rw [hcfg]) (by rw [hcfg]) (by rw [hcfg]) (by rw [hcfg]) (by intro h; simp only; rw [hcfg]; exact h)
      exact ⟨a1, a2, a3⟩
    · exact ⟨hI, Mono.refl d, rfl⟩
  · unfold doMarkComplete
    split
    · next has =>
      obtain ⟨a1, a2, a3, a4⟩ := cfgOnly_status d { x with cfg := { x.cfg with isComplete := true } } hI
        (by rw [hcfg]) (by rw [hcfg]) (by rw [hcfg]) (by rw [hcfg]) (by intro _; rfl)
      refine ⟨a1, a2, a3, ?_⟩
      intro hic
      refine ⟨by simp only; rw [a4]; rfl, ?_⟩
      -- the flag changed, so the config was written
      rcases serializeCfg_cases d { x with cfg := { x.cfg with isComplete := true } } with ⟨g1, _⟩ | ⟨g1, g2, _⟩ | ⟨_, _, g3⟩
      · exact absurd (by show x.cfg.version = d.cfgVer; rw [hcfg]; exact hI.verCfg) g1
      · exfalso
        have := congrArg CfgView.isComplete (hhash _ g2)
        simp only at this
        rw [hic] at this; cases this
      · simp only; rw [g3]
    · next has =>
      refine ⟨hI, Mono.refl d, rfl, ?_⟩
      intro hic
      exfalso; apply has
      rw [markCompleteAssert_iff, hcfg]; exact hic
  · unfold doMarkCanceled
    obtain ⟨a1, a2, a3, a4⟩ := cfgOnly_status d { x with cfg := { x.cfg with isCanceled := true } } hI
      (by rw [hcfg]) (by rw [hcfg]) (by rw [hcfg]) (by rw [hcfg]) (by intro h; simp only; rw [hcfg]; exact h)
    exact ⟨a1, a2, a3, by simp only; rw [a4]; rfl⟩

/-- `complete_hpc_job_id` by a handle whose job-status copy IS the disk's -/
theorem doCompleteHpcId_status (id : Nat) (d : Disk) (x : Handle) (hI : StatusInv d) (hjs : x.js = some d.js) :
    StatusInv (doCompleteHpcId id d x).1 ∧ Mono d (doCompleteHpcId id d x).1 ∧
    (doCompleteHpcId id d x).1.marker = d.marker := by
  unfold doCompleteHpcId
  rw [hjs]
  simp only
  split
  · rcases serializeJs_cases d { x with js := some { d.js with hpcIds := d.js.hpcIds.erase id } }
        { d.js with hpcIds := d.js.hpcIds.erase id } with ⟨g1, _⟩ | ⟨_, _, g3⟩ | ⟨_, _, g3⟩
    · exact absurd hI.verJs g1
    · rw [g3]; exact ⟨hI, Mono.refl d, rfl⟩
    · rw [g3]
      refine ⟨⟨hI.total, hI.completed, hI.submitted, hI.blockers, hI.verCfg, rfl⟩,
        ⟨Nat.le_refl _, Nat.le_refl _, rfl, JobsAhead.refl _, fun h => h, Nat.le_refl _, ?_, fun h => absurd rfl h, ?_⟩, rfl⟩
      · show d.jsVer ≤ d.js.version + 1; rw [hI.verJs]; omega
      · intro _; show d.jsVer < d.js.version + 1; rw [hI.verJs]; omega
  · exact ⟨hI, Mono.refl d, rfl⟩

/-! ## a second SUBMITTED for the same job is an assertion error -/

theorem submitOne_cases (j : JobId) (m : Mem) :
    (m.js.jobs[j]? = none ∧ submitOne j m = (m, some .keyError)) ∨
    (∃ w : JobView, m.js.jobs[j]? = some w ∧ w.state = .submitted ∧ submitOne j m = (m, some .assertion)) ∨
    (∃ w : JobView, m.js.jobs[j]? = some w ∧ w.state ≠ .submitted ∧
      submitOne j m = ({ cfg := { m.cfg with submitted := m.cfg.submitted + 1 },
                         js := { m.js with jobs := m.js.jobs.set j { w with state := .submitted } } }, none)) := by
  unfold submitOne
  cases hj : m.js.jobs[j]? with
  | none => left; exact ⟨rfl, rfl⟩
  | some w =>
    right
    by_cases hs : w.state = .submitted
    · left
      have : submitAssert w.state = false := by rw [Bool.eq_false_iff, ne_eq, submitAssert_iff]; simpa using hs
      simp only [this, Bool.false_eq_true, if_false]
      exact ⟨w, rfl, hs, trivial⟩
    · right
      have : submitAssert w.state = true := (submitAssert_iff _).2 hs
      simp only [this, if_true]
      exact ⟨w, rfl, hs, rfl⟩

theorem submitLoop_err_of_submitted : ∀ (subs : List JobId) (m : Mem),
    (∃ i ∈ subs, ∃ v : JobView, m.js.jobs[i]? = some v ∧ v.state = .submitted) →
    (forEach submitOne subs m).2 ≠ none := by
  intro subs
  induction subs with
  | nil => intro m ⟨i, hi, _⟩; cases hi
  | cons j subs ih =>
    intro m ⟨i, hi, v, hv, hs⟩
    rcases submitOne_cases j m with ⟨_, h2⟩ | ⟨w, _, _, h2⟩ | ⟨w, hw, hws, h2⟩
    · rw [forEach_cons_err _ _ _ _ _ _ h2]; simp
    · rw [forEach_cons_err _ _ _ _ _ _ h2]; simp
    · rw [forEach_cons_ok _ _ _ _ _ h2]
      apply ih
      have hij : i ≠ j := by
        intro e; subst e; rw [hv] at hw; cases hw; exact hws hs
      rcases List.mem_cons.1 hi with e | hi'
      · exact absurd e hij
      · exact ⟨i, hi', v, by simp only; rw [List.getElem?_set_ne (Ne.symm hij)]; exact hv, hs⟩

theorem submitLoop_err_of_dup : ∀ (subs : List JobId) (m : Mem), ¬ subs.Nodup →
    (forEach submitOne subs m).2 ≠ none := by
  intro subs
  induction subs with
  | nil => intro m h; exact absurd List.nodup_nil h
  | cons j subs ih =>
    intro m hnd
    rcases submitOne_cases j m with ⟨_, h2⟩ | ⟨w, _, _, h2⟩ | ⟨w, hw, _, h2⟩
    · rw [forEach_cons_err _ _ _ _ _ _ h2]; simp
    · rw [forEach_cons_err _ _ _ _ _ _ h2]; simp
    · rw [forEach_cons_ok _ _ _ _ _ h2]
      by_cases hj : j ∈ subs
      · apply submitLoop_err_of_submitted
        refine ⟨j, hj, { w with state := .submitted }, ?_, rfl⟩
        simp only
        rw [List.getElem?_set_self (getElem?_some_lt hw)]
      · apply ih
        intro h; exact hnd (List.nodup_cons.2 ⟨hj, h⟩)

theorem submitLoop_err_kind : ∀ (subs : List JobId) (m : Mem), (∀ i ∈ subs, i < m.js.jobs.length) →
    (forEach submitOne subs m).2 = none ∨ (forEach submitOne subs m).2 = some .assertion := by
  intro subs
  induction subs with
  | nil => intro m _; exact Or.inl rfl
  | cons j subs ih =>
    intro m hval
    rcases submitOne_cases j m with ⟨h1, _⟩ | ⟨w, _, _, h2⟩ | ⟨w, _, _, h2⟩
    · have := hval j (List.mem_cons_self ..)
      rw [List.getElem?_eq_getElem this] at h1; cases h1
    · rw [forEach_cons_err _ _ _ _ _ _ h2]; exact Or.inr rfl
    · rw [forEach_cons_ok _ _ _ _ _ h2]
      apply ih
      intro i hi
      simp only [List.length_set]
      exact hval i (List.mem_cons_of_mem _ hi)

theorem andThen_of_err (r : Mem × Option Err) (f : Mem → Mem × Option Err) (e : Err) (h : r.2 = some e) :
    andThen r f = r := by
  rcases r with ⟨m, e'⟩
  simp only at h
  subst h
  rfl

/-- `update_job_status` by a handle whose copies are current, with a job listed as submitted twice or already SUBMITTED
    in the handle's copy: AssertionError under the lock, nothing is written -/
theorem doUpdate_double_submit (a : UpdateArgs) (d : Disk) (x : Handle) (mj : JsView) (hv : x.cfg.version = d.cfgVer)
    (hjs : x.js = some mj) (hver : mj.version = d.jsVer)
    (hbad : ¬ a.submitted.Nodup ∨ ∃ i ∈ a.submitted, ∃ v : JobView, mj.jobs[i]? = some v ∧ v.state = .submitted)
    (hvalid : ∀ i ∈ a.submitted, i < mj.jobs.length) :
    (doUpdate a d x).2.2 = .err .assertion ∧ (doUpdate a d x).1 = d := by
  have herr : (forEach submitOne a.submitted
      { cfg := x.cfg, js := { mj with hpcIds := a.hpcIds, batchIdx := a.batchIdx } }).2 = some .assertion := by
    have h1 : (forEach submitOne a.submitted
        { cfg := x.cfg, js := { mj with hpcIds := a.hpcIds, batchIdx := a.batchIdx } }).2 ≠ none := by
      rcases hbad with h | h
      · exact submitLoop_err_of_dup _ _ h
      · exact submitLoop_err_of_submitted _ _ h
    rcases submitLoop_err_kind a.submitted
        { cfg := x.cfg, js := { mj with hpcIds := a.hpcIds, batchIdx := a.batchIdx } } hvalid with h | h
    · exact absurd h h1
    · exact h
  have hu : (applyUpdate a { cfg := x.cfg, js := mj }).2 = some .assertion := by
    unfold applyUpdate
    simp only
    rw [andThen_of_err _ _ _ herr, andThen_of_err _ _ _ herr, andThen_of_err _ _ _ herr, andThen_of_err _ _ _ herr]
    exact herr
  unfold doUpdate checkVersions
  have h0 : checkCfgMismatch x.cfg.version d.cfgVer = false := by
    rw [Bool.eq_false_iff, ne_eq, checkCfgMismatch_iff]; simpa using hv
  have h1 : checkJsMismatch mj.version d.jsVer = false := by
    rw [Bool.eq_false_iff, ne_eq, checkJsMismatch_iff]; simpa using hver
  simp only [h0, Bool.false_eq_true, if_false, hjs, h1, hu]
  exact ⟨trivial, trivial⟩

/-! ## `prepare_for_resubmission` -/

theorem range_count_mem (sel : List Nat) (n : Nat) (hnd : sel.Nodup) (hval : ∀ k ∈ sel, k < n) :
    (List.range' 0 n).countP (fun k => sel.contains k) = sel.length := by
  rw [List.countP_eq_length_filter]
  apply List.Perm.length_eq
  rw [List.perm_ext_iff_of_nodup (List.Nodup.sublist List.filter_sublist (List.nodup_range' (h := Nat.one_pos))) hnd]
  intro k
  simp only [List.mem_filter, List.mem_range'_1, List.contains_iff_mem, Nat.zero_le, true_and, Nat.zero_add]
  exact ⟨fun h => h.2, fun h => ⟨hval k h, h⟩⟩

theorem resubmitLoop_length (sel : List JobId) (bl : List (JobId × List JobId)) :
    ∀ (jobs : List JobView) (i c : Nat), (resubmitLoop sel bl i jobs c).1.length = jobs.length := by
  intro jobs
  induction jobs with
  | nil => intro i c; rfl
  | cons v vs ih =>
    intro i c
    unfold resubmitLoop
    split <;> simp [ih]

theorem resubmitLoop_cons_sel (sel : List JobId) (bl : List (JobId × List JobId)) (v : JobView) (vs : List JobView)
    (i c : Nat) (h : sel.contains i = true) :
    resubmitLoop sel bl i (v :: vs) c =
      ({ v with state := resubmitState, blockedBy := (bl.lookup i).getD [] } :: (resubmitLoop sel bl (i + 1) vs c).1,
       (resubmitLoop sel bl (i + 1) vs c).2) := by
  rw [resubmitLoop]; simp only [h, if_true]

theorem resubmitLoop_cons_unsel (sel : List JobId) (bl : List (JobId × List JobId)) (v : JobView) (vs : List JobView)
    (i c : Nat) (h : sel.contains i = false) :
    resubmitLoop sel bl i (v :: vs) c =
      (v :: (resubmitLoop sel bl (i + 1) vs (if resubmitCounts v.state then resubmitCompletedInc c else c)).1,
       (resubmitLoop sel bl (i + 1) vs (if resubmitCounts v.state then resubmitCompletedInc c else c)).2) := by
  rw [resubmitLoop]; simp only [h, Bool.false_eq_true, if_false]

theorem resubmitLoop_done (sel : List JobId) (bl : List (JobId × List JobId)) :
    ∀ (jobs : List JobView) (i c : Nat),
      (resubmitLoop sel bl i jobs c).2 = c + (resubmitLoop sel bl i jobs c).1.countP isDone := by
  intro jobs
  induction jobs with
  | nil => intro i c; rfl
  | cons v vs ih =>
    intro i c
    cases hc : sel.contains i with
    | true =>
      rw [resubmitLoop_cons_sel _ _ _ _ _ _ hc]
      have hv' : isDone { v with state := resubmitState, blockedBy := (bl.lookup i).getD [] } = false := rfl
      simp only [List.countP_cons, hv', Bool.false_eq_true, if_false, Nat.add_zero]
      exact ih _ _
    | false =>
      rw [resubmitLoop_cons_unsel _ _ _ _ _ _ hc]
      simp only [List.countP_cons]
      rw [ih]
      by_cases hd : v.state = .done
      · have h1 : resubmitCounts v.state = true := by rw [hd]; rfl
        have h2 : isDone v = true := by unfold isDone; rw [hd]; rfl
        simp only [h1, h2, if_true, resubmitCompletedInc]
        omega
      · have h1 : resubmitCounts v.state = false := by
          cases hs : v.state with
          | done => exact absurd hs hd
          | notSubmitted => rfl
          | submitted => rfl
        have h2 : isDone v = false := by
          unfold isDone
          cases hs : v.state with
          | done => exact absurd hs hd
          | notSubmitted => rfl
          | submitted => rfl
        simp only [h1, h2, Bool.false_eq_true, if_false]
        omega

/-- when every never-submitted job is selected, the jobs left alone are exactly the submitted-or-done ones -/
theorem resubmitLoop_subm (sel : List JobId) (bl : List (JobId × List JobId)) :
    ∀ (jobs : List JobView) (i c : Nat),
      (∀ (k : Nat) (v : JobView), jobs[k]? = some v → v.state = .notSubmitted → (i + k) ∈ sel) →
      (resubmitLoop sel bl i jobs c).1.countP isSubm + (List.range' i jobs.length).countP (fun k => sel.contains k)
        = jobs.length := by
  intro jobs
  induction jobs with
  | nil => intro i c _; rfl
  | cons v vs ih =>
    intro i c hall
    have htail : ∀ (k : Nat) (w : JobView), vs[k]? = some w → w.state = .notSubmitted → (i + 1 + k) ∈ sel := by
      intro k w hk hs
      have := hall (k + 1) w (by simpa using hk) hs
      rw [show i + 1 + k = i + (k + 1) by omega]; exact this
    simp only [List.length_cons, List.range'_succ, List.countP_cons]
    cases hc : sel.contains i with
    | true =>
      rw [resubmitLoop_cons_sel _ _ _ _ _ _ hc]
      have hv' : isSubm { v with state := resubmitState, blockedBy := (bl.lookup i).getD [] } = false := rfl
      have := ih (i + 1) c htail
      simp only [List.countP_cons, hv', Bool.false_eq_true, if_false, if_true, Nat.add_zero]
      omega
    | false =>
      rw [resubmitLoop_cons_unsel _ _ _ _ _ _ hc]
      have hns : v.state ≠ .notSubmitted := by
        intro hs
        have := hall 0 v (by simp) hs
        simp only [Nat.add_zero] at this
        rw [← List.contains_iff_mem, hc] at this; cases this
      have hv : isSubm v = true := by
        unfold isSubm
        cases hs : v.state with
        | notSubmitted => exact absurd hs hns
        | submitted => rfl
        | done => rfl
      have := ih (i + 1) (if resubmitCounts v.state then resubmitCompletedInc c else c) htail
      simp only [List.countP_cons, hv, if_true, Bool.false_eq_true, if_false, Nat.add_zero]
      omega

theorem resubmitLoop_blockers (sel : List JobId) (bl : List (JobId × List JobId)) :
    ∀ (jobs : List JobView) (i c : Nat),
      (∀ v ∈ jobs, v.state ≠ .notSubmitted → v.blockedBy = []) →
      ∀ v ∈ (resubmitLoop sel bl i jobs c).1, v.state ≠ .notSubmitted → v.blockedBy = [] := by
  intro jobs
  induction jobs with
  | nil => intro i c _ v hv; cases hv
  | cons w ws ih =>
    intro i c hall v hv hs
    unfold resubmitLoop at hv
    split at hv
    · rcases List.mem_cons.1 hv with e | hv'
      · subst e; exact absurd rfl hs
      · exact ih _ _ (fun u hu => hall u (List.mem_cons_of_mem _ hu)) v hv' hs
    · rcases List.mem_cons.1 hv with e | hv'
      · subst e; exact hall v (List.mem_cons_self ..) hs
      · exact ih _ _ (fun u hu => hall u (List.mem_cons_of_mem _ hu)) v hv' hs

/-- `prepare_for_resubmission` by a handle that has just loaded both files (as `resubmit-jobs` does), on a complete and
    consistent submission, when `jobs_to_resubmit` contains every job that was never submitted: the files are
    consistent again. -/
theorem doPrepareResubmit_status (sel : List JobId) (bl : List (JobId × List JobId)) (d : Disk) (x : Handle)
    (hI : StatusInv d) (hcfg : x.cfg = d.cfg) (hjs : x.js = some d.js) (hcomplete : d.cfg.isComplete = true)
    (hhash : ∀ c : CfgView, x.cfgHash = some (Snap.cfg c) → c = d.cfg)
    (hwf : ∀ j' : JsView, x.cfgHash ≠ some (Snap.js j'))
    (hnd : sel.Nodup) (hval : ∀ k ∈ sel, k < d.js.jobs.length)
    (hall : ∀ (k : Nat) (v : JobView), d.js.jobs[k]? = some v → v.state = .notSubmitted → k ∈ sel) :
    (doPrepareResubmit sel bl d x).2.2 = .ok ∧ StatusInv (doPrepareResubmit sel bl d x).1 ∧
    (doPrepareResubmit sel bl d x).1.cfg.isComplete = false := by
  unfold doPrepareResubmit
  have h0 : resubmitAssert x.cfg.isComplete = true := by rw [resubmitAssert_iff, hcfg]; exact hcomplete
  simp only [h0, if_true, hjs]
  obtain ⟨r1, _, r3, r4, r5⟩ := serializeBoth_result d
    { x with cfg := resubmitCfg x.cfg sel (resubmitLoop sel bl 0 d.js.jobs resubmitCompletedInit).2,
             js := some { d.js with jobs := (resubmitLoop sel bl 0 d.js.jobs resubmitCompletedInit).1 } }
    { d.js with jobs := (resubmitLoop sel bl 0 d.js.jobs resubmitCompletedInit).1 }
    (by show x.cfg.version = d.cfgVer; rw [hcfg]; exact hI.verCfg) hI.verJs hhash hwf
  generalize serializeBoth d _ _ = o at r1 r3 r4 r5
  have hlen := resubmitLoop_length sel bl d.js.jobs 0 resubmitCompletedInit
  have hdone := resubmitLoop_done sel bl d.js.jobs 0 resubmitCompletedInit
  have hsub := resubmitLoop_subm sel bl d.js.jobs 0 resubmitCompletedInit
    (by intro k v hk hs; rw [Nat.zero_add]; exact hall k v hk hs)
  rw [range_count_mem sel _ hnd hval] at hsub
  have hblk := resubmitLoop_blockers sel bl d.js.jobs 0 resubmitCompletedInit hI.blockers
  have hsubmitted : (resubmitSubmitted x.cfg.numJobs sel).toNat =
      (resubmitLoop sel bl 0 d.js.jobs resubmitCompletedInit).1.countP isSubm := by
    unfold resubmitSubmitted
    rw [hcfg, hI.total]
    omega
  refine ⟨r1, ?_, ?_⟩
  · rcases r5 with ⟨c1, c2, c3, _⟩ | ⟨c1, c3, _⟩
    · -- the config was not rewritten because it equals the disk's: impossible, `is_complete` changed
      exfalso
      have := congrArg CfgView.isComplete c2
      simp only [resubmitCfg, resubmitIsComplete] at this
      rw [hcomplete] at this; cases this
    · refine ⟨?_, ?_, ?_, by rw [r3]; exact hblk, by rw [c1, c3], by rw [r3, r4]⟩
      · rw [c1, r3]; show x.cfg.numJobs = _; rw [hlen, hcfg]; exact hI.total
      · rw [c1, r3]; show (resubmitLoop sel bl 0 d.js.jobs resubmitCompletedInit).2 = _
        rw [hdone]; simp [resubmitCompletedInit]
      · rw [c1, r3]; exact hsubmitted
  · rcases r5 with ⟨_, c2, _, _⟩ | ⟨c1, _, _⟩
    · exfalso
      have := congrArg CfgView.isComplete c2
      simp only [resubmitCfg, resubmitIsComplete] at this
      rw [hcomplete] at this; cases this
    · rw [c1]; rfl

end Jade.Cluster
