import JadeModel.Model.Command

/-! Helper lemmas for C19 (the `shlex` state machine, `dirname`, the generated tables). -/

namespace Jade.Command
open Jade.Gen.Command

/-! ### vocabulary of the statements -/

/-- neither whitespace, nor a quote, nor the escape character -/
def isPlain (c : Char) : Bool := !(isShWs c || isQuote c || isEscape c)

/-- a non-empty text without whitespace, quotes and backslashes -/
def safeWord (t : List Char) : Bool := !t.isEmpty && t.all isPlain

/-- words joined by single spaces -/
def joinSp : List (List Char) → List Char
  | [] => []
  | [w] => w
  | w :: ws => w ++ ' ' :: joinSp ws

/-! ### running the machine -/

theorem run_nil (s : Lex) : s.run [] = s := rfl

theorem run_cons (s : Lex) (c : Char) (cs : List Char) : s.run (c :: cs) = (s.step c).run cs := rfl

theorem run_append (s : Lex) (a b : List Char) : s.run (a ++ b) = (s.run a).run b := by
  simp [Lex.run, List.foldl_append]

theorem isPlain_iff (c : Char) :
    isPlain c = true ↔ isShWs c = false ∧ isQuote c = false ∧ isEscape c = false := by
  simp [isPlain, and_assoc]

theorem step_ws (s : Lex) (c : Char) (hm : s.mode = .space ∨ s.mode = .word) (hc : isShWs c = true) :
    s.step c = { s.flush with mode := .space } := by
  rcases hm with h | h <;> simp [Lex.step, h, Lex.stepSpace, Lex.stepWord, hc]

theorem step_plain_space (s : Lex) (c : Char) (hm : s.mode = .space) (hc : isPlain c = true) :
    s.step c = { s with token := [c], mode := .word } := by
  obtain ⟨h1, h2, h3⟩ := (isPlain_iff c).1 hc
  simp [Lex.step, hm, Lex.stepSpace, h1, h2, h3]

theorem step_plain_word (s : Lex) (c : Char) (hm : s.mode = .word) (hc : isPlain c = true) :
    s.step c = { s with token := s.token ++ [c] } := by
  obtain ⟨h1, h2, h3⟩ := (isPlain_iff c).1 hc
  simp [Lex.step, hm, Lex.stepWord, h1, h2, h3]

/-- plain characters extend the current word -/
theorem run_plain_word (t : List Char) (s : Lex) (hm : s.mode = .word)
    (ht : ∀ c ∈ t, isPlain c = true) : s.run t = { s with token := s.token ++ t } := by
  induction t generalizing s with
  | nil => simp [run_nil]
  | cons c cs ih =>
    rw [run_cons, step_plain_word s c hm (ht c (by simp))]
    rw [ih { s with token := s.token ++ [c] } hm (fun d hd => ht d (by simp [hd]))]
    simp

/-- a safe word read between tokens becomes the current word -/
theorem run_safe_space (t : List Char) (s : Lex) (hm : s.mode = .space) (ht : safeWord t = true) :
    s.run t = { s with token := t, mode := .word } := by
  cases t with
  | nil => simp [safeWord] at ht
  | cons c cs =>
    have hall : ∀ d ∈ c :: cs, isPlain d = true := by
      simp only [safeWord, Bool.and_eq_true, List.all_eq_true] at ht
      exact ht.2
    rw [run_cons, step_plain_space s c hm (hall c (by simp))]
    rw [run_plain_word cs { s with token := [c], mode := .word } rfl (fun d hd => hall d (by simp [hd]))]
    simp

theorem finish_ok (s : Lex) (ws : List (List Char)) (h : s.finish = .ok ws) :
    (s.mode = .space ∨ s.mode = .word) ∧ ws = s.flush.out := by
  unfold Lex.finish at h
  split at h
  · next hm => exact ⟨Or.inl hm, by cases h; rfl⟩
  · next hm => exact ⟨Or.inr hm, by cases h; rfl⟩
  · cases h
  · cases h

theorem finish_of_mode (s : Lex) (hm : s.mode = .space ∨ s.mode = .word) :
    s.finish = .ok s.flush.out := by
  rcases hm with h | h <;> simp [Lex.finish, h]

theorem finish_error (s : Lex) (e : Err) (h : s.finish = .error e) : e = .valueError := by
  unfold Lex.finish at h
  split at h <;> cases h <;> rfl

/-! ### tokens already emitted do not influence the rest of the run -/

/-- the same lexer with `o` put in front of the emitted tokens -/
def Lex.addOut (o : List (List Char)) (s : Lex) : Lex := { s with out := o ++ s.out }

theorem step_addOut (o : List (List Char)) (s : Lex) (c : Char) :
    (s.addOut o).step c = (s.step c).addOut o := by
  obtain ⟨m, t, q, out⟩ := s
  cases m with
  | space =>
    simp only [Lex.step, Lex.addOut, Lex.stepSpace, Lex.flush]
    split
    · split <;> simp_all [List.append_assoc]
    · split
      · rfl
      · split <;> rfl
  | word =>
    simp only [Lex.step, Lex.addOut, Lex.stepWord, Lex.flush]
    split
    · split <;> simp_all [List.append_assoc]
    · split
      · rfl
      · split <;> rfl
  | quote q' =>
    simp only [Lex.step, Lex.addOut, Lex.stepQuote]
    split
    · rfl
    · split <;> rfl
  | escape back =>
    cases back with
    | none => simp [Lex.step, Lex.addOut, Lex.stepEscape]
    | some q' =>
      simp only [Lex.step, Lex.addOut, Lex.stepEscape]
      split <;> rfl

theorem run_addOut (o : List (List Char)) (cs : List Char) (s : Lex) :
    (s.addOut o).run cs = (s.run cs).addOut o := by
  induction cs generalizing s with
  | nil => rfl
  | cons c cs ih => rw [run_cons, run_cons, step_addOut, ih]

theorem finish_addOut (o : List (List Char)) (s : Lex) :
    (s.addOut o).finish = s.finish.map (o ++ ·) := by
  obtain ⟨m, t, q, out⟩ := s
  cases m <;> simp [Lex.finish, Lex.addOut, Lex.flush, Except.map]
  all_goals split <;> simp_all

/-- after a complete command and one whitespace character the lexer is between tokens, holding
    exactly the command's words -/
theorem run_then_ws (a : List Char) (xs : List (List Char)) (c : Char) (h : shSplit a = .ok xs)
    (hc : isShWs c = true) : (Lex.init.run a).step c = Lex.init.addOut xs := by
  obtain ⟨hm, hx⟩ := finish_ok _ _ h
  rw [step_ws _ _ hm hc, hx]
  simp [Lex.addOut, Lex.init, Lex.flush]

/-! ### leading / trailing whitespace -/

theorem run_ws_init (pad : List Char) (h : ∀ c ∈ pad, isShWs c = true) : Lex.init.run pad = Lex.init := by
  induction pad with
  | nil => rfl
  | cons c cs ih =>
    rw [run_cons, step_ws _ _ (Or.inl rfl) (h c (by simp))]
    have : ({ Lex.init.flush with mode := .space } : Lex) = Lex.init := by decide
    rw [this, ih (fun d hd => h d (by simp [hd]))]

theorem finish_run_ws (pad : List Char) (s : Lex) (hm : s.mode = .space ∨ s.mode = .word)
    (h : ∀ c ∈ pad, isShWs c = true) : (s.run pad).finish = s.finish := by
  induction pad generalizing s with
  | nil => rfl
  | cons c cs ih =>
    rw [run_cons, step_ws _ _ hm (h c (by simp)),
      ih { s.flush with mode := .space } (Or.inl rfl) (fun d hd => h d (by simp [hd])),
      finish_of_mode s hm]
    simp [Lex.finish, Lex.flush]

/-! ### quoting -/

/-- inside single quotes everything up to the next single quote is literal -/
theorem run_squote_body (w : List Char) (s : Lex) (hm : s.mode = .quote '\'')
    (hw : ∀ c ∈ w, c ≠ '\'') :
    s.run (w ++ ['\'']) = { s with token := s.token ++ w, quoted := true, mode := .word } := by
  induction w generalizing s with
  | nil => simp [Lex.run, Lex.step, hm, Lex.stepQuote]
  | cons c cs ih =>
    have hc : c ≠ '\'' := hw c (by simp)
    have hstep : s.step c = { s with quoted := true, token := s.token ++ [c] } := by
      simp [Lex.step, hm, Lex.stepQuote, hc, isEscapedQuote]
    rw [List.cons_append, run_cons, hstep,
      ih { s with quoted := true, token := s.token ++ [c] } hm (fun d hd => hw d (by simp [hd]))]
    simp

/-- inside double quotes everything except `"` and `\` is literal -/
theorem run_dquote_body (w : List Char) (s : Lex) (hm : s.mode = .quote '"')
    (hw : ∀ c ∈ w, c ≠ '"' ∧ c ≠ '\\') :
    s.run (w ++ ['"']) = { s with token := s.token ++ w, quoted := true, mode := .word } := by
  induction w generalizing s with
  | nil => simp [Lex.run, Lex.step, hm, Lex.stepQuote]
  | cons c cs ih =>
    have hc := hw c (by simp)
    have hstep : s.step c = { s with quoted := true, token := s.token ++ [c] } := by
      simp [Lex.step, hm, Lex.stepQuote, hc.1, isEscape, hc.2]
    rw [List.cons_append, run_cons, hstep,
      ih { s with quoted := true, token := s.token ++ [c] } hm (fun d hd => hw d (by simp [hd]))]
    simp

/-- the universal quoting function (what `shlex.quote` does for a word that needs quoting):
    wrap in single quotes, write each single quote as `'"'"'` -/
def shQuoteBody : List Char → List Char
  | [] => []
  | c :: cs => (if c = '\'' then ['\'', '"', '\'', '"', '\''] else [c]) ++ shQuoteBody cs

def shQuote (w : List Char) : List Char := '\'' :: shQuoteBody w ++ ['\'']

theorem run_shQuote_body (w : List Char) (s : Lex) (hm : s.mode = .quote '\'') :
    s.run (shQuoteBody w ++ ['\'']) = { s with token := s.token ++ w, quoted := true, mode := .word } := by
  induction w generalizing s with
  | nil => simp [shQuoteBody, Lex.run, Lex.step, hm, Lex.stepQuote]
  | cons c cs ih =>
    by_cases hc : c = '\''
    · subst hc
      have h5 : s.run ['\'', '"', '\'', '"', '\''] =
          { s with quoted := true, token := s.token ++ ['\''], mode := .quote '\'' } := by
        simp [Lex.run, Lex.step, hm, Lex.stepQuote, Lex.stepWord, isShWs, isQuote, isEscape]
      simp only [shQuoteBody, if_true, List.append_assoc]
      rw [run_append, h5, ih { s with quoted := true, token := s.token ++ ['\''], mode := .quote '\'' } rfl]
      simp
    · have hstep : s.step c = { s with quoted := true, token := s.token ++ [c] } := by
        simp [Lex.step, hm, Lex.stepQuote, hc, isEscapedQuote]
      simp only [shQuoteBody, if_neg hc, List.cons_append, List.nil_append]
      rw [run_cons, hstep, ih { s with quoted := true, token := s.token ++ [c] } hm]
      simp

/-! ### safe words, stdio paths -/

theorem safeWord_append (a b : List Char) (ha : safeWord a = true) (hb : ∀ c ∈ b, isPlain c = true) :
    safeWord (a ++ b) = true := by
  simp only [safeWord, Bool.and_eq_true, List.all_eq_true, List.mem_append] at ha ⊢
  refine ⟨?_, ?_⟩
  · cases a with
    | nil => simp at ha
    | cons x xs => simp
  · rintro c (hc | hc)
    · exact ha.2 c hc
    · exact hb c hc

theorem stdio_path (out name ext : String) :
    pathStr [out, "job-stdio", name ++ ext] = out ++ "/job-stdio/" ++ name ++ ext := by
  apply String.toList_injective
  have : "/job-stdio/".toList = "/".toList ++ ("job-stdio".toList ++ "/".toList) := by decide
  simp only [pathStr, String.toList_append, this, List.append_assoc]

/-! ### `dirname(join(out, name))` -/

theorem dropWhile_append_of_all {α} (p : α → Bool) (a b : List α) (h : ∀ x ∈ a, p x = true) :
    (a ++ b).dropWhile p = b.dropWhile p := by
  induction a with
  | nil => rfl
  | cons x xs ih =>
    have hx : p x = true := h x (by simp)
    simp [hx, ih (fun y hy => h y (by simp [hy]))]

/-- a directory text that does not end in a slash -/
def noTrailingSlash (out : List Char) : Bool := !out.isEmpty && out.getLast? != some '/'

theorem dirname_join (out name : List Char) (ho : noTrailingSlash out = true)
    (hn : ∀ c ∈ name, c ≠ '/') : dirname (pathJoin out name) = out := by
  have hne : out ≠ [] := by
    intro h; simp [noTrailingSlash, h] at ho
  have hlast : out.getLast? ≠ some '/' := by
    intro h; simp [noTrailingSlash, h] at ho
  have hhead : name.head? ≠ some '/' := by
    cases name with
    | nil => simp
    | cons c cs => simpa using hn c (by simp)
  have hj : pathJoin out name = out ++ '/' :: name := by
    simp [pathJoin, hhead, hne, hlast]
  -- the last character of `out`
  obtain ⟨ini, l, rfl⟩ : ∃ ini l, out = ini ++ [l] := by
    rcases List.eq_nil_or_concat out with h | ⟨ini, l, h⟩
    · exact absurd h hne
    · exact ⟨ini, l, by simpa using h⟩
  have hl : l ≠ '/' := by simpa using hlast
  have hup : uptoLastSlash (ini ++ [l] ++ '/' :: name) = ini ++ [l] ++ ['/'] := by
    unfold uptoLastSlash
    have : (ini ++ [l] ++ '/' :: name).reverse = name.reverse ++ ('/' :: (ini ++ [l]).reverse) := by simp
    rw [this, dropWhile_append_of_all _ _ _ (by intro x hx; simpa using hn x (by simpa using hx))]
    simp
  rw [hj, dirname, hup]
  have hnotall : (ini ++ [l] ++ ['/']).all (· == '/') = false := by
    simp [List.all_append, hl]
  simp only [hnotall, and_true]
  rw [if_pos (by simp)]
  unfold rstripSlash
  simp [hl]

end Jade.Command
