import JadeModel.Model.Config
import Mathlib.Data.String.Basic

/-!
Helper lemmas for C17 (`Props/C17.lean`).  One lemma per small model function; the
characterisations of the *generated* predicates are each in one lemma (`*_iff`), everything else is
proved from those.
-/

namespace Jade.Config
open Jade.Gen.Config

/-! ## generated predicates, in plain terms -/

theorem popTest_iff (a b : J) : popTest a b = true ↔ a = b := by simp [popTest]
theorem nameUnset_iff (n : Option String) : nameUnset n = true ↔ n = none := by simp [nameUnset]
theorem idMissing_iff (i : Option Nat) : idMissing i = true ↔ i = none := by simp [idMissing]
theorem commandRejected_iff (s : String) : commandRejected s = true ↔ s = "" := by simp [commandRejected]
theorem nameTaken_iff (n : String) (l : List String) : nameTaken n l = true ↔ n ∈ l := by simp [nameTaken]
theorem groupListedTwice_iff (n : String) (l : List String) : groupListedTwice n l = true ↔ n ∈ l := by
  simp [groupListedTwice]
theorem hpcTypeDiffers_iff (a b : String) : hpcTypeDiffers a b = true ↔ a ≠ b := by simp [hpcTypeDiffers]
theorem paramDiffers_iff (a b : Option J) : paramDiffers a b = true ↔ a ≠ b := by simp [paramDiffers]
theorem jobGroupInvalid_iff (g : String) (l : List String) : jobGroupInvalid g l = true ↔ g ∉ l := by
  simp [jobGroupInvalid]
theorem estimateGuard_iff (n : Nat) : estimateGuard n = true ↔ n = 0 := by simp [estimateGuard]
theorem estimateMissing_iff (a b : String) (e : Option Nat) :
    estimateMissing a b e = true ↔ a = b ∧ e = none := by simp [estimateMissing]
theorem dependenciesBad_iff (blocking names : List String) :
    dependenciesBad (missingBlockers blocking names) = true ↔ ∃ b ∈ blocking, b ∉ names := by
  simp [dependenciesBad, missingBlockers, diffL, List.filter_eq_nil_iff]
theorem hasEstimate_iff (e : Option Nat) : hasEstimate e = true ↔ e.isSome = true := by simp [hasEstimate]
theorem runtimeTooLong_iff (m w : Nat) : runtimeTooLong m w = true ↔ w < 60 * m := by
  simp [runtimeTooLong]
theorem outputDirForced_iff (m : Bool) : outputDirForced m false = true ↔ m = true := by
  simp [outputDirForced]

/-! ## canonical string sets -/

theorem mem_insertS (x z : String) (l : List String) : z ∈ insertS x l ↔ z = x ∨ z ∈ l := by
  induction l with
  | nil => simp [insertS]
  | cons y ys ih =>
    simp only [insertS]
    split
    · simp
    · split
      · next h => subst h; simp
      · simp [ih]; tauto

theorem mem_canonSet (z : String) (l : List String) : z ∈ canonSet l ↔ z ∈ l := by
  induction l with
  | nil => simp [canonSet]
  | cons x xs ih =>
    have : canonSet (x :: xs) = insertS x (canonSet xs) := rfl
    rw [this, mem_insertS, ih]; simp

theorem pairwise_insertS (x : String) (l : List String) (h : l.Pairwise (· < ·)) :
    (insertS x l).Pairwise (· < ·) := by
  induction l with
  | nil => simp [insertS]
  | cons y ys ih =>
    have hy := List.pairwise_cons.1 h
    simp only [insertS]
    split
    · next hxy =>
      refine List.pairwise_cons.2 ⟨?_, h⟩
      intro z hz
      rcases List.mem_cons.1 hz with rfl | hz
      · exact hxy
      · exact lt_trans hxy (hy.1 z hz)
    · next hxy =>
      split
      · exact h
      · next hne =>
        refine List.pairwise_cons.2 ⟨?_, ih hy.2⟩
        intro z hz
        rcases (mem_insertS x z ys).1 hz with rfl | hz
        · exact lt_of_le_of_ne (not_lt.1 hxy) (Ne.symm hne)
        · exact hy.1 z hz

theorem pairwise_canonSet (l : List String) : (canonSet l).Pairwise (· < ·) := by
  induction l with
  | nil => simp [canonSet]
  | cons x xs ih => exact pairwise_insertS x _ ih

theorem sortedS_canonSet (l : List String) : sortedS (canonSet l) = true := by
  unfold sortedS; exact decide_eq_true (pairwise_canonSet l)

theorem canonSet_of_pairwise (l : List String) (h : l.Pairwise (· < ·)) : canonSet l = l := by
  induction l with
  | nil => rfl
  | cons x xs ih =>
    have hx := List.pairwise_cons.1 h
    have : canonSet (x :: xs) = insertS x (canonSet xs) := rfl
    rw [this, ih hx.2]
    cases xs with
    | nil => rfl
    | cons y ys => simp [insertS, hx.1 y (by simp)]

theorem canonSet_of_sorted (l : List String) (h : sortedS l = true) : canonSet l = l :=
  canonSet_of_pairwise l (of_decide_eq_true h)

theorem canonSet_idem (l : List String) : canonSet (canonSet l) = canonSet l :=
  canonSet_of_pairwise _ (pairwise_canonSet l)


/-! ## typed readers invert the renderers -/

@[simp] theorem asOptStr_optStrJ (x : Option String) : asOptStr (optStrJ x) = .ok x := by
  cases x <;> rfl
@[simp] theorem asOptNat_optNatJ (x : Option Nat) : asOptNat (optNatJ x) = .ok x := by
  cases x <;> rfl
@[simp] theorem asNat_natJ (n : Nat) : asNat (natJ n) = .ok n := rfl

theorem blockerStrs_str (l : List String) : blockerStrs (l.map J.str) = .ok l := by
  induction l with
  | nil => rfl
  | cons x xs ih => simp [blockerStrs, blockerStr, ih]

theorem natJ_inj (a b : Nat) : natJ a = natJ b ↔ a = b := by
  simp only [natJ, J.num.injEq, Int.ofNat_eq_natCast]; omega

theorem optNatJ_inj (a b : Option Nat) : optNatJ a = optNatJ b ↔ a = b := by
  cases a <;> cases b <;> simp [optNatJ, natJ_inj] <;> simp [natJ]

/-! ## one job: `dict()` then `GenericCommandParametersModel(**data)` -/

theorem lookup_filterMap {β γ : Type} (f : String × β → Option (String × γ))
    (hf : ∀ p q, f p = some q → q.1 = p.1) (l : List (String × β))
    (hn : (l.map Prod.fst).Nodup) (k : String) :
    (l.filterMap f).lookup k = (l.lookup k).bind (fun d => (f (k, d)).map Prod.snd) := by
  induction l with
  | nil => simp
  | cons p t ih =>
    obtain ⟨k', d'⟩ := p
    rw [List.map_cons, List.nodup_cons] at hn
    obtain ⟨hk', hnt⟩ := hn
    have ih := ih hnt
    by_cases hk : k = k'
    · subst hk
      have hnone : t.lookup k = none := by
        rw [List.lookup_eq_none_iff]
        intro p hp
        simp only [bne_iff_ne, ne_eq]
        intro hkp
        exact hk' (List.mem_map.2 ⟨p, hp, hkp.symm⟩)
      rw [List.filterMap_cons]
      cases hfe : f (k, d') with
      | none => simp [ih, hnone, hfe]
      | some q =>
        have := hf _ _ hfe
        obtain ⟨qk, qv⟩ := q
        simp only at this
        subst this
        simp [hfe]
    · have hkb : (k == k') = false := by simpa using hk
      rw [List.filterMap_cons]
      cases hfe : f (k', d') with
      | none => simp [List.lookup_cons, hkb, ih]
      | some q =>
        have := hf _ _ hfe
        obtain ⟨qk, qv⟩ := q
        simp only at this
        subst this
        simp [List.lookup_cons, hkb, ih]
theorem encodeField_key (j : Job) (p : String × PyVal) (q : String × J)
    (h : encodeField j p = some q) : q.1 = p.1 := by
  unfold encodeField at h
  split at h
  · cases h
  · split at h
    · cases h
    · cases h; rfl

theorem jobFields_nodup : (jobFields.map Prod.fst).Nodup := by decide

theorem popped_default (k : String) (v : J) (d : PyVal) (h : popped k v d = true) :
    pyValJ d = some v := by
  unfold popped at h
  simp only [Bool.and_eq_true] at h
  obtain ⟨-, h⟩ := h
  split at h
  · next dj hd => rw [hd, (popTest_iff v dj).1 h]
  · cases h

/-- absent-because-default or present: either way the loader sees the stored value -/
theorem field_roundtrip (j : Job) (k : String) (d : PyVal) (v : J)
    (hd : jobFields.lookup k = some d) (hv : j.fieldValue k = some v) :
    fieldOrDefault (jobFields.filterMap (encodeField j)) k = .ok v := by
  unfold fieldOrDefault
  rw [lookup_filterMap _ (encodeField_key j) _ jobFields_nodup, hd]
  simp only [Option.bind_some, encodeField, hv]
  by_cases hp : popped k v d = true
  · simp [hp, popped_default k v d hp]
  · simp [hp]

theorem encodeJob_keys_known (j : Job) :
    (jobFields.filterMap (encodeField j)).any (fun kv => !jobFieldNames.contains kv.1) = false := by
  rw [List.any_eq_false]
  intro kv hkv
  obtain ⟨p, hp, he⟩ := List.mem_filterMap.1 hkv
  have hk := encodeField_key j p kv he
  have hm : kv.1 ∈ jobFieldNames := by
    rw [hk]; exact List.mem_map.2 ⟨p, hp, rfl⟩
  simp [hm]

theorem decodeRaw_encode (j : Job) :
    decodeRaw (jobFields.filterMap (encodeField j)) = .ok j := by
  have F := fun k d v hd hv => field_roundtrip j k d v hd hv
  have h1 := F "name" .none (optStrJ j.name?) (by decide) (by simp [Job.fieldValue])
  have h2 := F "use_multi_node_manager" (.bool false) (.bool j.useMultiNode) (by decide) (by simp [Job.fieldValue])
  have h3 := F "spark_config" .none .null (by decide) (by simp [Job.fieldValue])
  have h4 := F "command" .required (.str j.command) (by decide) (by simp [Job.fieldValue])
  have h5 := F "blocked_by" .emptySet (.arr (j.blockedBy.map .str)) (by decide) (by simp [Job.fieldValue])
  have h6 := F "cancel_on_blocking_job_failure" (.bool false) (.bool j.cancelFlag) (by decide) (by simp [Job.fieldValue])
  have h7 := F "estimated_run_minutes" .none (optNatJ j.estMinutes) (by decide) (by simp [Job.fieldValue])
  have h8 := F "submission_group" (.str "default") (.str j.group) (by decide) (by simp [Job.fieldValue])
  have h9 := F "append_job_name" (.bool false) (.bool j.appendJobName) (by decide) (by simp [Job.fieldValue])
  have h10 := F "append_output_dir" (.bool false) (.bool j.appendOutputDir) (by decide) (by simp [Job.fieldValue])
  have h11 := F "ext" .emptyDict (.obj j.ext) (by decide) (by simp [Job.fieldValue])
  have h12 := F "job_id" .none (optNatJ j.jobId) (by decide) (by simp [Job.fieldValue])
  have h13 := F "extension" (.str "generic_command") (.str extensionName) (by decide) (by simp [Job.fieldValue])
  unfold decodeRaw
  rw [encodeJob_keys_known j]
  simp [h1, h2, h3, h4, h5, h6, h7, h8, h9, h10, h11, h12, h13,
    asBool, asStr, asObj, asBlockers, blockerStrs_str, bind, Except.bind, pure, Except.pure]

theorem lookup_encode (j : Job) (k : String) (d : PyVal) (v : J)
    (hd : jobFields.lookup k = some d) (hv : j.fieldValue k = some v) :
    (jobFields.filterMap (encodeField j)).lookup k = if popped k v d then none else some v := by
  rw [lookup_filterMap _ (encodeField_key j) _ jobFields_nodup, hd]
  simp only [Option.bind_some, encodeField, hv]
  split <;> rfl

theorem normaliseJob_of_normal (b : Bool) (j : Job) (h : NormalJob j) : normaliseJob b j = j := by
  obtain ⟨hs, ha⟩ := h
  unfold normaliseJob
  rw [canonSet_of_sorted _ hs]
  by_cases hf : outputDirForced j.useMultiNode false = true
  · have := ha hf
    cases j
    simp_all
  · simp [hf]

theorem normaliseJob_normal (b : Bool) (j : Job) : NormalJob (normaliseJob b j) := by
  refine ⟨sortedS_canonSet _, ?_⟩
  intro hf
  simp only [normaliseJob] at hf ⊢
  have hv : validateAll = true := by decide
  simp [hv, hf]

theorem decodeFields_encode (j : Job) (h : NormalJob j) :
    decodeFields (jobFields.filterMap (encodeField j)) = .ok j := by
  unfold decodeFields
  rw [decodeRaw_encode]
  simp [normaliseJob_of_normal _ j h]

theorem decodeFields_normal (kvs : Obj) (j : Job) (h : decodeFields kvs = .ok j) : NormalJob j := by
  unfold decodeFields at h
  split at h
  · cases h
  · cases h; exact normaliseJob_normal _ _

theorem decodeJob_encode (j : Job) (h : NormalJob j) : decodeJob (encodeJob j) = .ok j := by
  have hl := lookup_encode j "extension" (.str "generic_command") (.str extensionName) (by decide)
    (by simp [Job.fieldValue])
  have hp : popped "extension" (.str extensionName) (.str "generic_command") = false := by
    simp [popped, poppedFields]
  rw [hp] at hl
  simp [decodeJob, encodeJob, hl, decodeFields_encode j h]

theorem decodeJob_normal (t : J) (j : Job) (h : decodeJob t = .ok j) : NormalJob j := by
  unfold decodeJob at h
  split at h
  · split at h
    · cases h
    · split at h
      · exact decodeFields_normal _ _ h
      · cases h
  · cases h

/-! ## `add_job` -/

/-- the invariant of the container relative to the names stored before -/
def StoredRel (names : List String) (jobs : List Job) : Prop :=
  (∀ j ∈ jobs, j.jobId.isSome = true ∧ j.commandProp ≠ "") ∧ (jobs.map Job.name).Nodup ∧
    ∀ j ∈ jobs, j.name ∉ names

theorem storedRel_nil (jobs : List Job) : StoredRel [] jobs ↔ Stored jobs := by
  simp [StoredRel, Stored]

theorem assignId_of_some (j : Job) (n : Nat) (h : j.jobId.isSome = true) : assignId j n = (j, n) := by
  unfold assignId
  have : idMissing j.jobId = false := by
    cases hi : idMissing j.jobId
    · rfl
    · rw [(idMissing_iff _).1 hi] at h; cases h
  simp [this]

theorem assignId_isSome (j : Job) (n : Nat) : (assignId j n).1.jobId.isSome = true := by
  unfold assignId
  split
  · rfl
  · next h =>
    cases hj : j.jobId with
    | none => exact absurd ((idMissing_iff _).2 hj) h
    | some i => rfl

theorem assignId_normal (j : Job) (n : Nat) (h : NormalJob j) : NormalJob (assignId j n).1 := by
  unfold assignId
  split
  · exact h
  · exact h

theorem admitJob_ok_iff (j : Job) (names : List String) (n : Nat) (r : Job × Nat) :
    admitJob j names n = .ok r ↔
      r = assignId j n ∧ (assignId j n).1.commandProp ≠ "" ∧ (assignId j n).1.name ∉ names := by
  unfold admitJob
  generalize assignId j n = a
  obtain ⟨j', n'⟩ := a
  simp only
  by_cases hc : commandRejected j'.commandProp = true
  · have := (commandRejected_iff _).1 hc
    rw [if_pos hc]
    simp [this]
  · have hc' : j'.commandProp ≠ "" := fun h => hc ((commandRejected_iff _).2 h)
    by_cases ht : nameTaken j'.name names = true
    · have := (nameTaken_iff _ _).1 ht
      simp [hc, ht, this]
    · have ht' : j'.name ∉ names := fun h => ht ((nameTaken_iff _ _).2 h)
      simp [hc, ht, hc', ht', eq_comm]

theorem admitJob_error (j : Job) (names : List String) (n : Nat) (e : Rej)
    (h : admitJob j names n = .error e) :
    (e = .invalid .emptyCommand ∧ (assignId j n).1.commandProp = "") ∨
    (e = .invalid .dupName ∧ (assignId j n).1.commandProp ≠ "" ∧ (assignId j n).1.name ∈ names) := by
  unfold admitJob at h
  generalize assignId j n = a at h ⊢
  obtain ⟨j', n'⟩ := a
  simp only at h ⊢
  split at h
  · next hc => cases h; exact Or.inl ⟨rfl, (commandRejected_iff _).1 hc⟩
  · next hc =>
    split at h
    · next ht =>
      cases h
      exact Or.inr ⟨rfl, fun hh => hc ((commandRejected_iff _).2 hh), (nameTaken_iff _ _).1 ht⟩
    · cases h

theorem loadJobs_ok (ts : List J) (names : List String) (n : Nat) (js : List Job)
    (h : loadJobs ts names n = .ok js) : StoredRel names js ∧ ∀ j ∈ js, NormalJob j := by
  induction ts generalizing names n js with
  | nil => cases h; simp [StoredRel]
  | cons t rest ih =>
    simp only [loadJobs] at h
    split at h
    · cases h
    · next j hj =>
      split at h
      · cases h
      · next j' n' ha =>
        split at h
        · cases h
        · next js' hl =>
          cases h
          obtain ⟨hr, hc, hn⟩ := (admitJob_ok_iff _ _ _ _).1 ha
          have hj' : j' = (assignId j n).1 := by rw [← hr]
          obtain ⟨⟨h1, h2, h3⟩, h4⟩ := ih _ _ _ hl
          refine ⟨⟨?_, ?_, ?_⟩, ?_⟩
          · intro x hx
            rcases List.mem_cons.1 hx with rfl | hx
            · rw [hj']; exact ⟨assignId_isSome _ _, hc⟩
            · exact h1 x hx
          · rw [List.map_cons, List.nodup_cons]
            refine ⟨?_, h2⟩
            intro hm
            obtain ⟨x, hx, hxe⟩ := List.mem_map.1 hm
            exact h3 x hx (by rw [hxe]; simp)
          · intro x hx
            rcases List.mem_cons.1 hx with rfl | hx
            · rw [hj']; exact hn
            · intro hm; exact h3 x hx (List.mem_cons_of_mem _ hm)
          · intro x hx
            rcases List.mem_cons.1 hx with rfl | hx
            · rw [hj']; exact assignId_normal _ _ (decodeJob_normal _ _ hj)
            · exact h4 x hx

theorem loadJobs_encode (js : List Job) (names : List String) (n : Nat)
    (hs : StoredRel names js) (hn : ∀ j ∈ js, NormalJob j) :
    loadJobs (js.map encodeJob) names n = .ok js := by
  induction js generalizing names with
  | nil => rfl
  | cons j rest ih =>
    obtain ⟨h1, h2, h3⟩ := hs
    rw [List.map_cons, List.nodup_cons] at h2
    have hj := h1 j (by simp)
    have ha : admitJob j names n = .ok (j, n) := by
      rw [admitJob_ok_iff, assignId_of_some j n hj.1]
      exact ⟨rfl, hj.2, h3 j (by simp)⟩
    have hrest : StoredRel (j.name :: names) rest := by
      refine ⟨fun x hx => h1 x (by simp [hx]), h2.2, ?_⟩
      intro x hx hm
      rcases List.mem_cons.1 hm with hm | hm
      · exact h2.1 (List.mem_map.2 ⟨x, hx, hm⟩)
      · exact h3 x (by simp [hx]) hm
    simp only [List.map_cons, loadJobs, decodeJob_encode j (hn j (by simp)), ha,
      ih _ hrest (fun x hx => hn x (by simp [hx]))]

theorem addJobs_ok_iff (js : List Job) (names : List String) (n : Nat) (out : List Job) :
    addJobs js names n = .ok out ↔ out = withIds js n ∧ StoredRel names (withIds js n) := by
  induction js generalizing names n out with
  | nil =>
    simp only [addJobs, withIds, StoredRel]
    constructor
    · intro h; cases h; simp
    · rintro ⟨rfl, -⟩; rfl
  | cons j rest ih =>
    simp only [addJobs, withIds]
    constructor
    · intro h
      split at h
      · cases h
      · next j' n' ha =>
        split at h
        · cases h
        · next js' hl =>
          cases h
          obtain ⟨hr, hc, hn⟩ := (admitJob_ok_iff _ _ _ _).1 ha
          have hj' : j' = (assignId j n).1 := by rw [← hr]
          have hn' : n' = (assignId j n).2 := by rw [← hr]
          subst hj' hn'
          obtain ⟨he, h1, h2, h3⟩ := (ih _ _ _).1 hl
          subst he
          refine ⟨rfl, ?_, ?_, ?_⟩
          · intro x hx
            rcases List.mem_cons.1 hx with rfl | hx
            · exact ⟨assignId_isSome _ _, hc⟩
            · exact h1 x hx
          · rw [List.map_cons, List.nodup_cons]
            refine ⟨?_, h2⟩
            intro hm
            obtain ⟨x, hx, hxe⟩ := List.mem_map.1 hm
            exact h3 x hx (by rw [hxe]; simp)
          · intro x hx
            rcases List.mem_cons.1 hx with rfl | hx
            · exact hn
            · intro hm; exact h3 x hx (List.mem_cons_of_mem _ hm)
    · rintro ⟨rfl, h1, h2, h3⟩
      rw [List.map_cons, List.nodup_cons] at h2
      have hj := h1 (assignId j n).1 (by simp)
      have ha : admitJob j names n = .ok (assignId j n) := by
        rw [admitJob_ok_iff]
        exact ⟨rfl, hj.2, h3 _ (by simp)⟩
      have hrest : StoredRel ((assignId j n).1.name :: names) (withIds rest (assignId j n).2) := by
        refine ⟨fun x hx => h1 x (by simp [hx]), h2.2, ?_⟩
        intro x hx hm
        rcases List.mem_cons.1 hm with hm | hm
        · exact h2.1 (List.mem_map.2 ⟨x, hx, hm⟩)
        · exact h3 x (by simp [hx]) hm
      have := (ih ((assignId j n).1.name :: names) (assignId j n).2 _).2 ⟨rfl, hrest⟩
      rw [ha]
      simp only [this]

theorem withIds_of_stored (js : List Job) (n : Nat) (h : ∀ j ∈ js, j.jobId.isSome = true) :
    withIds js n = js := by
  induction js generalizing n with
  | nil => rfl
  | cons j rest ih =>
    simp only [withIds, assignId_of_some j n (h j (by simp))]
    rw [ih _ (fun x hx => h x (by simp [hx]))]

theorem addJobs_error (js : List Job) (names : List String) (n : Nat) (e : Rej)
    (h : addJobs js names n = .error e) : e = .invalid .emptyCommand ∨ e = .invalid .dupName := by
  induction js generalizing names n with
  | nil => cases h
  | cons j rest ih =>
    simp only [addJobs] at h
    split at h
    · next e' ha =>
      cases h
      rcases admitJob_error _ _ _ _ ha with ⟨h, -⟩ | ⟨h, -⟩
      · exact Or.inl h
      · exact Or.inr h
    · split at h
      · next e' hl => cases h; exact ih _ _ hl
      · cases h

/-! ## groups and the whole configuration -/

theorem decodeGroup_encode (g : Group) : decodeGroup (encodeGroup g) = .ok g := by
  obtain ⟨name, hpc, mn, np, pn, pi, ta, tb, dr⟩ := g
  cases hpc <;>
    simp [decodeGroup, encodeGroup, decodeHpc, paramKeys, Group.param, asObj, asStr, asBool, getD,
      Hpc.type, Hpc.walltime?, bind, Except.bind, pure, Except.pure, List.lookup]

theorem decodeGroups_encode (gs : List Group) : decodeGroups (gs.map encodeGroup) = .ok gs := by
  induction gs with
  | nil => rfl
  | cons g rest ih => simp [decodeGroups, decodeGroup_encode, ih]

/-! ## the whole file -/

theorem decodeHeader_encode (c : Config) (x : J) :
    decodeHeader (headerEntries c ++ [(serializeJobsKey, x)]) =
      .ok (c.groups, c.setup, c.teardown, c.nodeSetup, c.nodeTeardown) := by
  simp [headerEntries, serializeKeys, Config.value, decodeHeader, List.lookup, getD,
    decodeGroups_encode, bind, Except.bind, pure, Except.pure, serializeJobsKey]

theorem decodeJobsField_encode (c : Config) (x : J) :
    decodeJobsField (headerEntries c ++ [(serializeJobsKey, x)]) =
      (match x with
       | .arr ts => loadJobs ts [] firstJobId
       | _ => bad) := by
  simp [headerEntries, serializeKeys, Config.value, decodeJobsField, List.lookup, serializeJobsKey]
  cases x <;> rfl

theorem decodeConfig_encode (c : Config) (h : Normal c) : decodeConfig (encodeConfig c) = .ok c := by
  obtain ⟨hs, hn⟩ := h
  unfold decodeConfig encodeConfig
  simp only [decodeHeader_encode, decodeJobsField_encode,
    loadJobs_encode c.jobs [] firstJobId ((storedRel_nil _).2 hs) hn]

theorem serializeJobs_stored (js : List Job) (h : ∀ j ∈ js, j.jobId.isSome = true) :
    serializeJobs js = .ok (js.map encodeJob) := by
  induction js with
  | nil => rfl
  | cons j rest ih =>
    have hj := h j (by simp)
    have : j.jobId.isNone = false := by cases hi : j.jobId <;> simp_all
    simp [serializeJobs, serializeJob, this, ih (fun x hx => h x (by simp [hx]))]

theorem serialize_stored (c : Config) (h : Stored c.jobs) : serialize c = .ok (encodeConfig c) := by
  unfold serialize encodeConfig
  rw [serializeJobs_stored _ (fun j hj => (h.1 j hj).1)]

theorem decodeConfig_normal (t : J) (c : Config) (h : decodeConfig t = .ok c) : Normal c := by
  unfold decodeConfig at h
  split at h
  · next kvs =>
    split at h
    · cases h
    · split at h
      · cases h
      · next jobs hj =>
        cases h
        simp only [Normal]
        unfold decodeJobsField at hj
        split at hj
        · cases hj; simp [Stored]
        · have := loadJobs_ok _ _ _ _ hj
          exact ⟨(storedRel_nil _).1 this.1, this.2⟩
        · cases hj
  · cases h
/-! ## `run_checks` -/

/-- `g` agrees with `f` on everything `check_submission_groups` compares -/
def SameAs (g f : Group) : Prop :=
  g.hpc.type = f.hpc.type ∧ g.maxNodes = f.maxNodes ∧ g.pollInterval = f.pollInterval

theorem firstDiffering_none_iff (g f : Group) :
    firstDiffering g f = none ↔ g.maxNodes = f.maxNodes ∧ g.pollInterval = f.pollInterval := by
  simp [firstDiffering, mustBeSame, paramDiffers_iff, Group.param, optNatJ_inj, natJ_inj]

theorem firstDiffering_some (g f : Group) (p : String) (h : firstDiffering g f = some p) :
    p ∈ mustBeSame ∧ (g.maxNodes ≠ f.maxNodes ∨ g.pollInterval ≠ f.pollInterval) := by
  refine ⟨List.mem_of_find?_eq_some h, ?_⟩
  by_contra hc
  have : firstDiffering g f = none := (firstDiffering_none_iff g f).2 (by tauto)
  rw [this] at h; cases h

theorem checkGroupsLoop_ok_iff (first : Group) (gs : List Group) (seen : List String) :
    checkGroupsLoop first gs seen = .ok () ↔
      (∀ g ∈ gs, g.name ∉ seen ∧ SameAs g first) ∧ (gs.map (·.name)).Nodup := by
  induction gs generalizing seen with
  | nil => simp [checkGroupsLoop]
  | cons g rest ih =>
    simp only [checkGroupsLoop]
    by_cases h1 : groupListedTwice g.name seen = true
    · have := (groupListedTwice_iff _ _).1 h1
      simp [h1, this]
    · have h1' : g.name ∉ seen := fun h => h1 ((groupListedTwice_iff _ _).2 h)
      by_cases h2 : hpcTypeDiffers g.hpc.type first.hpc.type = true
      · have := (hpcTypeDiffers_iff _ _).1 h2
        simp [h1, h2, SameAs, this]
      · have h2' : g.hpc.type = first.hpc.type := by
          by_contra hne; exact h2 ((hpcTypeDiffers_iff _ _).2 hne)
        cases h3 : firstDiffering g first with
        | some p =>
          have := (firstDiffering_some g first p h3).2
          simp only [h1, h2, Bool.false_eq_true, if_false]
          constructor
          · intro h; cases h
          · rintro ⟨h, -⟩
            have := (h g (by simp)).2
            unfold SameAs at this
            tauto
        | none =>
          have h3' := (firstDiffering_none_iff g first).1 h3
          simp only [h1, h2, Bool.false_eq_true, if_false, ih, List.map_cons, List.nodup_cons,
            List.mem_cons, List.mem_map]
          constructor
          · rintro ⟨h, hn⟩
            refine ⟨?_, ?_, hn⟩
            · intro x hx
              rcases hx with rfl | hx
              · exact ⟨h1', h2', h3'⟩
              · exact ⟨fun hm => (h x hx).1 (Or.inr hm), (h x hx).2⟩
            · rintro ⟨x, hx, hxe⟩
              exact (h x hx).1 (Or.inl hxe)
          · rintro ⟨h, hn1, hn2⟩
            refine ⟨?_, hn2⟩
            intro x hx
            refine ⟨?_, (h x (Or.inr hx)).2⟩
            rintro (hm | hm)
            · exact hn1 ⟨x, hx, hm⟩
            · exact (h x (Or.inr hx)).1 hm

/-- which error the group loop raises -/
theorem checkGroupsLoop_error (first : Group) (gs : List Group) (seen : List String) (e : Rej)
    (h : checkGroupsLoop first gs seen = .error e) :
    (e = .invalid .groupTwice ∧ ¬((∀ g ∈ gs, g.name ∉ seen) ∧ (gs.map (·.name)).Nodup)) ∨
    (e = .invalid .hpcType ∧ ∃ g ∈ gs, g.hpc.type ≠ first.hpc.type) ∨
    (∃ p, e = .invalid (.mustBeSame p) ∧ p ∈ mustBeSame ∧
      ∃ g ∈ gs, g.maxNodes ≠ first.maxNodes ∨ g.pollInterval ≠ first.pollInterval) := by
  induction gs generalizing seen with
  | nil => cases h
  | cons g rest ih =>
    simp only [checkGroupsLoop] at h
    split at h
    · next h1 =>
      cases h
      left
      refine ⟨rfl, ?_⟩
      rintro ⟨hh, -⟩
      exact hh g (by simp) ((groupListedTwice_iff _ _).1 h1)
    · split at h
      · next h2 =>
        cases h
        right; left
        exact ⟨rfl, g, by simp, (hpcTypeDiffers_iff _ _).1 h2⟩
      · split at h
        · next p h3 =>
          cases h
          right; right
          have := firstDiffering_some g first p h3
          exact ⟨p, rfl, this.1, g, by simp, this.2⟩
        · rcases ih _ h with ⟨he, hn⟩ | ⟨he, x, hx, hd⟩ | ⟨p, he, hp, x, hx, hd⟩
          · left
            refine ⟨he, ?_⟩
            rintro ⟨hh, hnd⟩
            rw [List.map_cons, List.nodup_cons] at hnd
            apply hn
            refine ⟨?_, hnd.2⟩
            intro x hx hm
            rcases List.mem_cons.1 hm with hm | hm
            · exact hnd.1 (List.mem_map.2 ⟨x, hx, hm⟩)
            · exact hh x (by simp [hx]) hm
          · right; left; exact ⟨he, x, by simp [hx], hd⟩
          · right; right; exact ⟨p, he, hp, x, by simp [hx], hd⟩

theorem checkJobGroups_ok_iff (names : List String) (jobs : List Job) :
    checkJobGroups names jobs = .ok () ↔ ∀ j ∈ jobs, j.group ∈ names := by
  induction jobs with
  | nil => simp [checkJobGroups]
  | cons j rest ih =>
    simp only [checkJobGroups]
    by_cases h : jobGroupInvalid j.group names = true
    · have := (jobGroupInvalid_iff _ _).1 h
      simp [h, this]
    · have h' : j.group ∈ names := by
        by_contra hn; exact h ((jobGroupInvalid_iff _ _).2 hn)
      simp [h, ih, h']

theorem checkJobGroups_error (names : List String) (jobs : List Job) (e : Rej)
    (h : checkJobGroups names jobs = .error e) : e = .invalid .jobGroup := by
  induction jobs with
  | nil => cases h
  | cons j rest ih =>
    simp only [checkJobGroups] at h
    split at h
    · cases h; rfl
    · exact ih h

theorem checkEstimatedRunMinutes_ok_iff (c : Config) (name : String) :
    checkEstimatedRunMinutes c name = .ok () ↔
      ∀ j ∈ c.jobs, j.group = name → j.estMinutes.isSome = true := by
  unfold checkEstimatedRunMinutes
  split
  · next h =>
    obtain ⟨j, hj, hm⟩ := List.any_eq_true.1 h
    have := (estimateMissing_iff _ _ _).1 hm
    simp only [reduceCtorEq, false_iff, not_forall]
    exact ⟨j, hj, this.1, by simp [this.2]⟩
  · next h =>
    simp only [true_iff]
    intro j hj hg
    by_contra hn
    apply h
    apply List.any_eq_true.2
    refine ⟨j, hj, (estimateMissing_iff _ _ _).2 ⟨hg, ?_⟩⟩
    cases he : j.estMinutes <;> simp_all

theorem checkEstimatesLoop_ok_iff (c : Config) (gs : List Group) :
    checkEstimatesLoop c gs = .ok () ↔
      ∀ g ∈ gs, g.perNodeBatchSize = 0 → ∀ j ∈ c.jobs, j.group = g.name → j.estMinutes.isSome = true := by
  induction gs with
  | nil => simp [checkEstimatesLoop]
  | cons g rest ih =>
    simp only [checkEstimatesLoop]
    by_cases hg : estimateGuard g.perNodeBatchSize = true
    · have hz := (estimateGuard_iff _).1 hg
      simp only [hg, if_true]
      cases hc : checkEstimatedRunMinutes c g.name with
      | error e =>
        have : ¬ ∀ j ∈ c.jobs, j.group = g.name → j.estMinutes.isSome = true := by
          intro hh; rw [(checkEstimatedRunMinutes_ok_iff c g.name).2 hh] at hc; cases hc
        simp only [reduceCtorEq, false_iff]
        intro hh; exact this (hh g (by simp) hz)
      | ok u =>
        have := (checkEstimatedRunMinutes_ok_iff c g.name).1 (by rw [hc])
        simp only [ih, List.mem_cons, forall_eq_or_imp]
        tauto
    · have hz : g.perNodeBatchSize ≠ 0 := fun h => hg ((estimateGuard_iff _).2 h)
      simp only [hg, Bool.false_eq_true, if_false, ih, List.mem_cons, forall_eq_or_imp]
      tauto

theorem checkEstimatesLoop_error (c : Config) (gs : List Group) (e : Rej)
    (h : checkEstimatesLoop c gs = .error e) : e = .invalid .estimateMissing := by
  induction gs with
  | nil => cases h
  | cons g rest ih =>
    simp only [checkEstimatesLoop] at h
    split at h
    · split at h
      · next e' hc =>
        cases h
        unfold checkEstimatedRunMinutes at hc
        split at hc
        · cases hc; rfl
        · cases hc
      · exact ih h
    · exact ih h

theorem checkDependencies_ok_iff (c : Config) :
    checkDependencies c = .ok () ↔ ∀ j ∈ c.jobs, ∀ b ∈ j.blockedBy, b ∈ jobNames c := by
  unfold checkDependencies
  split
  · next h =>
    obtain ⟨b, hb, hn⟩ := (dependenciesBad_iff _ _).1 h
    obtain ⟨j, hj, hbj⟩ := List.mem_flatMap.1 hb
    simp only [reduceCtorEq, false_iff, not_forall]
    exact ⟨j, hj, b, hbj, hn⟩
  · next h =>
    simp only [true_iff]
    intro j hj b hb
    by_contra hn
    exact h ((dependenciesBad_iff _ _).2 ⟨b, List.mem_flatMap.2 ⟨j, hj, hb⟩, hn⟩)

theorem checkDependencies_error (c : Config) (e : Rej) (h : checkDependencies c = .error e) :
    e = .invalid .dependencies := by
  unfold checkDependencies at h
  split at h
  · cases h; rfl
  · cases h

theorem wallTimes_ok_iff (gs : List Group) (ws : List (String × Nat)) :
    wallTimes gs = .ok ws ↔
      (∀ g ∈ gs, (wallOf g).isSome = true) ∧ ws = gs.map (fun g => (g.name, (wallOf g).getD 0)) := by
  induction gs generalizing ws with
  | nil =>
    simp only [wallTimes, List.map_nil, List.not_mem_nil, false_imp_iff, implies_true, true_and]
    constructor
    · intro h; cases h; rfl
    · rintro rfl; rfl
  | cons g rest ih =>
    simp only [wallTimes]
    cases hw : wallOf g with
    | none => simp [hw]
    | some w =>
      cases hr : wallTimes rest with
      | error e =>
        have : ¬ ∀ g ∈ rest, (wallOf g).isSome = true := by
          intro hh
          have := (ih (rest.map (fun g => (g.name, (wallOf g).getD 0)))).2 ⟨hh, rfl⟩
          rw [hr] at this; cases this
        simp only [reduceCtorEq, false_iff, List.mem_cons, forall_eq_or_imp]
        tauto
      | ok ws' =>
        obtain ⟨h1, h2⟩ := (ih ws').1 hr
        subst h2
        simp only [Except.ok.injEq, List.mem_cons, forall_eq_or_imp, hw, Option.isSome_some,
          true_and, List.map_cons, Option.getD_some]
        constructor
        · rintro rfl; exact ⟨h1, rfl⟩
        · rintro ⟨-, rfl⟩; rfl

theorem wallTimes_error (gs : List Group) (e : Rej) (h : wallTimes gs = .error e) :
    e = .err .assertion ∧ ∃ g ∈ gs, wallOf g = none := by
  induction gs with
  | nil => cases h
  | cons g rest ih =>
    simp only [wallTimes] at h
    split at h
    · next hw => cases h; exact ⟨rfl, g, by simp, hw⟩
    · split at h
      · next e' hr =>
        cases h
        obtain ⟨he, x, hx, hxw⟩ := ih hr
        exact ⟨he, x, by simp [hx], hxw⟩
      · cases h

theorem lookup_map_name (gs : List Group) (f : Group → Nat) (hn : (gs.map (·.name)).Nodup)
    (g : Group) (hg : g ∈ gs) : (gs.map (fun g => (g.name, f g))).lookup g.name = some (f g) := by
  induction gs with
  | nil => cases hg
  | cons x rest ih =>
    rw [List.map_cons, List.nodup_cons] at hn
    rcases List.mem_cons.1 hg with rfl | hg
    · simp
    · have hne : g.name ≠ x.name := by
        intro he; exact hn.1 (List.mem_map.2 ⟨g, hg, he⟩)
      have : (g.name == x.name) = false := by simpa using hne
      simp only [List.map_cons, List.lookup_cons, this]
      exact ih hn.2 hg

theorem checkRuntimesLoop_ok_iff (walls : List (String × Nat)) (jobs : List Job) :
    checkRuntimesLoop walls jobs = .ok () ↔
      ∀ j ∈ jobs, ∃ w, walls.lookup j.group = some w ∧ ∀ m, j.estMinutes = some m → 60 * m ≤ w := by
  induction jobs with
  | nil => simp [checkRuntimesLoop]
  | cons j rest ih =>
    simp only [checkRuntimesLoop, List.mem_cons, forall_eq_or_imp]
    cases hl : walls.lookup j.group with
    | none => simp
    | some w =>
      simp only [Option.some.injEq, exists_eq_left']
      cases he : j.estMinutes with
      | none =>
        have : hasEstimate (none : Option Nat) = false := by
          cases h : hasEstimate (none : Option Nat)
          · rfl
          · have := (hasEstimate_iff _).1 h; cases this
        simp [this, ih]
      | some m =>
        have h1 : hasEstimate (some m) = true := (hasEstimate_iff _).2 rfl
        by_cases ht : runtimeTooLong m w = true
        · have := (runtimeTooLong_iff _ _).1 ht
          simp only [h1, Option.getD_some, ht, Bool.and_self, if_true, reduceCtorEq, false_iff,
            Option.some.injEq, forall_eq']
          omega
        · have : ¬ w < 60 * m := fun h => ht ((runtimeTooLong_iff _ _).2 h)
          simp only [h1, Option.getD_some, ht, Bool.and_false, Bool.false_eq_true, if_false, ih,
            Option.some.injEq, forall_eq']
          constructor
          · intro h; exact ⟨by omega, h⟩
          · intro h; exact h.2

theorem checkRuntimesLoop_error (walls : List (String × Nat)) (jobs : List Job) (e : Rej)
    (h : checkRuntimesLoop walls jobs = .error e) :
    (e = .err .keyError ∧ ∃ j ∈ jobs, walls.lookup j.group = none) ∨ e = .invalid .runtime := by
  induction jobs with
  | nil => cases h
  | cons j rest ih =>
    simp only [checkRuntimesLoop] at h
    split at h
    · next hl => cases h; exact Or.inl ⟨rfl, j, by simp, hl⟩
    · split at h
      · cases h; exact Or.inr rfl
      · rcases ih h with ⟨he, x, hx, hxl⟩ | he
        · exact Or.inl ⟨he, x, by simp [hx], hxl⟩
        · exact Or.inr he

theorem fits_iff (j : Job) (g : Group) (w : Nat) (hw : wallOf g = some w) :
    Fits j g ↔ ∀ m, j.estMinutes = some m → 60 * m ≤ w := by
  unfold Fits
  cases he : j.estMinutes with
  | none => simp
  | some m => simp [hw]

theorem checkRuntimes_ok_iff (c : Config) (hn : (groupNames c).Nodup)
    (hg : ∀ j ∈ c.jobs, j.group ∈ groupNames c) :
    checkRuntimes c = .ok () ↔
      (∀ g ∈ c.groups, (wallOf g).isSome = true) ∧
      ∀ j ∈ c.jobs, ∀ g ∈ c.groups, g.name = j.group → Fits j g := by
  unfold checkRuntimes
  cases hw : wallTimes c.groups with
  | error e =>
    obtain ⟨-, g, hgm, hgw⟩ := wallTimes_error _ _ hw
    simp only [reduceCtorEq, false_iff, not_and]
    intro hh
    have := hh g hgm
    rw [hgw] at this; cases this
  | ok ws =>
    obtain ⟨h1, rfl⟩ := (wallTimes_ok_iff _ _).1 hw
    simp only [checkRuntimesLoop_ok_iff]
    constructor
    · intro h
      refine ⟨h1, ?_⟩
      intro j hj g hgm hge
      obtain ⟨w, hl, hb⟩ := h j hj
      rw [← hge, lookup_map_name c.groups _ hn g hgm] at hl
      obtain ⟨w', hw'⟩ := Option.isSome_iff_exists.1 (h1 g hgm)
      rw [hw'] at hl
      simp only [Option.getD_some, Option.some.injEq] at hl
      subst hl
      exact (fits_iff j g w' hw').2 hb
    · rintro ⟨-, h⟩ j hj
      obtain ⟨g, hgm, hge⟩ := List.mem_map.1 (hg j hj)
      obtain ⟨w', hw'⟩ := Option.isSome_iff_exists.1 (h1 g hgm)
      refine ⟨w', ?_, (fits_iff j g w' hw').1 (h j hj g hgm hge)⟩
      rw [← hge, lookup_map_name c.groups _ hn g hgm, hw']
      rfl

theorem checkSubmissionGroups_ok_iff (c : Config) :
    checkSubmissionGroups c = .ok () ↔
      c.groups ≠ [] ∧ (groupNames c).Nodup ∧ (∀ g ∈ c.groups, ∀ f ∈ c.groups, SameAs g f) ∧
      ∀ j ∈ c.jobs, j.group ∈ groupNames c := by
  unfold checkSubmissionGroups
  cases hgs : c.groups with
  | nil => simp
  | cons first rest =>
    simp only [ne_eq, reduceCtorEq, not_false_eq_true, true_and]
    cases hl : checkGroupsLoop first (first :: rest) [] with
    | error e =>
      have hnot : ¬ ((∀ g ∈ first :: rest, g.name ∉ ([] : List String) ∧ SameAs g first) ∧
          ((first :: rest).map (·.name)).Nodup) := fun h => by
        rw [(checkGroupsLoop_ok_iff first (first :: rest) []).2 h] at hl; cases hl
      simp only [reduceCtorEq, false_iff]
      rintro ⟨hn, hs, -⟩
      apply hnot
      refine ⟨fun g hg => ⟨by simp, hs g hg first (by simp)⟩, ?_⟩
      simpa [groupNames, hgs] using hn
    | ok u =>
      obtain ⟨h1, h2⟩ := (checkGroupsLoop_ok_iff first (first :: rest) []).1 (by rw [hl])
      simp only [checkJobGroups_ok_iff]
      constructor
      · intro h
        refine ⟨by simpa [groupNames, hgs] using h2, ?_, h⟩
        intro g hg f hf
        obtain ⟨a1, a2, a3⟩ := (h1 g hg).2
        obtain ⟨b1, b2, b3⟩ := (h1 f hf).2
        exact ⟨a1.trans b1.symm, a2.trans b2.symm, a3.trans b3.symm⟩
      · intro h; exact h.2.2

theorem runChecks_eq (c : Config) :
    runChecks c =
      (match checkSubmissionGroups c with
       | .error e => .error e
       | .ok () =>
         match checkEstimatesLoop c c.groups with
         | .error e => .error e
         | .ok () =>
           match checkDependencies c with
           | .error e => .error e
           | .ok () => checkRuntimes c) := by
  simp only [runChecks, runChecksCalls, runChecksList, runCheck]
  cases checkSubmissionGroups c <;> simp only []
  cases checkEstimatesLoop c c.groups <;> simp only []
  cases checkDependencies c <;> simp only []
  cases checkRuntimes c <;> rfl

theorem runChecks_ok_iff (c : Config) : runChecks c = .ok () ↔ ChecksValid c := by
  rw [runChecks_eq]
  unfold ChecksValid
  cases h1 : checkSubmissionGroups c with
  | error e =>
    have : ¬ _ := fun h => by rw [(checkSubmissionGroups_ok_iff c).2 h] at h1; cases h1
    simp only [reduceCtorEq, false_iff]
    rintro ⟨a, b, d, e', -⟩
    exact this ⟨a, b, d, e'⟩
  | ok u =>
    obtain ⟨a, b, d, e'⟩ := (checkSubmissionGroups_ok_iff c).1 (by rw [h1])
    cases h2 : checkEstimatesLoop c c.groups with
    | error e =>
      have : ¬ _ := fun h => by rw [(checkEstimatesLoop_ok_iff c c.groups).2 h] at h2; cases h2
      simp only [reduceCtorEq, false_iff]
      rintro ⟨-, -, -, -, f, -⟩
      exact this f
    | ok u2 =>
      have f := (checkEstimatesLoop_ok_iff c c.groups).1 (by rw [h2])
      cases h3 : checkDependencies c with
      | error e =>
        have : ¬ _ := fun h => by rw [(checkDependencies_ok_iff c).2 h] at h3; cases h3
        simp only [reduceCtorEq, false_iff]
        rintro ⟨-, -, -, -, -, g, -⟩
        exact this g
      | ok u3 =>
        have g := (checkDependencies_ok_iff c).1 (by rw [h3])
        simp only [checkRuntimes_ok_iff c b e']
        constructor
        · rintro ⟨p, q⟩; exact ⟨a, b, d, e', f, g, p, q⟩
        · rintro ⟨-, -, -, -, -, -, p, q⟩; exact ⟨p, q⟩

theorem canonSet_ext (l l' : List String) (h : ∀ z, z ∈ l ↔ z ∈ l') : canonSet l = canonSet l' := by
  have p1 := pairwise_canonSet l
  have p2 := pairwise_canonSet l'
  have n1 : (canonSet l).Nodup := p1.imp (fun h => ne_of_lt h)
  have n2 : (canonSet l').Nodup := p2.imp (fun h => ne_of_lt h)
  have hp : (canonSet l).Perm (canonSet l') :=
    (List.perm_ext_iff_of_nodup n1 n2).2 (fun z => by rw [mem_canonSet, mem_canonSet, h])
  exact hp.eq_of_pairwise (fun a b _ _ hab hba => absurd hba (lt_asymm hab)) p1 p2

theorem withIds_normal (js : List Job) (n : Nat) (h : ∀ j ∈ js, NormalJob j) :
    ∀ j ∈ withIds js n, NormalJob j := by
  induction js generalizing n with
  | nil => intro j hj; cases hj
  | cons x rest ih =>
    intro j hj
    simp only [withIds, List.mem_cons] at hj
    rcases hj with rfl | hj
    · exact assignId_normal _ _ (h x (by simp))
    · exact ih _ (fun y hy => h y (by simp [hy])) j hj

theorem construct_ok_iff (c c' : Config) :
    construct c = .ok c' ↔
      c' = { c with jobs := withIds c.jobs firstJobId } ∧ Stored (withIds c.jobs firstJobId) := by
  unfold construct
  cases ha : addJobs c.jobs [] firstJobId with
  | error e =>
    simp only [reduceCtorEq, false_iff, not_and]
    intro _ hs
    have := (addJobs_ok_iff c.jobs [] firstJobId _).2 ⟨rfl, (storedRel_nil _).2 hs⟩
    rw [ha] at this; cases this
  | ok js =>
    obtain ⟨rfl, hs⟩ := (addJobs_ok_iff _ _ _ _).1 ha
    simp only [Except.ok.injEq, (storedRel_nil _).1 hs, and_true]
    exact eq_comm

theorem checkSubmissionGroups_error (c : Config) (e : Rej) (h : checkSubmissionGroups c = .error e) :
    (e = .stopIteration ∧ c.groups = []) ∨ e.isInvalidConfig = true := by
  unfold checkSubmissionGroups at h
  split at h
  · next hg => cases h; exact Or.inl ⟨rfl, hg⟩
  · next first rest hg =>
    right
    split at h
    · next e' hl =>
      cases h
      rcases checkGroupsLoop_error _ _ _ _ hl with ⟨he, -⟩ | ⟨he, -⟩ | ⟨p, he, -⟩ <;> rw [he] <;> rfl
    · rw [checkJobGroups_error _ _ _ h]; rfl

theorem checkRuntimes_error (c : Config) (hg : ∀ j ∈ c.jobs, j.group ∈ groupNames c) (e : Rej)
    (h : checkRuntimes c = .error e) :
    (e = .err .assertion ∧ ∃ g ∈ c.groups, wallOf g = none) ∨
    (e = .invalid .runtime ∧ ∀ g ∈ c.groups, (wallOf g).isSome = true) := by
  unfold checkRuntimes at h
  split at h
  · next e' hw => cases h; exact Or.inl (wallTimes_error _ _ hw)
  · next ws hw =>
    obtain ⟨h1, rfl⟩ := (wallTimes_ok_iff _ _).1 hw
    rcases checkRuntimesLoop_error _ _ _ h with ⟨-, j, hj, hl⟩ | he
    · exfalso
      obtain ⟨g, hgm, hge⟩ := List.mem_map.1 (hg j hj)
      rw [List.lookup_eq_none_iff] at hl
      have := hl (g.name, (wallOf g).getD 0) (List.mem_map.2 ⟨g, hgm, rfl⟩)
      simp [hge] at this
    · exact Or.inr ⟨he, h1⟩

end Jade.Config
