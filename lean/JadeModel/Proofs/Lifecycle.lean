import JadeModel.Model.Lifecycle

set_option linter.unusedSimpArgs false

/-!
Helper lemmas for C16.

1. *Closed forms*: the interpreter of `Model/Lifecycle.lean`, run on the programs generated from the source, equals an
   explicit description of the trace (`submitTrace`, `nodeCliTrace`).  These four lemmas (`runJobs_closed`,
   `handleCompletion_closed`, `submitJobs_closed`, `nodeCli_closed`) and `entryIsNew_iff`/`commandFailed_iff` are the
   only places where the generated text is unfolded: a change of statement order, guard, raise/ignore or environment
   in the source breaks exactly these.
2. Generic list lemmas about splitting a list at an event.
3. Classification of the events of each part of a trace.
-/

namespace Jade.Lifecycle
open Jade.Gen.Lifecycle

/-- the obsolete per-group node scripts (`node_setup_script`, `node_shutdown_script`) are not used -/
def NoLegacy (cfg : Cfg) : Prop := cfg.legacySetup = false ∧ cfg.legacyShutdown = false

instance (cfg : Cfg) : Decidable (NoLegacy cfg) := by unfold NoLegacy; exact inferInstance

/-! ### the pieces a trace is made of -/

def setupEvs (c : Ctx) : List Ev :=
  if c.isNew && c.cfg.setup then [.hook .setup [.runtimeOutput] c.rc.setup] else []

/-- the setup command runs and returns a failing code -/
def setupFails (c : Ctx) : Bool := c.isNew && c.cfg.setup && commandFailed c.rc.setup

def nodeSetupEvs (c : Ctx) : List Ev :=
  if c.cfg.nodeSetup then [.hook .nodeSetup [.runtimeOutput, .submissionGroup] c.rc.nodeSetup] else []

/-- the node setup command is configured and returns a failing code -/
def nodeSetupFails (c : Ctx) : Bool := c.cfg.nodeSetup && commandFailed c.rc.nodeSetup

def nodeTeardownEvs (c : Ctx) : List Ev :=
  if c.cfg.nodeTeardown then [.hook .nodeTeardown [.runtimeOutput, .submissionGroup] c.rc.nodeTeardown] else []

def queueEvs (c : Ctx) : List Ev := c.queue.map (.job c.batch)

def teardownEvs (c : Ctx) : List Ev :=
  if c.cfg.teardown then [.hook .teardown [.runtimeOutput] c.rc.teardown] else []

def reportsEvs (c : Ctx) : List Ev := if c.cfg.reports then [.reports] else []

def nextStageEvs (c : Ctx) : List Ev := if c.cfg.pipelineStage then [.nextStage] else []

/-- what `_handle_completion` does -/
def completionEvs (c : Ctx) : List Ev :=
  [.summary c.rows (missingJobs c.jobs c.rows)] ++ teardownEvs c ++ reportsEvs c ++ [.flag] ++ nextStageEvs c

/-- what `JobRunner.run_jobs` does when the node setup command does not fail -/
def runnerEvs (c : Ctx) : List Ev := nodeSetupEvs c ++ queueEvs c ++ nodeTeardownEvs c

/-- the call reaches `_handle_completion` -/
def completes (c : Ctx) : Bool :=
  !setupFails c && (if c.isLocal then !nodeSetupFails c else c.hpcComplete)

/-- what `submit_jobs` does between the setup command and `_handle_completion` -/
def afterSetup (c : Ctx) : List Ev :=
  if setupFails c then []
  else if c.isLocal then (if nodeSetupFails c then nodeSetupEvs c else runnerEvs c ++ [.collect])
  else c.batches.map .sbatch

/-- everything `submit_jobs` does before `_handle_completion` -/
def beforeCompletion (c : Ctx) : List Ev := setupEvs c ++ afterSetup c

/-- closed form of the trace of one call of `submit_jobs` -/
def submitTrace (c : Ctx) : List Ev :=
  beforeCompletion c ++ (if completes c then completionEvs c else [])

def submitErr (c : Ctx) : Option Err :=
  if setupFails c || (c.isLocal && nodeSetupFails c) then some .execError else none

/-- closed form of the trace of one node (`jade-internal run-jobs`) -/
def nodeCliTrace (c : Ctx) : List Ev :=
  if nodeSetupFails c then nodeSetupEvs c
  else runnerEvs c ++ (if c.distributed then [.trySubmit] else [])

def nodeCliErr (c : Ctx) : Option Err := if nodeSetupFails c then some .execError else none

/-! ### closed forms (the generated programs are unfolded here and only here) -/

theorem commandFailed_iff (rc : Int) : commandFailed rc = true ↔ rc ≠ 0 := by
  simp [commandFailed]

theorem entryIsNew_iff (e : Entry) : entryIsNew e = true ↔ e = .submitJobs := by
  cases e <;> simp [entryIsNew]

theorem runJobs_closed (c : Ctx) (st : St) (hl : NoLegacy c.cfg) (hst : st.err = none) :
    runJobs c st =
      if nodeSetupFails c then { st with trace := st.trace ++ nodeSetupEvs c, err := some .execError }
      else { st with trace := st.trace ++ runnerEvs c } := by
  obtain ⟨h1, h2⟩ := hl
  obtain ⟨tr, ic, res, mis, err⟩ := st
  obtain ⟨⟨su, td, ns, nt, ls, lsd, rep, pip⟩, rcs, isNew, isLocal, batches, hc, jobs, rows, b, q, dist, li⟩ := c
  simp only at hst h1 h2; subst hst h1 h2
  generalize hf : commandFailed rcs.nodeSetup = f
  cases ns <;> cases nt <;> cases f <;> cases dist <;> cases li <;>
    simp [runJobs, runProg, runJobsProg, stepProg, guardHolds, execBase, afterCommand, Cfg.has, Cfg.legacy,
      Rcs.of, St.emit, St.fail, nodeSetupFails, nodeSetupEvs, nodeTeardownEvs, queueEvs, runnerEvs, hf]

theorem handleCompletion_closed (c : Ctx) (st : St) (hst : st.err = none) :
    handleCompletion c st =
      { st with trace := st.trace ++ completionEvs c, results := c.rows, missing := missingJobs c.jobs c.rows } := by
  obtain ⟨tr, ic, res, mis, err⟩ := st
  obtain ⟨⟨su, td, ns, nt, ls, lsd, rep, pip⟩, rcs, isNew, isLocal, batches, hc, jobs, rows, b, q, dist, li⟩ := c
  simp only at hst; subst hst
  cases td <;> cases rep <;> cases pip <;>
    simp [handleCompletion, runProg, handleCompletionProg, stepProg, guardHolds, execBase, afterCommand, Cfg.has,
      Rcs.of, St.emit, completionEvs, teardownEvs, reportsEvs, nextStageEvs]

theorem submitJobs_closed (c : Ctx) (hl : NoLegacy c.cfg) :
    (submitJobs c).trace = submitTrace c ∧ (submitJobs c).err = submitErr c := by
  have hR := fun st h => runJobs_closed c st hl h
  have hC := fun st h => handleCompletion_closed c st h
  generalize hf : commandFailed c.rc.setup = f
  generalize hg : nodeSetupFails c = g at *
  cases hn : c.isNew <;> cases hs : c.cfg.setup <;> cases hlo : c.isLocal <;> cases hh : c.hpcComplete <;>
    cases f <;> cases g <;>
    simp [submitJobs, runProg, submitJobsProg, stepProg, guardHolds, execSubmit, execBase, afterCommand, Cfg.has,
      Rcs.of, St.emit, St.fail, hR, hC, submitTrace, beforeCompletion, afterSetup, completes, submitErr, setupEvs, setupFails,
      hn, hs, hlo, hh, hf, hg]

theorem nodeCli_closed (c : Ctx) (hl : NoLegacy c.cfg) :
    (nodeCli c).trace = nodeCliTrace c ∧ (nodeCli c).err = nodeCliErr c := by
  have hR := fun st h => runJobs_closed c st hl h
  generalize hg : nodeSetupFails c = g at *
  cases hd : c.distributed <;> cases g <;>
    simp [nodeCli, runProg, runJobsCliProg, stepProg, guardHolds, execCli, execBase, St.emit, hR, nodeCliTrace,
      nodeCliErr, hd, hg]

/-! ### rounds and nodes of a submission -/

theorem roundTrace_eq (cfg : Cfg) (r : Round) (hl : NoLegacy cfg) :
    roundTrace cfg r = submitTrace (r.ctxFor cfg) :=
  (submitJobs_closed (r.ctxFor cfg) hl).1

theorem roundErr_eq (cfg : Cfg) (r : Round) (hl : NoLegacy cfg) :
    roundErr cfg r = submitErr (r.ctxFor cfg) :=
  (submitJobs_closed (r.ctxFor cfg) hl).2

theorem nodeTrace_eq (cfg : Cfg) (c : Ctx) (hl : NoLegacy cfg) :
    nodeTrace cfg c = nodeCliTrace { c with cfg := cfg } :=
  (nodeCli_closed { c with cfg := cfg } hl).1

theorem nodeErr_eq (cfg : Cfg) (c : Ctx) (hl : NoLegacy cfg) :
    nodeErr cfg c = nodeCliErr { c with cfg := cfg } :=
  (nodeCli_closed { c with cfg := cfg } hl).2

@[simp] theorem ctxFor_cfg (cfg : Cfg) (r : Round) : (r.ctxFor cfg).cfg = cfg := rfl
@[simp] theorem ctxFor_isNew (cfg : Cfg) (r : Round) : (r.ctxFor cfg).isNew = entryIsNew r.entry := rfl

/-! ### generic list lemmas -/

/-- a list with exactly one element satisfying `p` can be split at such an element in one way only -/
theorem split_at_unique {α} (p : α → Prop) {a b pre post : List α} {x x' : α}
    (ha : ∀ y ∈ a, ¬ p y) (hb : ∀ y ∈ b, ¬ p y) (hx' : p x')
    (h : a ++ x :: b = pre ++ x' :: post) : pre = a ∧ x' = x ∧ post = b := by
  induction a generalizing pre with
  | nil =>
    cases pre with
    | nil => simp at h; exact ⟨rfl, h.1.symm, h.2.symm⟩
    | cons y pre' =>
      simp at h
      exact absurd hx' (hb x' (by rw [h.2]; simp))
  | cons z a' ih =>
    cases pre with
    | nil =>
      simp at h
      exact absurd (h.1 ▸ hx') (ha z (by simp))
    | cons y pre' =>
      simp at h
      obtain ⟨h1, h2⟩ := h
      obtain ⟨r1, r2, r3⟩ := ih (fun y hy => ha y (by simp [hy])) h2
      exact ⟨by rw [h1, r1], r2, r3⟩

/-- no element satisfying `p`: no split at such an element -/
theorem no_split {α} (p : α → Prop) {l pre post : List α} {x : α}
    (hl : ∀ y ∈ l, ¬ p y) (hx : p x) (h : l = pre ++ x :: post) : False :=
  hl x (by rw [h]; simp) hx

/-- a split of a concatenation of blocks happens inside one block -/
theorem flatMap_split {α β} (f : α → List β) {rs : List α} {pre post : List β} {x : β}
    (h : rs.flatMap f = pre ++ x :: post) :
    ∃ rs1 r rs2 p q, rs = rs1 ++ r :: rs2 ∧ f r = p ++ x :: q ∧
      pre = rs1.flatMap f ++ p ∧ post = q ++ rs2.flatMap f := by
  induction rs generalizing pre with
  | nil => simp at h
  | cons r rs ih =>
    rw [List.flatMap_cons, List.append_eq_append_iff] at h
    rcases h with ⟨a', h1, h2⟩ | ⟨c', h1, h2⟩
    · obtain ⟨rs1, r', rs2, p, q, e1, e2, e3, e4⟩ := ih h2
      refine ⟨r :: rs1, r', rs2, p, q, by rw [e1]; rfl, e2, ?_, e4⟩
      rw [h1, e3]; simp
    · cases c' with
      | nil =>
        simp at h1 h2
        obtain ⟨rs1, r', rs2, p, q, e1, e2, e3, e4⟩ := ih (pre := []) (by simpa using h2.symm)
        refine ⟨r :: rs1, r', rs2, p, q, by rw [e1]; rfl, e2, ?_, e4⟩
        rw [List.flatMap_cons, List.append_assoc, ← e3, h1]; simp
      | cons y c'' =>
        simp at h2
        refine ⟨[], r, rs, pre, c'', rfl, ?_, by simp, ?_⟩
        · rw [h1, h2.1]
        · exact h2.2

/-- an element before a split point of a projection is before the split point of the whole -/
theorem mem_of_filterMap_prefix {α β} (f : α → Option β) {g pre post : List α} {x : α} {y : β}
    (h : g = pre ++ x :: post) {pre' post' : List β} {z : β}
    (hp : g.filterMap f = pre' ++ z :: post') (hx : f x = some z)
    (hcount : (pre.filterMap f).length = pre'.length) (hy : y ∈ pre') :
    ∃ a ∈ pre, f a = some y := by
  subst h
  rw [List.filterMap_append, List.filterMap_cons, hx] at hp
  have := List.append_inj hp hcount
  rw [← this.1] at hy
  simpa [List.mem_filterMap] using hy

/-- a duplicate-free list inside another one is not longer -/
theorem nodup_subset_length {α : Type} [DecidableEq α] : ∀ {l1 l2 : List α}, l1.Nodup →
    (∀ x ∈ l1, x ∈ l2) → l1.length ≤ l2.length := by
  intro l1
  induction l1 with
  | nil => intro l2 _ _; simp
  | cons a l1 ih =>
    intro l2 hn hs
    simp only [List.nodup_cons] at hn
    have ha : a ∈ l2 := hs a (by simp)
    have := ih (l2 := l2.erase a) hn.2 (by
      intro x hx
      have hne : x ≠ a := by rintro rfl; exact hn.1 hx
      exact (List.mem_erase_of_ne hne).2 (hs x (by simp [hx])))
    rw [List.length_erase_of_mem ha] at this
    have hpos : 0 < l2.length := List.length_pos_of_mem ha
    simp only [List.length_cons]
    omega

/-- pigeonhole: a duplicate-free sublist of the same length contains everything -/
theorem mem_of_nodup_subset_same_length {α : Type} [DecidableEq α] {l1 l2 : List α} (hn : l1.Nodup)
    (hs : ∀ x ∈ l1, x ∈ l2) (hlen : l1.length = l2.length) : ∀ x ∈ l2, x ∈ l1 := by
  intro x hx
  by_cases h : x ∈ l1
  · exact h
  · have := nodup_subset_length (l2 := l2.erase x) hn (by
      intro y hy
      have hne : y ≠ x := by rintro rfl; exact h hy
      exact (List.mem_erase_of_ne hne).2 (hs y hy))
    rw [List.length_erase_of_mem hx] at this
    have hpos : 0 < l2.length := List.length_pos_of_mem hx
    omega

/-! ### which events occur where -/

def Ev.isHook : Ev → Bool
  | .hook .. => true
  | _ => false

def Ev.isHookOf (h : Hook) : Ev → Bool
  | .hook h' _ _ => h' == h
  | _ => false

def Ev.isFlag : Ev → Bool
  | .flag => true
  | _ => false

def Ev.isSummary : Ev → Bool
  | .summary .. => true
  | _ => false

def Ev.isJob : Ev → Bool
  | .job .. => true
  | _ => false

def Ev.isSbatch : Ev → Bool
  | .sbatch _ => true
  | _ => false

/-- events of `_handle_completion` -/
def Ev.isCompletion : Ev → Bool
  | .summary .. | .hook .teardown _ _ | .reports | .flag | .nextStage => true
  | _ => false

theorem beforeCompletion_not_completion (c : Ctx) : ∀ e ∈ beforeCompletion c, e.isCompletion = false := by
  intro e he
  unfold beforeCompletion afterSetup runnerEvs setupEvs nodeSetupEvs queueEvs nodeTeardownEvs at he
  grind [Ev.isCompletion]

theorem afterSetup_setup_free (c : Ctx) : ∀ e ∈ afterSetup c, e.isHookOf .setup = false := by
  intro e he
  unfold afterSetup runnerEvs nodeSetupEvs queueEvs nodeTeardownEvs at he
  grind [Ev.isHookOf]

theorem setupEvs_of_not_new (c : Ctx) (h : c.isNew = false) : setupEvs c = [] := by
  simp [setupEvs, h]

theorem setupEvs_of_unset (c : Ctx) (h : c.cfg.setup = false) : setupEvs c = [] := by
  simp [setupEvs, h]

theorem setupEvs_of_new (c : Ctx) (h : c.isNew = true) (hs : c.cfg.setup = true) :
    setupEvs c = [.hook .setup [.runtimeOutput] c.rc.setup] := by
  simp [setupEvs, h, hs]

theorem completionEvs_setup_free (c : Ctx) : ∀ e ∈ completionEvs c, e.isHookOf .setup = false := by
  intro e he
  unfold completionEvs teardownEvs reportsEvs nextStageEvs at he
  grind [Ev.isHookOf]

/-! ### a property of all pieces is a property of the whole trace -/

theorem completionEvs_forall (c : Ctx) (P : Ev → Prop)
    (hsum : P (.summary c.rows (missingJobs c.jobs c.rows))) (htd : ∀ e ∈ teardownEvs c, P e)
    (hrep : P .reports) (hflag : P .flag) (hnext : P .nextStage) : ∀ e ∈ completionEvs c, P e := by
  intro e he
  unfold completionEvs reportsEvs nextStageEvs at he
  grind

theorem runnerEvs_forall (c : Ctx) (P : Ev → Prop)
    (hns : ∀ e ∈ nodeSetupEvs c, P e) (hq : ∀ e ∈ queueEvs c, P e) (hnt : ∀ e ∈ nodeTeardownEvs c, P e) :
    ∀ e ∈ runnerEvs c, P e := by
  intro e he
  unfold runnerEvs at he
  grind

theorem submitTrace_forall (c : Ctx) (P : Ev → Prop)
    (hsetup : ∀ e ∈ setupEvs c, P e) (hrun : ∀ e ∈ runnerEvs c, P e) (hns : ∀ e ∈ nodeSetupEvs c, P e)
    (hcollect : P .collect) (hsb : ∀ b, P (.sbatch b)) (hcomp : ∀ e ∈ completionEvs c, P e) :
    ∀ e ∈ submitTrace c, P e := by
  intro e he
  unfold submitTrace beforeCompletion afterSetup at he
  grind

theorem nodeCliTrace_forall (c : Ctx) (P : Ev → Prop)
    (hrun : ∀ e ∈ runnerEvs c, P e) (hns : ∀ e ∈ nodeSetupEvs c, P e) (htry : P .trySubmit) :
    ∀ e ∈ nodeCliTrace c, P e := by
  intro e he
  unfold nodeCliTrace at he
  grind

/-- the environment the documentation (tutorial, "Setup and teardown scripts") promises to each command -/
def documentedEnv : Hook → List EnvVar
  | .setup => [.runtimeOutput]
  | .teardown => [.runtimeOutput]
  | .nodeSetup => [.runtimeOutput, .submissionGroup]
  | .nodeTeardown => [.runtimeOutput, .submissionGroup]

/-- a command event is one of a configured command, with the documented environment and the return code the environment chose -/
def Documented (c : Ctx) (e : Ev) : Prop :=
  ∀ h env rc, e = .hook h env rc → c.cfg.has h = true ∧ env = documentedEnv h ∧ rc = c.rc.of h

theorem setupEvs_documented (c : Ctx) : ∀ e ∈ setupEvs c, Documented c e := by
  intro e he h env rc heq
  unfold setupEvs at he
  split at he
  · simp at he; subst he; injection heq with h1 h2 h3; subst h1 h2 h3
    simp_all [Cfg.has, documentedEnv, Rcs.of]
  · simp at he

theorem teardownEvs_documented (c : Ctx) : ∀ e ∈ teardownEvs c, Documented c e := by
  intro e he h env rc heq
  unfold teardownEvs at he
  split at he
  · simp at he; subst he; injection heq with h1 h2 h3; subst h1 h2 h3
    simp_all [Cfg.has, documentedEnv, Rcs.of]
  · simp at he

theorem nodeSetupEvs_documented (c : Ctx) : ∀ e ∈ nodeSetupEvs c, Documented c e := by
  intro e he h env rc heq
  unfold nodeSetupEvs at he
  split at he
  · simp at he; subst he; injection heq with h1 h2 h3; subst h1 h2 h3
    simp_all [Cfg.has, documentedEnv, Rcs.of]
  · simp at he

theorem nodeTeardownEvs_documented (c : Ctx) : ∀ e ∈ nodeTeardownEvs c, Documented c e := by
  intro e he h env rc heq
  unfold nodeTeardownEvs at he
  split at he
  · simp at he; subst he; injection heq with h1 h2 h3; subst h1 h2 h3
    simp_all [Cfg.has, documentedEnv, Rcs.of]
  · simp at he

theorem queueEvs_not_hook (c : Ctx) : ∀ e ∈ queueEvs c, ∃ q, e = .job c.batch q := by
  intro e he
  simp only [queueEvs, List.mem_map] at he
  obtain ⟨q, _, rfl⟩ := he
  exact ⟨q, rfl⟩

theorem runnerEvs_documented (c : Ctx) : ∀ e ∈ runnerEvs c, Documented c e :=
  runnerEvs_forall c _ (nodeSetupEvs_documented c)
    (by intro e he; obtain ⟨q, rfl⟩ := queueEvs_not_hook c e he; intro h env rc heq; cases heq)
    (nodeTeardownEvs_documented c)

theorem submitTrace_documented (c : Ctx) : ∀ e ∈ submitTrace c, Documented c e :=
  submitTrace_forall c _ (setupEvs_documented c) (runnerEvs_documented c) (nodeSetupEvs_documented c)
    (by intro h env rc heq; cases heq) (by intro b h env rc heq; cases heq)
    (completionEvs_forall c _ (by intro h env rc heq; cases heq) (teardownEvs_documented c)
      (by intro h env rc heq; cases heq) (by intro h env rc heq; cases heq) (by intro h env rc heq; cases heq))

theorem nodeCliTrace_documented (c : Ctx) : ∀ e ∈ nodeCliTrace c, Documented c e :=
  nodeCliTrace_forall c _ (runnerEvs_documented c) (nodeSetupEvs_documented c) (by intro h env rc heq; cases heq)

/-! ### splitting a trace at a command / at the flag -/

theorem submitTrace_split_teardown (c : Ctx) (p q : List Ev) (env : List EnvVar) (rc : Int)
    (h : submitTrace c = p ++ .hook .teardown env rc :: q) :
    p = beforeCompletion c ++ [.summary c.rows (missingJobs c.jobs c.rows)] ∧
      q = reportsEvs c ++ .flag :: nextStageEvs c ∧ env = [.runtimeOutput] ∧ rc = c.rc.teardown ∧
      c.cfg.teardown = true ∧ completes c = true := by
  unfold submitTrace at h
  cases hc : completes c
  · exfalso
    rw [hc] at h
    simp only [Bool.false_eq_true, if_false, List.append_nil] at h
    have := beforeCompletion_not_completion c (.hook .teardown env rc) (by rw [h]; simp)
    simp [Ev.isCompletion] at this
  · rw [hc] at h
    simp only [if_true] at h
    cases ht : c.cfg.teardown
    · exfalso
      have hmem : Ev.hook .teardown env rc ∈ beforeCompletion c ++ completionEvs c := by rw [h]; simp
      rcases List.mem_append.1 hmem with h' | h'
      · have := beforeCompletion_not_completion _ _ h'
        simp [Ev.isCompletion] at this
      · unfold completionEvs teardownEvs reportsEvs nextStageEvs at h'
        grind
    · have hform : beforeCompletion c ++ completionEvs c =
          (beforeCompletion c ++ [.summary c.rows (missingJobs c.jobs c.rows)]) ++
            .hook .teardown [.runtimeOutput] c.rc.teardown :: (reportsEvs c ++ .flag :: nextStageEvs c) := by
        simp [completionEvs, teardownEvs, ht]
      rw [hform] at h
      obtain ⟨e1, e2, e3⟩ := split_at_unique (fun e => e.isHookOf .teardown = true)
        (by
          intro y hy
          rcases List.mem_append.1 hy with h' | h'
          · have := beforeCompletion_not_completion _ _ h'
            cases y with
            | hook h'' _ _ => cases h'' <;> simp_all [Ev.isHookOf, Ev.isCompletion]
            | _ => simp [Ev.isHookOf]
          · simp at h'; subst h'; simp [Ev.isHookOf])
        (by
          intro y hy
          unfold reportsEvs nextStageEvs at hy
          grind [Ev.isHookOf])
        (by simp [Ev.isHookOf]) h
      injection e2 with _ h2 h3
      exact ⟨e1, e3, h2, h3, rfl, rfl⟩

theorem submitTrace_split_flag (c : Ctx) (p q : List Ev) (h : submitTrace c = p ++ .flag :: q) :
    p = beforeCompletion c ++ [.summary c.rows (missingJobs c.jobs c.rows)] ++ teardownEvs c ++ reportsEvs c ∧
      q = nextStageEvs c ∧ completes c = true := by
  unfold submitTrace at h
  cases hc : completes c
  · exfalso
    rw [hc] at h
    simp only [Bool.false_eq_true, if_false, List.append_nil] at h
    have := beforeCompletion_not_completion c .flag (by rw [h]; simp)
    simp [Ev.isCompletion] at this
  · rw [hc] at h
    simp only [if_true] at h
    have hform : beforeCompletion c ++ completionEvs c =
        (beforeCompletion c ++ [.summary c.rows (missingJobs c.jobs c.rows)] ++ teardownEvs c ++ reportsEvs c) ++
          .flag :: nextStageEvs c := by
      simp [completionEvs]
    rw [hform] at h
    obtain ⟨e1, _, e3⟩ := split_at_unique (fun e => e.isFlag = true)
      (by
        intro y hy
        simp only [List.mem_append] at hy
        rcases hy with ((h' | h') | h') | h'
        · have := beforeCompletion_not_completion _ _ h'
          cases y <;> simp_all [Ev.isFlag, Ev.isCompletion]
        · simp at h'; subst h'; simp [Ev.isFlag]
        · unfold teardownEvs at h'; grind [Ev.isFlag]
        · unfold reportsEvs at h'; grind [Ev.isFlag])
      (by
        intro y hy
        unfold nextStageEvs at hy
        grind [Ev.isFlag])
      (by simp [Ev.isFlag]) h
    exact ⟨e1, e3, rfl⟩

theorem nodeCliTrace_split_job (c : Ctx) (hs : c.cfg.nodeSetup = true) (pre post : List Ev) (b : Nat) (e : QEv)
    (h : nodeCliTrace c = pre ++ .job b e :: post) :
    ∃ tl, pre = .hook .nodeSetup [.runtimeOutput, .submissionGroup] c.rc.nodeSetup :: tl ∧
      (∀ x ∈ tl, x.isJob = true) ∧ nodeSetupFails c = false := by
  unfold nodeCliTrace at h
  cases hf : nodeSetupFails c
  · rw [hf] at h
    simp only [Bool.false_eq_true, if_false, runnerEvs, nodeSetupEvs, hs, if_true, List.append_assoc, List.cons_append,
      List.nil_append] at h
    cases pre with
    | nil => simp at h
    | cons x tl =>
      simp only [List.cons_append, List.cons.injEq] at h
      obtain ⟨hx, htl⟩ := h
      refine ⟨tl, by rw [← hx], ?_, rfl⟩
      rw [List.append_eq_append_iff] at htl
      rcases htl with ⟨a', _, h2⟩ | ⟨c', h1, _⟩
      · exfalso
        have hmem : Ev.job b e ∈ nodeTeardownEvs c ++ (if c.distributed then [.trySubmit] else []) := by
          rw [h2]; simp
        unfold nodeTeardownEvs at hmem
        grind
      · intro x hx
        have : x ∈ queueEvs c := by rw [h1]; simp [hx]
        obtain ⟨_, rfl⟩ := queueEvs_not_hook c x this
        rfl
  · rw [hf] at h
    simp only [if_true, nodeSetupEvs, hs] at h
    cases pre with
    | nil => simp at h
    | cons x tl => simp at h

theorem nodeCliTrace_split_nodeTeardown (c : Ctx) (pre post : List Ev) (env : List EnvVar) (rc : Int)
    (h : nodeCliTrace c = pre ++ .hook .nodeTeardown env rc :: post) :
    pre = nodeSetupEvs c ++ queueEvs c ∧ post = (if c.distributed then [.trySubmit] else []) ∧
      env = [.runtimeOutput, .submissionGroup] ∧ rc = c.rc.nodeTeardown ∧ nodeSetupFails c = false := by
  unfold nodeCliTrace at h
  cases hf : nodeSetupFails c
  · rw [hf] at h
    simp only [Bool.false_eq_true, if_false, runnerEvs] at h
    cases ht : c.cfg.nodeTeardown
    · exfalso
      have hmem : Ev.hook .nodeTeardown env rc ∈ nodeSetupEvs c ++ queueEvs c ++ nodeTeardownEvs c ++
          (if c.distributed then [.trySubmit] else []) := by rw [h]; simp
      unfold nodeSetupEvs queueEvs nodeTeardownEvs at hmem
      grind
    · have hform : nodeSetupEvs c ++ queueEvs c ++ nodeTeardownEvs c ++ (if c.distributed then [.trySubmit] else []) =
          (nodeSetupEvs c ++ queueEvs c) ++
            .hook .nodeTeardown [.runtimeOutput, .submissionGroup] c.rc.nodeTeardown ::
              (if c.distributed then [.trySubmit] else []) := by
        simp [nodeTeardownEvs, ht]
      rw [hform] at h
      obtain ⟨e1, e2, e3⟩ := split_at_unique (fun e => e.isHookOf .nodeTeardown = true)
        (by
          intro y hy
          unfold nodeSetupEvs queueEvs at hy
          grind [Ev.isHookOf])
        (by intro y hy; grind [Ev.isHookOf])
        (by simp [Ev.isHookOf]) h
      injection e2 with _ h2 h3
      exact ⟨e1, e3, h2, h3, rfl⟩
  · exfalso
    rw [hf] at h
    simp only [if_true] at h
    have hmem : Ev.hook .nodeTeardown env rc ∈ nodeSetupEvs c := by rw [h]; simp
    unfold nodeSetupEvs at hmem
    grind

/-! ### counting -/

theorem completionEvs_count_flag (c : Ctx) : (completionEvs c).countP (·.isFlag) = 1 := by
  unfold completionEvs teardownEvs reportsEvs nextStageEvs
  cases c.cfg.teardown <;> cases c.cfg.reports <;> cases c.cfg.pipelineStage <;> simp [Ev.isFlag, List.countP_cons]

theorem completionEvs_count_teardown (c : Ctx) :
    (completionEvs c).countP (·.isHookOf .teardown) = if c.cfg.teardown then 1 else 0 := by
  unfold completionEvs teardownEvs reportsEvs nextStageEvs
  cases c.cfg.teardown <;> cases c.cfg.reports <;> cases c.cfg.pipelineStage <;> simp [Ev.isHookOf, List.countP_cons]

theorem beforeCompletion_count (c : Ctx) (p : Ev → Bool) (hp : ∀ e, p e = true → e.isCompletion = true) :
    (beforeCompletion c).countP p = 0 := by
  rw [List.countP_eq_zero]
  intro e he hpe
  have := beforeCompletion_not_completion c e he
  rw [hp e hpe] at this
  cases this

theorem noLegacy_noHooks (cfg : Cfg) (hl : NoLegacy cfg) : NoLegacy cfg.noHooks := hl

end Jade.Lifecycle
