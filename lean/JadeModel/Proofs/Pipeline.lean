import JadeModel.Model.Pipeline

/-!
Helper lemmas for C15.

Part 1 characterises the generated predicates (one lemma each) and proves that the interpreter of the generated
statement programs equals a hand-written closed form (`specNext`, `specStart`) — the only place where the generated
text is unfolded.  Part 2 proves the inductive invariant `Good` and everything the property theorems need from it.
-/

set_option linter.unusedSimpArgs false

namespace Jade.Pipeline
open Jade.Gen.Pipeline

/-! ## Part 1: generated predicates and the closed form of one call -/

theorem pyIndex_natCast (i len : Nat) : pyIndex (i : Int) len = if i < len then some i else none := by
  unfold pyIndex
  by_cases h : i < len <;> simp [h]

theorem rejectStage_iff (k : Int) (s : Nat) : rejectStage k s = true ↔ k ≠ ((s + 1 : Nat) : Int) := by
  simp [rejectStage]

theorem rcIndex_accept (s : Nat) (h : 1 ≤ s) : rcIndex ((s : Int) + 1) = ((s - 1 : Nat) : Int) := by
  unfold rcIndex; omega

theorem stageIndex_eq (s : Nat) (h : 1 ≤ s) : stageIndex s = ((s - 1 : Nat) : Int) := by
  unfold stageIndex; omega

theorem pipelineDone_iff (s n : Nat) : pipelineDone s n = true ↔ s = n + 1 := by
  simp [pipelineDone]

theorem retFails_iff (r : Int) : retFails r = true ↔ r ≠ 0 := by
  simp [retFails]

theorem firstStageOk_cli : firstStageOk cliFirstStage = true := by decide

theorem isFirstCall_iff (rc : Option Int) : isFirstCall rc = true ↔ rc = none := by
  cases rc <;> simp [isFirstCall]

/-- the persisted config after an accepted report of the current stage's return code -/
def advance (c : Config) (rc : Int) : Config :=
  { c with stageNum := c.stageNum + 1, returnCodes := c.returnCodes.set (c.stageNum - 1) (some rc) }

/-- the hand-over of the current stage of `c` to `run_submit_jobs`, with `c` on disk -/
def handoverOf (c : Config) : Handover :=
  { stage := c.stageNum, cfgStage := c.stageNum, outStage := c.stageNum, disk := c }

/-- closed form of `submit-next-stage k rc` on the persisted config `c`: new `pipeline.json`, the hand-over to
    `run_submit_jobs` (if any) and the result -/
def specNext (c : Config) (k rc : Int) (out : Outcome) : Config × Option Handover × Res :=
  if k ≠ ((c.stageNum + 1 : Nat) : Int) then (c, none, .invalidParam)
  else if c.returnCodes.length < c.stageNum then (c, none, .indexError)
  else if c.stageNum = c.returnCodes.length then ({ advance c rc with isComplete := true }, none, .ok)
  else if out.cfgOk = false then (advance c rc, none, .execError)
  else (advance c rc, some (handoverOf (advance c rc)), if out.ret ≠ 0 then .execError else .ok)

/-- closed form of the first call (`jade pipeline submit`, no return code) -/
def specStart (c : Config) (out : Outcome) : Config × Option Handover × Res :=
  if c.stageNum = c.returnCodes.length + 1 then ({ c with isComplete := true }, none, .ok)
  else if c.returnCodes.length < c.stageNum then (c, none, .indexError)
  else if out.cfgOk = false then (c, none, .execError)
  else (c, some (handoverOf c), if out.ret ≠ 0 then .execError else .ok)

/-- projection of an activation to what is observable afterwards -/
def Frame.view (f : Frame) : Config × Option Handover × Res := (f.disk, f.handover, f.err.getD .ok)

theorem next_spec (c : Config) (k rc : Int) (out : Outcome) (h1 : 1 ≤ c.stageNum) :
    (submitNextStage { k := k, rc := some rc, out := out } c).view = specNext c k rc out := by
  obtain ⟨s, ic, rcs⟩ := c
  simp only at h1
  by_cases hk : k = ((s + 1 : Nat) : Int)
  · subst hk
    by_cases hlen : rcs.length < s
    · have : ¬ (s - 1 < rcs.length) := by omega
      simp [submitNextStage, specNext, advance, handoverOf, Frame.view, isFirstCall, acceptBody, execAll, exec, Frame.fail,
        rejectStage, rcIndex_accept _ h1, pyIndex_natCast, this, hlen]
    · have hlt : s - 1 < rcs.length := by omega
      by_cases hdone : s = rcs.length
      · subst hdone
        simp [submitNextStage, specNext, advance, handoverOf, Frame.view, isFirstCall, acceptBody, completeBody, execAll, exec,
          Frame.fail, rejectStage, rcIndex_accept _ h1, pyIndex_natCast, hlt, stageInc, pipelineDone,
          Config.numStages]
      · have hlt2 : s < rcs.length := by omega
        have hsub : s + 1 - 1 + 1 = s + 1 := by omega
        by_cases hcfg : out.cfgOk = true
        · by_cases hret : out.ret = 0
          · simp [submitNextStage, specNext, advance, handoverOf, Frame.view, isFirstCall, acceptBody, submitBody, execAll, exec,
              Frame.fail, rejectStage, rcIndex_accept _ h1, stageIndex_eq, pyIndex_natCast, hlt, hlt2, hlen,
              stageInc, pipelineDone, Config.numStages, hdone, hcfg, hret, retFails, outputStageArg,
              submitStageArg]
          · simp [submitNextStage, specNext, advance, handoverOf, Frame.view, isFirstCall, acceptBody, submitBody, execAll, exec,
              Frame.fail, rejectStage, rcIndex_accept _ h1, stageIndex_eq, pyIndex_natCast, hlt, hlt2, hlen,
              stageInc, pipelineDone, Config.numStages, hdone, hcfg, hret, retFails, outputStageArg,
              submitStageArg]
        · have hcfg' : out.cfgOk = false := by simpa using hcfg
          simp [submitNextStage, specNext, advance, handoverOf, Frame.view, isFirstCall, acceptBody, submitBody, execAll, exec,
            Frame.fail, rejectStage, rcIndex_accept _ h1, stageIndex_eq, pyIndex_natCast, hlt, hlt2, hlen,
            stageInc, pipelineDone, Config.numStages, hdone, hcfg']
  · have hk' : ¬ k = (s : Int) + 1 := by simpa using hk
    simp [submitNextStage, specNext, advance, handoverOf, Frame.view, isFirstCall, acceptBody, execAll, exec, Frame.fail,
      rejectStage, hk']

theorem start_spec (c : Config) (out : Outcome) (h1 : 1 ≤ c.stageNum) :
    (submitNextStage { k := cliFirstStage, rc := none, out := out } c).view = specStart c out := by
  obtain ⟨s, ic, rcs⟩ := c
  simp only at h1
  by_cases hdone : s = rcs.length + 1
  · subst hdone
    simp [submitNextStage, specStart, handoverOf, Frame.view, isFirstCall, firstBody, completeBody, execAll, exec,
      Frame.fail, firstStageOk_cli, pipelineDone, Config.numStages]
  · by_cases hlen : rcs.length < s
    · have : ¬ (s - 1 < rcs.length) := by omega
      simp [submitNextStage, specStart, handoverOf, Frame.view, isFirstCall, firstBody, submitBody, execAll, exec,
        Frame.fail, firstStageOk_cli, pipelineDone, Config.numStages, hdone, hlen, stageIndex_eq _ h1,
        pyIndex_natCast, this]
    · have hlt : s - 1 < rcs.length := by omega
      have hsub : s - 1 + 1 = s := by omega
      by_cases hcfg : out.cfgOk = true
      · by_cases hret : out.ret = 0
        · simp [submitNextStage, specStart, handoverOf, Frame.view, isFirstCall, firstBody, submitBody, execAll, exec,
            Frame.fail, firstStageOk_cli, pipelineDone, Config.numStages, hdone, hlen, stageIndex_eq _ h1,
            pyIndex_natCast, hlt, hsub, hcfg, hret, retFails, outputStageArg, submitStageArg]
        · simp [submitNextStage, specStart, handoverOf, Frame.view, isFirstCall, firstBody, submitBody, execAll, exec,
            Frame.fail, firstStageOk_cli, pipelineDone, Config.numStages, hdone, hlen, stageIndex_eq _ h1,
            pyIndex_natCast, hlt, hsub, hcfg, hret, retFails, outputStageArg, submitStageArg]
      · have hcfg' : out.cfgOk = false := by simpa using hcfg
        simp [submitNextStage, specStart, handoverOf, Frame.view, isFirstCall, firstBody, submitBody, execAll, exec,
          Frame.fail, firstStageOk_cli, pipelineDone, Config.numStages, hdone, hlen, stageIndex_eq _ h1,
          pyIndex_natCast, hlt, hsub, hcfg']

/-! ## Part 2: one CLI command in closed form, the invariant -/

theorem view_disk (f : Frame) : f.disk = f.view.1 := rfl
theorem view_handover (f : Frame) : f.handover = f.view.2.1 := rfl
theorem view_res (f : Frame) : f.err.getD .ok = f.view.2.2 := rfl

theorem step_next_fresh (s : State) (k rc : Int) (out : Outcome) (hc : s.created = false) :
    step s (.next k rc out) = (s, .noPipeline) := by
  simp [step, hc]

theorem step_start_created (s : State) (out : Outcome) (hc : s.created = true) :
    step s (.start out) = (s, .dirExists) := by
  simp [step, hc]

theorem step_next (s : State) (k rc : Int) (out : Outcome) (hc : s.created = true) (h1 : 1 ≤ s.cfg.stageNum) :
    step s (.next k rc out) =
      ({ s with cfg := (specNext s.cfg k rc out).1,
                handovers := s.handovers ++ (specNext s.cfg k rc out).2.1.toList },
       (specNext s.cfg k rc out).2.2) := by
  simp only [step, hc, if_true, applyCall, Op.args, view_disk, view_handover, view_res, next_spec _ _ _ _ h1]

theorem step_start (s : State) (out : Outcome) (hc : s.created = false) (h1 : 1 ≤ s.cfg.stageNum) :
    step s (.start out) =
      ({ created := true, cfg := (specStart s.cfg out).1,
         handovers := s.handovers ++ (specStart s.cfg out).2.1.toList },
       (specStart s.cfg out).2.2) := by
  simp only [step, hc, applyCall, Op.args, view_disk, view_handover, view_res, start_spec _ _ h1]
  simp

/-- the inductive invariant of the pipeline directory (`n` = number of stages) -/
structure Good (n : Nat) (s : State) : Prop where
  len : s.cfg.returnCodes.length = n
  pos : 1 ≤ s.cfg.stageNum
  le : s.cfg.stageNum ≤ n + 1
  complete_iff : s.cfg.isComplete = true ↔ (s.created = true ∧ s.cfg.stageNum = n + 1)
  fresh : s.created = false → s.cfg.stageNum = 1 ∧ s.handovers = []
  recorded : ∀ i : Nat, i + 1 < s.cfg.stageNum → ∃ r : Int, s.cfg.returnCodes[i]? = some (some r)
  pending : ∀ i : Nat, s.cfg.stageNum ≤ i + 1 → i < n → s.cfg.returnCodes[i]? = some none
  sub : (s.handovers.map (·.stage)).Sublist (List.range' 1 (min s.cfg.stageNum n))
  hand : ∀ h ∈ s.handovers, h.cfgStage = h.stage ∧ h.outStage = h.stage ∧ h.disk.stageNum = h.stage ∧ 1 ≤ h.stage

theorem good_init (n : Nat) : Good n (init n) := by
  refine ⟨by simp [init], by simp [init], by simp [init], by simp [init], by simp [init], ?_, ?_, by simp [init], by simp [init]⟩
  · intro i hi; simp [init] at hi
  · intro i _ hi; simp [init, hi]

/-- the five ways a `submit-next-stage` call can go on a created pipeline -/
theorem next_cases {n : Nat} {s : State} (hg : Good n s) (hc : s.created = true) (k rc : Int) (out : Outcome) :
    (k ≠ ((s.cfg.stageNum + 1 : Nat) : Int) ∧ step s (.next k rc out) = (s, .invalidParam))
    ∨ (k = ((s.cfg.stageNum + 1 : Nat) : Int) ∧ s.cfg.stageNum = n + 1 ∧ step s (.next k rc out) = (s, .indexError))
    ∨ (k = ((s.cfg.stageNum + 1 : Nat) : Int) ∧ s.cfg.stageNum = n ∧
        step s (.next k rc out) = ({ s with cfg := { advance s.cfg rc with isComplete := true } }, .ok))
    ∨ (k = ((s.cfg.stageNum + 1 : Nat) : Int) ∧ s.cfg.stageNum < n ∧ out.cfgOk = false ∧
        step s (.next k rc out) = ({ s with cfg := advance s.cfg rc }, .execError))
    ∨ (k = ((s.cfg.stageNum + 1 : Nat) : Int) ∧ s.cfg.stageNum < n ∧ out.cfgOk = true ∧
        step s (.next k rc out) =
          ({ s with cfg := advance s.cfg rc, handovers := s.handovers ++ [handoverOf (advance s.cfg rc)] },
           if out.ret ≠ 0 then .execError else .ok)) := by
  have hlen := hg.len
  have hle := hg.le
  rw [step_next s k rc out hc hg.pos]
  by_cases hk : k = ((s.cfg.stageNum + 1 : Nat) : Int)
  · right
    by_cases h1 : s.cfg.stageNum = n + 1
    · left
      refine ⟨hk, h1, ?_⟩
      have : s.cfg.returnCodes.length < s.cfg.stageNum := by omega
      simp [specNext, hk, this]
    · right
      have hnl : ¬ s.cfg.returnCodes.length < s.cfg.stageNum := by omega
      by_cases h2 : s.cfg.stageNum = n
      · left
        refine ⟨hk, h2, ?_⟩
        have : s.cfg.stageNum = s.cfg.returnCodes.length := by omega
        simp [specNext, hk, hnl, this]
      · right
        have hne : ¬ s.cfg.stageNum = s.cfg.returnCodes.length := by omega
        have hlt : s.cfg.stageNum < n := by omega
        by_cases h3 : out.cfgOk = true
        · right
          refine ⟨hk, hlt, h3, ?_⟩
          simp [specNext, hk, hnl, hne, h3]
        · left
          have h3' : out.cfgOk = false := by simpa using h3
          refine ⟨hk, hlt, h3', ?_⟩
          simp [specNext, hk, hnl, hne, h3']
  · left
    refine ⟨hk, ?_⟩
    have hk' : ¬ k = (s.cfg.stageNum : Int) + 1 := by simpa using hk
    simp [specNext, hk']

/-- the ways `jade pipeline submit` can go on a directory that does not exist yet -/
theorem start_cases {n : Nat} {s : State} (hg : Good n s) (hc : s.created = false) (out : Outcome) :
    (n = 0 ∧ step s (.start out) = ({ s with created := true, cfg := { s.cfg with isComplete := true } }, .ok))
    ∨ (1 ≤ n ∧ out.cfgOk = false ∧ step s (.start out) = ({ s with created := true }, .execError))
    ∨ (1 ≤ n ∧ out.cfgOk = true ∧
        step s (.start out) = ({ s with created := true, handovers := [handoverOf s.cfg] },
          if out.ret ≠ 0 then .execError else .ok)) := by
  have hlen := hg.len
  obtain ⟨hs1, hh⟩ := hg.fresh hc
  rw [step_start s out hc hg.pos]
  by_cases h0 : n = 0
  · left
    refine ⟨h0, ?_⟩
    have : s.cfg.stageNum = s.cfg.returnCodes.length + 1 := by omega
    simp [specStart, this, hh]
  · right
    have hne : ¬ s.cfg.stageNum = s.cfg.returnCodes.length + 1 := by omega
    have hnl : ¬ s.cfg.returnCodes.length < s.cfg.stageNum := by omega
    by_cases h3 : out.cfgOk = true
    · right
      refine ⟨by omega, h3, ?_⟩
      simp [specStart, hne, hnl, h3, hh]
    · left
      have h3' : out.cfgOk = false := by simpa using h3
      refine ⟨by omega, h3', ?_⟩
      simp [specStart, hne, hnl, h3', hh]

/-! ### `advance` -/

@[simp] theorem advance_len (c : Config) (rc : Int) : (advance c rc).returnCodes.length = c.returnCodes.length := by
  simp [advance]
@[simp] theorem advance_stageNum (c : Config) (rc : Int) : (advance c rc).stageNum = c.stageNum + 1 := rfl
@[simp] theorem advance_isComplete (c : Config) (rc : Int) : (advance c rc).isComplete = c.isComplete := rfl

theorem advance_get_self (c : Config) (rc : Int) (hlt : c.stageNum - 1 < c.returnCodes.length) :
    (advance c rc).returnCodes[c.stageNum - 1]? = some (some rc) := by
  simp [advance, hlt]

theorem advance_get_ne (c : Config) (rc : Int) (i : Nat) (h : i ≠ c.stageNum - 1) :
    (advance c rc).returnCodes[i]? = c.returnCodes[i]? := by
  simp [advance, List.getElem?_set, Ne.symm h]

/-- an accepted report that is not the last one: stage `stageNum + 1` becomes current and may be handed over -/
theorem good_advance_mid {n : Nat} {s : State} (hg : Good n s) (hc : s.created = true) (rc : Int)
    (hlt : s.cfg.stageNum < n) (extra : List Handover)
    (hx : extra = [] ∨ extra = [handoverOf (advance s.cfg rc)]) :
    Good n { s with cfg := advance s.cfg rc, handovers := s.handovers ++ extra } := by
  have hlen := hg.len
  have hpos := hg.pos
  refine ⟨by simp [hlen], by simp, by simp; omega, ?_, ?_, ?_, ?_, ?_, ?_⟩
  · have := hg.complete_iff
    simp only [advance_isComplete, advance_stageNum, hc, true_and] at this ⊢
    constructor
    · intro h; have := this.mp h; omega
    · intro h; omega
  · intro h; simp [hc] at h
  · intro i hi
    simp only [advance_stageNum] at hi
    by_cases hii : i = s.cfg.stageNum - 1
    · subst hii; exact ⟨rc, advance_get_self _ _ (by omega)⟩
    · rw [advance_get_ne _ _ _ hii]; exact hg.recorded i (by omega)
  · intro i hi hin
    simp only [advance_stageNum] at hi
    rw [advance_get_ne _ _ _ (by omega)]; exact hg.pending i (by omega) hin
  · have hsub := hg.sub
    have hmin : min (s.cfg.stageNum + 1) n = s.cfg.stageNum + 1 := by omega
    have hmin0 : min s.cfg.stageNum n = s.cfg.stageNum := by omega
    simp only [advance_stageNum, hmin, List.map_append]
    rw [hmin0] at hsub
    rw [List.range'_concat]
    rcases hx with hx | hx
    · subst hx; simpa using hsub.trans (List.sublist_append_left _ _)
    · subst hx
      have : [handoverOf (advance s.cfg rc)].map (·.stage) = [1 + 1 * s.cfg.stageNum] := by
        simp [handoverOf]; omega
      rw [this]
      exact List.Sublist.append hsub (List.Sublist.refl _)
  · intro h hh
    simp only [List.mem_append] at hh
    rcases hh with hh | hh
    · exact hg.hand h hh
    · rcases hx with hx | hx
      · subst hx; simp at hh
      · subst hx
        simp only [List.mem_singleton] at hh
        subst hh
        simp [handoverOf]

/-- the accepted report of the last stage: the pipeline becomes complete, nothing is handed over -/
theorem good_advance_last {n : Nat} {s : State} (hg : Good n s) (hc : s.created = true) (rc : Int)
    (hlast : s.cfg.stageNum = n) :
    Good n { s with cfg := { advance s.cfg rc with isComplete := true } } := by
  have hlen := hg.len
  have hpos := hg.pos
  refine ⟨by simp [hlen], by simp, by simp; omega, ?_, ?_, ?_, ?_, ?_, hg.hand⟩
  · simp [hc, hlast]
  · intro h; simp [hc] at h
  · intro i hi
    simp only [advance_stageNum] at hi
    by_cases hii : i = s.cfg.stageNum - 1
    · subst hii; exact ⟨rc, advance_get_self _ _ (by omega)⟩
    · show ∃ r : Int, (advance s.cfg rc).returnCodes[i]? = some (some r)
      rw [advance_get_ne _ _ _ hii]; exact hg.recorded i (by omega)
  · intro i hi hin
    simp only [advance_stageNum] at hi
    omega
  · have hsub := hg.sub
    have hmin : min (s.cfg.stageNum + 1) n = n := by omega
    have hmin0 : min s.cfg.stageNum n = n := by omega
    simp only [advance_stageNum, hmin]
    rwa [hmin0] at hsub

theorem good_step {n : Nat} {s : State} (hg : Good n s) (op : Op) : Good n (step s op).1 := by
  cases op with
  | start out =>
    by_cases hc : s.created = true
    · rw [step_start_created s out hc]; exact hg
    · have hc' : s.created = false := by simpa using hc
      obtain ⟨hs1, hh⟩ := hg.fresh hc'
      have hci := hg.complete_iff
      rcases start_cases hg hc' out with ⟨h0, h⟩ | ⟨h1, _, h⟩ | ⟨h1, _, h⟩ <;> rw [h]
      · refine ⟨hg.len, hg.pos, hg.le, by simp [hs1, h0], by simp, hg.recorded, hg.pending, ?_, ?_⟩
        · simp [hh]
        · simp [hh]
      · refine ⟨hg.len, hg.pos, hg.le, ?_, by simp, hg.recorded, hg.pending, ?_, ?_⟩
        · simp [hc'] at hci; simp [hci]; omega
        · simp [hh]
        · simp [hh]
      · refine ⟨hg.len, hg.pos, hg.le, ?_, by simp, hg.recorded, hg.pending, ?_, ?_⟩
        · simp [hc'] at hci; simp [hci]; omega
        · have : min 1 n = 1 := by omega
          simp [handoverOf, hs1, this]
        · simp [handoverOf, hs1]
  | next k rc out =>
    by_cases hc : s.created = true
    · rcases next_cases hg hc k rc out with ⟨_, h⟩ | ⟨_, _, h⟩ | ⟨_, h2, h⟩ | ⟨_, h2, _, h⟩ | ⟨_, h2, _, h⟩ <;> rw [h]
      · exact hg
      · exact hg
      · exact good_advance_last hg hc rc h2
      · have := good_advance_mid hg hc rc h2 [] (Or.inl rfl)
        simpa using this
      · exact good_advance_mid hg hc rc h2 _ (Or.inr rfl)
    · have hc' : s.created = false := by simpa using hc
      rw [step_next_fresh s k rc out hc']; exact hg

theorem good_run {n : Nat} {s : State} (hg : Good n s) (ops : List Op) : Good n (run s ops) := by
  induction ops generalizing s with
  | nil => exact hg
  | cons op ops ih => exact ih (good_step hg op)

theorem run_cons (s : State) (op : Op) (ops : List Op) : run s (op :: ops) = run (step s op).1 ops := rfl
theorem run_nil (s : State) : run s [] = s := rfl
theorem run_append (s : State) (a b : List Op) : run s (a ++ b) = run (run s a) b := by
  simp [run, List.foldl_append]

/-! ## Part 3: consequences used by the property theorems -/

@[simp] theorem accepted_ite (r : Int) : (if r ≠ 0 then Res.execError else Res.ok).accepted = true := by
  split <;> rfl

@[simp] theorem accepted_ite' (r : Int) : (if r = 0 then Res.ok else Res.execError).accepted = true := by
  split <;> rfl

/-- a call that is not accepted changes nothing -/
theorem rejected_unchanged {n : Nat} {s : State} (hg : Good n s) (op : Op)
    (h : (step s op).2.accepted = false) : (step s op).1 = s := by
  cases op with
  | start out =>
    by_cases hc : s.created = true
    · rw [step_start_created s out hc]
    · have hc' : s.created = false := by simpa using hc
      rcases start_cases hg hc' out with ⟨_, e⟩ | ⟨_, _, e⟩ | ⟨_, _, e⟩ <;> rw [e] at h <;>
        first | (simp at h; done) | (simp [Res.accepted] at h; done)
  | next k rc out =>
    by_cases hc : s.created = true
    · rcases next_cases hg hc k rc out with ⟨_, e⟩ | ⟨_, _, e⟩ | ⟨_, _, e⟩ | ⟨_, _, _, e⟩ | ⟨_, _, _, e⟩ <;>
        rw [e] at h ⊢ <;> first | rfl | (simp at h; done) | (simp [Res.accepted] at h; done)
    · have hc' : s.created = false := by simpa using hc
      rw [step_next_fresh s k rc out hc']

/-- an accepted `submit-next-stage` call carries the next stage number and moves the current stage by one -/
theorem next_accepted {n : Nat} {s : State} (hg : Good n s) (k rc : Int) (out : Outcome)
    (h : (step s (.next k rc out)).2.accepted = true) :
    s.created = true ∧ k = ((s.cfg.stageNum + 1 : Nat) : Int) ∧ s.cfg.stageNum ≤ n ∧
      (step s (.next k rc out)).1.cfg.stageNum = s.cfg.stageNum + 1 ∧
      (step s (.next k rc out)).1.cfg.returnCodes[s.cfg.stageNum - 1]? = some (some rc) := by
  have hlen := hg.len
  have hpos := hg.pos
  by_cases hc : s.created = true
  · rcases next_cases hg hc k rc out with ⟨_, e⟩ | ⟨_, _, e⟩ | ⟨hk, h2, e⟩ | ⟨hk, h2, _, e⟩ | ⟨hk, h2, _, e⟩ <;>
      rw [e] at h ⊢
    · simp [Res.accepted] at h
    · simp [Res.accepted] at h
    · exact ⟨hc, hk, by omega, rfl, advance_get_self _ _ (by omega)⟩
    · exact ⟨hc, hk, by omega, rfl, advance_get_self _ _ (by omega)⟩
    · exact ⟨hc, hk, by omega, rfl, advance_get_self _ _ (by omega)⟩
  · have hc' : s.created = false := by simpa using hc
    rw [step_next_fresh s k rc out hc'] at h
    simp [Res.accepted] at h

/-- `jade pipeline submit` never moves the current stage -/
theorem start_stageNum {n : Nat} {s : State} (hg : Good n s) (out : Outcome) :
    (step s (.start out)).1.cfg.stageNum = s.cfg.stageNum ∧
    (step s (.start out)).1.cfg.returnCodes = s.cfg.returnCodes := by
  by_cases hc : s.created = true
  · rw [step_start_created s out hc]; exact ⟨rfl, rfl⟩
  · have hc' : s.created = false := by simpa using hc
    rcases start_cases hg hc' out with ⟨_, e⟩ | ⟨_, _, e⟩ | ⟨_, _, e⟩ <;> rw [e] <;> exact ⟨rfl, rfl⟩

/-- the current stage never decreases, and what has been recorded stays -/
theorem step_mono {n : Nat} {s : State} (hg : Good n s) (op : Op) :
    s.cfg.stageNum ≤ (step s op).1.cfg.stageNum ∧
    ∀ i : Nat, i + 1 < s.cfg.stageNum → (step s op).1.cfg.returnCodes[i]? = s.cfg.returnCodes[i]? := by
  cases op with
  | start out =>
    obtain ⟨h1, h2⟩ := start_stageNum hg out
    exact ⟨by omega, fun i _ => by rw [h2]⟩
  | next k rc out =>
    by_cases hc : s.created = true
    · rcases next_cases hg hc k rc out with ⟨_, e⟩ | ⟨_, _, e⟩ | ⟨_, _, e⟩ | ⟨_, _, _, e⟩ | ⟨_, _, _, e⟩ <;> rw [e]
      · exact ⟨Nat.le_refl _, fun _ _ => rfl⟩
      · exact ⟨Nat.le_refl _, fun _ _ => rfl⟩
      · exact ⟨by simp, fun i hi => advance_get_ne _ _ _ (by omega)⟩
      · exact ⟨by simp, fun i hi => advance_get_ne _ _ _ (by omega)⟩
      · exact ⟨by simp, fun i hi => advance_get_ne _ _ _ (by omega)⟩
    · have hc' : s.created = false := by simpa using hc
      rw [step_next_fresh s k rc out hc']
      exact ⟨Nat.le_refl _, fun _ _ => rfl⟩

theorem run_mono {n : Nat} {s : State} (hg : Good n s) (ops : List Op) :
    s.cfg.stageNum ≤ (run s ops).cfg.stageNum ∧
    ∀ i : Nat, i + 1 < s.cfg.stageNum → (run s ops).cfg.returnCodes[i]? = s.cfg.returnCodes[i]? := by
  induction ops generalizing s with
  | nil => exact ⟨Nat.le_refl _, fun _ _ => rfl⟩
  | cons op ops ih =>
    obtain ⟨h1, h2⟩ := step_mono hg op
    obtain ⟨h3, h4⟩ := ih (good_step hg op)
    rw [run_cons]
    exact ⟨by omega, fun i hi => by rw [h4 i (by omega), h2 i hi]⟩

/-- the accepted calls from a good state are `stageNum+1, stageNum+2, …`; the current stage counts them -/
theorem accepted_spec {n : Nat} {s : State} (hg : Good n s) (ops : List Op) :
    acceptedStages s ops = (List.range' (s.cfg.stageNum + 1) (acceptedStages s ops).length).map Int.ofNat ∧
    (run s ops).cfg.stageNum = s.cfg.stageNum + (acceptedStages s ops).length := by
  induction ops generalizing s with
  | nil => simp [acceptedStages, run_nil]
  | cons op ops ih =>
    cases op with
    | start out =>
      obtain ⟨h1, h2⟩ := ih (good_step hg (.start out))
      obtain ⟨hs, _⟩ := start_stageNum hg out
      simp only [acceptedStages, run_cons]
      rw [hs] at h1 h2
      exact ⟨h1, h2⟩
    | next k rc out =>
      obtain ⟨h1, h2⟩ := ih (good_step hg (.next k rc out))
      simp only [acceptedStages, run_cons]
      by_cases ha : (step s (.next k rc out)).2.accepted = true
      · obtain ⟨_, hk, _, hs, _⟩ := next_accepted hg k rc out ha
        rw [hs] at h1 h2
        simp only [ha, if_true, List.length_cons, List.range'_succ, List.map_cons]
        refine ⟨?_, by omega⟩
        rw [← h1]
        simp [hk]
      · have ha' : (step s (.next k rc out)).2.accepted = false := by simpa using ha
        have hu := rejected_unchanged hg _ ha'
        rw [hu] at h1 h2
        simp only [ha', Bool.false_eq_true, if_false, hu]
        exact ⟨h1, h2⟩

/-- once complete, every further command is refused and nothing changes -/
theorem complete_frozen {n : Nat} {s : State} (hg : Good n s) (hcomp : s.cfg.isComplete = true) (op : Op) :
    (step s op).1 = s ∧
    (step s op).2 = (match op with
      | .start _ => .dirExists
      | .next k _ _ => if k = ((n + 2 : Nat) : Int) then .indexError else .invalidParam) := by
  obtain ⟨hc, hs⟩ := hg.complete_iff.mp hcomp
  cases op with
  | start out => rw [step_start_created s out hc]; exact ⟨rfl, rfl⟩
  | next k rc out =>
    rcases next_cases hg hc k rc out with ⟨hk, e⟩ | ⟨hk, _, e⟩ | ⟨_, h2, _⟩ | ⟨_, h2, _⟩ | ⟨_, h2, _⟩
    · rw [e]; refine ⟨rfl, ?_⟩
      have : ¬ k = ((n + 2 : Nat) : Int) := by rw [hs] at hk; exact hk
      show Res.invalidParam = if k = ((n + 2 : Nat) : Int) then Res.indexError else Res.invalidParam
      rw [if_neg this]
    · rw [e]; refine ⟨rfl, ?_⟩
      have : k = ((n + 2 : Nat) : Int) := by rw [hs] at hk; exact hk
      show Res.indexError = if k = ((n + 2 : Nat) : Int) then Res.indexError else Res.invalidParam
      rw [if_pos this]
    · omega
    · omega
    · omega

theorem run_complete {n : Nat} {s : State} (hg : Good n s) (hcomp : s.cfg.isComplete = true) (ops : List Op) :
    run s ops = s := by
  induction ops with
  | nil => rfl
  | cons op ops ih => rw [run_cons, (complete_frozen hg hcomp op).1, ih]

/-- what one command does to the list of hand-overs -/
theorem step_handover {n : Nat} {s : State} (hg : Good n s) (op : Op) :
    (step s op).1.handovers = s.handovers ∨
    ((step s op).1.handovers = s.handovers ++ [handoverOf (step s op).1.cfg] ∧
      (step s op).1.cfg.isComplete = false ∧ (step s op).1.cfg.stageNum ≤ n ∧ op.args.out.cfgOk = true) := by
  have hci := hg.complete_iff
  cases op with
  | start out =>
    by_cases hc : s.created = true
    · rw [step_start_created s out hc]; exact Or.inl rfl
    · have hc' : s.created = false := by simpa using hc
      obtain ⟨hs1, hh⟩ := hg.fresh hc'
      rcases start_cases hg hc' out with ⟨_, e⟩ | ⟨_, _, e⟩ | ⟨h1, h3, e⟩ <;> rw [e]
      · exact Or.inl rfl
      · exact Or.inl rfl
      · right
        refine ⟨by simp [hh], ?_, by simp; omega, by simpa [Op.args] using h3⟩
        simp [hc'] at hci; simpa using hci
  | next k rc out =>
    by_cases hc : s.created = true
    · rcases next_cases hg hc k rc out with ⟨_, e⟩ | ⟨_, _, e⟩ | ⟨_, _, e⟩ | ⟨_, _, _, e⟩ | ⟨_, h2, h3, e⟩ <;> rw [e]
      · exact Or.inl rfl
      · exact Or.inl rfl
      · exact Or.inl rfl
      · exact Or.inl rfl
      · right
        refine ⟨rfl, ?_, by simp; omega, by simpa [Op.args] using h3⟩
        simp only [advance_isComplete]
        cases hic : s.cfg.isComplete with
        | false => rfl
        | true => have := (hci.mp hic).2; omega
    · have hc' : s.created = false := by simpa using hc
      rw [step_next_fresh s k rc out hc']; exact Or.inl rfl

/-- without configuration failures the stages handed over are exactly `1 … min stageNum n` -/
def Exact (n : Nat) (s : State) : Prop :=
  s.created = true → s.handovers.map (·.stage) = List.range' 1 (min s.cfg.stageNum n)

theorem exact_step {n : Nat} {s : State} (hg : Good n s) (hx : Exact n s) (op : Op)
    (hop : op.args.out.cfgOk = true) : Exact n (step s op).1 := by
  have hpos := hg.pos
  cases op with
  | start out =>
    by_cases hc : s.created = true
    · rw [step_start_created s out hc]; exact hx
    · have hc' : s.created = false := by simpa using hc
      obtain ⟨hs1, hh⟩ := hg.fresh hc'
      rcases start_cases hg hc' out with ⟨h0, e⟩ | ⟨_, h3, _⟩ | ⟨h1, _, e⟩
      · rw [e]; intro _; simp [hh, h0]
      · simp [Op.args] at hop; rw [hop] at h3; cases h3
      · rw [e]; intro _
        have : min 1 n = 1 := by omega
        simp [handoverOf, hs1, this]
  | next k rc out =>
    by_cases hc : s.created = true
    · have hx' := hx hc
      rcases next_cases hg hc k rc out with ⟨_, e⟩ | ⟨_, _, e⟩ | ⟨_, h2, e⟩ | ⟨_, _, h3, _⟩ | ⟨_, h2, _, e⟩
      · rw [e]; exact hx
      · rw [e]; exact hx
      · rw [e]; intro _
        have h1 : min (s.cfg.stageNum + 1) n = n := by omega
        have h0 : min s.cfg.stageNum n = n := by omega
        simp only [advance_stageNum, h1]
        rw [hx', h0]
      · simp [Op.args] at hop; rw [hop] at h3; cases h3
      · rw [e]; intro _
        have h1 : min (s.cfg.stageNum + 1) n = s.cfg.stageNum + 1 := by omega
        have h0 : min s.cfg.stageNum n = s.cfg.stageNum := by omega
        simp only [advance_stageNum, h1, List.map_append, hx', h0, List.range'_concat]
        simp [handoverOf]; omega
    · have hc' : s.created = false := by simpa using hc
      rw [step_next_fresh s k rc out hc']; exact hx

theorem exact_run {n : Nat} {s : State} (hg : Good n s) (hx : Exact n s) (ops : List Op)
    (hops : ∀ op ∈ ops, op.args.out.cfgOk = true) : Exact n (run s ops) := by
  induction ops generalizing s with
  | nil => exact hx
  | cons op ops ih =>
    rw [run_cons]
    exact ih (good_step hg op) (exact_step hg hx op (hops op (by simp))) (fun o ho => hops o (by simp [ho]))

/-! ## Part 4: the undisturbed run -/

/-- the reports of consecutive stages, in order, starting with stage number `a`, in a benign environment -/
def reports (a : Nat) : List Int → List Op
  | [] => []
  | r :: rs => .next ((a : Nat) : Int) r Outcome.good :: reports (a + 1) rs

theorem reports_append (a : Nat) (xs ys : List Int) :
    reports a (xs ++ ys) = reports a xs ++ reports (a + xs.length) ys := by
  induction xs generalizing a with
  | nil => simp [reports]
  | cons x xs ih =>
    have : a + 1 + xs.length = a + (xs.length + 1) := by omega
    simp [reports, ih, this]

theorem reports_cfgOk (a : Nat) (rs : List Int) : ∀ op ∈ reports a rs, op.args.out.cfgOk = true := by
  induction rs generalizing a with
  | nil => intro op h; simp [reports] at h
  | cons r rs ih =>
    intro op h
    simp only [reports, List.mem_cons] at h
    rcases h with h | h
    · subst h; rfl
    · exact ih _ op h

/-- the in-order report of the current stage of a running, incomplete pipeline is accepted -/
theorem next_in_order_accepted {n : Nat} {s : State} (hg : Good n s) (hc : s.created = true)
    (hle : s.cfg.stageNum ≤ n) (rc : Int) (out : Outcome) :
    (step s (.next ((s.cfg.stageNum + 1 : Nat) : Int) rc out)).2.accepted = true := by
  rcases next_cases hg hc ((s.cfg.stageNum + 1 : Nat) : Int) rc out with
    ⟨h, _⟩ | ⟨_, h2, _⟩ | ⟨_, _, e⟩ | ⟨_, _, _, e⟩ | ⟨_, _, _, e⟩
  · exact absurd rfl h
  · omega
  all_goals (rw [e]; first | (simp; done) | (simp [Res.accepted]; done))

/-- in-order reports on a running pipeline are all accepted: the current stage advances by their number -/
theorem run_reports {n : Nat} {s : State} (hg : Good n s) (hc : s.created = true) (rs : List Int)
    (hle : s.cfg.stageNum + rs.length ≤ n + 1) :
    (run s (reports (s.cfg.stageNum + 1) rs)).cfg.stageNum = s.cfg.stageNum + rs.length ∧
    (run s (reports (s.cfg.stageNum + 1) rs)).created = true := by
  induction rs generalizing s with
  | nil => exact ⟨rfl, hc⟩
  | cons r rs ih =>
    simp only [reports, run_cons]
    simp only [List.length_cons] at hle
    have hacc := next_in_order_accepted hg hc (by omega) r Outcome.good
    obtain ⟨_, _, _, hs, _⟩ := next_accepted hg _ r Outcome.good hacc
    have hg' := good_step hg (.next ((s.cfg.stageNum + 1 : Nat) : Int) r Outcome.good)
    have hc' : (step s (.next ((s.cfg.stageNum + 1 : Nat) : Int) r Outcome.good)).1.created = true := by
      cases h : (step s (.next ((s.cfg.stageNum + 1 : Nat) : Int) r Outcome.good)).1.created with
      | true => rfl
      | false => have := (hg'.fresh h).1; have := hg.pos; omega
    have := ih hg' hc' (by rw [hs]; omega)
    rw [hs] at this
    refine ⟨by rw [this.1, List.length_cons]; omega, this.2⟩

end Jade.Pipeline
