import JadeModel.Model.Queue

/-! Invariants of the node-level job queue (`Model/Queue.lean`): C02 / C04 / C06 node level. -/

namespace Jade.Queue
open Jade.Gen.Queue

/-! ### generated predicates in plain terms (one lemma each) -/

theorem isFull_iff (o d : Nat) : isFull o d = true ↔ d ≤ o := by simp [isFull]

theorem submitRuns_iff (f : Bool) (b : List Nat) : submitRuns f b = true ↔ (f = false ∧ b = []) := by
  cases f <;> cases b <;> simp [submitRuns]

theorem runCounted_async : runCounted asyncRunStatus = true := by decide

theorem nothingQueued_iff (q : List Nat) : nothingQueued q = true ↔ q = [] := by
  cases q <;> simp [nothingQueued]

theorem availableJobs_eq (d : Nat) (o : List Nat) : availableJobs d o = (d : Int) - (o.length : Int) := by
  simp [availableJobs]

/-- only used for non-negative values (see `avail_nonneg`) -/
theorem noneAvailable_iff (a : Int) (_h : 0 ≤ a) : noneAvailable a = true ↔ a = 0 := by
  unfold noneAvailable; simp <;> omega

theorem startBlocked_iff (b : List Nat) : startBlocked b = true ↔ b ≠ [] := by
  cases b <;> simp [startBlocked]

theorem startBreak_iff (n : Nat) (a : Int) : startBreak n a = true ↔ a ≤ (n : Int) := by
  simp [startBreak]

theorem failedCode_iff (rc : Int) : failedCode rc = true ↔ rc ≠ 0 := by simp [failedCode]

theorem failedCode_cancelRc : failedCode cancelRc = true := by decide

theorem scanGuard_iff (b : List Nat) : scanGuard b = true ↔ b ≠ [] := by
  cases b <;> simp [scanGuard]

theorem cancelCond_iff (f : Bool) (b failed : List Nat) :
    cancelCond f b failed = true ↔ (f = true ∧ ∃ x, x ∈ b ∧ x ∈ failed) := by
  simp [cancelCond, intersectsB_iff]

theorem removeCond_iff (n : Nat) (b : List Nat) : removeCond n b = true ↔ n ∈ b := by
  simp [removeCond]

theorem waitMore_iff (o q : List Nat) : waitMore o q = true ↔ (o ≠ [] ∨ q ≠ []) := by
  cases o <;> cases q <;> simp [waitMore]

theorem waitAssert_iff (a b : Nat) : waitAssert a b = true ↔ a = b := by simp [waitAssert]

theorem cancelSetsComplete_eq : cancelSetsComplete = true := rfl
theorem cancelStatus_eq : cancelStatus = RowStatus.canceled := rfl
theorem completeStatus_eq : completeStatus = RowStatus.finished := rfl

theorem maxNumWorkers_eq (np : Option Nat) (cpus : Nat) : maxNumWorkers np cpus = np.getD cpus := by
  cases np <;> simp [maxNumWorkers]

theorem numWorkers_eq (n m : Nat) : numWorkers n m = min n m := rfl

/-! ### derived decision lemmas -/

theorem doCancel_iff (failed : List JobId) (q : Job) :
    doCancel failed q = true ↔ (q.cancelFlag = true ∧ ∃ x, x ∈ q.blockers ∧ x ∈ failed) := by
  unfold doCancel
  rw [Bool.and_eq_true, scanGuard_iff, cancelCond_iff]
  constructor
  · rintro ⟨-, h⟩; exact h
  · rintro ⟨hf, x, hx, hxf⟩
    exact ⟨List.ne_nil_of_mem hx, hf, x, hx, hxf⟩

theorem dropBlocker_id (n : JobId) (q : Job) : (dropBlocker n q).id = q.id := by
  unfold dropBlocker; split <;> rfl

theorem dropBlocker_flag (n : JobId) (q : Job) : (dropBlocker n q).cancelFlag = q.cancelFlag := by
  unfold dropBlocker; split <;> rfl

theorem mem_dropBlocker (n : JobId) (q : Job) (b : JobId) :
    b ∈ (dropBlocker n q).blockers ↔ (b ∈ q.blockers ∧ b ≠ n) := by
  unfold dropBlocker
  split
  · simp
  · next h =>
    rw [Bool.and_eq_true, scanGuard_iff, removeCond_iff] at h
    constructor
    · intro hb
      refine ⟨hb, ?_⟩
      rintro rfl
      exact h ⟨List.ne_nil_of_mem hb, hb⟩
    · exact fun hb => hb.1

theorem Slot.code_running {o : Slot} (h : o.st = .running) : o.code = none := by
  simp [Slot.code, h]

theorem Slot.code_exited {o : Slot} {rc : Int} (h : o.st = .exited rc) : o.code = some rc := by
  simp [Slot.code, h]

theorem Slot.code_canceled {o : Slot} (h : o.st = .canceled) : o.code = some cancelRc := by
  simp [Slot.code, h, cancelSetsComplete_eq]

theorem Slot.complete_iff (o : Slot) : o.complete = true ↔ o.st ≠ .running := by
  unfold Slot.complete
  cases hs : o.st <;> simp [Slot.code, hs, cancelSetsComplete_eq]

/-! ### the ghost log -/

/-- the job has a row -/
def HasRow (l : List Ev) (j : JobId) : Prop := ∃ rc st, Ev.row j rc st ∈ l
/-- an outcome that counts as failure for dependents: non-zero code (a canceled row has one) -/
def Bad (rc : Int) (st : RowStatus) : Prop := failedCode rc = true ∨ st = .canceled
def BadRow (l : List Ev) (j : JobId) : Prop := ∃ rc st, Ev.row j rc st ∈ l ∧ Bad rc st
def GoodRow (l : List Ev) (j : JobId) : Prop := ∃ rc st, Ev.row j rc st ∈ l ∧ ¬ Bad rc st

theorem HasRow.mono {l l' : List Ev} {j : JobId} (h : HasRow l j) (hs : ∀ e ∈ l, e ∈ l') : HasRow l' j := by
  obtain ⟨rc, st, hm⟩ := h; exact ⟨rc, st, hs _ hm⟩

theorem BadRow.mono {l l' : List Ev} {j : JobId} (h : BadRow l j) (hs : ∀ e ∈ l, e ∈ l') : BadRow l' j := by
  obtain ⟨rc, st, hm, hb⟩ := h; exact ⟨rc, st, hs _ hm, hb⟩

theorem GoodRow.mono {l l' : List Ev} {j : JobId} (h : GoodRow l j) (hs : ∀ e ∈ l, e ∈ l') : GoodRow l' j := by
  obtain ⟨rc, st, hm, hb⟩ := h; exact ⟨rc, st, hs _ hm, hb⟩

theorem GoodRow.hasRow {l : List Ev} {j : JobId} (h : GoodRow l j) : HasRow l j := by
  obtain ⟨rc, st, hm, -⟩ := h; exact ⟨rc, st, hm⟩

theorem BadRow.hasRow {l : List Ev} {j : JobId} (h : BadRow l j) : HasRow l j := by
  obtain ⟨rc, st, hm, -⟩ := h; exact ⟨rc, st, hm⟩

theorem HasRow_append (l l' : List Ev) (j : JobId) : HasRow (l ++ l') j ↔ (HasRow l j ∨ HasRow l' j) := by
  simp only [HasRow, List.mem_append]
  constructor
  · rintro ⟨rc, st, h | h⟩
    · exact .inl ⟨rc, st, h⟩
    · exact .inr ⟨rc, st, h⟩
  · rintro (⟨rc, st, h⟩ | ⟨rc, st, h⟩)
    · exact ⟨rc, st, .inl h⟩
    · exact ⟨rc, st, .inr h⟩

theorem mem_append_left' {α} {l : List α} (l' : List α) : ∀ e ∈ l, e ∈ l ++ l' :=
  fun _ h => List.mem_append_left _ h

/-- what must hold of the log so far (`l`) when event `e` happens; `H` = the jobs handed to the queue -/
def EvOk (H : List Job) (l : List Ev) : Ev → Prop
  | .start j => Ev.start j ∉ l ∧ ¬ HasRow l j ∧
      ∃ h ∈ H, h.id = j ∧ ∀ b ∈ h.blockers, HasRow l b ∧ (h.cancelFlag = true → GoodRow l b)
  | .row j rc st => ¬ HasRow l j ∧
      ((st = .finished ∧ Ev.start j ∈ l) ∨
       (st = .canceled ∧ rc = cancelRc ∧ Ev.start j ∉ l ∧
          ∃ h ∈ H, h.id = j ∧ h.cancelFlag = true ∧ ∃ b ∈ h.blockers, BadRow l b))

/-- every event of the log was legal when it happened -/
inductive LogOk (H : List Job) : List Ev → Prop
  | nil : LogOk H []
  | snoc {l : List Ev} {e : Ev} : LogOk H l → EvOk H l e → LogOk H (l ++ [e])

theorem EvOk.mono_handed {H H' : List Job} {l : List Ev} {e : Ev} (h : EvOk H l e)
    (hs : ∀ x ∈ H, x ∈ H') : EvOk H' l e := by
  cases e with
  | start j =>
    obtain ⟨h1, h2, x, hx, h3⟩ := h
    exact ⟨h1, h2, x, hs x hx, h3⟩
  | row j rc st =>
    obtain ⟨h1, h2⟩ := h
    refine ⟨h1, ?_⟩
    rcases h2 with h2 | ⟨h2, h3, h4, x, hx, h5⟩
    · exact .inl h2
    · exact .inr ⟨h2, h3, h4, x, hs x hx, h5⟩

theorem LogOk.mono_handed {H H' : List Job} {l : List Ev} (h : LogOk H l) (hs : ∀ x ∈ H, x ∈ H') :
    LogOk H' l := by
  induction h with
  | nil => exact .nil
  | snoc _ he ih => exact .snoc ih (he.mono_handed hs)

/-- the readable form: every event is legal with respect to the prefix before it -/
theorem LogOk.split {H : List Job} {l : List Ev} (h : LogOk H l) :
    ∀ (pre : List Ev) (e : Ev) (post : List Ev), l = pre ++ e :: post → EvOk H pre e := by
  induction h with
  | nil => intro pre e post h; simp at h
  | @snoc l e0 _ he ih =>
    intro pre e post heq
    rcases List.eq_nil_or_concat post with rfl | ⟨post', b, rfl⟩
    · have := List.append_inj' heq (by simp)
      obtain ⟨h1, h2⟩ := this
      cases h2; subst h1; exact he
    · have h' : l ++ [e0] = (pre ++ e :: post') ++ [b] := by simp [heq]
      have := List.append_inj' h' (by simp)
      exact ih pre e post' this.1

theorem LogOk.append {H : List Job} (es : List Ev) : ∀ {l : List Ev}, LogOk H l →
    (∀ (pre : List Ev) (e : Ev) (post : List Ev), es = pre ++ e :: post → EvOk H (l ++ pre) e) →
    LogOk H (l ++ es) := by
  induction es with
  | nil => intro l h _; simpa using h
  | cons e es ih =>
    intro l h hall
    have h1 : LogOk H (l ++ [e]) := .snoc h (by simpa using hall [] e es rfl)
    have := ih h1 (fun pre e' post heq => by
      have := hall (e :: pre) e' post (by simp [heq])
      simpa using this)
    simpa using this

theorem LogOk.append_map {H : List Job} {α : Type} (f : α → Ev) (xs : List α) {l : List Ev}
    (h : LogOk H l)
    (hall : ∀ (xs1 : List α) (x : α) (xs2 : List α), xs = xs1 ++ x :: xs2 → EvOk H (l ++ xs1.map f) (f x)) :
    LogOk H (l ++ xs.map f) := by
  apply LogOk.append _ h
  intro pre e post heq
  obtain ⟨xs1, r, rfl, hpre, hr⟩ := List.map_eq_append_iff.1 heq
  obtain ⟨x, xs2, rfl, hx, -⟩ := List.map_eq_cons_iff.1 hr
  subst hpre hx
  exact hall xs1 x xs2 rfl

def Ev.job : Ev → JobId
  | .start j => j
  | .row j _ _ => j

theorem LogOk.mem_handed {H : List Job} {l : List Ev} (h : LogOk H l) :
    ∀ e ∈ l, ∃ x ∈ H, x.id = e.job := by
  induction h with
  | nil => simp
  | @snoc l e0 _ he ih =>
    intro e hm
    rcases List.mem_append.1 hm with hm | hm
    · exact ih e hm
    · simp only [List.mem_singleton] at hm
      subst hm
      cases e with
      | start j => obtain ⟨-, -, x, hx, h3, -⟩ := he; exact ⟨x, hx, h3⟩
      | row j rc st =>
        obtain ⟨-, h2⟩ := he
        rcases h2 with ⟨-, h2⟩ | ⟨-, -, -, x, hx, h3, -⟩
        · exact ih (Ev.start j) h2
        · exact ⟨x, hx, h3⟩

/-- a job is launched at most once -/
theorem LogOk.start_once {H : List Job} {l : List Ev} (h : LogOk H l) (j : JobId) :
    (l.filter (· == Ev.start j)).length ≤ 1 := by
  induction h with
  | nil => simp
  | @snoc l e0 _ he ih =>
    rw [List.filter_append, List.length_append]
    by_cases hj : e0 = Ev.start j
    · subst hj
      obtain ⟨h1, -⟩ := he
      have : l.filter (· == Ev.start j) = [] := by
        simp only [List.filter_eq_nil_iff, beq_iff_eq]
        intro a ha hh; subst hh; exact h1 ha
      simp [this]
    · have : [e0].filter (· == Ev.start j) = [] := by simp [hj]
      simp [this]; exact ih

/-- a job gets at most one row -/
theorem LogOk.row_unique {H : List Job} {l : List Ev} (h : LogOk H l) {j : JobId} {rc rc' : Int}
    {st st' : RowStatus} (h1 : Ev.row j rc st ∈ l) (h2 : Ev.row j rc' st' ∈ l) : rc = rc' ∧ st = st' := by
  induction h with
  | nil => simp at h1
  | @snoc l e0 _ he ih =>
    rcases List.mem_append.1 h1 with a1 | a1 <;> rcases List.mem_append.1 h2 with a2 | a2
    · exact ih a1 a2
    · simp only [List.mem_singleton] at a2; subst a2
      exact absurd ⟨rc, st, a1⟩ he.1
    · simp only [List.mem_singleton] at a1; subst a1
      exact absurd ⟨rc', st', a2⟩ he.1
    · simp only [List.mem_singleton] at a1 a2; subst a1; cases a2; exact ⟨rfl, rfl⟩

theorem LogOk.row_once {H : List Job} {l : List Ev} (h : LogOk H l) (j : JobId) :
    (l.filter (fun e => match e with | .row k _ _ => k == j | _ => false)).length ≤ 1 := by
  induction h with
  | nil => simp
  | @snoc l e0 _ he ih =>
    rw [List.filter_append, List.length_append]
    cases e0 with
    | start k => simpa using ih
    | row k rc st =>
      by_cases hk : k = j
      · subst hk
        have : l.filter (fun e => match e with | .row k' _ _ => k' == k | _ => false) = [] := by
          simp only [List.filter_eq_nil_iff]
          intro a ha
          cases a with
          | start _ => simp
          | row k' rc' st' =>
            simp only [beq_iff_eq]
            intro hh; subst hh
            exact he.1 ⟨rc', st', ha⟩
        simp [this]
      · simp [hk]; exact ih

/-- a finished row belongs to a launched job; a canceled row has the cancel code, its job is never
    launched (before or after) -/
theorem LogOk.finished_started {H : List Job} {l : List Ev} (h : LogOk H l) {j : JobId} {rc : Int}
    (h1 : Ev.row j rc .finished ∈ l) : Ev.start j ∈ l := by
  induction h with
  | nil => simp at h1
  | @snoc l e0 _ he ih =>
    rcases List.mem_append.1 h1 with a1 | a1
    · exact List.mem_append_left _ (ih a1)
    · simp only [List.mem_singleton] at a1; subst a1
      obtain ⟨-, h2⟩ := he
      rcases h2 with ⟨-, h2⟩ | ⟨h2, -⟩
      · exact List.mem_append_left _ h2
      · cases h2

theorem LogOk.canceled_not_started {H : List Job} {l : List Ev} (h : LogOk H l) {j : JobId} {rc : Int}
    (h1 : Ev.row j rc .canceled ∈ l) : Ev.start j ∉ l ∧ rc = cancelRc := by
  induction h with
  | nil => simp at h1
  | @snoc l e0 _ he ih =>
    rcases List.mem_append.1 h1 with a1 | a1
    · obtain ⟨ih1, ih2⟩ := ih a1
      refine ⟨?_, ih2⟩
      intro hs
      rcases List.mem_append.1 hs with hs | hs
      · exact ih1 hs
      · simp only [List.mem_singleton] at hs; subst hs
        exact he.2.1 ⟨rc, _, a1⟩
    · simp only [List.mem_singleton] at a1; subst a1
      obtain ⟨-, h2⟩ := he
      rcases h2 with ⟨h2, -⟩ | ⟨-, h3, h4, -⟩
      · cases h2
      · refine ⟨?_, h3⟩
        intro hs
        rcases List.mem_append.1 hs with hs | hs
        · exact h4 hs
        · simp at hs

/-! ### list helpers -/

theorem eq_of_map_nodup {α β : Type} {f : α → β} : ∀ {l : List α}, (l.map f).Nodup →
    ∀ {x y : α}, x ∈ l → y ∈ l → f x = f y → x = y := by
  intro l
  induction l with
  | nil => intro _ x y hx; simp at hx
  | cons a l ih =>
    intro hn x y hx hy hxy
    simp only [List.map_cons, List.nodup_cons, List.mem_map, not_exists, not_and] at hn
    rcases List.mem_cons.1 hx with hx' | hx' <;> rcases List.mem_cons.1 hy with hy' | hy'
    · rw [hx', hy']
    · subst hx'; exact absurd hxy.symm (hn.1 y hy')
    · subst hy'; exact absurd hxy (hn.1 x hx')
    · exact ih hn.2 hx' hy' hxy

theorem nodup_split {α β : Type} {f : α → β} {xs xs1 xs2 : List α} {x : α}
    (hn : (xs.map f).Nodup) (h : xs = xs1 ++ x :: xs2) : ∀ y ∈ xs1, f y ≠ f x := by
  subst h
  intro y hy heq
  simp only [List.map_append, List.map_cons] at hn
  have := (List.nodup_append.1 hn).2.2 (f y) (List.mem_map_of_mem hy) (f x) (by simp)
  exact this heq

theorem nodup_map_filter {α β : Type} {f : α → β} {l : List α} (p : α → Bool)
    (h : (l.map f).Nodup) : ((l.filter p).map f).Nodup :=
  h.sublist (List.filter_sublist.map f)

@[simp] theorem HasRow_nil (j : JobId) : HasRow [] j ↔ False := by simp [HasRow]

@[simp] theorem HasRow_snoc_start (l : List Ev) (k j : JobId) :
    HasRow (l ++ [Ev.start k]) j ↔ HasRow l j := by
  simp [HasRow]

@[simp] theorem HasRow_snoc_row (l : List Ev) (k j : JobId) (rc : Int) (st : RowStatus) :
    HasRow (l ++ [Ev.row k rc st]) j ↔ (HasRow l j ∨ k = j) := by
  simp only [HasRow, List.mem_append, List.mem_singleton, Ev.row.injEq]
  constructor
  · rintro ⟨rc', st', h | h⟩
    · exact .inl ⟨rc', st', h⟩
    · exact .inr h.1.symm
  · rintro (⟨rc', st', h⟩ | h)
    · exact ⟨rc', st', .inl h⟩
    · exact ⟨rc, st, .inr ⟨h.symm, rfl, rfl⟩⟩

/-! ### the invariant -/

/-- the state invariant of the queue (also valid inside a `_check_completions` call, where exited and
    canceled entries sit in `outstanding`) -/
structure Good (s : QState) : Prop where
  hNodup : (s.handed.map (·.id)).Nodup
  qNodup : (s.queued.map (·.id)).Nodup
  oNodup : (s.outstanding.map (·.id)).Nodup
  disj : ∀ q ∈ s.queued, ∀ o ∈ s.outstanding, q.id ≠ o.id
  logOk : LogOk s.handed s.log
  qNoEv : ∀ q ∈ s.queued, Ev.start q.id ∉ s.log ∧ ¬ HasRow s.log q.id
  qHanded : ∀ q ∈ s.queued, ∃ h ∈ s.handed, h.id = q.id ∧ h.cancelFlag = q.cancelFlag ∧
      (∀ b ∈ q.blockers, b ∈ h.blockers) ∧
      ∀ b ∈ h.blockers, b ∈ q.blockers ∨ (HasRow s.log b ∧ (h.cancelFlag = true → GoodRow s.log b))
  oHanded : ∀ o ∈ s.outstanding, ∃ h ∈ s.handed, h.id = o.id
  oRun : ∀ o ∈ s.outstanding, o.st = .running → Ev.start o.id ∈ s.log ∧ ¬ HasRow s.log o.id
  oExit : ∀ o ∈ s.outstanding, ∀ rc : Int, o.st = .exited rc → Ev.row o.id rc .finished ∈ s.log
  oCan : ∀ o ∈ s.outstanding, o.st = .canceled → Ev.row o.id cancelRc .canceled ∈ s.log
  gone : ∀ h ∈ s.handed, h.id ∉ s.queuedIds → h.id ∉ s.outIds → HasRow s.log h.id
  live : (s.outstanding.filter (fun o => o.st != .canceled)).length ≤ s.depth

/-- between two operations every outstanding entry is a running process -/
@[reducible] def Tidy (s : QState) : Prop := ∀ o ∈ s.outstanding, o.st = .running

/-- `_num_jobs` / `_num_completed` bookkeeping -/
@[reducible] def Counted (s : QState) : Prop := s.numJobs = s.numCompleted + s.outstanding.length

theorem good_init (d : Nat) : Good (QState.init d) := by
  constructor <;> simp [QState.init, QState.queuedIds, QState.outIds, LogOk.nil]

theorem Good.fresh_noEv {s : QState} (h : Good s) {j : JobId} (hf : j ∉ s.handed.map (·.id)) :
    Ev.start j ∉ s.log ∧ ¬ HasRow s.log j := by
  constructor
  · intro hm
    obtain ⟨x, hx, he⟩ := h.logOk.mem_handed _ hm
    exact hf (List.mem_map.2 ⟨x, hx, he⟩)
  · rintro ⟨rc, st, hm⟩
    obtain ⟨x, hx, he⟩ := h.logOk.mem_handed _ hm
    exact hf (List.mem_map.2 ⟨x, hx, he⟩)

theorem Good.live_le {s : QState} (h : Good s) (ht : Tidy s) : s.outstanding.length ≤ s.depth := by
  have : s.outstanding.filter (fun o => o.st != .canceled) = s.outstanding := by
    rw [List.filter_eq_self]
    intro o ho; simp [ht o ho]
  have := h.live
  rwa [‹s.outstanding.filter _ = _›] at this

/-! ### `submit` -/


theorem good_enqueue {s : QState} {j : Job} (h : Good s) (hf : j.id ∉ s.handed.map (·.id)) :
    Good (enqueue j (hand j s)) := by
  have hne := h.fresh_noEv hf
  have hqf : j.id ∉ s.queued.map (·.id) := by
    intro hm
    obtain ⟨q, hq, he⟩ := List.mem_map.1 hm
    obtain ⟨x, hx, hxe, -⟩ := h.qHanded q hq
    exact hf (List.mem_map.2 ⟨x, hx, by rw [hxe, he]⟩)
  have hof : j.id ∉ s.outstanding.map (·.id) := by
    intro hm
    obtain ⟨o, ho, he⟩ := List.mem_map.1 hm
    obtain ⟨x, hx, hxe⟩ := h.oHanded o ho
    exact hf (List.mem_map.2 ⟨x, hx, by rw [hxe, he]⟩)
  constructor
  · simp only [enqueue, hand, List.map_append, List.map_cons, List.map_nil]
    exact List.nodup_append.2 ⟨h.hNodup, by simp, by
      intro a ha b hb; simp at hb; subst hb; rintro rfl; exact hf ha⟩
  · simp only [enqueue, hand, List.map_append, List.map_cons, List.map_nil]
    exact List.nodup_append.2 ⟨h.qNodup, by simp, by
      intro a ha b hb; simp at hb; subst hb; rintro rfl; exact hqf ha⟩
  · exact h.oNodup
  · intro q hq o ho
    simp only [enqueue, hand, List.mem_append, List.mem_singleton] at hq ho
    rcases hq with hq | rfl
    · exact h.disj q hq o ho
    · intro he; exact hof (List.mem_map.2 ⟨o, ho, he.symm⟩)
  · exact h.logOk.mono_handed (mem_append_left' _)
  · intro q hq
    simp only [enqueue, hand, List.mem_append, List.mem_singleton] at hq
    rcases hq with hq | rfl
    · exact h.qNoEv q hq
    · exact hne
  · intro q hq
    simp only [enqueue, hand, List.mem_append, List.mem_singleton] at hq
    rcases hq with hq | rfl
    · obtain ⟨x, hx, h1⟩ := h.qHanded q hq
      exact ⟨x, List.mem_append_left _ hx, h1⟩
    · exact ⟨q, by simp [enqueue, hand], rfl, rfl, fun b hb => hb, fun b hb => .inl hb⟩
  · intro o ho
    obtain ⟨x, hx, h1⟩ := h.oHanded o ho
    exact ⟨x, List.mem_append_left _ hx, h1⟩
  · exact h.oRun
  · exact h.oExit
  · exact h.oCan
  · intro x hx h1 h2
    simp only [enqueue, hand, List.mem_append, List.mem_singleton, QState.queuedIds, QState.outIds,
      List.map_append, List.map_cons, List.map_nil, not_or] at hx h1 h2
    rcases hx with hx | rfl
    · exact h.gone x hx h1.1 h2
    · exact absurd rfl h1.2
  · exact h.live



theorem runJob_eq (j : Job) (s : QState) : runJob j s =
    { s with log := s.log ++ [.start j.id], numJobs := s.numJobs + 1,
             outstanding := s.outstanding ++ [{ id := j.id, st := .running }] } := by
  simp [runJob, runCounted_async]

theorem good_launch {s : QState} {j : Job} (h : Good s) (hf : j.id ∉ s.handed.map (·.id))
    (hb : j.blockers = []) (hd : s.outstanding.length < s.depth) :
    Good (runJob j (hand j s)) := by
  have hne := h.fresh_noEv hf
  have hof : j.id ∉ s.outstanding.map (·.id) := by
    intro hm
    obtain ⟨o, ho, he⟩ := List.mem_map.1 hm
    obtain ⟨x, hx, hxe⟩ := h.oHanded o ho
    exact hf (List.mem_map.2 ⟨x, hx, by rw [hxe, he]⟩)
  have hqne : ∀ q ∈ s.queued, q.id ≠ j.id := by
    intro q hq he
    obtain ⟨x, hx, hxe, -⟩ := h.qHanded q hq
    exact hf (List.mem_map.2 ⟨x, hx, by rw [hxe, he]⟩)
  rw [runJob_eq]
  constructor
  · simp only [hand, List.map_append, List.map_cons, List.map_nil]
    exact List.nodup_append.2 ⟨h.hNodup, by simp, by
      intro a ha b hb; simp at hb; subst hb; rintro rfl; exact hf ha⟩
  · exact h.qNodup
  · simp only [hand, List.map_append, List.map_cons, List.map_nil]
    exact List.nodup_append.2 ⟨h.oNodup, by simp, by
      intro a ha b hb; simp at hb; subst hb; rintro rfl; exact hof ha⟩
  · intro q hq o ho
    simp only [hand, List.mem_append, List.mem_singleton] at hq ho
    rcases ho with ho | rfl
    · exact h.disj q hq o ho
    · exact hqne q hq
  · refine .snoc (h.logOk.mono_handed (mem_append_left' _)) ⟨hne.1, hne.2, j, by simp [hand], rfl, ?_⟩
    intro b hb'; rw [hb] at hb'; simp at hb'
  · intro q hq
    have := h.qNoEv q hq
    simp only [hand, List.mem_append, List.mem_singleton, Ev.start.injEq, not_or, HasRow_snoc_start]
    exact ⟨⟨this.1, hqne q hq⟩, this.2⟩
  · intro q hq
    obtain ⟨x, hx, h1, h2, h3, h4⟩ := h.qHanded q hq
    refine ⟨x, List.mem_append_left _ hx, h1, h2, h3, ?_⟩
    intro b hb
    rcases h4 b hb with h5 | ⟨h5, h6⟩
    · exact .inl h5
    · exact .inr ⟨h5.mono (mem_append_left' _), fun hc => (h6 hc).mono (mem_append_left' _)⟩
  · intro o ho
    simp only [hand, List.mem_append, List.mem_singleton] at ho
    rcases ho with ho | rfl
    · obtain ⟨x, hx, h1⟩ := h.oHanded o ho
      exact ⟨x, List.mem_append_left _ hx, h1⟩
    · exact ⟨j, by simp [hand], rfl⟩
  · intro o ho hst
    simp only [hand, List.mem_append, List.mem_singleton] at ho
    simp only [hand, HasRow_snoc_start]
    rcases ho with ho | rfl
    · exact ⟨List.mem_append_left _ (h.oRun o ho hst).1, (h.oRun o ho hst).2⟩
    · exact ⟨by simp, hne.2⟩
  · intro o ho rc hst
    simp only [hand, List.mem_append, List.mem_singleton] at ho
    rcases ho with ho | rfl
    · exact List.mem_append_left _ (h.oExit o ho rc hst)
    · cases hst
  · intro o ho hst
    simp only [hand, List.mem_append, List.mem_singleton] at ho
    rcases ho with ho | rfl
    · exact List.mem_append_left _ (h.oCan o ho hst)
    · cases hst
  · intro x hx h1 h2
    simp only [hand, List.mem_append, List.mem_singleton, QState.queuedIds, QState.outIds,
      List.map_append, List.map_cons, List.map_nil, not_or, HasRow_snoc_start] at hx h1 h2 ⊢
    rcases hx with hx | rfl
    · exact h.gone x hx h1 h2.1
    · exact absurd rfl h2.2
  · simp only [hand, List.filter_append, List.length_append]
    have h1 := h.live
    have h2 : (s.outstanding.filter (fun o => o.st != .canceled)).length ≤ s.outstanding.length :=
      List.length_filter_le _ _
    simp
    omega



theorem good_submit {s : QState} {j : Job} (h : Good s) (hf : j.id ∉ s.handed.map (·.id)) :
    Good (submit j s) := by
  unfold submit
  split
  · next hc =>
    rw [submitRuns_iff] at hc
    have : ¬ s.depth ≤ s.outstanding.length := by
      intro hh; have := (isFull_iff _ _).2 hh; rw [hc.1] at this; cases this
    exact good_launch h hf hc.2 (by omega)
  · exact good_enqueue h hf

theorem tidy_submit {s : QState} {j : Job} (h : Tidy s) : Tidy (submit j s) := by
  unfold submit
  split
  · rw [runJob_eq]
    intro o ho
    simp only [hand, List.mem_append, List.mem_singleton] at ho
    rcases ho with ho | rfl
    · exact h o ho
    · rfl
  · exact h

theorem counted_submit {s : QState} {j : Job} (h : Counted s) : Counted (submit j s) := by
  unfold submit
  split
  · rw [runJob_eq]
    simp only [Counted, hand, List.length_append, List.length_cons, List.length_nil] at h ⊢
    omega
  · exact h

/-! ### polling -/

theorem exitCode_some {ev : Poll} {o : Slot} {rc : Int} (h : exitCode ev o = some rc) :
    o.st = .running := by
  unfold exitCode at h
  split at h
  · assumption
  · cases h

theorem pollSlot_id (ev : Poll) (o : Slot) : (pollSlot ev o).id = o.id := by
  unfold pollSlot; split <;> rfl

theorem pollSlot_some {ev : Poll} {o : Slot} {rc : Int} (h : exitCode ev o = some rc) :
    (pollSlot ev o).st = .exited rc := by
  unfold pollSlot; rw [h]

theorem pollSlot_none {ev : Poll} {o : Slot} (h : exitCode ev o = none) : pollSlot ev o = o := by
  unfold pollSlot; rw [h]

/-- the exited processes of a poll round, and their rows -/
def exiting (ev : Poll) (s : QState) : List Slot := s.outstanding.filter (fun o => (exitCode ev o).isSome)
def rowOf (ev : Poll) (o : Slot) : Ev := Ev.row o.id ((exitCode ev o).getD 0) completeStatus

theorem filterMap_exitRow (ev : Poll) (l : List Slot) :
    l.filterMap (exitRow ev) = (l.filter (fun o => (exitCode ev o).isSome)).map (rowOf ev) := by
  induction l with
  | nil => rfl
  | cons o l ih =>
    cases hc : exitCode ev o with
    | none => simp [exitRow, hc, ih]
    | some rc => simp [exitRow, hc, ih, rowOf]

theorem pollAll_eq (ev : Poll) (s : QState) : pollAll ev s =
    { s with outstanding := s.outstanding.map (pollSlot ev), log := s.log ++ (exiting ev s).map (rowOf ev) } := by
  simp [pollAll, filterMap_exitRow, exiting]

theorem mem_exiting {ev : Poll} {s : QState} {o : Slot} :
    o ∈ exiting ev s ↔ (o ∈ s.outstanding ∧ ∃ rc, exitCode ev o = some rc) := by
  simp [exiting, Option.isSome_iff_exists]

theorem mem_rows_exiting {ev : Poll} {s : QState} {e : Ev} :
    e ∈ (exiting ev s).map (rowOf ev) ↔
      ∃ o ∈ s.outstanding, ∃ rc, exitCode ev o = some rc ∧ e = Ev.row o.id rc .finished := by
  simp only [List.mem_map, mem_exiting]
  constructor
  · rintro ⟨o, ⟨ho, rc, hrc⟩, rfl⟩
    exact ⟨o, ho, rc, hrc, by simp [rowOf, hrc, completeStatus_eq]⟩
  · rintro ⟨o, ho, rc, hrc, rfl⟩
    exact ⟨o, ⟨ho, rc, hrc⟩, by simp [rowOf, hrc, completeStatus_eq]⟩

theorem hasRow_rows_exiting {ev : Poll} {s : QState} {j : JobId} :
    HasRow ((exiting ev s).map (rowOf ev)) j ↔ ∃ o ∈ s.outstanding, (∃ rc, exitCode ev o = some rc) ∧ o.id = j := by
  simp only [HasRow, mem_rows_exiting]
  constructor
  · rintro ⟨rc, st, o, ho, rc', hrc, he⟩
    cases he
    exact ⟨o, ho, ⟨rc, hrc⟩, rfl⟩
  · rintro ⟨o, ho, ⟨rc, hrc⟩, rfl⟩
    exact ⟨rc, .finished, o, ho, rc, hrc, rfl⟩

theorem good_pollAll {s : QState} (ev : Poll) (h : Good s) : Good (pollAll ev s) := by
  rw [pollAll_eq]
  have hids : (s.outstanding.map (pollSlot ev)).map (·.id) = s.outstanding.map (·.id) := by
    simp [List.map_map, Function.comp_def, pollSlot_id]
  have hsub : ∀ e ∈ s.log, e ∈ s.log ++ (exiting ev s).map (rowOf ev) := mem_append_left' _
  have hstart : ∀ k, Ev.start k ∈ s.log ++ (exiting ev s).map (rowOf ev) ↔ Ev.start k ∈ s.log := by
    intro k
    simp only [List.mem_append, mem_rows_exiting]
    constructor
    · rintro (h1 | ⟨o, _, rc, _, he⟩)
      · exact h1
      · cases he
    · exact .inl
  constructor
  · exact h.hNodup
  · exact h.qNodup
  · show ((s.outstanding.map (pollSlot ev)).map (·.id)).Nodup
    rw [hids]; exact h.oNodup
  · intro q hq o' ho'
    obtain ⟨o, ho, rfl⟩ := List.mem_map.1 ho'
    rw [pollSlot_id]; exact h.disj q hq o ho
  · apply LogOk.append_map _ _ h.logOk
    intro xs1 o xs2 hx
    have ho : o ∈ exiting ev s := by rw [hx]; simp
    obtain ⟨hom, rc, hrc⟩ := mem_exiting.1 ho
    have hrun := h.oRun o hom (exitCode_some hrc)
    have hnd : ((exiting ev s).map (·.id)).Nodup := nodup_map_filter _ h.oNodup
    have hne := nodup_split hnd hx
    have hrow : rowOf ev o = Ev.row o.id rc .finished := by simp [rowOf, hrc, completeStatus_eq]
    rw [hrow]
    refine ⟨?_, .inl ⟨rfl, List.mem_append_left _ hrun.1⟩⟩
    rw [HasRow_append]
    rintro (h1 | ⟨rc', st', h1⟩)
    · exact hrun.2 h1
    · obtain ⟨y, hy, he⟩ := List.mem_map.1 h1
      simp only [rowOf, Ev.row.injEq] at he
      exact hne y hy he.1
  · intro q hq
    have := h.qNoEv q hq
    refine ⟨fun hm => this.1 ((hstart _).1 hm), ?_⟩
    rw [HasRow_append, hasRow_rows_exiting]
    rintro (h1 | ⟨o, ho, -, he⟩)
    · exact this.2 h1
    · exact h.disj q hq o ho he.symm
  · intro q hq
    obtain ⟨x, hx, h1, h2, h3, h4⟩ := h.qHanded q hq
    refine ⟨x, hx, h1, h2, h3, ?_⟩
    intro b hb
    rcases h4 b hb with h5 | ⟨h5, h6⟩
    · exact .inl h5
    · exact .inr ⟨h5.mono hsub, fun hc => (h6 hc).mono hsub⟩
  · intro o' ho'
    obtain ⟨o, ho, rfl⟩ := List.mem_map.1 ho'
    rw [pollSlot_id]; exact h.oHanded o ho
  · intro o' ho' hst
    obtain ⟨o, ho, rfl⟩ := List.mem_map.1 ho'
    cases hc : exitCode ev o with
    | some rc => rw [pollSlot_some hc] at hst; cases hst
    | none =>
      rw [pollSlot_none hc] at hst ⊢
      have := h.oRun o ho hst
      refine ⟨hsub _ this.1, ?_⟩
      rw [HasRow_append, hasRow_rows_exiting]
      rintro (h1 | ⟨o2, ho2, ⟨rc, hrc⟩, he⟩)
      · exact this.2 h1
      · have := eq_of_map_nodup h.oNodup ho2 ho he
        subst this; rw [hc] at hrc; cases hrc
  · intro o' ho' rc hst
    obtain ⟨o, ho, rfl⟩ := List.mem_map.1 ho'
    cases hc : exitCode ev o with
    | some rc' =>
      rw [pollSlot_some hc] at hst; cases hst
      rw [pollSlot_id]
      exact List.mem_append_right _ (mem_rows_exiting.2 ⟨o, ho, rc, hc, rfl⟩)
    | none =>
      rw [pollSlot_none hc] at hst ⊢
      exact hsub _ (h.oExit o ho rc hst)
  · intro o' ho' hst
    obtain ⟨o, ho, rfl⟩ := List.mem_map.1 ho'
    cases hc : exitCode ev o with
    | some rc' => rw [pollSlot_some hc] at hst; cases hst
    | none =>
      rw [pollSlot_none hc] at hst ⊢
      exact hsub _ (h.oCan o ho hst)
  · intro x hx h1 h2
    simp only [QState.outIds, hids] at h2
    exact (h.gone x hx h1 h2).mono hsub
  · show ((s.outstanding.map (pollSlot ev)).filter (fun o => o.st != .canceled)).length ≤ s.depth
    rw [List.filter_map, List.length_map]
    have : (s.outstanding.filter ((fun o => o.st != .canceled) ∘ pollSlot ev)) =
        s.outstanding.filter (fun o => o.st != .canceled) := by
      apply List.filter_congr
      intro o _
      simp only [Function.comp]
      cases hc : exitCode ev o with
      | some rc' => rw [pollSlot_some hc, exitCode_some hc]; rfl
      | none => rw [pollSlot_none hc]
    rw [this]; exact h.live



theorem filter_filter_len {α : Type} (p q : α → Bool) (l : List α) :
    ((l.filter p).filter q).length ≤ (l.filter q).length := by
  induction l with
  | nil => simp
  | cons a l ih =>
    simp only [List.filter_cons]
    split <;> split <;> simp_all <;> omega

/-! ### reaping one completed name -/

/-- what the scan for a completed name relies on -/
structure ReapCtx (failed : List JobId) (s : QState) (name : JobId) : Prop where
  slot : ∃ o ∈ s.outstanding, o.id = name ∧ o.st ≠ .running ∧ (o.failed = true → name ∈ failed)
  bad : ∀ f ∈ failed, BadRow s.log f

theorem ReapCtx.hasRow {failed : List JobId} {s : QState} {name : JobId} (h : Good s)
    (c : ReapCtx failed s name) : HasRow s.log name := by
  obtain ⟨o, ho, rfl, hst, -⟩ := c.slot
  cases hs : o.st with
  | running => exact absurd hs hst
  | exited rc => exact ⟨rc, _, h.oExit o ho rc hs⟩
  | canceled => exact ⟨_, _, h.oCan o ho hs⟩

theorem ReapCtx.goodRow {failed : List JobId} {s : QState} {name : JobId} (h : Good s)
    (c : ReapCtx failed s name) (hn : name ∉ failed) : GoodRow s.log name := by
  obtain ⟨o, ho, rfl, hst, hf⟩ := c.slot
  cases hs : o.st with
  | running => exact absurd hs hst
  | exited rc =>
    refine ⟨rc, _, h.oExit o ho rc hs, ?_⟩
    rintro (hb | hb)
    · exact hn (hf (by simp [Slot.failed, Slot.code_exited hs, hb]))
    · cases hb
  | canceled =>
    exact absurd (hf (by simp [Slot.failed, Slot.code_canceled hs, failedCode_cancelRc])) hn

theorem mem_reap_queued {failed : List JobId} {s : QState} {name : JobId} {q' : Job} :
    q' ∈ (reap failed s name).queued ↔
      ∃ r ∈ s.queued, doCancel failed r = false ∧ q' = dropBlocker name r := by
  simp only [reap, List.mem_map, List.mem_filter, Bool.not_eq_true']
  constructor
  · rintro ⟨r, ⟨h1, h2⟩, rfl⟩; exact ⟨r, h1, h2, rfl⟩
  · rintro ⟨r, h1, h2, rfl⟩; exact ⟨r, ⟨h1, h2⟩, rfl⟩

theorem mem_reap_out {failed : List JobId} {s : QState} {name : JobId} {o' : Slot} :
    o' ∈ (reap failed s name).outstanding ↔
      ((o' ∈ s.outstanding ∧ o'.id ≠ name) ∨ ∃ k ∈ s.queued, doCancel failed k = true ∧ o' = cancelSlot k) := by
  simp only [reap, List.mem_append, List.mem_map, List.mem_filter, bne_iff_ne, ne_eq]
  constructor
  · rintro (h1 | ⟨k, ⟨h1, h2⟩, rfl⟩)
    · exact .inl h1
    · exact .inr ⟨k, h1, h2, rfl⟩
  · rintro (h1 | ⟨k, h1, h2, rfl⟩)
    · exact .inl h1
    · exact .inr ⟨k, ⟨h1, h2⟩, rfl⟩

theorem mem_cancelRows {failed : List JobId} {l : List Job} {e : Ev} :
    e ∈ (l.filter (doCancel failed)).map cancelRow ↔
      ∃ k ∈ l, doCancel failed k = true ∧ e = Ev.row k.id cancelRc .canceled := by
  simp only [List.mem_map, List.mem_filter, cancelRow, cancelStatus_eq]
  constructor
  · rintro ⟨k, ⟨h1, h2⟩, rfl⟩; exact ⟨k, h1, h2, rfl⟩
  · rintro ⟨k, h1, h2, rfl⟩; exact ⟨k, ⟨h1, h2⟩, rfl⟩

theorem hasRow_cancelRows {failed : List JobId} {l : List Job} {j : JobId} :
    HasRow ((l.filter (doCancel failed)).map cancelRow) j ↔ ∃ k ∈ l, doCancel failed k = true ∧ k.id = j := by
  simp only [HasRow, mem_cancelRows]
  constructor
  · rintro ⟨rc, st, k, h1, h2, he⟩; cases he; exact ⟨k, h1, h2, rfl⟩
  · rintro ⟨k, h1, h2, rfl⟩; exact ⟨_, _, k, h1, h2, rfl⟩

theorem start_mem_cancelRows {failed : List JobId} {l : List Job} {j : JobId} :
    Ev.start j ∈ (l.filter (doCancel failed)).map cancelRow ↔ False := by
  simp only [mem_cancelRows, iff_false, not_exists, not_and]
  intro k _ _ he; cases he

theorem good_reap {failed : List JobId} {s : QState} {name : JobId} (h : Good s)
    (c : ReapCtx failed s name) : Good (reap failed s name) := by
  have hsub : ∀ e ∈ s.log, e ∈ (reap failed s name).log := by
    intro e he; simp only [reap]; exact List.mem_append_left _ he
  have hstart : ∀ k, Ev.start k ∈ (reap failed s name).log ↔ Ev.start k ∈ s.log := by
    intro k
    simp only [reap, List.mem_append, start_mem_cancelRows, or_false]
  have hrow : ∀ j, HasRow (reap failed s name).log j ↔
      (HasRow s.log j ∨ ∃ k ∈ s.queued, doCancel failed k = true ∧ k.id = j) := by
    intro j; simp only [reap, HasRow_append, hasRow_cancelRows]
  have hqeq : ∀ {a b : Job}, a ∈ s.queued → b ∈ s.queued → a.id = b.id → a = b :=
    fun ha hb => eq_of_map_nodup h.qNodup ha hb
  constructor
  · exact h.hNodup
  · show (((s.queued.filter (fun q => !doCancel failed q)).map (dropBlocker name)).map (·.id)).Nodup
    have : ((s.queued.filter (fun q => !doCancel failed q)).map (dropBlocker name)).map (·.id) =
        (s.queued.filter (fun q => !doCancel failed q)).map (·.id) := by
      simp [List.map_map, Function.comp_def, dropBlocker_id]
    rw [this]; exact nodup_map_filter _ h.qNodup
  · show ((s.outstanding.filter (·.id != name) ++ (s.queued.filter (doCancel failed)).map cancelSlot).map (·.id)).Nodup
    rw [List.map_append]
    refine List.nodup_append.2 ⟨nodup_map_filter _ h.oNodup, ?_, ?_⟩
    · have : ((s.queued.filter (doCancel failed)).map cancelSlot).map (·.id) =
          (s.queued.filter (doCancel failed)).map (·.id) := by
        simp [List.map_map, Function.comp_def, cancelSlot]
      rw [this]; exact nodup_map_filter _ h.qNodup
    · intro a ha b hb
      obtain ⟨o, ho, rfl⟩ := List.mem_map.1 ha
      obtain ⟨o2, ho2, rfl⟩ := List.mem_map.1 hb
      obtain ⟨k, hk, rfl⟩ := List.mem_map.1 ho2
      exact (h.disj k (List.mem_filter.1 hk).1 o (List.mem_filter.1 ho).1).symm
  · intro q' hq' o' ho'
    obtain ⟨r, hr, hrc, rfl⟩ := mem_reap_queued.1 hq'
    rw [dropBlocker_id]
    rcases mem_reap_out.1 ho' with ⟨ho, -⟩ | ⟨k, hk, hkc, rfl⟩
    · exact h.disj r hr o' ho
    · intro he
      have := hqeq hr hk he
      subst this; rw [hrc] at hkc; cases hkc
  · show LogOk s.handed (s.log ++ (s.queued.filter (doCancel failed)).map cancelRow)
    apply LogOk.append_map _ _ h.logOk
    intro xs1 k xs2 hx
    have hk : k ∈ s.queued.filter (doCancel failed) := by rw [hx]; simp
    obtain ⟨hkq, hkc⟩ := List.mem_filter.1 hk
    have hnd : ((s.queued.filter (doCancel failed)).map (·.id)).Nodup := nodup_map_filter _ h.qNodup
    have hne := nodup_split hnd hx
    obtain ⟨hkf, b, hb, hbf⟩ := (doCancel_iff _ _).1 hkc
    obtain ⟨x, hx', h1, h2, h3, -⟩ := h.qHanded k hkq
    have hnoev := h.qNoEv k hkq
    have hrows : ∀ j, HasRow (xs1.map cancelRow) j → ∃ y ∈ xs1, y.id = j := by
      rintro j ⟨rc, st, hm⟩
      obtain ⟨y, hy, he⟩ := List.mem_map.1 hm
      simp only [cancelRow, Ev.row.injEq] at he
      exact ⟨y, hy, he.1⟩
    show EvOk s.handed _ (Ev.row k.id cancelRc cancelStatus)
    rw [cancelStatus_eq]
    refine ⟨?_, .inr ⟨rfl, rfl, ?_, x, hx', h1, by rw [h2, hkf], b, h3 b hb, (c.bad b hbf).mono (mem_append_left' _)⟩⟩
    · rw [HasRow_append]
      rintro (hh | hh)
      · exact hnoev.2 hh
      · obtain ⟨y, hy, he⟩ := hrows _ hh
        exact hne y hy he
    · intro hm
      rcases List.mem_append.1 hm with hm | hm
      · exact hnoev.1 hm
      · obtain ⟨y, _, he⟩ := List.mem_map.1 hm
        simp [cancelRow] at he
  · intro q' hq'
    obtain ⟨r, hr, hrc, rfl⟩ := mem_reap_queued.1 hq'
    rw [dropBlocker_id, hstart, hrow]
    have := h.qNoEv r hr
    refine ⟨this.1, ?_⟩
    rintro (hh | ⟨k, hk, hkc, he⟩)
    · exact this.2 hh
    · have := hqeq hk hr he
      subst this; rw [hrc] at hkc; cases hkc
  · intro q' hq'
    obtain ⟨r, hr, hrc, rfl⟩ := mem_reap_queued.1 hq'
    obtain ⟨x, hx, h1, h2, h3, h4⟩ := h.qHanded r hr
    refine ⟨x, hx, by rw [dropBlocker_id]; exact h1, by rw [dropBlocker_flag]; exact h2, ?_, ?_⟩
    · intro b hb; exact h3 b ((mem_dropBlocker _ _ _).1 hb).1
    · intro b hb
      rcases h4 b hb with h5 | ⟨h5, h6⟩
      · by_cases hbn : b = name
        · subst hbn
          refine .inr ⟨(c.hasRow h).mono hsub, fun hfl => ?_⟩
          have hnf : b ∉ failed := by
            intro hbf
            have : doCancel failed r = true := (doCancel_iff _ _).2 ⟨by rw [← h2]; exact hfl, b, h5, hbf⟩
            rw [hrc] at this; cases this
          exact (c.goodRow h hnf).mono hsub
        · exact .inl ((mem_dropBlocker _ _ _).2 ⟨h5, hbn⟩)
      · exact .inr ⟨h5.mono hsub, fun hc => (h6 hc).mono hsub⟩
  · intro o' ho'
    rcases mem_reap_out.1 ho' with ⟨ho, -⟩ | ⟨k, hk, hkc, rfl⟩
    · exact h.oHanded o' ho
    · obtain ⟨x, hx, h1, -⟩ := h.qHanded k hk
      exact ⟨x, hx, h1⟩
  · intro o' ho' hst
    rcases mem_reap_out.1 ho' with ⟨ho, -⟩ | ⟨k, hk, hkc, rfl⟩
    · have := h.oRun o' ho hst
      rw [hstart, hrow]
      refine ⟨this.1, ?_⟩
      rintro (hh | ⟨k, hk, -, he⟩)
      · exact this.2 hh
      · exact h.disj k hk o' ho he
    · cases hst
  · intro o' ho' rc hst
    rcases mem_reap_out.1 ho' with ⟨ho, -⟩ | ⟨k, hk, hkc, rfl⟩
    · exact hsub _ (h.oExit o' ho rc hst)
    · cases hst
  · intro o' ho' hst
    rcases mem_reap_out.1 ho' with ⟨ho, -⟩ | ⟨k, hk, hkc, rfl⟩
    · exact hsub _ (h.oCan o' ho hst)
    · simp only [reap]
      exact List.mem_append_right _ (mem_cancelRows.2 ⟨k, hk, hkc, rfl⟩)
  · intro x hx h1 h2
    rw [hrow]
    by_cases hxq : x.id ∈ s.queuedIds
    · obtain ⟨q, hq, he⟩ := List.mem_map.1 hxq
      cases hqc : doCancel failed q with
      | true => exact .inr ⟨q, hq, hqc, he⟩
      | false =>
        exfalso; apply h1
        exact List.mem_map.2 ⟨dropBlocker name q, mem_reap_queued.2 ⟨q, hq, hqc, rfl⟩, by rw [dropBlocker_id]; exact he⟩
    · by_cases hxo : x.id ∈ s.outIds
      · obtain ⟨o, ho, he⟩ := List.mem_map.1 hxo
        by_cases hon : o.id = name
        · left; rw [← he, hon]; exact c.hasRow h
        · exfalso; apply h2
          exact List.mem_map.2 ⟨o, mem_reap_out.2 (.inl ⟨ho, hon⟩), he⟩
      · exact .inl (h.gone x hx hxq hxo)
  · show ((s.outstanding.filter (·.id != name) ++ (s.queued.filter (doCancel failed)).map cancelSlot).filter
        (fun o => o.st != .canceled)).length ≤ s.depth
    rw [List.filter_append, List.length_append]
    have h1 : ((s.queued.filter (doCancel failed)).map cancelSlot).filter (fun o => o.st != .canceled) = [] := by
      rw [List.filter_eq_nil_iff]
      intro o ho
      obtain ⟨k, _, rfl⟩ := List.mem_map.1 ho
      simp [cancelSlot]
    have h2 : ((s.outstanding.filter (·.id != name)).filter (fun o => o.st != .canceled)).length ≤
        (s.outstanding.filter (fun o => o.st != .canceled)).length := by
      exact filter_filter_len _ _ _
    rw [h1]; simp only [List.length_nil, Nat.add_zero]
    exact Nat.le_trans h2 h.live



theorem filter_ne_length {α β : Type} [DecidableEq β] {f : α → β} : ∀ {l : List α} {a : β},
    (l.map f).Nodup → a ∈ l.map f → (l.filter (fun x => f x != a)).length + 1 = l.length := by
  intro l
  induction l with
  | nil => intro a _ h; simp at h
  | cons x l ih =>
    intro a hn ha
    simp only [List.map_cons, List.nodup_cons] at hn
    simp only [List.map_cons, List.mem_cons] at ha
    by_cases hx : f x = a
    · subst hx
      have : l.filter (fun y => f y != f x) = l := by
        rw [List.filter_eq_self]
        intro y hy
        simp only [bne_iff_ne, ne_eq]
        intro he; exact hn.1 (he ▸ List.mem_map_of_mem hy)
      simp [this]
    · have ha' : a ∈ l.map f := by
        rcases ha with ha | ha
        · exact absurd ha.symm hx
        · exact ha
      have := ih hn.2 ha'
      simp [hx]; omega

theorem filter_not_length {α : Type} (p : α → Bool) (l : List α) :
    (l.filter (fun x => !p x)).length ≤ l.length ∧
      (l.any p = true → (l.filter (fun x => !p x)).length < l.length) := by
  induction l with
  | nil => simp
  | cons a l ih =>
    cases hp : p a <;> simp [hp] <;> omega

/-! ### `for name in completed_jobs` -/

theorem reap_handed (failed : List JobId) (s : QState) (n : JobId) : (reap failed s n).handed = s.handed := rfl
theorem reap_depth (failed : List JobId) (s : QState) (n : JobId) : (reap failed s n).depth = s.depth := rfl
theorem reap_numCompleted (failed : List JobId) (s : QState) (n : JobId) :
    (reap failed s n).numCompleted = s.numCompleted := rfl

theorem reapCtx_reap {failed : List JobId} {s : QState} {name n' : JobId}
    (c' : ReapCtx failed s n') (hne : n' ≠ name) : ReapCtx failed (reap failed s name) n' := by
  obtain ⟨o, ho, h1, h2⟩ := c'.slot
  refine ⟨⟨o, mem_reap_out.2 (.inl ⟨ho, by rw [h1]; exact hne⟩), h1, h2⟩, ?_⟩
  intro f hf
  exact (c'.bad f hf).mono (by intro e he; simp only [reap]; exact List.mem_append_left _ he)

theorem reapAll_handed (failed : List JobId) : ∀ (names : List JobId) (s : QState),
    (reapAll failed names s).1.handed = s.handed ∧ (reapAll failed names s).1.depth = s.depth ∧
    (reapAll failed names s).1.numCompleted = s.numCompleted := by
  intro names
  induction names with
  | nil => intro s; exact ⟨rfl, rfl, rfl⟩
  | cons n ns ih => intro s; simp only [reapAll]; exact ih (reap failed s n)

theorem reapAll_log_sub (failed : List JobId) : ∀ (names : List JobId) (s : QState),
    ∀ e ∈ s.log, e ∈ (reapAll failed names s).1.log := by
  intro names
  induction names with
  | nil => intro s e he; exact he
  | cons n ns ih =>
    intro s e he
    simp only [reapAll]
    exact ih (reap failed s n) e (by simp only [reap]; exact List.mem_append_left _ he)

theorem good_reapAll (failed : List JobId) : ∀ (names : List JobId) (s : QState), Good s → names.Nodup →
    (∀ n ∈ names, ReapCtx failed s n) →
    s.numJobs + names.length = s.numCompleted + s.outstanding.length →
    Good (reapAll failed names s).1 ∧ Counted (reapAll failed names s).1 := by
  intro names
  induction names with
  | nil => intro s h _ _ hc; exact ⟨h, by simpa [Counted, reapAll] using hc⟩
  | cons n ns ih =>
    intro s h hn hctx hc
    simp only [reapAll]
    simp only [List.nodup_cons] at hn
    have hcn := hctx n (by simp)
    apply ih (reap failed s n) (good_reap h hcn) hn.2
    · intro n' hn'
      exact reapCtx_reap (hctx n' (by simp [hn'])) (by rintro rfl; exact hn.1 hn')
    · obtain ⟨o, ho, hon, -⟩ := hcn.slot
      have hlen := filter_ne_length (f := fun o : Slot => o.id) (a := n) h.oNodup
        (List.mem_map.2 ⟨o, ho, hon⟩)
      simp only [reap, List.length_append, List.length_map, List.length_cons] at hc ⊢
      omega

theorem reapAll_out (failed : List JobId) : ∀ (names : List JobId) (s : QState),
    ∀ o ∈ (reapAll failed names s).1.outstanding,
      (o ∈ s.outstanding ∧ o.id ∉ names) ∨ (o.st = .canceled ∧ (reapAll failed names s).2 = true) := by
  intro names
  induction names with
  | nil => intro s o ho; exact .inl ⟨ho, by simp⟩
  | cons n ns ih =>
    intro s o ho
    simp only [reapAll] at ho ⊢
    rcases ih (reap failed s n) o ho with ⟨h1, h2⟩ | ⟨h1, h2⟩
    · rcases mem_reap_out.1 h1 with ⟨h3, h4⟩ | ⟨k, hk, hkc, rfl⟩
      · exact .inl ⟨h3, by simp [h4, h2]⟩
      · refine .inr ⟨rfl, ?_⟩
        simp only [Bool.or_eq_true, List.any_eq_true]
        exact .inl ⟨k, hk, hkc⟩
    · exact .inr ⟨h1, by simp [h2]⟩

theorem reapAll_queued_len (failed : List JobId) : ∀ (names : List JobId) (s : QState),
    (reapAll failed names s).1.queued.length ≤ s.queued.length ∧
    ((reapAll failed names s).2 = true → (reapAll failed names s).1.queued.length < s.queued.length) := by
  intro names
  induction names with
  | nil => intro s; simp [reapAll]
  | cons n ns ih =>
    intro s
    simp only [reapAll]
    obtain ⟨h1, h2⟩ := ih (reap failed s n)
    obtain ⟨h3, h4⟩ := filter_not_length (doCancel failed) s.queued
    have hl : (reap failed s n).queued.length = (s.queued.filter (fun q => !doCancel failed q)).length := by
      simp [reap]
    refine ⟨by omega, ?_⟩
    intro hr
    simp only [Bool.or_eq_true] at hr
    rcases hr with hr | hr
    · have := h4 hr; omega
    · have := h2 hr; omega

/-! ### one pass, the rerun loop, `_check_completions` -/

theorem pollAll_handed (ev : Poll) (s : QState) : (pollAll ev s).handed = s.handed := rfl
theorem pollAll_queued (ev : Poll) (s : QState) : (pollAll ev s).queued = s.queued := rfl

theorem mem_completedOf {s : QState} {n : JobId} :
    n ∈ completedOf s ↔ ∃ o ∈ s.outstanding, o.st ≠ .running ∧ o.id = n := by
  simp [completedOf, Slot.complete_iff, and_assoc]

theorem completedOf_nodup {s : QState} (h : Good s) : (completedOf s).Nodup :=
  nodup_map_filter _ h.oNodup

theorem pass_fst (ev : Poll) (failed : List JobId) (s : QState) :
    (pass ev failed s).1 = (reapAll (failed ++ failedOf (pollAll ev s)) (completedOf (pollAll ev s))
      (addCompleted (completedOf (pollAll ev s)).length (pollAll ev s))).1 := rfl

theorem pass_failed (ev : Poll) (failed : List JobId) (s : QState) :
    (pass ev failed s).2.1 = failed ++ failedOf (pollAll ev s) := rfl

theorem pass_rerun (ev : Poll) (failed : List JobId) (s : QState) :
    (pass ev failed s).2.2 = (reapAll (failed ++ failedOf (pollAll ev s)) (completedOf (pollAll ev s))
      (addCompleted (completedOf (pollAll ev s)).length (pollAll ev s))).2 := rfl

theorem good_addCompleted {s : QState} (h : Good s) (n : Nat) : Good (addCompleted n s) := by
  obtain ⟨a1, a2, a3, a4, a5, a6, a7, a8, a9, a10, a11, a12, a13⟩ := h
  exact ⟨a1, a2, a3, a4, a5, a6, a7, a8, a9, a10, a11, a12, a13⟩

theorem failedOf_bad {s : QState} (h : Good s) : ∀ f ∈ failedOf s, BadRow s.log f := by
  intro f hf
  obtain ⟨o, ho, rfl⟩ := List.mem_map.1 hf
  obtain ⟨ho, hfl⟩ := List.mem_filter.1 ho
  cases hs : o.st with
  | running => simp [Slot.failed, Slot.code_running hs] at hfl
  | exited rc =>
    simp only [Slot.failed, Slot.code_exited hs] at hfl
    exact ⟨rc, _, h.oExit o ho rc hs, .inl hfl⟩
  | canceled => exact ⟨_, _, h.oCan o ho hs, .inr rfl⟩

theorem good_pass {ev : Poll} {failed : List JobId} {s : QState} (h : Good s) (hc : Counted s)
    (hb : ∀ f ∈ failed, BadRow s.log f) :
    Good (pass ev failed s).1 ∧ Counted (pass ev failed s).1 ∧
      (∀ f ∈ (pass ev failed s).2.1, BadRow (pass ev failed s).1.log f) := by
  have h1 : Good (pollAll ev s) := good_pollAll ev h
  have hb1 : ∀ f ∈ failed ++ failedOf (pollAll ev s), BadRow (pollAll ev s).log f := by
    intro f hf
    rcases List.mem_append.1 hf with hf | hf
    · exact (hb f hf).mono (by intro e he; rw [pollAll_eq]; exact List.mem_append_left _ he)
    · exact failedOf_bad h1 f hf
  have := good_reapAll (failed ++ failedOf (pollAll ev s)) (completedOf (pollAll ev s))
    (addCompleted (completedOf (pollAll ev s)).length (pollAll ev s))
    (good_addCompleted h1 _) (completedOf_nodup h1)
    (by
      intro n hn
      obtain ⟨o, ho, hst, rfl⟩ := mem_completedOf.1 hn
      refine ⟨⟨o, ho, rfl, hst, ?_⟩, hb1⟩
      intro hf
      exact List.mem_append_right _ (List.mem_map.2 ⟨o, List.mem_filter.2 ⟨ho, hf⟩, rfl⟩))
    (by
      have : (pollAll ev s).outstanding.length = s.outstanding.length := by simp [pollAll]
      have h2 : (pollAll ev s).numJobs = s.numJobs := rfl
      have h3 : (pollAll ev s).numCompleted = s.numCompleted := rfl
      simp only [addCompleted, this, h2, h3]
      unfold Counted at hc; omega)
  rw [pass_fst, pass_failed]
  refine ⟨this.1, this.2, ?_⟩
  intro f hf
  exact (hb1 f hf).mono (reapAll_log_sub _ _ (addCompleted (completedOf (pollAll ev s)).length (pollAll ev s)))

theorem pass_tidy {ev : Poll} {failed : List JobId} {s : QState} (hr : (pass ev failed s).2.2 = false) :
    Tidy (pass ev failed s).1 := by
  intro o ho
  rw [pass_fst] at ho
  rw [pass_rerun] at hr
  rcases reapAll_out _ _ _ o ho with ⟨h1, h2⟩ | ⟨-, h2⟩
  · cases hs : o.st with
    | running => rfl
    | exited rc => exact absurd (mem_completedOf.2 ⟨o, h1, by simp [hs], rfl⟩) h2
    | canceled => exact absurd (mem_completedOf.2 ⟨o, h1, by simp [hs], rfl⟩) h2
  · rw [hr] at h2; cases h2

theorem pass_queued_len (ev : Poll) (failed : List JobId) (s : QState) :
    (pass ev failed s).1.queued.length ≤ s.queued.length ∧
    ((pass ev failed s).2.2 = true → (pass ev failed s).1.queued.length < s.queued.length) := by
  rw [pass_fst, pass_rerun]
  exact reapAll_queued_len _ _ _

theorem pass_handed (ev : Poll) (failed : List JobId) (s : QState) :
    (pass ev failed s).1.handed = s.handed ∧ (pass ev failed s).1.depth = s.depth := by
  rw [pass_fst]
  have := reapAll_handed (failed ++ failedOf (pollAll ev s)) (completedOf (pollAll ev s))
    (addCompleted (completedOf (pollAll ev s)).length (pollAll ev s))
  exact ⟨this.1, this.2.1⟩

theorem good_checkLoop : ∀ (n : Nat) (evs : List Poll) (failed : List JobId) (s : QState),
    Good s → Counted s → (∀ f ∈ failed, BadRow s.log f) →
    Good (checkLoop n evs failed s) ∧ Counted (checkLoop n evs failed s) := by
  intro n
  induction n with
  | zero => intro evs failed s h hc _; exact ⟨h, hc⟩
  | succ n ih =>
    intro evs failed s h hc hb
    obtain ⟨h1, h2, h3⟩ := good_pass (ev := evs.headD []) h hc hb
    simp only [checkLoop]
    split
    · exact ih _ _ _ h1 h2 h3
    · exact ⟨h1, h2⟩

theorem tidy_checkLoop : ∀ (n : Nat) (evs : List Poll) (failed : List JobId) (s : QState),
    s.queued.length < n → Tidy (checkLoop n evs failed s) := by
  intro n
  induction n with
  | zero => intro evs failed s hl; omega
  | succ n ih =>
    intro evs failed s hl
    simp only [checkLoop]
    split
    · next hr =>
      have := (pass_queued_len (evs.headD []) failed s).2 hr
      exact ih _ _ _ (by omega)
    · next hr => exact pass_tidy (by simpa using hr)

theorem checkLoop_handed : ∀ (n : Nat) (evs : List Poll) (failed : List JobId) (s : QState),
    (checkLoop n evs failed s).handed = s.handed ∧ (checkLoop n evs failed s).depth = s.depth := by
  intro n
  induction n with
  | zero => intro evs failed s; exact ⟨rfl, rfl⟩
  | succ n ih =>
    intro evs failed s
    simp only [checkLoop]
    have := pass_handed (evs.headD []) failed s
    split
    · have := ih evs.tail (pass (evs.headD []) failed s).2.1 (pass (evs.headD []) failed s).1
      exact ⟨this.1.trans ‹_ ∧ _›.1, this.2.trans ‹_ ∧ _›.2⟩
    · exact this

theorem good_checkCompletions {s : QState} (evs : List Poll) (h : Good s) (hc : Counted s) :
    Good (checkCompletions evs s) ∧ Counted (checkCompletions evs s) ∧ Tidy (checkCompletions evs s) := by
  have := good_checkLoop (s.queued.length + 1) evs [] s h hc (by simp)
  exact ⟨this.1, this.2, tidy_checkLoop _ _ _ _ (by omega)⟩



/-! ### the start loop of `process_queue` -/

def runSlot (j : Job) : Slot := { id := j.id, st := .running }
def startEv (j : Job) : Ev := .start j.id

theorem runPicked_eq : ∀ (js : List Job) (s : QState), runPicked js s =
    { s with log := s.log ++ js.map startEv, numJobs := s.numJobs + js.length,
             outstanding := s.outstanding ++ js.map runSlot } := by
  intro js
  induction js with
  | nil => intro s; simp [runPicked]
  | cons j js ih =>
    intro s
    have := ih (runJob j s)
    simp only [runPicked, List.foldl_cons] at this ⊢
    rw [this, runJob_eq]
    simp [startEv, runSlot, Nat.add_assoc, Nat.add_comm 1]

theorem pick_mem (a : Int) : ∀ (qs : List Job) (n : Nat) (q : Job),
    (q ∈ (pick a n qs).1 → q ∈ qs ∧ q.blockers = []) ∧ (q ∈ (pick a n qs).2 → q ∈ qs) := by
  intro qs
  induction qs with
  | nil => intro n q; simp [pick]
  | cons x qs ih =>
    intro n q
    simp only [pick]
    split
    · have := ih n q
      refine ⟨fun h => ⟨List.mem_cons_of_mem _ (this.1 h).1, (this.1 h).2⟩, fun h => ?_⟩
      rcases List.mem_cons.1 h with h | h
      · simp [h]
      · exact List.mem_cons_of_mem _ (this.2 h)
    · next hb =>
      have hxb : x.blockers = [] := by
        by_cases hh : x.blockers = []
        · exact hh
        · exact absurd ((startBlocked_iff _).2 hh) hb
      split
      · refine ⟨fun h => ?_, fun h => List.mem_cons_of_mem _ h⟩
        simp only [List.mem_singleton] at h; subst h; exact ⟨by simp, hxb⟩
      · have := ih (n + 1) q
        refine ⟨fun h => ?_, fun h => List.mem_cons_of_mem _ (this.2 h)⟩
        rcases List.mem_cons.1 h with h | h
        · subst h; exact ⟨by simp, hxb⟩
        · exact ⟨List.mem_cons_of_mem _ (this.1 h).1, (this.1 h).2⟩

theorem pick_perm (a : Int) : ∀ (qs : List Job) (n : Nat),
    ((pick a n qs).1 ++ (pick a n qs).2).Perm qs := by
  intro qs
  induction qs with
  | nil => intro n; simp [pick]
  | cons x qs ih =>
    intro n
    simp only [pick]
    split
    · exact List.perm_middle.trans ((ih n).cons x)
    · split
      · exact List.Perm.refl _
      · exact (ih (n + 1)).cons x

theorem pick_len (a : Int) : ∀ (qs : List Job) (n : Nat), (n : Int) < a →
    (n : Int) + ((pick a n qs).1.length : Int) ≤ a := by
  intro qs
  induction qs with
  | nil => intro n h; simp [pick]; omega
  | cons x qs ih =>
    intro n h
    simp only [pick]
    split
    · exact ih n h
    · split
      · simp; omega
      · next hb =>
        have : ¬ a ≤ ((n + 1 : Nat) : Int) := fun hh => hb ((startBreak_iff _ _).2 hh)
        have := ih (n + 1) (by omega)
        simp only [List.length_cons]
        omega

/-- `available_jobs` is never negative where `process_queue` computes it -/
theorem avail_nonneg {s : QState} (h : Good s) (ht : Tidy s) : 0 ≤ availableJobs s.depth s.outIds := by
  rw [availableJobs_eq]
  have := h.live_le ht
  simp only [QState.outIds, List.length_map]
  omega

theorem good_start {s : QState} (h : Good s) (ht : Tidy s) (hc : Counted s) (a : Int)
    (ha : a = availableJobs s.depth s.outIds) (hpos : 0 < a) :
    Good (runPicked (pick a 0 s.queued).1 { s with queued := (pick a 0 s.queued).2 }) ∧
    Tidy (runPicked (pick a 0 s.queued).1 { s with queued := (pick a 0 s.queued).2 }) ∧
    Counted (runPicked (pick a 0 s.queued).1 { s with queued := (pick a 0 s.queued).2 }) := by
  rw [runPicked_eq]
  generalize hP : (pick a 0 s.queued).1 = P
  generalize hR : (pick a 0 s.queued).2 = R
  have hperm : (P ++ R).Perm s.queued := by rw [← hP, ← hR]; exact pick_perm a s.queued 0
  have hPm : ∀ q ∈ P, q ∈ s.queued ∧ q.blockers = [] := by
    intro q hq; rw [← hP] at hq; exact (pick_mem a s.queued 0 q).1 hq
  have hRm : ∀ q ∈ R, q ∈ s.queued := by
    intro q hq; rw [← hR] at hq; exact (pick_mem a s.queued 0 q).2 hq
  have hlen : (P.length : Int) ≤ a := by
    have := pick_len a s.queued 0 (by simpa using hpos)
    rw [hP] at this; simpa using this
  have hnd : ((P ++ R).map (·.id)).Nodup := (hperm.map _).nodup_iff.2 h.qNodup
  rw [List.map_append] at hnd
  obtain ⟨hndP, hndR, hdisj⟩ := List.nodup_append.1 hnd
  have hPR : ∀ p ∈ P, ∀ r ∈ R, p.id ≠ r.id := fun p hp r hr =>
    hdisj _ (List.mem_map_of_mem hp) _ (List.mem_map_of_mem hr)
  have hsub : ∀ e ∈ s.log, e ∈ s.log ++ P.map startEv := mem_append_left' _
  have hrow : ∀ j, HasRow (s.log ++ P.map startEv) j ↔ HasRow s.log j := by
    intro j
    rw [HasRow_append]
    constructor
    · rintro (h1 | ⟨rc, st, h1⟩)
      · exact h1
      · obtain ⟨y, _, he⟩ := List.mem_map.1 h1
        simp [startEv] at he
    · exact .inl
  have hstart : ∀ k, Ev.start k ∈ s.log ++ P.map startEv ↔ (Ev.start k ∈ s.log ∨ ∃ p ∈ P, p.id = k) := by
    intro k
    simp only [List.mem_append, List.mem_map, startEv, Ev.start.injEq]
  refine ⟨?_, ?_, ?_⟩
  · constructor
    · exact h.hNodup
    · exact hndR
    · show ((s.outstanding ++ P.map runSlot).map (·.id)).Nodup
      rw [List.map_append]
      refine List.nodup_append.2 ⟨h.oNodup, ?_, ?_⟩
      · have : (P.map runSlot).map (·.id) = P.map (·.id) := by
          simp [List.map_map, Function.comp_def, runSlot]
        rw [this]; exact hndP
      · intro x hx y hy
        obtain ⟨o, ho, rfl⟩ := List.mem_map.1 hx
        obtain ⟨o2, ho2, rfl⟩ := List.mem_map.1 hy
        obtain ⟨p, hp, rfl⟩ := List.mem_map.1 ho2
        exact (h.disj p (hPm p hp).1 o ho).symm
    · intro q hq o ho
      rcases List.mem_append.1 ho with ho | ho
      · exact h.disj q (hRm q hq) o ho
      · obtain ⟨p, hp, rfl⟩ := List.mem_map.1 ho
        exact (hPR p hp q hq).symm
    · show LogOk s.handed (s.log ++ P.map startEv)
      apply LogOk.append_map _ _ h.logOk
      intro xs1 p xs2 hx
      have hp : p ∈ P := by rw [hx]; simp
      have hne := nodup_split hndP hx
      obtain ⟨hpq, hpb⟩ := hPm p hp
      have hnoev := h.qNoEv p hpq
      obtain ⟨x, hx', h1, h2, h3, h4⟩ := h.qHanded p hpq
      have hrow1 : ∀ j, HasRow (s.log ++ xs1.map startEv) j ↔ HasRow s.log j := by
        intro j
        rw [HasRow_append]
        constructor
        · rintro (h1 | ⟨rc, st, h1⟩)
          · exact h1
          · obtain ⟨y, _, he⟩ := List.mem_map.1 h1
            simp [startEv] at he
        · exact .inl
      show EvOk s.handed _ (Ev.start p.id)
      refine ⟨?_, by rw [hrow1]; exact hnoev.2, x, hx', h1, ?_⟩
      · intro hm
        rcases List.mem_append.1 hm with hm | hm
        · exact hnoev.1 hm
        · obtain ⟨y, hy, he⟩ := List.mem_map.1 hm
          simp only [startEv, Ev.start.injEq] at he
          exact hne y hy he
      · intro b hb
        rcases h4 b hb with h5 | ⟨h5, h6⟩
        · rw [hpb] at h5; simp at h5
        · exact ⟨h5.mono (mem_append_left' _), fun hc => (h6 hc).mono (mem_append_left' _)⟩
    · intro q hq
      have := h.qNoEv q (hRm q hq)
      rw [hstart, hrow]
      refine ⟨?_, this.2⟩
      rintro (h1 | ⟨p, hp, he⟩)
      · exact this.1 h1
      · exact hPR p hp q hq he
    · intro q hq
      obtain ⟨x, hx, h1, h2, h3, h4⟩ := h.qHanded q (hRm q hq)
      refine ⟨x, hx, h1, h2, h3, ?_⟩
      intro b hb
      rcases h4 b hb with h5 | ⟨h5, h6⟩
      · exact .inl h5
      · exact .inr ⟨h5.mono hsub, fun hc => (h6 hc).mono hsub⟩
    · intro o ho
      rcases List.mem_append.1 ho with ho | ho
      · exact h.oHanded o ho
      · obtain ⟨p, hp, rfl⟩ := List.mem_map.1 ho
        obtain ⟨x, hx, h1, -⟩ := h.qHanded p (hPm p hp).1
        exact ⟨x, hx, h1⟩
    · intro o ho hst
      rw [hstart, hrow]
      rcases List.mem_append.1 ho with ho | ho
      · exact ⟨.inl (h.oRun o ho hst).1, (h.oRun o ho hst).2⟩
      · obtain ⟨p, hp, rfl⟩ := List.mem_map.1 ho
        exact ⟨.inr ⟨p, hp, rfl⟩, (h.qNoEv p (hPm p hp).1).2⟩
    · intro o ho rc hst
      rcases List.mem_append.1 ho with ho | ho
      · exact hsub _ (h.oExit o ho rc hst)
      · obtain ⟨p, hp, rfl⟩ := List.mem_map.1 ho; cases hst
    · intro o ho hst
      rcases List.mem_append.1 ho with ho | ho
      · exact hsub _ (h.oCan o ho hst)
      · obtain ⟨p, hp, rfl⟩ := List.mem_map.1 ho; cases hst
    · intro x hx h1 h2
      rw [hrow]
      simp only [QState.queuedIds, QState.outIds, List.map_append, List.mem_append, not_or] at h1 h2
      apply h.gone x hx
      · intro hq
        obtain ⟨q, hq, he⟩ := List.mem_map.1 hq
        rcases List.mem_append.1 ((hperm.mem_iff).2 hq) with hq' | hq'
        · exact h2.2 (List.mem_map.2 ⟨runSlot q, List.mem_map_of_mem hq', he⟩)
        · exact h1 (List.mem_map.2 ⟨q, hq', he⟩)
      · exact h2.1
    · show ((s.outstanding ++ P.map runSlot).filter (fun o => o.st != .canceled)).length ≤ s.depth
      have h1 : ((s.outstanding ++ P.map runSlot).filter (fun o => o.st != .canceled)).length ≤
          s.outstanding.length + P.length := by
        refine Nat.le_trans (List.length_filter_le _ _) ?_
        simp
      rw [ha, availableJobs_eq] at hlen
      simp only [QState.outIds, List.length_map] at hlen
      omega
  · intro o ho
    rcases List.mem_append.1 ho with ho | ho
    · exact ht o ho
    · obtain ⟨p, hp, rfl⟩ := List.mem_map.1 ho; rfl
  · simp only [Counted, List.length_append, List.length_map] at hc ⊢
    omega

theorem good_processQueue {s : QState} (evs : List Poll) (h : Good s) (hc : Counted s) :
    Good (processQueue evs s) ∧ Counted (processQueue evs s) ∧ Tidy (processQueue evs s) := by
  obtain ⟨h1, h2, h3⟩ := good_checkCompletions evs h hc
  unfold processQueue
  simp only []
  split
  · exact ⟨h1, h2, h3⟩
  · split
    · exact ⟨h1, h2, h3⟩
    · next hz =>
      have hnn := avail_nonneg h1 h3
      have hpos : 0 < availableJobs (checkCompletions evs s).depth (checkCompletions evs s).outIds := by
        have : ¬ availableJobs (checkCompletions evs s).depth (checkCompletions evs s).outIds = 0 :=
          fun hh => hz ((noneAvailable_iff _ hnn).2 hh)
        omega
      have := good_start h1 h3 h2 _ rfl hpos
      exact ⟨this.1, this.2.2, this.2.1⟩



/-! ### starts / rows as lists -/

theorem nodup_subset_length {α : Type} [DecidableEq α] : ∀ {l1 l2 : List α}, l1.Nodup →
    (∀ x ∈ l1, x ∈ l2) → l1.length ≤ l2.length := by
  intro l1
  induction l1 with
  | nil => intro l2 _ _; simp
  | cons a l1 ih =>
    intro l2 hn hs
    simp only [List.nodup_cons] at hn
    have ha : a ∈ l2 := hs a (by simp)
    have := ih (l2 := l2.erase a) hn.2 (by
      intro x hx
      have hne : x ≠ a := by rintro rfl; exact hn.1 hx
      exact (List.mem_erase_of_ne hne).2 (hs x (by simp [hx])))
    rw [List.length_erase_of_mem ha] at this
    have hpos : 0 < l2.length := List.length_pos_of_mem ha
    simp only [List.length_cons]
    omega

theorem mem_startsOf {l : List Ev} {j : JobId} : j ∈ startsOf l ↔ Ev.start j ∈ l := by
  simp only [startsOf, List.mem_filterMap]
  constructor
  · rintro ⟨e, he, h⟩
    cases e with
    | start k => simp at h; subst h; exact he
    | row _ _ _ => simp at h
  · intro h; exact ⟨_, h, rfl⟩

theorem mem_rowsOf {l : List Ev} {j : JobId} {rc : Int} {st : RowStatus} :
    (j, rc, st) ∈ rowsOf l ↔ Ev.row j rc st ∈ l := by
  simp only [rowsOf, List.mem_filterMap]
  constructor
  · rintro ⟨e, he, h⟩
    cases e with
    | start k => simp at h
    | row _ _ _ => simp at h; obtain ⟨rfl, rfl, rfl⟩ := h; exact he
  · intro h; exact ⟨_, h, rfl⟩

theorem startsOf_append (l l' : List Ev) : startsOf (l ++ l') = startsOf l ++ startsOf l' := by
  simp [startsOf, List.filterMap_append]

theorem rowsOf_append (l l' : List Ev) : rowsOf (l ++ l') = rowsOf l ++ rowsOf l' := by
  simp [rowsOf, List.filterMap_append]

theorem hasRow_iff_rows {l : List Ev} {j : JobId} : HasRow l j ↔ j ∈ (rowsOf l).map (·.1) := by
  simp only [HasRow, List.mem_map]
  constructor
  · rintro ⟨rc, st, h⟩; exact ⟨(j, rc, st), mem_rowsOf.2 h, rfl⟩
  · rintro ⟨⟨j', rc, st⟩, h, rfl⟩; exact ⟨rc, st, mem_rowsOf.1 h⟩

theorem LogOk.starts_nodup {H : List Job} {l : List Ev} (h : LogOk H l) : (startsOf l).Nodup := by
  induction h with
  | nil => simp [startsOf]
  | @snoc l e _ he ih =>
    rw [startsOf_append]
    cases e with
    | start j =>
      have : startsOf [Ev.start j] = [j] := rfl
      rw [this]
      refine List.nodup_append.2 ⟨ih, by simp, ?_⟩
      intro a ha b hb
      simp only [List.mem_singleton] at hb; subst hb
      rintro rfl
      exact he.1 (mem_startsOf.1 ha)
    | row j rc st =>
      have : startsOf [Ev.row j rc st] = [] := rfl
      rw [this]; simpa using ih

theorem LogOk.rows_nodup {H : List Job} {l : List Ev} (h : LogOk H l) : ((rowsOf l).map (·.1)).Nodup := by
  induction h with
  | nil => simp [rowsOf]
  | @snoc l e _ he ih =>
    rw [rowsOf_append, List.map_append]
    cases e with
    | start j =>
      have : rowsOf [Ev.start j] = [] := rfl
      rw [this]; simpa using ih
    | row j rc st =>
      have : rowsOf [Ev.row j rc st] = [(j, rc, st)] := rfl
      rw [this]
      refine List.nodup_append.2 ⟨ih, by simp, ?_⟩
      intro a ha b hb
      simp only [List.map_cons, List.map_nil, List.mem_singleton] at hb; subst hb
      rintro rfl
      exact he.1 (hasRow_iff_rows.2 ha)

/-! ### operation sequences -/

/-- the jobs handed over by an operation sequence -/
def handedOf : List Op → List Job
  | [] => []
  | .submit j :: ops => j :: handedOf ops
  | .processQueue _ :: ops => handedOf ops

/-- names handed to one queue are distinct (each `AsyncCliCommand` is submitted once) -/
@[reducible] def Distinct (ops : List Op) : Prop := ((handedOf ops).map (·.id)).Nodup

theorem checkCompletions_handed (evs : List Poll) (s : QState) :
    (checkCompletions evs s).handed = s.handed ∧ (checkCompletions evs s).depth = s.depth :=
  checkLoop_handed _ _ _ _

theorem processQueue_handed (evs : List Poll) (s : QState) :
    (processQueue evs s).handed = s.handed ∧ (processQueue evs s).depth = s.depth := by
  have := checkCompletions_handed evs s
  unfold processQueue
  simp only []
  split
  · exact this
  · split
    · exact this
    · rw [runPicked_eq]; exact this

theorem submit_handed (j : Job) (s : QState) :
    (submit j s).handed = s.handed ++ [j] ∧ (submit j s).depth = s.depth := by
  unfold submit
  split
  · rw [runJob_eq]; exact ⟨rfl, rfl⟩
  · exact ⟨rfl, rfl⟩

theorem foldl_step_good : ∀ (ops : List Op) (s : QState), Good s → Counted s → Tidy s →
    (s.handed.map (·.id) ++ (handedOf ops).map (·.id)).Nodup →
    Good (ops.foldl step s) ∧ Counted (ops.foldl step s) ∧ Tidy (ops.foldl step s) ∧
      (ops.foldl step s).handed = s.handed ++ handedOf ops ∧ (ops.foldl step s).depth = s.depth := by
  intro ops
  induction ops with
  | nil => intro s h hc ht _; exact ⟨h, hc, ht, by simp [handedOf], rfl⟩
  | cons op ops ih =>
    intro s h hc ht hn
    cases op with
    | submit j =>
      simp only [List.foldl_cons, step, handedOf, List.map_cons] at hn ⊢
      have hf : j.id ∉ s.handed.map (·.id) := by
        intro hm
        exact (List.nodup_append.1 hn).2.2 _ hm _ (by simp) rfl
      obtain ⟨hh, hd⟩ := submit_handed j s
      have := ih (submit j s) (good_submit h hf) (counted_submit hc) (tidy_submit ht)
        (by rw [hh]; simpa using hn)
      refine ⟨this.1, this.2.1, this.2.2.1, ?_, ?_⟩
      · rw [this.2.2.2.1, hh]; simp
      · rw [this.2.2.2.2, hd]
    | processQueue evs =>
      simp only [List.foldl_cons, step, handedOf] at hn ⊢
      obtain ⟨hh, hd⟩ := processQueue_handed evs s
      obtain ⟨g1, g2, g3⟩ := good_processQueue evs h hc
      have := ih (processQueue evs s) g1 g2 g3 (by rw [hh]; exact hn)
      refine ⟨this.1, this.2.1, this.2.2.1, ?_, ?_⟩
      · rw [this.2.2.2.1, hh]
      · rw [this.2.2.2.2, hd]

theorem good_runOps (d : Nat) (ops : List Op) (hd : Distinct ops) :
    Good (runOps d ops) ∧ Counted (runOps d ops) ∧ Tidy (runOps d ops) ∧
      (runOps d ops).handed = handedOf ops ∧ (runOps d ops).depth = d := by
  have := foldl_step_good ops (QState.init d) (good_init d) (by simp [Counted, QState.init])
    (by intro o ho; simp [QState.init] at ho) (by simpa [QState.init] using hd)
  simpa [runOps, QState.init] using this



/-! ### what a `_check_completions` call appends to the log -/

/-- the rows one `_check_completions` call can append: canceled rows with the cancel code, and exit
    rows whose code is the one the environment's poll delivered -/
def NewRow (evs : List Poll) (e : Ev) : Prop :=
  (∃ k, e = Ev.row k cancelRc .canceled) ∨
  (∃ ev ∈ evs, ∃ j rc, ev.lookup j = some rc ∧ e = Ev.row j rc .finished)

theorem NewRow.mono {evs evs' : List Poll} {e : Ev} (h : NewRow evs e) (hs : ∀ ev ∈ evs, ev ∈ evs') :
    NewRow evs' e := by
  rcases h with h | ⟨ev, hev, h⟩
  · exact .inl h
  · exact .inr ⟨ev, hs ev hev, h⟩

theorem exitCode_lookup {ev : Poll} {o : Slot} {rc : Int} (h : exitCode ev o = some rc) :
    ev.lookup o.id = some rc := by
  unfold exitCode at h
  split at h
  · exact h
  · cases h

theorem reapAll_log_new (failed : List JobId) : ∀ (names : List JobId) (s : QState),
    ∃ new, (reapAll failed names s).1.log = s.log ++ new ∧ ∀ e ∈ new, ∃ k, e = Ev.row k cancelRc .canceled := by
  intro names
  induction names with
  | nil => intro s; exact ⟨[], by simp [reapAll], by simp⟩
  | cons n ns ih =>
    intro s
    obtain ⟨new, h1, h2⟩ := ih (reap failed s n)
    refine ⟨(s.queued.filter (doCancel failed)).map cancelRow ++ new, ?_, ?_⟩
    · simp only [reapAll]; rw [h1]; simp [reap]
    · intro e he
      rcases List.mem_append.1 he with he | he
      · obtain ⟨k, _, _, rfl⟩ := mem_cancelRows.1 he
        exact ⟨k.id, rfl⟩
      · exact h2 e he

theorem pass_log_new (ev : Poll) (failed : List JobId) (s : QState) :
    ∃ new, (pass ev failed s).1.log = s.log ++ new ∧ ∀ e ∈ new, NewRow [ev] e := by
  rw [pass_fst]
  obtain ⟨new, h1, h2⟩ := reapAll_log_new (failed ++ failedOf (pollAll ev s)) (completedOf (pollAll ev s))
    (addCompleted (completedOf (pollAll ev s)).length (pollAll ev s))
  refine ⟨(exiting ev s).map (rowOf ev) ++ new, ?_, ?_⟩
  · rw [h1]; simp [addCompleted, pollAll_eq]
  · intro e he
    rcases List.mem_append.1 he with he | he
    · obtain ⟨o, _, rc, hrc, rfl⟩ := mem_rows_exiting.1 he
      exact .inr ⟨ev, by simp, o.id, rc, exitCode_lookup hrc, rfl⟩
    · exact .inl (h2 e he)

theorem newRow_headD {evs : List Poll} {e : Ev} (h : NewRow [evs.headD []] e) : NewRow evs e := by
  rcases h with h | ⟨ev, hev, j, rc, hl, he⟩
  · exact .inl h
  · simp only [List.mem_singleton] at hev
    subst hev
    cases evs with
    | nil => simp at hl
    | cons a evs => exact .inr ⟨a, by simp, j, rc, by simpa using hl, he⟩

theorem checkLoop_log_new : ∀ (n : Nat) (evs : List Poll) (failed : List JobId) (s : QState),
    ∃ new, (checkLoop n evs failed s).log = s.log ++ new ∧ ∀ e ∈ new, NewRow evs e := by
  intro n
  induction n with
  | zero => intro evs failed s; exact ⟨[], by simp [checkLoop], by simp⟩
  | succ n ih =>
    intro evs failed s
    obtain ⟨new1, h1, h2⟩ := pass_log_new (evs.headD []) failed s
    simp only [checkLoop]
    split
    · obtain ⟨new2, h3, h4⟩ := ih evs.tail (pass (evs.headD []) failed s).2.1 (pass (evs.headD []) failed s).1
      refine ⟨new1 ++ new2, by rw [h3, h1]; simp, ?_⟩
      intro e he
      rcases List.mem_append.1 he with he | he
      · exact newRow_headD (h2 e he)
      · exact (h4 e he).mono (fun ev hev => List.mem_of_mem_tail hev)
    · exact ⟨new1, h1, fun e he => newRow_headD (h2 e he)⟩

theorem startsOf_newRows {evs : List Poll} {new : List Ev} (h : ∀ e ∈ new, NewRow evs e) : startsOf new = [] := by
  simp only [startsOf, List.filterMap_eq_nil_iff]
  intro e he
  rcases h e he with ⟨k, rfl⟩ | ⟨_, _, _, _, _, rfl⟩ <;> rfl

/-- `_check_completions` launches nothing -/
theorem checkCompletions_starts (evs : List Poll) (s : QState) :
    (checkCompletions evs s).starts = s.starts := by
  obtain ⟨new, h1, h2⟩ := checkLoop_log_new (s.queued.length + 1) evs [] s
  simp only [QState.starts, checkCompletions, h1, startsOf_append, startsOf_newRows h2, List.append_nil]

/-! ### exit codes come from the environment -/

/-- every exit row carries the code `rcOf` says the job's process ends with -/
@[reducible] def RcOk (rcOf : JobId → Int) (s : QState) : Prop :=
  ∀ j rc, Ev.row j rc .finished ∈ s.log → rc = rcOf j

/-- the polls of one `process_queue` call deliver the codes of `rcOf` -/
@[reducible] def PollsOk (rcOf : JobId → Int) (evs : List Poll) : Prop :=
  ∀ ev ∈ evs, ∀ j rc, ev.lookup j = some rc → rc = rcOf j

theorem rcOk_processQueue {rcOf : JobId → Int} {evs : List Poll} {s : QState} (h : RcOk rcOf s)
    (hp : PollsOk rcOf evs) : RcOk rcOf (processQueue evs s) := by
  have hc : RcOk rcOf (checkCompletions evs s) := by
    obtain ⟨new, h1, h2⟩ := checkLoop_log_new (s.queued.length + 1) evs [] s
    intro j rc hm
    simp only [checkCompletions, h1, List.mem_append] at hm
    rcases hm with hm | hm
    · exact h j rc hm
    · rcases h2 _ hm with ⟨k, he⟩ | ⟨ev, hev, j', rc', hl, he⟩
      · cases he
      · cases he; exact hp ev hev j rc hl
  unfold processQueue
  simp only []
  split
  · exact hc
  · split
    · exact hc
    · rw [runPicked_eq]
      intro j rc hm
      simp only [List.mem_append, List.mem_map, startEv] at hm
      rcases hm with hm | ⟨p, _, he⟩
      · exact hc j rc hm
      · cases he

theorem rcOk_submit {rcOf : JobId → Int} {j : Job} {s : QState} (h : RcOk rcOf s) : RcOk rcOf (submit j s) := by
  unfold submit
  split
  · rw [runJob_eq]
    intro k rc hm
    simp only [hand, List.mem_append, List.mem_singleton] at hm
    rcases hm with hm | hm
    · exact h k rc hm
    · cases hm
  · exact h

/-! ### a drained queue -/

@[reducible] def Drained (s : QState) : Prop := s.outstanding = [] ∧ s.queued = []

theorem busy_false_iff (s : QState) : s.busy = false ↔ Drained s := by
  have := waitMore_iff s.outIds s.queuedIds
  simp only [QState.busy, QState.outIds, QState.queuedIds] at this ⊢
  constructor
  · intro h
    rw [h] at this
    simp only [Bool.false_eq_true, ne_eq, List.map_eq_nil_iff, false_iff, not_or, Classical.not_not] at this
    exact this
  · rintro ⟨h1, h2⟩
    cases hb : waitMore (s.outstanding.map (·.id)) (s.queued.map (·.id)) with
    | false => rfl
    | true =>
      have := this.1 hb
      simp [h1, h2] at this

theorem Good.handed_eq {s : QState} (h : Good s) {a b : Job} (ha : a ∈ s.handed) (hb : b ∈ s.handed)
    (he : a.id = b.id) : a = b := eq_of_map_nodup h.hNodup ha hb he

theorem Good.all_rows {s : QState} (h : Good s) (hd : Drained s) : ∀ x ∈ s.handed, HasRow s.log x.id := by
  intro x hx
  exact h.gone x hx (by simp [QState.queuedIds, hd.2]) (by simp [QState.outIds, hd.1])

theorem bad_not_good {H : List Job} {l : List Ev} (h : LogOk H l) {j : JobId} (hb : BadRow l j)
    (hg : GoodRow l j) : False := by
  obtain ⟨rc, st, h1, h2⟩ := hb
  obtain ⟨rc', st', h3, h4⟩ := hg
  obtain ⟨rfl, rfl⟩ := h.row_unique h1 h3
  exact h4 h2

/-- soundness of a cancellation: a canceled row implies the flag and a blocker whose row, written earlier,
    is failed or canceled -/
theorem Good.canceled_sound {s : QState} (h : Good s) {x : Job} (hx : x ∈ s.handed) {rc : Int}
    (hr : Ev.row x.id rc .canceled ∈ s.log) :
    x.cancelFlag = true ∧ ∃ b ∈ x.blockers, BadRow s.log b := by
  obtain ⟨pre, post, heq⟩ := List.append_of_mem hr
  have := h.logOk.split pre _ post heq
  obtain ⟨-, h2⟩ := this
  rcases h2 with ⟨h2, -⟩ | ⟨-, -, -, y, hy, hye, hyf, b, hb, hbad⟩
  · cases h2
  · have := h.handed_eq hy hx hye
    subst this
    exact ⟨hyf, b, hb, hbad.mono (by intro e he; rw [heq]; exact List.mem_append_left _ he)⟩

/-- a launched job had a row for every blocker handed over with it; for a flagged job all of them good -/
theorem Good.started_blockers {s : QState} (h : Good s) {x : Job} (hx : x ∈ s.handed)
    (hs : Ev.start x.id ∈ s.log) :
    ∀ b ∈ x.blockers, HasRow s.log b ∧ (x.cancelFlag = true → GoodRow s.log b) := by
  obtain ⟨pre, post, heq⟩ := List.append_of_mem hs
  obtain ⟨-, -, y, hy, hye, hall⟩ := h.logOk.split pre _ post heq
  have := h.handed_eq hy hx hye
  subst this
  have hsub : ∀ e ∈ pre, e ∈ s.log := by intro e he; rw [heq]; exact List.mem_append_left _ he
  intro b hb
  exact ⟨(hall b hb).1.mono hsub, fun hf => ((hall b hb).2 hf).mono hsub⟩

/-- exactness on a job that has an outcome: canceled ⇔ flagged and some blocker failed / was canceled -/
theorem Good.canceled_iff {s : QState} (h : Good s) {x : Job} (hx : x ∈ s.handed) (hrow : HasRow s.log x.id) :
    Ev.row x.id cancelRc .canceled ∈ s.log ↔ (x.cancelFlag = true ∧ ∃ b ∈ x.blockers, BadRow s.log b) := by
  constructor
  · exact h.canceled_sound hx
  · rintro ⟨hf, b, hb, hbad⟩
    obtain ⟨rc, st, hr⟩ := hrow
    cases st with
    | canceled =>
      have := (h.logOk.canceled_not_started hr).2
      subst this; exact hr
    | finished =>
      have hs := h.logOk.finished_started hr
      exact absurd ((h.started_blockers hx hs b hb).2 hf) (fun hg => bad_not_good h.logOk hbad hg)

/-! ### the reference evaluation -/

/-- does this outcome count as a failure for dependents -/
def isBad (o : Int × RowStatus) : Bool := failedCode o.1 || o.2 == .canceled

theorem isBad_iff (o : Int × RowStatus) : isBad o = true ↔ Bad o.1 o.2 := by
  simp [isBad, Bad]

/-- evaluation along the dependency graph with fuel: canceled (cancel code, canceled status) iff flagged
    and some blocker's outcome is failed or canceled, else finished with the job's own exit code -/
def refOutcome (jobs : List Job) (rcOf : JobId → Int) : Nat → JobId → Int × RowStatus
  | 0, j => (rcOf j, completeStatus)
  | n + 1, j =>
    match jobs.find? (fun x => x.id == j) with
    | none => (rcOf j, completeStatus)
    | some job =>
      if job.cancelFlag && job.blockers.any (fun b => isBad (refOutcome jobs rcOf n b)) then
        (cancelRc, cancelStatus)
      else (rcOf j, completeStatus)

/-- the reference outcome of a batch: does not mention schedules, polls or the queue depth -/
def ref (jobs : List Job) (rcOf : JobId → Int) (j : JobId) : Int × RowStatus :=
  refOutcome jobs rcOf jobs.length j

theorem find_id {l : List Job} (hn : (l.map (·.id)).Nodup) {x : Job} (hx : x ∈ l) :
    l.find? (fun y => y.id == x.id) = some x := by
  induction l with
  | nil => simp at hx
  | cons a l ih =>
    simp only [List.map_cons, List.nodup_cons] at hn
    rcases List.mem_cons.1 hx with hx' | hx'
    · subst hx'; simp
    · have hne : a.id ≠ x.id := by
        intro he; exact hn.1 (he ▸ List.mem_map_of_mem hx')
      simp [hne, ih hn.2 hx']

/-- all blockers inside the batch, and a topological numbering below the batch size (acyclic) -/
structure ClosedAcyclic (jobs : List Job) : Prop where
  closed : ∀ x ∈ jobs, ∀ b ∈ x.blockers, ∃ y ∈ jobs, y.id = b
  ranked : ∃ rank : JobId → Nat, ∀ x ∈ jobs, rank x.id < jobs.length ∧ ∀ b ∈ x.blockers, rank b < rank x.id

theorem Good.rows_ref {s : QState} (h : Good s) (hd : Drained s) (rcOf : JobId → Int) (hrc : RcOk rcOf s)
    (rank : JobId → Nat) (hclosed : ∀ x ∈ s.handed, ∀ b ∈ x.blockers, ∃ y ∈ s.handed, y.id = b)
    (hrank : ∀ x ∈ s.handed, ∀ b ∈ x.blockers, rank b < rank x.id) :
    ∀ (n : Nat), ∀ x ∈ s.handed, rank x.id < n →
      Ev.row x.id (refOutcome s.handed rcOf n x.id).1 (refOutcome s.handed rcOf n x.id).2 ∈ s.log := by
  intro n
  induction n with
  | zero => intro x _ hr; omega
  | succ n ih =>
    intro x hx hr
    have hrow := h.all_rows hd x hx
    have hbl : ∀ b ∈ x.blockers, (isBad (refOutcome s.handed rcOf n b) = true ↔ BadRow s.log b) := by
      intro b hb
      obtain ⟨y, hy, rfl⟩ := hclosed x hx b hb
      have := ih y hy (by have := hrank x hx y.id hb; omega)
      rw [isBad_iff]
      constructor
      · intro hbad; exact ⟨_, _, this, hbad⟩
      · rintro ⟨rc, st, hm, hbad⟩
        obtain ⟨rfl, rfl⟩ := h.logOk.row_unique hm this
        exact hbad
    have hcond : (x.cancelFlag && x.blockers.any (fun b => isBad (refOutcome s.handed rcOf n b))) = true ↔
        (x.cancelFlag = true ∧ ∃ b ∈ x.blockers, BadRow s.log b) := by
      simp only [Bool.and_eq_true, List.any_eq_true]
      constructor
      · rintro ⟨hf, b, hb, hbad⟩; exact ⟨hf, b, hb, (hbl b hb).1 hbad⟩
      · rintro ⟨hf, b, hb, hbad⟩; exact ⟨hf, b, hb, (hbl b hb).2 hbad⟩
    simp only [refOutcome, find_id h.hNodup hx]
    split
    · next hc =>
      rw [cancelStatus_eq]
      exact (h.canceled_iff hx hrow).2 (hcond.1 hc)
    · next hc =>
      rw [completeStatus_eq]
      obtain ⟨rc, st, hr'⟩ := hrow
      cases st with
      | canceled =>
        have := (h.logOk.canceled_not_started hr').2
        subst this
        exact absurd (hcond.2 ((h.canceled_iff hx ⟨_, _, hr'⟩).1 hr')) hc
      | finished =>
        have := hrc _ _ hr'
        subst this; exact hr'



/-! ### `wait` / `run` as operation sequences -/

def pqOps (scheds : List (List Poll)) : List Op := scheds.map Op.processQueue

theorem waitLoop_ops : ∀ (sched : List (List Poll)) (s : QState),
    ∃ k, (waitLoop sched s).1 = (pqOps (sched.take k)).foldl step s ∧
      ((waitLoop sched s).2 = true → Drained (waitLoop sched s).1) := by
  intro sched
  induction sched with
  | nil =>
    intro s
    refine ⟨0, by simp [waitLoop, pqOps], ?_⟩
    intro h
    simp only [waitLoop, Bool.not_eq_eq_eq_not, Bool.not_true] at h
    exact (busy_false_iff s).1 h
  | cons evs rest ih =>
    intro s
    simp only [waitLoop]
    split
    · obtain ⟨k, h1, h2⟩ := ih (processQueue evs s)
      exact ⟨k + 1, by simp [pqOps, step, h1], h2⟩
    · next hb =>
      refine ⟨0, by simp [pqOps], fun _ => ?_⟩
      exact (busy_false_iff s).1 (by simpa using hb)

theorem submitAll_eq (d : Nat) (jobs : List Job) : submitAll d jobs = runOps d (jobs.map Op.submit) := by
  simp only [submitAll, runOps, List.foldl_map, step]

theorem handedOf_append (a b : List Op) : handedOf (a ++ b) = handedOf a ++ handedOf b := by
  induction a with
  | nil => rfl
  | cons op a ih => cases op <;> simp [handedOf, ih]

theorem handedOf_submits (jobs : List Job) : handedOf (jobs.map Op.submit) = jobs := by
  induction jobs with
  | nil => rfl
  | cons j jobs ih => simp [handedOf, ih]

theorem handedOf_pqOps (scheds : List (List Poll)) : handedOf (pqOps scheds) = [] := by
  induction scheds with
  | nil => rfl
  | cons e scheds ih => simpa [pqOps, handedOf] using ih

/-- the operation sequence a `run` executes: all submits, then `k` polls -/
def runOpsOf (jobs : List Job) (sched : List (List Poll)) (k : Nat) : List Op :=
  jobs.map Op.submit ++ pqOps (sched.take k)

theorem handedOf_runOpsOf (jobs : List Job) (sched : List (List Poll)) (k : Nat) :
    handedOf (runOpsOf jobs sched k) = jobs := by
  simp [runOpsOf, handedOf_append, handedOf_submits, handedOf_pqOps]

theorem mem_runOpsOf_pq {jobs : List Job} {sched : List (List Poll)} {k : Nat} {evs : List Poll}
    (h : Op.processQueue evs ∈ runOpsOf jobs sched k) : evs ∈ sched := by
  simp only [runOpsOf, pqOps, List.mem_append, List.mem_map] at h
  rcases h with ⟨j, _, he⟩ | ⟨e, he, heq⟩
  · cases he
  · cases heq; exact List.mem_of_mem_take he

theorem runAll_final (d : Nat) (jobs : List Job) (sched : List (List Poll)) :
    ∃ k, (waitLoop sched (submitAll d jobs)).1 = runOps d (runOpsOf jobs sched k) ∧
      ((waitLoop sched (submitAll d jobs)).2 = true → Drained (waitLoop sched (submitAll d jobs)).1) := by
  obtain ⟨k, h1, h2⟩ := waitLoop_ops sched (submitAll d jobs)
  refine ⟨k, ?_, h2⟩
  rw [h1, submitAll_eq]
  simp [runOps, runOpsOf, List.foldl_append]

/-- `wait`'s assertion never fails, and the result is the state after an operation sequence -/
theorem runAll_ok (d : Nat) (jobs : List Job) (sched : List (List Poll)) (hd : (jobs.map (·.id)).Nodup) :
    ∃ r k, runAll d jobs sched = .ok r ∧ r.final = runOps d (runOpsOf jobs sched k) ∧
      (r.drained = true → Drained r.final) := by
  obtain ⟨k, h1, h2⟩ := runAll_final d jobs sched
  have hdist : Distinct (runOpsOf jobs sched k) := by
    show ((handedOf (runOpsOf jobs sched k)).map (·.id)).Nodup
    rw [handedOf_runOpsOf]; exact hd
  obtain ⟨g1, g2, -⟩ := good_runOps d _ hdist
  refine ⟨⟨(waitLoop sched (submitAll d jobs)).1, (waitLoop sched (submitAll d jobs)).2⟩, k, ?_, h1, h2⟩
  unfold runAll
  simp only []
  split
  · next hc =>
    exfalso
    simp only [Bool.and_eq_true, Bool.not_eq_true'] at hc
    have hdr := h2 hc.1
    rw [h1] at hdr hc
    have : waitAssert (runOps d (runOpsOf jobs sched k)).numCompleted (runOps d (runOpsOf jobs sched k)).numJobs = true := by
      rw [waitAssert_iff]
      have := g2
      simp only [Counted, hdr.1, List.length_nil] at this
      omega
    rw [this] at hc; cases hc.2
  · rfl

/-- exit rows of an operation sequence come from its polls -/
theorem rowsFrom_foldl (P : JobId → Int → Prop) : ∀ (ops : List Op) (s : QState),
    (∀ j rc, Ev.row j rc .finished ∈ s.log → P j rc) →
    (∀ evs, Op.processQueue evs ∈ ops → ∀ ev ∈ evs, ∀ j rc, ev.lookup j = some rc → P j rc) →
    ∀ j rc, Ev.row j rc .finished ∈ (ops.foldl step s).log → P j rc := by
  intro ops
  induction ops with
  | nil => intro s h _; exact h
  | cons op ops ih =>
    intro s h hp
    simp only [List.foldl_cons]
    apply ih
    · cases op with
      | submit j0 =>
        intro j rc hm
        simp only [step, submit] at hm
        split at hm
        · rw [runJob_eq] at hm
          simp only [hand, List.mem_append, List.mem_singleton] at hm
          rcases hm with hm | hm
          · exact h j rc hm
          · cases hm
        · exact h j rc hm
      | processQueue evs =>
        intro j rc hm
        simp only [step] at hm
        have hc : ∀ j rc, Ev.row j rc .finished ∈ (checkCompletions evs s).log → P j rc := by
          obtain ⟨new, h1, h2⟩ := checkLoop_log_new (s.queued.length + 1) evs [] s
          intro j rc hm
          simp only [checkCompletions, h1, List.mem_append] at hm
          rcases hm with hm | hm
          · exact h j rc hm
          · rcases h2 _ hm with ⟨k, he⟩ | ⟨ev, hev, j', rc', hl, he⟩
            · cases he
            · cases he; exact hp evs (by simp) ev hev j rc hl
        unfold processQueue at hm
        simp only [] at hm
        split at hm
        · exact hc j rc hm
        · split at hm
          · exact hc j rc hm
          · rw [runPicked_eq] at hm
            simp only [List.mem_append, List.mem_map, startEv] at hm
            rcases hm with hm | ⟨p, _, he⟩
            · exact hc j rc hm
            · cases he
    · intro evs hm; exact hp evs (List.mem_cons_of_mem _ hm)

theorem rowsFrom_runOps (P : JobId → Int → Prop) (d : Nat) (ops : List Op)
    (hp : ∀ evs, Op.processQueue evs ∈ ops → ∀ ev ∈ evs, ∀ j rc, ev.lookup j = some rc → P j rc) :
    ∀ j rc, Ev.row j rc .finished ∈ (runOps d ops).log → P j rc :=
  rowsFrom_foldl P ops (QState.init d) (by intro j rc hm; simp [QState.init] at hm) hp



/-! ### `_check_completions` cancels exactly the least fixpoint -/

/-- jobs that completed with a failing code in this call (`s0` = state at the call, `s` = now): their exit
    row is new -/
def FailedNow (s0 s : QState) (j : JobId) : Prop :=
  ∃ rc, Ev.row j rc .finished ∈ s.log ∧ ¬ HasRow s0.log j ∧ failedCode rc = true

/-- the least set of queued flagged jobs closed under "some blocker is in `F` or in the set" -/
inductive Doomed (Q : List Job) (F : JobId → Prop) : JobId → Prop
  | base {q : Job} {b : JobId} : q ∈ Q → q.cancelFlag = true → b ∈ q.blockers → F b → Doomed Q F q.id
  | step {q : Job} {b : JobId} : q ∈ Q → q.cancelFlag = true → b ∈ q.blockers → Doomed Q F b → Doomed Q F q.id

theorem Doomed.mono {Q : List Job} {F F' : JobId → Prop} {j : JobId} (h : Doomed Q F j)
    (hs : ∀ x, F x → F' x) : Doomed Q F' j := by
  induction h with
  | base h1 h2 h3 h4 => exact .base h1 h2 h3 (hs _ h4)
  | step h1 h2 h3 _ ih => exact .step h1 h2 h3 ih

theorem Doomed.mem {Q : List Job} {F : JobId → Prop} {j : JobId} (h : Doomed Q F j) :
    ∃ q ∈ Q, q.id = j := by
  cases h with
  | base h1 _ _ _ => exact ⟨_, h1, rfl⟩
  | step h1 _ _ _ => exact ⟨_, h1, rfl⟩

theorem FailedNow.mono {s0 s s' : QState} {j : JobId} (h : FailedNow s0 s j) (hs : ∀ e ∈ s.log, e ∈ s'.log) :
    FailedNow s0 s' j := by
  obtain ⟨rc, h1, h2, h3⟩ := h; exact ⟨rc, hs _ h1, h2, h3⟩

/-- the name got its row in this call and has been popped from `outstanding` -/
def Reaped (s0 s : QState) (b : JobId) : Prop := HasRow s.log b ∧ ¬ HasRow s0.log b ∧ b ∉ s.outIds

/-- invariant of the rerun loop, inside a pass (`failed` = `failed_jobs` after the collection loop) -/
structure MidInv (s0 : QState) (failed : List JobId) (s : QState) : Prop where
  sub : ∀ e ∈ s0.log, e ∈ s.log
  fsound : ∀ f ∈ failed, FailedNow s0 s f ∨ Doomed s0.queued (FailedNow s0 s) f
  fcomplete : ∀ f, FailedNow s0 s f → f ∈ failed
  qorig : ∀ q' ∈ s.queued, ∃ q ∈ s0.queued, q.id = q'.id ∧ q.cancelFlag = q'.cancelFlag ∧
      (∀ b ∈ q'.blockers, b ∈ q.blockers) ∧
      (q.cancelFlag = true → ∀ b ∈ q.blockers,
        b ∈ q'.blockers ∨ (b ∉ failed ∧ b ∉ s.outIds ∧ b ∉ s.queuedIds))
  fate : ∀ q ∈ s0.queued, q.id ∈ s.queuedIds ∨
      (Ev.row q.id cancelRc .canceled ∈ s.log ∧ Doomed s0.queued (FailedNow s0 s) q.id ∧
        (q.id ∈ failed ∨ ∃ o ∈ s.outstanding, o.id = q.id ∧ o.st = .canceled))
  placeholders : ∀ o ∈ s.outstanding, o.st = .canceled → ∃ q ∈ s0.queued, q.id = o.id
  noOldO : ∀ o ∈ s.outstanding, ¬ HasRow s0.log o.id
  noOldQ : ∀ q ∈ s.queued, ¬ HasRow s0.log q.id
  cancelRows : ∀ j, Ev.row j cancelRc .canceled ∈ s.log →
      Ev.row j cancelRc .canceled ∈ s0.log ∨ Doomed s0.queued (FailedNow s0 s) j
  rem : ∀ q' ∈ s.queued, ∀ q ∈ s0.queued, q.id = q'.id →
      ∀ b, b ∈ q'.blockers ↔ (b ∈ q.blockers ∧ ¬ Reaped s0 s b)

/-- between passes no queued flagged job has a blocker in `failed_jobs` -/
@[reducible] def Clean (failed : List JobId) (s : QState) : Prop :=
  ∀ q' ∈ s.queued, q'.cancelFlag = true → ∀ b ∈ q'.blockers, b ∉ failed

theorem mem_reap_queuedIds {failed : List JobId} {s : QState} {n x : JobId} :
    x ∈ (reap failed s n).queuedIds ↔ ∃ r ∈ s.queued, doCancel failed r = false ∧ r.id = x := by
  simp only [QState.queuedIds, List.mem_map]
  constructor
  · rintro ⟨q', hq', rfl⟩
    obtain ⟨r, hr, hrc, rfl⟩ := mem_reap_queued.1 hq'
    exact ⟨r, hr, hrc, (dropBlocker_id _ _).symm⟩
  · rintro ⟨r, hr, hrc, rfl⟩
    exact ⟨dropBlocker n r, mem_reap_queued.2 ⟨r, hr, hrc, rfl⟩, dropBlocker_id _ _⟩

theorem mem_reap_outIds {failed : List JobId} {s : QState} {n x : JobId} :
    x ∈ (reap failed s n).outIds ↔
      ((x ∈ s.outIds ∧ x ≠ n) ∨ ∃ k ∈ s.queued, doCancel failed k = true ∧ k.id = x) := by
  simp only [QState.outIds, List.mem_map]
  constructor
  · rintro ⟨o, ho, rfl⟩
    rcases mem_reap_out.1 ho with ⟨h1, h2⟩ | ⟨k, hk, hkc, rfl⟩
    · exact .inl ⟨⟨o, h1, rfl⟩, h2⟩
    · exact .inr ⟨k, hk, hkc, rfl⟩
  · rintro (⟨⟨o, ho, rfl⟩, hne⟩ | ⟨k, hk, hkc, rfl⟩)
    · exact ⟨o, mem_reap_out.2 (.inl ⟨ho, hne⟩), rfl⟩
    · exact ⟨cancelSlot k, mem_reap_out.2 (.inr ⟨k, hk, hkc, rfl⟩), rfl⟩

theorem clean_reap (failed : List JobId) (s : QState) (n : JobId) : Clean failed (reap failed s n) := by
  intro q' hq' hf b hb hbf
  obtain ⟨r, hr, hrc, rfl⟩ := mem_reap_queued.1 hq'
  rw [dropBlocker_flag] at hf
  have := (doCancel_iff failed r).2 ⟨hf, b, ((mem_dropBlocker _ _ _).1 hb).1, hbf⟩
  rw [hrc] at this; cases this

theorem clean_reapAll (failed : List JobId) : ∀ (names : List JobId) (s : QState),
    (Clean failed s ∨ names ≠ []) → Clean failed (reapAll failed names s).1 := by
  intro names
  induction names with
  | nil => intro s h; rcases h with h | h; exact h; exact absurd rfl h
  | cons n ns ih => intro s _; simp only [reapAll]; exact ih _ (.inl (clean_reap failed s n))

theorem mid_reap {s0 : QState} {failed : List JobId} {s : QState} {name : JobId} (h0 : Good s0) (h : Good s)
    (c : ReapCtx failed s name) (m : MidInv s0 failed s) : MidInv s0 failed (reap failed s name) := by
  have hsub : ∀ e ∈ s.log, e ∈ (reap failed s name).log := by
    intro e he; simp only [reap]; exact List.mem_append_left _ he
  have hF : ∀ x, FailedNow s0 s x → FailedNow s0 (reap failed s name) x := fun x hx => hx.mono hsub
  have hq0 : ∀ {a b : Job}, a ∈ s0.queued → b ∈ s0.queued → a.id = b.id → a = b :=
    fun ha hb => eq_of_map_nodup h0.qNodup ha hb
  -- a job canceled by this scan is doomed
  have hdoom : ∀ r ∈ s.queued, doCancel failed r = true → Doomed s0.queued (FailedNow s0 s) r.id := by
    intro r hr hrc
    obtain ⟨hrf, b, hb, hbf⟩ := (doCancel_iff _ _).1 hrc
    obtain ⟨q, hq, hqid, hqf, hqb, -⟩ := m.qorig r hr
    rw [← hqid]
    rcases m.fsound b hbf with hfn | hd
    · exact .base hq (by rw [hqf]; exact hrf) (hqb b hb) hfn
    · exact .step hq (by rw [hqf]; exact hrf) (hqb b hb) hd
  obtain ⟨o, ho, hon, host, hofail⟩ := c.slot
  constructor
  · intro e he; exact hsub _ (m.sub e he)
  · intro f hf
    rcases m.fsound f hf with h1 | h1
    · exact .inl (hF _ h1)
    · exact .inr (h1.mono hF)
  · rintro f ⟨rc, h1, h2, h3⟩
    simp only [reap, List.mem_append] at h1
    rcases h1 with h1 | h1
    · exact m.fcomplete f ⟨rc, h1, h2, h3⟩
    · obtain ⟨k, _, _, he⟩ := mem_cancelRows.1 h1; cases he
  · intro q' hq'
    obtain ⟨r, hr, hrc, rfl⟩ := mem_reap_queued.1 hq'
    obtain ⟨q, hq, hqid, hqf, hqb, hqall⟩ := m.qorig r hr
    refine ⟨q, hq, by rw [dropBlocker_id]; exact hqid, by rw [dropBlocker_flag]; exact hqf, ?_, ?_⟩
    · intro b hb; exact hqb b ((mem_dropBlocker _ _ _).1 hb).1
    · intro hfl b hb
      have hgone : ∀ x, x ∉ failed → x ∉ s.outIds ∨ x = name → x ∉ s.queuedIds →
          x ∉ failed ∧ x ∉ (reap failed s name).outIds ∧ x ∉ (reap failed s name).queuedIds := by
        intro x h1 h2 h3
        refine ⟨h1, ?_, ?_⟩
        · rw [mem_reap_outIds]
          rintro (⟨h4, h5⟩ | ⟨k, hk, -, rfl⟩)
          · rcases h2 with h2 | h2
            · exact h2 h4
            · exact h5 h2
          · exact h3 (List.mem_map_of_mem hk)
        · rw [mem_reap_queuedIds]
          rintro ⟨r', hr', -, rfl⟩
          exact h3 (List.mem_map_of_mem hr')
      rcases hqall hfl b hb with h1 | ⟨h1, h2, h3⟩
      · by_cases hbn : b = name
        · subst hbn
          right
          have hnf : b ∉ failed := by
            intro hbf
            have := (doCancel_iff failed r).2 ⟨by rw [← hqf]; exact hfl, b, h1, hbf⟩
            rw [hrc] at this; cases this
          refine hgone b hnf (.inr rfl) ?_
          intro hbq
          obtain ⟨q2, hq2, he⟩ := List.mem_map.1 hbq
          exact h.disj q2 hq2 o ho (by rw [he, hon])
        · exact .inl ((mem_dropBlocker _ _ _).2 ⟨h1, hbn⟩)
      · exact .inr (hgone b h1 (.inl h2) h3)
  · intro q hq
    rcases m.fate q hq with h1 | ⟨h1, h2, h3⟩
    · obtain ⟨r, hr, hre⟩ := List.mem_map.1 h1
      cases hrc : doCancel failed r with
      | false => exact .inl (mem_reap_queuedIds.2 ⟨r, hr, hrc, hre⟩)
      | true =>
        right
        refine ⟨?_, ?_, .inr ⟨cancelSlot r, mem_reap_out.2 (.inr ⟨r, hr, hrc, rfl⟩), hre, rfl⟩⟩
        · simp only [reap]
          exact List.mem_append_right _ (mem_cancelRows.2 ⟨r, hr, hrc, by rw [hre]⟩)
        · rw [← hre]; exact (hdoom r hr hrc).mono hF
    · right
      refine ⟨hsub _ h1, h2.mono hF, ?_⟩
      rcases h3 with h3 | ⟨o2, ho2, ho2id, ho2st⟩
      · exact .inl h3
      · by_cases hn : o2.id = name
        · left
          have : o2 = o := eq_of_map_nodup h.oNodup ho2 ho (by rw [hn, hon])
          subst this
          rw [← ho2id, hn]
          exact hofail (by simp [Slot.failed, Slot.code_canceled ho2st, failedCode_cancelRc])
        · exact .inr ⟨o2, mem_reap_out.2 (.inl ⟨ho2, hn⟩), ho2id, ho2st⟩
  · intro o' ho' hst
    rcases mem_reap_out.1 ho' with ⟨h1, -⟩ | ⟨k, hk, -, rfl⟩
    · exact m.placeholders o' h1 hst
    · obtain ⟨q, hq, hqid, -⟩ := m.qorig k hk
      exact ⟨q, hq, hqid⟩
  · intro o' ho'
    rcases mem_reap_out.1 ho' with ⟨h1, -⟩ | ⟨k, hk, -, rfl⟩
    · exact m.noOldO o' h1
    · exact m.noOldQ k hk
  · intro q' hq'
    obtain ⟨r, hr, -, rfl⟩ := mem_reap_queued.1 hq'
    rw [dropBlocker_id]; exact m.noOldQ r hr
  · intro j hj
    simp only [reap, List.mem_append] at hj
    rcases hj with hj | hj
    · rcases m.cancelRows j hj with h1 | h1
      · exact .inl h1
      · exact .inr (h1.mono hF)
    · obtain ⟨k, hk, hkc, he⟩ := mem_cancelRows.1 hj
      cases he
      exact .inr ((hdoom k hk hkc).mono hF)

  · intro q' hq' q hq hid b
    obtain ⟨r, hr, hrc, rfl⟩ := mem_reap_queued.1 hq'
    rw [dropBlocker_id] at hid
    rw [mem_dropBlocker, m.rem r hr q hq hid b]
    have hname : Reaped s0 (reap failed s name) name := by
      refine ⟨(c.hasRow h).mono hsub, by rw [← hon]; exact m.noOldO o ho, ?_⟩
      rw [mem_reap_outIds]
      rintro (⟨-, h5⟩ | ⟨k, hk, -, he⟩)
      · exact h5 rfl
      · exact h.disj k hk o ho (he.trans hon.symm)
    have hiff : Reaped s0 (reap failed s name) b ↔ (Reaped s0 s b ∨ b = name) := by
      constructor
      · rintro ⟨h1, h2, h3⟩
        rw [mem_reap_outIds] at h3
        have hrow : HasRow s.log b := by
          simp only [reap, HasRow_append, hasRow_cancelRows] at h1
          rcases h1 with h1 | ⟨k, hk, hkc, he⟩
          · exact h1
          · exact absurd (.inr ⟨k, hk, hkc, he⟩) h3
        by_cases hbn : b = name
        · exact .inr hbn
        · exact .inl ⟨hrow, h2, fun hbo => h3 (.inl ⟨hbo, hbn⟩)⟩
      · rintro (⟨h1, h2, h3⟩ | rfl)
        · refine ⟨h1.mono hsub, h2, ?_⟩
          rw [mem_reap_outIds]
          rintro (⟨h4, -⟩ | ⟨k, hk, -, he⟩)
          · exact h3 h4
          · exact (h.qNoEv k hk).2 (he ▸ h1)
        · exact hname
    rw [hiff]
    constructor
    · rintro ⟨⟨h1, h2⟩, h3⟩; exact ⟨h1, fun hh => hh.elim h2 h3⟩
    · rintro ⟨h1, h2⟩; exact ⟨⟨h1, fun hh => h2 (.inl hh)⟩, fun hh => h2 (.inr hh)⟩

theorem mid_reapAll {s0 : QState} (failed : List JobId) (h0 : Good s0) : ∀ (names : List JobId) (s : QState),
    Good s → names.Nodup → (∀ n ∈ names, ReapCtx failed s n) → MidInv s0 failed s →
    MidInv s0 failed (reapAll failed names s).1 := by
  intro names
  induction names with
  | nil => intro s _ _ _ m; exact m
  | cons n ns ih =>
    intro s h hn hctx m
    simp only [reapAll]
    simp only [List.nodup_cons] at hn
    have hcn := hctx n (by simp)
    apply ih (reap failed s n) (good_reap h hcn) hn.2
    · intro n' hn'
      exact reapCtx_reap (hctx n' (by simp [hn'])) (by rintro rfl; exact hn.1 hn')
    · exact mid_reap h0 h hcn m

theorem mid_addCompleted {s0 : QState} {failed : List JobId} {s : QState} (m : MidInv s0 failed s) (n : Nat) :
    MidInv s0 failed (addCompleted n s) := by
  obtain ⟨a1, a2, a3, a4, a5, a6, a7, a8, a9, a10⟩ := m
  exact ⟨a1, a2, a3, a4, a5, a6, a7, a8, a9, a10⟩

theorem pollAll_outIds (ev : Poll) (s : QState) : (pollAll ev s).outIds = s.outIds := by
  simp [QState.outIds, pollAll, List.map_map, Function.comp_def, pollSlot_id]

theorem mid_pollAll {s0 : QState} {failed : List JobId} {s : QState} (ev : Poll) (h : Good s)
    (m : MidInv s0 failed s) : MidInv s0 (failed ++ failedOf (pollAll ev s)) (pollAll ev s) := by
  have h1 : Good (pollAll ev s) := good_pollAll ev h
  have hsub : ∀ e ∈ s.log, e ∈ (pollAll ev s).log := by
    intro e he; rw [pollAll_eq]; exact List.mem_append_left _ he
  have hF : ∀ x, FailedNow s0 s x → FailedNow s0 (pollAll ev s) x := fun x hx => hx.mono hsub
  have hslot : ∀ o' ∈ (pollAll ev s).outstanding, o'.st = .canceled → o' ∈ s.outstanding := by
    intro o' ho' hst
    obtain ⟨o, ho, rfl⟩ := List.mem_map.1 ho'
    cases hc : exitCode ev o with
    | some rc => rw [pollSlot_some hc] at hst; cases hst
    | none => rw [pollSlot_none hc]; exact ho
  have hfo : ∀ f ∈ failedOf (pollAll ev s), f ∈ s.outIds := by
    intro f hf
    obtain ⟨o, ho, rfl⟩ := List.mem_map.1 hf
    rw [← pollAll_outIds ev s]
    exact List.mem_map_of_mem (List.mem_filter.1 ho).1
  constructor
  · intro e he; exact hsub _ (m.sub e he)
  · intro f hf
    rcases List.mem_append.1 hf with hf | hf
    · rcases m.fsound f hf with h2 | h2
      · exact .inl (hF _ h2)
      · exact .inr (h2.mono hF)
    · obtain ⟨o, ho, rfl⟩ := List.mem_map.1 hf
      obtain ⟨ho, hfl⟩ := List.mem_filter.1 ho
      have hold : ¬ HasRow s0.log o.id := by
        obtain ⟨o1, ho1, rfl⟩ := List.mem_map.1 ho
        rw [pollSlot_id]; exact m.noOldO o1 ho1
      cases hs : o.st with
      | running => simp [Slot.failed, Slot.code_running hs] at hfl
      | exited rc =>
        simp only [Slot.failed, Slot.code_exited hs] at hfl
        exact .inl ⟨rc, h1.oExit o ho rc hs, hold, hfl⟩
      | canceled =>
        have hos := hslot o ho hs
        obtain ⟨q, hq, hqid⟩ := m.placeholders o hos hs
        rcases m.fate q hq with h2 | ⟨-, h2, -⟩
        · obtain ⟨q2, hq2, he⟩ := List.mem_map.1 h2
          exact absurd (he.trans hqid) (h.disj q2 hq2 o hos)
        · rw [← hqid]; exact .inr (h2.mono hF)
  · rintro f ⟨rc, h2, h3, h4⟩
    rw [pollAll_eq] at h2
    simp only [List.mem_append] at h2
    rcases h2 with h2 | h2
    · exact List.mem_append_left _ (m.fcomplete f ⟨rc, h2, h3, h4⟩)
    · obtain ⟨o, ho, rc', hrc, he⟩ := mem_rows_exiting.1 h2
      cases he
      apply List.mem_append_right
      refine List.mem_map.2 ⟨pollSlot ev o, List.mem_filter.2 ⟨List.mem_map_of_mem ho, ?_⟩, pollSlot_id _ _⟩
      simp [Slot.failed, Slot.code_exited (pollSlot_some hrc), h4]
  · intro q' hq'
    obtain ⟨q, hq, h2, h3, h4, h5⟩ := m.qorig q' hq'
    refine ⟨q, hq, h2, h3, h4, ?_⟩
    intro hfl b hb
    rcases h5 hfl b hb with h6 | ⟨h6, h7, h8⟩
    · exact .inl h6
    · refine .inr ⟨?_, by rw [pollAll_outIds]; exact h7, h8⟩
      intro hbf
      rcases List.mem_append.1 hbf with hbf | hbf
      · exact h6 hbf
      · exact h7 (hfo b hbf)
  · intro q hq
    rcases m.fate q hq with h2 | ⟨h2, h3, h4⟩
    · exact .inl h2
    · right
      refine ⟨hsub _ h2, h3.mono hF, ?_⟩
      rcases h4 with h4 | ⟨o, ho, hoid, host⟩
      · exact .inl (List.mem_append_left _ h4)
      · refine .inr ⟨o, ?_, hoid, host⟩
        have : exitCode ev o = none := by simp [exitCode, host]
        rw [pollAll_eq]
        exact List.mem_map.2 ⟨o, ho, pollSlot_none this⟩
  · intro o' ho' hst
    exact m.placeholders o' (hslot o' ho' hst) hst
  · intro o' ho'
    obtain ⟨o, ho, rfl⟩ := List.mem_map.1 ho'
    rw [pollSlot_id]; exact m.noOldO o ho
  · exact m.noOldQ
  · intro j hj
    rw [pollAll_eq] at hj
    simp only [List.mem_append] at hj
    rcases hj with hj | hj
    · rcases m.cancelRows j hj with h2 | h2
      · exact .inl h2
      · exact .inr (h2.mono hF)
    · obtain ⟨o, _, rc, _, he⟩ := mem_rows_exiting.1 hj
      cases he

  · intro q' hq' q hq hid b
    rw [m.rem q' hq' q hq hid b]
    have : Reaped s0 (pollAll ev s) b ↔ Reaped s0 s b := by
      simp only [Reaped, pollAll_outIds]
      constructor
      · rintro ⟨h2, h3, h4⟩
        refine ⟨?_, h3, h4⟩
        rw [pollAll_eq] at h2
        simp only [HasRow_append, hasRow_rows_exiting] at h2
        rcases h2 with h2 | ⟨o, ho, -, he⟩
        · exact h2
        · exact absurd (List.mem_map.2 ⟨o, ho, he⟩) h4
      · rintro ⟨h2, h3, h4⟩; exact ⟨h2.mono hsub, h3, h4⟩
    rw [this]

theorem clean_mono_nil {failed : List JobId} {s : QState} (h : Clean failed s) (n : Nat) :
    Clean (failed ++ []) (addCompleted n s) := by
  simpa [Clean, addCompleted] using h

/-- one pass preserves the loop invariant -/
theorem mid_pass {s0 : QState} {ev : Poll} {failed : List JobId} {s : QState} (h0 : Good s0) (h : Good s)
    (m : MidInv s0 failed s) (hcl : Clean failed s) (hb : ∀ f ∈ failed, BadRow s.log f) :
    MidInv s0 (pass ev failed s).2.1 (pass ev failed s).1 ∧ Clean (pass ev failed s).2.1 (pass ev failed s).1 := by
  have h1 : Good (pollAll ev s) := good_pollAll ev h
  have m1 := mid_pollAll ev h m
  have hb1 : ∀ f ∈ failed ++ failedOf (pollAll ev s), BadRow (pollAll ev s).log f := by
    intro f hf
    rcases List.mem_append.1 hf with hf | hf
    · exact (hb f hf).mono (by intro e he; rw [pollAll_eq]; exact List.mem_append_left _ he)
    · exact failedOf_bad h1 f hf
  rw [pass_fst, pass_failed]
  refine ⟨?_, ?_⟩
  · apply mid_reapAll _ h0 _ _ (good_addCompleted h1 _) (completedOf_nodup h1) _ (mid_addCompleted m1 _)
    intro n hn
    obtain ⟨o, ho, hst, rfl⟩ := mem_completedOf.1 hn
    refine ⟨⟨o, ho, rfl, hst, ?_⟩, hb1⟩
    intro hf
    exact List.mem_append_right _ (List.mem_map.2 ⟨o, List.mem_filter.2 ⟨ho, hf⟩, rfl⟩)
  · apply clean_reapAll
    by_cases hne : completedOf (pollAll ev s) = []
    · left
      have : failedOf (pollAll ev s) = [] := by
        rw [List.eq_nil_iff_forall_not_mem]
        intro f hf
        obtain ⟨o, ho, rfl⟩ := List.mem_map.1 hf
        obtain ⟨ho, hfl⟩ := List.mem_filter.1 ho
        have : o.id ∈ completedOf (pollAll ev s) := by
          refine mem_completedOf.2 ⟨o, ho, ?_, rfl⟩
          intro hs; simp [Slot.failed, Slot.code_running hs] at hfl
        rw [hne] at this; simp at this
      rw [this]
      exact clean_mono_nil hcl (completedOf (pollAll ev s)).length
    · exact .inr hne


theorem spec_checkLoop {s0 : QState} (h0 : Good s0) : ∀ (n : Nat) (evs : List Poll) (failed : List JobId)
    (s : QState), Good s → Counted s → MidInv s0 failed s → Clean failed s → (∀ f ∈ failed, BadRow s.log f) →
    ∃ failed', MidInv s0 failed' (checkLoop n evs failed s) ∧ Clean failed' (checkLoop n evs failed s) := by
  intro n
  induction n with
  | zero => intro evs failed s _ _ m hcl _; exact ⟨failed, m, hcl⟩
  | succ n ih =>
    intro evs failed s h hc m hcl hb
    obtain ⟨g1, g2, g3⟩ := good_pass (ev := evs.headD []) h hc hb
    obtain ⟨m1, c1⟩ := mid_pass (ev := evs.headD []) h0 h m hcl hb
    simp only [checkLoop]
    split
    · exact ih _ _ _ g1 g2 m1 c1 g3
    · exact ⟨_, m1, c1⟩

theorem mid_init {s0 : QState} (h0 : Good s0) (ht : Tidy s0) : MidInv s0 [] s0 := by
  constructor
  · intro e he; exact he
  · intro f hf; simp at hf
  · rintro f ⟨rc, h1, h2, -⟩; exact absurd ⟨rc, _, h1⟩ h2
  · intro q' hq'
    exact ⟨q', hq', rfl, rfl, fun b hb => hb, fun _ b hb => .inl hb⟩
  · intro q hq; exact .inl (List.mem_map_of_mem hq)
  · intro o ho hst; rw [ht o ho] at hst; cases hst
  · intro o ho; exact (h0.oRun o ho (ht o ho)).2
  · intro q hq; exact (h0.qNoEv q hq).2
  · intro j hj; exact .inl hj

  · intro q' hq' q hq hid b
    have : q = q' := eq_of_map_nodup h0.qNodup hq hq' hid
    subst this
    constructor
    · intro hb; exact ⟨hb, fun hr => hr.2.1 hr.1⟩
    · exact fun hb => hb.1

/-- **`_check_completions` cancels exactly the least fixpoint** (state `s0` between two operations):
    a queued job gets a canceled row iff it is in the least set of queued flagged jobs closed under
    "some remaining blocker completed with a failing code in this call, or is itself in the set";
    exactly the others stay queued. -/
theorem checkCompletions_lfp {s0 : QState} (h0 : Good s0) (hc : Counted s0) (ht : Tidy s0) (evs : List Poll) :
    ∀ q ∈ s0.queued,
      (Ev.row q.id cancelRc .canceled ∈ (checkCompletions evs s0).log ↔
        Doomed s0.queued (FailedNow s0 (checkCompletions evs s0)) q.id) ∧
      (q.id ∈ (checkCompletions evs s0).queuedIds ↔
        ¬ Doomed s0.queued (FailedNow s0 (checkCompletions evs s0)) q.id) ∧
      (∀ q' ∈ (checkCompletions evs s0).queued, q'.id = q.id → q'.cancelFlag = q.cancelFlag ∧
        ∀ b, b ∈ q'.blockers ↔
          (b ∈ q.blockers ∧ ¬ (HasRow (checkCompletions evs s0).log b ∧ ¬ HasRow s0.log b))) := by
  obtain ⟨g1, -, g3⟩ := good_checkCompletions evs h0 hc
  obtain ⟨F, m, hcl⟩ := spec_checkLoop h0 (s0.queued.length + 1) evs [] s0 h0 hc (mid_init h0 ht)
    (by intro q' _ _ b _ hb; simp at hb) (by simp)
  change MidInv s0 F (checkCompletions evs s0) at m
  change Clean F (checkCompletions evs s0) at hcl
  generalize checkCompletions evs s0 = s' at *
  have hq0 : ∀ {a b : Job}, a ∈ s0.queued → b ∈ s0.queued → a.id = b.id → a = b :=
    fun ha hb => eq_of_map_nodup h0.qNodup ha hb
  -- a doomed job is no longer queued
  have hB : ∀ j, Doomed s0.queued (FailedNow s0 s') j → j ∉ s'.queuedIds := by
    intro j hd
    have key : ∀ (q : Job) (b : JobId), q ∈ s0.queued → q.cancelFlag = true → b ∈ q.blockers → b ∈ F →
        q.id ∉ s'.queuedIds := by
      intro q b hq hf hb hbF hmem
      obtain ⟨q', hq', he⟩ := List.mem_map.1 hmem
      obtain ⟨q1, hq1, h1, h2, -, h4⟩ := m.qorig q' hq'
      have : q1 = q := hq0 hq1 hq (h1.trans he)
      subst this
      rcases h4 hf b hb with h5 | ⟨h5, -⟩
      · exact hcl q' hq' (by rw [← h2]; exact hf) b h5 hbF
      · exact h5 hbF
    induction hd with
    | base hq hf hb hfn => exact key _ _ hq hf hb (m.fcomplete _ hfn)
    | @step q b hq hf hb hd ih =>
      obtain ⟨qb, hqb, hqbid⟩ := hd.mem
      have hbF : b ∈ F := by
        rcases m.fate qb hqb with h1 | ⟨-, -, h1 | ⟨o, ho, -, hst⟩⟩
        · rw [hqbid] at h1; exact absurd h1 ih
        · rw [hqbid] at h1; exact h1
        · rw [g3 o ho] at hst; cases hst
      exact key _ _ hq hf hb hbF
  intro q hq
  have hfate := m.fate q hq
  refine ⟨⟨?_, ?_⟩, ⟨?_, ?_⟩, ?_⟩
  rotate_right
  · intro q' hq' hid
    obtain ⟨q1, hq1, h1, h2, -, -⟩ := m.qorig q' hq'
    have : q1 = q := hq0 hq1 hq (h1.trans hid)
    subst this
    refine ⟨h2.symm, fun b => ?_⟩
    rw [m.rem q' hq' q1 hq hid.symm b]
    have : Reaped s0 s' b ↔ (HasRow s'.log b ∧ ¬ HasRow s0.log b) := by
      constructor
      · rintro ⟨a1, a2, -⟩; exact ⟨a1, a2⟩
      · rintro ⟨a1, a2⟩
        refine ⟨a1, a2, ?_⟩
        intro hbo
        obtain ⟨o, ho, rfl⟩ := List.mem_map.1 hbo
        exact (g1.oRun o ho (g3 o ho)).2 a1
    rw [this]
  · intro hr
    rcases m.cancelRows _ hr with h1 | h1
    · exact absurd ⟨_, _, h1⟩ (h0.qNoEv q hq).2
    · exact h1
  · intro hd
    rcases hfate with h1 | ⟨h1, -⟩
    · exact absurd h1 (hB _ hd)
    · exact h1
  · intro h1 hd; exact hB _ hd h1
  · intro hnd
    rcases hfate with h1 | ⟨-, h1, -⟩
    · exact h1
    · exact absurd h1 hnd



/-! ### live processes, read off the logs -/

/-- processes that were launched and whose exit has not been recorded yet -/
def liveProcs (s : QState) : List JobId :=
  s.starts.filter (fun j => !(s.rows.any (fun r => r.1 == j)))

theorem mem_liveProcs {s : QState} {j : JobId} :
    j ∈ liveProcs s ↔ (Ev.start j ∈ s.log ∧ ¬ HasRow s.log j) := by
  simp only [liveProcs, List.mem_filter, QState.starts, QState.rows, mem_startsOf, Bool.not_eq_true',
    List.any_eq_false, beq_iff_eq, hasRow_iff_rows, List.mem_map, not_exists, not_and]

theorem Good.liveProcs_le {s : QState} (h : Good s) : (liveProcs s).length ≤ s.depth := by
  have hnd : (liveProcs s).Nodup := h.logOk.starts_nodup.sublist List.filter_sublist
  have hsub : ∀ j ∈ liveProcs s, j ∈ (s.outstanding.filter (fun o => o.st != .canceled)).map (·.id) := by
    intro j hj
    obtain ⟨h1, h2⟩ := mem_liveProcs.1 hj
    obtain ⟨x, hx, hxe⟩ := h.logOk.mem_handed _ h1
    have hxe' : x.id = j := hxe
    have hq : x.id ∉ s.queuedIds := by
      intro hm
      obtain ⟨q, hq, he⟩ := List.mem_map.1 hm
      exact (h.qNoEv q hq).1 (by rw [he, hxe']; exact h1)
    have ho : x.id ∈ s.outIds := by
      by_cases hm : x.id ∈ s.outIds
      · exact hm
      · exact absurd (h.gone x hx hq hm) (by rw [hxe']; exact h2)
    obtain ⟨o, ho, he⟩ := List.mem_map.1 ho
    refine List.mem_map.2 ⟨o, List.mem_filter.2 ⟨ho, ?_⟩, he.trans hxe'⟩
    cases hs : o.st with
    | running => rfl
    | exited rc => rfl
    | canceled =>
      have : HasRow s.log j := ⟨_, _, by have := h.oCan o ho hs; rwa [he, hxe'] at this⟩
      exact absurd this h2
  have := nodup_subset_length hnd hsub
  rw [List.length_map] at this
  exact Nat.le_trans this h.live



/-! ### `run` never gets stuck -/

/-- no queued job still lists a blocker whose row was written and which has been popped already -/
@[reducible] def Fresh (s : QState) : Prop :=
  ∀ q ∈ s.queued, ∀ b ∈ q.blockers, HasRow s.log b → b ∈ s.outIds

theorem fresh_pollAll {s : QState} (ev : Poll) (h : Fresh s) : Fresh (pollAll ev s) := by
  intro q hq b hb hr
  rw [pollAll_outIds]
  rw [pollAll_eq] at hr
  simp only [HasRow_append, hasRow_rows_exiting] at hr
  rcases hr with hr | ⟨o, ho, -, he⟩
  · exact h q hq b hb hr
  · exact List.mem_map.2 ⟨o, ho, he⟩

theorem fresh_reap {failed : List JobId} {s : QState} (name : JobId) (h : Fresh s) :
    Fresh (reap failed s name) := by
  intro q' hq' b hb hr
  obtain ⟨r, hr', -, rfl⟩ := mem_reap_queued.1 hq'
  obtain ⟨hb1, hb2⟩ := (mem_dropBlocker _ _ _).1 hb
  rw [mem_reap_outIds]
  simp only [reap, HasRow_append, hasRow_cancelRows] at hr
  rcases hr with hr | ⟨k, hk, hkc, he⟩
  · exact .inl ⟨h r hr' b hb1 hr, hb2⟩
  · exact .inr ⟨k, hk, hkc, he⟩

theorem fresh_reapAll (failed : List JobId) : ∀ (names : List JobId) (s : QState), Fresh s →
    Fresh (reapAll failed names s).1 := by
  intro names
  induction names with
  | nil => intro s h; exact h
  | cons n ns ih => intro s h; simp only [reapAll]; exact ih _ (fresh_reap n h)

theorem fresh_pass (ev : Poll) (failed : List JobId) {s : QState} (h : Fresh s) : Fresh (pass ev failed s).1 := by
  rw [pass_fst]
  apply fresh_reapAll
  exact fresh_pollAll ev h

theorem fresh_checkLoop : ∀ (n : Nat) (evs : List Poll) (failed : List JobId) (s : QState), Fresh s →
    Fresh (checkLoop n evs failed s) := by
  intro n
  induction n with
  | zero => intro _ _ s h; exact h
  | succ n ih =>
    intro evs failed s h
    simp only [checkLoop]
    split
    · exact ih _ _ _ (fresh_pass _ _ h)
    · exact fresh_pass _ _ h

theorem pick_sub (a : Int) (qs : List Job) (n : Nat) : ∀ q ∈ (pick a n qs).2, q ∈ qs :=
  fun q hq => (pick_mem a qs n q).2 hq

theorem fresh_processQueue {s : QState} (evs : List Poll) (h : Fresh s) : Fresh (processQueue evs s) := by
  have hc : Fresh (checkCompletions evs s) := fresh_checkLoop _ _ _ _ h
  unfold processQueue
  simp only []
  split
  · exact hc
  · split
    · exact hc
    · rw [runPicked_eq]
      intro q hq b hb hr
      have hq' := pick_sub _ _ _ q hq
      have : HasRow (checkCompletions evs s).log b := by
        simp only [HasRow_append] at hr
        rcases hr with hr | ⟨rc, st, hr⟩
        · exact hr
        · obtain ⟨p, _, he⟩ := List.mem_map.1 hr
          simp [startEv] at he
      have := hc q hq' b hb this
      simp only [QState.outIds, List.map_append, List.mem_append]
      exact .inl this

theorem fresh_submit_norows {s : QState} (j : Job) (h : ∀ k, ¬ HasRow s.log k) :
    Fresh (submit j s) ∧ ∀ k, ¬ HasRow (submit j s).log k := by
  unfold submit
  split
  · rw [runJob_eq]
    have h' : ∀ k, ¬ HasRow (s.log ++ [Ev.start j.id]) k := by
      intro k; rw [HasRow_snoc_start]; exact h k
    exact ⟨fun q _ b _ hr => absurd hr (h' b), h'⟩
  · exact ⟨fun q _ b _ hr => absurd hr (h b), h⟩

theorem fresh_submits : ∀ (jobs : List Job) (s : QState), (∀ k, ¬ HasRow s.log k) →
    (jobs = [] → Fresh s) → Fresh (jobs.foldl (fun s j => submit j s) s) := by
  intro jobs
  induction jobs with
  | nil => intro s _ h; exact h rfl
  | cons j jobs ih =>
    intro s h _
    simp only [List.foldl_cons]
    have := fresh_submit_norows j h
    exact ih (submit j s) this.2 (fun _ => this.1)

theorem fresh_run (d : Nat) (jobs : List Job) (sched : List (List Poll)) (k : Nat) :
    Fresh (runOps d (runOpsOf jobs sched k)) := by
  have h1 : Fresh (submitAll d jobs) := by
    apply fresh_submits
    · intro k; simp [QState.init]
    · intro _ q hq; simp [QState.init] at hq
  rw [submitAll_eq] at h1
  simp only [runOps, runOpsOf, List.foldl_append] at h1 ⊢
  generalize List.foldl step (QState.init d) (jobs.map Op.submit) = s at h1 ⊢
  generalize sched.take k = l
  induction l generalizing s with
  | nil => exact h1
  | cons e l ih => simp only [pqOps, List.map_cons, List.foldl_cons, step]; exact ih _ (fresh_processQueue e h1)

theorem pick_nil (a : Int) : ∀ (qs : List Job), (pick a 0 qs).1 = [] → ∀ q ∈ qs, q.blockers ≠ [] := by
  intro qs
  induction qs with
  | nil => intro _ q hq; simp at hq
  | cons x qs ih =>
    intro h q hq
    simp only [pick] at h
    split at h
    · next hb =>
      rcases List.mem_cons.1 hq with rfl | hq
      · exact (startBlocked_iff _).1 hb
      · exact ih h q hq
    · split at h
      · simp at h
      · simp at h

/-- if nothing is outstanding and every queued job is blocked, nothing is queued (closed acyclic batch) -/
theorem stuck_empty {s : QState} (h : Good s) (hf : Fresh s) (ho : s.outstanding = [])
    (hblocked : ∀ q ∈ s.queued, q.blockers ≠ [])
    (hclosed : ∀ x ∈ s.handed, ∀ b ∈ x.blockers, ∃ y ∈ s.handed, y.id = b)
    (rank : JobId → Nat) (hrank : ∀ x ∈ s.handed, ∀ b ∈ x.blockers, rank b < rank x.id) :
    s.queued = [] := by
  have key : ∀ n, ∀ q ∈ s.queued, rank q.id < n → False := by
    intro n
    induction n with
    | zero => intro q _ hr; omega
    | succ n ih =>
      intro q hq hr
      obtain ⟨b, hb⟩ := List.exists_mem_of_ne_nil _ (hblocked q hq)
      obtain ⟨x, hx, hxid, -, hsub, -⟩ := h.qHanded q hq
      obtain ⟨y, hy, hyid⟩ := hclosed x hx b (hsub b hb)
      have hlt : rank b < rank q.id := by rw [← hxid]; exact hrank x hx b (hsub b hb)
      by_cases hbq : y.id ∈ s.queuedIds
      · obtain ⟨qb, hqb, he⟩ := List.mem_map.1 hbq
        exact ih qb hqb (by rw [he, hyid]; omega)
      · have hbo : y.id ∉ s.outIds := by simp [QState.outIds, ho]
        have hrow := h.gone y hy hbq hbo
        rw [hyid] at hrow
        have := hf q hq b hb hrow
        simp [QState.outIds, ho] at this
  cases hq : s.queued with
  | nil => rfl
  | cons q qs => exact absurd (key (rank q.id + 1) q (by rw [hq]; simp) (by omega)) id

/-- after a `process_queue` call on a state of a `run` of a closed acyclic batch with depth ≥ 1: either some
    process is still running, or the queue is empty -/
theorem never_stuck {s : QState} (evs : List Poll) (h : Good s) (hc : Counted s) (hf : Fresh s)
    (hd : 1 ≤ s.depth)
    (hclosed : ∀ x ∈ s.handed, ∀ b ∈ x.blockers, ∃ y ∈ s.handed, y.id = b)
    (rank : JobId → Nat) (hrank : ∀ x ∈ s.handed, ∀ b ∈ x.blockers, rank b < rank x.id)
    (ho : (processQueue evs s).outstanding = []) : (processQueue evs s).queued = [] := by
  obtain ⟨g, -, -⟩ := good_processQueue evs h hc
  have hfr := fresh_processQueue evs hf
  have hh := processQueue_handed evs s
  apply stuck_empty g hfr ho _ (by rw [hh.1]; exact hclosed) rank (by rw [hh.1]; exact hrank)
  -- every queued job is blocked
  obtain ⟨g1, -, t1⟩ := good_checkCompletions evs h hc
  have hdep := (checkCompletions_handed evs s).2
  unfold processQueue at ho ⊢
  simp only [] at ho ⊢
  split at ho
  · next hn =>
    rw [if_pos hn]
    have := (nothingQueued_iff _).1 hn
    simp only [QState.queuedIds, List.map_eq_nil_iff] at this
    intro q hq; rw [this] at hq; simp at hq
  · next hn =>
    rw [if_neg hn]
    split at ho
    · next hz =>
      exfalso
      have hnn := avail_nonneg g1 t1
      have h0 := (noneAvailable_iff _ hnn).1 hz
      rw [availableJobs_eq] at h0
      simp only [QState.outIds, List.length_map, ho, List.length_nil] at h0
      omega
    · next hz =>
      rw [if_neg hz]
      rw [runPicked_eq] at ho ⊢
      simp only [List.append_eq_nil_iff, List.map_eq_nil_iff] at ho
      intro q hq
      exact pick_nil _ _ ho.2 q (pick_sub _ _ _ q hq)



/-! ### `run` terminates when the processes do -/

/-- handed jobs that have no row yet -/
def pendingJobs (s : QState) : List Job :=
  s.handed.filter (fun h => !(s.rows.any (fun r => r.1 == h.id)))

theorem mem_pendingJobs {s : QState} {x : Job} :
    x ∈ pendingJobs s ↔ (x ∈ s.handed ∧ ¬ HasRow s.log x.id) := by
  simp only [pendingJobs, List.mem_filter, QState.rows, Bool.not_eq_true', List.any_eq_false, beq_iff_eq,
    hasRow_iff_rows, List.mem_map, not_exists, not_and]

theorem filter_length_lt {α : Type} (p p' : α → Bool) : ∀ (l : List α),
    (∀ x ∈ l, p' x = true → p x = true) → (∃ x ∈ l, p x = true ∧ p' x = false) →
    (l.filter p').length < (l.filter p).length := by
  intro l
  induction l with
  | nil => intro _ h; obtain ⟨x, hx, -⟩ := h; simp at hx
  | cons a l ih =>
    intro hle hex
    have hle' : ∀ x ∈ l, p' x = true → p x = true := fun x hx => hle x (by simp [hx])
    have hmono : (l.filter p').length ≤ (l.filter p).length := by
      clear ih hex hle
      induction l with
      | nil => simp
      | cons b l ih2 =>
        have h1 := hle' b (by simp)
        have h2 := ih2 (fun x hx => hle' x (by simp [hx]))
        cases hb' : p' b <;> cases hb : p b <;> simp [hb, hb'] <;> simp_all <;> omega
    obtain ⟨x, hx, hpx, hp'x⟩ := hex
    rcases List.mem_cons.1 hx with rfl | hx
    · simp [hpx, hp'x]; omega
    · have := ih hle' ⟨x, hx, hpx, hp'x⟩
      have h1 := hle a (by simp)
      cases ha' : p' a <;> cases ha : p a <;> simp [ha, ha'] <;> simp_all <;> omega

/-- every running process has an exit event in this poll -/
@[reducible] def Covers (ev : Poll) (s : QState) : Prop :=
  ∀ o ∈ s.outstanding, o.st = .running → ∃ rc, ev.lookup o.id = some rc

theorem checkLoop_first_pass (n : Nat) (evs : List Poll) (failed : List JobId) (s : QState) :
    ∀ e ∈ (pollAll (evs.headD []) s).log, e ∈ (checkLoop (n + 1) evs failed s).log := by
  intro e he
  have h1 : e ∈ (pass (evs.headD []) failed s).1.log := by
    rw [pass_fst]
    exact reapAll_log_sub _ _ (addCompleted _ (pollAll (evs.headD []) s)) e he
  simp only [checkLoop]
  split
  · obtain ⟨new, h2, -⟩ := checkLoop_log_new n evs.tail (pass (evs.headD []) failed s).2.1
      (pass (evs.headD []) failed s).1
    rw [h2]; exact List.mem_append_left _ h1
  · exact h1

theorem processQueue_log_sub (evs : List Poll) (s : QState) :
    ∀ e ∈ (checkCompletions evs s).log, e ∈ (processQueue evs s).log := by
  intro e he
  unfold processQueue
  simp only []
  split
  · exact he
  · split
    · exact he
    · rw [runPicked_eq]; exact List.mem_append_left _ he

theorem progress {s : QState} {ev : Poll} (rest : List Poll) (h : Good s) (ht : Tidy s)
    (hne : s.outstanding ≠ []) (hcov : Covers ev s) :
    (pendingJobs (processQueue (ev :: rest) s)).length < (pendingJobs s).length := by
  obtain ⟨o, ho⟩ := List.exists_mem_of_ne_nil _ hne
  obtain ⟨rc, hrc⟩ := hcov o ho (ht o ho)
  obtain ⟨x, hx, hxid⟩ := h.oHanded o ho
  have hcode : exitCode ev o = some rc := by simp [exitCode, ht o ho, hrc]
  have hsub0 : ∀ e ∈ (pollAll ev s).log, e ∈ (processQueue (ev :: rest) s).log := by
    intro e he
    apply processQueue_log_sub
    exact checkLoop_first_pass s.queued.length (ev :: rest) [] s e (by simpa using he)
  have hsub : ∀ e ∈ s.log, e ∈ (processQueue (ev :: rest) s).log := by
    intro e he; apply hsub0; rw [pollAll_eq]; exact List.mem_append_left _ he
  have hrow : HasRow (processQueue (ev :: rest) s).log o.id := by
    refine ⟨rc, .finished, hsub0 _ ?_⟩
    rw [pollAll_eq]
    exact List.mem_append_right _ (mem_rows_exiting.2 ⟨o, ho, rc, hcode, rfl⟩)
  have hh : (processQueue (ev :: rest) s).handed = s.handed := (processQueue_handed _ s).1
  unfold pendingJobs
  rw [hh]
  apply filter_length_lt
  · intro y _ hy
    simp only [QState.rows, Bool.not_eq_true', List.any_eq_false, beq_iff_eq] at hy ⊢
    intro r hr he
    obtain ⟨j, rc', st⟩ := r
    exact hy (j, rc', st) (mem_rowsOf.2 (hsub _ (mem_rowsOf.1 hr))) he
  · refine ⟨x, hx, ?_, ?_⟩
    · simp only [QState.rows, Bool.not_eq_true', List.any_eq_false, beq_iff_eq]
      intro r hr he
      obtain ⟨j, rc', st⟩ := r
      exact (h.oRun o ho (ht o ho)).2 ⟨rc', st, by rw [← hxid, ← he]; exact mem_rowsOf.1 hr⟩
    · simp only [QState.rows, Bool.not_eq_false', List.any_eq_true, beq_iff_eq]
      obtain ⟨rc', st, hm⟩ := hrow
      exact ⟨(o.id, rc', st), mem_rowsOf.2 hm, hxid.symm⟩

/-- what `wait`'s loop maintains on a run of a closed acyclic batch -/
structure RunInv (jobs : List Job) (rank : JobId → Nat) (s : QState) : Prop where
  good : Good s
  counted : Counted s
  tidy : Tidy s
  fresh : Fresh s
  handed : s.handed = jobs
  depth : 1 ≤ s.depth
  closed : ∀ x ∈ jobs, ∀ b ∈ x.blockers, ∃ y ∈ jobs, y.id = b
  ranked : ∀ x ∈ jobs, ∀ b ∈ x.blockers, rank b < rank x.id

theorem RunInv.step {jobs : List Job} {rank : JobId → Nat} {s : QState} (evs : List Poll)
    (h : RunInv jobs rank s) :
    RunInv jobs rank (processQueue evs s) ∧
      ((processQueue evs s).outstanding = [] → (processQueue evs s).queued = []) := by
  obtain ⟨g, c, t⟩ := good_processQueue evs h.good h.counted
  have hh := processQueue_handed evs s
  refine ⟨⟨g, c, t, fresh_processQueue evs h.fresh, hh.1.trans h.handed, by rw [hh.2]; exact h.depth,
    h.closed, h.ranked⟩, ?_⟩
  exact never_stuck evs h.good h.counted h.fresh h.depth (by rw [h.handed]; exact h.closed) rank
    (by rw [h.handed]; exact h.ranked)

theorem waitLoop_drains {jobs : List Job} {rank : JobId → Nat} {ev : Poll}
    (hfull : ∀ x ∈ jobs, ∃ rc, ev.lookup x.id = some rc) :
    ∀ (m : Nat) (s : QState), RunInv jobs rank s → (s.outstanding = [] → s.queued = []) →
      (pendingJobs s).length ≤ m → (waitLoop (List.replicate (m + 1) [ev]) s).2 = true := by
  intro m
  induction m with
  | zero =>
    intro s h hst hp
    have hbusy : s.busy = false := by
      rw [busy_false_iff]
      have ho : s.outstanding = [] := by
        cases hs : s.outstanding with
        | nil => rfl
        | cons o os =>
          exfalso
          have ho : o ∈ s.outstanding := by rw [hs]; simp
          obtain ⟨x, hx, hxid⟩ := h.good.oHanded o ho
          have : x ∈ pendingJobs s := mem_pendingJobs.2 ⟨hx, by rw [hxid]; exact (h.good.oRun o ho (h.tidy o ho)).2⟩
          have hl := List.length_pos_of_mem this
          omega
      exact ⟨ho, hst ho⟩
    simp [List.replicate, waitLoop, hbusy]
  | succ m ih =>
    intro s h hst hp
    rw [List.replicate_succ]
    simp only [waitLoop]
    split
    · next hb =>
      have hne : s.outstanding ≠ [] := by
        intro ho
        have : s.busy = false := (busy_false_iff s).2 ⟨ho, hst ho⟩
        rw [this] at hb; cases hb
      have hcov : Covers ev s := by
        intro o ho _
        obtain ⟨x, hx, hxid⟩ := h.good.oHanded o ho
        rw [← hxid]; exact hfull x (h.handed ▸ hx)
      have hpr := progress [] h.good h.tidy hne hcov
      obtain ⟨h', hst'⟩ := h.step [ev]
      exact ih _ h' hst' (by omega)
    · rfl

theorem pendingJobs_le (s : QState) : (pendingJobs s).length ≤ s.handed.length :=
  List.length_filter_le _ _

theorem waitLoop_prefix {jobs : List Job} {rank : JobId → Nat} (tail : List (List Poll))
    (htail : ∀ s, RunInv jobs rank s → (waitLoop tail s).2 = true) :
    ∀ (pre : List (List Poll)) (s : QState), RunInv jobs rank s → (waitLoop (pre ++ tail) s).2 = true := by
  intro pre
  induction pre with
  | nil => intro s h; exact htail s h
  | cons e pre ih =>
    intro s h
    simp only [List.cons_append, waitLoop]
    split
    · exact ih _ (h.step e).1
    · rfl

/-- **`wait` returns as soon as the processes do**: whatever happened before (`pre`), if from some point on
    every poll reports every process as exited, `number of jobs + 2` more polls drain the queue -/
theorem run_drains_aux (d : Nat) (jobs : List Job) (rank : JobId → Nat) (ev : Poll) (pre : List (List Poll))
    (hn : (jobs.map (·.id)).Nodup) (hd : 1 ≤ d)
    (hclosed : ∀ x ∈ jobs, ∀ b ∈ x.blockers, ∃ y ∈ jobs, y.id = b)
    (hrank : ∀ x ∈ jobs, ∀ b ∈ x.blockers, rank b < rank x.id)
    (hfull : ∀ x ∈ jobs, ∃ rc, ev.lookup x.id = some rc) :
    (waitLoop (pre ++ List.replicate (jobs.length + 2) [ev]) (submitAll d jobs)).2 = true := by
  have hdist : Distinct (runOpsOf jobs [] 0) := by
    show ((handedOf (runOpsOf jobs [] 0)).map (·.id)).Nodup
    rw [handedOf_runOpsOf]; exact hn
  obtain ⟨g, c, t, hh, hdep⟩ := good_runOps d _ hdist
  rw [handedOf_runOpsOf] at hh
  have hfr := fresh_run d jobs [] 0
  have hs : runOps d (runOpsOf jobs [] 0) = submitAll d jobs := by
    rw [submitAll_eq]; simp [runOpsOf, pqOps]
  rw [hs] at g c t hh hdep hfr
  have h0 : RunInv jobs rank (submitAll d jobs) := ⟨g, c, t, hfr, hh, by rw [hdep]; exact hd, hclosed, hrank⟩
  apply waitLoop_prefix _ _ pre _ h0
  intro s h
  rw [List.replicate_succ]
  simp only [waitLoop]
  split
  · obtain ⟨h', hst'⟩ := h.step [ev]
    apply waitLoop_drains hfull jobs.length _ h' hst'
    have := pendingJobs_le (processQueue [ev] s)
    rw [h'.handed] at this; exact this
  · rfl


end Jade.Queue
