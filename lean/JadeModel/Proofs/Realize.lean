import Lean.Elab.Command
import Lean.Meta.Eqns
import Lean.Meta.Match.MatchEqsExt
import Lean.Meta.Match.MatcherInfo

/-!
Build-engineering helper (no mathematical content).

Lean generates some auxiliary declarations on demand, in whatever module first needs them: the splitter
and the (congruence) equations of a `match`, the equation lemmas of a definition — and, while doing so,
helper *definitions* such as `….congr_eq_1._sparseCasesOn_3`.  When two modules that do not import each
other both generate the same helper definition, a third module importing both fails with
"environment already contains …".  The proofs about `Jade.Sys.step` are split into many modules that are
compiled in parallel, so every base module runs `#realize_aux Jade.Sys` once: it generates these
declarations for every `match` and definition under that namespace that is visible at that point, so
that all later modules find them already there.
-/

open Lean Meta Elab Command

/-- `#realize_aux NS` generates the on-demand auxiliary declarations (match splitter / equations /
    congruence equations, definitional equation lemmas) of every declaration under namespace `NS`. -/
elab "#realize_aux " ns:ident : command => do
  let ns := ns.getId
  let env ← getEnv
  let names : Array Name := env.constants.fold (init := #[]) fun acc n ci =>
    if ns.isPrefixOf n && !n.isInternalDetail || (ns.isPrefixOf n && isMatcherCore env n) then
      match ci with
      | .defnInfo _ => acc.push n
      | _ => acc
    else acc
  let names := names.qsort (fun a b => a.toString < b.toString)
  liftTermElabM do
    for n in names do
      if isMatcherCore (← getEnv) n then
        try discard <| Match.getEquationsFor n catch _ => pure ()
        try discard <| Match.genMatchCongrEqns n catch _ => pure ()
      else
        try discard <| getEqnsFor? n catch _ => pure ()
        try discard <| getUnfoldEqnFor? n (nonRec := true) catch _ => pure ()
