import JadeModel.Proofs.Queue
import JadeModel.Proofs.SystemOutcome

/-!
The node-level / local-mode reference (`Jade.Queue.ref`, over the job list handed to one `JobQueue`)
and the system-level reference (`Jade.Ref.ref`, over the scenario's dependency graph) are the same
function when the queue is given the whole configuration — which is exactly what local mode does.
Hence local mode and HPC mode record the same outcome for every job (C03).
-/

namespace Jade.RefBridge
open Jade.Queue Jade.Gen.Queue Jade.Sys

/-- the whole configuration as the job list of one queue (local mode) -/
def jobsOf (sc : Scn) : List Job :=
  (List.range sc.n).map fun j => { id := j, blockers := sc.blockers j, cancelFlag := sc.flag j }

/-- a system-level outcome in the queue's (code, status) form -/
def toPair (o : Jade.Ref.Outcome) : Int × RowStatus :=
  if o.canceled then (cancelRc, cancelStatus) else (o.rc, completeStatus)

theorem find_jobsOf (sc : Scn) (j : JobId) (hj : j < sc.n) :
    (jobsOf sc).find? (fun x => x.id == j) = some { id := j, blockers := sc.blockers j, cancelFlag := sc.flag j } := by
  have hmem : ({ id := j, blockers := sc.blockers j, cancelFlag := sc.flag j } : Job) ∈ jobsOf sc := by
    simp only [jobsOf, List.mem_map, List.mem_range]
    exact ⟨j, hj, rfl⟩
  have hn : ((jobsOf sc).map (·.id)).Nodup := by
    have : (jobsOf sc).map (·.id) = List.range sc.n := by
      simp [jobsOf, List.map_map, Function.comp_def]
    rw [this]; exact List.nodup_range
  exact find_id hn hmem

theorem isBad_toPair (o : Jade.Ref.Outcome) (h : o.canceled = true → o.rc = 1) : isBad (toPair o) = o.bad := by
  unfold toPair isBad Jade.Ref.Outcome.bad failedCode cancelRc cancelStatus completeStatus
  cases hc : o.canceled <;> simp [hc]

/-- round by round the two evaluations agree on configured jobs -/
theorem refOutcome_eq (sc : Scn) (hin : ∀ j, j < sc.n → ∀ b ∈ sc.blockers j, b < sc.n) :
    ∀ (k : Nat) (j : JobId), j < sc.n →
      refOutcome (jobsOf sc) sc.rc k j = toPair (Jade.Ref.refN sc.graph k j) ∧
      ((Jade.Ref.refN sc.graph k j).canceled = true → (Jade.Ref.refN sc.graph k j).rc = 1) := by
  intro k
  induction k with
  | zero => intro j _; simp [refOutcome, Jade.Ref.refN, toPair, Scn.graph]
  | succ k ih =>
    intro j hj
    simp only [refOutcome, find_jobsOf sc j hj, Jade.Ref.refN, Jade.Ref.evalJob]
    have hany : (sc.blockers j).any (fun b => isBad (refOutcome (jobsOf sc) sc.rc k b)) =
        (sc.graph.blockers j).any (fun b => (Jade.Ref.refN sc.graph k b).bad) := by
      show (sc.blockers j).any _ = (sc.blockers j).any _
      rw [Bool.eq_iff_iff]
      simp only [List.any_eq_true]
      constructor
      · rintro ⟨b, hb, hbad⟩
        have := ih b (hin j hj b hb)
        exact ⟨b, hb, by rw [← isBad_toPair _ this.2, ← this.1]; exact hbad⟩
      · rintro ⟨b, hb, hbad⟩
        have := ih b (hin j hj b hb)
        exact ⟨b, hb, by rw [this.1, isBad_toPair _ this.2]; exact hbad⟩
    rw [hany]
    simp only [Scn.graph]
    rcases Bool.eq_false_or_eq_true (sc.flag j && (sc.blockers j).any fun b =>
      (Jade.Ref.refN { n := sc.n, blockers := sc.blockers, flag := sc.flag, rc := sc.rc } k b).bad) with hc | hc <;>
      simp [hc, toPair]

/-- **local mode = HPC mode**: the reference outcome the queue theorems speak about (`Jade.Queue.ref` on the
    whole configuration) is the reference outcome the system theorems speak about (`Jade.Ref.ref`) -/
theorem ref_eq (sc : Scn) (hin : ∀ j, j < sc.n → ∀ b ∈ sc.blockers j, b < sc.n) (j : JobId) (hj : j < sc.n) :
    Jade.Queue.ref (jobsOf sc) sc.rc j = toPair (Jade.Ref.ref sc.graph j) := by
  have hlen : (jobsOf sc).length = sc.n := by simp [jobsOf]
  unfold Jade.Queue.ref Jade.Ref.ref
  rw [hlen]
  exact (refOutcome_eq sc hin sc.n j hj).1

end Jade.RefBridge
