import JadeModel.Basic

/-!
The reference semantics of a configuration (evaluate the dependency graph in topological order with the
jobs' exit codes) and the pure graph lemma behind C03/C04: *local* consistency of the recorded rows —
each row justified by rows of the job's own blockers — forces every row to equal the reference
outcome, on every acyclic graph.  Nothing here mentions schedules, batches, nodes or submitters.
-/

namespace Jade.Ref

structure Outcome where
  canceled : Bool
  rc : Int
  deriving DecidableEq, Repr

def Outcome.bad (o : Outcome) : Bool := o.canceled || o.rc != 0

/-- the configuration as a graph -/
structure Graph where
  n : Nat
  blockers : JobId → List JobId
  flag : JobId → Bool
  rc : JobId → Int

/-- one job's outcome from its blockers' outcomes: canceled iff flagged and some blocker failed or
    was canceled; otherwise it runs and finishes with its exit code -/
def evalJob (g : Graph) (o : JobId → Outcome) (j : JobId) : Outcome :=
  if g.flag j && (g.blockers j).any (fun b => (o b).bad) then ⟨true, 1⟩ else ⟨false, g.rc j⟩

/-- `k` rounds of evaluation (kernel-reducible) -/
def refN (g : Graph) : Nat → JobId → Outcome
  | 0, j => ⟨false, g.rc j⟩
  | k + 1, j => evalJob g (refN g k) j

/-- the reference outcome: `n` rounds suffice on an acyclic graph with `n` jobs -/
def ref (g : Graph) (j : JobId) : Outcome := refN g g.n j

/-- acyclic, with all blockers inside the configuration: a rank function decreasing along edges -/
structure Acyclic (g : Graph) (rank : JobId → Nat) : Prop where
  inside : ∀ j, j < g.n → ∀ b ∈ g.blockers j, b < g.n
  lt : ∀ j, j < g.n → ∀ b ∈ g.blockers j, rank b < rank j
  bound : ∀ j, j < g.n → rank j < g.n

theorem evalJob_congr (g : Graph) (o o' : JobId → Outcome) (j : JobId)
    (h : ∀ b ∈ g.blockers j, o b = o' b) : evalJob g o j = evalJob g o' j := by
  unfold evalJob
  have : (g.blockers j).any (fun b => (o b).bad) = (g.blockers j).any (fun b => (o' b).bad) := by
    rw [Bool.eq_iff_iff]
    simp only [List.any_eq_true]
    constructor
    · rintro ⟨b, hb, hbad⟩; exact ⟨b, hb, by rw [← h b hb]; exact hbad⟩
    · rintro ⟨b, hb, hbad⟩; exact ⟨b, hb, by rw [h b hb]; exact hbad⟩
  rw [this]

/-- evaluation is stable once the number of rounds exceeds the job's rank -/
theorem refN_stable (g : Graph) (rank : JobId → Nat) (ha : Acyclic g rank) :
    ∀ (r : Nat) (j : JobId), j < g.n → rank j ≤ r → ∀ k, r < k → refN g k j = refN g (r + 1) j := by
  intro r
  induction r using Nat.strongRecOn with
  | _ r ih =>
    intro j hj hr k hk
    obtain ⟨k', rfl⟩ : ∃ k', k = k' + 1 := ⟨k - 1, by omega⟩
    simp only [refN]
    apply evalJob_congr
    intro b hb
    have hbn := ha.inside j hj b hb
    have hlt := ha.lt j hj b hb
    -- both sides have run more rounds than b's rank
    have h1 : refN g k' b = refN g (rank b + 1) b := by
      by_cases hk' : k' = rank b + 1
      · rw [hk']
      · exact ih (rank b) (by omega) b hbn (Nat.le_refl _) k' (by omega)
    have h2 : refN g r b = refN g (rank b + 1) b := by
      by_cases hr' : r = rank b + 1
      · rw [hr']
      · exact ih (rank b) (by omega) b hbn (Nat.le_refl _) r (by omega)
    rw [h1, h2]

/-- the reference satisfies the defining equation: it *is* the evaluation in topological order -/
theorem ref_eq (g : Graph) (rank : JobId → Nat) (ha : Acyclic g rank) (j : JobId) (hj : j < g.n) :
    ref g j = evalJob g (ref g) j := by
  unfold ref
  have hb := ha.bound j hj
  -- refN n j = refN (n+1) j = evalJob (refN n) j
  have h1 : refN g (g.n + 1) j = refN g g.n j := by
    have a := refN_stable g rank ha (rank j) j hj (Nat.le_refl _) (g.n + 1) (by omega)
    have b := refN_stable g rank ha (rank j) j hj (Nat.le_refl _) g.n (by omega)
    by_cases hn : g.n = rank j + 1
    · rw [a, hn]
    · rw [a, refN_stable g rank ha (rank j) j hj (Nat.le_refl _) g.n (by omega)]
  rw [← h1]
  rfl

/-- any solution of the equation is the reference (uniqueness on acyclic graphs) -/
theorem ref_unique (g : Graph) (rank : JobId → Nat) (ha : Acyclic g rank) (o : JobId → Outcome)
    (ho : ∀ j, j < g.n → o j = evalJob g o j) : ∀ j, j < g.n → o j = ref g j := by
  intro j
  induction hr : rank j using Nat.strongRecOn generalizing j with
  | _ r ih =>
    intro hj
    rw [ho j hj, ref_eq g rank ha j hj]
    apply evalJob_congr
    intro b hb
    exact ih (rank b) (by have := ha.lt j hj b hb; omega) b rfl (ha.inside j hj b hb)

/-! ### local consistency of recorded rows ⇒ every row is the reference outcome -/

/-- what the system guarantees locally about the rows on disk (`On`) and the started jobs -/
structure Local (g : Graph) (On : JobId → Outcome → Prop) (Started : JobId → Prop) : Prop where
  /-- a finished row carries the job's real exit code and the job was started -/
  finished : ∀ j o, On j o → o.canceled = false → o.rc = g.rc j ∧ Started j
  /-- a canceled row: the job is flagged and some blocker of it has a failed or canceled row -/
  canceled : ∀ j o, On j o → o.canceled = true →
    g.flag j = true ∧ o.rc = 1 ∧ ∃ b ∈ g.blockers j, ∃ o', On b o' ∧ o'.bad = true
  /-- a started flagged job: every blocker has a successful row -/
  started : ∀ j, Started j → g.flag j = true → ∀ b ∈ g.blockers j, ∃ o', On b o' ∧ o'.bad = false

/-- **the graph lemma**: every recorded row equals the reference outcome of its job -/
theorem local_gives_ref (g : Graph) (rank : JobId → Nat) (ha : Acyclic g rank)
    (On : JobId → Outcome → Prop) (Started : JobId → Prop) (hl : Local g On Started) :
    ∀ j, j < g.n → ∀ o, On j o → o = ref g j := by
  intro j
  induction hr : rank j using Nat.strongRecOn generalizing j with
  | _ r ih =>
    intro hj o hon
    have ihb : ∀ b ∈ g.blockers j, ∀ o', On b o' → o' = ref g b := fun b hb o' ho' =>
      ih (rank b) (by have := ha.lt j hj b hb; omega) b rfl (ha.inside j hj b hb) o' ho'
    rw [ref_eq g rank ha j hj]
    unfold evalJob
    cases hc : o.canceled with
    | false =>
      obtain ⟨hrc, hst⟩ := hl.finished j o hon hc
      have hnot : (g.flag j && (g.blockers j).any (fun b => (ref g b).bad)) = false := by
        cases hf : g.flag j with
        | false => rfl
        | true =>
          simp only [Bool.true_and, List.any_eq_false]
          intro b hb hbad
          obtain ⟨o', ho', hgood⟩ := hl.started j hst hf b hb
          have := ihb b hb o' ho'
          rw [this] at hgood
          rw [hgood] at hbad; cases hbad
      rw [hnot]
      cases o; simp_all
    | true =>
      obtain ⟨hf, hrc, b, hb, o', ho', hbad⟩ := hl.canceled j o hon hc
      have hyes : (g.flag j && (g.blockers j).any (fun b => (ref g b).bad)) = true := by
        simp only [hf, Bool.true_and, List.any_eq_true]
        exact ⟨b, hb, by rw [← ihb b hb o' ho']; exact hbad⟩
      rw [hyes]
      cases o; simp_all

/-- consequently a job never has two different recorded outcomes … -/
theorem local_rows_agree (g : Graph) (rank : JobId → Nat) (ha : Acyclic g rank)
    (On : JobId → Outcome → Prop) (Started : JobId → Prop) (hl : Local g On Started)
    (j : JobId) (hj : j < g.n) (o o' : Outcome) (h : On j o) (h' : On j o') : o = o' := by
  rw [local_gives_ref g rank ha On Started hl j hj o h, local_gives_ref g rank ha On Started hl j hj o' h']

/-- … and a job with a canceled row was never started -/
theorem local_canceled_never_started (g : Graph) (rank : JobId → Nat) (ha : Acyclic g rank)
    (On : JobId → Outcome → Prop) (Started : JobId → Prop) (hl : Local g On Started)
    (j : JobId) (hj : j < g.n) (o : Outcome) (h : On j o) (hc : o.canceled = true) : ¬ Started j := by
  intro hst
  obtain ⟨hf, -, b, hb, o', ho', hbad⟩ := hl.canceled j o h hc
  obtain ⟨o'', ho'', hgood⟩ := hl.started j hst hf b hb
  have := local_rows_agree g rank ha On Started hl b (ha.inside j hj b hb) o' o'' ho' ho''
  rw [this, hgood] at hbad; cases hbad

/-! ### non-vacuity -/

def demo : Graph := { n := 4, blockers := fun j => if j = 1 then [0] else if j = 2 then [1] else if j = 3 then [1] else [],
                      flag := fun j => j = 1 || j = 2, rc := fun j => if j = 0 then 3 else 0 }

example : (List.range 4).map (ref demo) = [⟨false, 3⟩, ⟨true, 1⟩, ⟨true, 1⟩, ⟨false, 0⟩] := by decide
example : Acyclic demo (fun j => j) := by
  refine ⟨?_, ?_, fun j hj => hj⟩ <;> intro j hj b hb <;> simp only [demo] at * <;>
    (repeat' split at hb) <;> simp_all <;> omega

end Jade.Ref
