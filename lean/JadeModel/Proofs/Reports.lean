import JadeModel.Model.Reports
import Mathlib.Data.List.Perm.Subperm

/-! Helper lemmas for C20 (events part: stable insertion sort, first-occurrence de-duplication). -/

namespace Jade.Reports
open Jade.Gen.Reports

section sort
variable {ε : Type} (lt : ε → ε → Bool)

theorem insertBy_perm (a : ε) (l : List ε) : (insertBy lt a l).Perm (a :: l) := by
  induction l with
  | nil => exact List.Perm.refl _
  | cons x xs ih =>
    unfold insertBy
    split
    · exact (List.Perm.cons x ih).trans (List.Perm.swap a x xs)
    · exact List.Perm.refl _

theorem sortBy_perm (l : List ε) : (sortBy lt l).Perm l := by
  induction l with
  | nil => exact List.Perm.refl _
  | cons a l ih =>
    unfold sortBy
    exact (insertBy_perm lt a _).trans (List.Perm.cons a ih)

/-- `b` is not placed before `a` wrongly: sortedness relation derived from `lt` -/
@[reducible] def NotAfter (a b : ε) : Prop := lt b a = false

theorem insertBy_sorted
    (asymm : ∀ a b, lt a b = true → lt b a = false)
    (ntrans : ∀ a b c, lt a b = false → lt b c = false → lt a c = false)
    (a : ε) (l : List ε) (h : l.Pairwise (NotAfter lt)) : (insertBy lt a l).Pairwise (NotAfter lt) := by
  induction l with
  | nil => simp [insertBy]
  | cons x xs ih =>
    rw [List.pairwise_cons] at h
    unfold insertBy
    split
    · next hx =>
      rw [List.pairwise_cons]
      refine ⟨?_, ih h.2⟩
      intro z hz
      rcases List.mem_cons.1 ((List.Perm.mem_iff (insertBy_perm lt a xs)).1 hz) with rfl | hz
      · exact asymm _ _ hx
      · exact h.1 z hz
    · next hx =>
      have hx' : lt x a = false := by simpa using hx
      rw [List.pairwise_cons]
      refine ⟨?_, List.pairwise_cons.2 h⟩
      intro z hz
      rcases List.mem_cons.1 hz with rfl | hz
      · exact hx'
      · exact ntrans z x a (h.1 z hz) hx'

theorem sortBy_sorted
    (asymm : ∀ a b, lt a b = true → lt b a = false)
    (ntrans : ∀ a b c, lt a b = false → lt b c = false → lt a c = false)
    (l : List ε) : (sortBy lt l).Pairwise (NotAfter lt) := by
  induction l with
  | nil => simp [sortBy]
  | cons a l ih => unfold sortBy; exact insertBy_sorted lt asymm ntrans a _ ih

theorem insertBy_filter (p : ε → Bool) (a : ε) (l : List ε)
    (h : ∀ x ∈ l, p x = true → p a = true → lt x a = false) :
    (insertBy lt a l).filter p = (a :: l).filter p := by
  induction l with
  | nil => simp [insertBy]
  | cons x xs ih =>
    have ih' := ih (fun y hy => h y (List.mem_cons_of_mem _ hy))
    unfold insertBy
    split
    · next hx =>
      have hnot : ¬ (p x = true ∧ p a = true) := by
        intro ⟨h1, h2⟩
        have := h x (List.mem_cons_self) h1 h2
        rw [this] at hx; cases hx
      rw [List.filter_cons, ih']
      cases hpx : p x <;> cases hpa : p a <;> simp_all
    · rfl

theorem sortBy_filter (p : ε → Bool) (h : ∀ x y, p x = true → p y = true → lt x y = false) (l : List ε) :
    (sortBy lt l).filter p = l.filter p := by
  induction l with
  | nil => simp [sortBy]
  | cons a l ih =>
    unfold sortBy
    rw [insertBy_filter lt p a _ (fun x _ hx ha => h x a hx ha), List.filter_cons, List.filter_cons, ih]

theorem sortBy_of_sorted (l : List ε) (h : l.Pairwise (NotAfter lt)) : sortBy lt l = l := by
  induction l with
  | nil => rfl
  | cons a l ih =>
    rw [List.pairwise_cons] at h
    unfold sortBy
    rw [ih h.2]
    cases l with
    | nil => rfl
    | cons x xs =>
      have : lt x a = false := h.1 x List.mem_cons_self
      simp [insertBy, this]

end sort

/-! ### the generated keys (one characterisation lemma each) -/

section events
variable {α : Type}

/-- the comparison of the sort, in plain terms: ascending by the `timestamp` string -/
theorem keyLt_iff (a b : Event α) : keyLt a b = true ↔ a.timestamp < b.timestamp := by
  unfold keyLt
  simp only [sortReverse, sortKey, Bool.false_eq_true, if_false]
  exact decide_eq_true_iff

theorem groupKey_eq (e : Event α) : groupKey e = e.name := rfl

theorem keyLt_false_iff (a b : Event α) : keyLt a b = false ↔ b.timestamp ≤ a.timestamp := by
  rw [← Bool.not_eq_true, keyLt_iff, String.not_lt]

theorem keyLt_asymm (a b : Event α) (h : keyLt a b = true) : keyLt b a = false := by
  rw [keyLt_iff] at h
  rw [keyLt_false_iff]
  exact String.not_lt.1 (fun h' => String.lt_irrefl _ (String.lt_trans h h'))

theorem keyLt_ntrans (a b c : Event α) (h1 : keyLt a b = false) (h2 : keyLt b c = false) :
    keyLt a c = false := by
  rw [keyLt_false_iff] at *
  exact String.le_trans h2 h1

theorem keyLt_irrefl_of_eq (a b : Event α) (h : a.timestamp = b.timestamp) : keyLt a b = false := by
  rw [keyLt_false_iff, h]; exact String.le_refl _

/-! ### first-occurrence de-duplication -/

theorem mem_dedup (l : List String) (x : String) : x ∈ dedup l ↔ x ∈ l := by
  induction l with
  | nil => simp [dedup]
  | cons n ns ih =>
    simp only [dedup, List.mem_cons, List.mem_filter, ih]
    by_cases h : x = n <;> simp [h]

theorem nodup_dedup (l : List String) : (dedup l).Nodup := by
  induction l with
  | nil => simp [dedup]
  | cons n ns ih =>
    simp only [dedup, List.nodup_cons, List.mem_filter]
    exact ⟨by simp, ih.filter _⟩

theorem filter_ne_of_not_mem (n : String) (l : List String) (h : n ∉ l) :
    l.filter (fun m => m != n) = l := by
  rw [List.filter_eq_self]
  intro m hm
  simp only [bne_iff_ne, ne_eq]
  rintro rfl; exact h hm

/-- a non-empty block of copies of `n` in front contributes exactly `n` -/
theorem dedup_block (n : String) (l1 l2 : List String) (hne : l1 ≠ []) (hall : ∀ y ∈ l1, y = n) :
    dedup (l1 ++ l2) = n :: (dedup l2).filter (fun m => m != n) := by
  induction l1 with
  | nil => exact absurd rfl hne
  | cons y ys ih =>
    have hy : y = n := hall y List.mem_cons_self
    subst hy
    cases ys with
    | nil => simp [dedup]
    | cons z zs =>
      have := ih (by simp) (fun w hw => hall w (List.mem_cons_of_mem _ hw))
      simp only [List.cons_append, dedup] at this ⊢
      rw [this]
      simp [List.filter_filter]

theorem dedup_blocks (ns : List String) (c : String → List String) (hnd : ns.Nodup)
    (hc : ∀ m ∈ ns, c m ≠ [] ∧ ∀ x ∈ c m, x = m) :
    dedup ((ns.map c).flatten) = ns := by
  induction ns with
  | nil => simp [dedup]
  | cons n ns ih =>
    rw [List.nodup_cons] at hnd
    simp only [List.map_cons, List.flatten_cons]
    rw [dedup_block n (c n) _ (hc n List.mem_cons_self).1 (hc n List.mem_cons_self).2,
      ih hnd.2 (fun m hm => hc m (List.mem_cons_of_mem _ hm)), filter_ne_of_not_mem n ns hnd.1]

/-! ### the consolidated summary -/

theorem lookup_map_pair (f : String → List (Event α)) (l : List String) (n : String) :
    (l.map fun m => (m, f m)).lookup n = if n ∈ l then some (f n) else none := by
  induction l with
  | nil => simp
  | cons m ms ih =>
    simp only [List.map_cons, List.lookup_cons, ih, List.mem_cons]
    by_cases h : n = m
    · subst h; simp
    · have : (n == m) = false := by simpa using h
      simp [this, h]

theorem eventsNamed_nil_of_not_mem (n : String) (l : List (Event α)) (h : n ∉ l.map groupKey) :
    eventsNamed n l = [] := by
  unfold eventsNamed
  rw [List.filter_eq_nil_iff]
  intro e he hk
  exact h (List.mem_map.2 ⟨e, he, by simpa using hk⟩)

theorem sortEvents_nil : sortEvents ([] : List (Event α)) = [] := rfl

/-- `_get_events(name)` after `_consolidate_events`, for every name (present or not) -/
theorem eventsOf_consolidate (files : List (List (Event α))) (n : String) :
    eventsOf (consolidateEvents files) n = sortEvents (eventsNamed n (allEvents files)) := by
  unfold eventsOf consolidateEvents
  rw [lookup_map_pair]
  split
  · rfl
  · next h =>
    rw [mem_dedup] at h
    rw [eventsNamed_nil_of_not_mem n _ h]; rfl

theorem consolidate_keys (files : List (List (Event α))) :
    (consolidateEvents files).map (·.1) = dedup ((allEvents files).map groupKey) := by
  unfold consolidateEvents
  simp [List.map_map, Function.comp_def]

theorem sortEvents_perm (l : List (Event α)) : (sortEvents l).Perm l := sortBy_perm keyLt l

theorem sortEvents_sorted (l : List (Event α)) : (sortEvents l).Pairwise (NotAfter keyLt) :=
  sortBy_sorted keyLt keyLt_asymm keyLt_ntrans l

theorem mem_sortEvents (l : List (Event α)) (e : Event α) : e ∈ sortEvents l ↔ e ∈ l :=
  (sortEvents_perm l).mem_iff

theorem sortEvents_idem (l : List (Event α)) : sortEvents (sortEvents l) = sortEvents l :=
  sortBy_of_sorted keyLt _ (sortEvents_sorted l)

theorem eventsNamed_sortEvents (n m : String) (l : List (Event α)) :
    eventsNamed n (sortEvents (eventsNamed m l)) = if n = m then sortEvents (eventsNamed m l) else [] := by
  unfold eventsNamed
  split
  · next h =>
    subst h
    rw [List.filter_eq_self]
    intro e he
    have := (mem_sortEvents _ e).1 he
    simpa using (List.mem_filter.1 this).2
  · next h =>
    rw [List.filter_eq_nil_iff]
    intro e he hk
    have := (List.mem_filter.1 ((mem_sortEvents _ e).1 he)).2
    simp only [beq_iff_eq] at this hk
    exact h (hk.symm.trans this)

theorem flatten_single (G : String → List (Event α)) (n : String) (ns : List String) (hnd : ns.Nodup)
    (hn : n ∈ ns) : (ns.map fun m => if n = m then G m else []).flatten = G n := by
  induction ns with
  | nil => cases hn
  | cons k ks ih =>
    rw [List.nodup_cons] at hnd
    simp only [List.map_cons, List.flatten_cons]
    by_cases h : n = k
    · subst h
      have : (ks.map fun m => if n = m then G m else []).flatten = [] := by
        rw [List.flatten_eq_nil_iff]
        intro l hl
        obtain ⟨m, hm, rfl⟩ := List.mem_map.1 hl
        have : n ≠ m := fun h => hnd.1 (h ▸ hm)
        simp [this]
      simp [this]
    · have hn' : n ∈ ks := by
        rcases List.mem_cons.1 hn with h' | h'
        · exact absurd h' h
        · exact h'
      simp [h, ih hnd.2 hn']

theorem mem_names_iff (l : List (Event α)) (n : String) :
    n ∈ dedup (l.map groupKey) ↔ ∃ e ∈ l, e.name = n := by
  rw [mem_dedup, List.mem_map]; rfl

theorem mem_eventsNamed (n : String) (l : List (Event α)) (e : Event α) :
    e ∈ eventsNamed n l ↔ e ∈ l ∧ e.name = n := by
  simp [eventsNamed, groupKey_eq]

/-- Consolidating the per-name lists of a consolidated summary (each taken as one more log file)
    gives the same summary. -/
theorem consolidate_again (files : List (List (Event α))) :
    consolidateEvents ((consolidateEvents files).map (·.2)) = consolidateEvents files := by
  let all := allEvents files
  let names := dedup (all.map groupKey)
  let F : String → List (Event α) := fun n => sortEvents (eventsNamed n all)
  have hS : (consolidateEvents files).map (·.2) = names.map F := by
    simp [consolidateEvents, List.map_map, Function.comp_def, names, F, all]
  have hnd : names.Nodup := nodup_dedup _
  have hmemF : ∀ m e, e ∈ F m ↔ e ∈ all ∧ e.name = m := by
    intro m e
    rw [show F m = sortEvents (eventsNamed m all) from rfl, mem_sortEvents, mem_eventsNamed]
  -- (a) the names come out in the same order
  have ha : dedup ((allEvents (names.map F)).map groupKey) = names := by
    have : (allEvents (names.map F)).map groupKey = (names.map fun n => (F n).map groupKey).flatten := by
      simp [allEvents, List.map_flatten, List.map_map, Function.comp_def]
    rw [this]
    apply dedup_blocks names _ hnd
    intro m hm
    constructor
    · obtain ⟨e, he, hem⟩ := (mem_names_iff all m).1 hm
      have : e ∈ F m := (hmemF m e).2 ⟨he, hem⟩
      intro h
      rw [List.map_eq_nil_iff] at h
      rw [h] at this; cases this
    · intro x hx
      obtain ⟨e, he, rfl⟩ := List.mem_map.1 hx
      exact ((hmemF m e).1 he).2
  -- (b) every per-name list is reproduced
  have hb : ∀ n ∈ names, sortEvents (eventsNamed n (allEvents (names.map F))) = F n := by
    intro n hn
    have : eventsNamed n (allEvents (names.map F)) = F n := by
      unfold allEvents eventsNamed
      rw [List.filter_flatten, List.map_map]
      have h2 : (List.filter (fun e => groupKey e == n) ∘ F) = fun m => if n = m then F m else [] := by
        funext m
        exact eventsNamed_sortEvents n m all
      rw [h2]
      exact flatten_single F n names hnd hn
    rw [this]
    exact sortEvents_idem _
  rw [hS]
  show (dedup ((allEvents (names.map F)).map groupKey)).map
      (fun n => (n, sortEvents (eventsNamed n (allEvents (names.map F))))) = names.map fun n => (n, F n)
  rw [ha]
  apply List.map_congr_left
  intro n hn
  rw [hb n hn]

end events

/-! ### statistics over `Int` (one characterisation lemma per generated function) -/

section stats

/-- the generated system update, in plain terms -/
theorem sysUpdate_spec (s : St Int) (v : Int) :
    sysUpdate s v = { mx := max s.mx v, mn := min s.mn v, sm := s.sm + v } := by
  unfold sysUpdate
  simp only []
  split <;> split <;> simp at * <;> omega

/-- the generated per-process update (if/elif): correct as long as `mn ≤ mx` -/
theorem procUpdate_spec (s : St Int) (v : Int) (h : s.mn ≤ s.mx) :
    procUpdate s v = { mx := max s.mx v, mn := min s.mn v, sm := s.sm + v } := by
  unfold procUpdate
  simp only []
  split
  · simp at *; omega
  · split <;> simp at * <;> omega

theorem procFirst_spec (v : Int) : procFirst v = { mx := v, mn := v, sm := v } := rfl

theorem sysInit_spec (M : Int) : sysInit (0 : Int) M = { mx := 0, mn := M, sm := 0 } := rfl

theorem foldl_statsUpdate (s : Stats Int) (xs : List Int) :
    xs.foldl statsUpdate s =
      { st := { mx := xs.foldl max s.st.mx, mn := xs.foldl min s.st.mn, sm := s.st.sm + xs.sum },
        count := s.count + xs.length } := by
  induction xs generalizing s with
  | nil => simp
  | cons x xs ih =>
    rw [List.foldl_cons, ih]
    simp only [statsUpdate, sysUpdate_spec, List.foldl_cons, List.sum_cons, List.length_cons]
    rw [Int.add_assoc, Nat.add_assoc, Nat.add_comm 1]

theorem statsRun_spec (M : Int) (xs : List Int) :
    statsRun 0 M xs =
      { st := { mx := xs.foldl max 0, mn := xs.foldl min M, sm := xs.sum }, count := xs.length } := by
  unfold statsRun statsInit
  rw [foldl_statsUpdate, sysInit_spec]
  simp

theorem foldl_procStep (s : Stats Int) (h : s.st.mn ≤ s.st.mx) (xs : List Int) :
    xs.foldl procStep (some s) =
      some { st := { mx := xs.foldl max s.st.mx, mn := xs.foldl min s.st.mn, sm := s.st.sm + xs.sum },
             count := s.count + xs.length } := by
  induction xs generalizing s with
  | nil => simp
  | cons x xs ih =>
    rw [List.foldl_cons]
    simp only [procStep]
    rw [procUpdate_spec s.st x h, ih _ (by simp only []; omega)]
    simp only [List.foldl_cons, List.sum_cons, List.length_cons]
    rw [Int.add_assoc, Nat.add_assoc, Nat.add_comm 1]

theorem procRun_spec (x : Int) (xs : List Int) :
    procRun (x :: xs) =
      some { st := { mx := xs.foldl max x, mn := xs.foldl min x, sm := x + xs.sum },
             count := 1 + xs.length } := by
  unfold procRun
  rw [List.foldl_cons]
  simp only [procStep]
  rw [foldl_procStep _ (by simp [procFirst_spec])]
  simp [procFirst_spec]

/-! folds of `max`/`min` -/

theorem le_foldl_max (a : Int) (xs : List Int) : a ≤ xs.foldl max a ∧ ∀ x ∈ xs, x ≤ xs.foldl max a := by
  induction xs generalizing a with
  | nil => simp
  | cons y ys ih =>
    rw [List.foldl_cons]
    have := ih (max a y)
    refine ⟨by omega, ?_⟩
    intro x hx
    rcases List.mem_cons.1 hx with rfl | hx
    · omega
    · exact this.2 x hx

theorem foldl_max_mem (a : Int) (xs : List Int) : xs.foldl max a = a ∨ xs.foldl max a ∈ xs := by
  induction xs generalizing a with
  | nil => simp
  | cons y ys ih =>
    rw [List.foldl_cons]
    rcases ih (max a y) with h | h
    · rw [h]
      by_cases hay : a ≤ y
      · right; rw [Int.max_eq_right hay]; exact List.mem_cons_self
      · left; exact Int.max_eq_left (by omega)
    · right; exact List.mem_cons_of_mem _ h

theorem foldl_min_le (a : Int) (xs : List Int) : xs.foldl min a ≤ a ∧ ∀ x ∈ xs, xs.foldl min a ≤ x := by
  induction xs generalizing a with
  | nil => simp
  | cons y ys ih =>
    rw [List.foldl_cons]
    have := ih (min a y)
    refine ⟨by omega, ?_⟩
    intro x hx
    rcases List.mem_cons.1 hx with rfl | hx
    · omega
    · exact this.2 x hx

theorem foldl_min_mem (a : Int) (xs : List Int) : xs.foldl min a = a ∨ xs.foldl min a ∈ xs := by
  induction xs generalizing a with
  | nil => simp
  | cons y ys ih =>
    rw [List.foldl_cons]
    rcases ih (min a y) with h | h
    · rw [h]
      by_cases hay : y ≤ a
      · right; rw [Int.min_eq_right hay]; exact List.mem_cons_self
      · left; exact Int.min_eq_left (by omega)
    · right; exact List.mem_cons_of_mem _ h

/-- `m` is the maximum of the non-empty list `xs` -/
@[reducible] def IsMax (m : Int) (xs : List Int) : Prop := m ∈ xs ∧ ∀ x ∈ xs, x ≤ m
/-- `m` is the minimum of the non-empty list `xs` -/
@[reducible] def IsMin (m : Int) (xs : List Int) : Prop := m ∈ xs ∧ ∀ x ∈ xs, m ≤ x

theorem foldl_max_isMax (a : Int) (xs : List Int) (hne : xs ≠ []) (ha : ∀ x ∈ xs, a ≤ x) :
    IsMax (xs.foldl max a) xs := by
  refine ⟨?_, (le_foldl_max a xs).2⟩
  rcases foldl_max_mem a xs with h | h
  · cases xs with
    | nil => exact absurd rfl hne
    | cons y ys =>
      have h1 := (le_foldl_max a (y :: ys)).2 y List.mem_cons_self
      have h2 := ha y List.mem_cons_self
      have : y = a := by omega
      rw [h, ← this]; exact List.mem_cons_self
  · exact h

theorem foldl_min_isMin (a : Int) (xs : List Int) (hne : xs ≠ []) (ha : ∀ x ∈ xs, x ≤ a) :
    IsMin (xs.foldl min a) xs := by
  refine ⟨?_, (foldl_min_le a xs).2⟩
  rcases foldl_min_mem a xs with h | h
  · cases xs with
    | nil => exact absurd rfl hne
    | cons y ys =>
      have h1 := (foldl_min_le a (y :: ys)).2 y List.mem_cons_self
      have h2 := ha y List.mem_cons_self
      have : y = a := by omega
      rw [h, ← this]; exact List.mem_cons_self
  · exact h

theorem isMax_cons_foldl (x : Int) (xs : List Int) : IsMax (xs.foldl max x) (x :: xs) := by
  refine ⟨?_, ?_⟩
  · rcases foldl_max_mem x xs with h | h
    · rw [h]; exact List.mem_cons_self
    · exact List.mem_cons_of_mem _ h
  · intro y hy
    rcases List.mem_cons.1 hy with rfl | hy
    · exact (le_foldl_max _ xs).1
    · exact (le_foldl_max x xs).2 y hy

theorem isMin_cons_foldl (x : Int) (xs : List Int) : IsMin (xs.foldl min x) (x :: xs) := by
  refine ⟨?_, ?_⟩
  · rcases foldl_min_mem x xs with h | h
    · rw [h]; exact List.mem_cons_self
    · exact List.mem_cons_of_mem _ h
  · intro y hy
    rcases List.mem_cons.1 hy with rfl | hy
    · exact (foldl_min_le _ xs).1
    · exact (foldl_min_le x xs).2 y hy

end stats

/-! ### tallies -/

section tally

/-- What the property demands of one result row: a job that ran is successful iff its code is 0, failed
    otherwise; a job that never ran is canceled (and then carries a non-zero code); nothing else is a
    legal row. -/
def specClass (r : Row) : Option Cls :=
  if r.status = "finished" then (if r.rc = 0 then some .successful else some .failed)
  else if r.status = "canceled" ∧ r.rc ≠ 0 then some .canceled
  else none

theorem isSuccessful_iff (rc : Int) (st : String) :
    isSuccessful rc st = true ↔ rc = 0 ∧ st = "finished" := by simp [isSuccessful]

theorem isFailed_iff (rc : Int) (st : String) :
    isFailed rc st = true ↔ rc ≠ 0 ∧ st = "finished" := by simp [isFailed]

theorem isCanceled_iff (rc : Int) (st : String) :
    isCanceled rc st = true ↔ rc ≠ 0 ∧ st = "canceled" := by simp [isCanceled]

theorem finished_ne_canceled : ("finished" : String) ≠ "canceled" := by decide

/-- the generated chain of `_build_results` against the specification -/
theorem buildClassify_spec (r : Row) :
    buildClassify r.rc r.status = match specClass r with
      | some c => .ok c
      | none => .error .assertion := by
  unfold buildClassify specClass
  simp only [isSuccessful_iff, isFailed_iff, isCanceled_iff]
  by_cases hf : r.status = "finished"
  · have hc : r.status ≠ "canceled" := by rw [hf]; exact finished_ne_canceled
    by_cases h0 : r.rc = 0 <;> simp [hf, h0]
  · by_cases hc : r.status = "canceled" <;> by_cases h0 : r.rc = 0 <;> simp [hf, hc, h0]

/-- the generated chain of `get_results_by_type` against the specification -/
theorem typeClassify_spec (r : Row) : typeClassify r.rc r.status = specClass r := by
  unfold typeClassify specClass
  simp only [isSuccessful_iff, isFailed_iff, isCanceled_iff]
  by_cases hf : r.status = "finished"
  · have hc : r.status ≠ "canceled" := by rw [hf]; exact finished_ne_canceled
    by_cases h0 : r.rc = 0 <;> simp [hf, h0]
  · by_cases hc : r.status = "canceled" <;> by_cases h0 : r.rc = 0 <;> simp [hf, hc, h0]

/-- the generated chain of `show_results` against the specification -/
theorem showClassify_spec (r : Row) :
    showClassify r.rc r.status = match specClass r with
      | some c => .ok c
      | none => .error .assertion := by
  unfold showClassify specClass
  simp only [isSuccessful_iff, isFailed_iff, isCanceled_iff]
  by_cases hf : r.status = "finished"
  · have hc : r.status ≠ "canceled" := by rw [hf]; exact finished_ne_canceled
    by_cases h0 : r.rc = 0 <;> simp [hf, h0]
  · by_cases hc : r.status = "canceled" <;> by_cases h0 : r.rc = 0 <;> simp [hf, hc, h0]

theorem bump_total (t : Tally) (c : Cls) : (t.bump c).total = t.total + 1 := by
  cases c <;> simp [Tally.bump, Tally.total] <;> omega

/-- number of rows the specification puts in class `c` -/
def countClass (c : Cls) (rows : List Row) : Nat := rows.countP fun r => specClass r == some c

theorem countClass_cons (c : Cls) (r : Row) (rows : List Row) :
    countClass c (r :: rows) = countClass c rows + if specClass r = some c then 1 else 0 := by
  unfold countClass
  rw [List.countP_cons]
  simp

/-- a counting loop whose chain meets the specification counts every class correctly,
    and fails exactly on the rows outside the specification -/
theorem tallyWith_spec (cl : Int → String → Except Err Cls)
    (hcl : ∀ r : Row, cl r.rc r.status = match specClass r with
      | some c => .ok c
      | none => .error .assertion)
    (rows : List Row) (t0 : Tally) :
    (∀ r ∈ rows, specClass r ≠ none) →
      tallyWith cl rows t0 = .ok { successful := t0.successful + countClass .successful rows,
                                   failed := t0.failed + countClass .failed rows,
                                   canceled := t0.canceled + countClass .canceled rows } := by
  induction rows generalizing t0 with
  | nil => intro _; simp [tallyWith, countClass]
  | cons r rs ih =>
    intro h
    have hr := h r List.mem_cons_self
    unfold tallyWith
    rw [hcl r]
    cases hs : specClass r with
    | none => exact absurd hs hr
    | some c =>
      simp only
      rw [ih _ (fun x hx => h x (List.mem_cons_of_mem _ hx))]
      simp only [countClass_cons, hs]
      cases c <;> simp [Tally.bump] <;> omega

theorem tallyWith_error (cl : Int → String → Except Err Cls)
    (hcl : ∀ r : Row, cl r.rc r.status = match specClass r with
      | some c => .ok c
      | none => .error .assertion)
    (rows : List Row) (t0 : Tally) (h : ∃ r ∈ rows, specClass r = none) :
    tallyWith cl rows t0 = .error .assertion := by
  induction rows generalizing t0 with
  | nil => obtain ⟨r, hr, _⟩ := h; cases hr
  | cons r rs ih =>
    unfold tallyWith
    rw [hcl r]
    cases hs : specClass r with
    | none => rfl
    | some c =>
      simp only
      apply ih
      obtain ⟨x, hx, hxs⟩ := h
      rcases List.mem_cons.1 hx with rfl | hx
      · rw [hs] at hxs; cases hxs
      · exact ⟨x, hx, hxs⟩

theorem countClass_total (rows : List Row) (h : ∀ r ∈ rows, specClass r ≠ none) :
    countClass .successful rows + countClass .failed rows + countClass .canceled rows = rows.length := by
  induction rows with
  | nil => simp [countClass]
  | cons r rs ih =>
    have := ih (fun x hx => h x (List.mem_cons_of_mem _ hx))
    have hr := h r List.mem_cons_self
    simp only [countClass_cons, List.length_cons]
    cases hs : specClass r with
    | none => exact absurd hs hr
    | some c => cases c <;> simp <;> omega

/-! dict semantics of `deserialize_results` -/

theorem hasRow_iff (rows : List Row) (n : String) : hasRow rows n = true ↔ n ∈ rows.map (·.name) := by
  unfold hasRow
  rw [List.any_eq_true, List.mem_map]
  constructor
  · rintro ⟨r, hr, h⟩; exact ⟨r, hr, by simpa using h⟩
  · rintro ⟨r, hr, h⟩; exact ⟨r, hr, by simpa using h⟩

theorem foldl_upsert_of_nodup (acc rows : List Row) (h : ((acc ++ rows).map (·.name)).Nodup) :
    rows.foldl upsert acc = acc ++ rows := by
  induction rows generalizing acc with
  | nil => simp
  | cons r rs ih =>
    rw [List.foldl_cons]
    have hno : hasRow acc r.name = false := by
      rw [← Bool.not_eq_true, hasRow_iff]
      intro hmem
      rw [List.map_append, List.nodup_append] at h
      exact h.2.2 _ hmem _ (by simp) rfl
    have : upsert acc r = acc ++ [r] := by simp [upsert, hno]
    rw [this, ih _ (by simpa using h)]
    simp

theorem byName_of_nodup (rows : List Row) (h : (rows.map (·.name)).Nodup) : byName rows = rows := by
  unfold byName
  rw [foldl_upsert_of_nodup [] rows (by simpa using h)]
  simp

/-! missing jobs -/

theorem missingGuard_iff (a b : Nat) : missingGuard a b = true ↔ a ≠ b := by simp [missingGuard]

theorem mem_missingJobs (configured : List String) (rows : List Row)
    (hr : (rows.map (·.name)).Nodup) (hsub : ∀ n ∈ rows.map (·.name), n ∈ configured) (n : String) :
    n ∈ missingJobs configured rows ↔ n ∈ configured ∧ n ∉ rows.map (·.name) := by
  unfold missingJobs
  split
  · rw [List.mem_filter]
    simp only [Bool.not_eq_true', ← Bool.not_eq_true, hasRow_iff]
  · next hg =>
    have hlen : rows.length = configured.length := by
      by_contra h
      exact hg ((missingGuard_iff _ _).2 h)
    have hperm : (rows.map (·.name)).Perm configured :=
      (List.subperm_of_subset hr hsub).perm_of_length_le (by simp [hlen])
    constructor
    · intro h; cases h
    · rintro ⟨hc, hn⟩
      exact absurd (hperm.mem_iff.2 hc) hn

theorem missingJobs_length (configured : List String) (rows : List Row) (hc : configured.Nodup)
    (hr : (rows.map (·.name)).Nodup) (hsub : ∀ n ∈ rows.map (·.name), n ∈ configured) :
    (missingJobs configured rows).length + rows.length = configured.length := by
  unfold missingJobs
  split
  · have h1 := List.length_eq_countP_add_countP (fun n => hasRow rows n) (l := configured)
    have h2 : (configured.filter fun n => hasRow rows n).Perm (rows.map (·.name)) := by
      rw [List.perm_ext_iff_of_nodup (hc.filter _) hr]
      intro n
      rw [List.mem_filter, hasRow_iff]
      exact ⟨fun h => h.2, fun h => ⟨hsub n h, h⟩⟩
    have h3 := h2.length_eq
    rw [List.length_map] at h3
    rw [List.countP_eq_length_filter, List.countP_eq_length_filter, h3] at h1
    have h4 : (configured.filter fun n => !hasRow rows n) =
        configured.filter (fun a => decide ¬hasRow rows a = true) := by
      apply List.filter_congr
      intro n _
      simp
    rw [h4]; omega
  · next hg =>
    have hlen : rows.length = configured.length := by
      by_contra h
      exact hg ((missingGuard_iff _ _).2 h)
    simp [hlen]

end tally

end Jade.Reports
