import JadeModel.Model.ReportsAgg

/-! Helper lemmas for the aggregation part of C20 (`Model/ReportsAgg.lean`): line files as association lists,
    conservation of the lines over every step of a history, draining of a batch's per-job files. -/

namespace Jade.ReportsAgg
open Jade.Gen.Reports Jade.Gen.ReportsAgg Jade.Reports

/-! ### the generated constants (one characterisation lemma each) -/

/-- the submitter commands open `submit_jobs_events.log` in append mode -/
theorem submitterLogAppends_eq : submitterLogAppends = true := rfl
/-- `run-jobs` opens the node's event file in append mode -/
theorem nodeLogAppends_eq : nodeLogAppends = true := rfl
/-- a job process opens its `events.log` in append mode -/
theorem jobLogAppends_eq : jobLogAppends = true := rfl
/-- `_aggregate_events` opens the node's event file in append mode -/
theorem aggNodeAppends_eq : aggNodeAppends = true := rfl
/-- `_aggregate_events` removes a per-job file once it is copied -/
theorem aggRemovesJobFile_eq : aggRemovesJobFile = true := rfl
/-- `_aggregate_events` goes on with the next job when a job has no per-job file -/
theorem aggOnMissing_eq : aggOnMissing = OnMissing.skip := rfl
/-- the aggregation looks for the file the job processes write -/
theorem aggJobFile_eq : aggJobFile = jobLogFile := by decide
/-- `resubmit-jobs` empties `events/` -/
theorem resubmitClearsEvents_eq : resubmitClearsEvents = true := rfl

/-! ### line files -/

section files
variable {ε : Type}

theorem content_nil : content ([] : Files ε) = [] := rfl

theorem content_cons (k : String) (v : List ε) (r : Files ε) : content ((k, v) :: r) = v ++ content r := by
  simp [content]

theorem perm_mid (a b c : List ε) : (a ++ c ++ b).Perm (a ++ b ++ c) := by
  rw [List.append_assoc, List.append_assoc]
  exact List.Perm.append_left a List.perm_append_comm

theorem content_appendFile (k : String) (ls : List ε) (fs : Files ε) :
    (content (appendFile k ls fs)).Perm (content fs ++ ls) := by
  induction fs with
  | nil => simp [appendFile, content]
  | cons p r ih =>
    obtain ⟨k', v⟩ := p
    unfold appendFile
    split
    · simp only [content_cons]
      exact perm_mid v (content r) ls
    · simp only [content_cons, List.append_assoc]
      exact List.Perm.append_left v ih

theorem content_appendFile_nil (k : String) (fs : Files ε) : content (appendFile k [] fs) = content fs := by
  induction fs with
  | nil => simp [appendFile, content]
  | cons p r ih =>
    obtain ⟨k', v⟩ := p
    unfold appendFile
    split
    · simp [content_cons]
    · simp only [content_cons, ih]

theorem content_removeFile (k : String) (fs : Files ε) (v : List ε) (h : lookupFile k fs = some v) :
    (content (removeFile k fs) ++ v).Perm (content fs) := by
  induction fs with
  | nil => simp [lookupFile] at h
  | cons p r ih =>
    obtain ⟨k', w⟩ := p
    by_cases hk : (k' == k) = true
    · simp only [lookupFile, hk, if_true, Option.some.injEq] at h
      subst h
      simp only [removeFile, hk, if_true, content_cons]
      exact List.perm_append_comm
    · simp only [lookupFile, hk, Bool.false_eq_true, ↓reduceIte] at h
      simp only [removeFile, hk, Bool.false_eq_true, ↓reduceIte, content_cons, List.append_assoc]
      exact List.Perm.append_left w (ih h)

/-- the names of the files of a directory -/
def keys (fs : Files ε) : List String := fs.map (·.1)

theorem keys_appendFile (k : String) (ls : List ε) (fs : Files ε) :
    keys (appendFile k ls fs) = if k ∈ keys fs then keys fs else keys fs ++ [k] := by
  induction fs with
  | nil => simp [appendFile, keys]
  | cons p r ih =>
    obtain ⟨k', v⟩ := p
    by_cases hk : k' = k
    · subst hk
      simp [appendFile, keys]
    · have hb : (k' == k) = false := by simpa using hk
      have hne : ¬ k = k' := fun h => hk h.symm
      simp only [appendFile, hb, Bool.false_eq_true, ↓reduceIte, keys, List.map_cons, List.mem_cons, hne, false_or] at ih ⊢
      rw [ih]
      split <;> simp [*]

theorem nodup_keys_appendFile (k : String) (ls : List ε) (fs : Files ε) (h : (keys fs).Nodup) :
    (keys (appendFile k ls fs)).Nodup := by
  rw [keys_appendFile]
  split
  · exact h
  · next hk =>
    rw [List.nodup_append]
    exact ⟨h, by simp, by intro a ha b hb; simp at hb; subst hb; intro hab; subst hab; exact hk ha⟩

theorem keys_removeFile_sublist (k : String) (fs : Files ε) : (keys (removeFile k fs)).Sublist (keys fs) := by
  induction fs with
  | nil => simp [removeFile, keys]
  | cons p r ih =>
    obtain ⟨k', v⟩ := p
    unfold removeFile
    split
    · exact List.sublist_cons_self _ _
    · exact List.Sublist.cons_cons _ ih

theorem lookupFile_none_of_not_mem (k : String) (fs : Files ε) (h : k ∉ keys fs) : lookupFile k fs = none := by
  induction fs with
  | nil => rfl
  | cons p r ih =>
    obtain ⟨k', v⟩ := p
    simp only [keys, List.map_cons, List.mem_cons, not_or] at h
    have hb : (k' == k) = false := by
      have : ¬ k' = k := fun e => h.1 e.symm
      simpa using this
    simp only [lookupFile, hb]
    exact ih h.2

theorem lookupFile_removeFile_self (k : String) (fs : Files ε) (h : (keys fs).Nodup) :
    lookupFile k (removeFile k fs) = none := by
  induction fs with
  | nil => rfl
  | cons p r ih =>
    obtain ⟨k', v⟩ := p
    simp only [keys, List.map_cons, List.nodup_cons] at h
    by_cases hk : k' = k
    · subst hk
      simp only [removeFile, beq_self_eq_true, if_true]
      exact lookupFile_none_of_not_mem _ _ h.1
    · have hb : (k' == k) = false := by simpa using hk
      simp only [removeFile, hb, Bool.false_eq_true, ↓reduceIte, lookupFile]
      exact ih h.2

theorem lookupFile_removeFile_none (k k' : String) (fs : Files ε) (h : lookupFile k fs = none) :
    lookupFile k (removeFile k' fs) = none := by
  induction fs with
  | nil => rfl
  | cons p r ih =>
    obtain ⟨k0, v⟩ := p
    by_cases hk : (k0 == k) = true
    · simp [lookupFile, hk] at h
    · simp only [lookupFile, hk, Bool.false_eq_true, ↓reduceIte] at h
      unfold removeFile
      split
      · exact h
      · simp only [lookupFile, hk, Bool.false_eq_true, ↓reduceIte]
        exact ih h

end files

/-! ### steps -/

section steps
variable {α : Type}

/-- every line the output directory holds: the top-level event files, then the per-job files -/
def total (s : Out α) : List (Event α) := content s.top ++ content s.job

theorem total_moveJob (f key : String) (lines : List (Event α)) (s : Out α)
    (h : lookupFile key s.job = some lines) : (total (moveJob f key lines s)).Perm (total s) := by
  unfold moveJob total
  simp only [aggRemovesJobFile_eq, if_true]
  have h1 := content_appendFile f lines s.top
  have h2 := content_removeFile key s.job lines h
  refine (List.Perm.append_right _ h1).trans ?_
  rw [List.append_assoc]
  exact List.Perm.append_left _ (List.perm_append_comm.trans h2)

theorem total_aggLoop (f : String) (jobs : List String) (s : Out α) : (total (aggLoop f jobs s)).Perm (total s) := by
  induction jobs generalizing s with
  | nil => exact List.Perm.refl _
  | cons j js ih =>
    unfold aggLoop
    split
    · simp only [aggOnMissing_eq]
      exact ih s
    · next lines h => exact (ih _).trans (total_moveJob f _ lines s h)

theorem total_aggregate (b n : String) (jobs : List String) (s : Out α) :
    (total (aggregate b n jobs s)).Perm (total s) := by
  unfold aggregate
  refine (total_aggLoop _ _ _).trans ?_
  simp only [total, writeFile, aggNodeAppends_eq, if_true, content_appendFile_nil]
  exact List.Perm.refl _

/-- one step of a history adds exactly what its process writes -/
theorem total_step (s : Out α) (op : Op α) : (total (step s op)).Perm (total s ++ op.written) := by
  cases op with
  | submitterStart =>
    simp [step, submitterStart, total, writeFile, submitterLogAppends_eq, content_appendFile_nil, Op.written]
  | submitterLog evs =>
    simp only [step, submitterLog, total, Op.written]
    exact (List.Perm.append_right _ (content_appendFile _ evs s.top)).trans (perm_mid _ _ _)
  | runnerStart b n =>
    simp [step, runnerStart, total, writeFile, nodeLogAppends_eq, content_appendFile_nil, Op.written]
  | runnerLog b n evs =>
    simp only [step, runnerLog, total, Op.written]
    exact (List.Perm.append_right _ (content_appendFile _ evs s.top)).trans (perm_mid _ _ _)
  | otherLog f evs =>
    simp only [step, otherLog, total, Op.written]
    exact (List.Perm.append_right _ (content_appendFile _ evs s.top)).trans (perm_mid _ _ _)
  | jobRun j evs =>
    cases evs with
    | none => simp [step, jobRun, Op.written]
    | some l =>
      simp only [step, jobRun, total, Op.written, writeFile, jobLogAppends_eq, if_true]
      rw [List.append_assoc]
      exact List.Perm.append_left _ (content_appendFile _ l s.job)
  | aggregate b n jobs =>
    simp only [step, Op.written, List.append_nil]
    exact total_aggregate b n jobs s

theorem written_cons (op : Op α) (ops : List (Op α)) : written (op :: ops) = op.written ++ written ops := by
  simp [written]

theorem total_run (s : Out α) (ops : List (Op α)) : (total (run s ops)).Perm (total s ++ written ops) := by
  induction ops generalizing s with
  | nil => simp [run, written]
  | cons op ops ih =>
    have h := ih (step s op)
    simp only [run, List.foldl_cons] at h ⊢
    rw [written_cons, ← List.append_assoc]
    exact h.trans (List.Perm.append_right _ (total_step s op))

/-! ### per-job files are named apart, and a batch's aggregation drains them -/

theorem nodup_moveJob (f key : String) (lines : List (Event α)) (s : Out α) (h : (keys s.job).Nodup) :
    (keys (moveJob f key lines s).job).Nodup := by
  unfold moveJob
  simp only [aggRemovesJobFile_eq, if_true]
  exact (keys_removeFile_sublist key s.job).nodup h

theorem nodup_aggLoop (f : String) (jobs : List String) (s : Out α) (h : (keys s.job).Nodup) :
    (keys (aggLoop f jobs s).job).Nodup := by
  induction jobs generalizing s with
  | nil => exact h
  | cons j js ih =>
    unfold aggLoop
    split
    · simp only [aggOnMissing_eq]
      exact ih s h
    · exact ih _ (nodup_moveJob f _ _ s h)

theorem nodup_step (s : Out α) (op : Op α) (h : (keys s.job).Nodup) : (keys (step s op).job).Nodup := by
  cases op with
  | submitterStart => exact h
  | submitterLog evs => exact h
  | runnerStart b n => exact h
  | runnerLog b n evs => exact h
  | otherLog f evs => exact h
  | jobRun j evs =>
    cases evs with
    | none => exact h
    | some l =>
      simp only [step, jobRun, writeFile, jobLogAppends_eq, if_true]
      exact nodup_keys_appendFile _ l s.job h
  | aggregate b n jobs =>
    simp only [step, aggregate]
    exact nodup_aggLoop _ jobs _ h

theorem nodup_run (s : Out α) (ops : List (Op α)) (h : (keys s.job).Nodup) : (keys (run s ops).job).Nodup := by
  induction ops generalizing s with
  | nil => exact h
  | cons op ops ih =>
    simp only [run, List.foldl_cons] at ih ⊢
    exact ih (step s op) (nodup_step s op h)

theorem aggLoop_keeps_none (f k : String) (jobs : List String) (s : Out α) (h : lookupFile k s.job = none) :
    lookupFile k (aggLoop f jobs s).job = none := by
  induction jobs generalizing s with
  | nil => exact h
  | cons j js ih =>
    unfold aggLoop
    split
    · simp only [aggOnMissing_eq]
      exact ih s h
    · apply ih
      unfold moveJob
      simp only [aggRemovesJobFile_eq, if_true]
      exact lookupFile_removeFile_none k _ s.job h

/-- after the loop no job of the configuration has a per-job file left -/
theorem aggLoop_drains (f : String) (jobs : List String) (s : Out α) (hnd : (keys s.job).Nodup) :
    ∀ j ∈ jobs, lookupFile (jobPath j aggJobFile) (aggLoop f jobs s).job = none := by
  induction jobs generalizing s with
  | nil => intro j hj; cases hj
  | cons j0 js ih =>
    intro j hj
    unfold aggLoop
    split
    · next hnone =>
      simp only [aggOnMissing_eq]
      rcases List.mem_cons.1 hj with rfl | hj
      · exact aggLoop_keeps_none f _ js s hnone
      · exact ih s hnd j hj
    · next lines hsome =>
      have hnd' := nodup_moveJob f (jobPath j0 aggJobFile) lines s hnd
      rcases List.mem_cons.1 hj with rfl | hj
      · apply aggLoop_keeps_none
        unfold moveJob
        simp only [aggRemovesJobFile_eq, if_true]
        exact lookupFile_removeFile_self _ s.job hnd
      · exact ih _ hnd' j hj

end steps

end Jade.ReportsAgg
