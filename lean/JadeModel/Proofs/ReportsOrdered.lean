import JadeModel.Model.Reports
import Mathlib.Order.Lattice
import Mathlib.Algebra.Group.Defs

/-!
The statistics lemmas of `Proofs/Reports.lean` once more, for an arbitrary linearly ordered type with an
associative addition with zero (any linear ordered field in particular) instead of `Int`.
The generated update functions are generic in the number type, so these are statements about the
same generated terms.
-/

set_option linter.unusedSectionVars false

namespace Jade.Reports.Ordered
open Jade.Reports Jade.Gen.Reports

variable {α : Type} [LinearOrder α] [AddMonoid α]

theorem sysUpdate_spec (s : St α) (v : α) :
    sysUpdate s v = { mx := max s.mx v, mn := min s.mn v, sm := s.sm + v } := by
  unfold sysUpdate
  simp only []
  split <;> split <;> simp_all [not_lt, le_of_lt]

theorem procUpdate_spec (s : St α) (v : α) (h : s.mn ≤ s.mx) :
    procUpdate s v = { mx := max s.mx v, mn := min s.mn v, sm := s.sm + v } := by
  unfold procUpdate
  simp only []
  split
  · next hv =>
    have : s.mn ≤ v := le_of_lt (lt_of_le_of_lt h hv)
    simp_all [le_of_lt]
  · split <;> simp_all [not_lt, le_of_lt]

theorem foldl_statsUpdate (s : Stats α) (xs : List α) :
    xs.foldl statsUpdate s =
      { st := { mx := xs.foldl max s.st.mx, mn := xs.foldl min s.st.mn, sm := s.st.sm + xs.sum },
        count := s.count + xs.length } := by
  induction xs generalizing s with
  | nil => simp
  | cons x xs ih =>
    rw [List.foldl_cons, ih]
    simp only [statsUpdate, sysUpdate_spec, List.foldl_cons, List.sum_cons, List.length_cons]
    rw [add_assoc, Nat.add_assoc, Nat.add_comm 1]

theorem statsRun_spec (M : α) (xs : List α) :
    statsRun 0 M xs =
      { st := { mx := xs.foldl max 0, mn := xs.foldl min M, sm := xs.sum }, count := xs.length } := by
  unfold statsRun statsInit
  rw [foldl_statsUpdate]
  simp [sysInit]

theorem foldl_procStep (s : Stats α) (h : s.st.mn ≤ s.st.mx) (xs : List α) :
    xs.foldl procStep (some s) =
      some { st := { mx := xs.foldl max s.st.mx, mn := xs.foldl min s.st.mn, sm := s.st.sm + xs.sum },
             count := s.count + xs.length } := by
  induction xs generalizing s with
  | nil => simp
  | cons x xs ih =>
    rw [List.foldl_cons]
    simp only [procStep]
    rw [procUpdate_spec s.st x h, ih _ (le_trans (min_le_left _ _) (le_trans h (le_max_left _ _)))]
    simp only [List.foldl_cons, List.sum_cons, List.length_cons]
    rw [add_assoc, Nat.add_assoc, Nat.add_comm 1]

theorem procRun_spec (x : α) (xs : List α) :
    procRun (x :: xs) =
      some { st := { mx := xs.foldl max x, mn := xs.foldl min x, sm := x + xs.sum },
             count := 1 + xs.length } := by
  unfold procRun
  rw [List.foldl_cons]
  simp only [procStep]
  rw [foldl_procStep _ (by simp [procFirst])]
  simp [procFirst]

theorem le_foldl_max (a : α) (xs : List α) : a ≤ xs.foldl max a ∧ ∀ x ∈ xs, x ≤ xs.foldl max a := by
  induction xs generalizing a with
  | nil => simp
  | cons y ys ih =>
    rw [List.foldl_cons]
    have := ih (max a y)
    refine ⟨le_trans (le_max_left _ _) this.1, ?_⟩
    intro x hx
    rcases List.mem_cons.1 hx with rfl | hx
    · exact le_trans (le_max_right _ _) this.1
    · exact this.2 x hx

theorem foldl_max_mem (a : α) (xs : List α) : xs.foldl max a = a ∨ xs.foldl max a ∈ xs := by
  induction xs generalizing a with
  | nil => simp
  | cons y ys ih =>
    rw [List.foldl_cons]
    rcases ih (max a y) with h | h
    · rw [h]
      rcases le_total a y with hay | hay
      · right; rw [max_eq_right hay]; exact List.mem_cons_self
      · left; exact max_eq_left hay
    · right; exact List.mem_cons_of_mem _ h

theorem foldl_min_le (a : α) (xs : List α) : xs.foldl min a ≤ a ∧ ∀ x ∈ xs, xs.foldl min a ≤ x := by
  induction xs generalizing a with
  | nil => simp
  | cons y ys ih =>
    rw [List.foldl_cons]
    have := ih (min a y)
    refine ⟨le_trans this.1 (min_le_left _ _), ?_⟩
    intro x hx
    rcases List.mem_cons.1 hx with rfl | hx
    · exact le_trans this.1 (min_le_right _ _)
    · exact this.2 x hx

theorem foldl_min_mem (a : α) (xs : List α) : xs.foldl min a = a ∨ xs.foldl min a ∈ xs := by
  induction xs generalizing a with
  | nil => simp
  | cons y ys ih =>
    rw [List.foldl_cons]
    rcases ih (min a y) with h | h
    · rw [h]
      rcases le_total y a with hay | hay
      · right; rw [min_eq_right hay]; exact List.mem_cons_self
      · left; exact min_eq_left hay
    · right; exact List.mem_cons_of_mem _ h

theorem foldl_max_isMax (a : α) (xs : List α) (hne : xs ≠ []) (ha : ∀ x ∈ xs, a ≤ x) :
    xs.foldl max a ∈ xs ∧ ∀ x ∈ xs, x ≤ xs.foldl max a := by
  refine ⟨?_, (le_foldl_max a xs).2⟩
  rcases foldl_max_mem a xs with h | h
  · cases xs with
    | nil => exact absurd rfl hne
    | cons y ys =>
      have h1 := (le_foldl_max a (y :: ys)).2 y List.mem_cons_self
      have h2 := ha y List.mem_cons_self
      have : y = a := le_antisymm (h ▸ h1) h2
      rw [h, ← this]; exact List.mem_cons_self
  · exact h

theorem foldl_min_isMin (a : α) (xs : List α) (hne : xs ≠ []) (ha : ∀ x ∈ xs, x ≤ a) :
    xs.foldl min a ∈ xs ∧ ∀ x ∈ xs, xs.foldl min a ≤ x := by
  refine ⟨?_, (foldl_min_le a xs).2⟩
  rcases foldl_min_mem a xs with h | h
  · cases xs with
    | nil => exact absurd rfl hne
    | cons y ys =>
      have h1 := (foldl_min_le a (y :: ys)).2 y List.mem_cons_self
      have h2 := ha y List.mem_cons_self
      have : y = a := le_antisymm h2 (h ▸ h1)
      rw [h, ← this]; exact List.mem_cons_self
  · exact h

theorem isMax_cons_foldl (x : α) (xs : List α) :
    xs.foldl max x ∈ x :: xs ∧ ∀ y ∈ x :: xs, y ≤ xs.foldl max x := by
  refine ⟨?_, ?_⟩
  · rcases foldl_max_mem x xs with h | h
    · rw [h]; exact List.mem_cons_self
    · exact List.mem_cons_of_mem _ h
  · intro y hy
    rcases List.mem_cons.1 hy with rfl | hy
    · exact (le_foldl_max _ xs).1
    · exact (le_foldl_max x xs).2 y hy

theorem isMin_cons_foldl (x : α) (xs : List α) :
    xs.foldl min x ∈ x :: xs ∧ ∀ y ∈ x :: xs, xs.foldl min x ≤ y := by
  refine ⟨?_, ?_⟩
  · rcases foldl_min_mem x xs with h | h
    · rw [h]; exact List.mem_cons_self
    · exact List.mem_cons_of_mem _ h
  · intro y hy
    rcases List.mem_cons.1 hy with rfl | hy
    · exact (foldl_min_le _ xs).1
    · exact (foldl_min_le x xs).2 y hy

end Jade.Reports.Ordered
