import JadeModel.Model.Resubmit

/-! Helper lemmas for C13 (resubmission).  Core Lean only. -/

namespace Jade.Resubmit
open Jade.Gen.Resubmit

/-! ## Characterisations of the generated definitions (one lemma each) -/

theorem isSuccessful_iff (rc : Int) (st : String) :
    isSuccessful rc st = true ↔ rc = 0 ∧ st = "finished" := by
  simp [isSuccessful]

theorem isFailed_iff (rc : Int) (st : String) :
    isFailed rc st = true ↔ rc ≠ 0 ∧ st = "finished" := by
  simp [isFailed]

theorem isCanceled_iff (rc : Int) (st : String) :
    isCanceled rc st = true ↔ rc ≠ 0 ∧ st = "canceled" := by
  simp [isCanceled]

theorem resultType_successful (rc : Int) (st : String) :
    resultType rc st = "successful" ↔ isSuccessful rc st = true := by
  unfold resultType
  split
  · simp [*]
  · split
    · simp [*]
    · split <;> simp [*]

theorem resultType_failed (rc : Int) (st : String) :
    resultType rc st = "failed" ↔ isFailed rc st = true := by
  unfold resultType
  split
  · next h =>
    have := (isSuccessful_iff rc st).1 h
    simp [isFailed_iff, this.1]
  · split
    · simp [*]
    · split <;> simp [*]

theorem resultType_canceled (rc : Int) (st : String) :
    resultType rc st = "canceled" ↔ isCanceled rc st = true := by
  unfold resultType
  split
  · next h =>
    have := (isSuccessful_iff rc st).1 h
    simp [isCanceled_iff, this.1]
  · split
    · next h =>
      have := (isFailed_iff rc st).1 h
      simp [isCanceled_iff, this.2]
    · split <;> simp [*]

theorem mem_typesAdded (failed successful : Bool) (ty : String) :
    ty ∈ typesAdded failed successful ↔
      (failed = true ∧ (ty = "canceled" ∨ ty = "failed")) ∨ (successful = true ∧ ty = "successful") := by
  cases failed <;> cases successful <;> simp [typesAdded, readsResults, or_assoc]

theorem addsMissing_iff (missing : Bool) : addsMissing missing = true ↔ missing = true := by
  simp [addsMissing]

theorem missingTest_iff (b : Bool) : missingTest b = true ↔ b = false := by
  simp [missingTest]

theorem skipJob_iff (b : List Nat) : skipJob b = true ↔ b = [] := by
  simp [skipJob]

theorem closureHit_iff (b cur : List Nat) : closureHit b cur = true ↔ ∃ x, x ∈ b ∧ x ∈ cur := by
  simp [closureHit, intersectsB_iff]

theorem stopIter_iff (a f : Nat) : stopIter (numAdded a f) = true ↔ a = f := by
  simp [stopIter, numAdded]
  omega

theorem assertIter_iff (i n : Nat) : assertIter i (maxIter n) = true ↔ i + 1 < n := by
  unfold assertIter maxIter
  rw [decide_eq_true_iff]
  omega

theorem keepRow_iff (name : Nat) (sel : List Nat) : keepRow name sel = true ↔ name ∉ sel := by
  simp [keepRow]

theorem prepResets_iff (name : Nat) (sel : List Nat) : prepResets name sel = true ↔ name ∈ sel := by
  simp [prepResets]

theorem prepCounts_iff (st : JState) : prepCounts st = true ↔ st = .done := by
  simp [prepCounts]

theorem prepSubmitted_eq (n : Nat) (sel : List Nat) : prepSubmitted n sel = (n : Int) - (sel.length : Int) := by
  simp [prepSubmitted]

theorem prepAssert_iff (b : Bool) : prepAssert b = true ↔ b = true := by simp [prepAssert]

theorem refuses_iff (b : Bool) : refuses b = true ↔ b = false := by simp [refuses]

theorem promoteRefused_iff (s : Option String) : promoteRefused s = true ↔ s ≠ none := by
  cases s <;> simp [promoteRefused]

theorem amISubmitter_iff (s : Option String) (h : String) : amISubmitter s h = true ↔ s = some h := by
  simp [amISubmitter]

/-! ## `insertL` / `dedup` -/

theorem mem_insertL (a : List Nat) (x y : Nat) : x ∈ insertL a y ↔ x ∈ a ∨ x = y := by
  unfold insertL
  split
  · next h =>
    have : y ∈ a := by simpa using h
    constructor
    · exact Or.inl
    · rintro (h | rfl) <;> assumption
  · simp

theorem nodup_insertL (a : List Nat) (y : Nat) (h : a.Nodup) : (insertL a y).Nodup := by
  unfold insertL
  split
  · exact h
  · next hn =>
    have : y ∉ a := by simpa using hn
    rw [List.nodup_append]
    refine ⟨h, by simp, ?_⟩
    intro u hu v hv
    simp at hv
    subst hv
    intro e; subst e; exact this hu

theorem length_insertL_le (a : List Nat) (y : Nat) : a.length ≤ (insertL a y).length := by
  unfold insertL; split <;> simp

theorem insertL_of_mem (a : List Nat) (y : Nat) (h : y ∈ a) : insertL a y = a := by
  unfold insertL; simp [h]

theorem insertL_of_not_mem (a : List Nat) (y : Nat) (h : y ∉ a) : insertL a y = a ++ [y] := by
  unfold insertL; simp [h]

theorem mem_foldl_insertL (l acc : List Nat) (x : Nat) :
    x ∈ l.foldl insertL acc ↔ x ∈ acc ∨ x ∈ l := by
  induction l generalizing acc with
  | nil => simp
  | cons a t ih =>
    simp only [List.foldl_cons, ih, mem_insertL, List.mem_cons]
    constructor
    · rintro ((h | h) | h)
      · exact Or.inl h
      · exact Or.inr (Or.inl h)
      · exact Or.inr (Or.inr h)
    · rintro (h | h | h)
      · exact Or.inl (Or.inl h)
      · exact Or.inl (Or.inr h)
      · exact Or.inr h

theorem nodup_foldl_insertL (l acc : List Nat) (h : acc.Nodup) : (l.foldl insertL acc).Nodup := by
  induction l generalizing acc with
  | nil => simpa
  | cons a t ih => exact ih _ (nodup_insertL _ _ h)

theorem mem_dedup (l : List Nat) (x : Nat) : x ∈ dedup l ↔ x ∈ l := by
  simp [dedup, mem_foldl_insertL]

theorem nodup_dedup (l : List Nat) : (dedup l).Nodup :=
  nodup_foldl_insertL l [] List.nodup_nil

/-! ## Selection -/

theorem resultOf_some_mem {sm : List Row} {j : JobId} {r : Row} (h : resultOf sm j = some r) :
    r ∈ sm ∧ r.name = j := by
  unfold resultOf at h
  have h1 := List.mem_of_find?_eq_some h
  have h2 := List.find?_some h
  exact ⟨by simpa using h1, by simpa using h2⟩

theorem resultOf_none_iff (sm : List Row) (j : JobId) :
    resultOf sm j = none ↔ ∀ r ∈ sm, r.name ≠ j := by
  unfold resultOf
  simp [List.find?_eq_none]

theorem resultOf_isSome_iff (sm : List Row) (j : JobId) :
    (resultOf sm j).isSome = true ↔ ∃ r ∈ sm, r.name = j := by
  cases h : resultOf sm j with
  | none =>
    have := (resultOf_none_iff sm j).1 h
    simp only [Option.isSome_none, Bool.false_eq_true, false_iff, not_exists, not_and]
    exact this
  | some r =>
    have := resultOf_some_mem h
    simp only [Option.isSome_some, true_iff]
    exact ⟨r, this⟩

theorem mem_byType (sm : List Row) (ty : String) (j : JobId) :
    j ∈ byType sm ty ↔ ∃ r, resultOf sm j = some r ∧ resultType r.rc r.status = ty := by
  unfold byType
  rw [List.mem_filter]
  constructor
  · rintro ⟨_, h⟩
    split at h
    · next r hr => exact ⟨r, hr, by simpa using h⟩
    · cases h
  · rintro ⟨r, hr, hty⟩
    refine ⟨?_, ?_⟩
    · have := resultOf_some_mem hr
      rw [summaryNames, mem_dedup, List.mem_map]
      exact ⟨r, this.1, this.2⟩
    · rw [hr]; simpa using hty

theorem mem_missingJobs (n : Nat) (sm : List Row) (j : JobId) :
    j ∈ missingJobs n sm ↔ j < n ∧ resultOf sm j = none := by
  unfold missingJobs
  rw [List.mem_filter, List.mem_range, missingTest_iff]
  cases resultOf sm j <;> simp

theorem mem_resubmitSelect (n : Nat) (sm : List Row) (failed missing successful : Bool) (j : JobId) :
    j ∈ resubmitSelect n sm failed missing successful ↔
      (∃ r, resultOf sm j = some r ∧
        ((failed = true ∧ (isFailed r.rc r.status = true ∨ isCanceled r.rc r.status = true)) ∨
         (successful = true ∧ isSuccessful r.rc r.status = true))) ∨
      (missing = true ∧ j < n ∧ resultOf sm j = none) := by
  unfold resubmitSelect
  rw [mem_dedup, List.mem_append, List.mem_flatMap]
  constructor
  · rintro (⟨ty, hty, hj⟩ | h)
    · left
      obtain ⟨r, hr, he⟩ := (mem_byType sm ty j).1 hj
      refine ⟨r, hr, ?_⟩
      rcases (mem_typesAdded failed successful ty).1 hty with ⟨hf, (rfl | rfl)⟩ | ⟨hs, rfl⟩
      · exact Or.inl ⟨hf, Or.inr ((resultType_canceled _ _).1 he)⟩
      · exact Or.inl ⟨hf, Or.inl ((resultType_failed _ _).1 he)⟩
      · exact Or.inr ⟨hs, (resultType_successful _ _).1 he⟩
    · right
      split at h
      · next hm => exact ⟨(addsMissing_iff _).1 hm, (mem_missingJobs n sm j).1 h⟩
      · cases h
  · rintro (⟨r, hr, h⟩ | ⟨hm, hj⟩)
    · left
      rcases h with ⟨hf, (h | h)⟩ | ⟨hs, h⟩
      · exact ⟨"failed", (mem_typesAdded _ _ _).2 (Or.inl ⟨hf, Or.inr rfl⟩),
          (mem_byType sm _ j).2 ⟨r, hr, (resultType_failed _ _).2 h⟩⟩
      · exact ⟨"canceled", (mem_typesAdded _ _ _).2 (Or.inl ⟨hf, Or.inl rfl⟩),
          (mem_byType sm _ j).2 ⟨r, hr, (resultType_canceled _ _).2 h⟩⟩
      · exact ⟨"successful", (mem_typesAdded _ _ _).2 (Or.inr ⟨hs, rfl⟩),
          (mem_byType sm _ j).2 ⟨r, hr, (resultType_successful _ _).2 h⟩⟩
    · right
      rw [if_pos ((addsMissing_iff _).2 hm)]
      exact (mem_missingJobs n sm j).2 hj

theorem nodup_resubmitSelect (n : Nat) (sm : List Row) (f m s : Bool) :
    (resubmitSelect n sm f m s).Nodup := nodup_dedup _

theorem eq_of_name_eq {sm : List Row} (hnd : (sm.map (·.name)).Nodup) {a b : Row} (ha : a ∈ sm) (hb : b ∈ sm)
    (h : a.name = b.name) : a = b := by
  induction sm with
  | nil => cases ha
  | cons x t ih =>
    rw [List.map_cons, List.nodup_cons] at hnd
    rcases List.mem_cons.1 ha with rfl | ha' <;> rcases List.mem_cons.1 hb with rfl | hb'
    · rfl
    · exact absurd (List.mem_map.2 ⟨b, hb', h.symm⟩) hnd.1
    · exact absurd (List.mem_map.2 ⟨a, ha', h⟩) hnd.1
    · exact ih hnd.2 ha' hb'

/-- with one entry per name (every completed submission: C08) the dict is the list -/
theorem resultOf_eq_some_iff_of_nodup {sm : List Row} (hnd : (sm.map (·.name)).Nodup) (j : JobId) (r : Row) :
    resultOf sm j = some r ↔ r ∈ sm ∧ r.name = j := by
  constructor
  · exact resultOf_some_mem
  · rintro ⟨hr, hj⟩
    cases h : resultOf sm j with
    | none => exact absurd hj ((resultOf_none_iff sm j).1 h r hr)
    | some r' =>
      obtain ⟨hr', hj'⟩ := resultOf_some_mem h
      rw [eq_of_name_eq hnd hr' hr (hj'.trans hj.symm)]

/-! ## Closure -/

/-- `a` is a configured blocker of the configuration's job `b` -/
def BlockerOf (n : Nat) (blockers : JobId → List JobId) (a b : JobId) : Prop := b < n ∧ a ∈ blockers b

/-- reflexive-transitive closure of `BlockerOf`: `y` is `x` or depends (transitively) on `x` -/
inductive Reaches (n : Nat) (blockers : JobId → List JobId) : JobId → JobId → Prop
  | refl (x : JobId) : Reaches n blockers x x
  | tail {x y z : JobId} : Reaches n blockers x y → BlockerOf n blockers y z → Reaches n blockers x z

/-- job `j` has a configured blocker in `cur` -/
def Hit (blockers : JobId → List JobId) (cur : List JobId) (j : JobId) : Prop := ∃ x, x ∈ blockers j ∧ x ∈ cur

instance (blockers : JobId → List JobId) (cur : List JobId) (j : JobId) : Decidable (Hit blockers cur j) := by
  unfold Hit; infer_instance

variable {n : Nat} {blockers : JobId → List JobId}

theorem visit_of_hit (st : CState) (j : JobId) (h : Hit blockers st.cur j) :
    visit blockers st j =
      { cur := insertL st.cur j,
        upd := fun k => if k = j then some (interOf (blockers j) st.cur) else st.upd k } := by
  unfold visit
  have h1 : skipJob (blockers j) = false := by
    rw [Bool.eq_false_iff]; intro hs
    obtain ⟨x, hx, _⟩ := h
    rw [(skipJob_iff _).1 hs] at hx; cases hx
  have h2 : closureHit (blockers j) st.cur = true := (closureHit_iff _ _).2 h
  simp [h1, h2]

theorem visit_of_not_hit (st : CState) (j : JobId) (h : ¬ Hit blockers st.cur j) :
    visit blockers st j = st := by
  unfold visit
  split
  · rfl
  · split
    · next h2 => exact absurd ((closureHit_iff _ _).1 h2) h
    · rfl

theorem mem_interOf (b cur : List JobId) (x : JobId) : x ∈ interOf b cur ↔ x ∈ b ∧ x ∈ cur := by
  simp [interOf]

theorem interOf_ne_nil_iff (b cur : List JobId) : interOf b cur ≠ [] ↔ ∃ x, x ∈ b ∧ x ∈ cur := by
  constructor
  · intro h
    obtain ⟨x, hx⟩ := List.exists_mem_of_ne_nil _ h
    exact ⟨x, (mem_interOf _ _ _).1 hx⟩
  · rintro ⟨x, hx⟩ h
    have := (mem_interOf b cur x).2 hx
    rw [h] at this; cases this

/-- the three things `visit` can do to the set -/
theorem visit_cur_cases (st : CState) (j : JobId) :
    ((visit blockers st j).cur = st.cur) ∨
    ((visit blockers st j).cur = st.cur ++ [j] ∧ j ∉ st.cur ∧ Hit blockers st.cur j) := by
  by_cases h : Hit blockers st.cur j
  · rw [visit_of_hit st j h]
    by_cases hj : j ∈ st.cur
    · left; simp [insertL_of_mem _ _ hj]
    · right; exact ⟨by simp [insertL_of_not_mem _ _ hj], hj, h⟩
  · left; rw [visit_of_not_hit st j h]

theorem foldl_visit_cur_subset (l : List JobId) (st : CState) :
    ∀ x ∈ st.cur, x ∈ (l.foldl (visit blockers) st).cur := by
  induction l generalizing st with
  | nil => intro x hx; exact hx
  | cons j t ih =>
    intro x hx
    apply ih
    rcases visit_cur_cases (blockers := blockers) st j with h | ⟨h, _, _⟩ <;> rw [h]
    · exact hx
    · exact List.mem_append_left _ hx

theorem foldl_visit_length_le (l : List JobId) (st : CState) :
    st.cur.length ≤ (l.foldl (visit blockers) st).cur.length := by
  induction l generalizing st with
  | nil => exact Nat.le_refl _
  | cons j t ih =>
    refine Nat.le_trans ?_ (ih _)
    rcases visit_cur_cases (blockers := blockers) st j with h | ⟨h, _, _⟩ <;> rw [h] <;> simp

theorem foldl_visit_nodup (l : List JobId) (st : CState) (h : st.cur.Nodup) :
    (l.foldl (visit blockers) st).cur.Nodup := by
  induction l generalizing st with
  | nil => exact h
  | cons j t ih =>
    apply ih
    rcases visit_cur_cases (blockers := blockers) st j with h' | ⟨h', hj, _⟩ <;> rw [h']
    · exact h
    · rw [← insertL_of_not_mem _ _ hj]; exact nodup_insertL _ _ h

/-- every element of the set is reachable from the initial selection -/
def Sound (n : Nat) (blockers : JobId → List JobId) (sel cur : List JobId) : Prop :=
  ∀ x ∈ cur, ∃ s, s ∈ sel ∧ Reaches n blockers s x

theorem foldl_visit_sound (sel : List JobId) (l : List JobId) (hl : ∀ j ∈ l, j < n) (st : CState)
    (h : Sound n blockers sel st.cur) : Sound n blockers sel (l.foldl (visit blockers) st).cur := by
  induction l generalizing st with
  | nil => exact h
  | cons j t ih =>
    apply ih (fun k hk => hl k (List.mem_cons_of_mem _ hk))
    rcases visit_cur_cases (blockers := blockers) st j with h' | ⟨h', _, ⟨b, hb, hbc⟩⟩ <;> rw [h']
    · exact h
    · intro x hx
      rcases List.mem_append.1 hx with hx | hx
      · exact h x hx
      · have : x = j := by simpa using hx
        subst this
        obtain ⟨s, hs, hr⟩ := h b hbc
        exact ⟨s, hs, Reaches.tail hr ⟨hl x (List.mem_cons_self), hb⟩⟩

/-- keys of the dict are configuration jobs with a blocker in the current set -/
def UpdInv (n : Nat) (blockers : JobId → List JobId) (st : CState) : Prop :=
  ∀ k v, st.upd k = some v → k < n ∧ Hit blockers st.cur k

theorem Hit.mono {cur cur' : List JobId} {j : JobId} (h : Hit blockers cur j) (hs : ∀ x ∈ cur, x ∈ cur') :
    Hit blockers cur' j := by
  obtain ⟨x, hx, hc⟩ := h
  exact ⟨x, hx, hs x hc⟩

theorem visit_updInv (st : CState) (j : JobId) (hj : j < n) (h : UpdInv n blockers st) :
    UpdInv n blockers (visit blockers st j) := by
  by_cases hh : Hit blockers st.cur j
  · rw [visit_of_hit st j hh]
    intro k v hk
    simp only at hk
    have hsub : ∀ x ∈ st.cur, x ∈ insertL st.cur j := fun x hx => (mem_insertL _ _ _).2 (Or.inl hx)
    split at hk
    · next e => subst e; exact ⟨hj, hh.mono hsub⟩
    · obtain ⟨h1, h2⟩ := h k v hk
      exact ⟨h1, h2.mono hsub⟩
  · rw [visit_of_not_hit st j hh]; exact h

theorem foldl_visit_updInv (l : List JobId) (hl : ∀ j ∈ l, j < n) (st : CState) (h : UpdInv n blockers st) :
    UpdInv n blockers (l.foldl (visit blockers) st) := by
  induction l generalizing st with
  | nil => exact h
  | cons j t ih =>
    exact ih (fun k hk => hl k (List.mem_cons_of_mem _ hk)) _ (visit_updInv st j (hl j List.mem_cons_self) h)

/-- a pass that adds nothing: the set is unchanged, closed for the jobs visited, and the dict holds, for every
    visited job with a blocker in the set, exactly the intersection -/
theorem foldl_visit_fixed (l : List JobId) (st : CState)
    (hlen : (l.foldl (visit blockers) st).cur.length = st.cur.length) :
    (l.foldl (visit blockers) st).cur = st.cur ∧
    (∀ j ∈ l, Hit blockers st.cur j → j ∈ st.cur) ∧
    (∀ k, (l.foldl (visit blockers) st).upd k =
      if k ∈ l ∧ Hit blockers st.cur k then some (interOf (blockers k) st.cur) else st.upd k) := by
  induction l generalizing st with
  | nil => simp
  | cons j t ih =>
    simp only [List.foldl_cons] at hlen ⊢
    have hle := foldl_visit_length_le (blockers := blockers) t (visit blockers st j)
    have hcur : (visit blockers st j).cur = st.cur ∧ (Hit blockers st.cur j → j ∈ st.cur) := by
      rcases visit_cur_cases (blockers := blockers) st j with h | ⟨h, _, _⟩
      · refine ⟨h, fun hh => ?_⟩
        rw [visit_of_hit st j hh] at h
        simp only at h
        by_cases hj : j ∈ st.cur
        · exact hj
        · rw [insertL_of_not_mem _ _ hj] at h
          have := congrArg List.length h
          simp at this
      · rw [h] at hle; simp at hle; omega
    obtain ⟨hc, hclosed⟩ := hcur
    have hlen' : (t.foldl (visit blockers) (visit blockers st j)).cur.length = (visit blockers st j).cur.length := by
      rw [hc]; exact hlen
    obtain ⟨i1, i2, i3⟩ := ih (visit blockers st j) hlen'
    rw [hc] at i1 i2 i3
    refine ⟨i1, ?_, ?_⟩
    · intro k hk hh
      rcases List.mem_cons.1 hk with rfl | hk
      · exact hclosed hh
      · exact i2 k hk hh
    · intro k
      rw [i3 k]
      by_cases hkt : k ∈ t ∧ Hit blockers st.cur k
      · rw [if_pos hkt, if_pos ⟨List.mem_cons_of_mem _ hkt.1, hkt.2⟩]
      · rw [if_neg hkt]
        by_cases hh : Hit blockers st.cur j
        · rw [visit_of_hit st j hh]
          simp only
          by_cases hkj : k = j
          · subst hkj
            rw [if_pos rfl, if_pos ⟨List.mem_cons_self, hh⟩]
          · rw [if_neg hkj, if_neg]
            rintro ⟨hk, hk2⟩
            rcases List.mem_cons.1 hk with e | hk
            · exact hkj e
            · exact hkt ⟨hk, hk2⟩
        · rw [visit_of_not_hit st j hh, if_neg]
          rintro ⟨hk, hk2⟩
          rcases List.mem_cons.1 hk with e | hk
          · subst e; exact hh hk2
          · exact hkt ⟨hk, hk2⟩

/-- a set closed under "has a configured blocker in it" is not changed by a pass -/
theorem foldl_visit_of_closed (l : List JobId) (st : CState) (h : ∀ j ∈ l, Hit blockers st.cur j → j ∈ st.cur) :
    (l.foldl (visit blockers) st).cur = st.cur := by
  induction l generalizing st with
  | nil => rfl
  | cons j t ih =>
    simp only [List.foldl_cons]
    have hc : (visit blockers st j).cur = st.cur := by
      rcases visit_cur_cases (blockers := blockers) st j with h' | ⟨_, hj, hh⟩
      · exact h'
      · exact absurd (h j List.mem_cons_self hh) hj
    rw [ih (visit blockers st j) (by rw [hc]; exact fun k hk => h k (List.mem_cons_of_mem _ hk)), hc]

/-! ### the counting argument behind `assert i < max_iter - 1` -/

/-- number of configuration jobs in the set -/
def inSet (n : Nat) (cur : List JobId) : Nat := (List.range n).countP (fun j => cur.contains j)

theorem inSet_le (n : Nat) (cur : List JobId) : inSet n cur ≤ n := by
  unfold inSet
  exact Nat.le_trans List.countP_le_length (by simp)

theorem countP_lt_of_imp {α} {p q : α → Bool} {l : List α} (h : ∀ x ∈ l, p x = true → q x = true)
    {a : α} (ha : a ∈ l) (hq : q a = true) (hp : p a = false) : l.countP p < l.countP q := by
  induction l with
  | nil => cases ha
  | cons x t ih =>
    have hmono : t.countP p ≤ t.countP q :=
      List.countP_mono_left (fun y hy => h y (List.mem_cons_of_mem _ hy))
    rcases List.mem_cons.1 ha with rfl | ha'
    · rw [List.countP_cons_of_pos hq, List.countP_cons_of_neg (by simp [hp])]
      omega
    · have := ih (fun y hy => h y (List.mem_cons_of_mem _ hy)) ha'
      by_cases hpx : p x = true
      · rw [List.countP_cons_of_pos hpx, List.countP_cons_of_pos (h x List.mem_cons_self hpx)]; omega
      · rw [List.countP_cons_of_neg hpx]
        by_cases hqx : q x = true
        · rw [List.countP_cons_of_pos hqx]; omega
        · rw [List.countP_cons_of_neg hqx]; exact this

theorem inSet_mono {cur cur' : List JobId} (h : ∀ x ∈ cur, x ∈ cur') : inSet n cur ≤ inSet n cur' := by
  unfold inSet
  apply List.countP_mono_left
  intro x _ hx
  simp only [List.contains_eq_mem, decide_eq_true_eq] at hx ⊢
  exact h x hx

theorem inSet_lt {cur cur' : List JobId} (h : ∀ x ∈ cur, x ∈ cur') {j : JobId} (hj : j < n)
    (h1 : j ∈ cur') (h2 : j ∉ cur) : inSet n cur < inSet n cur' := by
  unfold inSet
  apply countP_lt_of_imp (a := j)
  · intro x _ hx
    simp only [List.contains_eq_mem, decide_eq_true_eq] at hx ⊢
    exact h x hx
  · exact List.mem_range.2 hj
  · simpa using h1
  · simpa using h2

theorem inSet_pos {cur : List JobId} {x : JobId} (hx : x < n) (hc : x ∈ cur) : 1 ≤ inSet n cur := by
  unfold inSet
  apply List.countP_pos_iff.2
  exact ⟨x, List.mem_range.2 hx, by simpa using hc⟩

/-- blockers named in the configuration exist (`check_job_dependencies`) -/
def BlockersExist (n : Nat) (blockers : JobId → List JobId) : Prop := ∀ j, j < n → ∀ b ∈ blockers j, b < n

/-- a pass that adds something: a configuration job was in the set before, and one more is afterwards -/
theorem foldl_visit_grows (hwf : BlockersExist n blockers) (l : List JobId) (hl : ∀ j ∈ l, j < n) (st : CState)
    (hlen : (l.foldl (visit blockers) st).cur.length ≠ st.cur.length) :
    1 ≤ inSet n st.cur ∧ inSet n st.cur < inSet n (l.foldl (visit blockers) st).cur := by
  induction l generalizing st with
  | nil => exact absurd rfl hlen
  | cons j t ih =>
    simp only [List.foldl_cons] at hlen ⊢
    have hjn := hl j List.mem_cons_self
    rcases visit_cur_cases (blockers := blockers) st j with h | ⟨h, hj, ⟨b, hb, hbc⟩⟩
    · have := ih (fun k hk => hl k (List.mem_cons_of_mem _ hk)) (visit blockers st j) (by rw [h]; exact hlen)
      rw [h] at this; exact this
    · refine ⟨inSet_pos (hwf j hjn b hb) hbc, ?_⟩
      have h1 : inSet n st.cur < inSet n (visit blockers st j).cur := by
        apply inSet_lt (j := j) _ hjn
        · rw [h]; simp
        · exact hj
        · intro x hx; rw [h]; exact List.mem_append_left _ hx
      exact Nat.lt_of_lt_of_le h1 (inSet_mono (foldl_visit_cur_subset t _))

/-! ### the bounded iteration -/

/-- closed under "has a configured blocker in the set" -/
def Closed (n : Nat) (blockers : JobId → List JobId) (cur : List JobId) : Prop :=
  ∀ j, j < n → Hit blockers cur j → j ∈ cur

/-- the dict after the last pass -/
def UpdSpec (n : Nat) (blockers : JobId → List JobId) (st : CState) : Prop :=
  ∀ k, st.upd k = if k < n ∧ Hit blockers st.cur k then some (interOf (blockers k) st.cur) else none

theorem pass_fixed (st : CState) (hinv : UpdInv n blockers st)
    (hlen : (pass n blockers st).cur.length = st.cur.length) :
    (pass n blockers st).cur = st.cur ∧ Closed n blockers st.cur ∧ UpdSpec n blockers (pass n blockers st) := by
  obtain ⟨h1, h2, h3⟩ := foldl_visit_fixed (blockers := blockers) (List.range n) st hlen
  refine ⟨h1, fun j hj hh => h2 j (List.mem_range.2 hj) hh, ?_⟩
  intro k
  have := h3 k
  unfold pass
  rw [this, h1]
  simp only [List.mem_range]
  split
  · rfl
  · next hk =>
    cases hu : st.upd k with
    | none => rfl
    | some v => exact absurd (hinv k v hu) hk

theorem iter_ok (fuel i : Nat) (st st' : CState) (hfi : i + fuel = n) (hf : fuel ≠ 0)
    (hinv : UpdInv n blockers st) (h : iter n blockers fuel i st = .ok st') :
    Closed n blockers st'.cur ∧ UpdSpec n blockers st' := by
  induction fuel generalizing i st with
  | zero => exact absurd rfl hf
  | succ f ih =>
    simp only [iter] at h
    split at h
    · next hs =>
      have hlen := (stopIter_iff _ _).1 hs
      obtain ⟨h1, h2, h3⟩ := pass_fixed st hinv hlen
      injection h with h; subst h
      exact ⟨by rw [h1]; exact h2, h3⟩
    · split at h
      · next ha =>
        have hlt := (assertIter_iff _ _).1 ha
        have hinv' : UpdInv n blockers (pass n blockers st) :=
          foldl_visit_updInv (List.range n) (fun j hj => List.mem_range.1 hj) st hinv
        exact ih (i + 1) (pass n blockers st) (by omega) (by omega) hinv' h
      · cases h

/-- properties every pass preserves, hence the whole iteration -/
theorem iter_preserves (sel : List JobId) (fuel i : Nat) (st st' : CState)
    (h : iter n blockers fuel i st = .ok st') :
    (∀ x ∈ st.cur, x ∈ st'.cur) ∧ (st.cur.Nodup → st'.cur.Nodup) ∧
    (Sound n blockers sel st.cur → Sound n blockers sel st'.cur) := by
  induction fuel generalizing i st with
  | zero => simp only [iter] at h; injection h with h; subst h; exact ⟨fun _ h => h, id, id⟩
  | succ f ih =>
    simp only [iter] at h
    have p1 : ∀ x ∈ st.cur, x ∈ (pass n blockers st).cur := foldl_visit_cur_subset _ st
    have p2 : st.cur.Nodup → (pass n blockers st).cur.Nodup := foldl_visit_nodup _ st
    have p3 : Sound n blockers sel st.cur → Sound n blockers sel (pass n blockers st).cur :=
      foldl_visit_sound sel (List.range n) (fun j hj => List.mem_range.1 hj) st
    split at h
    · injection h with h; subst h; exact ⟨p1, p2, p3⟩
    · split at h
      · obtain ⟨q1, q2, q3⟩ := ih (i + 1) (pass n blockers st) h
        exact ⟨fun x hx => q1 x (p1 x hx), fun hn => q2 (p2 hn), fun hs => q3 (p3 hs)⟩
      · cases h

/-- with existing blockers the in-loop assertion holds whenever it is evaluated -/
theorem iter_never_asserts (hwf : BlockersExist n blockers) (fuel i : Nat) (st : CState) (hfi : i + fuel = n)
    (hi : i = 0 ∨ i + 1 ≤ inSet n st.cur) : ∃ st', iter n blockers fuel i st = .ok st' := by
  induction fuel generalizing i st with
  | zero => exact ⟨st, rfl⟩
  | succ f ih =>
    simp only [iter]
    split
    · exact ⟨_, rfl⟩
    · next hs =>
      have hne : (pass n blockers st).cur.length ≠ st.cur.length := fun e => hs ((stopIter_iff _ _).2 e)
      obtain ⟨g1, g2⟩ := foldl_visit_grows hwf (List.range n) (fun j hj => List.mem_range.1 hj) st hne
      have hle := inSet_le n (pass n blockers st).cur
      have hbig : i + 2 ≤ inSet n (pass n blockers st).cur := by
        unfold pass
        rcases hi with rfl | hi <;> omega
      have ha : assertIter i (maxIter n) = true := (assertIter_iff _ _).2 (by omega)
      rw [if_pos ha]
      exact ih (i + 1) (pass n blockers st) (by omega) (Or.inr (by omega))

/-! ### `resubmitClosure` -/

theorem updInv_init (sel : List JobId) : UpdInv n blockers { cur := sel, upd := fun _ => none } := by
  intro k v h; cases h

theorem closure_closed (sel : List JobId) (st : CState) (h : resubmitClosure n blockers sel = .ok st) :
    Closed n blockers st.cur ∧ UpdSpec n blockers st := by
  unfold resubmitClosure at h
  by_cases hn : n = 0
  · subst hn
    simp only [maxIter, iter] at h
    injection h with h; subst h
    exact ⟨fun j hj => absurd hj (Nat.not_lt_zero _), fun k => by simp⟩
  · exact iter_ok (maxIter n) 0 _ st (by simp [maxIter]) (by simpa [maxIter] using hn) (updInv_init sel) h

theorem closure_mem_iff (sel : List JobId) (st : CState) (h : resubmitClosure n blockers sel = .ok st) (j : JobId) :
    j ∈ st.cur ↔ ∃ x, x ∈ sel ∧ Reaches n blockers x j := by
  obtain ⟨hsub, _, hsound⟩ := iter_preserves sel _ _ _ _ h
  constructor
  · intro hj
    exact hsound (fun x hx => ⟨x, hx, Reaches.refl x⟩) j hj
  · rintro ⟨x, hx, hr⟩
    have hcl := (closure_closed sel st h).1
    induction hr with
    | refl => exact hsub x hx
    | tail _ hstep ih => exact hcl _ hstep.1 ⟨_, hstep.2, ih⟩

theorem closure_nodup (sel : List JobId) (st : CState) (h : resubmitClosure n blockers sel = .ok st)
    (hnd : sel.Nodup) : st.cur.Nodup :=
  (iter_preserves sel _ _ _ _ h).2.1 hnd

theorem closure_total (hwf : BlockersExist n blockers) (sel : List JobId) :
    ∃ st, resubmitClosure n blockers sel = .ok st :=
  iter_never_asserts hwf (maxIter n) 0 _ (by simp [maxIter]) (Or.inl rfl)

/-- a closed set is returned unchanged after one pass -/
theorem closure_of_closed (cur : List JobId) (hc : Closed n blockers cur) :
    ∃ st, resubmitClosure n blockers cur = .ok st ∧ st.cur = cur := by
  unfold resubmitClosure
  by_cases hn : n = 0
  · subst hn; exact ⟨_, rfl, rfl⟩
  · obtain ⟨m, hm⟩ : ∃ m, maxIter n = m + 1 := ⟨n - 1, by simp [maxIter]; omega⟩
    rw [hm]
    simp only [iter]
    have hfix : (pass n blockers { cur := cur, upd := fun _ => none }).cur = cur :=
      foldl_visit_of_closed (List.range n) _ (fun j hj hh => hc j (List.mem_range.1 hj) hh)
    have hs : stopIter (numAdded (pass n blockers { cur := cur, upd := fun _ => none }).cur.length cur.length) = true :=
      (stopIter_iff _ _).2 (by rw [hfix])
    rw [if_pos hs]
    exact ⟨_, rfl, hfix⟩

/-! ## Pruning the results -/

theorem clearResults_eq (rows : List Row) (sel : List JobId) :
    clearResults rows sel = rows.filter (fun r => decide (r.name ∉ sel)) := by
  unfold clearResults
  apply List.filter_congr
  intro r _
  rw [Bool.eq_iff_iff, keepRow_iff]; simp

theorem mem_clearResults (rows : List Row) (sel : List JobId) (r : Row) :
    r ∈ clearResults rows sel ↔ r ∈ rows ∧ r.name ∉ sel := by
  rw [clearResults_eq]; simp

theorem clearResults_sublist (rows : List Row) (sel : List JobId) : (clearResults rows sel).Sublist rows :=
  List.filter_sublist

theorem clearResults_filter_of_not_mem (rows : List Row) (sel : List JobId) (p : Row → Bool)
    (h : ∀ r ∈ rows, p r = true → r.name ∉ sel) :
    (clearResults rows sel).filter p = rows.filter p := by
  rw [clearResults_eq, List.filter_filter]
  apply List.filter_congr
  intro r hr
  by_cases hp : p r = true
  · simp [hp, h r hr hp]
  · simp [hp]

theorem clearResults_idem (rows : List Row) (sel : List JobId) :
    clearResults (clearResults rows sel) sel = clearResults rows sel := by
  rw [clearResults_eq, clearResults_eq, List.filter_filter]
  simp

/-! ## Resetting the cluster state -/

/-- the status invariants of cluster_config.json with respect to job_status.json (C09):
    `completed_jobs` counts the DONE jobs, `submitted_jobs` the SUBMITTED or DONE ones -/
@[reducible] def StatusInv (n : Nat) (state : JobId → JState) (cfg : Cfg) : Prop :=
  cfg.completed = (((List.range n).countP (fun j => state j == .done) : Nat) : Int) ∧
  cfg.submitted = (((List.range n).countP (fun j => state j != .notSubmitted) : Nat) : Int)

theorem foldl_count {α} (p q : α → Bool) (l : List α) (c : Nat) :
    l.foldl (fun c j => if p j then c else if q j then c + 1 else c) c =
      c + l.countP (fun j => !p j && q j) := by
  induction l generalizing c with
  | nil => simp
  | cons a t ih =>
    simp only [List.foldl_cons, ih, List.countP_cons]
    cases p a <;> cases q a <;> simp <;> omega

theorem prepCompleted_eq (n : Nat) (state : JobId → JState) (sel : List JobId) :
    prepCompleted n state sel =
      (List.range n).countP (fun j => !sel.contains j && (state j == .done)) := by
  unfold prepCompleted
  have : prepCountInc = 1 := rfl
  have h0 : prepCompleted0 = 0 := rfl
  rw [this, h0, foldl_count (fun j => prepResets j sel) (fun j => prepCounts (state j))]
  simp only [Nat.zero_add]
  apply List.countP_congr
  intro j _
  simp [prepResets, prepCounts]

/-- explicit form of what `prepare_for_resubmission` writes -/
theorem prepare_eq (n : Nat) (mem : Cfg) (state : JobId → JState) (bb : JobId → List JobId)
    (sel : List JobId) (upd : JobId → Option (List JobId)) (hc : mem.isComplete = true) :
    prepareForResubmission n mem state bb sel upd =
      .ok { cfg := { mem with isComplete := false, isCanceled := false,
                              submitted := (n : Int) - (sel.length : Int),
                              completed := (((List.range n).countP (fun j => !sel.contains j && (state j == .done)) : Nat) : Int) },
            state := fun j => if j ∈ sel then .notSubmitted else state j,
            blockedBy := fun j => if j ∈ sel then (upd j).getD [] else bb j } := by
  unfold prepareForResubmission
  rw [if_pos ((prepAssert_iff _).2 hc), prepCompleted_eq, prepSubmitted_eq]
  simp only [prepResets_iff, prepIsComplete, prepIsCanceled, prepNewState]

theorem prepare_error (n : Nat) (mem : Cfg) (state : JobId → JState) (bb : JobId → List JobId)
    (sel : List JobId) (upd : JobId → Option (List JobId)) (hc : mem.isComplete = false) :
    prepareForResubmission n mem state bb sel upd = .error .assertion := by
  unfold prepareForResubmission
  rw [if_neg]; rw [prepAssert_iff, hc]; simp

theorem countP_mem_eq_length {sel : List Nat} (hnd : sel.Nodup) (hlt : ∀ j ∈ sel, j < n) :
    (List.range n).countP (fun j => sel.contains j) = sel.length := by
  rw [List.countP_eq_length_filter]
  apply List.Perm.length_eq
  rw [List.perm_ext_iff_of_nodup (List.nodup_range.filter _) hnd]
  intro a
  simp only [List.mem_filter, List.mem_range, List.contains_eq_mem, decide_eq_true_eq]
  exact ⟨fun h => h.2, fun h => ⟨hlt a h, h⟩⟩

theorem count3 {α} (a b c : α → Bool) (l : List α)
    (h : ∀ x ∈ l, (a x = true ∧ b x = false ∧ c x = false) ∨ (a x = false ∧ b x = true ∧ c x = false) ∨
                  (a x = false ∧ b x = false ∧ c x = true)) :
    l.countP a + l.countP b + l.countP c = l.length := by
  induction l with
  | nil => simp
  | cons x t ih =>
    have := ih (fun y hy => h y (List.mem_cons_of_mem _ hy))
    simp only [List.countP_cons, List.length_cons]
    rcases h x List.mem_cons_self with ⟨h1, h2, h3⟩ | ⟨h1, h2, h3⟩ | ⟨h1, h2, h3⟩ <;> simp [h1, h2, h3] <;> omega

/-- the written state satisfies the status invariants exactly when no never-submitted job stays outside
    the rerun set -/
theorem prepare_statusInv_iff' (n : Nat) (mem : Cfg) (state : JobId → JState) (bb : JobId → List JobId)
    (sel : List JobId) (upd : JobId → Option (List JobId)) (p : Prepared)
    (hp : prepareForResubmission n mem state bb sel upd = .ok p)
    (hnd : sel.Nodup) (hlt : ∀ j ∈ sel, j < n) :
    StatusInv n p.state p.cfg ↔ ∀ j, j < n → state j = .notSubmitted → j ∈ sel := by
  have hc : mem.isComplete = true := by
    cases h : mem.isComplete with
    | true => rfl
    | false => rw [prepare_error _ _ _ _ _ _ h] at hp; cases hp
  rw [prepare_eq _ _ _ _ _ _ hc] at hp
  injection hp with hp; subst hp
  simp only [StatusInv]
  have e1 : (List.range n).countP (fun j => (if j ∈ sel then JState.notSubmitted else state j) == .done) =
      (List.range n).countP (fun j => !sel.contains j && (state j == .done)) := by
    apply List.countP_congr
    intro j _
    by_cases hj : j ∈ sel <;> simp [hj]
  have e2 : (List.range n).countP (fun j => (if j ∈ sel then JState.notSubmitted else state j) != .notSubmitted) =
      (List.range n).countP (fun j => !sel.contains j && (state j != .notSubmitted)) := by
    apply List.countP_congr
    intro j _
    by_cases hj : j ∈ sel <;> simp [hj]
  rw [e1, e2]
  have h3 := count3 (fun j => sel.contains j) (fun j => !sel.contains j && (state j != .notSubmitted))
    (fun j => !sel.contains j && (state j == .notSubmitted)) (List.range n) (by
      intro j _
      by_cases hj : j ∈ sel <;> by_cases hs : state j = .notSubmitted <;> simp [hj, hs])
  rw [countP_mem_eq_length hnd hlt, List.length_range] at h3
  constructor
  · rintro ⟨_, h2⟩ j hj hs
    have hz : (List.range n).countP (fun j => !sel.contains j && (state j == .notSubmitted)) = 0 := by omega
    rw [List.countP_eq_zero] at hz
    have := hz j (List.mem_range.2 hj)
    simpa [hs] using this
  · intro h
    refine ⟨rfl, ?_⟩
    have hz : (List.range n).countP (fun j => !sel.contains j && (state j == .notSubmitted)) = 0 := by
      rw [List.countP_eq_zero]
      intro j hj
      by_cases hs : state j = .notSubmitted
      · have := h j (List.mem_range.1 hj) hs
        simp [this]
      · simp [hs]
    omega

theorem upd_getD_of_spec {st : CState} (hs : UpdSpec n blockers st) (j : JobId) (hj : j < n) :
    (st.upd j).getD [] = interOf (blockers j) st.cur := by
  rw [hs j]
  split
  · rfl
  · next h =>
    have : ¬ Hit blockers st.cur j := fun hh => h ⟨hj, hh⟩
    have : interOf (blockers j) st.cur = [] := by
      by_cases he : interOf (blockers j) st.cur = []
      · exact he
      · exact absurd ((interOf_ne_nil_iff _ _).1 he) this
    rw [this]; rfl

/-! ## The command -/

theorem promote_free (host : String) (c : Cfg) (h : c.submitter = none) :
    promote host c = ({ c with submitter := some host }, true) := by
  unfold promote
  rw [if_neg]; rw [promoteRefused_iff]; simp [h]

theorem promote_held (host : String) (c : Cfg) (h : c.submitter ≠ none) : promote host c = (c, false) := by
  unfold promote
  rw [if_pos ((promoteRefused_iff _).2 h)]

theorem demote_ok (host : String) (c : Cfg) (h : c.submitter = some host) :
    demote host c = .ok { c with submitter := none } := by
  unfold demote
  rw [if_pos ((amISubmitter_iff _ _).2 h)]

theorem demote_err (host : String) (c : Cfg) (h : c.submitter ≠ some host) :
    demote host c = .error .assertion := by
  unfold demote
  rw [if_neg]; rw [amISubmitter_iff]; exact h

theorem Cfg.release_of_free (c : Cfg) (host : String) (h : c.submitter = none) :
    ({ ({ c with submitter := some host } : Cfg) with submitter := none } : Cfg) = c := by
  cases c; simp_all

theorem Sub.with_cfg_self (s : Sub) : ({ s with cfg := s.cfg } : Sub) = s := by cases s; rfl

theorem prepare_cfg_submitter {n : Nat} {mem : Cfg} {state : JobId → JState} {bb : JobId → List JobId}
    {sel : List JobId} {upd : JobId → Option (List JobId)} {p : Prepared}
    (h : prepareForResubmission n mem state bb sel upd = .ok p) : p.cfg.submitter = mem.submitter := by
  unfold prepareForResubmission at h
  split at h
  · injection h with h; subst h; rfl
  · cases h

/-- what every statement of the `try` block leaves alone -/
structure StepInv (s0 : Sub) (sub0 : Option String) (c : Ctx) : Prop where
  mem_submitter : c.mem.submitter = sub0
  n_eq : c.s.n = s0.n
  blockers_eq : c.s.blockers = s0.blockers
  summary_eq : c.s.summary = s0.summary
  rows_eq : c.pruned = false → c.s.rows = s0.rows

theorem runStep_inv (env : Env) (fl : Flags) (s0 : Sub) (sub0 : Option String) (c : Ctx) (st : Step)
    (h : StepInv s0 sub0 c) : StepInv s0 sub0 (runStep env fl c st).1 := by
  obtain ⟨h1, h2, h3, h4, h5⟩ := h
  cases st <;> simp only [runStep] <;> (repeat' split) <;>
    first
    | exact ⟨h1, h2, h3, h4, h5⟩
    | exact ⟨h1, h2, h3, h4, fun hp => by simp at hp⟩
    | exact ⟨by rw [← h1]; apply prepare_cfg_submitter; assumption, h2, h3, h4, h5⟩

theorem runSteps_inv (env : Env) (fl : Flags) (s0 : Sub) (sub0 : Option String) (steps : List Step) (c : Ctx)
    (h : StepInv s0 sub0 c) : StepInv s0 sub0 (runSteps env fl c steps).1 := by
  induction steps generalizing c with
  | nil => exact h
  | cons st rest ih =>
    simp only [runSteps]
    have := runStep_inv env fl s0 sub0 c st h
    split
    · next c' e heq => rw [heq] at this; exact this
    · next c' heq => rw [heq] at this; exact ih c' this

/-- the generated placement of `demote_from_submitter`: in the `finally` clause -/
theorem demote_in_finally : demoteOnException = true ∧ demoteOnReturn = true := ⟨rfl, rfl⟩

/-- the `try/finally`: whatever happens inside, the role is released and the frame is kept -/
theorem tryBlock_spec (env : Env) (fl : Flags) (s0 : Sub) (c0 : Ctx)
    (h : StepInv s0 (some env.host) c0) :
    (tryBlock env fl c0).s.cfg.submitter = none ∧
    (tryBlock env fl c0).s.n = s0.n ∧ (tryBlock env fl c0).s.blockers = s0.blockers ∧
    (tryBlock env fl c0).s.summary = s0.summary ∧
    ((tryBlock env fl c0).pruned = false → (tryBlock env fl c0).s.rows = s0.rows) := by
  have hinv := runSteps_inv env fl s0 (some env.host) trySteps c0 h
  unfold tryBlock
  obtain ⟨hd1, hd2⟩ := demote_in_finally
  generalize runSteps env fl c0 trySteps = res at hinv
  obtain ⟨c, oe⟩ := res
  obtain ⟨i1, i2, i3, i4, i5⟩ := hinv
  simp only at i1 i2 i3 i4 i5
  have hrel : release env.host c = .ok { c.s with cfg := { c.mem with submitter := none } } := by
    unfold release; rw [demote_ok _ _ i1]
  cases oe with
  | some e => simp only [hd1, if_true, hrel]; exact ⟨trivial, i2, i3, i4, i5⟩
  | none => simp only [hd2, if_true, hrel]; exact ⟨trivial, i2, i3, i4, i5⟩

/-- the command never touches config.json or results.json, and rows change only when it says `pruned` -/
theorem cmd_frame (env : Env) (fl : Flags) (s : Sub) :
    (resubmitCmd env fl s).s.n = s.n ∧ (resubmitCmd env fl s).s.blockers = s.blockers ∧
    (resubmitCmd env fl s).s.summary = s.summary ∧
    ((resubmitCmd env fl s).pruned = false → (resubmitCmd env fl s).s.rows = s.rows) := by
  unfold resubmitCmd
  split
  · exact ⟨rfl, rfl, rfl, fun _ => rfl⟩
  · cases hsub : s.cfg.submitter with
    | some h0 =>
      rw [promote_held _ _ (by rw [hsub]; simp)]
      simp only
      repeat' split
      all_goals first
        | exact ⟨rfl, rfl, rfl, fun _ => rfl⟩
        | (simp only [assertPromoted] at *; done)
        | skip
      all_goals simp_all [assertPromoted]
    | none =>
      rw [promote_free _ _ hsub]
      simp only
      repeat' split
      all_goals first
        | exact ⟨rfl, rfl, rfl, fun _ => rfl⟩
        | skip
      all_goals
        have := tryBlock_spec env fl s
          { s := { s with cfg := { s.cfg with submitter := some env.host } },
            mem := { s.cfg with submitter := some env.host }, sel := none, upd := none, mgr := false,
            ret := retInit, roundEntered := false, pruned := false }
          ⟨rfl, rfl, rfl, rfl, fun _ => rfl⟩
        exact this.2

/-- the context in which the `try` block starts after a successful promotion -/
def ctx0 (env : Env) (s : Sub) : Ctx :=
  { s := { s with cfg := { s.cfg with submitter := some env.host } },
    mem := { s.cfg with submitter := some env.host }, sel := none, upd := none, mgr := false,
    ret := retInit, roundEntered := false, pruned := false }

theorem ctx0_inv (env : Env) (s : Sub) : StepInv s (some env.host) (ctx0 env s) :=
  ⟨rfl, rfl, rfl, rfl, fun _ => rfl⟩

/-- complete submission, role free, groups file fine: the command is its `try` block -/
theorem cmd_eq_tryBlock (env : Env) (fl : Flags) (s : Sub) (hl : env.loadFails = false)
    (hc : s.cfg.isComplete = true) (hfree : s.cfg.submitter = none)
    (hg : env.groups = .absent ∨ env.groups = .ok) :
    resubmitCmd env fl s = tryBlock env fl (ctx0 env s) := by
  unfold resubmitCmd
  rw [if_neg (by simp [hl]), promote_free _ _ hfree]
  simp only [assertPromoted]
  rw [if_neg (by simp [refuses, hc])]
  rcases hg with hg | hg <;> rw [hg] <;> simp [ctx0]

theorem cmd_refuses_incomplete (env : Env) (fl : Flags) (s : Sub) (hl : env.loadFails = false)
    (hc : s.cfg.isComplete = false) :
    (resubmitCmd env fl s).outcome = .exit 1 ∧ (resubmitCmd env fl s).s = s ∧
    (resubmitCmd env fl s).roundEntered = false ∧ (resubmitCmd env fl s).pruned = false := by
  unfold resubmitCmd
  rw [if_neg (by simp [hl])]
  cases hsub : s.cfg.submitter with
  | some h0 =>
    rw [promote_held _ _ (by rw [hsub]; simp)]
    simp only [refuses, hc, refuseDemotes, refuseExit]
    simp
  | none =>
    rw [promote_free _ _ hsub]
    simp only [refuses, hc, refuseDemotes, refuseExit]
    rw [demote_ok _ _ rfl]
    simp only [Bool.not_false, if_true, true_and, and_true]
    cases s with
    | mk _ _ _ _ _ _ cfg _ => cases cfg; simp_all

theorem cmd_pruned_released (env : Env) (fl : Flags) (s : Sub)
    (h : (resubmitCmd env fl s).pruned = true) : (resubmitCmd env fl s).s.cfg.submitter = none := by
  revert h
  unfold resubmitCmd
  split
  · simp
  · cases hsub : s.cfg.submitter with
    | some h0 =>
      rw [promote_held _ _ (by rw [hsub]; simp)]
      simp only
      repeat' split
      all_goals simp_all [assertPromoted]
    | none =>
      rw [promote_free _ _ hsub]
      simp only
      repeat' split
      all_goals first
        | (intro h; simp at h; done)
        | (intro _; exact (tryBlock_spec env fl s (ctx0 env s) (ctx0_inv env s)).1)

/-- every failure point behind a successful promotion except a raising groups file: role released -/
theorem cmd_released (env : Env) (fl : Flags) (s : Sub) (hl : env.loadFails = false)
    (hc : s.cfg.isComplete = true) (hfree : s.cfg.submitter = none) (hg : env.groups ≠ .raises) :
    (resubmitCmd env fl s).s.cfg.submitter = none := by
  cases hgr : env.groups with
  | raises => exact absurd hgr hg
  | absent => rw [cmd_eq_tryBlock env fl s hl hc hfree (Or.inl hgr)]; exact (tryBlock_spec env fl s _ (ctx0_inv env s)).1
  | ok => rw [cmd_eq_tryBlock env fl s hl hc hfree (Or.inr hgr)]; exact (tryBlock_spec env fl s _ (ctx0_inv env s)).1
  | lenMismatch =>
    unfold resubmitCmd
    rw [if_neg (by simp [hl]), promote_free _ _ hfree]
    simp only [refuses, hc, assertPromoted, hgr]
    rw [demote_ok _ _ rfl]
    simp
  | unknownName =>
    unfold resubmitCmd
    rw [if_neg (by simp [hl]), promote_free _ _ hfree]
    simp only [refuses, hc, assertPromoted, hgr]
    rw [demote_ok _ _ rfl]
    simp

/-- the failure point outside the `try/finally`: the role stays with this host, nothing else changed -/
theorem cmd_groups_raises (env : Env) (fl : Flags) (s : Sub) (hl : env.loadFails = false)
    (hc : s.cfg.isComplete = true) (hfree : s.cfg.submitter = none) (hg : env.groups = .raises) :
    (resubmitCmd env fl s).outcome = .raised .valueError ∧
    (resubmitCmd env fl s).s = { s with cfg := { s.cfg with submitter := some env.host } } ∧
    (resubmitCmd env fl s).pruned = false ∧ (resubmitCmd env fl s).roundEntered = false := by
  unfold resubmitCmd
  rw [if_neg (by simp [hl]), promote_free _ _ hfree]
  simp only [refuses, hc, assertPromoted, hg]
  simp

/-- a complete submission whose role is held by anybody: `assert promoted` fails, nothing changes -/
theorem cmd_held_complete (env : Env) (fl : Flags) (s : Sub) (hl : env.loadFails = false)
    (hc : s.cfg.isComplete = true) (hheld : s.cfg.submitter ≠ none) :
    (resubmitCmd env fl s).outcome = .raised .assertion ∧ (resubmitCmd env fl s).s = s ∧
    (resubmitCmd env fl s).pruned = false ∧ (resubmitCmd env fl s).roundEntered = false := by
  unfold resubmitCmd
  rw [if_neg (by simp [hl]), promote_held _ _ hheld]
  simp only [refuses, hc, assertPromoted]
  simp

set_option linter.unusedSimpArgs false in
/-- no failure: what the command has written when the submit round starts, and its exit code -/
theorem cmd_success (env : Env) (fl : Flags) (s : Sub) (sm : List Row) (st : CState) (rs : RoundStatus)
    (hl : env.loadFails = false) (hc : s.cfg.isComplete = true) (hfree : s.cfg.submitter = none)
    (hg : env.groups = .absent ∨ env.groups = .ok) (hsm : s.summary = some sm)
    (hcl : resubmitClosure s.n s.blockers (resubmitSelect s.n sm fl.failed fl.missing fl.successful) = .ok st)
    (h1 : env.closureFails = false) (h2 : env.resetFails = none) (h3 : env.prepFails = none)
    (h4 : env.eventsFails = false) (h5 : env.loadMgrFails = false) (h6 : env.round = some rs) :
    ∃ p, prepareForResubmission s.n { s.cfg with submitter := some env.host } s.state s.blockedBy st.cur st.upd = .ok p ∧
      (resubmitCmd env fl s).outcome = .exit (retOf rs) ∧
      (resubmitCmd env fl s).roundEntered = true ∧
      (resubmitCmd env fl s).s.rows = clearResults s.rows st.cur ∧
      (resubmitCmd env fl s).s.state = p.state ∧
      (resubmitCmd env fl s).s.blockedBy = p.blockedBy ∧
      (resubmitCmd env fl s).s.cfg = { p.cfg with submitter := none } ∧
      (resubmitCmd env fl s).s.events = s.events.map (fun _ => 0) := by
  rw [cmd_eq_tryBlock env fl s hl hc hfree hg]
  have hp := prepare_eq s.n { s.cfg with submitter := some env.host } s.state s.blockedBy st.cur st.upd hc
  refine ⟨_, hp, ?_⟩
  obtain ⟨_, hd2⟩ := demote_in_finally
  cases hev : s.events with
  | none =>
    simp only [tryBlock, trySteps, runSteps, runStep, ctx0, hsm, hcl, h1, h2, h3, h4, h5, h6, hp, hev, eventsGuard,
      hd2, release, demote_ok, Bool.false_eq_true, if_false, if_true, Option.map_none]
    simp
  | some k =>
    simp only [tryBlock, trySteps, runSteps, runStep, ctx0, hsm, hcl, h1, h2, h3, h4, h5, h6, hp, hev, eventsGuard,
      hd2, release, demote_ok, Bool.false_eq_true, if_false, if_true, Option.map_some, Bool.false_and]
    simp

theorem Cfg.eta_none (c : Cfg) (h : c.submitter = none) :
    ({ submitter := none, isComplete := c.isComplete, isCanceled := c.isCanceled,
       submitted := c.submitted, completed := c.completed } : Cfg) = c := by
  cases c; simp_all

set_option linter.unusedSimpArgs false in
/-- a failure in the closure step or in `_reset_results`: exception, role released, and the only thing
    that can have changed is that the rows of the rerun set are gone -/
theorem cmd_early_failure (env : Env) (fl : Flags) (s : Sub) (sm : List Row) (st : CState)
    (hl : env.loadFails = false) (hc : s.cfg.isComplete = true) (hfree : s.cfg.submitter = none)
    (hg : env.groups = .absent ∨ env.groups = .ok) (hsm : s.summary = some sm)
    (hcl : resubmitClosure s.n s.blockers (resubmitSelect s.n sm fl.failed fl.missing fl.successful) = .ok st)
    (hfail : env.closureFails = true ∨ env.resetFails ≠ none) :
    (resubmitCmd env fl s).outcome = .raised .ioError ∧
    (resubmitCmd env fl s).roundEntered = false ∧
    (resubmitCmd env fl s).s =
      { s with rows := if env.closureFails = false ∧ env.resetFails = some true then clearResults s.rows st.cur else s.rows } := by
  rw [cmd_eq_tryBlock env fl s hl hc hfree hg]
  obtain ⟨hd1, _⟩ := demote_in_finally
  cases hcf : env.closureFails with
  | true =>
    simp only [tryBlock, trySteps, runSteps, runStep, ctx0, hsm, hcf, hd1, release, demote_ok, if_true]
    simp
    exact Cfg.eta_none _ hfree
  | false =>
    rcases hfail with hcf' | hrf
    · rw [hcf] at hcf'; cases hcf'
    · cases hr : env.resetFails with
      | none => exact absurd hr hrf
      | some b =>
        cases b with
        | false =>
          simp only [tryBlock, trySteps, runSteps, runStep, ctx0, hsm, hcl, hcf, hr, hd1, release, demote_ok, if_true,
            Bool.false_eq_true, if_false]
          simp
          exact Cfg.eta_none _ hfree
        | true =>
          simp only [tryBlock, trySteps, runSteps, runStep, ctx0, hsm, hcl, hcf, hr, hd1, release, demote_ok, if_true,
            Bool.false_eq_true, if_false]
          simp
          exact Cfg.eta_none _ hfree

/-- after such a failure the same command, run again without failure, ends exactly where a first
    run without failure would have ended: selection reads results.json, not the pruned CSV -/
theorem cmd_repeat_after_early_failure (env env' : Env) (fl : Flags) (s : Sub) (sm : List Row) (st : CState)
    (rs : RoundStatus)
    (hl : env.loadFails = false) (hc : s.cfg.isComplete = true) (hfree : s.cfg.submitter = none)
    (hg : env.groups = .absent ∨ env.groups = .ok) (hsm : s.summary = some sm)
    (hcl : resubmitClosure s.n s.blockers (resubmitSelect s.n sm fl.failed fl.missing fl.successful) = .ok st)
    (hfail : env.closureFails = true ∨ env.resetFails ≠ none)
    (hl' : env'.loadFails = false) (hg' : env'.groups = .absent ∨ env'.groups = .ok)
    (h1 : env'.closureFails = false) (h2 : env'.resetFails = none) (h3 : env'.prepFails = none)
    (h4 : env'.eventsFails = false) (h5 : env'.loadMgrFails = false) (h6 : env'.round = some rs) :
    let r2 := resubmitCmd env' fl (resubmitCmd env fl s).s
    let r := resubmitCmd env' fl s
    r2.outcome = r.outcome ∧ r2.roundEntered = r.roundEntered ∧ r2.s.rows = r.s.rows ∧ r2.s.state = r.s.state ∧
    r2.s.blockedBy = r.s.blockedBy ∧ r2.s.cfg = r.s.cfg ∧ r2.s.events = r.s.events := by
  intro r2 r
  obtain ⟨_, _, hs1⟩ := cmd_early_failure env fl s sm st hl hc hfree hg hsm hcl hfail
  obtain ⟨p, hp, a1, a2, a3, a4, a5, a6, a7⟩ :=
    cmd_success env' fl s sm st rs hl' hc hfree hg' hsm hcl h1 h2 h3 h4 h5 h6
  have hs1' : (resubmitCmd env fl s).s = { s with rows := (resubmitCmd env fl s).s.rows } := by
    rw [hs1]
  obtain ⟨p', hp', b1, b2, b3, b4, b5, b6, b7⟩ :=
    cmd_success env' fl (resubmitCmd env fl s).s sm st rs hl' (by rw [hs1]; exact hc) (by rw [hs1]; exact hfree) hg'
      (by rw [hs1]; exact hsm) (by rw [hs1]; exact hcl) h1 h2 h3 h4 h5 h6
  have hpp : p' = p := by
    rw [hs1] at hp'
    simp only at hp'
    rw [hp] at hp'
    injection hp' with e; exact e.symm
  subst hpp
  refine ⟨by rw [b1, a1], by rw [b2, a2], ?_, by rw [b4, a4], by rw [b5, a5], by rw [b6, a6], ?_⟩
  · rw [b3, a3, hs1]
    simp only
    split
    · exact clearResults_idem _ _
    · rfl
  · rw [b7, a7, hs1]

set_option linter.unusedSimpArgs false in
/-- Every way the `try` block can end — success or any failure point — except a failure between the writes of
    `prepare_for_resubmission`: the role is released, and the files are either *untouched* apart from the rows
    of the rerun set (status as before, still complete: the command can be repeated) or *fully prepared*
    (exactly the state a successful command hands to its submit round: try-submit-jobs can act on it). -/
theorem cmd_way_forward (env : Env) (fl : Flags) (s : Sub) (hl : env.loadFails = false)
    (hc : s.cfg.isComplete = true) (hfree : s.cfg.submitter = none)
    (hg : env.groups = .absent ∨ env.groups = .ok)
    (hp1 : env.prepFails ≠ some .config) (hp2 : env.prepFails ≠ some .jobs) :
    (resubmitCmd env fl s).s.cfg.submitter = none ∧
    (((resubmitCmd env fl s).s.cfg = s.cfg ∧ (resubmitCmd env fl s).s.state = s.state ∧
      (resubmitCmd env fl s).s.blockedBy = s.blockedBy ∧
      ((resubmitCmd env fl s).pruned = false → (resubmitCmd env fl s).s.rows = s.rows) ∧
      ((resubmitCmd env fl s).pruned = true → ∃ sm st, s.summary = some sm ∧
        resubmitClosure s.n s.blockers (resubmitSelect s.n sm fl.failed fl.missing fl.successful) = .ok st ∧
        (resubmitCmd env fl s).s.rows = clearResults s.rows st.cur)) ∨
     (∃ sm st p, s.summary = some sm ∧
        resubmitClosure s.n s.blockers (resubmitSelect s.n sm fl.failed fl.missing fl.successful) = .ok st ∧
        prepareForResubmission s.n { s.cfg with submitter := some env.host } s.state s.blockedBy st.cur st.upd = .ok p ∧
        (resubmitCmd env fl s).s.state = p.state ∧ (resubmitCmd env fl s).s.blockedBy = p.blockedBy ∧
        (resubmitCmd env fl s).s.cfg = { p.cfg with submitter := none } ∧
        (resubmitCmd env fl s).s.rows = clearResults s.rows st.cur)) := by
  refine ⟨cmd_released env fl s hl hc hfree (by rcases hg with h | h <;> rw [h] <;> simp), ?_⟩
  rw [cmd_eq_tryBlock env fl s hl hc hfree hg]
  obtain ⟨hd1, hd2⟩ := demote_in_finally
  have heta := Cfg.eta_none _ hfree
  cases hsm : s.summary with
  | none =>
    left
    simp only [tryBlock, trySteps, runSteps, runStep, ctx0, hsm, hd1, release, demote_ok, if_true]
    simp [heta]
  | some sm =>
    cases hcf : env.closureFails with
    | true =>
      left
      simp only [tryBlock, trySteps, runSteps, runStep, ctx0, hsm, hcf, hd1, release, demote_ok, if_true]
      simp [heta]
    | false =>
      cases hcl : resubmitClosure s.n s.blockers (resubmitSelect s.n sm fl.failed fl.missing fl.successful) with
      | error e =>
        left
        simp only [tryBlock, trySteps, runSteps, runStep, ctx0, hsm, hcf, hcl, hd1, release, demote_ok, if_true,
          Bool.false_eq_true, if_false]
        simp [heta]
      | ok st =>
        cases hr : env.resetFails with
        | some b =>
          left
          cases b with
          | false =>
            simp only [tryBlock, trySteps, runSteps, runStep, ctx0, hsm, hcf, hcl, hr, hd1, release, demote_ok, if_true,
              Bool.false_eq_true, if_false]
            simp [heta]
          | true =>
            simp only [tryBlock, trySteps, runSteps, runStep, ctx0, hsm, hcf, hcl, hr, hd1, release, demote_ok, if_true,
              Bool.false_eq_true, if_false]
            simp [heta]
            exact ⟨st, hcl, rfl⟩
        | none =>
          right
          have hp := prepare_eq s.n { s.cfg with submitter := some env.host } s.state s.blockedBy st.cur st.upd hc
          refine ⟨sm, st, _, rfl, hcl, hp, ?_⟩
          cases hpf : env.prepFails with
          | some pf =>
            cases pf with
            | config => exact absurd hpf hp1
            | jobs => exact absurd hpf hp2
            | groups =>
              simp only [tryBlock, trySteps, runSteps, runStep, ctx0, hsm, hcf, hcl, hr, hp, hpf, hd1, release, demote_ok,
                if_true, Bool.false_eq_true, if_false]
              simp
          | none =>
            cases hev : s.events with
            | none =>
              cases hef : env.eventsFails <;> cases hlm : env.loadMgrFails <;> cases hrd : env.round <;>
                simp only [tryBlock, trySteps, runSteps, runStep, ctx0, hsm, hcf, hcl, hr, hp, hpf, hev, hef, hlm, hrd, hd1, hd2,
                  release, demote_ok, eventsGuard, if_true, Bool.false_eq_true, if_false, Bool.true_and, Bool.false_and] <;>
                simp
            | some k =>
              cases k with
              | zero =>
                cases hef : env.eventsFails <;> cases hlm : env.loadMgrFails <;> cases hrd : env.round <;>
                  simp only [tryBlock, trySteps, runSteps, runStep, ctx0, hsm, hcf, hcl, hr, hp, hpf, hev, hef, hlm, hrd, hd1, hd2,
                    release, demote_ok, eventsGuard, if_true, Bool.false_eq_true, if_false, Bool.true_and, Bool.false_and,
                    bne_self_eq_false] <;>
                  simp
              | succ k' =>
                have hk : (k' + 1 != 0) = true := by simp
                cases hef : env.eventsFails <;> cases hlm : env.loadMgrFails <;> cases hrd : env.round <;>
                  simp only [tryBlock, trySteps, runSteps, runStep, ctx0, hsm, hcf, hcl, hr, hp, hpf, hev, hef, hlm, hrd, hd1, hd2,
                    release, demote_ok, eventsGuard, if_true, Bool.false_eq_true, if_false, Bool.true_and, Bool.false_and, hk] <;>
                  simp

end Jade.Resubmit
